(* Lemmas about per-test settings resolution (C06). *)
From NextestModel Require Import Base.Str Model.Overrides.
From NextestModel Require Import Base.Tac.
Open Scope N_scope.

(* ---------------------------------------------------------------- strings, association lists *)

Lemma str_eqb_refl a : str_eqb a a = true.
Proof. induction a as [|x a IH]; cbn [str_eqb]; [reflexivity|]. rewrite N.eqb_refl, IH. reflexivity. Qed.

Lemma str_eqb_eq a b : str_eqb a b = true <-> a = b.
Proof.
  split.
  - revert b; induction a as [|x a IH]; intros [|y b] H; cbn [str_eqb] in H;
      try discriminate; [reflexivity|].
    apply andb_true_iff in H as [H1 H2]. apply N.eqb_eq in H1. apply IH in H2. congruence.
  - intros ->. apply str_eqb_refl.
Qed.

Lemma str_eqb_sym a b : str_eqb a b = str_eqb b a.
Proof.
  destruct (str_eqb a b) eqn:E.
  - apply str_eqb_eq in E. subst. symmetry. apply str_eqb_refl.
  - destruct (str_eqb b a) eqn:E'; [|reflexivity].
    apply str_eqb_eq in E'. subst. rewrite str_eqb_refl in E. discriminate.
Qed.

Lemma str_eqb_neq a b : str_eqb a b = false <-> a <> b.
Proof.
  split.
  - intros H ->. rewrite str_eqb_refl in H. discriminate.
  - intros H. destruct (str_eqb a b) eqn:E; [|reflexivity]. apply str_eqb_eq in E. contradiction.
Qed.

Section Assoc.
  Context {A : Type}.

  Lemma lookup_upsert_same k (v : A) m : lookup k (upsert k v m) = Some v.
  Proof.
    induction m as [|[k' v'] r IH]; cbn [upsert lookup].
    - rewrite str_eqb_refl. reflexivity.
    - destruct (str_eqb k k') eqn:E; cbn [lookup]; rewrite ?str_eqb_refl, ?E; auto.
  Qed.

  Lemma lookup_upsert_other k k' (v : A) m :
    str_eqb k k' = false -> lookup k (upsert k' v m) = lookup k m.
  Proof.
    intros Hne. induction m as [|[k2 v2] r IH]; cbn [upsert lookup].
    - rewrite Hne. reflexivity.
    - destruct (str_eqb k' k2) eqn:E; cbn [lookup].
      + apply str_eqb_eq in E. subst k2. rewrite Hne. reflexivity.
      + destruct (str_eqb k k2); auto.
  Qed.

  Lemma lookup_app k (a b : list (key * A)) :
    lookup k (a ++ b) = or_else (lookup k a) (lookup k b).
  Proof.
    induction a as [|[k' v] r IH]; cbn [app lookup or_else]; [reflexivity|].
    destruct (str_eqb k k'); auto.
  Qed.

  Lemma lookup_map_snd {B : Type} (g : A -> B) k (m : list (key * A)) :
    lookup k (map (fun p => (fst p, g (snd p))) m) =
    match lookup k m with Some v => Some (g v) | None => None end.
  Proof.
    induction m as [|[k' v] r IH]; cbn [map lookup fst snd]; [reflexivity|].
    destruct (str_eqb k k'); auto.
  Qed.

  Lemma nodup_keys_map_snd {B : Type} (g : A -> B) (m : list (key * A)) :
    nodup_keys (map (fun p => (fst p, g (snd p))) m) = nodup_keys m.
  Proof.
    induction m as [|[k v] r IH]; cbn [map nodup_keys fst snd]; [reflexivity|].
    rewrite IH, lookup_map_snd. destruct (lookup k r); reflexivity.
  Qed.

  Lemma lookup_filter_keys (P : key -> bool) k (m : list (key * A)) :
    lookup k (filter (fun kv => P (fst kv)) m) = if P k then lookup k m else None.
  Proof.
    induction m as [|[k' v] r IH]; cbn [filter lookup fst].
    - destruct (P k); reflexivity.
    - destruct (P k') eqn:Ek'; cbn [lookup].
      + destruct (str_eqb k k') eqn:E; [|exact IH].
        apply str_eqb_eq in E. subst k'. rewrite Ek'. reflexivity.
      + rewrite IH. destruct (str_eqb k k') eqn:E; [|reflexivity].
        apply str_eqb_eq in E. subst k'. rewrite Ek'. reflexivity.
  Qed.

  Lemma nodup_keys_filter (P : key -> bool) (m : list (key * A)) :
    nodup_keys m = true -> nodup_keys (filter (fun kv => P (fst kv)) m) = true.
  Proof.
    induction m as [|[k v] r IH]; cbn [filter nodup_keys fst]; [reflexivity|].
    intros H. apply andb_true_iff in H as [H1 H2].
    destruct (P k) eqn:Ek; cbn [nodup_keys]; [|auto].
    rewrite IH by assumption. rewrite lookup_filter_keys, Ek.
    rewrite H1. reflexivity.
  Qed.
End Assoc.

(* ---------------------------------------------------------------- override order *)

Definition olist (c : compiled) (n : key) : list override :=
  match lookup n (c_other c) with Some l => l | None => [] end.

Lemma profile_overrides_olist c n : profile_overrides c n = olist c n ++ c_default c.
Proof. unfold profile_overrides, olist, chain. destruct (lookup n (c_other c)); reflexivity. Qed.

Lemma olist_finalize c n : olist (finalize c) n = rev (olist c n).
Proof.
  unfold olist, finalize; cbn [c_other]. rewrite (lookup_map_snd (@rev override)).
  destruct (lookup n (c_other c)); reflexivity.
Qed.

(* one file's entries folded into the map *)
Lemma fold_add_other n es : forall c,
  nodup_keys es = true ->
  lookup n (fold_left add_other es c) =
  match lookup n es with
  | None => lookup n c
  | Some ovs => Some (match lookup n c with Some old => old | None => [] end ++ rev ovs)
  end.
Proof.
  induction es as [|[k o] r IH]; intros c Hnd; cbn [fold_left lookup]; [reflexivity|].
  cbn [nodup_keys] in Hnd. apply andb_true_iff in Hnd as [Hk Hr].
  rewrite IH by assumption.
  destruct (str_eqb n k) eqn:E.
  - apply str_eqb_eq in E. subst k.
    destruct (lookup n r); [discriminate|].
    unfold add_other; cbn [fst snd].
    destruct (lookup n c) as [old|] eqn:Ec.
    + rewrite lookup_upsert_same. reflexivity.
    + rewrite lookup_app, Ec. cbn [or_else lookup]. rewrite str_eqb_refl. reflexivity.
  - assert (Hc : lookup n (add_other c (k, o)) = lookup n c).
    { unfold add_other; cbn [fst snd]. destruct (lookup k c) as [old|] eqn:Ec.
      - apply lookup_upsert_other. exact E.
      - rewrite lookup_app. cbn [lookup]. rewrite E. destruct (lookup n c); reflexivity. }
    rewrite Hc. reflexivity.
Qed.

Lemma lookup_file_others n f :
  lookup n (file_others f) =
  if is_default n then None
  else match lookup n (f_profiles f) with Some pc => Some (pc_overrides pc) | None => None end.
Proof.
  unfold file_others. rewrite (lookup_map_snd pc_overrides).
  rewrite (lookup_filter_keys (fun k => negb (is_default k))).
  destruct (is_default n); reflexivity.
Qed.

Lemma nodup_file_others f : nodup_keys (f_profiles f) = true -> nodup_keys (file_others f) = true.
Proof.
  intros H. unfold file_others. rewrite (nodup_keys_map_snd pc_overrides).
  apply (nodup_keys_filter (fun k => negb (is_default k))). exact H.
Qed.

Lemma olist_process_file c f n :
  nodup_keys (f_profiles f) = true ->
  olist (process_file c f) n = olist c n ++ (if is_default n then [] else rev (ovs_of n f)).
Proof.
  intros Hnd. unfold olist, process_file; cbn [c_other].
  rewrite fold_add_other by (apply nodup_file_others; exact Hnd).
  rewrite lookup_file_others. unfold ovs_of.
  destruct (is_default n).
  - rewrite app_nil_r. reflexivity.
  - destruct (lookup n (f_profiles f)) as [pc|]; [reflexivity|].
    cbn [rev]. rewrite app_nil_r. reflexivity.
Qed.

Definition files_nodup (fs : list file) : Prop :=
  forall f, In f fs -> nodup_keys (f_profiles f) = true.

Lemma fold_process_default fs : forall c,
  c_default (fold_left process_file fs c) =
  c_default c ++ flat_map (fun f => rev (ovs_of default_name f)) fs.
Proof.
  induction fs as [|f r IH]; intros c; cbn [fold_left flat_map].
  - rewrite app_nil_r. reflexivity.
  - rewrite IH. unfold process_file at 1; cbn [c_default]. unfold extend_reverse.
    rewrite app_assoc. reflexivity.
Qed.

Lemma fold_process_olist n fs : forall c,
  files_nodup fs ->
  olist (fold_left process_file fs c) n =
  olist c n ++ (if is_default n then [] else flat_map (fun f => rev (ovs_of n f)) fs).
Proof.
  induction fs as [|f r IH]; intros c Hnd; cbn [fold_left flat_map].
  - destruct (is_default n); rewrite app_nil_r; reflexivity.
  - rewrite IH by (intros g Hg; apply Hnd; right; exact Hg).
    rewrite olist_process_file by (apply Hnd; left; reflexivity).
    destruct (is_default n); rewrite <- ?app_assoc; reflexivity.
Qed.

Lemma rev_flat_map_rev {A B : Type} (g : A -> list B) (l : list A) :
  rev (flat_map (fun x => rev (g x)) l) = flat_map g (rev l).
Proof.
  induction l as [|x r IH]; cbn [flat_map rev]; [reflexivity|].
  rewrite rev_app_distr, rev_involutive, IH.
  rewrite flat_map_app. cbn [flat_map]. rewrite app_nil_r. reflexivity.
Qed.

Lemma files_nodup_of_wf repo tools :
  wf_file repo = true -> forallb wf_file tools = true -> files_nodup (rev tools ++ [repo]).
Proof.
  intros Hr Ht f Hin. apply in_app_or in Hin as [Hin|[<-|[]]].
  - apply in_rev in Hin. rewrite forallb_forall in Ht. specialize (Ht f Hin).
    unfold wf_file in Ht. apply andb_true_iff in Ht as [H _]. exact H.
  - unfold wf_file in Hr. apply andb_true_iff in Hr as [H _]. exact H.
Qed.

Theorem override_order repo tools sel :
  wf_file repo = true -> forallb wf_file tools = true ->
  profile_overrides (read_compiled repo tools) sel = ordered_overrides repo tools sel.
Proof.
  intros Hr Ht. rewrite profile_overrides_olist. unfold read_compiled.
  rewrite olist_finalize. unfold finalize at 1; cbn [c_default].
  rewrite fold_process_default, fold_process_olist by (apply files_nodup_of_wf; assumption).
  unfold compiled_init, olist; cbn [c_default c_other lookup app].
  unfold ordered_overrides, by_priority.
  assert (Hrev : rev (rev tools ++ [repo]) = repo :: tools).
  { rewrite rev_app_distr, rev_involutive. reflexivity. }
  rewrite (rev_flat_map_rev (ovs_of default_name)), Hrev.
  destruct (is_default sel).
  - reflexivity.
  - rewrite (rev_flat_map_rev (ovs_of sel)), Hrev. reflexivity.
Qed.

(* ---------------------------------------------------------------- the single pass *)

Definition hits (e : env) (bp : bplat) (t : test) (s : setting) (o : override) : bool :=
  applies e bp t o && is_some (data_get s (ov_data o)).

Lemma skips_applies e bp t o : skips e t (apply_bp e bp o, o) = negb (applies e bp t o).
Proof.
  unfold skips, applies, platform_ok.
  destruct (st_host (apply_bp e bp o)), (t_host t), (st_host_test (apply_bp e bp o)),
    (st_target (apply_bp e bp o)), (filter_of o) as [f|]; cbn; try reflexivity;
    destruct (e_filter e f (t_id t)); reflexivity.
Qed.

Lemma fold_step e bp t s ovl : forall acc,
  fold_left (step e t) (map (fun o => (apply_bp e bp o, o)) ovl) acc s =
  match acc s with
  | Some v => Some v
  | None => match find (hits e bp t s) ovl with
            | Some o => data_get s (ov_data o)
            | None => None
            end
  end.
Proof.
  induction ovl as [|o r IH]; intros acc; cbn [map fold_left find].
  - destruct (acc s); reflexivity.
  - rewrite IH. unfold step at 1. rewrite skips_applies. unfold hits at 2.
    destruct (applies e bp t o); cbn [negb andb snd].
    + destruct (acc s); [reflexivity|].
      destruct (data_get s (ov_data o)) eqn:E; cbn [is_some]; [rewrite E|]; reflexivity.
    + reflexivity.
Qed.

Theorem pass_first_match e bp t s ovl :
  pass e t (map (fun o => (apply_bp e bp o, o)) ovl) s =
  match find (hits e bp t s) ovl with
  | Some o => data_get s (ov_data o)
  | None => None
  end.
Proof. unfold pass. rewrite fold_step. reflexivity. Qed.

Theorem first_match_wins e bp builtin repo tools sel t s :
  wf_file repo = true -> forallb wf_file tools = true ->
  settings_for e bp builtin repo tools sel t s =
  match find (hits e bp t s) (ordered_overrides repo tools sel) with
  | Some o => data_get s (ov_data o)
  | None => profile_value (custom_profile builtin repo tools sel)
                          (default_profile builtin repo tools) s
  end.
Proof.
  intros Hr Ht. unfold settings_for, settings_with, compiled_for.
  rewrite override_order by assumption. rewrite pass_first_match.
  destruct (find (hits e bp t s) (ordered_overrides repo tools sel)) as [o|] eqn:E.
  - apply find_some in E as [_ E]. unfold hits in E. apply andb_true_iff in E as [_ E].
    destruct (data_get s (ov_data o)); [reflexivity|discriminate].
  - reflexivity.
Qed.

(* ---------------------------------------------------------------- profile-level layering *)

Definition olookup {A : Type} (k : key) (m : option (list (key * A))) : option A :=
  match m with Some x => lookup k x | None => None end.

(* what file f says about key k of profile n *)
Definition binding (n k : key) (f : file) : option sval := olookup k (layer_settings n f).

Definition slot_step (a b : option sval) : option sval :=
  match b with Some v => Some (merge_sval a v) | None => a end.

Definition slot_from (a : option sval) (bs : list (option sval)) : option sval :=
  fold_left slot_step bs a.

Definition slot (bs : list (option sval)) : option sval := slot_from None bs.

(* processing order of the composite builder *)
Definition layers (builtin repo : file) (tools : list file) : list file :=
  builtin :: rev tools ++ [repo].

Lemma layers_rev builtin repo tools :
  rev (layers builtin repo tools) = by_priority repo tools ++ [builtin].
Proof.
  unfold layers, by_priority. cbn [rev]. rewrite rev_app_distr, rev_involutive. reflexivity.
Qed.

Lemma lookup_In {A : Type} k (m : list (key * A)) v : lookup k m = Some v -> In (k, v) m.
Proof.
  induction m as [|[k' v'] r IH]; cbn [lookup]; [discriminate|].
  destruct (str_eqb k k') eqn:E.
  - apply str_eqb_eq in E. subst k'. intros [= ->]. left; reflexivity.
  - intros H. right. auto.
Qed.

Lemma lookup_fold_merge k new : forall old,
  nodup_keys new = true ->
  lookup k (fold_left (fun acc kv => upsert (fst kv) (merge_sval (lookup (fst kv) acc) (snd kv)) acc)
                      new old) =
  match lookup k new with
  | Some v => Some (merge_sval (lookup k old) v)
  | None => lookup k old
  end.
Proof.
  induction new as [|[k' v] r IH]; intros old Hnd; cbn [fold_left lookup fst snd]; [reflexivity|].
  cbn [nodup_keys] in Hnd. apply andb_true_iff in Hnd as [Hk Hr].
  rewrite IH by assumption.
  destruct (str_eqb k k') eqn:E.
  - apply str_eqb_eq in E. subst k'. destruct (lookup k r); [discriminate|].
    rewrite lookup_upsert_same. reflexivity.
  - rewrite lookup_upsert_other by exact E. reflexivity.
Qed.

Lemma lookup_fold_upsert {A : Type} sk (m : list (key * A)) : forall base,
  nodup_keys m = true ->
  lookup sk (fold_left (fun acc kv => upsert (fst kv) (snd kv) acc) m base) =
  or_else (lookup sk m) (lookup sk base).
Proof.
  induction m as [|[k' v] r IH]; intros base Hnd; cbn [fold_left lookup fst snd or_else];
    [reflexivity|].
  cbn [nodup_keys] in Hnd. apply andb_true_iff in Hnd as [Hk Hr].
  rewrite IH by assumption.
  destruct (str_eqb sk k') eqn:E.
  - apply str_eqb_eq in E. subst k'. destruct (lookup sk r); [discriminate|].
    rewrite lookup_upsert_same. reflexivity.
  - rewrite lookup_upsert_other by exact E. reflexivity.
Qed.

Lemma wf_pcfg_of f n pc :
  wf_file f = true -> lookup n (f_profiles f) = Some pc -> wf_pcfg pc = true.
Proof.
  intros Hwf Hl. unfold wf_file in Hwf. apply andb_true_iff in Hwf as [_ Hall].
  rewrite forallb_forall in Hall. apply lookup_In in Hl. exact (Hall _ Hl).
Qed.

Lemma wf_binding f n k m :
  wf_file f = true -> binding n k f = Some (VTable m) -> nodup_keys m = true.
Proof.
  intros Hwf Hb. unfold binding, layer_settings, olookup in Hb.
  destruct (lookup n (f_profiles f)) as [pc|] eqn:El; [|discriminate].
  pose proof (wf_pcfg_of _ _ _ Hwf El) as Hpc. unfold wf_pcfg in Hpc.
  apply andb_true_iff in Hpc as [_ Hall]. rewrite forallb_forall in Hall.
  apply lookup_In in Hb. exact (Hall _ Hb).
Qed.

Lemma olookup_merge_layer n k acc f :
  wf_file f = true ->
  olookup k (merge_layer n acc f) = slot_step (olookup k acc) (binding n k f).
Proof.
  intros Hwf. unfold merge_layer, binding, layer_settings.
  destruct (lookup n (f_profiles f)) as [pc|] eqn:El; cbn [olookup slot_step]; [|reflexivity].
  pose proof (wf_pcfg_of _ _ _ Hwf El) as Hpc. unfold wf_pcfg in Hpc.
  apply andb_true_iff in Hpc as [Hnd _].
  unfold merge_settings. rewrite lookup_fold_merge by exact Hnd.
  destruct (lookup k (pc_settings pc)); destruct acc; reflexivity.
Qed.

Lemma olookup_fold_layers n k fs : forall acc,
  (forall f, In f fs -> wf_file f = true) ->
  olookup k (fold_left (merge_layer n) fs acc) =
  slot_from (olookup k acc) (map (binding n k) fs).
Proof.
  induction fs as [|f r IH]; intros acc Hwf; cbn [fold_left map]; [reflexivity|].
  rewrite IH by (intros g Hg; apply Hwf; right; exact Hg).
  rewrite olookup_merge_layer by (apply Hwf; left; reflexivity). reflexivity.
Qed.

Lemma layers_wf builtin repo tools :
  wf_file builtin = true -> wf_file repo = true -> forallb wf_file tools = true ->
  forall f, In f (layers builtin repo tools) -> wf_file f = true.
Proof.
  intros Hb Hr Ht f [<-|Hin]; [exact Hb|].
  apply in_app_or in Hin as [Hin|[<-|[]]]; [|exact Hr].
  apply in_rev in Hin. rewrite forallb_forall in Ht. exact (Ht _ Hin).
Qed.

(* each key's slot of the built configuration evolves on its own: it is the fold of the files'
   bindings of that key, lowest priority first *)
Theorem merged_key_slot builtin repo tools n k :
  wf_file builtin = true -> wf_file repo = true -> forallb wf_file tools = true ->
  olookup k (merged_profile builtin repo tools n) =
  slot (map (binding n k) (layers builtin repo tools)).
Proof.
  intros Hb Hr Ht. unfold merged_profile.
  change (builtin :: rev tools ++ [repo]) with (layers builtin repo tools).
  rewrite olookup_fold_layers by (apply layers_wf; assumption). reflexivity.
Qed.

Lemma slot_from_snoc a bs b : slot_from a (bs ++ [b]) = slot_step (slot_from a bs) b.
Proof. unfold slot_from. rewrite fold_left_app. reflexivity. Qed.

Lemma first_some_app {A : Type} (l1 l2 : list (option A)) :
  first_some (l1 ++ l2) = or_else (first_some l1) (first_some l2).
Proof.
  induction l1 as [|x r IH]; cbn [app first_some fold_right or_else]; [reflexivity|].
  fold (first_some (r ++ l2)). fold (first_some r). rewrite IH. destruct x; reflexivity.
Qed.

Lemma first_some_rev_snoc {A : Type} (bs : list (option A)) b :
  first_some (rev (bs ++ [b])) = or_else b (first_some (rev bs)).
Proof. rewrite rev_app_distr. cbn [rev app]. reflexivity. Qed.

Lemma first_some_In {A : Type} (l : list (option A)) v : first_some l = Some v -> In (Some v) l.
Proof.
  induction l as [|x r IH]; cbn [first_some fold_right]; [discriminate|].
  fold (first_some r). destruct x as [a|]; cbn [or_else].
  - intros [= ->]. left; reflexivity.
  - intros H. right. auto.
Qed.

Lemma mem_str_In x l : mem_str x l = true <-> In x l.
Proof.
  induction l as [|y r IH]; cbn [mem_str In]; [split; [discriminate|tauto]|].
  rewrite orb_true_iff, IH, str_eqb_eq. split; intros [H|H]; auto.
Qed.

Lemma lookup_some_mem {A : Type} k (m : list (key * A)) v :
  lookup k m = Some v -> In k (map fst m).
Proof. intros H. apply lookup_In in H. apply (in_map fst) in H. exact H. Qed.

Lemma lookup_none_not_mem {A : Type} k (m : list (key * A)) :
  lookup k m = None -> ~ In k (map fst m).
Proof.
  induction m as [|[k' v] r IH]; cbn [lookup map fst In]; [tauto|].
  destruct (str_eqb k k') eqn:E; [discriminate|].
  intros H [Heq|Hin]; [|exact (IH H Hin)].
  subst k'. rewrite str_eqb_refl in E. discriminate.
Qed.

Lemma same_keys_incl a b : same_keys a b = true -> forall x, In x a -> In x b.
Proof.
  unfold same_keys. intros H x Hx. apply andb_true_iff in H as [H _].
  rewrite forallb_forall in H. apply mem_str_In. exact (H x Hx).
Qed.

Lemma same_keys_refl a : same_keys a a = true.
Proof.
  unfold same_keys. assert (H : forallb (fun x => mem_str x a) a = true).
  { apply forallb_forall. intros x Hx. apply mem_str_In. exact Hx. }
  rewrite H. reflexivity.
Qed.

Lemma same_keys_sym a b : same_keys a b = same_keys b a.
Proof. unfold same_keys. apply andb_comm. Qed.

Lemma all_same_keys_pairwise l :
  all_same_keys l = true -> forall a b, In a l -> In b l -> same_keys a b = true.
Proof.
  induction l as [|x r IH]; cbn [all_same_keys]; intros H a b Ha Hb; [destruct Ha|].
  apply andb_true_iff in H as [Hx Hr]. rewrite forallb_forall in Hx.
  destruct Ha as [<-|Ha], Hb as [<-|Hb].
  - apply same_keys_refl.
  - exact (Hx _ Hb).
  - rewrite same_keys_sym. exact (Hx _ Ha).
  - exact (IH Hr _ _ Ha Hb).
Qed.

Definition tables_wf (bs : list (option sval)) : Prop :=
  forall m, In (Some (VTable m)) bs -> nodup_keys m = true.

Definition tables_agree (bs : list (option sval)) : Prop :=
  forall m1 m2, In (Some (VTable m1)) bs -> In (Some (VTable m2)) bs ->
                same_keys (map fst m1) (map fst m2) = true.

Definition base_of (v : option sval) : list (key * atom) :=
  match v with Some (VTable b) => b | _ => [] end.

Lemma lookup_base_of v sk : lookup sk (base_of v) = sub v sk.
Proof. destruct v as [[a|b]|]; reflexivity. Qed.

Lemma slot_step_table a m sk :
  nodup_keys m = true ->
  sub (slot_step a (Some (VTable m))) sk = or_else (lookup sk m) (sub a sk).
Proof.
  intros Hnd. cbn [slot_step merge_sval sub].
  change (match a with Some (VTable b) => b | _ => [] end) with (base_of a).
  rewrite lookup_fold_upsert by exact Hnd. rewrite lookup_base_of. reflexivity.
Qed.

(* whole-value precedence holds when all tables given for the key have the same sub-keys *)
Lemma slot_whole bs :
  tables_wf bs -> tables_agree bs -> osval_ext (slot bs) (first_some (rev bs)).
Proof.
  induction bs as [|b bs IH] using rev_ind; intros Hwf Hag; [exact I|].
  assert (Hwf' : tables_wf bs) by (intros m Hm; apply Hwf, in_or_app; left; exact Hm).
  assert (Hag' : tables_agree bs)
    by (intros m1 m2 H1 H2; apply Hag; apply in_or_app; left; assumption).
  specialize (IH Hwf' Hag').
  unfold slot in *. rewrite slot_from_snoc, first_some_rev_snoc.
  destruct b as [[a|m]|]; cbn [slot_step or_else merge_sval osval_ext sval_ext].
  - reflexivity.
  - intros sk.
    assert (Hnd : nodup_keys m = true) by (apply Hwf, in_or_app; right; left; reflexivity).
    change (match slot_from None bs with Some (VTable b) => b | _ => [] end)
      with (base_of (slot_from None bs)).
    rewrite lookup_fold_upsert by exact Hnd. rewrite lookup_base_of.
    destruct (lookup sk m) as [x|] eqn:Em; cbn [or_else]; [reflexivity|].
    destruct (slot_from None bs) as [[a|b0]|] eqn:Es; cbn [sub]; try reflexivity.
    destruct (first_some (rev bs)) as [[a|m0]|] eqn:Ew; cbn [osval_ext sval_ext] in IH;
      try contradiction.
    rewrite IH.
    destruct (lookup sk m0) as [y|] eqn:E0; [|reflexivity].
    exfalso. apply first_some_In in Ew. apply in_rev in Ew.
    assert (Hsame : same_keys (map fst m0) (map fst m) = true).
    { apply Hag; apply in_or_app; [left; exact Ew|right; left; reflexivity]. }
    apply lookup_some_mem in E0. apply (same_keys_incl _ _ Hsame) in E0.
    exact (lookup_none_not_mem _ _ Em E0).
  - exact IH.
Qed.

(* leaf-key precedence for a key that is only ever given as a table *)
Lemma slot_leaf_key bs sk :
  tables_wf bs -> (forall a, ~ In (Some (VLeaf a)) bs) ->
  sub (slot bs) sk = first_some (map (fun b => sub b sk) (rev bs)).
Proof.
  induction bs as [|b bs IH] using rev_ind; intros Hwf Hnl; [reflexivity|].
  assert (Hwf' : tables_wf bs) by (intros m Hm; apply Hwf, in_or_app; left; exact Hm).
  assert (Hnl' : forall a, ~ In (Some (VLeaf a)) bs)
    by (intros a Ha; apply (Hnl a), in_or_app; left; exact Ha).
  specialize (IH Hwf' Hnl').
  unfold slot in *. rewrite slot_from_snoc, rev_app_distr. cbn [rev app map first_some fold_right].
  fold (first_some (map (fun b0 => sub b0 sk) (rev bs))). rewrite <- IH.
  destruct b as [[a|m]|].
  - exfalso. apply (Hnl a), in_or_app. right; left; reflexivity.
  - rewrite slot_step_table by (apply Hwf, in_or_app; right; left; reflexivity). reflexivity.
  - reflexivity.
Qed.

(* a scalar given by the highest-priority file that gives the key wins as a whole *)
Lemma slot_scalar bs a : first_some (rev bs) = Some (VLeaf a) -> slot bs = Some (VLeaf a).
Proof.
  induction bs as [|b bs IH] using rev_ind; [discriminate|].
  unfold slot in *. rewrite slot_from_snoc, first_some_rev_snoc.
  destruct b as [[a'|m]|]; cbn [or_else slot_step merge_sval].
  - intros [= ->]. reflexivity.
  - discriminate.
  - exact IH.
Qed.

Lemma whole_value_bindings builtin repo tools n k :
  whole_value builtin repo tools n k =
  first_some (rev (map (binding n k) (layers builtin repo tools))).
Proof. rewrite <- map_rev, layers_rev. reflexivity. Qed.

Lemma leaf_value_bindings builtin repo tools n k sk :
  leaf_value builtin repo tools n k sk =
  first_some (map (fun b => sub b sk) (rev (map (binding n k) (layers builtin repo tools)))).
Proof.
  rewrite <- map_rev, layers_rev, map_map. unfold leaf_value. f_equal. apply map_ext.
  intros f. unfold binding, olookup. destruct (layer_settings n f); reflexivity.
Qed.

Lemma bindings_tables_wf builtin repo tools n k :
  wf_file builtin = true -> wf_file repo = true -> forallb wf_file tools = true ->
  tables_wf (map (binding n k) (layers builtin repo tools)).
Proof.
  intros Hb Hr Ht m Hm. apply in_map_iff in Hm as [f [Hf Hin]].
  exact (wf_binding _ _ _ _ (layers_wf _ _ _ Hb Hr Ht f Hin) Hf).
Qed.

Lemma bindings_tables_agree builtin repo tools n k :
  known_f8 builtin repo tools n k = false ->
  tables_agree (map (binding n k) (layers builtin repo tools)).
Proof.
  unfold known_f8. intros Hk. apply negb_false_iff in Hk.
  assert (Hin : forall m, In (Some (VTable m)) (map (binding n k) (layers builtin repo tools)) ->
                          In (map fst m) (tables_of builtin repo tools n k)).
  { intros m Hm. apply in_map_iff in Hm as [f [Hf Hinf]].
    unfold tables_of. apply in_flat_map. exists f. split.
    - rewrite <- layers_rev. apply -> in_rev. exact Hinf.
    - unfold binding, olookup in Hf. rewrite Hf. left; reflexivity. }
  intros m1 m2 H1 H2. exact (all_same_keys_pairwise _ Hk _ _ (Hin _ H1) (Hin _ H2)).
Qed.

Theorem whole_value_outside_known builtin repo tools n k :
  wf_file builtin = true -> wf_file repo = true -> forallb wf_file tools = true ->
  known_f8 builtin repo tools n k = false ->
  osval_ext (olookup k (merged_profile builtin repo tools n))
            (whole_value builtin repo tools n k).
Proof.
  intros Hb Hr Ht Hk. rewrite merged_key_slot by assumption. rewrite whole_value_bindings.
  apply slot_whole.
  - apply bindings_tables_wf; assumption.
  - apply bindings_tables_agree; assumption.
Qed.

Theorem leaf_key_precedence builtin repo tools n k sk :
  wf_file builtin = true -> wf_file repo = true -> forallb wf_file tools = true ->
  (forall f a, In f (by_priority repo tools ++ [builtin]) -> binding n k f <> Some (VLeaf a)) ->
  sub (olookup k (merged_profile builtin repo tools n)) sk =
  leaf_value builtin repo tools n k sk.
Proof.
  intros Hb Hr Ht Hnl. rewrite merged_key_slot by assumption. rewrite leaf_value_bindings.
  apply slot_leaf_key.
  - apply bindings_tables_wf; assumption.
  - intros a Ha. apply in_map_iff in Ha as [f [Hf Hin]].
    apply (Hnl f a); [|exact Hf]. rewrite <- layers_rev. apply -> in_rev. exact Hin.
Qed.

Theorem scalar_precedence builtin repo tools n k a :
  wf_file builtin = true -> wf_file repo = true -> forallb wf_file tools = true ->
  whole_value builtin repo tools n k = Some (VLeaf a) ->
  olookup k (merged_profile builtin repo tools n) = Some (VLeaf a).
Proof.
  intros Hb Hr Ht Hw. rewrite merged_key_slot by assumption.
  apply slot_scalar. rewrite <- whole_value_bindings. exact Hw.
Qed.

(* ---------------------------------------------------------------- independence *)

Definition ptuple : Type := option str * option str * ofilter * option sval.
Definition pfile : Type := list (key * (option sval * list ptuple)).

Definition applies_raw (e : env) (bp : bplat) (t : test) (h tg : option str) (f : ofilter) : bool :=
  applies e bp t {| ov_host := h; ov_target := tg; ov_filter := f; ov_data := [] |}.

Lemma applies_raw_eq e bp t o :
  applies e bp t o = applies_raw e bp t (ov_host o) (ov_target o) (ov_filter o).
Proof. reflexivity. Qed.

Fixpoint pass_proj (e : env) (bp : bplat) (t : test) (ps : list ptuple) : option sval :=
  match ps with
  | [] => None
  | (h, tg, f, v) :: r =>
      if applies_raw e bp t h tg f
      then match v with Some x => Some x | None => pass_proj e bp t r end
      else pass_proj e bp t r
  end.

Lemma find_hits_proj e bp t s ovl :
  match find (hits e bp t s) ovl with Some o => data_get s (ov_data o) | None => None end =
  pass_proj e bp t (map (proj_ov s) ovl).
Proof.
  induction ovl as [|o r IH]; cbn [find map pass_proj proj_ov]; [reflexivity|].
  unfold hits at 1. rewrite applies_raw_eq.
  destruct (applies_raw e bp t (ov_host o) (ov_target o) (ov_filter o)); cbn [andb]; [|exact IH].
  destruct (data_get s (ov_data o)) eqn:E; cbn [is_some]; [exact E|exact IH].
Qed.

Definition povs (n : key) (pf : pfile) : list ptuple :=
  match lookup n pf with Some p => snd p | None => [] end.

Definition pbinding (n : key) (pf : pfile) : option sval :=
  match lookup n pf with Some p => fst p | None => None end.

Lemma map_proj_ovs_of s n f : map (proj_ov s) (ovs_of n f) = povs n (proj_file s f).
Proof.
  unfold povs, proj_file, ovs_of. rewrite (lookup_map_snd (proj_pcfg s)).
  destruct (lookup n (f_profiles f)); reflexivity.
Qed.

Lemma map_flat_map {A B C : Type} (g : B -> C) (h : A -> list B) (l : list A) :
  map g (flat_map h l) = flat_map (fun x => map g (h x)) l.
Proof.
  induction l as [|x r IH]; cbn [flat_map map]; [reflexivity|]. rewrite map_app, IH. reflexivity.
Qed.

Lemma flat_map_map {A B C : Type} (g : A -> B) (h : B -> list C) (l : list A) :
  flat_map h (map g l) = flat_map (fun x => h (g x)) l.
Proof. induction l as [|x r IH]; cbn [flat_map map]; [reflexivity|]. rewrite IH. reflexivity. Qed.

Definition pordered (prepo : pfile) (ptools : list pfile) (sel : key) : list ptuple :=
  (if is_default sel then [] else flat_map (povs sel) (prepo :: ptools))
  ++ flat_map (povs default_name) (prepo :: ptools).

Lemma map_proj_ordered s repo tools sel :
  map (proj_ov s) (ordered_overrides repo tools sel) =
  pordered (proj_file s repo) (map (proj_file s) tools) sel.
Proof.
  unfold ordered_overrides, pordered, by_priority. rewrite map_app.
  change (proj_file s repo :: map (proj_file s) tools) with (map (proj_file s) (repo :: tools)).
  rewrite !flat_map_map.
  assert (H : forall n, map (proj_ov s) (flat_map (ovs_of n) (repo :: tools)) =
                        flat_map (fun x => povs n (proj_file s x)) (repo :: tools)).
  { intros n. rewrite map_flat_map. apply flat_map_ext. intros f. apply map_proj_ovs_of. }
  rewrite H. destruct (is_default sel); [reflexivity|]. rewrite H. reflexivity.
Qed.

Definition orestrict (s : setting) (v : option sval) : option sval :=
  match v with Some x => Some (restrict_sval s x) | None => None end.

Lemma pbinding_proj s n k f :
  setting_key s = Some k -> pbinding n (proj_file s f) = orestrict s (binding n k f).
Proof.
  intros Hk. unfold pbinding, proj_file, binding, layer_settings, olookup.
  rewrite (lookup_map_snd (proj_pcfg s)).
  destruct (lookup n (f_profiles f)) as [pc|]; [|reflexivity].
  cbn [fst proj_pcfg]. unfold proj_settings. rewrite Hk.
  destruct (lookup k (pc_settings pc)); reflexivity.
Qed.

Lemma filter_upsert {A : Type} (P : key -> bool) k (a : A) base :
  filter (fun kv => P (fst kv)) (upsert k a base) =
  if P k then upsert k a (filter (fun kv => P (fst kv)) base)
  else filter (fun kv => P (fst kv)) base.
Proof.
  induction base as [|[k' v'] r IH]; cbn [upsert filter fst].
  - destruct (P k); reflexivity.
  - destruct (str_eqb k k') eqn:E.
    + apply str_eqb_eq in E. subst k'. cbn [filter fst].
      destruct (P k); cbn [upsert]; rewrite ?str_eqb_refl; reflexivity.
    + cbn [filter fst]. rewrite IH.
      destruct (P k'), (P k); cbn [upsert]; rewrite ?E; reflexivity.
Qed.

Lemma filter_fold_upsert {A : Type} (P : key -> bool) (m : list (key * A)) : forall base,
  filter (fun kv => P (fst kv)) (fold_left (fun acc kv => upsert (fst kv) (snd kv) acc) m base) =
  fold_left (fun acc kv => upsert (fst kv) (snd kv) acc) (filter (fun kv => P (fst kv)) m)
            (filter (fun kv => P (fst kv)) base).
Proof.
  induction m as [|[k a] r IH]; intros base; cbn [fold_left filter fst snd]; [reflexivity|].
  rewrite IH, filter_upsert. destruct (P k); reflexivity.
Qed.

Lemma restrict_plain s v : relevant_subkeys s = None -> restrict_sval s v = v.
Proof. intros H. unfold restrict_sval. rewrite H. reflexivity. Qed.

Lemma restrict_merge s old new :
  restrict_sval s (merge_sval old new) = merge_sval (orestrict s old) (restrict_sval s new).
Proof.
  destruct (relevant_subkeys s) as [ks|] eqn:Er.
  - unfold orestrict, restrict_sval. rewrite Er.
    destruct new as [a|m]; cbn [merge_sval]; [reflexivity|].
    rewrite (filter_fold_upsert (fun k => mem_str k ks)).
    destruct old as [[a|b]|]; reflexivity.
  - rewrite !restrict_plain by exact Er.
    destruct old as [x|]; cbn [orestrict]; [rewrite restrict_plain by exact Er|]; reflexivity.
Qed.

Lemma orestrict_slot_from s bs : forall a,
  orestrict s (slot_from a bs) = slot_from (orestrict s a) (map (orestrict s) bs).
Proof.
  unfold slot_from. induction bs as [|b r IH]; intros a; cbn [fold_left map]; [reflexivity|].
  rewrite IH. f_equal. destruct b as [v|]; cbn [slot_step orestrict]; [|reflexivity].
  rewrite restrict_merge. reflexivity.
Qed.

Lemma sub_orestrict s v x ks :
  relevant_subkeys s = Some ks -> mem_str x ks = true -> sub (orestrict s v) x = sub v x.
Proof.
  intros Hr Hx. destruct v as [[a|m]|]; cbn [orestrict]; [| |reflexivity];
    unfold restrict_sval; rewrite Hr; cbn [sub]; [reflexivity|].
  rewrite (lookup_filter_keys (fun k => mem_str k ks)), Hx. reflexivity.
Qed.

(* the profile-level value as a function of the two looked-up values *)
Definition jcore (hc : bool) (cv dv : option sval) (sk : key) : option sval :=
  if is_some (sub (if hc then cv else dv) k_path)
  then match or_else (sub cv sk) (sub dv sk) with Some a => Some (VLeaf a) | None => None end
  else Some (VLeaf a_false).

Definition pv_core (s : setting) (hc : bool) (cv dv : option sval) : option sval :=
  match s with
  | SPriority => Some (VLeaf a_zero)
  | STestGroup => Some (VLeaf a_global)
  | SJunitSuccess => jcore hc cv dv k_store_success
  | SJunitFailure => jcore hc cv dv k_store_failure
  | _ => or_else cv dv
  end.

Definition keyed {A : Type} (s : setting) (g : key -> option A) : option A :=
  match setting_key s with Some k => g k | None => None end.

Lemma profile_value_core custom dflt s :
  profile_value custom dflt s =
  pv_core s (is_some custom) (keyed s (fun k => olookup k custom)) (keyed s (fun k => lookup k dflt)).
Proof. destruct s, custom; reflexivity. Qed.

Lemma pv_core_restrict s hc cv dv :
  pv_core s hc cv dv = pv_core s hc (orestrict s cv) (orestrict s dv).
Proof.
  destruct s; cbn [pv_core]; try reflexivity;
    try (destruct cv, dv; reflexivity).
  - unfold jcore.
    rewrite !(sub_orestrict SJunitSuccess _ k_store_success _ eq_refl eq_refl).
    destruct hc; rewrite !(sub_orestrict SJunitSuccess _ k_path _ eq_refl eq_refl); reflexivity.
  - unfold jcore.
    rewrite !(sub_orestrict SJunitFailure _ k_store_failure _ eq_refl eq_refl).
    destruct hc; rewrite !(sub_orestrict SJunitFailure _ k_path _ eq_refl eq_refl); reflexivity.
Qed.

Lemma is_some_fold_layers n fs : forall acc,
  is_some (fold_left (merge_layer n) fs acc) =
  is_some acc || existsb (fun f => is_some (lookup n (f_profiles f))) fs.
Proof.
  induction fs as [|f r IH]; intros acc; cbn [fold_left existsb].
  - rewrite orb_false_r. reflexivity.
  - rewrite IH. unfold merge_layer, layer_settings.
    destruct (lookup n (f_profiles f)); cbn [is_some orb].
    + rewrite orb_true_r. reflexivity.
    + reflexivity.
Qed.

Definition players (pb prepo : pfile) (ptools : list pfile) : list pfile :=
  pb :: rev ptools ++ [prepo].

Lemma players_proj s builtin repo tools :
  players (proj_file s builtin) (proj_file s repo) (map (proj_file s) tools) =
  map (proj_file s) (layers builtin repo tools).
Proof. unfold players, layers. cbn [map]. rewrite map_app, map_rev. reflexivity. Qed.

(* settings_for computed from the projections alone *)
Definition settings_proj (e : env) (bp : bplat) (s : setting) (pb prepo : pfile)
           (ptools : list pfile) (sel : key) (t : test) : option sval :=
  or_else (pass_proj e bp t (pordered prepo ptools sel))
          (pv_core s
             (negb (is_default sel)
              && existsb (fun pf => is_some (lookup sel pf)) (players pb prepo ptools))
             (if is_default sel then None else slot (map (pbinding sel) (players pb prepo ptools)))
             (slot (map (pbinding default_name) (players pb prepo ptools)))).

Lemma restricted_slot s k builtin repo tools n :
  wf_file builtin = true -> wf_file repo = true -> forallb wf_file tools = true ->
  setting_key s = Some k ->
  orestrict s (olookup k (merged_profile builtin repo tools n)) =
  slot (map (pbinding n)
            (players (proj_file s builtin) (proj_file s repo) (map (proj_file s) tools))).
Proof.
  intros Hb Hr Ht Hk. rewrite merged_key_slot by assumption.
  unfold slot. rewrite orestrict_slot_from. cbn [orestrict].
  rewrite players_proj, !map_map. f_equal. apply map_ext. intros f.
  symmetry. apply pbinding_proj. exact Hk.
Qed.

Lemma lookup_default_profile k builtin repo tools :
  lookup k (default_profile builtin repo tools) =
  olookup k (merged_profile builtin repo tools default_name).
Proof. unfold default_profile. destruct (merged_profile builtin repo tools default_name); reflexivity. Qed.

Lemma existsb_map_fn {A B : Type} (g : A -> B) (P : B -> bool) (l : list A) :
  existsb P (map g l) = existsb (fun x => P (g x)) l.
Proof. induction l as [|x r IH]; cbn [map existsb]; [reflexivity|]. rewrite IH. reflexivity. Qed.

Lemma existsb_ext_fn {A : Type} (P Q : A -> bool) (l : list A) :
  (forall x, P x = Q x) -> existsb P l = existsb Q l.
Proof.
  intros H. induction l as [|x r IH]; cbn [existsb]; [reflexivity|]. rewrite H, IH. reflexivity.
Qed.

Lemma has_custom_proj s builtin repo tools sel :
  is_some (custom_profile builtin repo tools sel) =
  negb (is_default sel)
  && existsb (fun pf => is_some (lookup sel pf))
             (players (proj_file s builtin) (proj_file s repo) (map (proj_file s) tools)).
Proof.
  unfold custom_profile. destruct (is_default sel); [reflexivity|]. cbn [negb andb].
  unfold merged_profile. rewrite is_some_fold_layers. cbn [is_some orb].
  change (builtin :: rev tools ++ [repo]) with (layers builtin repo tools).
  rewrite players_proj, existsb_map_fn. apply existsb_ext_fn. intros f.
  unfold proj_file. rewrite (lookup_map_snd (proj_pcfg s)).
  destruct (lookup sel (f_profiles f)); reflexivity.
Qed.

Theorem settings_for_proj e bp builtin repo tools sel t s :
  wf_file builtin = true -> wf_file repo = true -> forallb wf_file tools = true ->
  settings_for e bp builtin repo tools sel t s =
  settings_proj e bp s (proj_file s builtin) (proj_file s repo) (map (proj_file s) tools) sel t.
Proof.
  intros Hb Hr Ht. unfold settings_for, settings_with, compiled_for, settings_proj.
  rewrite override_order, pass_first_match by assumption.
  rewrite find_hits_proj, map_proj_ordered. f_equal.
  rewrite profile_value_core, pv_core_restrict. rewrite (has_custom_proj s).
  destruct (setting_key s) as [k|] eqn:Hk.
  - unfold keyed. rewrite Hk. f_equal.
    + unfold custom_profile. destruct (is_default sel); [reflexivity|].
      apply restricted_slot; assumption.
    + rewrite lookup_default_profile. apply restricted_slot; assumption.
  - destruct s; try discriminate Hk; reflexivity.
Qed.

(* the resolved value of setting s is a function of the s-components of the configuration *)
Theorem independent e bp builtin repo tools builtin' repo' tools' sel t s :
  wf_file builtin = true -> wf_file repo = true -> forallb wf_file tools = true ->
  wf_file builtin' = true -> wf_file repo' = true -> forallb wf_file tools' = true ->
  proj_file s builtin = proj_file s builtin' ->
  proj_file s repo = proj_file s repo' ->
  map (proj_file s) tools = map (proj_file s) tools' ->
  settings_for e bp builtin repo tools sel t s = settings_for e bp builtin' repo' tools' sel t s.
Proof.
  intros Hb Hr Ht Hb' Hr' Ht' E1 E2 E3.
  rewrite !settings_for_proj by assumption. rewrite E1, E2, E3. reflexivity.
Qed.

Lemma run_case_spec e bp builtin repo tools sel tests :
  run_case e bp builtin repo tools sel tests =
  if profile_exists builtin repo tools sel
  then map (fun t => enc_settings (settings_for e bp builtin repo tools sel t)) tests
  else [].
Proof. reflexivity. Qed.

Theorem cli_wins cli resolved s v : cli s = Some v -> effective cli resolved s = Some v.
Proof. intros H. unfold effective. rewrite H. reflexivity. Qed.

Theorem cli_absent cli resolved s : cli s = None -> effective cli resolved s = resolved s.
Proof. intros H. unfold effective. rewrite H. reflexivity. Qed.

(* the profile-level tail of TestSettings::new, all eleven settings: the documented rule
   (selected profile, else default profile; fixed defaults for priority / test-group), except
   that in the F22 class the two JUnit storage flags are off *)
Theorem profile_then_default custom dflt s :
  profile_value custom dflt s =
  if known_f22 custom dflt && is_junit_setting s then Some (VLeaf a_false)
  else documented_profile_value custom dflt s.
Proof.
  assert (J : forall sk, junit_store custom dflt sk =
                         if known_f22 custom dflt then Some (VLeaf a_false)
                         else documented_junit_store custom dflt sk).
  { intros sk. unfold junit_store, junit_enabled, known_f22, documented_junit_store, junit_leaf.
    destruct custom as [c|]; cbn [or_else].
    - destruct (sub (lookup k_junit c) k_path) as [pa|]; cbn [is_some negb andb].
      + destruct (sub (lookup k_junit c) sk); reflexivity.
      + destruct (sub (lookup k_junit dflt) k_path); reflexivity.
    - destruct (sub (lookup k_junit dflt) k_path); cbn [is_some]; reflexivity. }
  destruct s; cbn [profile_value documented_profile_value is_junit_setting setting_key];
    rewrite ?andb_false_r, ?andb_true_r; try apply J; try reflexivity;
    unfold getter, sel_then_default; destruct custom as [c|]; cbn [or_else]; try reflexivity;
    match goal with |- context [lookup ?k c] => destruct (lookup k c); reflexivity end.
Qed.

Theorem profile_value_outside_known custom dflt s :
  known_f22 custom dflt = false ->
  profile_value custom dflt s = documented_profile_value custom dflt s.
Proof. intros H. rewrite profile_then_default, H. reflexivity. Qed.

(* ---------------------------------------------------------------- witnesses *)

Definition s_ci : str := [99; 105]. (* ci *)
Definition s_default_miri : str := [100; 101; 102; 97; 117; 108; 116; 45; 109; 105; 114; 105].
Definition s_period : str := [112; 101; 114; 105; 111; 100]. (* period *)
Definition s_terminate_after : str :=
  [116; 101; 114; 109; 105; 110; 97; 116; 101; 45; 97; 102; 116; 101; 114]. (* terminate-after *)
Definition s_10s : str := [34; 49; 48; 115; 34]. (* "10s" *)
Definition s_30s : str := [34; 51; 48; 115; 34]. (* "30s" *)
Definition s_60s : str := [34; 54; 48; 115; 34]. (* "60s" *)
Definition s_1s : str := [34; 49; 115; 34]. (* "1s" *)
Definition s_2 : str := [50].
Definition s_3 : str := [51].
Definition s_5 : str := [53].
Definition s_7 : str := [55].
Definition s_0 : str := [48].
Definition s_1 : str := [49].
Definition s_test_a : str := [116; 101; 115; 116; 40; 97; 41]. (* test(a) *)
Definition s_all : str := [97; 108; 108; 40; 41]. (* all() *)
Definition s_cfg_unix : str := [99; 102; 103; 40; 117; 110; 105; 120; 41]. (* cfg(unix) *)
Definition s_cfg_windows : str := [99; 102; 103; 40; 119; 105; 110; 100; 111; 119; 115; 41].
Definition s_tool1 : str := [116; 111; 111; 108; 49]. (* tool1 *)
Definition s_true : str := [116; 114; 117; 101]. (* true *)
Definition s_junit_xml : str := [34; 106; 117; 110; 105; 116; 46; 120; 109; 108; 34]. (* "junit.xml" *)
Definition s_100ms : str := [34; 49; 48; 48; 109; 115; 34]. (* "100ms" *)
Definition s_300ms : str := [34; 51; 48; 48; 109; 115; 34]. (* "300ms" *)
Definition s_never : str := [34; 110; 101; 118; 101; 114; 34]. (* "never" *)
Definition s_immediate : str := [34; 105; 109; 109; 101; 100; 105; 97; 116; 101; 34]. (* "immediate" *)
Definition s_final : str := [34; 102; 105; 110; 97; 108; 34]. (* "final" *)
Definition s_empty_arr : str := [91; 93]. (* [] *)
Definition s_report_name : str := [114; 101; 112; 111; 114; 116; 45; 110; 97; 109; 101].
Definition s_nextest_run : str := [34; 110; 101; 120; 116; 101; 115; 116; 45; 114; 117; 110; 34].

Definition mk_ov h tg f d : override :=
  {| ov_host := h; ov_target := tg; ov_filter := f; ov_data := d |}.
Definition mk_pc st ovs : pcfg := {| pc_settings := st; pc_overrides := ovs |}.
Definition mk_file tool ps : file := {| f_tool := tool; f_profiles := ps |}.

(* default-config.toml, the keys the eleven settings read *)
Definition w_builtin : file :=
  mk_file None
    [(default_name,
      mk_pc [(k_retries, VLeaf s_0); (k_threads, VLeaf s_1); (k_extra_args, VLeaf s_empty_arr);
             (k_failure_output, VLeaf s_immediate); (k_success_output, VLeaf s_never);
             (k_slow_timeout, VTable [(s_period, s_60s)]); (k_leak_timeout, VLeaf s_100ms);
             (k_junit, VTable [(s_report_name, s_nextest_run); (k_store_success, a_false);
                               (k_store_failure, s_true)])] []);
     (s_default_miri, mk_pc [] [])].

(* F8 witness: .config/nextest.toml has
     [profile.default]
     slow-timeout = { period = "10s" }
   and the tool config has
     [profile.default]
     slow-timeout = { period = "30s", terminate-after = 2 } *)
Definition w_f8_repo : file :=
  mk_file None [(default_name, mk_pc [(k_slow_timeout, VTable [(s_period, s_10s)])] [])].
Definition w_f8_tool : file :=
  mk_file (Some s_tool1)
    [(default_name,
      mk_pc [(k_slow_timeout, VTable [(s_period, s_30s); (s_terminate_after, s_2)])] [])].

Theorem whole_value_refuted :
  exists builtin repo tools n k,
    wf_file builtin = true /\ wf_file repo = true /\ forallb wf_file tools = true /\
    ~ osval_ext (olookup k (merged_profile builtin repo tools n))
                (whole_value builtin repo tools n k).
Proof.
  exists w_builtin, w_f8_repo, [w_f8_tool], default_name, k_slow_timeout.
  repeat split; try (vm_compute; reflexivity).
  intros H. vm_compute in H. specialize (H s_terminate_after). vm_compute in H. discriminate H.
Qed.

(* a configuration with two tools and two profiles, for the non-vacuity examples *)
Definition w_o1 := mk_ov None None (OFFilter s_test_a) [(SRetries, VLeaf s_5)].
Definition w_o2 := mk_ov None (Some s_cfg_unix) OFNone [(SThreads, VLeaf s_2)].
Definition w_o3 := mk_ov None None (OFFilter s_all)
                         [(SRetries, VLeaf s_7); (SSlowTimeout, VLeaf s_1s)].
Definition w_o4 := mk_ov None None (OFFilter s_all) [(SLeakTimeout, VLeaf s_300ms)].
Definition w_o5 := mk_ov (Some s_cfg_windows) None (OFFilter s_all) [(SRetries, VLeaf s_3)].
Definition w_o6 := mk_ov None None (OFFilter s_test_a) [(SSuccessOutput, VLeaf s_final)].

Definition w_repo : file :=
  mk_file None
    [(default_name, mk_pc [(k_retries, VLeaf s_2); (k_slow_timeout, VTable [(s_period, s_10s)])]
                          [w_o1; w_o2]);
     (s_ci, mk_pc [(k_retries, VLeaf s_3);
                   (k_junit, VTable [(k_path, s_junit_xml); (k_store_success, s_true)])]
                  [w_o3])].
Definition w_tool1 : file :=
  mk_file (Some s_tool1)
    [(s_ci, mk_pc [(k_leak_timeout, VLeaf s_300ms)] [w_o5; w_o6]);
     (default_name, mk_pc [(k_slow_timeout, VTable [(s_period, s_30s)])] [w_o4])].
Definition w_tool2 : file :=
  mk_file (Some s_tool1) [(default_name, mk_pc [(k_threads, VLeaf s_3)] [w_o6; w_o5])].

(* oracle tables: platform 0 is a unix host, 1 a windows target; test 0 is named "a", test 1
   is not *)
Definition w_env : env :=
  {| e_spec := fun sp p => if str_eqb sp s_cfg_unix then p =? 0 else p =? 1;
     e_filter := fun f t => if str_eqb f s_test_a then t =? 0 else true |}.
Definition w_bp : bplat := {| bp_host := 0; bp_target := Some 1 |}.
Definition w_t0 : test := {| t_id := 0; t_host := false |}.
Definition w_t1 : test := {| t_id := 1; t_host := true |}.

(* the same configuration with every other setting changed: equal retries-projection *)
Definition w_repo' : file :=
  mk_file None
    [(default_name, mk_pc [(k_threads, VLeaf s_7); (k_retries, VLeaf s_2)]
                          [mk_ov None None (OFFilter s_test_a)
                                 [(SThreads, VLeaf s_7); (SRetries, VLeaf s_5)];
                           mk_ov None (Some s_cfg_unix) OFNone []]);
     (s_ci, mk_pc [(k_retries, VLeaf s_3)]
                  [mk_ov None None (OFFilter s_all) [(SRetries, VLeaf s_7)]])].

(* ---------------------------------------------------------------- F22 *)

(* .config/nextest.toml:
     [profile.default.junit]
     path = "junit.xml"
     store-success-output = true
     [profile.ci]
     retries = 3
   run with --profile ci *)
Definition w_f22_repo : file :=
  mk_file None
    [(default_name,
      mk_pc [(k_junit, VTable [(k_path, s_junit_xml); (k_store_success, s_true)])] []);
     (s_ci, mk_pc [(k_retries, VLeaf s_3)] [])].

(* settings_for with the documented profile-level rule in place of the coded one *)
Definition documented_settings_for (e : env) (bp : bplat) (builtin repo : file) (tools : list file)
           (sel : key) (t : test) (s : setting) : option sval :=
  or_else (pass e t (compiled_for e bp repo tools sel) s)
          (documented_profile_value (custom_profile builtin repo tools sel)
                                    (default_profile builtin repo tools) s).

Theorem junit_documented_refuted :
  exists e bp builtin repo tools sel t s,
    wf_file builtin = true /\ wf_file repo = true /\ forallb wf_file tools = true /\
    settings_for e bp builtin repo tools sel t s
    <> documented_settings_for e bp builtin repo tools sel t s.
Proof.
  exists w_env, w_bp, w_builtin, w_f22_repo, [], s_ci, w_t0, SJunitSuccess.
  repeat split; try (vm_compute; reflexivity).
  intros H. vm_compute in H. discriminate H.
Qed.

Theorem settings_documented_outside_known e bp builtin repo tools sel t s :
  known_f22 (custom_profile builtin repo tools sel) (default_profile builtin repo tools) = false ->
  settings_for e bp builtin repo tools sel t s
  = documented_settings_for e bp builtin repo tools sel t s.
Proof.
  intros H. unfold settings_for, settings_with, documented_settings_for.
  rewrite (profile_value_outside_known _ _ s H). reflexivity.
Qed.
