(* C12 "the run proceeds to the results it would otherwise have produced", for arbitrary histories:
   erasing every pure stop / continue block (Stop, any number of Ticks, Continue) that begins before
   the first shutdown request from an environment-valid history gives a history with the same
   outputs minus the job-control signals and acknowledgements and the same final state -- exactly
   the same, except for the remaining time of the slow-timeout interval sleep once that sleep is
   dead (the attempt has been, or is being, terminated for a timeout). Any pause table with a
   certificate ([cert_with]) and a block certificate ([block_cert], below), any number of blocks,
   in the running loop and in terminate_child. *)
From NextestModel Require Import Base.Str Base.Tac Model.Clocks Model.UnitTimers Model.AbsTimers
  Model.UnitMonitor Proofs.Timers Proofs.UnitProps Proofs.DelayProps Proofs.UnitHistory.
From Coq Require Import MSets.MSetPositive.
Open Scope N_scope.

(* ------------------------------------------------------------ forgetting the interval's remaining time *)
Definition fi (c : clocks) : clocks := set_isl c {| rem := 0; lpaused := lpaused (k_isl c) |}.

Definition fres (r : clocks * list uout) : clocks * list uout := (fi (fst r), snd r).

Lemma clk_paused_fi c k : clk_paused (fi c) k = clk_paused c k.
Proof. destruct k; reflexivity. Qed.

Lemma clk_pause_fi c k : clk_pause (fi c) k = omap fi (clk_pause c k).
Proof.
  destruct k; cbn [clk_pause fi set_isl k_sw k_isl k_gsl k_wsw k_dsl k_dwsw];
    unfold swc_pause, slc_pause; cbn [spaused lpaused act rem];
    match goal with |- context [if ?b then _ else _] => destruct b end; reflexivity.
Qed.

Lemma clk_resume_fi c k : clk_resume (fi c) k = omap fi (clk_resume c k).
Proof.
  destruct k; cbn [clk_resume fi set_isl k_sw k_isl k_gsl k_wsw k_dsl k_dwsw];
    unfold swc_resume, slc_resume; cbn [spaused lpaused act rem];
    match goal with |- context [if ?b then _ else _] => destruct b end; reflexivity.
Qed.

Lemma exec_pop_fi rp c o : exec_pop rp (fi c) o = omap fres (exec_pop rp c o).
Proof.
  destruct o; cbn [exec_pop]; try reflexivity.
  - rewrite clk_pause_fi. destruct (clk_pause c k); reflexivity.
  - rewrite clk_resume_fi. destruct (clk_resume c k); reflexivity.
Qed.

Lemma exec_pops_fi rp os : forall c, exec_pops rp (fi c) os = omap fres (exec_pops rp c os).
Proof.
  induction os as [|o os IH]; intros c; cbn [exec_pops]; [reflexivity|].
  rewrite exec_pop_fi. destruct (exec_pop rp c o) as [[c1 o1]|]; cbn [omap obind fres fst snd];
    [|reflexivity].
  rewrite IH. destruct (exec_pops rp c1 os) as [[c2 o2]|]; reflexivity.
Qed.

Lemma exec_arm_fi rp a : forall c, exec_arm rp (fi c) a = omap fres (exec_arm rp c a).
Proof.
  induction a as [|st a IH]; intros c; cbn [exec_arm]; [reflexivity|].
  assert (Hb : (match st with
                | Do o => [o]
                | IfPaused k b => if clk_paused (fi c) k then b else []
                | IfNotPaused k b => if clk_paused (fi c) k then [] else b
                end) =
               (match st with
                | Do o => [o]
                | IfPaused k b => if clk_paused c k then b else []
                | IfNotPaused k b => if clk_paused c k then [] else b
                end)) by (destruct st; rewrite ?clk_paused_fi; reflexivity).
  rewrite Hb. rewrite exec_pops_fi.
  match goal with |- context [exec_pops rp c ?b] => destruct (exec_pops rp c b) as [[c1 o1]|] end;
    cbn [omap obind fres fst snd]; [|reflexivity].
  rewrite IH. destruct (exec_arm rp c1 a) as [[c2 o2]|]; reflexivity.
Qed.

Lemma forget_ck s : forget_isl_rem s = with_ck s (fi (ck s)).
Proof. reflexivity. Qed.

Definition fstate (r : ustate * list uout) : ustate * list uout := (forget_isl_rem (fst r), snd r).

Lemma isl_dead_forget s : isl_dead (forget_isl_rem s) = isl_dead s.
Proof. reflexivity. Qed.

Lemma forget_idem s : forget_isl_rem (forget_isl_rem s) = forget_isl_rem s.
Proof. reflexivity. Qed.

(* once the interval sleep is dead, a step neither reads nor revives it *)
Lemma annotate_forget cfg s e :
  isl_dead s = true -> annotate cfg (forget_isl_rem s) e = annotate cfg s e.
Proof.
  intros Hd. destruct e; try reflexivity.
  cbn [annotate]. change (ph (forget_isl_rem s)) with (ph s).
  change (timed_out (forget_isl_rem s)) with (timed_out s).
  destruct (ph s) eqn:Hp; try reflexivity.
  unfold isl_dead in Hd. rewrite Hp, Bool.orb_false_r in Hd. rewrite Hd. cbn [negb].
  rewrite !Bool.andb_false_r. reflexivity.
Qed.

Lemma enter_terminate_forget cfg s r m :
  fstate (enter_terminate cfg (forget_isl_rem s) r m) = fstate (enter_terminate cfg s r m).
Proof.
  unfold enter_terminate. change (reaped (forget_isl_rem s)) with (reaped s).
  destruct (reaped s); [destruct r; reflexivity|].
  destruct (is_kill m); [destruct r; [destruct (grace cfg =? 0)|]; reflexivity|reflexivity].
Qed.

Lemma arm_step_forget s a (f := fun (s : ustate) (x : clocks * list uout) => (with_ck s (fst x), snd x)) :
  omap fstate (obind (exec_arm (reaped (forget_isl_rem s)) (ck (forget_isl_rem s)) a)
                     (fun x => Ok (f (forget_isl_rem s) x))) =
  omap fstate (obind (exec_arm (reaped s) (ck s) a) (fun x => Ok (f s x))).
Proof.
  change (reaped (forget_isl_rem s)) with (reaped s). change (ck (forget_isl_rem s)) with (fi (ck s)).
  rewrite exec_arm_fi. destruct (exec_arm (reaped s) (ck s) a) as [[c o]|]; reflexivity.
Qed.

Lemma ucore_forget tbl cfg s ae :
  (forall wt, ae <> AFireInterval wt) ->
  omap fstate (ucore tbl cfg (forget_isl_rem s) ae) = omap fstate (ucore tbl cfg s ae).
Proof.
  intros Hne. destruct ae as [dt|wt| | |ok| |q].
  - destruct s as [p [[a1 b1] [r2 b2] [r3 b3] [a4 b4] [r5 b5] [a6 b6]] [rl bl] h to sl rp ex lk fd].
    destruct p as [|[]| | |]; destruct b2; reflexivity.
  - exfalso. eapply Hne; reflexivity.
  - unfold ucore. change (ph (forget_isl_rem s)) with (ph s). destruct (ph s) as [|[]| | |]; reflexivity.
  - unfold ucore. change (ph (forget_isl_rem s)) with (ph s). destruct (ph s) as [|[]| | |]; reflexivity.
  - unfold ucore. change (ph (forget_isl_rem s)) with (ph s). destruct (ph s) as [|[]| | |]; reflexivity.
  - unfold ucore. change (ph (forget_isl_rem s)) with (ph s). destruct (ph s) as [|[]| | |]; reflexivity.
  - unfold ucore. change (ph (forget_isl_rem s)) with (ph s).
    destruct (ph s) as [|[]| | |] eqn:Hp; destruct q as [| |sr| |]; try reflexivity;
      try (apply (arm_step_forget s)).
    pose proof (enter_terminate_forget cfg s TSignal (shutdown_method cfg sr)) as H.
    destruct (enter_terminate cfg (forget_isl_rem s) TSignal (shutdown_method cfg sr)) as [s2 o2].
    destruct (enter_terminate cfg s TSignal (shutdown_method cfg sr)) as [s3 o3].
    exact (f_equal Ok H).
Qed.

Lemma ustep_forget tbl cfg s e :
  isl_dead s = true ->
  omap fstate (ustep tbl cfg (forget_isl_rem s) e) = omap fstate (ustep tbl cfg s e).
Proof.
  intros Hd. unfold ustep. rewrite (annotate_forget cfg s e Hd).
  destruct (annotate cfg s e) as [ae|] eqn:Ha; [|reflexivity].
  apply ucore_forget. intros wt ->.
  destruct e; cbn [annotate] in Ha; try discriminate;
    try (destruct (ph s); try discriminate;
         match type of Ha with (if ?b then _ else _) = _ => destruct b eqn:Hb end; discriminate).
  destruct (ph s) eqn:Hp; try discriminate.
  unfold isl_dead in Hd. rewrite Hp, Bool.orb_false_r in Hd. rewrite Hd, Bool.andb_false_r in Ha. discriminate.
Qed.

Lemma ustep_dead tbl cfg s e r :
  isl_dead s = true -> ustep tbl cfg s e = Ok r -> isl_dead (fst r) = true.
Proof.
  intros Hd H. destruct r as [s' outs]. cbn [fst].
  destruct (ustep_phase _ _ _ _ _ _ H) as (_ & _ & _ & P4 & _).
  unfold isl_dead in *. destruct (timed_out s) eqn:Ht; [rewrite (P4 eq_refl); reflexivity|].
  cbn [orb] in Hd. destruct (ph s) as [|[]| | |] eqn:Hp; try discriminate.
  destruct (ustep_cases _ _ _ _ _ H) as [[_ E]|(ae & _ & Hc)].
  - injection E as -> _. rewrite Hp. apply Bool.orb_true_r.
  - destruct (ucore_leave _ _ _ _ _ _ _ Hc Hp) as [X|[_ X]].
    + rewrite X. apply Bool.orb_true_r.
    + rewrite (X eq_refl). reflexivity.
Qed.

(* ------------------------------------------------------------ the relation and the simulation *)
Definition req (s s' : ustate) : Prop :=
  if isl_dead s then forget_isl_rem s = forget_isl_rem s' else s = s'.

Lemma req_refl s : req s s.
Proof. unfold req. destruct (isl_dead s); reflexivity. Qed.

Lemma req_dead s s' : req s s' -> isl_dead s' = isl_dead s.
Proof.
  unfold req. destruct (isl_dead s) eqn:Hd; [|intros <-; exact Hd].
  intros H. rewrite <- (isl_dead_forget s'), <- H, isl_dead_forget. exact Hd.
Qed.

Lemma req_sym s s' : req s s' -> req s' s.
Proof.
  intros H. pose proof (req_dead s s' H) as Hd. unfold req in *. rewrite Hd.
  destruct (isl_dead s); symmetry; exact H.
Qed.

Lemma req_trans s1 s2 s3 : req s1 s2 -> req s2 s3 -> req s1 s3.
Proof.
  intros H1 H2. pose proof (req_dead s1 s2 H1) as Hd. unfold req in *. rewrite Hd in H2.
  destruct (isl_dead s1); congruence.
Qed.

Lemma req_step tbl cfg s s' e s1 o :
  req s s' -> ustep tbl cfg s e = Ok (s1, o) ->
  exists s1', ustep tbl cfg s' e = Ok (s1', o) /\ req s1 s1'.
Proof.
  intros Hr H. pose proof (req_dead s s' Hr) as Hd'. unfold req in Hr.
  destruct (isl_dead s) eqn:Hd.
  - pose proof (ustep_forget tbl cfg s e Hd) as F1. pose proof (ustep_forget tbl cfg s' e Hd') as F2.
    rewrite Hr, F2, H in F1. destruct (ustep tbl cfg s' e) as [[s1' o']|] eqn:E; [|discriminate].
    cbn [omap] in F1. assert (F : fstate (s1', o') = fstate (s1, o)) by congruence.
    pose proof (f_equal fst F) as F1a. pose proof (f_equal snd F) as F1b. cbn [fstate fst snd] in F1a, F1b.
    subst o'. exists s1'. split; [reflexivity|]. unfold req.
    pose proof (ustep_dead tbl cfg s e (s1, o) Hd H) as Hd1. cbn [fst] in Hd1. rewrite Hd1.
    symmetry. exact F1a.
  - subst s'. exists s1. split; [exact H|apply req_refl].
Qed.

Lemma req_run tbl cfg : forall es s s' r,
  req s s' -> urun tbl cfg s es = Ok r ->
  exists s1', urun tbl cfg s' es = Ok (s1', snd r) /\ req (fst r) s1'.
Proof.
  induction es as [|e es IH]; intros s s' r Hr H; cbn [urun] in *.
  - injection H as <-. exists s'. split; [reflexivity|exact Hr].
  - destruct (ustep tbl cfg s e) as [[s1 o1]|] eqn:E1; cbn [obind fst snd] in H; [|discriminate].
    destruct (urun tbl cfg s1 es) as [[s2 o2]|] eqn:E2; cbn [obind fst snd] in H; [|discriminate].
    injection H as <-. cbn [fst snd].
    destruct (req_step tbl cfg s s' e s1 o1 Hr E1) as (s1' & E1' & Hr1).
    destruct (IH s1 s1' (s2, o2) Hr1 E2) as (s2' & E2' & Hr2). cbn [fst snd] in *.
    rewrite E1'. cbn [obind fst snd]. rewrite E2'. cbn [obind fst snd].
    exists s2'. split; [reflexivity|exact Hr2].
Qed.

(* the related states agree on everything the results talk about *)
Lemma req_results s s' : req s s' ->
  ph s' = ph s /\ uresult s' = uresult s /\ slow s' = slow s /\ time_taken s' = time_taken s /\
  hits s' = hits s /\ reaped s' = reaped s.
Proof.
  unfold req. destruct (isl_dead s); [|intros <-; repeat split].
  intros H.
  assert (E : forall f : ustate -> ustate, True) by trivial. clear E.
  change (ph s') with (ph (forget_isl_rem s')). change (uresult s') with (uresult (forget_isl_rem s')).
  change (slow s') with (slow (forget_isl_rem s')). change (time_taken s') with (time_taken (forget_isl_rem s')).
  change (hits s') with (hits (forget_isl_rem s')). change (reaped s') with (reaped (forget_isl_rem s')).
  rewrite <- H. repeat split.
Qed.

(* ------------------------------------------------------------ clocks: flags and numbers *)
Lemma clocks_ext c d : zclocks c = zclocks d -> nums c = nums d -> c = d.
Proof.
  destruct c as [[a1 b1] [r2 b2] [r3 b3] [a4 b4] [r5 b5] [a6 b6]].
  destruct d as [[a1' b1'] [r2' b2'] [r3' b3'] [a4' b4'] [r5' b5'] [a6' b6']].
  unfold zclocks, zsw, zsl, nums. cbn. intros H1 H2.
  injection H1 as -> -> -> -> -> ->. injection H2 as -> -> -> -> -> ->. reflexivity.
Qed.

Lemma flags_eqb_z c d : flags_eqb (zclocks c) (zclocks d) = true -> zclocks c = zclocks d.
Proof.
  destruct c as [[a1 b1] [r2 b2] [r3 b3] [a4 b4] [r5 b5] [a6 b6]].
  destruct d as [[a1' b1'] [r2' b2'] [r3' b3'] [a4' b4'] [r5' b5'] [a6' b6']].
  unfold flags_eqb, zclocks, zsw, zsl. cbn. intros H.
  repeat (apply andb_prop in H as [H ?]).
  repeat match goal with X : Bool.eqb _ _ = true |- _ => apply Bool.eqb_prop in X end. subst. reflexivity.
Qed.

Lemma with_ck_eta s : with_ck s (ck s) = s.
Proof. destruct s; reflexivity. Qed.

Definition all_ticks (es : list uevent) : Prop := forall e, In e es -> exists dt, e = Tick dt.

(* Stop / Continue handled by the running or terminating loop: only the clocks change, and only
   their pause flags; what goes out is job control *)
Lemma ustep_jc_shape tbl cfg s q s1 o1 :
  rt_phase (ph s) = true -> (q = RStop \/ q = RContinue) ->
  ustep tbl cfg s (Req q) = Ok (s1, o1) ->
  exists c1, s1 = with_ck s c1 /\ nums c1 = nums (ck s) /\ (forall x, In x o1 -> is_jc_out x = true).
Proof.
  intros Hrt Hq H. unfold ustep in H. cbn [annotate] in H. unfold ucore in H.
  destruct (ph s) as [|x| | |]; try discriminate; destruct Hq as [-> | ->];
    (arm_case H Earm; injection H as <- <-; exists (fst xr); split; [reflexivity|];
     split; [eapply exec_arm_nums; exact Earm|]; intros y Hy;
     exact (proj1 (exec_arm_outs _ _ _ _ Earm y Hy))).
Qed.

(* time passing while every clock the loop owns is paused *)
Lemma tick_owned_paused tbl cfg s dt :
  rt_phase (ph s) = true -> owned_paused s = true ->
  exists s', ustep tbl cfg s (Tick dt) = Ok (s', []) /\ ph s' = ph s /\ owned_paused s' = true /\
             abs_state s' = abs_state s /\
             (ph s = PRunning -> s' = s) /\ forget_isl_rem s' = forget_isl_rem s.
Proof.
  intros Hrt Hop. unfold ustep. cbn [annotate ucore].
  destruct s as [p [[a1 b1] [r2 b2] [r3 b3] [a4 b4] [r5 b5] [a6 b6]] [rl bl] h to sl rp ex lk fd].
  unfold owned_paused in Hop. cbn [ph ck mk k_sw k_isl k_gsl k_wsw spaused lpaused] in Hop.
  destruct p as [|x| | |]; try discriminate.
  - apply andb_prop in Hop as [-> ->]. eexists. split; [reflexivity|]. cbn.
    repeat split; reflexivity.
  - apply andb_prop in Hop as [Hop ->]. apply andb_prop in Hop as [-> ->].
    eexists. split; [reflexivity|]. cbn. destruct b2; repeat split; try reflexivity; discriminate.
Qed.

Lemma ticks_owned_paused tbl cfg : forall ticks s,
  all_ticks ticks -> rt_phase (ph s) = true -> owned_paused s = true ->
  exists s', urun tbl cfg s ticks = Ok (s', []) /\ ph s' = ph s /\
             abs_state s' = abs_state s /\
             (ph s = PRunning -> s' = s) /\ forget_isl_rem s' = forget_isl_rem s.
Proof.
  induction ticks as [|e ticks IH]; intros s Hall Hrt Hop; cbn [urun].
  - exists s. repeat split; reflexivity.
  - destruct (Hall e (or_introl eq_refl)) as [dt ->].
    destruct (tick_owned_paused tbl cfg s dt Hrt Hop) as (s1 & E1 & P1 & O1 & A1 & R1 & F1).
    rewrite E1. cbn [obind fst snd].
    assert (Hall' : all_ticks ticks) by (intros x Hx; apply Hall; right; exact Hx).
    destruct (IH s1 Hall' ltac:(rewrite P1; exact Hrt) O1) as (s2 & E2 & P2 & A2 & R2 & F2).
    rewrite E2. cbn [obind fst snd app]. exists s2.
    split; [reflexivity|]. split; [congruence|]. split; [congruence|].
    split; [intros X; rewrite R2 by congruence; apply R1; exact X|congruence].
Qed.

Section Block.
  Variable tbl : ptable.
  Variable S : PositiveSet.t.
  Hypothesis Hcert : cert_with tbl S = true.
  Hypothesis Hblock : block_cert tbl S = true.
  Variable cfg : ucfg.

  Notation memS s t := (PositiveSet.mem (code (A s t (grace cfg =? 0))) S = true).

  Lemma block_ok_at a : In a all_astates -> PositiveSet.mem (code a) S = true -> block_ok tbl a = true.
  Proof.
    intros Ha Hm. unfold block_cert in Hblock. rewrite forallb_forall in Hblock.
    specialize (Hblock a Ha). rewrite Hm in Hblock. exact Hblock.
  Qed.

  (* the pause flags after Stop, (time), Continue are those before the Stop *)
  Lemma block_flags s t s1 o1 s1' s2 o2 :
    memS s t -> rt_phase (ph s) = true -> t_jc t <> JStop -> t_sh t = Sh0 ->
    ustep tbl cfg s (Req RStop) = Ok (s1, o1) -> abs_state s1' = abs_state s1 ->
    ustep tbl cfg s1' (Req RContinue) = Ok (s2, o2) ->
    zclocks (ck s2) = zclocks (ck s).
  Proof.
    intros Hm Hrt Hjc Hsh H1 Habs H2.
    pose proof (block_ok_at (A s t (grace cfg =? 0)) (A_in_all _ _ _) Hm) as Hb.
    unfold block_ok in Hb. cbn [A a_u a_t a_g0] in Hb.
    change (ph (abs_state s)) with (ph s) in Hb. rewrite Hrt, Hsh in Hb.
    assert (Ej : match t_jc t with JStop => true | _ => false end = false)
      by (destruct (t_jc t); try reflexivity; contradiction).
    rewrite Ej in Hb. cbn [negb andb] in Hb.
    assert (Eok1 : env_ok t (AReq RStop) = true) by (cbn; destruct (t_jc t); try reflexivity; contradiction).
    unfold astep in Hb at 1. cbn [A a_t a_u a_g0] in Hb. rewrite Eok1 in Hb. cbn [aguard andb] in Hb.
    unfold ustep in H1, H2. cbn [annotate] in H1, H2.
    pose proof (ucore_abs tbl cfg s (AReq RStop)) as Hs1. rewrite H1 in Hs1.
    destruct (ucore tbl (abs_cfg (grace cfg =? 0)) (abs_state s) (AReq RStop)) as [rA1|]; [|discriminate].
    cbn [omap] in Hs1. assert (E1 : ares rA1 = ares (s1, o1)) by congruence.
    apply (f_equal fst) in E1. unfold ares in E1. cbn [fst] in E1.
    unfold astep in Hb. cbn [a_t a_u a_g0 env_next] in Hb. cbn [env_ok t_jc aguard andb] in Hb.
    rewrite E1, <- Habs in Hb.
    pose proof (ucore_abs tbl cfg s1' (AReq RContinue)) as Hs2. rewrite H2 in Hs2.
    destruct (ucore tbl (abs_cfg (grace cfg =? 0)) (abs_state s1') (AReq RContinue)) as [rA2|]; [|discriminate].
    cbn [omap] in Hs2. assert (E2 : ares rA2 = ares (s2, o2)) by congruence.
    apply (f_equal fst) in E2. unfold ares in E2. cbn [fst] in E2.
    rewrite E2 in Hb. cbn [abs_state ck mk] in Hb.
    apply flags_eqb_z. exact Hb.
  Qed.

  (* a pure block handled by the running loop, or by terminate_child on the timeout path, before any
     shutdown request: the state afterwards is the state before (up to the dead interval sleep) *)
  Lemma pure_block s t ticks r :
    memS s t -> t_jc t <> JStop -> t_sh t = Sh0 -> all_ticks ticks ->
    (ph s = PRunning \/ ph s = PTerminating TTimeout) ->
    urun tbl cfg s (Req RStop :: ticks ++ [Req RContinue]) = Ok r ->
    req (fst r) s /\ strip_jc (snd r) = [].
  Proof.
    intros Hm Hjc Hsh Hall Hph H.
    assert (Hrt : rt_phase (ph s) = true) by (destruct Hph as [-> | ->]; reflexivity).
    assert (Eok1 : env_ok t (creq (Req RStop)) = true) by (cbn; destruct (t_jc t); try reflexivity; contradiction).
    destruct (ustep_cert tbl S Hcert cfg s t (Req RStop) Hm Eok1) as ([s1 o1] & H1 & _ & Hstop & _).
    cbn [fst] in Hstop. destruct (Hstop eq_refl Hrt) as [Hop Hp1].
    destruct (ustep_jc_shape tbl cfg s RStop s1 o1 Hrt (or_introl eq_refl) H1) as (c1 & -> & Hn1 & Ho1).
    assert (Hrt1 : rt_phase (ph (with_ck s c1)) = true) by exact Hrt.
    destruct (ticks_owned_paused tbl cfg ticks (with_ck s c1) Hall Hrt1 Hop) as (s1' & Et & Pt & At & Rt & Ft).
    change (Req RStop :: ticks ++ [Req RContinue]) with ([Req RStop] ++ ticks ++ [Req RContinue]) in H.
    cbn [app urun] in H. rewrite H1 in H. cbn [obind fst snd] in H.
    (* split the run over the ticks and the final Continue *)
    assert (Happ : forall es1 es2 u, urun tbl cfg u (es1 ++ es2) =
              obind (urun tbl cfg u es1) (fun r1 => obind (urun tbl cfg (fst r1) es2)
                                                          (fun r2 => Ok (fst r2, snd r1 ++ snd r2)))).
    { induction es1 as [|e es1 IH]; intros es2 u; cbn [app urun].
      - cbn [obind fst snd]. destruct (urun tbl cfg u es2) as [[? ?]|]; reflexivity.
      - destruct (ustep tbl cfg u e) as [[u1 oo1]|]; cbn [obind fst snd]; [|reflexivity].
        rewrite IH. destruct (urun tbl cfg u1 es1) as [[u2 oo2]|]; cbn [obind fst snd]; [|reflexivity].
        destruct (urun tbl cfg u2 es2) as [[u3 oo3]|]; cbn [obind fst snd]; [|reflexivity].
        rewrite app_assoc. reflexivity. }
    rewrite Happ, Et in H. cbn [obind fst snd urun] in H.
    destruct (ustep tbl cfg s1' (Req RContinue)) as [[s2 o2]|] eqn:H2; cbn [obind fst snd] in H; [|discriminate].
    injection H as <-. cbn [fst snd].
    assert (Hrt1' : rt_phase (ph s1') = true) by (rewrite Pt; exact Hrt).
    destruct (ustep_jc_shape tbl cfg s1' RContinue s2 o2 Hrt1' (or_intror eq_refl) H2) as (c2 & -> & Hn2 & Ho2).
    pose proof (block_flags s t (with_ck s c1) o1 s1' (with_ck s1' c2) o2 Hm Hrt Hjc Hsh H1 At H2) as Hfl.
    cbn [with_ck ck mk] in Hfl.
    split.
    - destruct Hph as [Hp|Hp].
      + (* running loop: exactly the same state *)
        rewrite (Rt Hp) in *. cbn [with_ck ck mk] in Hn2.
        assert (E : c2 = ck s) by (apply clocks_ext; [exact Hfl|congruence]).
        subst c2. cbn [with_ck mk ph ck lsl hits timed_out slow reaped exit_ok leaked fds_done].
        change (req (with_ck s (ck s)) s). rewrite with_ck_eta. apply req_refl.
      + (* terminate_child on the timeout path: the interval sleep is dead *)
        unfold req. assert (Hd : isl_dead (with_ck s1' c2) = true).
        { unfold isl_dead. cbn [with_ck mk ph timed_out]. rewrite Pt. cbn [with_ck mk ph]. rewrite Hp.
          apply Bool.orb_true_r. }
        rewrite Hd.
        (* s1' and s agree up to the interval's remaining time and the clocks' flags *)
        assert (Hf1 : forget_isl_rem s1' = forget_isl_rem (with_ck s c1)) by exact Ft.
        assert (Hc : fi c2 = fi (ck s)).
        { apply clocks_ext.
          - change (zclocks (fi c2)) with (zclocks (set_isl c2 {| rem := 0; lpaused := lpaused (k_isl c2) |})).
            destruct c2 as [[? ?] [? ?] [? ?] [? ?] [? ?] [? ?]].
            destruct (ck s) as [[? ?] [? ?] [? ?] [? ?] [? ?] [? ?]]. exact Hfl.
          - pose proof (f_equal (fun u => nums (ck u)) Hf1) as Hnn. cbn [forget_isl_rem with_ck ck mk] in Hnn.
            unfold nums in *. cbn [fi set_isl k_sw k_isl k_gsl k_wsw k_dsl k_dwsw act rem] in *.
            injection Hn2 as N1 _ N3 N4 N5 N6. injection Hn1 as M1 _ M3 M4 M5 M6.
            injection Hnn as L1 L3 L4 L5 L6. congruence. }
        pose proof (f_equal (fun u => with_ck u (fi (ck s))) Hf1) as Hw. cbn beta in Hw.
        rewrite !forget_ck. cbn [with_ck ck mk ph lsl hits timed_out slow reaped exit_ok leaked fds_done].
        rewrite Hc. rewrite !forget_ck in Hw.
        cbn [with_ck ck mk ph lsl hits timed_out slow reaped exit_ok leaked fds_done] in Hw. exact Hw.
    - unfold strip_jc. rewrite !filter_app. cbn [filter app].
      assert (F : forall l, (forall x, In x l -> is_jc_out x = true) -> filter (fun o => negb (is_jc_out o)) l = []).
      { induction l as [|x l IH]; intros Hl; [reflexivity|]. cbn [filter].
        rewrite (Hl x (or_introl eq_refl)). cbn [negb]. apply IH. intros y Hy. apply Hl. right. exact Hy. }
      rewrite (F o1 Ho1), (F o2 Ho2). reflexivity.
  Qed.
End Block.

(* ------------------------------------------------------------ runs: monitor vs plain, splitting *)
Lemma urun_app tbl cfg : forall es1 es2 u,
  urun tbl cfg u (es1 ++ es2) =
  obind (urun tbl cfg u es1) (fun r1 => obind (urun tbl cfg (fst r1) es2)
                                              (fun r2 => Ok (fst r2, snd r1 ++ snd r2))).
Proof.
  induction es1 as [|e es1 IH]; intros es2 u; cbn [app urun].
  - cbn [obind fst snd]. destruct (urun tbl cfg u es2) as [[? ?]|]; reflexivity.
  - destruct (ustep tbl cfg u e) as [[u1 oo1]|]; cbn [obind fst snd]; [|reflexivity].
    rewrite IH. destruct (urun tbl cfg u1 es1) as [[u2 oo2]|]; cbn [obind fst snd]; [|reflexivity].
    destruct (urun tbl cfg u2 es2) as [[u3 oo3]|]; cbn [obind fst snd]; [|reflexivity].
    rewrite app_assoc. reflexivity.
Qed.

Lemma mrun_urun chk tbl cfg : forall es m mf,
  mrun chk tbl cfg m es = MOk mf -> exists o, urun tbl cfg (m_u m) es = Ok (m_u mf, o).
Proof.
  induction es as [|e es IH]; intros m mf H; cbn [mrun urun] in *.
  - injection H as <-. exists []. reflexivity.
  - destruct (mstep chk tbl cfg m e) as [m1| |] eqn:E; try discriminate.
    destruct (mstep_fields _ _ _ _ _ _ E) as (_ & outs & Hu & _).
    destruct (IH m1 mf H) as (o & Ho). rewrite Hu. cbn [obind fst snd]. rewrite Ho. cbn [obind fst snd].
    eexists. reflexivity.
Qed.

Lemma mrun_app chk tbl cfg : forall es1 es2 m mf,
  mrun chk tbl cfg m (es1 ++ es2) = MOk mf ->
  exists m1, mrun chk tbl cfg m es1 = MOk m1 /\ mrun chk tbl cfg m1 es2 = MOk mf.
Proof.
  induction es1 as [|e es1 IH]; intros es2 m mf H; cbn [app mrun] in *.
  - exists m. split; [reflexivity|exact H].
  - destruct (mstep chk tbl cfg m e) as [m1| |]; try discriminate. apply IH. exact H.
Qed.

Lemma mrun_bad_mono chk tbl cfg : forall es m mf,
  mrun chk tbl cfg m es = MOk mf -> m_bad mf = false -> m_bad m = false.
Proof.
  induction es as [|e es IH]; intros m mf H Hb; cbn [mrun] in H.
  - injection H as <-. exact Hb.
  - destruct (mstep chk tbl cfg m e) as [m1| |] eqn:E; try discriminate.
    destruct (mstep_fields _ _ _ _ _ _ E) as (_ & outs & _ & _ & _ & _ & _ & Ebad & _).
    pose proof (IH m1 mf H Hb) as Hb1. rewrite Ebad in Hb1. apply Bool.orb_false_elim in Hb1 as [X _]. exact X.
Qed.

Definition no_shutdown_ev (e : uevent) : Prop := forall r, e <> Req (RShutdown r).

Lemma mrun_no_shutdown chk tbl cfg : forall es m mf,
  mrun chk tbl cfg m es = MOk mf -> (forall e, In e es -> no_shutdown_ev e) ->
  no_shutdown_yet (m_x mf) = no_shutdown_yet (m_x m).
Proof.
  induction es as [|e es IH]; intros m mf H Hn; cbn [mrun] in H.
  - injection H as <-. reflexivity.
  - destruct (mstep chk tbl cfg m e) as [m1| |] eqn:E; try discriminate.
    destruct (mstep_fields _ _ _ _ _ _ E) as (_ & outs & _ & Hx & _).
    rewrite (IH m1 mf H) by (intros x Hx'; apply Hn; right; exact Hx').
    rewrite Hx. pose proof (Hn e (or_introl eq_refl)) as He. unfold no_shutdown_ev in He.
    unfold no_shutdown_yet, senv_next. cbn [e_t].
    destruct e as [| | | | | |[| |sr| |]]; try reflexivity. exfalso. eapply He. reflexivity.
Qed.

(* ------------------------------------------------------------ the shape of [erase_aux] *)
Lemma erase_ticks : forall ticks b tail, all_ticks ticks ->
  erase_aux (Some b) (ticks ++ tail) = erase_aux (Some (rev ticks ++ b)) tail.
Proof.
  induction ticks as [|e ticks IH]; intros b tail Hall; [reflexivity|].
  destruct (Hall e (or_introl eq_refl)) as [dt ->]. cbn [app erase_aux].
  rewrite IH by (intros x Hx; apply Hall; right; exact Hx).
  cbn [rev]. rewrite <- app_assoc. reflexivity.
Qed.

Lemma split_ticks : forall es : list uevent, exists ticks tail,
  es = ticks ++ tail /\ all_ticks ticks /\
  (tail = [] \/ exists x rest, tail = x :: rest /\ forall dt, x <> Tick dt).
Proof.
  induction es as [|e es (ticks & tail & E & Hall & Ht)].
  - exists [], []. split; [reflexivity|]. split; [intros x []|left; reflexivity].
  - destruct e as [dt| | | |ok| |q].
    + exists (Tick dt :: ticks), tail. split; [rewrite E; reflexivity|]. split; [|exact Ht].
      intros x [<-|Hx]; [exists dt; reflexivity|apply Hall; exact Hx].
    + exists [], (FireInterval :: es). split; [reflexivity|]. split; [intros x []|]. right. eexists; eexists; split; [reflexivity|discriminate].
    + exists [], (FireGrace :: es). split; [reflexivity|]. split; [intros x []|]. right. eexists; eexists; split; [reflexivity|discriminate].
    + exists [], (FireLeak :: es). split; [reflexivity|]. split; [intros x []|]. right. eexists; eexists; split; [reflexivity|discriminate].
    + exists [], (ChildExit ok :: es). split; [reflexivity|]. split; [intros x []|]. right. eexists; eexists; split; [reflexivity|discriminate].
    + exists [], (FdsDone :: es). split; [reflexivity|]. split; [intros x []|]. right. eexists; eexists; split; [reflexivity|discriminate].
    + exists [], (Req q :: es). split; [reflexivity|]. split; [intros x []|]. right. eexists; eexists; split; [reflexivity|discriminate].
Qed.

Lemma strip_jc_app a b : strip_jc (a ++ b) = strip_jc a ++ strip_jc b.
Proof. unfold strip_jc. apply filter_app. Qed.

(* ------------------------------------------------------------ the theorem *)
Section Erase.
  Variable tbl : ptable.
  Variable S : PositiveSet.t.
  Hypothesis Hcert : cert_with tbl S = true.
  Hypothesis Hblock : block_cert tbl S = true.
  Variable cfg : ucfg.
  Hypothesis Hvalid : cfg_valid cfg.

  Definition sim_goal (es : list uevent) : Prop :=
    forall m mf s', hinv S cfg m -> no_shutdown_yet (m_x m) = true -> req (m_u m) s' ->
      mrun true tbl cfg m es = MOk mf -> m_bad mf = false ->
      exists o o' sf', urun tbl cfg (m_u m) es = Ok (m_u mf, o) /\
                       urun tbl cfg s' (erase_blocks es) = Ok (sf', o') /\
                       req (m_u mf) sf' /\ strip_jc o = strip_jc o'.

  Lemma sim_same es : erase_blocks es = es -> sim_goal es.
  Proof.
    intros E m mf s' _ _ Hr Hrun _.
    destruct (mrun_urun _ _ _ _ _ _ Hrun) as (o & Ho).
    destruct (req_run tbl cfg es (m_u m) s' _ Hr Ho) as (sf' & E' & Hr'). cbn [fst snd] in *.
    rewrite E. exists o, o, sf'. repeat split; assumption.
  Qed.

  Lemma sim_prefix P rest :
    (forall e, In e P -> no_shutdown_ev e) ->
    erase_blocks (P ++ rest) = P ++ erase_blocks rest -> sim_goal rest -> sim_goal (P ++ rest).
  Proof.
    intros HP E IH m mf s' Hinv Hsh Hr Hrun Hbad.
    destruct (mrun_app _ _ _ _ _ _ _ Hrun) as (m1 & R1 & R2).
    pose proof (hinv_run tbl S Hcert cfg Hvalid P m m1 Hinv R1) as Hinv1.
    pose proof (mrun_no_shutdown _ _ _ _ _ _ R1 HP) as Hsh1. rewrite Hsh in Hsh1.
    destruct (mrun_urun _ _ _ _ _ _ R1) as (o1 & U1).
    destruct (req_run tbl cfg P (m_u m) s' _ Hr U1) as (s1' & U1' & Hr1). cbn [fst snd] in *.
    destruct (IH m1 mf s1' Hinv1 Hsh1 Hr1 R2 Hbad) as (o2 & o2' & sf' & U2 & U2' & Hrf & Hs).
    exists (o1 ++ o2), (o1 ++ o2'), sf'.
    split; [rewrite urun_app, U1; cbn [obind fst snd]; rewrite U2; reflexivity|].
    split; [rewrite E, urun_app, U1'; cbn [obind fst snd]; rewrite U2'; reflexivity|].
    split; [exact Hrf|]. rewrite !strip_jc_app, Hs. reflexivity.
  Qed.

  Lemma sim_block ticks rest :
    all_ticks ticks -> sim_goal rest -> sim_goal (Req RStop :: ticks ++ Req RContinue :: rest).
  Proof.
    intros Hall IH m mf s' Hinv Hsh Hr Hrun Hbad.
    assert (Esplit : Req RStop :: ticks ++ Req RContinue :: rest =
                     (Req RStop :: ticks ++ [Req RContinue]) ++ rest).
    { cbn [app]. rewrite <- app_assoc. reflexivity. }
    rewrite Esplit in Hrun |- *.
    destruct (mrun_app _ _ _ _ _ _ _ Hrun) as (m2 & R1 & R2).
    pose proof (hinv_run tbl S Hcert cfg Hvalid _ m m2 Hinv R1) as Hinv2.
    assert (Hnsd : forall e, In e (Req RStop :: ticks ++ [Req RContinue]) -> no_shutdown_ev e).
    { intros e [<-|He]; [intros r; discriminate|]. apply in_app_or in He as [He|[<-|[]]].
      - destruct (Hall e He) as [dt ->]. intros r; discriminate.
      - intros r; discriminate. }
    pose proof (mrun_no_shutdown _ _ _ _ _ _ R1 Hnsd) as Hsh2. rewrite Hsh in Hsh2.
    pose proof (mrun_bad_mono _ _ _ _ _ _ R2 Hbad) as Hbad2.
    destruct (mrun_urun _ _ _ _ _ _ R1) as (ob & Ub).
    (* the state in which the Stop is delivered *)
    cbn [mrun] in R1. destruct (mstep true tbl cfg m (Req RStop)) as [m1| |] eqn:E1; try discriminate.
    destruct (mstep_fields _ _ _ _ _ _ E1) as (Hok & _ & _ & _ & _ & _ & _ & Ebad1 & _).
    pose proof (mrun_bad_mono _ _ _ _ _ _ R1 Hbad2) as Hbad1. rewrite Ebad1 in Hbad1.
    apply Bool.orb_false_elim in Hbad1 as [_ Hig]. cbn [is_stop_req] in Hig. rewrite Bool.andb_true_r in Hig.
    destruct (senv_ok_parts _ _ (Hok eq_refl)) as [Henv _].
    destruct Hinv as (Hb & Hsw & Hg & Hi & Hl). destruct Hb as (Hm & Hb').
    destruct (Hi Hsh) as (Hns & _).
    assert (Hph : ph (m_u m) = PRunning \/ ph (m_u m) = PTerminating TTimeout).
    { destruct (ph (m_u m)) as [|[]| | |]; try discriminate; auto. exfalso. apply Hns. reflexivity. }
    assert (Hjc : t_jc (e_t (m_x m)) <> JStop).
    { cbn in Henv. intros X. rewrite X in Henv. discriminate. }
    assert (Hs0 : t_sh (e_t (m_x m)) = Sh0).
    { unfold no_shutdown_yet in Hsh. destruct (t_sh (e_t (m_x m))); try discriminate; reflexivity. }
    destruct (pure_block tbl S Hcert Hblock cfg (m_u m) (e_t (m_x m)) ticks _ Hm Hjc Hs0 Hall Hph Ub) as [Hrb Hsb].
    cbn [fst snd] in Hrb, Hsb.
    destruct (IH m2 mf s' Hinv2 Hsh2 (req_trans _ _ _ Hrb Hr) R2 Hbad) as (o2 & o2' & sf' & U2 & U2' & Hrf & Hs).
    exists (ob ++ o2), o2', sf'.
    split; [rewrite urun_app, Ub; cbn [obind fst snd]; rewrite U2; reflexivity|].
    split.
    - rewrite <- Esplit. unfold erase_blocks. cbn [erase_aux]. rewrite erase_ticks by exact Hall.
      cbn [erase_aux]. exact U2'.
    - split; [exact Hrf|]. rewrite strip_jc_app, Hsb, Hs. reflexivity.
  Qed.

  Lemma erase_sim : forall n es, (length es <= n)%nat -> sim_goal es.
  Proof.
    induction n as [|n IH]; intros es Hlen.
    - destruct es; [|cbn in Hlen; lia]. apply sim_same. reflexivity.
    - destruct es as [|e es]; [apply sim_same; reflexivity|]. cbn [length] in Hlen.
      assert (Hother : no_shutdown_ev e -> e <> Req RStop -> sim_goal (e :: es)).
      { intros Hn Hs. change (e :: es) with ([e] ++ es). apply sim_prefix.
        - intros x [<-|[]]. exact Hn.
        - cbn [app]. unfold erase_blocks. cbn [erase_aux].
          destruct e as [| | | | | |[| |sr| |]]; try reflexivity; [contradiction|exfalso; eapply Hn; reflexivity].
        - apply IH. lia. }
      destruct e as [dt| | | |ok| |q]; try (apply Hother; [intros r; discriminate|discriminate]).
      destruct q as [| |sr| |]; try (apply Hother; [intros r; discriminate|discriminate]).
      + (* a Stop: look at what follows *)
        destruct (split_ticks es) as (ticks & tail & -> & Hall & Ht).
        rewrite app_length in Hlen.
        destruct Ht as [->|(x & rest & -> & Hx)].
        * (* the history ends inside the window *)
          apply sim_same. unfold erase_blocks. cbn [erase_aux]. rewrite erase_ticks by exact Hall.
          cbn [erase_aux]. rewrite rev_app_distr, rev_involutive. rewrite app_nil_r. reflexivity.
        * cbn [length] in Hlen.
          assert (Ekeep : forall tl, (forall r, x <> Req (RShutdown r)) -> x <> Req RContinue ->
                    erase_blocks (Req RStop :: ticks ++ x :: tl) = (Req RStop :: ticks ++ [x]) ++ erase_blocks tl).
          { intros tl Hn Hc. unfold erase_blocks. cbn [erase_aux]. rewrite erase_ticks by exact Hall.
            cbn [app]. rewrite <- app_assoc. cbn [app].
            destruct x as [dt| | | |ok| |[| |sr| |]]; cbn [erase_aux];
              try (rewrite rev_app_distr, rev_involutive; reflexivity).
            - exfalso. eapply Hx. reflexivity.
            - contradiction.
            - exfalso. eapply Hn. reflexivity. }
          assert (Eapp : Req RStop :: ticks ++ x :: rest = (Req RStop :: ticks ++ [x]) ++ rest).
          { cbn [app]. rewrite <- app_assoc. reflexivity. }
          assert (Hpre : (forall r, x <> Req (RShutdown r)) -> x <> Req RContinue ->
                         sim_goal (Req RStop :: ticks ++ x :: rest)).
          { intros Hn Hc. rewrite Eapp. apply sim_prefix.
            - intros y [<-|Hy]; [intros r; discriminate|]. apply in_app_or in Hy as [Hy|[<-|[]]].
              + destruct (Hall y Hy) as [dt ->]. intros r; discriminate.
              + exact Hn.
            - rewrite <- Eapp. apply Ekeep; assumption.
            - apply IH. lia. }
          destruct x as [dt| | | |ok| |[| |sr| |]]; try (apply Hpre; [intros r; discriminate|discriminate]).
          -- (* a pure block *) apply sim_block; [exact Hall|]. apply IH. lia.
          -- (* a shutdown request inside the window: nothing is erased from here on *)
             apply sim_same. unfold erase_blocks. cbn [erase_aux]. rewrite erase_ticks by exact Hall.
             cbn [erase_aux]. rewrite rev_app_distr, rev_involutive. cbn [rev app]. reflexivity.
      + (* the first shutdown request: nothing is erased from here on *)
        apply sim_same. reflexivity.
  Qed.

  (* erasing the pure stop / continue blocks of an environment-valid history: same outputs minus
     job control, same final state (up to the dead interval sleep), hence same results *)
  Theorem same_results_erased es m :
    mrun true tbl cfg (minit cfg) es = MOk m -> m_bad m = false ->
    exists o o' sf',
      urun tbl cfg (uinit cfg) es = Ok (m_u m, o) /\
      urun tbl cfg (uinit cfg) (erase_blocks es) = Ok (sf', o') /\
      strip_jc o = strip_jc o' /\ req (m_u m) sf' /\
      ph sf' = ph (m_u m) /\ uresult sf' = uresult (m_u m) /\ slow sf' = slow (m_u m) /\
      time_taken sf' = time_taken (m_u m).
  Proof.
    intros Hrun Hbad.
    destruct (erase_sim (length es) es (le_n _) (minit cfg) m (uinit cfg)
                (hinv_init tbl S Hcert cfg Hvalid) eq_refl (req_refl _) Hrun Hbad)
      as (o & o' & sf' & U & U' & Hr & Hs).
    exists o, o', sf'. split; [exact U|]. split; [exact U'|]. split; [exact Hs|]. split; [exact Hr|].
    destruct (req_results _ _ Hr) as (R1 & R2 & R3 & R4 & _). repeat split; assumption.
  Qed.
End Erase.
