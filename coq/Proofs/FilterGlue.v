(* Facts about the whole of TestFilter::filter_match as modelled by Model/FilterFull.v [filter_match_full] that the
   source-level tie of the fourth round states next to the bridge lemma (Proofs/GlueBridge.v, block filter_match;
   DESIGN 11.7, docs/notes/Gen.md fourth part): the partition stage comes after every other stage and applies to every
   test they accept, whatever kind of match accepted it. *)
From Coq Require Import List NArith Bool Lia.
From NextestModel Require Import Base.Tac Base.Str Model.Filter Model.NameFilter Model.FilterFull.
Import ListNotations.
Open Scope N_scope.

(* whatever kind of match accepted the test (no patterns / no filtersets at all, or a positive match of either), the
   partition stage decides *)
Lemma accepted_test_is_partitioned :
  forall f cur name ign b,
    tf_pb f = Some b ->
    filter_ignored (tf_ri f) ign = None ->
    nm_accepts (rname_match (tf_pats f) name) = true ->
    nm_accepts (filter_expression_match (tf_ets f) (tf_dt f) (tf_bound f) name) = true ->
    fst (filter_match_full f cur name ign) =
    if fst (part_match b cur name) then Matches else Mismatch MPartition.
Proof.
  intros f cur name ign b Hb Hi Hn He.
  unfold filter_match_full, pre_full, filter_match. rewrite Hi, Hb.
  destruct (rname_match (tf_pats f) name); try discriminate;
  destruct (filter_expression_match (tf_ets f) (tf_dt f) (tf_bound f) name); try discriminate;
  cbn [combine_name_expr]; destruct (part_match b cur name) as [ok c]; destruct ok; reflexivity.
Qed.

(* ... and a test some earlier stage rejects never reaches it (the counter of a count partitioner does not move) *)
Lemma rejected_test_skips_partition :
  forall f cur name ign r,
    pre_full f name ign = Some r -> filter_match_full f cur name ign = (Mismatch r, cur).
Proof. intros f cur name ign r H. unfold filter_match_full, filter_match. rewrite H. reflexivity. Qed.

(* two shards of a hash partition never both select a test, whichever filters accepted it *)
Lemma hash_shards_disjoint_for_accepted :
  forall f f' cur cur' name ign b b',
    tf_pb f = Some b -> tf_pb f' = Some b' ->
    pb_kind b = PHash -> pb_kind b' = PHash -> pb_total b = pb_total b' -> pb_shard b <> pb_shard b' ->
    1 <= pb_shard b -> 1 <= pb_shard b' ->
    fst (filter_match_full f cur name ign) = Matches ->
    fst (filter_match_full f' cur' name ign) = Matches -> False.
Proof.
  intros f f' cur cur' name ign b b' Hb Hb' Hk Hk' Ht Hs H1 H1'.
  unfold filter_match_full, filter_match. rewrite Hb, Hb'.
  destruct (pre_full f name ign); [discriminate|]. destruct (pre_full f' name ign); [discriminate|].
  unfold part_match. rewrite Hk, Hk'. cbn [fst].
  destruct (_ =? pb_shard b - 1) eqn:E1; [|discriminate]. destruct (_ =? pb_shard b' - 1) eqn:E2; [|discriminate].
  intros _ _. apply N.eqb_eq in E1, E2. rewrite Ht in E1. lia.
Qed.
