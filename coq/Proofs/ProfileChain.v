(* Facts about Model/ProfileChain.v: what the selected profile's own value means, for every profile name. *)
From Coq Require Import List NArith Bool Lia.
From NextestModel Require Import Base.Tac Base.Str Proofs.StrFacts Model.ProfileChain.
Import ListNotations.
Open Scope N_scope.

(* a value set at the level of the selected profile wins over the default profile's, for EVERY profile name other than
   "default" -- nothing is said about the name beyond that: built-in names are not special *)
Lemma selected_value_wins :
  forall (P V : Type) (field : P -> option V) name tables p v dflt,
    name <> DEFAULT_NAME -> lookup name tables = Some p -> field p = Some v ->
    effective field name tables dflt = Some v.
Proof.
  intros P V field name tables p v dflt Hn Hl Hf. unfold effective, custom_table.
  apply str_eqb_neq in Hn. rewrite Hn, Hl. cbn [table_of resolve]. rewrite Hf. reflexivity.
Qed.

(* in particular for the built-in default-miri profile *)
Lemma default_miri_value_wins :
  forall (P V : Type) (field : P -> option V) tables p v dflt,
    lookup DEFAULT_MIRI_NAME tables = Some p -> field p = Some v ->
    effective field DEFAULT_MIRI_NAME tables dflt = Some v.
Proof.
  intros P V field tables p v dflt. apply selected_value_wins. discriminate.
Qed.

(* a value the selected profile does not set is the default profile's *)
Lemma unset_value_falls_back :
  forall (P V : Type) (field : P -> option V) name tables p dflt,
    name <> DEFAULT_NAME -> lookup name tables = Some p -> field p = None ->
    effective field name tables dflt = Some dflt.
Proof.
  intros P V field name tables p dflt Hn Hl Hf. unfold effective, custom_table.
  apply str_eqb_neq in Hn. rewrite Hn, Hl. cbn [table_of resolve]. rewrite Hf. reflexivity.
Qed.

(* the default profile on its own: its values, whatever the other tables say (even one stored under its name) *)
Lemma default_profile_own_value :
  forall (P V : Type) (field : P -> option V) tables dflt,
    effective field DEFAULT_NAME tables dflt = Some dflt.
Proof. intros. reflexivity. Qed.

(* an unknown profile is an error, never the default profile's values *)
Lemma unknown_profile_is_error :
  forall (P V : Type) (field : P -> option V) name tables dflt,
    name <> DEFAULT_NAME -> lookup name tables = None -> effective field name tables dflt = None.
Proof.
  intros P V field name tables dflt Hn Hl. unfold effective, custom_table.
  apply str_eqb_neq in Hn. rewrite Hn, Hl. reflexivity.
Qed.

(* only the name "default" selects no table *)
Lemma no_table_only_for_default :
  forall (P : Type) name (tables : list (str * P)), custom_table name tables = SelDefault -> name = DEFAULT_NAME.
Proof.
  intros P name tables. unfold custom_table. destruct (str_eqb name DEFAULT_NAME) eqn:E.
  - intros _. apply str_eqb_eq. exact E.
  - destruct (lookup name tables); discriminate.
Qed.
