(* The retry-delay wait loop (handle_delay_between_attempts) under stop / continue. *)
From NextestModel Require Import Base.Str Base.Tac Model.Clocks Model.UnitTimers Model.AbsTimers
  Proofs.Timers.
Open Scope N_scope.

(* finite check on the regenerated table: from the running state Stop pauses both delay clocks and
   acknowledges; from the paused state Continue resumes both; a Continue without a preceding Stop
   changes nothing; nothing panics *)
Definition dclocks (paused : bool) : clocks :=
  {| k_sw := swc_new; k_isl := slc_new 0; k_gsl := slc_new 0; k_wsw := swc_new;
     k_dsl := {| rem := 0; lpaused := paused |}; k_dwsw := {| act := 0; spaused := paused |} |}.

Definition dflags (c : clocks) : bool * bool := (lpaused (k_dsl c), spaused (k_dwsw c)).

Definition dcert (tbl : ptable) : bool :=
  match exec_arm true (dclocks false) (t_delay_stop tbl),
        exec_arm true (dclocks true) (t_delay_cont tbl),
        exec_arm true (dclocks false) (t_delay_cont tbl) with
  | Ok (c1, o1), Ok (c2, o2), Ok (c3, o3) =>
      (fst (dflags c1) && snd (dflags c1) && acked o1) &&
      (negb (fst (dflags c2)) && negb (snd (dflags c2))) &&
      (negb (fst (dflags c3)) && negb (snd (dflags c3)))
  | _, _, _ => false
  end.

(* pause-table operations on the delay clocks depend only on the paused flags *)
Definition dz (c : clocks) : clocks := dclocks (lpaused (k_dsl c)).

Definition dinv (s : dstate) (t : jc) : Prop :=
  lpaused (k_dsl (d_ck s)) = spaused (k_dwsw (d_ck s)) /\
  (lpaused (k_dsl (d_ck s)) = true <-> t = JStop).
