(* The retry-delay wait loop (handle_delay_between_attempts) under stop / continue: a finite check
   of the three arm evaluations, lifted to every request sequence the dispatcher can produce. *)
From NextestModel Require Import Base.Str Base.Tac Model.Clocks Model.UnitTimers Model.AbsTimers
  Proofs.Timers.
Open Scope N_scope.

Definition dclocks (paused : bool) : clocks :=
  {| k_sw := {| act := 0; spaused := false |}; k_isl := {| rem := 0; lpaused := false |};
     k_gsl := {| rem := 0; lpaused := false |}; k_wsw := {| act := 0; spaused := false |};
     k_dsl := {| rem := 0; lpaused := paused |}; k_dwsw := {| act := 0; spaused := paused |} |}.

Definition swc_eqb (a b : swc) : bool := (act a =? act b) && Bool.eqb (spaused a) (spaused b).
Definition slc_eqb (a b : slc) : bool := (rem a =? rem b) && Bool.eqb (lpaused a) (lpaused b).
Definition clocks_eqb (a b : clocks) : bool :=
  swc_eqb (k_sw a) (k_sw b) && slc_eqb (k_isl a) (k_isl b) && slc_eqb (k_gsl a) (k_gsl b) &&
  swc_eqb (k_wsw a) (k_wsw b) && slc_eqb (k_dsl a) (k_dsl b) && swc_eqb (k_dwsw a) (k_dwsw b).

(* finite check on the regenerated table: from the running state Stop pauses both delay clocks
   (and nothing else) and acknowledges; from the paused state Continue resumes both; a Continue
   without a preceding Stop changes nothing; nothing panics *)
Definition dcert (tbl : ptable) : bool :=
  match exec_arm true (dclocks false) (t_delay_stop tbl),
        exec_arm true (dclocks true) (t_delay_cont tbl),
        exec_arm true (dclocks false) (t_delay_cont tbl) with
  | Ok (c1, o1), Ok (c2, o2), Ok (c3, o3) =>
      clocks_eqb c1 (dclocks true) && acked o1 &&
      clocks_eqb c2 (dclocks false) && clocks_eqb c3 (dclocks false)
  | _, _, _ => false
  end.

Lemma swc_eqb_eq a b : swc_eqb a b = true -> a = b.
Proof.
  destruct a, b. unfold swc_eqb. cbn. intros H. apply andb_prop in H as [H1 H2].
  apply N.eqb_eq in H1. apply Bool.eqb_prop in H2. subst. reflexivity.
Qed.
Lemma slc_eqb_eq a b : slc_eqb a b = true -> a = b.
Proof.
  destruct a, b. unfold slc_eqb. cbn. intros H. apply andb_prop in H as [H1 H2].
  apply N.eqb_eq in H1. apply Bool.eqb_prop in H2. subst. reflexivity.
Qed.
Lemma clocks_eqb_eq a b : clocks_eqb a b = true -> a = b.
Proof.
  destruct a as [a1 a2 a3 a4 a5 a6], b as [b1 b2 b3 b4 b5 b6]. unfold clocks_eqb.
  cbn [k_sw k_isl k_gsl k_wsw k_dsl k_dwsw]. intros H.
  apply andb_prop in H as [H H6]. apply andb_prop in H as [H H5]. apply andb_prop in H as [H H4].
  apply andb_prop in H as [H H3]. apply andb_prop in H as [H1 H2].
  apply swc_eqb_eq in H1, H4, H6. apply slc_eqb_eq in H2, H3, H5. subst. reflexivity.
Qed.

(* requests of the dispatcher as seen by the delay loop *)
Definition denv_ok (j : jc) (e : devent) : bool :=
  match e with
  | DReq RStop => match j with JStop => false | _ => true end
  | DReq RContinue => match j with JCont => false | _ => true end
  | _ => true
  end.
Definition denv_next (j : jc) (e : devent) : jc :=
  match e with DReq RStop => JStop | DReq RContinue => JCont | _ => j end.
Fixpoint denv_trace (j : jc) (es : list devent) : bool :=
  match es with
  | [] => true
  | e :: es' => denv_ok j e && denv_trace (denv_next j e) es'
  end.

Fixpoint drun (tbl : ptable) (s : dstate) (es : list devent) : outcome (dstate * list uout) :=
  match es with
  | [] => Ok (s, [])
  | e :: es' =>
      obind (dstep tbl s e) (fun r1 =>
      obind (drun tbl (fst r1) es') (fun r2 => Ok (fst r2, snd r1 ++ snd r2)))
  end.

Definition is_stop (j : jc) : bool := match j with JStop => true | _ => false end.

(* invariant: while the loop is still waiting, the pause flags are those of [dclocks] *)
Definition dinv (s : dstate) (j : jc) : Prop :=
  d_done s = false -> zclocks (d_ck s) = dclocks (is_stop j).

Lemma zclocks_tick dt c : zclocks (clocks_tick dt c) = zclocks c.
Proof.
  destruct c as [[a1 b1] [r2 b2] [r3 b3] [a4 b4] [r5 b5] [a6 b6]].
  destruct b1, b2, b3, b4, b5, b6; reflexivity.
Qed.

Lemma zclocks_dclocks b : zclocks (dclocks b) = dclocks b.
Proof. reflexivity. Qed.

Lemma dinit_inv delay : dinv (dinit delay) JNone.
Proof. intros _. reflexivity. Qed.

Lemma arm_on_flags c b a r :
  zclocks c = dclocks b -> exec_arm true (dclocks b) a = Ok r ->
  exists r', exec_arm true c a = Ok r' /\ zclocks (fst r') = zclocks (fst r) /\ snd r' = snd r.
Proof.
  intros Hz Hr. pose proof (exec_arm_z true a c) as H. rewrite Hz, Hr in H.
  destruct (exec_arm true c a) as [r'|]; [|discriminate].
  exists r'. split; [reflexivity|]. cbn [omap] in H. injection H as H.
  unfold zres in H. destruct r as [c1 o1]. injection H as H1 H2.
  cbn [fst snd]. split; [|symmetry; exact H2].
  rewrite H1. destruct (fst r') as [[? ?] [? ?] [? ?] [? ?] [? ?] [? ?]]. reflexivity.
Qed.

Section DCert.
  Variable tbl : ptable.
  Hypothesis Hc : dcert tbl = true.

  Lemma dcert_parts :
    exists o1 o2 o3,
      exec_arm true (dclocks false) (t_delay_stop tbl) = Ok (dclocks true, o1) /\ acked o1 = true /\
      exec_arm true (dclocks true) (t_delay_cont tbl) = Ok (dclocks false, o2) /\
      exec_arm true (dclocks false) (t_delay_cont tbl) = Ok (dclocks false, o3).
  Proof.
    unfold dcert in Hc.
    destruct (exec_arm true (dclocks false) (t_delay_stop tbl)) as [[c1 o1]|]; [|discriminate].
    destruct (exec_arm true (dclocks true) (t_delay_cont tbl)) as [[c2 o2]|]; [|discriminate].
    destruct (exec_arm true (dclocks false) (t_delay_cont tbl)) as [[c3 o3]|]; [|discriminate].
    apply andb_prop in Hc as [H H3]. apply andb_prop in H as [H H2]. apply andb_prop in H as [H1 Ha].
    apply clocks_eqb_eq in H1, H2, H3. subst.
    exists o1, o2, o3. repeat split; auto.
  Qed.

  (* one step: no panic, the invariant is kept, and Stop / Continue have their effect *)
  Lemma dstep_sound s j e :
    dinv s j -> denv_ok j e = true ->
    exists r, dstep tbl s e = Ok r /\ dinv (fst r) (denv_next j e) /\
      (d_done s = false -> e = DReq RStop ->
         lpaused (k_dsl (d_ck (fst r))) = true /\ spaused (k_dwsw (d_ck (fst r))) = true /\
         acked (snd r) = true) /\
      (d_done s = false -> e = DReq RContinue ->
         lpaused (k_dsl (d_ck (fst r))) = false /\ spaused (k_dwsw (d_ck (fst r))) = false).
  Proof.
    intros Hinv Hok. destruct dcert_parts as (o1 & o2 & o3 & E1 & A1 & E2 & E3).
    unfold dstep. destruct (d_done s) eqn:Hd.
    - exists (s, []). split; [reflexivity|]. split; [intros Hd'; cbn in Hd'; congruence|].
      split; intros; discriminate.
    - specialize (Hinv Hd).
      destruct e as [dt| |[| |sr| |]].
      + eexists. split; [reflexivity|]. split.
        * intros _. cbn [fst d_ck denv_next]. rewrite zclocks_tick. exact Hinv.
        * split; intros; discriminate.
      + destruct (slc_due (k_dsl (d_ck s))); eexists; (split; [reflexivity|]); split;
          try (intros Hd'; cbn in Hd'; try discriminate; exact Hinv); split; intros; discriminate.
      + (* Stop *)
        assert (Hj : is_stop j = false) by (destruct j; cbn in Hok; try discriminate; reflexivity).
        rewrite Hj in Hinv.
        destruct (arm_on_flags (d_ck s) false (t_delay_stop tbl) _ Hinv E1) as (r' & Er & Hz & Ho).
        rewrite Er. cbn [obind]. eexists. split; [reflexivity|]. cbn [fst snd d_ck denv_next is_stop].
        cbn [fst] in Hz. rewrite zclocks_dclocks in Hz.
        split; [intros _; exact Hz|]. split; [|intros; discriminate].
        intros _ _. rewrite Ho. cbn [snd].
        assert (F : lpaused (k_dsl (zclocks (fst r'))) = true /\ spaused (k_dwsw (zclocks (fst r'))) = true)
          by (rewrite Hz; split; reflexivity).
        destruct F as [F1 F2]. repeat split; try assumption.
      + (* Continue *)
        destruct (is_stop j) eqn:Hj.
        * destruct (arm_on_flags (d_ck s) true (t_delay_cont tbl) _ Hinv E2) as (r' & Er & Hz & Ho).
          rewrite Er. cbn [obind]. eexists. split; [reflexivity|]. cbn [fst snd d_ck denv_next is_stop].
          cbn [fst] in Hz. rewrite zclocks_dclocks in Hz.
          split; [intros _; exact Hz|]. split; [intros; discriminate|].
          intros _ _.
          assert (F : lpaused (k_dsl (zclocks (fst r'))) = false /\ spaused (k_dwsw (zclocks (fst r'))) = false)
            by (rewrite Hz; split; reflexivity).
          exact F.
        * destruct (arm_on_flags (d_ck s) false (t_delay_cont tbl) _ Hinv E3) as (r' & Er & Hz & Ho).
          rewrite Er. cbn [obind]. eexists. split; [reflexivity|]. cbn [fst snd d_ck denv_next is_stop].
          cbn [fst] in Hz. rewrite zclocks_dclocks in Hz.
          split; [intros _; exact Hz|]. split; [intros; discriminate|].
          intros _ _.
          assert (F : lpaused (k_dsl (zclocks (fst r'))) = false /\ spaused (k_dwsw (zclocks (fst r'))) = false)
            by (rewrite Hz; split; reflexivity).
          exact F.
      + eexists. split; [reflexivity|]. split; [intros Hd'; discriminate|]. split; intros; discriminate.
      + eexists. split; [reflexivity|]. split; [intros Hd'; discriminate|]. split; intros; discriminate.
      + eexists. split; [reflexivity|]. split; [intros _; exact Hinv|]. split; intros; discriminate.
  Qed.

  Theorem delay_no_panic : forall es s j,
    dinv s j -> denv_trace j es = true -> drun tbl s es <> Panicked.
  Proof.
    induction es as [|e es IH]; intros s j Hinv Ht; cbn [drun]; [discriminate|].
    cbn [denv_trace] in Ht. apply andb_prop in Ht as [Hok Ht].
    destruct (dstep_sound s j e Hinv Hok) as (r & Er & Hinv' & _).
    rewrite Er. cbn [obind].
    specialize (IH (fst r) (denv_next j e) Hinv' Ht).
    destruct (drun tbl (fst r) es); [discriminate|contradiction].
  Qed.
End DCert.
