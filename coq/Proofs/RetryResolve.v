(* Lemmas about Model/RetryResolve.v: a forced retry count replaces every test's policy, delays
   included; without one the policy is the C06 resolution. *)
From NextestModel Require Import Base.Tac Base.Str Model.Overrides Model.Backoff Model.RetryResolve
  Proofs.Overrides Proofs.Backoff.
Open Scope N_scope.

Lemma forced_delay_zero n js k : applied_delay (new_without_delay n) js k = 0.
Proof.
  unfold applied_delay, new_without_delay. cbn [p_jitter jit].
  destruct (Nat.lt_ge_cases k (N.to_nat n)) as [H|H].
  - apply delays_fixed_nth. exact H.
  - apply nth_overflow. rewrite delays_length. cbn [p_count]. exact H.
Qed.

Section Forced.
  Variable dec : option sval -> policy.
  Variable R : Type.
  Variable succ : R -> bool.

  (* with a forced count N (command line, or environment when the command line gives none),
     whatever the configuration says about this test: the run is that of "N retries, no delay" *)
  Lemma forced_is_plain cli env n c t outcome accept js :
    clap_retries cli env = Some n ->
    run_configured dec R succ cli env c t outcome accept js =
    run_test_instance R succ None (new_without_delay n) outcome accept js.
  Proof. intros H. unfold run_configured, force_retries. rewrite H. reflexivity. Qed.

  Lemma forced_run cli env n c t outcome accept js :
    clap_retries cli env = Some n -> (forall k, accept k = true) ->
    let m := first_pass R succ (n + 1) outcome in
    let '(l, e) := run_configured dec R succ cli env c t outcome accept js in
    e = Finished /\
    N.of_nat (length l) = m /\ 1 <= m /\ m <= n + 1 /\
    (forall i, 1 <= i -> i < m -> succ (outcome i) = false) /\
    (succ (outcome m) = true \/ m = n + 1) /\
    map at_no l = nrange 1 (N.to_nat m) /\
    map at_result l = map outcome (nrange 1 (N.to_nat m)) /\
    (forall a, In a l -> at_delay_before a = 0).
  Proof.
    intros Hf Hacc m. rewrite (forced_is_plain _ _ _ c t outcome accept js Hf).
    pose proof (run_all_accepted R succ None (new_without_delay n) outcome accept js Hacc) as H.
    cbv zeta in H. cbn [effective_policy] in H.
    replace (p_count (new_without_delay n)) with n in H by reflexivity. fold m in H.
    destruct (run_test_instance R succ None (new_without_delay n) outcome accept js) as [l e].
    destruct H as (He & Hlen & Hno & Hres & Hdel).
    destruct (first_pass_spec R succ (n + 1) outcome) as (F1 & F2 & F3 & F4); [lia|].
    fold m in F1, F2, F3, F4.
    repeat split; auto.
    intros a Ha. destruct (In_nth l a a Ha) as (i & Hi & Hn).
    specialize (Hdel i Hi).
    rewrite (nth_indep (map at_delay_before l) 0 (at_delay_before a)) in Hdel
      by (rewrite map_length; exact Hi).
    rewrite map_nth, Hn in Hdel. rewrite Hdel.
    destruct i; [reflexivity|apply forced_delay_zero].
  Qed.
End Forced.

(* the resolved policy itself *)
Lemma resolved_forced dec cli env n c t :
  clap_retries cli env = Some n -> resolved_policy dec cli env c t = new_without_delay n.
Proof. intros H. unfold resolved_policy, force_retries. rewrite H. reflexivity. Qed.

Lemma clap_cases cli env :
  clap_retries cli env = match cli, env with
                         | Some n, _ => Some n
                         | None, Some n => Some n
                         | None, None => None
                         end.
Proof. destruct cli, env; reflexivity. Qed.

(* nothing forced: the first override, in the documented order, that matches the test by
   platform and filter and sets retries; else the selected profile's retries; else the default
   profile's (C06's resolution, then deserialized) *)
Lemma resolved_unforced dec c t :
  wf_file (rc_repo c) = true -> forallb wf_file (rc_tools c) = true ->
  resolved_policy dec None None c t =
  dec match find (fun o => applies (rc_env c) (rc_bp c) t o && is_some (data_get SRetries (ov_data o)))
                 (ordered_overrides (rc_repo c) (rc_tools c) (rc_sel c)) with
      | Some o => data_get SRetries (ov_data o)
      | None => sel_then_default (custom_profile (rc_builtin c) (rc_repo c) (rc_tools c) (rc_sel c))
                                 (default_profile (rc_builtin c) (rc_repo c) (rc_tools c)) k_retries
      end.
Proof.
  intros H1 H2. unfold resolved_policy, force_retries, clap_retries, own_policy.
  cbn [effective_policy].
  rewrite (first_match_wins _ _ _ _ _ _ _ SRetries H1 H2).
  rewrite profile_then_default. cbn [is_junit_setting documented_profile_value].
  rewrite andb_false_r. reflexivity.
Qed.

Lemma run_unforced dec R succ c t outcome accept js :
  run_configured dec R succ None None c t outcome accept js =
  run_test_instance R succ None (resolved_policy dec None None c t) outcome accept js.
Proof. reflexivity. Qed.
