(* Lemmas tying the executor protocol (Model/Unit.v) to the dispatcher (C01, C02): on well-formed
   histories the dispatcher never panics, its per-test emitted events follow the C02 automaton, and
   its statistics equal the ground truth of the history. *)
From Coq Require Import List NArith ZArith Bool.
From NextestModel Require Import Base.Tac Model.Result Model.Dispatcher Model.Unit
     Proofs.Result Proofs.Dispatcher.
Import ListNotations.
Open Scope N_scope.

(* ------------------------------------------------------------------ association-list facts *)

Lemma lookup_remove_eq t l : lookup t (remove_key t l) = None.
Proof.
  induction l as [|[k v] l IH]; cbn [remove_key lookup]; auto.
  destruct (N.eqb_spec k t); auto. cbn [lookup]. destruct (N.eqb_spec k t); [contradiction|auto].
Qed.

Lemma lookup_remove_neq t x l : x <> t -> lookup x (remove_key t l) = lookup x l.
Proof.
  intros Hne. induction l as [|[k v] l IH]; cbn [remove_key lookup]; auto.
  destruct (N.eqb_spec k t) as [->|Hk].
  - destruct (N.eqb_spec t x); [congruence|auto].
  - cbn [lookup]. rewrite IH. reflexivity.
Qed.

Lemma lookup_update_eq t v l w : lookup t l = Some w -> lookup t (update_key t v l) = Some v.
Proof.
  induction l as [|[k u] l IH]; cbn [update_key lookup]; [discriminate|].
  destruct (N.eqb_spec k t) as [->|Hk]; cbn [lookup].
  - rewrite N.eqb_refl. auto.
  - destruct (N.eqb_spec k t); [contradiction|auto].
Qed.

Lemma lookup_update_neq t x v l : x <> t -> lookup x (update_key t v l) = lookup x l.
Proof.
  intros Hne. induction l as [|[k u] l IH]; cbn [update_key lookup]; auto.
  destruct (N.eqb_spec k t) as [->|Hk]; cbn [lookup].
  - destruct (N.eqb_spec t x); [congruence|auto].
  - rewrite IH. reflexivity.
Qed.

Lemma lookup_cons_eq t v l : lookup t ((t, v) :: l) = Some v.
Proof. cbn [lookup]. rewrite N.eqb_refl. reflexivity. Qed.

Lemma lookup_cons_neq t x v l : x <> t -> lookup x ((t, v) :: l) = lookup x l.
Proof. intros H. cbn [lookup]. destruct (N.eqb_spec t x); [congruence|reflexivity]. Qed.

Lemma numbered_from_app i l a :
  numbered_from i (l ++ [a]) = numbered_from i l && (a_no a =? i + N.of_nat (length l)).
Proof.
  revert i; induction l as [|b l IH]; intros i; cbn [app numbered_from length].
  - rewrite N.add_0_r, andb_true_r. reflexivity.
  - rewrite IH. rewrite <- andb_assoc. f_equal. f_equal.
    replace (i + 1 + N.of_nat (length l)) with (i + N.of_nat (S (length l))) by lia. reflexivity.
Qed.

Lemma memb_in t l : memb t l = true <-> In t l.
Proof.
  unfold memb. rewrite existsb_exists. split.
  - intros (x & Hin & E). apply N.eqb_eq in E. subst; auto.
  - intros H. exists t. split; auto. apply N.eqb_refl.
Qed.

Lemma nodupb_NoDup l : nodupb l = true -> NoDup l.
Proof.
  induction l as [|x l IH]; cbn [nodupb]; intros H; constructor.
  - apply andb_true_iff in H. destruct H as [H _]. apply negb_true_iff in H.
    intros Hin. apply memb_in in Hin. congruence.
  - apply IH. apply andb_true_iff in H. tauto.
Qed.

(* ------------------------------------------------------------------ the simulation invariant *)

Definition o_of_phase (p : phase) : ostate :=
  match p with
  | PIdle | PRefusedStart => ONone
  | PRunning k => ORun k
  | PDelay k | PRefusedRetry k => OWait k
  | PFinished => ODone
  | PSkipped => OSkip
  end.

Definition phase_rel (c : cfg) (d : dstate) (t : tid) (p : phase) : Prop :=
  match p with
  | PRunning k =>
      (exists past, lookup t (d_running d) = Some past /\ numbered_from 1 past = true /\
                    N.of_nat (length past) + 1 = k) /\
      1 <= k <= c_total c t /\ memb t (c_sel c) = true
  | PDelay k | PRefusedRetry k =>
      (exists past, lookup t (d_running d) = Some past /\ numbered_from 1 past = true /\
                    N.of_nat (length past) = k) /\
      1 <= k < c_total c t /\ memb t (c_sel c) = true
  | PFinished | PRefusedStart => lookup t (d_running d) = None /\ memb t (c_sel c) = true
  | PSkipped => lookup t (d_running d) = None /\ memb t (c_unsel c) = true
  | PIdle => lookup t (d_running d) = None
  end.

Record sim (c : cfg) (d : dstate) (ps : pstate) : Prop := {
  sim_phase : forall t, phase_rel c d t (ps_phase ps t);
  sim_script : d_script d = if ps_srun ps then Some (ps_next ps) else None }.

Lemma sim_init c mf dbg : sim c (init_for c mf dbg) pstate0.
Proof. split; cbn; auto. Qed.

(* phase_rel only looks at the running map *)
Lemma phase_rel_ext c d d' t p :
  lookup t (d_running d') = lookup t (d_running d) -> phase_rel c d t p -> phase_rel c d' t p.
Proof. intros E. destruct p; cbn [phase_rel]; rewrite E; auto. Qed.

(* ------------------------------------------------------------------ one step preserves the simulation *)

Definition step_goal (c : cfg) (ps ps' : pstate) (s' : dst) (evs : list revent) : Prop :=
  exists d', s' = Live d' /\ sim c d' ps' /\
    forall t, ocheck (c_total c t) t (o_of_phase (ps_phase ps t)) evs = Some (o_of_phase (ps_phase ps' t)).

(* events that change neither the running map, nor the script slot, nor any phase, and report
   nothing about a test *)
Lemma step_goal_unchanged c d d' ps evs :
  sim c d ps -> d_running d' = d_running d -> d_script d' = d_script d ->
  Forall (fun e => event_tid e = None) evs ->
  step_goal c ps ps (Live d') evs.
Proof.
  intros [Hp Hs] Er Es Hev. exists d'. split; auto. split.
  - split; [|rewrite Es; auto]. intros t. eapply phase_rel_ext; [|apply Hp]. rewrite Er. reflexivity.
  - intros t. induction Hev as [|e l He _ IH]; cbn [ocheck]; auto. rewrite He. exact IH.
Qed.

Ltac solve_unchanged :=
  eapply step_goal_unchanged; eauto; proj_simpl; auto;
  repeat (constructor; try reflexivity).

Lemma upd_eq f t p : upd f t p t = p.
Proof. unfold upd. rewrite N.eqb_refl. reflexivity. Qed.

Lemma upd_neq f t p x : x <> t -> upd f t p x = f x.
Proof. unfold upd. intros H. destruct (N.eqb_spec x t); [contradiction|reflexivity]. Qed.

Lemma sim_step_env c d ps e s' evs rsp :
  sim c d ps -> dstep_live d e = (s', evs, rsp) ->
  match e with
  | SigShutdown _ => d_sig d <> Some STwice
  | SigStop | SigCont | SigInfo _ | InputInfo | InputEnter | ReportCancel | ScriptSlow _ _ => True
  | _ => False
  end ->
  step_goal c ps ps s' evs.
Proof.
  intros Hsim H He.
  destruct e; try contradiction; step_inv H; try congruence; solve_unchanged.
Qed.

Lemma step_goal_script c d d' ps evs next' (srun' : bool) :
  sim c d ps -> d_running d' = d_running d ->
  d_script d' = (if srun' then Some next' else None) ->
  Forall (fun e => event_tid e = None) evs ->
  step_goal c ps (mk_pstate (ps_phase ps) next' srun') (Live d') evs.
Proof.
  intros [Hp Hs] Er Es Hev. exists d'. split; auto. split.
  - split; cbn [ps_phase ps_next ps_srun]; auto.
    intros t. eapply phase_rel_ext; [|apply Hp]. rewrite Er. reflexivity.
  - intros t. cbn [ps_phase]. induction Hev as [|e l He _ IH]; cbn [ocheck]; auto. rewrite He. exact IH.
Qed.

Lemma ocheck_other tot t o evs :
  Forall (fun e => forall t', event_tid e = Some t' -> t' <> t) evs -> ocheck tot t o evs = Some o.
Proof.
  induction 1 as [|e l He _ IH]; cbn [ocheck]; auto.
  destruct (event_tid e) as [t'|] eqn:E; auto.
  destruct (N.eqb_spec t' t) as [->|]; auto. exfalso. eapply He; eauto.
Qed.

Lemma step_goal_test c d d' ps evs t p' :
  sim c d ps ->
  (forall x, x <> t -> lookup x (d_running d') = lookup x (d_running d)) ->
  d_script d' = d_script d ->
  phase_rel c d' t p' ->
  ocheck (c_total c t) t (o_of_phase (ps_phase ps t)) evs = Some (o_of_phase p') ->
  Forall (fun e => forall t', event_tid e = Some t' -> t' = t) evs ->
  step_goal c ps (set_phase ps t p') (Live d') evs.
Proof.
  intros [Hp Hs] Er Es Hrel Hoc Hev. exists d'. split; auto. split.
  - split; cbn [set_phase ps_phase ps_next ps_srun]; [|rewrite Es; auto].
    intros x. destruct (N.eq_dec x t) as [->|Hne].
    + rewrite upd_eq. exact Hrel.
    + rewrite upd_neq by auto. eapply phase_rel_ext; [|apply Hp]. apply Er; auto.
  - intros x. cbn [set_phase ps_phase]. destruct (N.eq_dec x t) as [->|Hne].
    + rewrite upd_eq. exact Hoc.
    + rewrite upd_neq by auto. apply ocheck_other.
      eapply Forall_impl; [|exact Hev]. cbn. intros e He t' Ht'. rewrite (He _ Ht'). auto.
Qed.

Lemma cfg_total_pos c t : cfg_ok c = true -> memb t (c_sel c) = true -> 1 <= c_total c t.
Proof.
  unfold cfg_ok. intros H Hm. apply andb_true_iff in H. destruct H as [_ H].
  rewrite forallb_forall in H. apply memb_in in Hm. specialize (H _ Hm). apply N.leb_le in H. exact H.
Qed.

Ltac bool_hyps :=
  repeat match goal with
  | Hx : _ && _ = true |- _ => apply andb_true_iff in Hx; destruct Hx
  | Hx : negb _ = true |- _ => apply negb_true_iff in Hx
  | Hx : (_ =? _) = true |- _ => apply N.eqb_eq in Hx
  | Hx : (_ <? _) = true |- _ => apply N.ltb_lt in Hx
  | Hx : (_ <=? _) = true |- _ => apply N.leb_le in Hx
  end.

Lemma sim_step_script_started c d ps s s' evs rsp ps' :
  sim c d ps -> dstep_live d (ScriptStarted s) = (s', evs, rsp) ->
  pstep c ps (ScriptStarted s) (r_hs rsp) = Some ps' -> step_goal c ps ps' s' evs.
Proof.
  intros Hsim H Hp. pose proof (sim_script _ _ _ Hsim) as Hs.
  cbn [pstep] in Hp.
  destruct ((s =? ps_next ps) && (s <? c_scripts c) && negb (ps_srun ps)) eqn:Ec; [|discriminate].
  bool_hyps. subst s. rewrite H1 in Hs.
  step_inv H; cbn [r_hs] in Hp; inversion Hp; subst; clear Hp;
    try (rewrite Hs in *; discriminate);
    eapply step_goal_script; eauto; proj_simpl; auto; repeat constructor.
Qed.

Lemma sim_step_script_finished c d ps s r s' evs rsp ps' :
  sim c d ps -> dstep_live d (ScriptFinished s r) = (s', evs, rsp) ->
  pstep c ps (ScriptFinished s r) (r_hs rsp) = Some ps' -> step_goal c ps ps' s' evs.
Proof.
  intros Hsim H Hp. pose proof (sim_script _ _ _ Hsim) as Hs.
  cbn [pstep] in Hp.
  destruct ((s =? ps_next ps) && ps_srun ps) eqn:Ec; [|discriminate].
  bool_hyps. subst s. rewrite H1 in Hs. inversion Hp; subst; clear Hp.
  step_inv H; try (rewrite Hs in *; discriminate);
    eapply step_goal_script; eauto; proj_simpl; auto; repeat constructor.
Qed.

Ltac tid_events :=
  repeat (constructor; [cbn [event_tid]; intros ? Hx; try discriminate; try (inversion Hx; reflexivity)|]);
  try constructor.

Lemma sim_step_started c d ps t s' evs rsp ps' :
  cfg_ok c = true ->
  sim c d ps -> dstep_live d (Started t) = (s', evs, rsp) ->
  pstep c ps (Started t) (r_hs rsp) = Some ps' -> step_goal c ps ps' s' evs.
Proof.
  intros Hok Hsim H Hp. pose proof (sim_phase _ _ _ Hsim t) as Ht.
  cbn [pstep] in Hp.
  destruct (tests_open c ps && memb t (c_sel c)) eqn:Ec; [|discriminate]. bool_hyps.
  destruct (ps_phase ps t) eqn:Eph; try discriminate. cbn [phase_rel] in Ht.
  step_inv H; cbn [r_hs] in Hp; inversion Hp; subst; clear Hp; try congruence.
  - (* refused *)
    refine (step_goal_test _ _ _ _ _ _ _ Hsim _ _ _ _ _); auto.
    + cbn [phase_rel]. auto.
    + rewrite Eph. reflexivity.
  - (* accepted *)
    refine (step_goal_test _ _ _ _ _ _ _ Hsim _ _ _ _ _); proj_simpl; auto.
    + intros x Hx. apply lookup_cons_neq; auto.
    + cbn [phase_rel]. proj_simpl. split; [|split; auto].
      * exists []. rewrite lookup_cons_eq. cbn. auto.
      * pose proof (cfg_total_pos _ _ Hok H1). lia.
    + rewrite Eph. cbn [o_of_phase ocheck event_tid ostep]. rewrite N.eqb_refl. reflexivity.
    + tid_events.
Qed.

Lemma sim_step_skipped c d ps t s' evs rsp ps' :
  sim c d ps -> dstep_live d (Skipped t) = (s', evs, rsp) ->
  pstep c ps (Skipped t) (r_hs rsp) = Some ps' -> step_goal c ps ps' s' evs.
Proof.
  intros Hsim H Hp. pose proof (sim_phase _ _ _ Hsim t) as Ht.
  cbn [pstep] in Hp.
  destruct (tests_open c ps && memb t (c_unsel c)) eqn:Ec; [|discriminate]. bool_hyps.
  destruct (ps_phase ps t) eqn:Eph; try discriminate. cbn [phase_rel] in Ht.
  inversion Hp; subst; clear Hp.
  step_inv H. refine (step_goal_test _ _ _ _ _ _ _ Hsim _ _ _ _ _); proj_simpl; auto.
  - cbn [phase_rel]. proj_simpl. auto.
  - rewrite Eph. cbn [o_of_phase ocheck event_tid ostep]. rewrite N.eqb_refl. reflexivity.
  - tid_events.
Qed.

Lemma sim_step_slow c d ps t no total wt s' evs rsp ps' :
  sim c d ps -> dstep_live d (Slow t no total wt) = (s', evs, rsp) ->
  pstep c ps (Slow t no total wt) (r_hs rsp) = Some ps' -> step_goal c ps ps' s' evs.
Proof.
  intros Hsim H Hp. pose proof (sim_phase _ _ _ Hsim t) as Ht.
  cbn [pstep] in Hp.
  destruct (ps_phase ps t) eqn:Eph; try discriminate.
  destruct ((no =? k) && (total =? c_total c t)) eqn:Ec; [|discriminate]. bool_hyps. subst.
  inversion Hp; subst; clear Hp.
  step_inv H.
  exists d. split; auto. split; auto.
  intros x. cbn [ocheck event_tid]. destruct (N.eqb_spec t x) as [->|Hne]; auto.
  rewrite Eph. cbn [o_of_phase ostep]. rewrite !N.eqb_refl. reflexivity.
Qed.

Ltac decide_tests :=
  repeat match goal with
  | Hx : is_success _ = _ |- _ => rewrite Hx
  | |- context [?x =? ?y] => replace (x =? y) with true by (symmetry; apply N.eqb_eq; lia)
  | |- context [?x <? ?y] => replace (x <? y) with true by (symmetry; apply N.ltb_lt; lia)
  | |- context [?x <=? ?y] => replace (x <=? y) with true by (symmetry; apply N.leb_le; lia)
  end; cbn [andb orb negb].

Lemma sim_step_afwr c d ps t a s' evs rsp ps' :
  sim c d ps -> dstep_live d (AttemptFailedWillRetry t a) = (s', evs, rsp) ->
  pstep c ps (AttemptFailedWillRetry t a) (r_hs rsp) = Some ps' -> step_goal c ps ps' s' evs.
Proof.
  intros Hsim H Hp. pose proof (sim_phase _ _ _ Hsim t) as Ht.
  cbn [pstep] in Hp.
  destruct (ps_phase ps t) eqn:Eph; try discriminate.
  destruct ((a_no a =? k) && (a_total a =? c_total c t) && (k <? c_total c t)
            && negb (is_success (a_res a))) eqn:Ec; [|discriminate].
  bool_hyps. inversion Hp; subst ps'; clear Hp.
  cbn [phase_rel] in Ht. destruct Ht as ((past & Hl & Hnum & Hlen) & Hb & Hm).
  step_inv H; try congruence.
  assert (l = past) by congruence. subst l.
  refine (step_goal_test _ _ _ _ _ _ _ Hsim _ _ _ _ _); proj_simpl; auto.
  - intros x Hx. apply lookup_update_neq; auto.
  - cbn [phase_rel]. proj_simpl. split; [|split; auto; lia].
    exists (past ++ [a]). rewrite (lookup_update_eq _ _ _ _ Heqo). split; auto.
    rewrite numbered_from_app, Hnum, app_length. cbn [length andb]. split; [apply N.eqb_eq|]; lia.
  - rewrite Eph. cbn [o_of_phase ocheck event_tid ostep]. rewrite N.eqb_refl.
    decide_tests. reflexivity.
  - tid_events.
Qed.

Lemma sim_step_retry c d ps t no total s' evs rsp ps' :
  sim c d ps -> dstep_live d (RetryStarted t no total) = (s', evs, rsp) ->
  pstep c ps (RetryStarted t no total) (r_hs rsp) = Some ps' -> step_goal c ps ps' s' evs.
Proof.
  intros Hsim H Hp. pose proof (sim_phase _ _ _ Hsim t) as Ht.
  cbn [pstep] in Hp.
  destruct (ps_phase ps t) eqn:Eph; try discriminate.
  destruct ((no =? k + 1) && (total =? c_total c t)) eqn:Ec; [|discriminate].
  bool_hyps. subst no total.
  cbn [phase_rel] in Ht. destruct Ht as ((past & Hl & Hnum & Hlen) & Hb & Hm).
  step_inv H; cbn [r_hs] in Hp; inversion Hp; subst ps'; clear Hp.
  - refine (step_goal_test _ _ _ _ _ _ _ Hsim _ _ _ _ _); auto.
    + cbn [phase_rel]. split; eauto.
    + rewrite Eph. reflexivity.
  - refine (step_goal_test _ _ _ _ _ _ _ Hsim _ _ _ _ _); auto.
    + cbn [phase_rel]. split; [|split; auto; lia]. exists past. repeat split; auto; lia.
    + rewrite Eph. cbn [o_of_phase ocheck event_tid ostep]. rewrite !N.eqb_refl. reflexivity.
    + tid_events.
Qed.

Lemma sim_step_finished c d ps t a s' evs rsp ps' :
  sim c d ps -> dstep_live d (Finished t a) = (s', evs, rsp) ->
  pstep c ps (Finished t a) (r_hs rsp) = Some ps' -> step_goal c ps ps' s' evs.
Proof.
  intros Hsim H Hp. pose proof (sim_phase _ _ _ Hsim t) as Ht.
  cbn [pstep] in Hp.
  destruct (ps_phase ps t) eqn:Eph; try discriminate.
  destruct ((a_no a =? k) && (a_total a =? c_total c t)
            && (is_success (a_res a) || (c_total c t <=? k))) eqn:Ec; [|discriminate].
  apply andb_true_iff in Ec. destruct Ec as [Ec _]. bool_hyps. inversion Hp; subst ps'; clear Hp.
  cbn [phase_rel] in Ht. destruct Ht as ((past & Hl & Hnum & Hlen) & Hb & Hm).
  step_inv H; try congruence.
  all: assert (l = past) by congruence; subst l.
  all: refine (step_goal_test _ _ _ _ _ _ _ Hsim _ _ _ _ _); proj_simpl; auto.
  all: try (intros x Hx; apply lookup_remove_neq; auto).
  all: try (cbn [phase_rel]; proj_simpl; split; auto; apply lookup_remove_eq).
  all: try (tid_events; fail).
  all: rewrite Eph; cbn [o_of_phase ocheck event_tid ostep app]; rewrite N.eqb_refl;
    unfold st_len, st_all; cbn [st_past st_last];
    rewrite numbered_from_app, Hnum; decide_tests; reflexivity.
Qed.

Lemma sim_step c d ps e s' evs rsp ps' :
  cfg_ok c = true -> sim c d ps -> dstep_live d e = (s', evs, rsp) ->
  pstep c ps e (r_hs rsp) = Some ps' ->
  (ev_shutdown e = 1%nat -> d_sig d <> Some STwice) ->
  step_goal c ps ps' s' evs.
Proof.
  intros Hok Hsim H Hp Hsig.
  destruct e.
  - eapply sim_step_script_started; eauto.
  - cbn [pstep] in Hp. destruct ((s =? ps_next ps) && ps_srun ps); [|discriminate].
    inversion Hp; subst. eapply sim_step_env; eauto. exact I.
  - eapply sim_step_script_finished; eauto.
  - eapply sim_step_started; eauto.
  - eapply sim_step_slow; eauto.
  - eapply sim_step_afwr; eauto.
  - eapply sim_step_retry; eauto.
  - eapply sim_step_finished; eauto.
  - eapply sim_step_skipped; eauto.
  - cbn [pstep] in Hp. inversion Hp; subst. eapply sim_step_env; eauto. cbn. apply Hsig. reflexivity.
  - cbn [pstep] in Hp. inversion Hp; subst. eapply sim_step_env; eauto. exact I.
  - cbn [pstep] in Hp. inversion Hp; subst. eapply sim_step_env; eauto. exact I.
  - cbn [pstep] in Hp. inversion Hp; subst. eapply sim_step_env; eauto. exact I.
  - cbn [pstep] in Hp. inversion Hp; subst. eapply sim_step_env; eauto. exact I.
  - cbn [pstep] in Hp. inversion Hp; subst. eapply sim_step_env; eauto. exact I.
  - cbn [pstep] in Hp. inversion Hp; subst. eapply sim_step_env; eauto. exact I.
Qed.

(* ------------------------------------------------------------------ protocol-only facts *)

Fixpoint finished_events (h : list devent) : list (tid * attempt) :=
  match h with
  | [] => []
  | Finished t a :: r => (t, a) :: finished_events r
  | _ :: r => finished_events r
  end.

Definition finished_tests (h : list devent) : list tid := map fst (finished_events h).

Lemma pstep_finished_stable c ps e hs ps' x :
  pstep c ps e hs = Some ps' -> ps_phase ps x = PFinished -> ps_phase ps' x = PFinished.
Proof.
  intros Hp Hx.
  destruct e; cbn [pstep] in Hp;
    repeat match type of Hp with
    | context [if ?b then _ else _] => destruct b eqn:?; try discriminate
    | context [match ps_phase ps ?t with _ => _ end] => destruct (ps_phase ps t) eqn:?; try discriminate
    | context [match hs with _ => _ end] => destruct hs; try discriminate
    end; inversion Hp; subst; clear Hp; cbn [set_phase ps_phase]; auto;
    (destruct (N.eq_dec x t) as [->|Hne]; [congruence | rewrite upd_neq; auto]).
Qed.

Lemma pstep_finished_new c ps t a hs ps' :
  pstep c ps (Finished t a) hs = Some ps' ->
  ps_phase ps t <> PFinished /\ ps_phase ps' t = PFinished.
Proof.
  cbn [pstep]. destruct (ps_phase ps t) eqn:E; try discriminate.
  destruct (_ && _); [|discriminate]. intros H; inversion H; subst.
  split; [discriminate|]. cbn [set_phase ps_phase]. apply upd_eq.
Qed.

Lemma NoDup_app_snoc {A} (l : list A) x : NoDup l -> ~ In x l -> NoDup (l ++ [x]).
Proof.
  induction l as [|y l IH]; intros Hnd Hx; cbn [app].
  - constructor; auto; constructor.
  - inversion Hnd; subst. constructor.
    + intros Hin. apply in_app_iff in Hin. destruct Hin as [Hin|[->|[]]]; auto. apply Hx. left; auto.
    + apply IH; auto. intros Hin. apply Hx. right; auto.
Qed.

(* finished tests so far: distinct, all in phase PFinished, all selected *)
Definition pinv (c : cfg) (ps : pstate) (F : list tid) : Prop :=
  NoDup F /\ (forall t, In t F -> ps_phase ps t = PFinished) /\ incl F (c_sel c).

(* ------------------------------------------------------------------ the run *)

Definition wf_from (c : cfg) (s : dst) (ps : pstate) (h : list devent) : bool :=
  wf_protocol_from c ps (annotate s h).

Lemma wf_from_cons c s ps e h :
  wf_from c s ps (e :: h) =
  match pstep c ps e (r_hs (snd (dstep s e))) with
  | Some ps' => wf_from c (next_state s e) ps' h
  | None => false
  end.
Proof.
  unfold wf_from, annotate. rewrite trace_cons. cbn [map wf_protocol_from step_input step_resp fst snd].
  reflexivity.
Qed.

Lemma ocheck_app tot t o l1 l2 :
  ocheck tot t o (l1 ++ l2) =
  match ocheck tot t o l1 with Some o' => ocheck tot t o' l2 | None => None end.
Proof.
  revert o; induction l1 as [|e l1 IH]; intros o; cbn [app ocheck]; auto.
  destruct (event_tid e) as [t'|]; auto.
  destruct (t' =? t); auto. destruct (ostep tot o e); auto.
Qed.

Lemma finished_tests_cons e h :
  finished_tests (e :: h) =
  match e with Finished t _ => t :: finished_tests h | _ => finished_tests h end.
Proof. destruct e; reflexivity. Qed.

Lemma sim_run c : cfg_ok c = true -> forall h d ps F,
  sim c d ps -> pinv c ps F -> wf_from c (Live d) ps h = true ->
  (sig_n (d_sig d) + shutdown_count h <= 2)%nat ->
  exists d' ps',
    final_state (Live d) h = Live d' /\ sim c d' ps' /\ pinv c ps' (F ++ finished_tests h) /\
    forall t, ocheck (c_total c t) t (o_of_phase (ps_phase ps t)) (out (Live d) h)
              = Some (o_of_phase (ps_phase ps' t)).
Proof.
  intros Hok. induction h as [|e h IH]; intros d ps F Hsim Hpinv Hwf Hsig.
  - exists d, ps. cbn [final_state fold_left finished_tests finished_events map]. rewrite app_nil_r.
    split; [reflexivity|]. split; [exact Hsim|]. split; [exact Hpinv|]. intros t. reflexivity.
  - rewrite wf_from_cons in Hwf. cbn [dstep] in Hwf.
    destruct (dstep_live d e) as [[s1 evs] rsp] eqn:E. cbn [snd] in Hwf.
    destruct (pstep c ps e (r_hs rsp)) as [ps1|] eqn:Ep; [|discriminate].
    rewrite shutdown_count_cons in Hsig.
    assert (Hs2 : ev_shutdown e = 1%nat -> d_sig d <> Some STwice).
    { intros E1 E2. rewrite E1, E2 in Hsig. cbn in Hsig. lia. }
    destruct (sim_step _ _ _ _ _ _ _ _ Hok Hsim E Ep Hs2) as (d1 & -> & Hsim1 & Hoc1).
    unfold next_state in Hwf. cbn [dstep] in Hwf. rewrite E in Hwf. cbn [fst] in Hwf.
    assert (Hpinv1 : pinv c ps1 (F ++ match e with Finished t _ => [t] | _ => [] end)).
    { destruct Hpinv as (Hnd & Hph & Hincl).
      destruct e; try (rewrite app_nil_r; split; [auto|split; [|auto]];
                       intros x Hx; eapply pstep_finished_stable; eauto).
      destruct (pstep_finished_new _ _ _ _ _ _ Ep) as [Hnew1 Hnew2].
      split; [|split].
      - apply NoDup_app_snoc; auto; intros Hin; apply Hnew1; auto.
      - intros x Hx. apply in_app_iff in Hx. destruct Hx as [Hx|[<-|[]]]; auto.
        eapply pstep_finished_stable; eauto.
      - intros x Hx. apply in_app_iff in Hx. destruct Hx as [Hx|[<-|[]]]; auto.
        pose proof (sim_phase _ _ _ Hsim1 t) as Hr. rewrite Hnew2 in Hr. cbn [phase_rel] in Hr.
        apply memb_in. tauto. }
    assert (Hsig1 : (sig_n (d_sig d1) + shutdown_count h <= 2)%nat).
    { rewrite (step_sig_count _ _ _ _ _ E). lia. }
    destruct (IH _ _ _ Hsim1 Hpinv1 Hwf Hsig1) as (d' & ps' & Hfin & Hsim' & Hpinv' & Hoc').
    exists d', ps'. rewrite final_state_cons. unfold next_state. cbn [dstep]. rewrite E. cbn [fst].
    split; auto. split; auto. split.
    + rewrite finished_tests_cons. destruct e; try (rewrite app_nil_r in Hpinv'; exact Hpinv').
      rewrite <- app_assoc in Hpinv'. exact Hpinv'.
    + intros x. rewrite out_cons. cbn [dstep]. rewrite E. cbn [fst snd].
      rewrite ocheck_app, Hoc1. unfold next_state. cbn [dstep]. rewrite E. cbn [fst]. apply Hoc'.
Qed.
