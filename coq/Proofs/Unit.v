(* Lemmas tying the executor protocol (Model/Unit.v) to the dispatcher (C01, C02): on well-formed
   histories the dispatcher never panics, its per-test emitted events follow the C02 automaton, and
   its statistics equal the ground truth of the history. *)
From Coq Require Import List NArith ZArith Bool.
From NextestModel Require Import Base.Tac Model.Result Model.Dispatcher Model.Unit
     Proofs.Result Proofs.Dispatcher.
Import ListNotations.
Open Scope N_scope.

(* ------------------------------------------------------------------ association-list facts *)

Lemma lookup_remove_eq t l : lookup t (remove_key t l) = None.
Proof.
  induction l as [|[k v] l IH]; cbn [remove_key lookup]; auto.
  destruct (N.eqb_spec k t); auto. cbn [lookup]. destruct (N.eqb_spec k t); [contradiction|auto].
Qed.

Lemma lookup_remove_neq t x l : x <> t -> lookup x (remove_key t l) = lookup x l.
Proof.
  intros Hne. induction l as [|[k v] l IH]; cbn [remove_key lookup]; auto.
  destruct (N.eqb_spec k t) as [->|Hk].
  - destruct (N.eqb_spec t x); [congruence|auto].
  - cbn [lookup]. rewrite IH. reflexivity.
Qed.

Lemma lookup_update_eq t v l w : lookup t l = Some w -> lookup t (update_key t v l) = Some v.
Proof.
  induction l as [|[k u] l IH]; cbn [update_key lookup]; [discriminate|].
  destruct (N.eqb_spec k t) as [->|Hk]; cbn [lookup].
  - rewrite N.eqb_refl. auto.
  - destruct (N.eqb_spec k t); [contradiction|auto].
Qed.

Lemma lookup_update_neq t x v l : x <> t -> lookup x (update_key t v l) = lookup x l.
Proof.
  intros Hne. induction l as [|[k u] l IH]; cbn [update_key lookup]; auto.
  destruct (N.eqb_spec k t) as [->|Hk]; cbn [lookup].
  - destruct (N.eqb_spec t x); [congruence|auto].
  - rewrite IH. reflexivity.
Qed.

Lemma lookup_cons_eq t v l : lookup t ((t, v) :: l) = Some v.
Proof. cbn [lookup]. rewrite N.eqb_refl. reflexivity. Qed.

Lemma lookup_cons_neq t x v l : x <> t -> lookup x ((t, v) :: l) = lookup x l.
Proof. intros H. cbn [lookup]. destruct (N.eqb_spec t x); [congruence|reflexivity]. Qed.

Lemma numbered_from_app i l a :
  numbered_from i (l ++ [a]) = numbered_from i l && (a_no a =? i + N.of_nat (length l)).
Proof.
  revert i; induction l as [|b l IH]; intros i; cbn [app numbered_from length].
  - rewrite N.add_0_r, andb_true_r. reflexivity.
  - rewrite IH. rewrite <- andb_assoc. f_equal. f_equal.
    replace (i + 1 + N.of_nat (length l)) with (i + N.of_nat (S (length l))) by lia. reflexivity.
Qed.

Lemma memb_in t l : memb t l = true <-> In t l.
Proof.
  unfold memb. rewrite existsb_exists. split.
  - intros (x & Hin & E). apply N.eqb_eq in E. subst; auto.
  - intros H. exists t. split; auto. apply N.eqb_refl.
Qed.

Lemma nodupb_NoDup l : nodupb l = true -> NoDup l.
Proof.
  induction l as [|x l IH]; cbn [nodupb]; intros H; constructor.
  - apply andb_true_iff in H. destruct H as [H _]. apply negb_true_iff in H.
    intros Hin. apply memb_in in Hin. congruence.
  - apply IH. apply andb_true_iff in H. tauto.
Qed.

(* ------------------------------------------------------------------ the simulation invariant *)

Definition o_of_phase (p : phase) : ostate :=
  match p with
  | PIdle | PRefusedStart => ONone
  | PRunning k => ORun k
  | PDelay k | PRefusedRetry k => OWait k
  | PFinished => ODone
  | PSkipped => OSkip
  end.

Definition phase_rel (c : cfg) (d : dstate) (t : tid) (p : phase) : Prop :=
  match p with
  | PRunning k =>
      (exists past, lookup t (d_running d) = Some past /\ numbered_from 1 past = true /\
                    N.of_nat (length past) + 1 = k) /\
      1 <= k <= c_total c t /\ memb t (c_sel c) = true
  | PDelay k | PRefusedRetry k =>
      (exists past, lookup t (d_running d) = Some past /\ numbered_from 1 past = true /\
                    N.of_nat (length past) = k) /\
      1 <= k < c_total c t /\ memb t (c_sel c) = true
  | PFinished | PRefusedStart => lookup t (d_running d) = None /\ memb t (c_sel c) = true
  | PSkipped => lookup t (d_running d) = None /\ memb t (c_unsel c) = true
  | PIdle => lookup t (d_running d) = None
  end.

Record sim (c : cfg) (d : dstate) (ps : pstate) : Prop := {
  sim_phase : forall t, phase_rel c d t (ps_phase ps t);
  sim_script : d_script d = if ps_srun ps then Some (ps_next ps) else None }.

Lemma sim_init c mf dbg : sim c (init_for c mf dbg) pstate0.
Proof. split; cbn; auto. Qed.

(* phase_rel only looks at the running map *)
Lemma phase_rel_ext c d d' t p :
  lookup t (d_running d') = lookup t (d_running d) -> phase_rel c d t p -> phase_rel c d' t p.
Proof. intros E. destruct p; cbn [phase_rel]; rewrite E; auto. Qed.

(* ------------------------------------------------------------------ one step preserves the simulation *)

Definition step_goal (c : cfg) (ps ps' : pstate) (s' : dst) (evs : list revent) : Prop :=
  exists d', s' = Live d' /\ sim c d' ps' /\
    forall t, ocheck (c_total c t) t (o_of_phase (ps_phase ps t)) evs = Some (o_of_phase (ps_phase ps' t)).

(* events that change neither the running map, nor the script slot, nor any phase, and report
   nothing about a test *)
Lemma step_goal_unchanged c d d' ps evs :
  sim c d ps -> d_running d' = d_running d -> d_script d' = d_script d ->
  Forall (fun e => event_tid e = None) evs ->
  step_goal c ps ps (Live d') evs.
Proof.
  intros [Hp Hs] Er Es Hev. exists d'. split; auto. split.
  - split; [|rewrite Es; auto]. intros t. eapply phase_rel_ext; [|apply Hp]. rewrite Er. reflexivity.
  - intros t. induction Hev as [|e l He _ IH]; cbn [ocheck]; auto. rewrite He. exact IH.
Qed.

Ltac solve_unchanged :=
  eapply step_goal_unchanged; eauto; proj_simpl; auto;
  repeat (constructor; try reflexivity).

Lemma upd_eq f t p : upd f t p t = p.
Proof. unfold upd. rewrite N.eqb_refl. reflexivity. Qed.

Lemma upd_neq f t p x : x <> t -> upd f t p x = f x.
Proof. unfold upd. intros H. destruct (N.eqb_spec x t); [contradiction|reflexivity]. Qed.

Lemma sim_step_env c d ps e s' evs rsp :
  sim c d ps -> dstep_live d e = (s', evs, rsp) ->
  match e with
  | SigShutdown _ => d_sig d <> Some STwice
  | SigStop | SigCont | SigInfo _ | InputInfo | InputEnter | ReportCancel | ScriptSlow _ _ => True
  | _ => False
  end ->
  step_goal c ps ps s' evs.
Proof.
  intros Hsim H He.
  destruct e; try contradiction; step_inv H; try congruence; solve_unchanged.
Qed.

Lemma step_goal_script c d d' ps evs next' (srun' : bool) :
  sim c d ps -> d_running d' = d_running d ->
  d_script d' = (if srun' then Some next' else None) ->
  Forall (fun e => event_tid e = None) evs ->
  step_goal c ps (mk_pstate (ps_phase ps) next' srun') (Live d') evs.
Proof.
  intros [Hp Hs] Er Es Hev. exists d'. split; auto. split.
  - split; cbn [ps_phase ps_next ps_srun]; auto.
    intros t. eapply phase_rel_ext; [|apply Hp]. rewrite Er. reflexivity.
  - intros t. cbn [ps_phase]. induction Hev as [|e l He _ IH]; cbn [ocheck]; auto. rewrite He. exact IH.
Qed.

Lemma ocheck_other tot t o evs :
  Forall (fun e => forall t', event_tid e = Some t' -> t' <> t) evs -> ocheck tot t o evs = Some o.
Proof.
  induction 1 as [|e l He _ IH]; cbn [ocheck]; auto.
  destruct (event_tid e) as [t'|] eqn:E; auto.
  destruct (N.eqb_spec t' t) as [->|]; auto. exfalso. eapply He; eauto.
Qed.

Lemma step_goal_test c d d' ps evs t p' :
  sim c d ps ->
  (forall x, x <> t -> lookup x (d_running d') = lookup x (d_running d)) ->
  d_script d' = d_script d ->
  phase_rel c d' t p' ->
  ocheck (c_total c t) t (o_of_phase (ps_phase ps t)) evs = Some (o_of_phase p') ->
  Forall (fun e => forall t', event_tid e = Some t' -> t' = t) evs ->
  step_goal c ps (set_phase ps t p') (Live d') evs.
Proof.
  intros [Hp Hs] Er Es Hrel Hoc Hev. exists d'. split; auto. split.
  - split; cbn [set_phase ps_phase ps_next ps_srun]; [|rewrite Es; auto].
    intros x. destruct (N.eq_dec x t) as [->|Hne].
    + rewrite upd_eq. exact Hrel.
    + rewrite upd_neq by auto. eapply phase_rel_ext; [|apply Hp]. apply Er; auto.
  - intros x. cbn [set_phase ps_phase]. destruct (N.eq_dec x t) as [->|Hne].
    + rewrite upd_eq. exact Hoc.
    + rewrite upd_neq by auto. apply ocheck_other.
      eapply Forall_impl; [|exact Hev]. cbn. intros e He t' Ht'. rewrite (He _ Ht'). auto.
Qed.

Lemma cfg_total_pos c t : cfg_ok c = true -> memb t (c_sel c) = true -> 1 <= c_total c t.
Proof.
  unfold cfg_ok. intros H Hm. apply andb_true_iff in H. destruct H as [_ H].
  rewrite forallb_forall in H. apply memb_in in Hm. specialize (H _ Hm). apply N.leb_le in H. exact H.
Qed.

Ltac bool_hyps :=
  repeat match goal with
  | Hx : _ && _ = true |- _ => apply andb_true_iff in Hx; destruct Hx
  | Hx : negb _ = true |- _ => apply negb_true_iff in Hx
  | Hx : (_ =? _) = true |- _ => apply N.eqb_eq in Hx
  | Hx : (_ <? _) = true |- _ => apply N.ltb_lt in Hx
  | Hx : (_ <=? _) = true |- _ => apply N.leb_le in Hx
  end.

Lemma sim_step_script_started c d ps s s' evs rsp ps' :
  sim c d ps -> dstep_live d (ScriptStarted s) = (s', evs, rsp) ->
  pstep c ps (ScriptStarted s) (r_hs rsp) = Some ps' -> step_goal c ps ps' s' evs.
Proof.
  intros Hsim H Hp. pose proof (sim_script _ _ _ Hsim) as Hs.
  cbn [pstep] in Hp.
  destruct ((s =? ps_next ps) && (s <? c_scripts c) && negb (ps_srun ps)) eqn:Ec; [|discriminate].
  bool_hyps. subst s. rewrite H1 in Hs.
  step_inv H; cbn [r_hs] in Hp; inversion Hp; subst; clear Hp;
    try (rewrite Hs in *; discriminate);
    eapply step_goal_script; eauto; proj_simpl; auto; repeat constructor.
Qed.

Lemma sim_step_script_finished c d ps s r s' evs rsp ps' :
  sim c d ps -> dstep_live d (ScriptFinished s r) = (s', evs, rsp) ->
  pstep c ps (ScriptFinished s r) (r_hs rsp) = Some ps' -> step_goal c ps ps' s' evs.
Proof.
  intros Hsim H Hp. pose proof (sim_script _ _ _ Hsim) as Hs.
  cbn [pstep] in Hp.
  destruct ((s =? ps_next ps) && ps_srun ps) eqn:Ec; [|discriminate].
  bool_hyps. subst s. rewrite H1 in Hs. inversion Hp; subst; clear Hp.
  step_inv H; try (rewrite Hs in *; discriminate);
    eapply step_goal_script; eauto; proj_simpl; auto; repeat constructor.
Qed.

Ltac tid_events :=
  repeat (constructor; [cbn [event_tid]; intros ? Hx; try discriminate; try (inversion Hx; reflexivity)|]);
  try constructor.

Lemma sim_step_started c d ps t s' evs rsp ps' :
  cfg_ok c = true ->
  sim c d ps -> dstep_live d (Started t) = (s', evs, rsp) ->
  pstep c ps (Started t) (r_hs rsp) = Some ps' -> step_goal c ps ps' s' evs.
Proof.
  intros Hok Hsim H Hp. pose proof (sim_phase _ _ _ Hsim t) as Ht.
  cbn [pstep] in Hp.
  destruct (tests_open c ps && memb t (c_sel c)) eqn:Ec; [|discriminate]. bool_hyps.
  destruct (ps_phase ps t) eqn:Eph; try discriminate. cbn [phase_rel] in Ht.
  step_inv H; cbn [r_hs] in Hp; inversion Hp; subst; clear Hp; try congruence.
  - (* refused *)
    refine (step_goal_test _ _ _ _ _ _ _ Hsim _ _ _ _ _); auto.
    + cbn [phase_rel]. auto.
    + rewrite Eph. reflexivity.
  - (* accepted *)
    refine (step_goal_test _ _ _ _ _ _ _ Hsim _ _ _ _ _); proj_simpl; auto.
    + intros x Hx. apply lookup_cons_neq; auto.
    + cbn [phase_rel]. proj_simpl. split; [|split; auto].
      * exists []. rewrite lookup_cons_eq. cbn. auto.
      * pose proof (cfg_total_pos _ _ Hok H1). lia.
    + rewrite Eph. cbn [o_of_phase ocheck event_tid ostep]. rewrite N.eqb_refl. reflexivity.
    + tid_events.
Qed.

Lemma sim_step_skipped c d ps t s' evs rsp ps' :
  sim c d ps -> dstep_live d (Skipped t) = (s', evs, rsp) ->
  pstep c ps (Skipped t) (r_hs rsp) = Some ps' -> step_goal c ps ps' s' evs.
Proof.
  intros Hsim H Hp. pose proof (sim_phase _ _ _ Hsim t) as Ht.
  cbn [pstep] in Hp.
  destruct (tests_open c ps && memb t (c_unsel c)) eqn:Ec; [|discriminate]. bool_hyps.
  destruct (ps_phase ps t) eqn:Eph; try discriminate. cbn [phase_rel] in Ht.
  inversion Hp; subst; clear Hp.
  step_inv H. refine (step_goal_test _ _ _ _ _ _ _ Hsim _ _ _ _ _); proj_simpl; auto.
  - cbn [phase_rel]. proj_simpl. auto.
  - rewrite Eph. cbn [o_of_phase ocheck event_tid ostep]. rewrite N.eqb_refl. reflexivity.
  - tid_events.
Qed.

Lemma sim_step_slow c d ps t no total wt s' evs rsp ps' :
  sim c d ps -> dstep_live d (Slow t no total wt) = (s', evs, rsp) ->
  pstep c ps (Slow t no total wt) (r_hs rsp) = Some ps' -> step_goal c ps ps' s' evs.
Proof.
  intros Hsim H Hp. pose proof (sim_phase _ _ _ Hsim t) as Ht.
  cbn [pstep] in Hp.
  destruct (ps_phase ps t) eqn:Eph; try discriminate.
  destruct ((no =? k) && (total =? c_total c t)) eqn:Ec; [|discriminate]. bool_hyps. subst.
  inversion Hp; subst ps'; clear Hp.
  step_inv H.
  refine (step_goal_test _ _ _ _ _ _ _ Hsim _ _ _ _ _); auto.
  - rewrite Eph. cbn [o_of_phase ocheck event_tid ostep]. rewrite !N.eqb_refl. reflexivity.
  - tid_events.
Qed.

Ltac decide_tests :=
  repeat match goal with
  | Hx : is_success _ = _ |- _ => rewrite Hx
  | |- context [?x =? ?y] => replace (x =? y) with true by (symmetry; apply N.eqb_eq; lia)
  | |- context [?x <? ?y] => replace (x <? y) with true by (symmetry; apply N.ltb_lt; lia)
  | |- context [?x <=? ?y] => replace (x <=? y) with true by (symmetry; apply N.leb_le; lia)
  end; cbn [andb orb negb].

Lemma sim_step_afwr c d ps t a s' evs rsp ps' :
  sim c d ps -> dstep_live d (AttemptFailedWillRetry t a) = (s', evs, rsp) ->
  pstep c ps (AttemptFailedWillRetry t a) (r_hs rsp) = Some ps' -> step_goal c ps ps' s' evs.
Proof.
  intros Hsim H Hp. pose proof (sim_phase _ _ _ Hsim t) as Ht.
  cbn [pstep] in Hp.
  destruct (ps_phase ps t) eqn:Eph; try discriminate.
  destruct ((a_no a =? k) && (a_total a =? c_total c t) && (k <? c_total c t)
            && negb (is_success (a_res a))) eqn:Ec; [|discriminate].
  bool_hyps. inversion Hp; subst ps'; clear Hp.
  cbn [phase_rel] in Ht. destruct Ht as ((past & Hl & Hnum & Hlen) & Hb & Hm).
  step_inv H; try congruence.
  all: assert (l = past) by congruence; subst l.
  all: refine (step_goal_test _ _ _ _ _ _ _ Hsim _ _ _ _ _); proj_simpl; auto.
  all: try (intros x Hx; apply lookup_update_neq; auto; fail).
  all: try (tid_events; fail).
  all: try (rewrite Eph; cbn [o_of_phase ocheck event_tid ostep]; rewrite N.eqb_refl;
            decide_tests; reflexivity).
  all: cbn [phase_rel]; proj_simpl; (split; [|split; auto; lia]);
    exists (past ++ [a]); rewrite (lookup_update_eq _ _ _ _ Heqo); (split; auto);
    rewrite numbered_from_app, Hnum, app_length; cbn [length andb]; (split; [apply N.eqb_eq|]; lia).
Qed.

Lemma sim_step_retry c d ps t no total s' evs rsp ps' :
  sim c d ps -> dstep_live d (RetryStarted t no total) = (s', evs, rsp) ->
  pstep c ps (RetryStarted t no total) (r_hs rsp) = Some ps' -> step_goal c ps ps' s' evs.
Proof.
  intros Hsim H Hp. pose proof (sim_phase _ _ _ Hsim t) as Ht.
  cbn [pstep] in Hp.
  destruct (ps_phase ps t) eqn:Eph; try discriminate.
  destruct ((no =? k + 1) && (total =? c_total c t)) eqn:Ec; [|discriminate].
  bool_hyps. subst no total.
  cbn [phase_rel] in Ht. destruct Ht as ((past & Hl & Hnum & Hlen) & Hb & Hm).
  step_inv H; cbn [r_hs] in Hp; inversion Hp; subst ps'; clear Hp.
  - refine (step_goal_test _ _ _ _ _ _ _ Hsim _ _ _ _ _); auto.
    + cbn [phase_rel]. split; eauto.
    + rewrite Eph. reflexivity.
  - refine (step_goal_test _ _ _ _ _ _ _ Hsim _ _ _ _ _); auto.
    + cbn [phase_rel]. split; [|split; auto; lia]. exists past. repeat split; auto; lia.
    + rewrite Eph. cbn [o_of_phase ocheck event_tid ostep]. rewrite !N.eqb_refl. reflexivity.
    + tid_events.
Qed.

Lemma sim_step_finished c d ps t a s' evs rsp ps' :
  sim c d ps -> dstep_live d (Finished t a) = (s', evs, rsp) ->
  pstep c ps (Finished t a) (r_hs rsp) = Some ps' -> step_goal c ps ps' s' evs.
Proof.
  intros Hsim H Hp. pose proof (sim_phase _ _ _ Hsim t) as Ht.
  cbn [pstep] in Hp.
  destruct (ps_phase ps t) eqn:Eph; try discriminate.
  destruct ((a_no a =? k) && (a_total a =? c_total c t)
            && (is_success (a_res a) || (c_total c t <=? k))) eqn:Ec; [|discriminate].
  apply andb_true_iff in Ec. destruct Ec as [Ec _]. bool_hyps. inversion Hp; subst ps'; clear Hp.
  cbn [phase_rel] in Ht. destruct Ht as ((past & Hl & Hnum & Hlen) & Hb & Hm).
  step_inv H; try congruence.
  all: assert (l = past) by congruence; subst l.
  all: refine (step_goal_test _ _ _ _ _ _ _ Hsim _ _ _ _ _); proj_simpl; auto.
  all: try (intros x Hx; apply lookup_remove_neq; auto).
  all: try (cbn [phase_rel]; proj_simpl; split; auto; apply lookup_remove_eq).
  all: try (tid_events; fail).
  all: rewrite Eph; cbn [o_of_phase ocheck event_tid ostep app]; rewrite N.eqb_refl;
    unfold st_len, st_all; cbn [st_past st_last];
    rewrite numbered_from_app, Hnum; decide_tests; reflexivity.
Qed.

Lemma sim_step c d ps e s' evs rsp ps' :
  cfg_ok c = true -> sim c d ps -> dstep_live d e = (s', evs, rsp) ->
  pstep c ps e (r_hs rsp) = Some ps' ->
  (ev_shutdown e = 1%nat -> d_sig d <> Some STwice) ->
  step_goal c ps ps' s' evs.
Proof.
  intros Hok Hsim H Hp Hsig.
  destruct e.
  - eapply sim_step_script_started; eauto.
  - cbn [pstep] in Hp. destruct ((s =? ps_next ps) && ps_srun ps); [|discriminate].
    inversion Hp; subst. eapply sim_step_env; eauto. exact I.
  - eapply sim_step_script_finished; eauto.
  - eapply sim_step_started; eauto.
  - eapply sim_step_slow; eauto.
  - eapply sim_step_afwr; eauto.
  - eapply sim_step_retry; eauto.
  - eapply sim_step_finished; eauto.
  - eapply sim_step_skipped; eauto.
  - cbn [pstep] in Hp. inversion Hp; subst. eapply sim_step_env; eauto. cbn. apply Hsig. reflexivity.
  - cbn [pstep] in Hp. inversion Hp; subst. eapply sim_step_env; eauto. exact I.
  - cbn [pstep] in Hp. inversion Hp; subst. eapply sim_step_env; eauto. exact I.
  - cbn [pstep] in Hp. inversion Hp; subst. eapply sim_step_env; eauto. exact I.
  - cbn [pstep] in Hp. inversion Hp; subst. eapply sim_step_env; eauto. exact I.
  - cbn [pstep] in Hp. inversion Hp; subst. eapply sim_step_env; eauto. exact I.
  - cbn [pstep] in Hp. inversion Hp; subst. eapply sim_step_env; eauto. exact I.
Qed.

(* ------------------------------------------------------------------ protocol-only facts *)

Fixpoint finished_events (h : list devent) : list (tid * attempt) :=
  match h with
  | [] => []
  | Finished t a :: r => (t, a) :: finished_events r
  | _ :: r => finished_events r
  end.

Definition finished_tests (h : list devent) : list tid := map fst (finished_events h).

Lemma pstep_finished_stable c ps e hs ps' x :
  pstep c ps e hs = Some ps' -> ps_phase ps x = PFinished -> ps_phase ps' x = PFinished.
Proof.
  intros Hp Hx.
  destruct e; cbn [pstep] in Hp;
    repeat match type of Hp with
    | context [if ?b then _ else _] => destruct b eqn:?; try discriminate
    | context [match ps_phase ps ?t with _ => _ end] => destruct (ps_phase ps t) eqn:?; try discriminate
    | context [match hs with _ => _ end] => destruct hs; try discriminate
    end; inversion Hp; subst; clear Hp; cbn [set_phase ps_phase]; auto;
    (destruct (N.eq_dec x t) as [->|Hne]; [congruence | rewrite upd_neq; auto]).
Qed.

Lemma pstep_finished_new c ps t a hs ps' :
  pstep c ps (Finished t a) hs = Some ps' ->
  ps_phase ps t <> PFinished /\ ps_phase ps' t = PFinished.
Proof.
  cbn [pstep]. destruct (ps_phase ps t) eqn:E; try discriminate.
  destruct (_ && _); [|discriminate]. intros H; inversion H; subst.
  split; [discriminate|]. cbn [set_phase ps_phase]. apply upd_eq.
Qed.

Lemma NoDup_app_snoc {A} (l : list A) x : NoDup l -> ~ In x l -> NoDup (l ++ [x]).
Proof.
  induction l as [|y l IH]; intros Hnd Hx; cbn [app].
  - constructor; auto; constructor.
  - inversion Hnd; subst. constructor.
    + intros Hin. apply in_app_iff in Hin. destruct Hin as [Hin|[->|[]]]; auto. apply Hx. left; auto.
    + apply IH; auto. intros Hin. apply Hx. right; auto.
Qed.

(* finished tests so far: distinct, all in phase PFinished, all selected *)
Definition pinv (c : cfg) (ps : pstate) (F : list tid) : Prop :=
  NoDup F /\ (forall t, In t F -> ps_phase ps t = PFinished) /\ incl F (c_sel c).

(* ------------------------------------------------------------------ the run *)

Definition wf_from (c : cfg) (s : dst) (ps : pstate) (h : list devent) : bool :=
  wf_protocol_from c ps (annotate s h).

Lemma wf_from_cons c s ps e h :
  wf_from c s ps (e :: h) =
  match pstep c ps e (r_hs (snd (dstep s e))) with
  | Some ps' => wf_from c (next_state s e) ps' h
  | None => false
  end.
Proof.
  unfold wf_from, annotate. rewrite trace_cons. cbn [map wf_protocol_from step_input step_resp fst snd].
  reflexivity.
Qed.

Lemma ocheck_app tot t o l1 l2 :
  ocheck tot t o (l1 ++ l2) =
  match ocheck tot t o l1 with Some o' => ocheck tot t o' l2 | None => None end.
Proof.
  revert o; induction l1 as [|e l1 IH]; intros o; cbn [app ocheck]; auto.
  destruct (event_tid e) as [t'|]; auto.
  destruct (t' =? t); auto. destruct (ostep tot o e); auto.
Qed.

Lemma finished_tests_cons e h :
  finished_tests (e :: h) =
  match e with Finished t _ => t :: finished_tests h | _ => finished_tests h end.
Proof. destruct e; reflexivity. Qed.

Lemma sim_run c : cfg_ok c = true -> forall h d ps F,
  sim c d ps -> pinv c ps F -> wf_from c (Live d) ps h = true ->
  (sig_n (d_sig d) + shutdown_count h <= 2)%nat ->
  exists d' ps',
    final_state (Live d) h = Live d' /\ sim c d' ps' /\ pinv c ps' (F ++ finished_tests h) /\
    forall t, ocheck (c_total c t) t (o_of_phase (ps_phase ps t)) (out (Live d) h)
              = Some (o_of_phase (ps_phase ps' t)).
Proof.
  intros Hok. induction h as [|e h IH]; intros d ps F Hsim Hpinv Hwf Hsig.
  - exists d, ps. cbn [final_state fold_left finished_tests finished_events map]. rewrite app_nil_r.
    split; [reflexivity|]. split; [exact Hsim|]. split; [exact Hpinv|]. intros t. reflexivity.
  - rewrite wf_from_cons in Hwf. cbn [dstep] in Hwf.
    destruct (dstep_live d e) as [[s1 evs] rsp] eqn:E. cbn [snd] in Hwf.
    destruct (pstep c ps e (r_hs rsp)) as [ps1|] eqn:Ep; [|discriminate].
    rewrite shutdown_count_cons in Hsig.
    assert (Hs2 : ev_shutdown e = 1%nat -> d_sig d <> Some STwice).
    { intros E1 E2. rewrite E1, E2 in Hsig. cbn in Hsig. lia. }
    destruct (sim_step _ _ _ _ _ _ _ _ Hok Hsim E Ep Hs2) as (d1 & -> & Hsim1 & Hoc1).
    unfold next_state in Hwf. cbn [dstep] in Hwf. rewrite E in Hwf. cbn [fst] in Hwf.
    assert (Hpinv1 : pinv c ps1 (F ++ match e with Finished t _ => [t] | _ => [] end)).
    { destruct Hpinv as (Hnd & Hph & Hincl).
      destruct e; try (rewrite app_nil_r; split; [auto|split; [|auto]];
                       intros x Hx; eapply pstep_finished_stable; eauto).
      destruct (pstep_finished_new _ _ _ _ _ _ Ep) as [Hnew1 Hnew2].
      split; [|split].
      - apply NoDup_app_snoc; auto; intros Hin; apply Hnew1; auto.
      - intros x Hx. apply in_app_iff in Hx. destruct Hx as [Hx|[<-|[]]]; auto.
        eapply pstep_finished_stable; eauto.
      - intros x Hx. apply in_app_iff in Hx. destruct Hx as [Hx|[<-|[]]]; auto.
        pose proof (sim_phase _ _ _ Hsim1 t) as Hr. rewrite Hnew2 in Hr. cbn [phase_rel] in Hr.
        apply memb_in. tauto. }
    assert (Hsig1 : (sig_n (d_sig d1) + shutdown_count h <= 2)%nat).
    { rewrite (step_sig_count _ _ _ _ _ E). lia. }
    destruct (IH _ _ _ Hsim1 Hpinv1 Hwf Hsig1) as (d' & ps' & Hfin & Hsim' & Hpinv' & Hoc').
    exists d', ps'. rewrite final_state_cons. unfold next_state. cbn [dstep]. rewrite E. cbn [fst].
    split; auto. split; auto. split.
    + rewrite finished_tests_cons. destruct e; try (rewrite app_nil_r in Hpinv'; exact Hpinv').
      rewrite <- app_assoc in Hpinv'. exact Hpinv'.
    + intros x. rewrite out_cons. cbn [dstep]. rewrite E. cbn [fst snd].
      rewrite ocheck_app, Hoc1. unfold next_state. cbn [dstep]. rewrite E. cbn [fst]. apply Hoc'.
Qed.

(* ------------------------------------------------------------------ consequences: no panic *)

Lemma pinv_init c : pinv c pstate0 [].
Proof. split; [constructor|]. split; [intros t []|intros t []]. Qed.

Lemma wf_history_unfold c mf dbg h :
  wf_history c mf dbg h = true ->
  cfg_ok c = true /\ wf_from c (Live (init_for c mf dbg)) pstate0 h = true.
Proof. unfold wf_history, wf_protocol, wf_from. intros H. apply andb_true_iff in H. exact H. Qed.

Lemma wf_run c mf dbg h :
  wf_history c mf dbg h = true -> (shutdown_count h <= 2)%nat ->
  exists d' ps',
    final_state (Live (init_for c mf dbg)) h = Live d' /\ sim c d' ps' /\
    pinv c ps' (finished_tests h) /\
    forall t, ocheck (c_total c t) t ONone (out (Live (init_for c mf dbg)) h)
              = Some (o_of_phase (ps_phase ps' t)).
Proof.
  intros Hwf Hsig. apply wf_history_unfold in Hwf. destruct Hwf as [Hok Hwf].
  assert (Hs : (sig_n (d_sig (init_for c mf dbg)) + shutdown_count h <= 2)%nat) by (cbn; exact Hsig).
  destruct (sim_run c Hok h _ _ [] (sim_init c mf dbg) (pinv_init c) Hwf Hs) as (d' & ps' & A & B & C & D).
  exists d', ps'. split; [exact A|]. split; [exact B|]. split; [exact C|]. exact D.
Qed.

Lemma never_panics_on_wf c mf dbg h :
  wf_history c mf dbg h = true -> (shutdown_count h <= 2)%nat ->
  exists d, final_state (Live (init_for c mf dbg)) h = Live d.
Proof. intros H1 H2. destruct (wf_run _ _ _ _ H1 H2) as (d & _ & A & _). eauto. Qed.

(* ------------------------------------------------------------------ consequences: C01 *)

Lemma final_of_in h t a : final_of h t = Some a -> In (t, a) (finished_events h).
Proof.
  induction h as [|e h IH]; cbn [final_of]; [discriminate|].
  destruct e; cbn [finished_events]; auto.
  destruct (N.eqb_spec t0 t) as [->|Hne].
  - intros H; inversion H; subst. left; auto.
  - intros H. right. auto.
Qed.

Lemma final_of_none h t : final_of h t = None <-> ~ In t (finished_tests h).
Proof.
  unfold finished_tests. induction h as [|e h IH]; cbn [final_of finished_events map].
  - split; auto.
  - destruct e; auto. cbn [finished_events map fst In].
    destruct (N.eqb_spec t0 t) as [->|Hne].
    + split; [discriminate|]. intros H. exfalso. apply H. left; auto.
    + rewrite IH. split; intros H; [intros [E|Hin]; [congruence|auto] | intros Hin; apply H; right; auto].
Qed.

Lemma final_of_unique h t a :
  NoDup (finished_tests h) -> In (t, a) (finished_events h) -> final_of h t = Some a.
Proof.
  unfold finished_tests. induction h as [|e h IH]; cbn [final_of finished_events map]; [intros _ []|].
  destruct e; auto. cbn [finished_events map fst]. intros Hnd Hin. inversion Hnd; subst.
  destruct Hin as [E|Hin].
  - inversion E; subst. rewrite N.eqb_refl. reflexivity.
  - destruct (N.eqb_spec t0 t) as [->|Hne]; auto.
    exfalso. apply H1. apply (in_map fst) in Hin. exact Hin.
Qed.

Lemma tally_fin_len h : tally ev_fin h = N.of_nat (length (finished_events h)).
Proof.
  induction h as [|e h IH]; cbn [tally finished_events length]; auto.
  destruct e; cbn [ev_fin finished_events length]; rewrite IH; lia.
Qed.

Lemma tally_fail_zero h :
  tally ev_fail h = 0 <-> forall t a, In (t, a) (finished_events h) -> is_success (a_res a) = true.
Proof.
  induction h as [|e h IH]; cbn [tally finished_events].
  - split; auto; intros _ t a [].
  - destruct e; cbn [ev_fail finished_events]; try (rewrite N.add_0_l; exact IH).
    unfold fail1. split.
    + intros H t' a' [E|Hin].
      * inversion E; subst. destruct (is_success (a_res a')); auto. lia.
      * apply (proj1 IH) with (t := t'); auto. destruct (is_success (a_res a)); lia.
    + intros H. rewrite (H t a (or_introl eq_refl)). rewrite N.add_0_l. apply (proj2 IH).
      intros t' a' Hin. apply (H t' a'). right; auto.
Qed.

Lemma tally_sfail_zero h : tally ev_sfail h = 0 <-> forallb is_success (script_results h) = true.
Proof.
  induction h as [|e h IH]; cbn [tally script_results forallb]; [split; auto|].
  destruct e; cbn [ev_sfail script_results forallb]; try (rewrite N.add_0_l; exact IH).
  unfold fail1. destruct (is_success r); cbn [andb].
  - rewrite N.add_0_l. exact IH.
  - split; [lia|discriminate].
Qed.

Lemma all_passed_iff sel h :
  NoDup sel -> NoDup (finished_tests h) -> incl (finished_tests h) sel ->
  (forallb (test_passed h) sel = true <->
   tally ev_fail h = 0 /\ N.of_nat (length sel) <= tally ev_fin h).
Proof.
  intros Hsel Hnd Hincl. rewrite forallb_forall, tally_fail_zero, tally_fin_len.
  unfold test_passed. split.
  - intros H. split.
    + intros t a Hin. assert (Ht : In t sel) by (apply Hincl; apply (in_map fst) in Hin; exact Hin).
      specialize (H t Ht). rewrite (final_of_unique _ _ _ Hnd Hin) in H. exact H.
    + assert (Hi : incl sel (finished_tests h)).
      { intros t Ht. specialize (H t Ht). destruct (final_of h t) eqn:E; [|discriminate].
        apply final_of_in in E. apply (in_map fst) in E. exact E. }
      pose proof (NoDup_incl_length Hsel Hi) as L. unfold finished_tests in L.
      rewrite map_length in L. lia.
  - intros [Hall Hlen] t Ht.
    assert (Hi : incl sel (finished_tests h)).
    { apply NoDup_length_incl; auto. unfold finished_tests. rewrite map_length. lia. }
    specialize (Hi t Ht). destruct (final_of h t) eqn:E.
    + apply final_of_in in E. eapply Hall; eauto.
    + apply final_of_none in E. contradiction.
Qed.

Lemma init_for_stats c mf dbg :
  d_stats (init_for c mf dbg) = stats0 (N.of_nat (length (c_sel c))).
Proof. reflexivity. Qed.

Theorem run_exit_spec c mf dbg h p :
  wf_history c mf dbg h = true -> (shutdown_count h <= 2)%nat ->
  run_exit c mf dbg h p = Some (spec_exit c h p).
Proof.
  intros Hwf Hsig.
  destruct (wf_run _ _ _ _ Hwf Hsig) as (d & ps & Hfin & Hsim & (Hnd & _ & Hincl) & _).
  apply wf_history_unfold in Hwf. destruct Hwf as [Hok _].
  assert (Hsel : NoDup (c_sel c)).
  { unfold cfg_ok in Hok. apply andb_true_iff in Hok. destruct Hok as [Hok _].
    apply andb_true_iff in Hok. destruct Hok as [Hok _]. apply nodupb_NoDup; auto. }
  unfold run_exit. rewrite Hfin. f_equal.
  pose proof (run_counts _ _ _ Hfin) as P. cbv zeta in P. rewrite init_for_stats in P.
  destruct P as (Pfin & Pfail & _ & Pinit & Pssi & _ & Psf & _).
  cbn [stats0 finished_count failed_count failed failed_setup_script_count exec_failed timed_out
       initial_run_count ss_initial ss_failed ss_exec_failed ss_timed_out] in *.
  rewrite !N.add_0_l in *.
  assert (Hs1 : tally ev_sfail h = 0 -> forallb is_success (script_results h) = true)
    by apply tally_sfail_zero.
  assert (Hs2 : tally ev_sfail h <> 0 -> forallb is_success (script_results h) = false).
  { intros Hne. destruct (forallb is_success (script_results h)) eqn:Es; auto.
    apply tally_sfail_zero in Es. contradiction. }
  assert (Hp1 : tally ev_fail h = 0 /\ N.of_nat (length (c_sel c)) <= tally ev_fin h ->
                forallb (test_passed h) (c_sel c) = true)
    by apply (all_passed_iff _ _ Hsel Hnd Hincl).
  assert (Hp2 : ~ (tally ev_fail h = 0 /\ N.of_nat (length (c_sel c)) <= tally ev_fin h) ->
                forallb (test_passed h) (c_sel c) = false).
  { intros Hne. destruct (forallb (test_passed h) (c_sel c)) eqn:Et; auto.
    apply (all_passed_iff _ _ Hsel Hnd Hincl) in Et. contradiction. }
  assert (Hle : tally ev_fin h <= N.of_nat (length (c_sel c))).
  { rewrite tally_fin_len. pose proof (NoDup_incl_length Hnd Hincl) as L.
    unfold finished_tests in L. rewrite map_length in L. lia. }
  unfold spec_exit.
  destruct (summarize_final_cases (d_stats d) Pssi) as
    [[A E]|[(A & B & a & b & E)|[(A & B & C & a & b & E)|[(A & B & C & D & E)|(A & B & C & D & E)]]]];
    rewrite E; cbn [exit_code].
  - rewrite Hs2 by lia. reflexivity.
  - rewrite Hs1 by lia. rewrite Hp2 by lia. reflexivity.
  - rewrite Hs1 by lia. rewrite Hp2 by lia. reflexivity.
  - rewrite Hs1 by lia. rewrite Hp1 by lia. cbn [negb].
    destruct (c_sel c) as [|x l]; [destruct p as [[| |]|]; reflexivity|].
    cbn [length] in *. lia.
  - rewrite Hs1 by lia. rewrite Hp1 by lia. cbn [negb].
    destruct (c_sel c) as [|x l]; [cbn [length] in *; lia|]. reflexivity.
Qed.

Lemma forallb_false_exists {A} (f : A -> bool) l :
  forallb f l = false <-> exists x, In x l /\ f x = false.
Proof.
  induction l as [|x l IH]; cbn [forallb].
  - split; [discriminate|intros (x & [] & _)].
  - destruct (f x) eqn:E; cbn [andb].
    + rewrite IH. split; intros (y & Hin & Hy); exists y; split; auto.
      * right; auto.
      * destruct Hin as [<-|]; auto. congruence.
    + split; auto. intros _. exists x. split; auto. left; auto.
Qed.

Lemma test_passed_iff h t :
  test_passed h t = true <-> exists a, final_of h t = Some a /\ is_success (a_res a) = true.
Proof.
  unfold test_passed. destruct (final_of h t) as [a|].
  - split; eauto. intros (a' & E & H). inversion E; subst; auto.
  - split; [discriminate|intros (a & E & _); discriminate].
Qed.

(* exit status 0 <-> the property's right-hand side, on the specification side *)
Lemma spec_exit_zero_iff c h p :
  spec_exit c h p = 0%Z <->
  (forall r, In r (script_results h) -> is_success r = true) /\
  (forall t, In t (c_sel c) -> exists a, final_of h t = Some a /\ is_success (a_res a) = true) /\
  (c_sel c <> [] \/ p = Some NtPass \/ p = Some NtWarn).
Proof.
  unfold spec_exit.
  destruct (forallb is_success (script_results h)) eqn:Es; cbn [negb].
  2: { split; [discriminate|]. intros (A & _). apply forallb_false_exists in Es.
       destruct Es as (r & Hin & Hr). rewrite (A r Hin) in Hr. discriminate. }
  rewrite forallb_forall in Es.
  destruct (forallb (test_passed h) (c_sel c)) eqn:Et; cbn [negb].
  2: { split; [discriminate|]. intros (_ & B & _). apply forallb_false_exists in Et.
       destruct Et as (t & Hin & Ht). apply B in Hin. apply test_passed_iff in Hin. congruence. }
  rewrite forallb_forall in Et.
  assert (B : forall t, In t (c_sel c) -> exists a, final_of h t = Some a /\ is_success (a_res a) = true)
    by (intros t Ht; apply test_passed_iff; auto).
  destruct (c_sel c) as [|x l] eqn:El.
  - destruct p as [[| |]|]; cbn; split; intros H; try discriminate;
      try (repeat split; auto; fail);
      try (destruct H as (_ & _ & [H|[H|H]]); congruence).
  - split; auto. intros _. repeat split; auto. left; discriminate.
Qed.

Lemma exit_zero_iff c mf dbg h p :
  wf_history c mf dbg h = true -> (shutdown_count h <= 2)%nat ->
  (run_exit c mf dbg h p = Some 0%Z <->
   (forall r, In r (script_results h) -> is_success r = true) /\
   (forall t, In t (c_sel c) -> exists a, final_of h t = Some a /\ is_success (a_res a) = true) /\
   (c_sel c <> [] \/ p = Some NtPass \/ p = Some NtWarn)).
Proof.
  intros Hwf Hsig. rewrite (run_exit_spec _ _ _ _ p Hwf Hsig). rewrite <- spec_exit_zero_iff.
  split; [intros H; inversion H; reflexivity | intros ->; reflexivity].
Qed.

Lemma exit_codes c mf dbg h p :
  wf_history c mf dbg h = true -> (shutdown_count h <= 2)%nat ->
  exists code, run_exit c mf dbg h p = Some code /\
    (* a setup script failed: 105 *)
    ((exists r, In r (script_results h) /\ is_success r = false) -> code = 105%Z) /\
    (* no script failed, but a selected test failed, timed out, could not be started, or has no
       Finished in the history (cancelled / never started): 100 *)
    ((forall r, In r (script_results h) -> is_success r = true) ->
     (exists t, In t (c_sel c) /\
                (final_of h t = None \/ exists a, final_of h t = Some a /\ is_success (a_res a) = false)) ->
     code = 100%Z) /\
    (* nothing failed and nothing was selected: 4 under the default policy and --no-tests=fail *)
    ((forall r, In r (script_results h) -> is_success r = true) ->
     c_sel c = [] -> (p = None \/ p = Some NtFail) -> code = 4%Z) /\
    (* otherwise 0 *)
    ((forall r, In r (script_results h) -> is_success r = true) ->
     (forall t, In t (c_sel c) -> exists a, final_of h t = Some a /\ is_success (a_res a) = true) ->
     (c_sel c <> [] \/ p = Some NtPass \/ p = Some NtWarn) -> code = 0%Z).
Proof.
  intros Hwf Hsig. exists (spec_exit c h p). split; [apply run_exit_spec; auto|].
  unfold spec_exit. repeat split.
  - intros (r & Hin & Hr).
    replace (forallb is_success (script_results h)) with false; [reflexivity|].
    symmetry. apply forallb_false_exists. eauto.
  - intros Hs (t & Hin & Ht).
    replace (forallb is_success (script_results h)) with true
      by (symmetry; apply forallb_forall; auto). cbn [negb].
    replace (forallb (test_passed h) (c_sel c)) with false; [reflexivity|].
    symmetry. apply forallb_false_exists. exists t. split; auto. unfold test_passed.
    destruct Ht as [->|(a & -> & Ha)]; auto.
  - intros Hs Hsel Hp.
    replace (forallb is_success (script_results h)) with true
      by (symmetry; apply forallb_forall; auto). cbn [negb]. rewrite Hsel. cbn [forallb negb].
    destruct Hp as [->| ->]; reflexivity.
  - intros Hs Ht Hp. apply spec_exit_zero_iff. auto.
Qed.

(* ------------------------------------------------------------------ consequences: C02 *)

Definition started_flag (o : ostate) : nat := match o with ONone | OSkip => 0 | _ => 1 end.
Definition finished_flag (o : ostate) : nat := match o with ODone => 1 | _ => 0 end.
Definition skipped_flag (o : ostate) : nat := match o with OSkip => 1 | _ => 0 end.

Lemma count_if_cons f e l :
  count_if f (e :: l) = ((if f e then 1 else 0) + count_if f l)%nat.
Proof. unfold count_if. cbn [filter]. destruct (f e); reflexivity. Qed.

Lemma other_tid_not_of t e :
  (forall t', event_tid e = Some t' -> t' <> t) ->
  is_started_of t e = false /\ is_finished_of t e = false /\ is_skipped_of t e = false.
Proof.
  intros H. destruct e; cbn [is_started_of is_finished_of is_skipped_of]; repeat split; auto;
    (destruct (N.eqb_spec t0 t) as [->|]; auto; exfalso; eapply H; cbn; eauto).
Qed.

Lemma ostep_flags tot t o e o' :
  event_tid e = Some t -> ostep tot o e = Some o' ->
  ((if is_started_of t e then 1 else 0) + started_flag o = started_flag o' /\
   (if is_finished_of t e then 1 else 0) + finished_flag o = finished_flag o' /\
   (if is_skipped_of t e then 1 else 0) + skipped_flag o = skipped_flag o')%nat.
Proof.
  intros Ht Hs. destruct e; cbn [event_tid] in Ht; try discriminate; inversion Ht; subst;
    destruct o; cbn [ostep] in Hs; try discriminate;
    repeat match type of Hs with context [if ?b then _ else _] => destruct b; try discriminate end;
    inversion Hs; subst; cbn [is_started_of is_finished_of is_skipped_of started_flag finished_flag skipped_flag];
    rewrite ?N.eqb_refl; auto.
Qed.

Lemma ocheck_counts tot t l : forall o o',
  ocheck tot t o l = Some o' ->
  (count_if (is_started_of t) l + started_flag o = started_flag o' /\
   count_if (is_finished_of t) l + finished_flag o = finished_flag o' /\
   count_if (is_skipped_of t) l + skipped_flag o = skipped_flag o')%nat.
Proof.
  induction l as [|e l IH]; intros o o' H; cbn [ocheck] in H.
  - inversion H; subst. unfold count_if; cbn. auto.
  - rewrite !count_if_cons.
    destruct (event_tid e) as [t'|] eqn:Et.
    + destruct (N.eqb_spec t' t) as [->|Hne].
      * destruct (ostep tot o e) as [o1|] eqn:Es; [|discriminate].
        destruct (ostep_flags _ _ _ _ _ Et Es) as (A & B & C).
        destruct (IH _ _ H) as (A' & B' & C'). lia.
      * destruct (other_tid_not_of t e) as (A & B & C).
        { intros t'' E. rewrite Et in E. inversion E; subst. auto. }
        rewrite A, B, C. apply IH; auto.
    + destruct (other_tid_not_of t e) as (A & B & C).
      { intros t'' E. rewrite Et in E. discriminate. }
      rewrite A, B, C. apply IH; auto.
Qed.

Lemma count_if_pos_exists f l : (0 < count_if f l)%nat -> exists x, In x l /\ f x = true.
Proof.
  unfold count_if. induction l as [|x l IH]; cbn [filter length]; [lia|].
  destruct (f x) eqn:E; [intros _; exists x; split; auto; left; auto|].
  intros H. destruct (IH H) as (y & Hin & Hy). exists y. split; auto. right; auto.
Qed.

Lemma is_finished_of_tid t e : is_finished_of t e = true -> event_tid e = Some t.
Proof.
  destruct e; cbn; try discriminate. intros H. apply N.eqb_eq in H. subst. reflexivity.
Qed.

(* a reported finish is preceded by a reported start *)
Lemma ocheck_finish_after_start tot t pre e post o' :
  ocheck tot t ONone (pre ++ e :: post) = Some o' -> is_finished_of t e = true ->
  exists x, In x pre /\ is_started_of t x = true.
Proof.
  intros H He. rewrite ocheck_app in H.
  destruct (ocheck tot t ONone pre) as [o1|] eqn:E1; [|discriminate].
  cbn [ocheck] in H. rewrite (is_finished_of_tid _ _ He), N.eqb_refl in H.
  destruct (ostep tot o1 e) as [o2|] eqn:Es; [|discriminate].
  assert (Hf : started_flag o1 = 1%nat).
  { destruct e; cbn in He; try discriminate. destruct o1; cbn [ostep] in Es; try discriminate. reflexivity. }
  destruct (ocheck_counts _ _ _ _ _ E1) as (A & _ & _). cbn [started_flag] in A.
  apply count_if_pos_exists. lia.
Qed.

(* the attempts carried by a reported finish are numbered 1..k, k <= total *)
Lemma ocheck_finish_numbered tot t pre sts s r cs post o' :
  ocheck tot t ONone (pre ++ ETestFinished t sts s r cs :: post) = Some o' ->
  numbered_from 1 (st_all sts) = true /\ st_len sts <= tot.
Proof.
  intros H. rewrite ocheck_app in H.
  destruct (ocheck tot t ONone pre) as [o1|] eqn:E1; [|discriminate].
  cbn [ocheck event_tid] in H. rewrite N.eqb_refl in H.
  destruct (ostep tot o1 (ETestFinished t sts s r cs)) as [o2|] eqn:Es; [|discriminate].
  destruct o1; cbn [ostep] in Es; try discriminate.
  destruct ((st_len sts =? k) && numbered_from 1 (st_all sts) && (k <=? tot)) eqn:Ec; [|discriminate].
  bool_hyps. split; auto. lia.
Qed.

(* reaching "attempt k failed, retry pending" needs a reported failed attempt k *)
Lemma ocheck_reach_wait tot t k l : forall o,
  ocheck tot t o l = Some (OWait k) ->
  o = OWait k \/ exists x, In x l /\ is_failed_retry_of t k x = true.
Proof.
  induction l as [|e l IH]; intros o H; cbn [ocheck] in H.
  - inversion H; auto.
  - destruct (event_tid e) as [t'|] eqn:Et.
    + destruct (N.eqb_spec t' t) as [->|Hne].
      * destruct (ostep tot o e) as [o1|] eqn:Es; [|discriminate].
        destruct (IH _ H) as [->|(x & Hin & Hx)].
        -- right. exists e. split; [left; auto|].
           destruct e; cbn [event_tid] in Et; try discriminate; inversion Et; subst;
             destruct o; cbn [ostep] in Es; try discriminate;
             repeat match type of Es with context [if ?b then _ else _] => destruct b eqn:?; try discriminate end;
             inversion Es; subst.
           bool_hyps. cbn [is_failed_retry_of]. rewrite N.eqb_refl. cbn [andb]. apply N.eqb_eq. auto.
        -- right. exists x. split; auto. right; auto.
      * destruct (IH _ H) as [->|(x & Hin & Hx)]; auto. right. exists x. split; auto. right; auto.
    + destruct (IH _ H) as [->|(x & Hin & Hx)]; auto. right. exists x. split; auto. right; auto.
Qed.

(* a reported retry k+1 is preceded by a reported failed attempt k *)
Lemma ocheck_retry_after_failure tot t pre e post o' k :
  ocheck tot t ONone (pre ++ e :: post) = Some o' -> is_retry_of t (k + 1) e = true ->
  exists x, In x pre /\ is_failed_retry_of t k x = true.
Proof.
  intros H He. rewrite ocheck_app in H.
  destruct (ocheck tot t ONone pre) as [o1|] eqn:E1; [|discriminate].
  destruct e; cbn [is_retry_of] in He; try discriminate. bool_hyps. subst.
  cbn [ocheck event_tid] in H. rewrite N.eqb_refl in H.
  destruct (ostep tot o1 (ETestRetryStarted t (k + 1) total)) as [o2|] eqn:Es; [|discriminate].
  destruct o1; cbn [ostep] in Es; try discriminate.
  destruct ((k + 1 =? k0 + 1) && (total =? tot)) eqn:Ec; [|discriminate]. bool_hyps.
  assert (k0 = k) by lia. subst k0.
  destruct (ocheck_reach_wait _ _ _ _ _ E1) as [Hbad|Hex]; [discriminate|exact Hex].
Qed.

(* any reported non-skip event of a test means it was reported started *)
Lemma ocheck_event_started tot t l : forall o o' e,
  ocheck tot t o l = Some o' -> In e l -> event_tid e = Some t -> is_skipped_of t e = false ->
  started_flag o' = 1%nat.
Proof.
  induction l as [|e0 l IH]; intros o o' e H Hin Ht Hsk; [destruct Hin|].
  cbn [ocheck] in H. destruct Hin as [->|Hin].
  - rewrite Ht, N.eqb_refl in H. destruct (ostep tot o e) as [o1|] eqn:Es; [|discriminate].
    assert (started_flag o1 = 1%nat).
    { destruct e; cbn [event_tid] in Ht; try discriminate;
        destruct o; cbn [ostep] in Es; try discriminate;
        repeat match type of Es with context [if ?b then _ else _] => destruct b; try discriminate end;
        inversion Es; subst; auto.
      inversion Ht; subst. cbn [is_skipped_of] in Hsk. rewrite N.eqb_refl in Hsk. discriminate. }
    destruct (ocheck_counts _ _ _ _ _ H) as (A & _ & _).
    destruct o'; cbn [started_flag] in *; lia.
  - destruct (event_tid e0) as [t'|]; [destruct (t' =? t)|]; try (eapply IH; eauto; fail).
    destruct (ostep tot o e0) as [o1|]; [|discriminate]. eapply IH; eauto.
Qed.

Lemma cfg_unsel_not_sel c t : cfg_ok c = true -> memb t (c_unsel c) = true -> ~ In t (c_sel c).
Proof.
  unfold cfg_ok. intros H Hm Hin. apply andb_true_iff in H. destruct H as [H _].
  apply andb_true_iff in H. destruct H as [_ H]. rewrite forallb_forall in H.
  apply memb_in in Hm. specialize (H _ Hm). apply negb_true_iff in H.
  apply memb_in in Hin. congruence.
Qed.

Theorem once c mf dbg h :
  wf_history c mf dbg h = true -> (shutdown_count h <= 2)%nat ->
  let o := out (Live (init_for c mf dbg)) h in
  forall t,
    (count_if (is_started_of t) o <= 1)%nat /\
    (count_if (is_finished_of t) o <= 1)%nat /\
    (count_if (is_skipped_of t) o <= 1)%nat /\
    (forall pre e post, o = pre ++ e :: post -> is_finished_of t e = true ->
       exists x, In x pre /\ is_started_of t x = true) /\
    (forall e, In e o -> is_skipped_of t e = true -> In t (c_unsel c) /\ ~ In t (c_sel c)) /\
    (forall e, In e o -> event_tid e = Some t -> is_skipped_of t e = false -> In t (c_sel c)).
Proof.
  intros Hwf Hsig o t.
  destruct (wf_run _ _ _ _ Hwf Hsig) as (d & ps & Hfin & Hsim & _ & Hoc).
  apply wf_history_unfold in Hwf. destruct Hwf as [Hok _].
  specialize (Hoc t). fold o in Hoc.
  destruct (ocheck_counts _ _ _ _ _ Hoc) as (A & B & C).
  cbn [started_flag finished_flag skipped_flag] in A, B, C.
  pose proof (sim_phase _ _ _ Hsim t) as Hrel.
  split; [destruct (o_of_phase (ps_phase ps t)); cbn in A; lia|].
  split; [destruct (o_of_phase (ps_phase ps t)); cbn in B; lia|].
  split; [destruct (o_of_phase (ps_phase ps t)); cbn in C; lia|].
  split; [|split].
  - intros pre e post E He. rewrite E in Hoc. eapply ocheck_finish_after_start; eauto.
  - intros e Hin Hsk.
    assert (Hc : (0 < count_if (is_skipped_of t) o)%nat).
    { unfold count_if. assert (Hi : In e (filter (is_skipped_of t) o)) by (apply filter_In; auto).
      destruct (filter _ o); [destruct Hi|cbn; lia]. }
    destruct (ps_phase ps t); cbn in C, Hrel; try lia.
    split; [apply memb_in; tauto|]. eapply cfg_unsel_not_sel; eauto. tauto.
  - intros e Hin Ht Hsk.
    pose proof (ocheck_event_started _ _ _ _ _ _ Hoc Hin Ht Hsk) as Hf.
    destruct (ps_phase ps t); cbn in Hf, Hrel; try discriminate; apply memb_in; tauto.
Qed.

Theorem attempts c mf dbg h :
  wf_history c mf dbg h = true -> (shutdown_count h <= 2)%nat ->
  let o := out (Live (init_for c mf dbg)) h in
  forall t,
    (* the events reported for t follow the per-test automaton: Started; then attempts k = 1, 2, ...
       each either AttemptFailedWillRetry k (k < total) followed by RetryStarted k+1, or Finished *)
    (exists o', ocheck (c_total c t) t ONone o = Some o') /\
    (* the attempts carried by TestFinished are numbered 1..k consecutively, k <= total_attempts *)
    (forall pre sts s r cs post, o = pre ++ ETestFinished t sts s r cs :: post ->
       numbered_from 1 (st_all sts) = true /\ st_len sts <= c_total c t) /\
    (* each TestRetryStarted k+1 is preceded by TestAttemptFailedWillRetry k *)
    (forall pre e post k, o = pre ++ e :: post -> is_retry_of t (k + 1) e = true ->
       exists x, In x pre /\ is_failed_retry_of t k x = true).
Proof.
  intros Hwf Hsig o t.
  destruct (wf_run _ _ _ _ Hwf Hsig) as (d & ps & _ & _ & _ & Hoc).
  specialize (Hoc t). fold o in Hoc. split; [eauto|]. split.
  - intros pre sts s r cs post E. rewrite E in Hoc. eapply ocheck_finish_numbered; eauto.
  - intros pre e post k E He. rewrite E in Hoc. eapply ocheck_retry_after_failure; eauto.
Qed.

(* ------------------------------------------------------------------ fixtures of the closed examples *)

Definition ex_cfg : cfg := mk_cfg [0; 1; 2] [3] (fun t => if t =? 1 then 3 else 1) 1.
Definition f_att (no total : N) : attempt := mk_attempt (Fail (Some 6) false) false no total.
Definition p_att (no total : N) : attempt := mk_attempt Pass false no total.
Definition l_att (no total : N) : attempt := mk_attempt Leak true no total.

(* everything passes (test 1 is flaky: fails twice, passes the third attempt; test 2 leaks) *)
Definition ex_pass : list devent :=
  [ScriptStarted 0; ScriptSlow 0 false; ScriptFinished 0 Pass;
   Started 0; Skipped 3; Started 1; Slow 1 1 3 false;
   AttemptFailedWillRetry 1 (f_att 1 3); Finished 0 (p_att 1 1); RetryStarted 1 2 3; SigStop; SigCont;
   AttemptFailedWillRetry 1 (f_att 2 3); RetryStarted 1 3 3; Started 2; InputEnter;
   Finished 1 (p_att 3 3); Finished 2 (l_att 1 1)].

(* test 0 fails with fail-fast: test 2 never starts, the retry of test 1 is refused *)
Definition ex_fail_fast : list devent :=
  [ScriptStarted 0; ScriptFinished 0 Pass;
   Started 0; Started 1; AttemptFailedWillRetry 1 (f_att 1 3); Finished 0 (f_att 1 1);
   RetryStarted 1 2 3; Started 2].

(* cancelled by SIGINT although nothing failed *)
Definition ex_interrupted : list devent :=
  [ScriptStarted 0; ScriptFinished 0 Pass; Started 0; SigShutdown SInterrupt; Finished 0 (p_att 1 1);
   Started 1; Started 2].

(* the setup script fails *)
Definition ex_script_fails : list devent :=
  [ScriptStarted 0; ScriptFinished 0 (Fail None false); Started 0; Started 1; Started 2].

Definition ex_cfg_empty : cfg := mk_cfg [] [0] (fun _ => 1) 0.

(* ------------------------------------------------------------------ interleavings *)

(* pstep = script/gate automaton x the automaton of the one test the event belongs to *)
Lemma pstep_decomp c ps e hs :
  pstep c ps e hs =
  match gstep c (ps_next ps, ps_srun ps) e hs with
  | None => None
  | Some (n', b') =>
      match event_test e with
      | None => Some (mk_pstate (ps_phase ps) n' b')
      | Some t =>
          match ustep c t (ps_phase ps t) e hs with
          | Some p' => Some (mk_pstate (upd (ps_phase ps) t p') n' b')
          | None => None
          end
      end
  end.
Proof.
  destruct ps as [f n b]. unfold tests_open.
  destruct e; cbn [pstep gstep event_test ustep ps_phase ps_next ps_srun set_phase tests_open];
    unfold tests_open; cbn [ps_phase ps_next ps_srun];
    repeat match goal with
    | |- context [if ?x then _ else _] => destruct x eqn:?; cbn [andb negb]
    | |- context [match f ?t with _ => _ end] => destruct (f t) eqn:?
    | |- context [match hs with _ => _ end] => destruct hs
    end; try reflexivity; try discriminate.
Qed.

Lemma urun_skip c t p e hs r :
  (forall t', event_test e = Some t' -> t' <> t) -> urun c t p ((e, hs) :: r) = urun c t p r.
Proof.
  intros H. cbn [urun]. destruct (event_test e) as [t'|]; auto.
  destruct (N.eqb_spec t' t) as [->|]; auto. exfalso. eapply H; eauto.
Qed.

(* A history is well-formed iff the script/gate automaton accepts it and, for every test, the
   events of that test form a trace of its unit: there is no other constraint between the events
   of different tests, or between them and signals -- every interleaving is admitted. *)
Theorem wf_protocol_decomp c : forall h ps,
  wf_protocol_from c ps h = true <->
  grun c (ps_next ps, ps_srun ps) h = true /\ forall t, urun c t (ps_phase ps t) h = true.
Proof.
  induction h as [|[e hs] h IH]; intros ps.
  - cbn. split; auto.
  - cbn [wf_protocol_from grun]. rewrite pstep_decomp.
    destruct (gstep c (ps_next ps, ps_srun ps) e hs) as [[n' b']|] eqn:Eg.
    2: { split; [discriminate|intros [H _]; discriminate]. }
    destruct (event_test e) as [t|] eqn:Et.
    + destruct (ustep c t (ps_phase ps t) e hs) as [p'|] eqn:Eu.
      * rewrite IH. cbn [ps_phase ps_next ps_srun]. split.
        -- intros [G U]. split; auto. intros x. cbn [urun]. rewrite Et.
           destruct (N.eqb_spec t x) as [->|Hne].
           ++ rewrite Eu. specialize (U x). rewrite upd_eq in U. exact U.
           ++ specialize (U x). rewrite upd_neq in U by auto. exact U.
        -- intros [G U]. split; auto. intros x. specialize (U x). cbn [urun] in U. rewrite Et in U.
           destruct (N.eqb_spec t x) as [->|Hne].
           ++ rewrite Eu in U. rewrite upd_eq. exact U.
           ++ rewrite upd_neq by auto. exact U.
      * split; [discriminate|]. intros [_ U]. specialize (U t). cbn [urun] in U.
        rewrite Et, N.eqb_refl, Eu in U. discriminate.
    + rewrite IH. cbn [ps_phase ps_next ps_srun]. split; intros [G U]; split; auto; intros x;
        specialize (U x); cbn [urun] in *; rewrite Et in *; exact U.
Qed.

(* the unit automaton only reads its own test's events: its run is its run on the projection *)
Lemma urun_projection c t : forall h p, urun c t p h = urun c t p (filter (of_test t) h).
Proof.
  induction h as [|[e hs] h IH]; intros p; [reflexivity|].
  cbn [urun filter]. unfold of_test at 1. cbn [fst].
  destruct (event_test e) as [t'|] eqn:Et; [|apply IH].
  destruct (N.eqb_spec t' t) as [->|Hne]; [|apply IH].
  cbn [urun]. rewrite Et, N.eqb_refl. destruct (ustep c t p e hs); auto.
Qed.

(* wf_history in the decomposed form *)
Definition interleaving_of_unit_traces (c : cfg) (mf : option N) (dbg : bool) (h : list devent) : Prop :=
  let ah := annotate (Live (init_for c mf dbg)) h in
  cfg_ok c = true /\ grun c (0, false) ah = true /\
  forall t, urun c t PIdle (filter (of_test t) ah) = true.

Lemma interleaving_wf c mf dbg h :
  interleaving_of_unit_traces c mf dbg h <-> wf_history c mf dbg h = true.
Proof.
  unfold interleaving_of_unit_traces, wf_history, wf_protocol. cbv zeta.
  rewrite andb_true_iff, wf_protocol_decomp. cbn [pstate0 ps_next ps_srun ps_phase].
  split; intros (A & B & C); repeat split; auto; intros t; specialize (C t).
  - rewrite urun_projection. exact C.
  - rewrite <- urun_projection. exact C.
Qed.

Theorem exit_any_interleaving c mf dbg h p :
  interleaving_of_unit_traces c mf dbg h -> (shutdown_count h <= 2)%nat ->
  run_exit c mf dbg h p = Some (spec_exit c h p).
Proof. intros H. apply run_exit_spec. apply interleaving_wf. exact H. Qed.

(* ------------------------------------------------------------------ C10: no unit sits out a retry delay of a cancelled run *)

Lemma pstep_enters_delay c ps e hs ps' t k :
  pstep c ps e hs = Some ps' -> ps_phase ps' t = PDelay k ->
  ps_phase ps t = PDelay k \/ exists a, e = AttemptFailedWillRetry t a.
Proof.
  intros Hp Hd.
  destruct e; cbn [pstep] in Hp;
    repeat match type of Hp with
    | context [if ?b then _ else _] => destruct b eqn:?; try discriminate
    | context [match ps_phase ps ?x with _ => _ end] => destruct (ps_phase ps x) eqn:?; try discriminate
    | context [match hs with _ => _ end] => destruct hs; try discriminate
    end; inversion Hp; subst; clear Hp; cbn [set_phase ps_phase] in Hd; auto;
    match type of Hd with
    | upd _ ?t0 _ _ = _ =>
        destruct (N.eq_dec t t0) as [->|Hne];
        [rewrite upd_eq in Hd; try discriminate; try (right; eauto; fail); try (left; congruence)
        | rewrite upd_neq in Hd by auto; auto]
    end.
Qed.

Definition prompt_inv (c : cfg) (y : sys) : Prop :=
  match y_d y with
  | Panicked => True
  | Live d =>
      sim c d (y_ps y) /\
      (d_cancel d <> None -> forall t k, ps_phase (y_ps y) t = PDelay k -> 0 < y_mail y t)
  end.

Lemma prompt_inv_step c y x y' :
  cfg_ok c = true -> prompt_inv c y -> sys_step true c y x = Some y' -> prompt_inv c y'.
Proof.
  intros Hok Hinv Hs. destruct y as [s ps m]. unfold prompt_inv in *. cbn [y_d y_ps y_mail] in *.
  destruct x as [e|t]; cbn [sys_step y_d y_ps y_mail] in Hs.
  - destruct s as [d|].
    2: { cbn [dstep] in Hs. destruct (pstep c ps e _); [|discriminate]. inversion Hs; subst. exact I. }
    destruct Hinv as [Hsim Hmail]. cbn [dstep] in Hs.
    destruct (dstep_live d e) as [[s' evs] rsp] eqn:E.
    destruct (pstep c ps e (r_hs rsp)) as [ps'|] eqn:Ep; [|discriminate].
    inversion Hs; subst y'; clear Hs. cbn [y_d y_ps y_mail].
    destruct s' as [d'|]; [|exact I].
    (* the step does not panic, so it is not a third shutdown signal *)
    assert (Hsig : ev_shutdown e = 1%nat -> d_sig d <> Some STwice).
    { intros He Hd. destruct e; cbn in He; try discriminate.
      rewrite (step_third_signal _ _ Hd) in E. discriminate. }
    destruct (sim_step _ _ _ _ _ _ _ _ Hok Hsim E Ep Hsig) as (d1 & E1 & Hsim' & _).
    inversion E1; subst d1. split; auto.
    intros Hc' t k Hph. unfold deliver.
    destruct (d_cancel d) as [cr|] eqn:Ecd.
    + (* already being cancelled *)
      destruct (pstep_enters_delay _ _ _ _ _ _ _ Ep Hph) as [Hold|[a ->]].
      * assert (0 < m t) by (eapply Hmail; eauto; discriminate). lia.
      * assert (Hu : r_unit rsp = Some t).
        { apply (step_unicast_iff _ _ _ _ _ t E). exists a. repeat split; auto; try discriminate.
          rewrite Ecd. discriminate. }
        rewrite Hu. cbn [andb]. rewrite N.eqb_refl. lia.
    + (* this step begins the cancellation: the broadcast reaches every unit in a delay *)
      change (cancel_request (broadcast_of (r_resp rsp)))
        with (cancel_broadcast (broadcast_of (r_resp rsp))).
      rewrite (step_begins_cancel_broadcasts _ _ _ _ _ E Ecd Hc'). cbn [andb].
      pose proof (sim_phase _ _ _ Hsim' t) as Hrel. rewrite Hph in Hrel. cbn [phase_rel] in Hrel.
      destruct Hrel as ((past & Hl & _) & _). rewrite Hl. cbn [is_some]. lia.
  - destruct (ps_phase ps t) eqn:Eph; try discriminate.
    destruct (0 <? m t) eqn:Em; [|discriminate]. inversion Hs; subst y'; clear Hs.
    cbn [y_d y_ps y_mail]. destruct s as [d|]; auto. destruct Hinv as [Hsim Hmail]. split; auto.
    intros Hc x k' Hx. destruct (N.eqb_spec x t) as [->|Hne]; [congruence|]. eapply Hmail; eauto.
Qed.

Lemma prompt_inv_init c mf dbg : prompt_inv c (sys0 c mf dbg).
Proof.
  unfold prompt_inv, sys0. cbn [y_d y_ps y_mail]. split; [apply sim_init|].
  intros _ t k H. cbn in H. discriminate.
Qed.

Lemma prompt_inv_run c xs : cfg_ok c = true -> forall y y',
  prompt_inv c y -> sys_run true c y xs = Some y' -> prompt_inv c y'.
Proof.
  intros Hok. induction xs as [|x xs IH]; intros y y' Hinv Hr; cbn [sys_run] in Hr.
  - inversion Hr; subst; auto.
  - destruct (sys_step true c y x) as [y1|] eqn:E; [|discriminate].
    eapply IH; [|exact Hr]. eapply prompt_inv_step; eauto.
Qed.

Theorem ends_promptly c mf dbg xs y :
  cfg_ok c = true -> sys_run true c (sys0 c mf dbg) xs = Some y ->
  forall t, stuck_in_delay y t = false.
Proof.
  intros Hok Hr t. pose proof (prompt_inv_run c xs Hok _ _ (prompt_inv_init c mf dbg) Hr) as Hinv.
  unfold prompt_inv in Hinv. unfold stuck_in_delay. destruct (y_d y) as [d|]; auto.
  destruct Hinv as [_ Hmail]. destruct (d_cancel d) eqn:Ec; cbn [is_some andb]; auto.
  destruct (ps_phase (y_ps y) t) eqn:Eph; auto.
  assert (0 < y_mail y t) by (eapply Hmail; eauto; discriminate).
  apply N.eqb_neq. lia.
Qed.

(* the regression witness of finding F10: fail-fast cancels while test 1's first attempt is running;
   the unit takes the OtherCancel off its channel and ignores it; the attempt then fails *)
Definition f10_cfg : cfg := mk_cfg [0; 1] [] (fun t => if t =? 0 then 1 else 3) 0.
Definition f10_witness : list sevent :=
  [SEvent (Started 0); SEvent (Started 1);
   SEvent (Finished 0 (mk_attempt (Fail None false) false 1 1));
   SConsume 1;
   SEvent (AttemptFailedWillRetry 1 (mk_attempt (Fail None false) false 1 3))].
