(* Bridge lemmas for the glue code (DESIGN 11.7, third round): fragments of the JUnit writer, the displayer, the loop of
   TestSettings::new, the stream set up by TestRunnerInner::execute, TestList::run_count, the dispatcher's run loop and
   signal_str, regenerated from the Rust source into gen/GenGlue.v by harness/src/bin/decisions.rs (spec
   harness/decisions_glue.json), are equal -- for all inputs -- to the hand-written model functions the property theorems
   are about. Layout as in Proofs/GenBridge.v: blocks cut by marker comments "== block NAME (needs A B) ==", so that
   lib/gen_tie.py can re-check one target at a time; the first block is the preamble. *)
(* == block preamble == *)
From Coq Require Import List NArith ZArith Bool Lia.
From Coq Require Strings.String Strings.Ascii.
From NextestModel Require Import Base.Tac Proofs.BridgeTac.
From NextestModel Require gen.GenGlue.
From NextestModel Require Base.Str Model.Junit.
From NextestModel Require Model.Dispatcher Model.Broadcast Proofs.Broadcast.
From NextestModel Require Model.Overrides.
From NextestModel Require Model.SignalNames Proofs.SignalNames.
From NextestModel Require Model.DisplaySetting Proofs.DisplaySetting.
From NextestModel Require Model.Filter Model.FutureQueue Model.Unit Model.Run Model.CliRun Model.ExecuteStream Proofs.ExecuteStream.
From NextestModel Require Model.NameFilter Model.FilterFull Proofs.FilterGlue.
From NextestModel Require Model.Scripts Model.EnvFileLine Proofs.EnvFileLine.
From NextestModel Require Model.DisplaySections Proofs.DisplaySections.
From NextestModel Require Model.EnvOrder Proofs.EnvOrder.
From NextestModel Require Model.ProfileChain Proofs.ProfileChain.
From NextestModel Require Model.LibtestReport Proofs.LibtestReport.
From NextestModel Require Model.ApplyEnv Proofs.ApplyEnv.
From NextestModel Require Model.Classify Model.LeakVerdict Proofs.LeakVerdict.
Import ListNotations.
Open Scope N_scope.

Module G := NextestModel.gen.GenGlue.Glue.
Module BS := NextestModel.Base.Str.
Module MNF := NextestModel.Model.NameFilter.
Module MFF := NextestModel.Model.FilterFull.
Module PFG := NextestModel.Proofs.FilterGlue.
Module MSc := NextestModel.Model.Scripts.
Module MEL := NextestModel.Model.EnvFileLine.
Module PEL := NextestModel.Proofs.EnvFileLine.
Module MSe := NextestModel.Model.DisplaySections.
Module PSe := NextestModel.Proofs.DisplaySections.
Module MEO := NextestModel.Model.EnvOrder.
Module PEO := NextestModel.Proofs.EnvOrder.
Module MPC := NextestModel.Model.ProfileChain.
Module MLR := NextestModel.Model.LibtestReport.
Module MAE := NextestModel.Model.ApplyEnv.
Module MCl := NextestModel.Model.Classify.
Module MLV := NextestModel.Model.LeakVerdict.
Module PLV := NextestModel.Proofs.LeakVerdict.
Module PAE := NextestModel.Proofs.ApplyEnv.
Module PLR := NextestModel.Proofs.LibtestReport.
Module PPC := NextestModel.Proofs.ProfileChain.
Module MJ := NextestModel.Model.Junit.
Module MFl := NextestModel.Model.Filter.
Module MD := NextestModel.Model.Dispatcher.
Module MO := NextestModel.Model.Overrides.
Module MSig := NextestModel.Model.SignalNames.
Module MDs := NextestModel.Model.DisplaySetting.
Module PDs := NextestModel.Proofs.DisplaySetting.
Module MBc := NextestModel.Model.Broadcast.
Module PBc := NextestModel.Proofs.Broadcast.
Module ME := NextestModel.Model.ExecuteStream.
Module PE := NextestModel.Proofs.ExecuteStream.
Module MRun := NextestModel.Model.Run.
Module MQ := NextestModel.Model.FutureQueue.
Module MC := NextestModel.Model.CliRun.
Module MUn := NextestModel.Model.Unit.

(* ---------------------------------------------------------------- the JUnit writer (Model/Junit.v, C17 / C16) *)
(* == block conv_junit == *)
Definition result_of_junit (r : MJ.jresult) : G.ExecutionResult :=
  match r with
  | MJ.JPass => G.ExecutionResult_Pass
  | MJ.JLeak => G.ExecutionResult_Leak
  | MJ.JFail a l => G.ExecutionResult_Fail (if a then Some (G.AbortStatus_UnixSignal 0%Z) else None) l
  | MJ.JExecFail => G.ExecutionResult_ExecFail
  | MJ.JTimeout => G.ExecutionResult_Timeout
  end.
Definition kind_to_model (k : G.NonSuccessKind) : MJ.jkind :=
  match k with G.NonSuccessKind_Failure => MJ.KFailure | G.NonSuccessKind_Error => MJ.KError end.
(* attempt number [i] of a test as the writer sees it: its captured output and its duration are opaque tokens of the
   generated functions; the view gives both the attempt's number, so that "whose output / time" can be read off *)
Definition att_view (i : N) (a : MJ.jattempt) : G.ExecuteStatus :=
  G.mk_ExecuteStatus (result_of_junit (MJ.ja_res a)) (MJ.ja_slow a) i i.
Fixpoint views_from (start : N) (l : list MJ.jattempt) : list G.ExecuteStatus :=
  match l with [] => [] | a :: r => att_view start a :: views_from (start + 1) r end.
(* what ExecutionStatuses::describe hands to the writer, for the model's attempts (first + rest, numbered from 1):
   Flaky carries the last attempt and the ones before it, Failure the first, the last and the ones after the first *)
Definition desc_view (first : MJ.jattempt) (rest : list MJ.jattempt) : G.ExecutionDescription :=
  let n := N.of_nat (length (first :: rest)) in
  match MJ.describe first rest with
  | MJ.DSuccess single => G.ExecutionDescription_Success (att_view n single)
  | MJ.DFlaky l prior => G.ExecutionDescription_Flaky (att_view n l) (views_from 1 prior)
  | MJ.DFailure f l retries => G.ExecutionDescription_Failure (att_view 1 f) (att_view n l) (views_from 2 retries)
  end.
(* quick-junit's TestCaseStatus with the reruns attached to it *)
Definition status_to_model (s : G.TestCaseStatus) (rs : list MJ.jrerun) : MJ.tstatus :=
  match s with
  | G.TestCaseStatus_Success => MJ.TSuccess rs
  | G.TestCaseStatus_NonSuccess k => MJ.TNonSuccess (kind_to_model k) rs
  end.

(* == block junit_script_case (needs conv_junit) == *)
(* SetupScriptFinished arm: the <testcase> is a success iff is_success() (Pass or Leak), otherwise it carries the kind of
   the result; its output is stored by the flag that matches *)
Lemma gen_junit_script_status_is_model :
  forall r o st,
    (if MJ.jis_success r then Some (MJ.TSuccess [])
     else match MJ.non_success_kind r with Some k => Some (MJ.TNonSuccess k []) | None => None end) = Some st ->
    status_to_model (G.junit_script_status (result_of_junit r) o) [] = st.
Proof. bridge_hyps. Qed.
Lemma gen_junit_script_store_is_model :
  forall ss sf r, G.junit_script_store ss sf (result_of_junit r) = MJ.store_decision ss sf (MJ.jis_success r).
Proof. bridge. Qed.
Lemma gen_junit_script_case :
  forall id r ss sf k tc o,
    MJ.convert_script id r ss sf = MJ.CCase k tc ->
    MJ.tc_status tc = status_to_model (G.junit_script_status (result_of_junit r) o) [] /\
    MJ.tc_stored tc = G.junit_script_store ss sf (result_of_junit r).
Proof.
  intros id r ss sf k tc o H. unfold MJ.convert_script in H.
  destruct (if MJ.jis_success r then Some (MJ.TSuccess [])
            else match MJ.non_success_kind r with Some k => Some (MJ.TNonSuccess k []) | None => None end) as [st|] eqn:E;
    [|discriminate].
  injection H as _ <-. cbn [MJ.tc_status MJ.tc_stored]. split.
  - symmetry. exact (gen_junit_script_status_is_model r o st E).
  - symmetry. apply gen_junit_script_store_is_model.
Qed.

(* == block junit_test_case (needs conv_junit) == *)
(* TestFinished arm. The pieces: which status is the <testcase> and which are reruns (the tuple built from describe()),
   what the loop iterates over, the kind / stored-output flag / output of each rerun, the stored-output flag, output and
   time of the <testcase>. Each piece is compared with the model on its own (by [bridge]); the report element of
   Model/Junit.v [convert_test] is then assembled from them. *)
Definition rerun_of (ss sf : bool) (d : G.ExecutionDescription) (o : G.NonSuccessKind * unit) (r : G.ExecuteStatus)
  : MJ.jrerun :=
  MJ.mk_rerun (kind_to_model (G.junit_rerun_kind (G.ExecuteStatus_result r) o))
              (G.junit_rerun_output (G.ExecuteStatus_output r)) (G.junit_rerun_store ss sf d).
Definition gen_testcase (bin name : NextestModel.Base.Str.str) (ss sf : bool) (d : G.ExecutionDescription) (o : G.NonSuccessKind * unit)
  : MJ.testcase :=
  MJ.mk_tc name bin
    (status_to_model (fst (fst (G.junit_test_parts d o))) (map (rerun_of ss sf d o) (G.junit_test_reruns d o)))
    (G.junit_test_output d o) (G.junit_test_store ss sf d o).

Lemma gen_junit_rerun_kind_is_model :
  forall r o k, MJ.non_success_kind r = Some k -> kind_to_model (G.junit_rerun_kind (result_of_junit r) o) = k.
Proof. bridge_hyps. Qed.
Lemma gen_junit_rerun_store_is_model : forall ss sf d, G.junit_rerun_store ss sf d = sf.
Proof. bridge. Qed.
Lemma gen_junit_rerun_output_is_model : forall t, G.junit_rerun_output t = t.
Proof. bridge. Qed.
(* the loop runs over the third component of the tuple *)
Lemma gen_junit_test_reruns_is_model : forall d o, G.junit_test_reruns d o = snd (G.junit_test_parts d o).
Proof. bridge. Qed.
(* the <testcase> carries the output and the time of the second component, and its stored-output flag is decided by
   that status's result *)
Lemma gen_junit_test_main_is_model :
  forall ss sf d o,
    let main := snd (fst (G.junit_test_parts d o)) in
    G.junit_test_output d o = G.ExecuteStatus_output main /\
    G.junit_test_time d o = G.ExecuteStatus_time_taken main /\
    G.junit_test_store ss sf d o =
      (ss && G.ExecutionResult_is_success (G.ExecuteStatus_result main)
       || sf && negb (G.ExecutionResult_is_success (G.ExecuteStatus_result main))).
Proof. intros; repeat split; bridge. Qed.
Lemma gen_junit_is_success_is_model : forall r, G.ExecutionResult_is_success (result_of_junit r) = MJ.jis_success r.
Proof. bridge. Qed.
(* the tuple, against the three cases of the model's describe *)
Lemma gen_junit_test_parts_success :
  forall s o, G.junit_test_parts (G.ExecutionDescription_Success s) o = (G.TestCaseStatus_Success, s, []).
Proof. bridge. Qed.
Lemma gen_junit_test_parts_flaky :
  forall l p o, G.junit_test_parts (G.ExecutionDescription_Flaky l p) o = (G.TestCaseStatus_Success, l, p).
Proof. bridge. Qed.
Lemma gen_junit_test_parts_failure :
  forall i f l rs o k,
    MJ.non_success_kind (MJ.ja_res f) = Some k ->
    exists gk, kind_to_model gk = k /\
      G.junit_test_parts (G.ExecutionDescription_Failure (att_view i f) l rs) o = (G.TestCaseStatus_NonSuccess gk, att_view i f, rs).
Proof.
  intros i f l rs o k H. destruct f as [r slow]. cbn [MJ.ja_res] in H.
  destruct r as [| |a lk| |]; cbn in H; try discriminate; injection H as <-;
    eexists; (split; [|bridge_norm; repeat (bridge_case; cbv beta iota); reflexivity]); reflexivity.
Qed.

Lemma mk_reruns_views :
  forall ss sf d o l start rs,
    MJ.mk_reruns sf start l = Some rs -> map (rerun_of ss sf d o) (views_from start l) = rs.
Proof.
  intros ss sf d o l. induction l as [|a r IH]; intros start rs H; cbn [MJ.mk_reruns views_from map] in *.
  - injection H as <-. reflexivity.
  - destruct (MJ.non_success_kind (MJ.ja_res a)) as [k|] eqn:K; [|discriminate].
    destruct (MJ.mk_reruns sf (start + 1) r) as [rs'|] eqn:R; [|discriminate].
    injection H as <-. rewrite (IH _ _ R). f_equal.
    unfold rerun_of, att_view. cbn [G.ExecuteStatus_result G.ExecuteStatus_output].
    rewrite (gen_junit_rerun_kind_is_model _ o _ K), gen_junit_rerun_output_is_model, gen_junit_rerun_store_is_model.
    reflexivity.
Qed.

Lemma gen_junit_test_case :
  forall bin name first rest ss sf k tc o,
    MJ.convert_test bin name first rest ss sf = MJ.CCase k tc ->
    tc = gen_testcase bin name ss sf (desc_view first rest) o /\
    G.junit_test_time (desc_view first rest) o = MJ.tc_main_attempt tc.
Proof.
  intros bin name first rest ss sf k tc o H. unfold MJ.convert_test in H. unfold gen_testcase, desc_view.
  pose proof (gen_junit_test_main_is_model ss sf) as M. cbv zeta in M.
  destruct (MJ.describe first rest) as [single | l prior | f l retries] eqn:D.
  - cbn [MJ.mk_reruns] in H. injection H as _ <-.
    destruct (M (G.ExecutionDescription_Success (att_view (N.of_nat (length (first :: rest))) single)) o) as (M1 & M2 & M3).
    rewrite M1, M2, M3, gen_junit_test_reruns_is_model, gen_junit_test_parts_success.
    cbn [fst snd map status_to_model att_view G.ExecuteStatus_output G.ExecuteStatus_time_taken G.ExecuteStatus_result MJ.tc_main_attempt].
    rewrite gen_junit_is_success_is_model. split; reflexivity.
  - destruct (MJ.mk_reruns sf 1 prior) as [rs|] eqn:R; [|discriminate]. injection H as _ <-.
    destruct (M (G.ExecutionDescription_Flaky (att_view (N.of_nat (length (first :: rest))) l) (views_from 1 prior)) o) as (M1 & M2 & M3).
    rewrite M1, M2, M3, gen_junit_test_reruns_is_model, gen_junit_test_parts_flaky.
    cbn [fst snd status_to_model att_view G.ExecuteStatus_output G.ExecuteStatus_time_taken G.ExecuteStatus_result MJ.tc_main_attempt].
    rewrite gen_junit_is_success_is_model, (mk_reruns_views ss sf _ o _ _ _ R). split; reflexivity.
  - destruct (MJ.non_success_kind (MJ.ja_res f)) as [kd|] eqn:K; [|discriminate].
    destruct (MJ.mk_reruns sf 2 retries) as [rs|] eqn:R; [|discriminate]. injection H as _ <-.
    destruct (gen_junit_test_parts_failure 1 f (att_view (N.of_nat (length (first :: rest))) l) (views_from 2 retries) o kd K)
      as (gk & Hk & P).
    destruct (M (G.ExecutionDescription_Failure (att_view 1 f) (att_view (N.of_nat (length (first :: rest))) l) (views_from 2 retries)) o)
      as (M1 & M2 & M3).
    rewrite M1, M2, M3, gen_junit_test_reruns_is_model, P.
    cbn [fst snd status_to_model att_view G.ExecuteStatus_output G.ExecuteStatus_time_taken G.ExecuteStatus_result MJ.tc_main_attempt].
    rewrite gen_junit_is_success_is_model, Hk, (mk_reruns_views ss sf _ o _ _ _ R). split; reflexivity.
Qed.

(* C16's side of it: whose captured output each element carries *)
Lemma gen_junit_test_outputs :
  forall bin name first rest ss sf k tc o,
    MJ.convert_test bin name first rest ss sf = MJ.CCase k tc ->
    G.junit_test_output (desc_view first rest) o = MJ.tc_main_attempt tc /\
    map (fun r => G.junit_rerun_output (G.ExecuteStatus_output r)) (G.junit_test_reruns (desc_view first rest) o) =
    map MJ.rr_attempt (MJ.tc_reruns tc).
Proof.
  intros bin name first rest ss sf k tc o H.
  destruct (gen_junit_test_case bin name first rest ss sf k tc o H) as [E _]. subst tc.
  unfold gen_testcase, MJ.tc_reruns. cbn [MJ.tc_main_attempt MJ.tc_status]. split; [reflexivity|].
  destruct (fst (fst (G.junit_test_parts (desc_view first rest) o))); cbn [status_to_model];
    rewrite map_map; reflexivity.
Qed.

(* ---------------------------------------------------------------- test list -> run count, priority queue (Model/ExecuteStream.v, C01 / C02) *)
(* == block conv_listed == *)
Definition mismatch_of_model (m : MFl.mismatch) : G.MismatchReason :=
  match m with
  | MFl.MIgnored => G.MismatchReason_Ignored
  | MFl.MString => G.MismatchReason_String
  | MFl.MExpression => G.MismatchReason_Expression
  | MFl.MPartition => G.MismatchReason_Partition
  | MFl.MDefaultFilter => G.MismatchReason_DefaultFilter
  end.
Definition fmatch_of_model (f : MFl.fmatch) : G.FilterMatch :=
  match f with MFl.Matches => G.FilterMatch_Matches | MFl.Mismatch r => G.FilterMatch_Mismatch (mismatch_of_model r) end.
(* a listed test as TestList::skip_counts sees it (its filter match), and the list: iter_tests() yields every listed
   test, test_count is their number *)
Definition instance_view (l : ME.listed) : G.TestInstance := G.mk_TestInstance (fmatch_of_model (ME.l_match l)).
Definition list_view (ls : list ME.listed) : G.TestList :=
  G.mk_TestList (N.of_nat (length ls)) (map instance_view ls).

(* == block run_count (needs conv_listed) == *)
(* SkipCounts.skipped_tests counts EVERY mismatch reason *)
Lemma gen_skipped_tests_is_model :
  forall ls, G.skip_counts_skipped_tests (list_view ls) = N.of_nat (length (ME.unselected ls)).
Proof.
  induction ls as [|a r IH]; [reflexivity|].
  revert IH. unfold G.skip_counts_skipped_tests, list_view, ME.unselected, ME.is_selected, instance_view.
  cbn -[N.of_nat]. destruct a as [id m th g]. cbn -[N.of_nat].
  destruct m as [|[]]; cbn -[N.of_nat]; intros IH; try exact IH; rewrite !Nat2N.inj_succ, IH; reflexivity.
Qed.
Lemma selected_unselected_length :
  forall ls, (length (ME.selected ls) + length (ME.unselected ls))%nat = length ls.
Proof.
  induction ls as [|a r IH]; [reflexivity|]. unfold ME.selected, ME.unselected in *. cbn [filter].
  destruct (ME.is_selected a); cbn [negb length]; lia.
Qed.
(* run_count() = test_count - skipped = the number of selected tests = initial_run_count *)
Lemma gen_run_count_is_model :
  forall ls,
    G.run_count (G.TestList_test_count (list_view ls)) (G.skip_counts_skipped_tests (list_view ls)) = ME.run_count ls.
Proof.
  intros ls. rewrite gen_skipped_tests_is_model. unfold ME.run_count.
  pose proof (selected_unselected_length ls) as L. unfold G.run_count, list_view. cbn [G.TestList_test_count]. lia.
Qed.
(* ... which is what the protocol configuration of Model/Run.v calls the selected tests *)
Lemma gen_run_count_is_selected :
  forall rt nc ls total scripts grps,
    G.run_count (G.TestList_test_count (list_view ls)) (G.skip_counts_skipped_tests (list_view ls)) =
    N.of_nat (length (MUn.c_sel (MRun.rc_cfg (MRun.mk_rcfg (ME.queue_src rt nc ls) total scripts rt grps)))).
Proof.
  intros. rewrite gen_run_count_is_model.
  destruct (PE.run_count_is_selected rt nc ls total scripts grps) as (_ & _ & H). exact H.
Qed.

(* == block priority_queue (needs conv_listed) == *)
(* TestPriorityQueue::new: before the (stable) sort by priority the queue holds every test iter_tests() yields, in that
   order, selected or not; the sort permutes them *)
Lemma gen_priority_queue_is_model :
  forall ls prof st,
    map G.TestInstanceWithSettings_instance (G.priority_queue_tests (list_view ls) prof st) =
    G.TestList_iter_tests (list_view ls).
Proof.
  intros ls prof st. unfold list_view. cbn [G.TestList_iter_tests].
  induction ls as [|a r IH]; [reflexivity|].
  revert IH. unfold G.priority_queue_tests. cbn [G.TestList_iter_tests map]. intros ->.
  bridge_norm. reflexivity.
Qed.
Lemma gen_priority_queue_keeps_all :
  forall ls prof st, length (G.priority_queue_tests (list_view ls) prof st) = length ls.
Proof.
  intros ls prof st.
  rewrite <- (map_length G.TestInstanceWithSettings_instance), gen_priority_queue_is_model.
  unfold list_view. cbn [G.TestList_iter_tests]. apply map_length.
Qed.

(* ---------------------------------------------------------------- the stream of TestRunnerInner::execute (Model/ExecuteStream.v, Model/Run.v, C02 / C08 / C14) *)
(* == block conv_stream (needs conv_listed) == *)
Definition tr_of_model (r : MC.threads_required) : G.ThreadsRequired :=
  match r with
  | MC.RCount n => G.ThreadsRequired_Count n
  | MC.RNumCpus => G.ThreadsRequired_NumCpus
  | MC.RNumTestThreads => G.ThreadsRequired_NumTestThreads
  end.
Definition group_of_model (g : option N) : G.TestGroup :=
  match g with Some n => G.TestGroup_Custom n | None => G.TestGroup_Global end.
(* an entry of the priority queue as the stream's closures see it ([tok]: its settings, an opaque token) *)
Definition entry_view (l : ME.listed) (tok : N) : G.TestInstanceWithSettings :=
  G.mk_TestInstanceWithSettings (instance_view l) tok.

(* == block execute_filter_stage (needs conv_listed conv_stream) == *)
(* the filter_map stage: a mismatch sends Skipped and yields nothing for the scheduler; a match sends nothing and hands
   the test on unchanged *)
Module SLs. Import Coq.Strings.String.
  Definition skipped : string := "Skipped"%string.
End SLs.
Lemma gen_execute_filter_stage_is_model :
  forall rt nc l tok,
    G.execute_filter_stage (entry_view l tok) =
    ((if ME.entry_skipped (ME.stream_entry rt nc l) then [SLs.skipped] else []),
     (match ME.entry_item (ME.stream_entry rt nc l) with Some _ => Some (entry_view l tok) | None => None end)).
Proof. intros rt nc l tok. destruct l as [id m th g]. destruct m as [|r]; [|destruct r]; bridge. Qed.

(* == block execute_item (needs conv_listed conv_stream) == *)
(* the (weight, group, future) triple of the map stage: the weight is ThreadsRequired::compute against the runner's
   thread count whatever the group (the cap by the group's max-threads is future_queue_grouped's), the group is the
   test's *)
Lemma gen_execute_weight_is_model :
  forall r rt g nc, G.execute_weight (tr_of_model r) rt g nc = MC.threads_required_weight r rt nc.
Proof. bridge. Qed.
Lemma gen_execute_group_is_model :
  forall r rt g, G.execute_group r rt (group_of_model g) = g.
Proof. bridge. Qed.
Lemma gen_execute_item_is_model :
  forall rt nc l it,
    ME.entry_item (ME.stream_entry rt nc l) = Some it ->
    MQ.it_w it = G.execute_weight (tr_of_model (ME.l_threads l)) rt (group_of_model (ME.l_group l)) nc /\
    MQ.it_grp it = G.execute_group (tr_of_model (ME.l_threads l)) rt (group_of_model (ME.l_group l)).
Proof.
  intros rt nc l it H. destruct (PE.stream_weight_uncapped rt nc l it H) as (W & Gp & _).
  rewrite gen_execute_weight_is_model, gen_execute_group_is_model. split; assumption.
Qed.

(* ---------------------------------------------------------------- the dispatcher's run loop (Model/Dispatcher.v, Model/Broadcast.v, C10 / C11 / C12) *)
(* == block conv_dispatch == *)
Definition shutdown_event_to_model (e : G.ShutdownEvent) : MD.shutdown_event :=
  match e with
  | G.ShutdownEvent_Hangup => MD.Hangup
  | G.ShutdownEvent_Term => MD.Term
  | G.ShutdownEvent_Quit => MD.Quit
  | G.ShutdownEvent_Interrupt => MD.SInterrupt
  end.
Definition shutdown_req_to_model (r : G.ShutdownRequest) : MD.shutdown_req :=
  match r with
  | G.ShutdownRequest_Once e => MD.Once (shutdown_event_to_model e)
  | G.ShutdownRequest_Twice => MD.Twice
  end.
Definition cancel_event_to_model (c : G.CancelEvent) : MD.cancel_event :=
  match c with
  | G.CancelEvent_Report => MD.CeReport
  | G.CancelEvent_TestFailure => MD.CeTestFailure
  | G.CancelEvent_Signal r => MD.CeSignal (shutdown_req_to_model r)
  end.
(* RunUnitRequest, restricted to the variants without a reply channel (Stop and Query carry one) *)
Definition request_to_model (r : G.RunUnitRequest) : MD.broadcast :=
  match r with
  | G.RunUnitRequest_OtherCancel => MD.BOtherCancel
  | G.RunUnitRequest_Signal (G.SignalRequest_Shutdown q) => MD.BShutdown (shutdown_req_to_model q)
  | G.RunUnitRequest_Signal G.SignalRequest_Continue => MD.BContinue
  end.

(* == block run_cancel_broadcasts (needs conv_dispatch) == *)
(* the arm of DispatcherContext::run that acts on HandleEventResponse::Cancel: exactly one broadcast, the one the model's
   [broadcast_of] names -- OtherCancel for a reporter error and for a test / setup-script failure, Shutdown(req) for a
   signal *)
Lemma gen_run_cancel_broadcasts_is_model :
  forall c,
    map request_to_model (G.run_cancel_broadcasts c) =
    match MD.broadcast_of (MD.RCancel (cancel_event_to_model c)) with Some b => [b] | None => [] end.
Proof. bridge. Qed.

(* == block broadcast_request (needs conv_dispatch) == *)
(* the context as broadcast_request sees it: whether sending on each running unit's channel fails is input data *)
Definition script_view (u : MBc.unit_chan) : G.ContextSetupScript := G.mk_ContextSetupScript (negb (MBc.u_open u)).
Definition test_view (u : MBc.unit_chan) : N * G.ContextTestInstance :=
  (MBc.u_id u, G.mk_ContextTestInstance (negb (MBc.u_open u))).
Definition ctx_view (script : option MBc.unit_chan) (tests : list MBc.unit_chan) : G.DispatcherContext :=
  G.mk_DispatcherContext (option_map script_view script) (map test_view tests).
Ltac hide_folds :=
  repeat match goal with
         | |- context [List.fold_left ?f ?l ?a] => generalize (List.fold_left f l a); intro
         end.
Lemma gen_broadcast_request_snoc :
  forall script tests u req,
    G.DispatcherContext_broadcast_request (ctx_view script (tests ++ [u])) req =
    G.DispatcherContext_broadcast_request (ctx_view script tests) req + (if MBc.u_open u then 1 else 0).
Proof.
  intros script tests u req. unfold G.DispatcherContext_broadcast_request, ctx_view.
  cbn [G.DispatcherContext_running_tests G.DispatcherContext_running_setup_script].
  rewrite map_app, fold_left_app. cbn [map List.fold_left test_view].
  hide_folds. destruct u as [id op]. destruct op, script as [[sid sop]|]; try destruct sop; bridge.
Qed.
Lemma gen_broadcast_request_is_model :
  forall script tests req,
    G.DispatcherContext_broadcast_request (ctx_view script tests) req =
    MBc.delivered_count (MBc.running_units script tests).
Proof.
  intros script tests req. induction tests as [|u r IH] using rev_ind.
  - destruct script as [[sid sop]|]; [destruct sop|]; vm_compute; reflexivity.
  - rewrite gen_broadcast_request_snoc, IH.
    replace (MBc.running_units script (r ++ [u])) with (MBc.running_units script r ++ [u])
      by (destruct script; reflexivity).
    rewrite PBc.delivered_count_app. f_equal. destruct u as [id op]. destruct op; reflexivity.
Qed.

(* ---------------------------------------------------------------- the loop of TestSettings::new (Model/Overrides.v, C06) *)
(* == block override_loop_body == *)
(* "the first override that sets it wins", for one setting: an override that is skipped leaves the accumulator alone, one
   that is considered fills it only when it is still empty *)
Definition first_wins {V : Type} (skip : bool) (acc d : option V) : option V :=
  if skip then acc else match acc with Some v => Some v | None => d end.
(* Model/Overrides.v [step] -- the function C06's precedence theorems fold over the overrides -- is first_wins for every
   setting, with the model's [skips] and the override's own value of that setting *)
Lemma step_is_first_wins :
  forall e t acc co s,
    MO.step e t acc co s = first_wins (MO.skips e t co) (acc s) (MO.data_get s (MO.ov_data (snd co))).
Proof. intros. unfold MO.step, first_wins. destruct (MO.skips e t co); reflexivity. Qed.

Definition state_of (s : MO.ostate) : G.FinalConfig :=
  G.mk_FinalConfig (MO.st_host s) (MO.st_host_test s) (MO.st_target s).
Definition platform_of (host : bool) : G.BuildPlatform :=
  if host then G.BuildPlatform_Host else G.BuildPlatform_Target.
(* the eleven accumulators / the eleven optional settings of an override, as a function of the setting; the values are
   opaque tokens of the generated function (it can only move them around) *)
Definition settings_tuple (f : MO.setting -> option N) :=
  (f MO.SPriority, f MO.SThreads, f MO.SExtraArgs, f MO.SRetries, f MO.SSlowTimeout, f MO.SLeakTimeout, f MO.STestGroup,
   f MO.SSuccessOutput, f MO.SFailureOutput, f MO.SJunitSuccess, f MO.SJunitFailure).
Definition gen_loop_body (st : G.FinalConfig) (p : G.BuildPlatform) (flt : option N) (m : bool)
           (d acc : MO.setting -> option N) :=
  G.override_loop_body st p flt
    (d MO.SPriority) (d MO.SThreads) (d MO.SExtraArgs) (d MO.SRetries) (d MO.SSlowTimeout) (d MO.SLeakTimeout)
    (d MO.STestGroup) (d MO.SSuccessOutput) (d MO.SFailureOutput) (d MO.SJunitSuccess) (d MO.SJunitFailure)
    (acc MO.SPriority) (acc MO.SThreads) (acc MO.SExtraArgs) (acc MO.SRetries) (acc MO.SSlowTimeout) (acc MO.SLeakTimeout)
    (acc MO.STestGroup) (acc MO.SSuccessOutput) (acc MO.SFailureOutput) (acc MO.SJunitSuccess) (acc MO.SJunitFailure) m.
Ltac split_tuple := repeat match goal with |- (_, _) = (_, _) => apply f_equal2 end.
(* one turn of the loop over the overrides: for every override state, test, filter verdict, accumulators and override
   data the new accumulators are first_wins with the model's [skips], setting by setting (priority included). The
   guards are decided first (they are booleans of the inputs), the eleven components are then compared one by one. *)
Lemma gen_override_loop_body_is_model :
  forall e t st o d acc,
    gen_loop_body (state_of st) (platform_of (MO.t_host t)) (option_map (fun _ => 0) (MO.filter_of o))
      (match MO.filter_of o with Some f => MO.e_filter e f (MO.t_id t) | None => true end) d acc =
    settings_tuple (fun s => first_wins (MO.skips e t (st, o)) (acc s) (d s)).
Proof.
  intros e t st o d acc. destruct st as [h ht tg], t as [id host]. unfold MO.skips.
  cbn [MO.t_id MO.t_host MO.st_host MO.st_host_test MO.st_target].
  unfold gen_loop_body, settings_tuple, first_wins.
  destruct (MO.filter_of o) as [f|]; [destruct (MO.e_filter e f id)|]; destruct h, ht, tg, host;
    timeout 60 (bridge_norm; split_tuple; repeat (bridge_case; cbv beta iota); reflexivity).
Qed.

(* ---------------------------------------------------------------- signal_str (Model/SignalNames.v, C03) *)
(* == block signal_str == *)
(* every name the source's number -> name table gives is the platform's (Linux x86_64) name of that number; numbers the
   source leaves unnamed are printed as numbers *)
Lemma gen_signal_str_is_model :
  forall n s, G.signal_str n = Some s -> MSig.linux_signal_name n = Some s.
Proof.
  intros n s. destruct n as [|p|p]; [discriminate| |discriminate].
  do 6 (try destruct p as [p|p|]); cbv; intros H; first [discriminate H | exact H].
Qed.
Lemma gen_signal_str_names_right : forall n, MSig.names_right G.signal_str n = true.
Proof.
  intros n. unfold MSig.names_right. destruct (G.signal_str n) as [s|] eqn:E; [|reflexivity].
  rewrite (gen_signal_str_is_model n s E). apply String.eqb_refl.
Qed.

(* ---------------------------------------------------------------- the displayer's output setting (Model/DisplaySetting.v, C06) *)
(* == block display_setting (needs conv_junit) == *)
Definition display_to_model (d : G.TestOutputDisplay) : MDs.display :=
  match d with
  | G.TestOutputDisplay_Immediate => MDs.DImmediate
  | G.TestOutputDisplay_ImmediateFinal => MDs.DImmediateFinal
  | G.TestOutputDisplay_Final => MDs.DFinal
  | G.TestOutputDisplay_Never => MDs.DNever
  end.
(* the setting that governs a finished test: forced over resolved, success-output iff the last attempt passed *)
Lemma gen_display_finished_setting_is_model :
  forall r u s f,
    display_to_model (G.display_finished_setting (result_of_junit r) u s f) =
    MDs.setting_for (MDs.EkFinished (MJ.jis_success r))
      (option_map display_to_model (G.UnitOutputReporter_force_success_output u))
      (option_map display_to_model (G.UnitOutputReporter_force_failure_output u))
      (display_to_model s) (display_to_model f).
Proof. bridge. Qed.
(* the setting that governs a failed attempt that will be retried: forced failure-output over the resolved one *)
Lemma gen_display_retry_setting_is_model :
  forall u s f,
    display_to_model (G.display_retry_setting u f) =
    MDs.setting_for MDs.EkAttemptWillRetry
      (option_map display_to_model (G.UnitOutputReporter_force_success_output u))
      (option_map display_to_model (G.UnitOutputReporter_force_failure_output u))
      (display_to_model s) (display_to_model f).
Proof. bridge. Qed.
Lemma gen_display_is_immediate_is_model :
  forall d, G.TestOutputDisplay_is_immediate d = MDs.is_immediate (display_to_model d).
Proof. bridge. Qed.
(* both, in the property's words: a forced value governs whatever the event *)
Lemma gen_display_forced_wins :
  forall (u : G.UnitOutputReporter) (s f v : G.TestOutputDisplay),
    (G.UnitOutputReporter_force_failure_output u = Some v -> G.display_retry_setting u f = v) /\
    (forall r, G.UnitOutputReporter_force_failure_output u = Some v -> MJ.jis_success r = false ->
               G.display_finished_setting (result_of_junit r) u s f = v) /\
    (forall r, G.UnitOutputReporter_force_success_output u = Some v -> MJ.jis_success r = true ->
               G.display_finished_setting (result_of_junit r) u s f = v).
Proof.
  intros u s f v. destruct u as [fs ff de]. cbn [G.UnitOutputReporter_force_failure_output G.UnitOutputReporter_force_success_output].
  repeat split; intros; subst; try (destruct r as [| |[] []| |]; try discriminate); bridge.
Qed.

(* ---------------------------------------------------------------- fourth round: further glue fragments (docs/notes/Gen.md, fourth part) *)
(* ---------------------------------------------------------------- the whole of TestFilter::filter_match (Model/FilterFull.v, C13 / C04) *)
(* == block conv_filter == *)
(* From the model's filter to what the generated functions take. The resolved patterns are seen by their shape; the
   answers of the matchers (HashSet::contains, AhoCorasick::is_match, Filterset::matches_test, Partitioner::test_matches)
   are inputs of the generated functions (probes): here they are the model's answers. [d] stands for the value of a probe
   at a position the source does not ask it (any boolean). The -E filtersets are tokens: their indices. *)

Definition gmismatch_to_model (m : G.MismatchReason) : MFl.mismatch :=
  match m with
  | G.MismatchReason_Ignored => MFl.MIgnored
  | G.MismatchReason_String => MFl.MString
  | G.MismatchReason_Expression => MFl.MExpression
  | G.MismatchReason_Partition => MFl.MPartition
  | G.MismatchReason_DefaultFilter => MFl.MDefaultFilter
  end.
Definition gfmatch_to_model (f : G.FilterMatch) : MFl.fmatch :=
  match f with
  | G.FilterMatch_Matches => MFl.Matches
  | G.FilterMatch_Mismatch r => MFl.Mismatch (gmismatch_to_model r)
  end.
Definition run_ignored_of_model (r : MFl.run_ignored) : G.RunIgnored :=
  match r with MFl.RIDefault => G.RunIgnored_Default | MFl.RIOnly => G.RunIgnored_Only | MFl.RIAll => G.RunIgnored_All end.
Definition patterns_of_model (r : MNF.resolved) : G.ResolvedFilterPatterns :=
  match r with
  | MNF.RAll => G.ResolvedFilterPatterns_All
  | MNF.RSkipOnly _ _ => G.ResolvedFilterPatterns_SkipOnly
  | MNF.RPatterns _ _ _ _ => G.ResolvedFilterPatterns_Patterns
  end.
Definition set_tokens (ets : list (BS.str -> bool)) : list N := map N.of_nat (seq 0 (length ets)).
Definition exprs_of_model (ets : list (BS.str -> bool)) : G.TestFilterExprs :=
  match ets with [] => G.TestFilterExprs_All | _ => G.TestFilterExprs_Sets (set_tokens ets) end.
Definition set_matches_of_model (ets : list (BS.str -> bool)) (name : BS.str) : N -> bool :=
  fun i => nth (N.to_nat i) ets (fun _ => false) name.
Definition bound_of_model (b : MFF.bound) : G.FilterBound :=
  match b with MFF.BAll => G.FilterBound_All | MFF.BDefaultSet => G.FilterBound_DefaultSet end.
Definition filter_view (f : MFF.tfilter) : G.TestFilter :=
  G.mk_TestFilter (run_ignored_of_model (MFF.tf_ri f)) (patterns_of_model (MFF.tf_pats f)) (exprs_of_model (MFF.tf_ets f))
    (match MFF.tf_pb f with Some _ => Some 0 | None => None end).
Definition skip_exact_of (d : bool) (r : MNF.resolved) (name : BS.str) : bool :=
  match r with MNF.RAll => d | MNF.RSkipOnly _ sx => BS.mem_str name sx | MNF.RPatterns _ _ _ sx => BS.mem_str name sx end.
Definition skip_match_of (d : bool) (r : MNF.resolved) (name : BS.str) : bool :=
  match r with MNF.RAll => d | MNF.RSkipOnly sk _ => MNF.any_infix sk name | MNF.RPatterns _ _ sk _ => MNF.any_infix sk name end.
Definition exact_of (d : bool) (r : MNF.resolved) (name : BS.str) : bool :=
  match r with MNF.RPatterns _ ex _ _ => BS.mem_str name ex | _ => d end.
Definition pattern_match_of (d : bool) (r : MNF.resolved) (name : BS.str) : bool :=
  match r with MNF.RPatterns su _ _ _ => MNF.any_infix su name | _ => d end.
Definition partition_matches_of (d : bool) (pb : option MFl.pbuilder) (cur : N) (name : BS.str) : bool :=
  match pb with Some b => fst (MFl.part_match b cur name) | None => d end.

Lemma existsb_set_tokens_from :
  forall (l pre : list (BS.str -> bool)) name,
    existsb (fun i => nth (N.to_nat i) (pre ++ l) (fun _ => false) name) (map N.of_nat (seq (length pre) (length l))) =
    existsb (fun g => g name) l.
Proof.
  induction l as [|a l IH]; intros pre name; [reflexivity|].
  cbn [length seq map existsb]. rewrite Nat2N.id, nth_middle. f_equal.
  specialize (IH (pre ++ [a]) name). rewrite <- app_assoc in IH. cbn [app] in IH.
  rewrite app_length in IH. cbn [length] in IH. rewrite Nat.add_1_r in IH. exact IH.
Qed.
Lemma existsb_set_tokens :
  forall ets name, existsb (fun v => set_matches_of_model ets name v) (set_tokens ets) = existsb (fun g => g name) ets.
Proof. intros. exact (existsb_set_tokens_from ets [] name). Qed.


(* == block filter_match (needs conv_filter) == *)
(* TestFilter::filter_match as a whole -- filter_ignored_mismatch, then ResolvedFilterPatterns::name_match and
   filter_expression_match combined with the name reason first, then filter_partition_mismatch, else Matches --
   regenerated from the source, is Model/FilterFull.v's [filter_match_full] for every filter, partitioner state, test name
   and ignored flag. *)
Lemma gen_filter_match_is_model :
  forall (f : MFF.tfilter) cur name ign tb tn ecx d,
    gfmatch_to_model
      (G.TestFilter_filter_match (filter_view f) tb tn ecx (bound_of_model (MFF.tf_bound f)) ign
         (skip_exact_of d (MFF.tf_pats f) name) (skip_match_of d (MFF.tf_pats f) name)
         (exact_of d (MFF.tf_pats f) name) (pattern_match_of d (MFF.tf_pats f) name)
         (set_matches_of_model (MFF.tf_ets f) name) (MFF.tf_dt f name)
         (partition_matches_of d (MFF.tf_pb f) cur name)) =
    fst (MFF.filter_match_full f cur name ign).
Proof.
  intros [ri pb pats ets dt bd] cur name ign tb tn ecx d.
  unfold MFF.filter_match_full, MFF.pre_full, MFF.filter_expression_match, MFl.filter_match, filter_view,
    G.TestFilter_filter_match, G.TestFilter_filter_expression_match, G.TestFilter_filter_partition_mismatch,
    partition_matches_of.
  cbn [MFF.tf_ri MFF.tf_pb MFF.tf_pats MFF.tf_ets MFF.tf_dt MFF.tf_bound G.TestFilter_builder_exprs G.TestFilter_partitioner].
  destruct pb as [b|]; [destruct (MFl.part_match b cur name) as [ok cur'] |];
  (destruct ets as [|e0 ets']; cbn [exprs_of_model];
   [| rewrite existsb_set_tokens; generalize (existsb (fun g => g name) (e0 :: ets')); intro anyb ];
   generalize (dt name); intro dtb;
   destruct pats; cbn [skip_exact_of skip_match_of exact_of pattern_match_of MNF.rname_match patterns_of_model];
   repeat match goal with |- context [BS.mem_str ?a ?b] => generalize (BS.mem_str a b); intro end;
   repeat match goal with |- context [MNF.any_infix ?a ?b] => generalize (MNF.any_infix a b); intro end;
   bridge).
Qed.

(* read off the generated function alone: with a partitioner, nothing is selected that the partitioner did not accept --
   whichever of MatchEmptyPatterns / MatchWithPatterns the name and expression stages answered *)
Lemma gen_filter_match_needs_partition :
  forall self tb tn ecx bd ign p1 p2 p3 p4 pm pd pp tok,
    G.TestFilter_partitioner self = Some tok ->
    G.TestFilter_filter_match self tb tn ecx bd ign p1 p2 p3 p4 pm pd pp = G.FilterMatch_Matches -> pp = true.
Proof.
  intros [ri pats exprs part] tb tn ecx bd ign p1 p2 p3 p4 pm pd pp tok Hp. cbn in Hp. subst part.
  unfold G.TestFilter_filter_match, G.TestFilter_filter_expression_match, G.TestFilter_filter_partition_mismatch,
    G.TestFilter_filter_name_match, G.ResolvedFilterPatterns_name_match, G.TestFilter_filter_ignored_mismatch.
  cbn [G.TestFilter_builder_exprs G.TestFilter_partitioner G.TestFilter_builder_patterns G.TestFilter_builder_run_ignored].
  destruct exprs as [|l]; [| generalize (existsb (fun v_expr => pm v_expr) l); intro anyb ];
  bridge_norm; repeat (bridge_case; cbv beta iota); intro H; first [reflexivity | discriminate H].
Qed.

(* ---------------------------------------------------------------- one line of a setup script's environment file (Model/EnvFileLine.v, C18) *)
(* == block conv_bytes == *)
(* Rust strings are Coq strings in the generated file (bytes of the UTF-8 encoding); the models use lists of numbers.
   str::split_once('=') and str::starts_with("..") as translated (str_split_once, Coq's Strings.String.prefix) are the model's
   split_once_eq / is_prefix on the bytes: '=' and the letters of NEXTEST are ASCII, and an ASCII byte never occurs
   inside a multi-byte sequence, so splitting and prefix tests on bytes and on code points agree. *)

Definition G_EQ : Ascii.ascii := Ascii.Ascii true false true true true true false false.
(* a Rust string as the bytes of its UTF-8 encoding *)
Fixpoint bytes_of_string (s : Strings.String.string) : BS.str :=
  match s with Strings.String.EmptyString => [] | Strings.String.String a r => Ascii.N_of_ascii a :: bytes_of_string r end.
Definition line_result_to_model (r : (Strings.String.string * Strings.String.string) + G.SetupScriptOutputError)
  : option ((BS.str * BS.str) + MEL.line_error) :=
  match r with
  | inl (k, v) => Some (inl (bytes_of_string k, bytes_of_string v))
  | inr G.SetupScriptOutputError_EnvFileParse => Some (inr MEL.LineNoEquals)
  | inr G.SetupScriptOutputError_EnvFileReservedKey => Some (inr MEL.LineReservedKey)
  | inr _ => None
  end.
Lemma ascii_eqb_bytes : forall a b, Ascii.eqb a b = (Ascii.N_of_ascii a =? Ascii.N_of_ascii b).
Proof.
  intros a b. destruct (Ascii.eqb_spec a b) as [->|Hne]; [symmetry; apply N.eqb_refl|].
  symmetry. apply N.eqb_neq. intros H. apply Hne.
  rewrite <- (Ascii.ascii_N_embedding a), <- (Ascii.ascii_N_embedding b), H. reflexivity.
Qed.
Lemma split_once_bytes :
  forall s, MSc.split_once_eq (bytes_of_string s) =
            option_map (fun kv => (bytes_of_string (fst kv), bytes_of_string (snd kv))) (G.str_split_once G_EQ s).
Proof.
  induction s as [|a s IH]; [reflexivity|].
  cbn [bytes_of_string MSc.split_once_eq]. unfold G.str_split_once; fold (G.str_split_once G_EQ).
  rewrite ascii_eqb_bytes. change (Ascii.N_of_ascii G_EQ) with MSc.EQ.
  destruct (Ascii.N_of_ascii a =? MSc.EQ); [reflexivity|].
  rewrite IH. destruct (G.str_split_once G_EQ s) as [[k v]|]; reflexivity.
Qed.
Lemma prefix_bytes : forall p s, Strings.String.prefix p s = BS.is_prefix (bytes_of_string p) (bytes_of_string s).
Proof.
  induction p as [|a p IH]; intros [|b s]; try reflexivity.
  cbn [Strings.String.prefix bytes_of_string BS.is_prefix]. rewrite <- ascii_eqb_bytes.
  destruct (Ascii.ascii_dec a b) as [->|Hne]; [rewrite Ascii.eqb_refl; apply IH|].
  apply Ascii.eqb_neq in Hne. rewrite Hne. reflexivity.
Qed.
Lemma string_eqb_bytes : forall a b, Strings.String.eqb a b = BS.str_eqb (bytes_of_string a) (bytes_of_string b).
Proof.
  induction a as [|x a IH]; intros [|y b]; try reflexivity.
  cbn [String.eqb bytes_of_string BS.str_eqb]. rewrite <- ascii_eqb_bytes. destruct (Ascii.eqb x y); [apply IH | reflexivity].
Qed.


(* == block env_file_line (needs conv_bytes) == *)
Module StrLit. Import Strings.String. Definition nextest_lit : string := "NEXTEST". End StrLit.
(* the model's step in terms of the string primitives of the generated side *)
Lemma line_step_bytes :
  forall line,
    MEL.line_step (bytes_of_string line) =
    match G.str_split_once G_EQ line with
    | Some (k, v) => if Strings.String.prefix StrLit.nextest_lit k then inr MEL.LineReservedKey else inl (bytes_of_string k, bytes_of_string v)
    | None => inr MEL.LineNoEquals
    end.
Proof.
  intros line. unfold MEL.line_step. rewrite split_once_bytes.
  destruct (G.str_split_once G_EQ line) as [[k v]|]; cbn [option_map fst snd]; [|reflexivity].
  rewrite prefix_bytes. reflexivity.
Qed.

(* [bridge] with the string primitives kept folded: they are atoms of the case analysis *)
Ltac bridge_str :=
  timeout 240 (intros; cbv -[bytes_of_string Strings.String.prefix Strings.String.eqb G.str_split_once];
               repeat (bridge_case; cbv beta iota); bridge_leaf).
Lemma gen_env_file_line_is_model :
  forall line, line_result_to_model (G.env_file_line line) = Some (MEL.line_step (bytes_of_string line)).
Proof. intros line. rewrite line_step_bytes. bridge_str. Qed.

(* the loop of Model/Scripts.v (the function C18's environment-file theorems are about) makes exactly this step for
   every line *)
Lemma gen_env_file_loop_is_model :
  forall line rest acc,
    MSc.parse_lines (bytes_of_string line :: rest) acc =
    match G.env_file_line line with
    | inl (k, v) => MSc.parse_lines rest (MSc.env_insert (bytes_of_string k) (bytes_of_string v) acc)
    | inr _ => None
    end.
Proof.
  intros line rest acc. rewrite PEL.parse_lines_step.
  pose proof (gen_env_file_line_is_model line) as H.
  destruct (G.env_file_line line) as [[k v]|[]]; cbn in H; inversion H; reflexivity.
Qed.

(* ---------------------------------------------------------------- the sections of a unit's output (Model/DisplaySections.v, C16) *)
(* == block display_sections == *)
(* UnitOutputReporter::write_child_output: the streams handed to write_test_single_output_with_description and the
   headers written by writeln!, in order, each under the condition it is written, regenerated from the source, are the
   streams / the headers of the model's sections: for split capture standard output then standard error, each shown when
   it was captured and is non-empty or empty streams are displayed -- on its own account; one section for combined
   capture. For every reporter, every pair of streams (a stream is its buffer and whether it is empty) and headers. *)
Definition model_sections (u : G.UnitOutputReporter) (o : G.ChildOutput) (ho he hc : N) : list (G.ChildSingleOutput * N) :=
  match o with
  | G.ChildOutput_Split sp =>
      MSe.split_sections _ _ G.ChildSingleOutput_is_empty (G.UnitOutputReporter_display_empty_outputs u)
        (G.ChildSplitOutput_stdout sp) (G.ChildSplitOutput_stderr sp) ho he
  | G.ChildOutput_Combined c =>
      MSe.combined_sections _ _ G.ChildSingleOutput_is_empty (G.UnitOutputReporter_display_empty_outputs u) c hc
  end.
Lemma gen_display_sections_is_model :
  forall u o ho he hc,
    G.display_sections u o = map fst (model_sections u o ho he hc) /\
    G.display_section_headers u o ho he hc = map snd (model_sections u o ho he hc).
Proof. intros [fs ff de] [[so se]|c] ho he hc; split; bridge. Qed.

(* ---------------------------------------------------------------- the order of the environment sources in TestCommand::new (Model/EnvOrder.v, C15) *)
(* == block env_order == *)
(* Who provides the value a call on the Command writes (the hand-written side of this tie): the [env] table of the cargo
   configuration (EnvironmentMap::apply_env), OUT_DIR and the build script's rustc-env variables are the user's / the
   build's; variables whose name begins with NEXTEST, __NEXTEST or CARGO_, apply_package_env (CARGO_PKG_*, when it is not
   followed) and apply_ld_dyld_env (the dynamic library path and its NEXTEST_LD_* / NEXTEST_DYLD_* copies) are nextest's
   own; Command::new / current_dir write no variable; anything else is unknown to the model. ("*env": env called in a
   loop.) *)
Module EnvClassify.
  Import Strings.String.
  Definition of_key (k : string) : MEO.source :=
    if String.eqb k "OUT_DIR" then MEO.SrcUser
    else if prefix "NEXTEST" k || prefix "__NEXTEST" k || prefix "CARGO_" k then MEO.SrcNextest
    else MEO.SrcUnknown.
  Definition of_call (c : string * list string) : MEO.source :=
    let '(m, args) := c in
    if String.eqb m "new" || String.eqb m "current_dir" then MEO.SrcNeutral
    else if String.eqb m "apply_env" || String.eqb m "apply_build_script_env" then MEO.SrcUser
    else if String.eqb m "apply_package_env" || String.eqb m "apply_ld_dyld_env" then MEO.SrcNextest
    else if String.eqb m "env" || String.eqb m "*env" then
           match args with k :: _ => of_key k | [] => MEO.SrcUnknown end
    else MEO.SrcUnknown.
  (* the first call that writes a variable *)
  Definition first_writer (calls : list (string * list string)) : option string :=
    match filter (fun c => match of_call c with MEO.SrcNeutral => false | _ => true end) calls with
    | (m, _) :: _ => Some m
    | [] => None
    end.
  Definition config_env_call : string := "apply_env".
End EnvClassify.
(* TestCommand::new, the calls it makes on the Command in order (apply_package_env followed), regenerated from the source:
   whether or not the package has a build-script output directory ([c]: the condition of that `if` is an input), every
   call is one the model knows, every user / build source comes before every source of nextest's own, both kinds
   occur, and the [env] table of the cargo configuration is applied first of all (so that OUT_DIR and the build
   script's variables win over it, like nextest's own). *)
Lemma gen_env_order_is_model :
  forall c,
    let sources := map EnvClassify.of_call (G.test_command_env c) in
    MEO.all_classified sources = true /\
    MEO.user_before_nextest sources = true /\
    existsb MEO.is_user sources = true /\
    existsb (fun s => match s with MEO.SrcNextest => true | _ => false end) sources = true /\
    EnvClassify.first_writer (G.test_command_env c) = Some EnvClassify.config_env_call.
Proof. intros c. destruct c; vm_compute; repeat split; reflexivity. Qed.

(* ---------------------------------------------------------------- profile inheritance (Model/ProfileChain.v, C06 / C07; fifth round) *)
(* == block get_profile (needs conv_bytes) == *)
(* NextestConfigImpl::get_profile, regenerated from the source (the configuration seen through `other_profiles`, a map
   from names to tables rendered as a list of pairs; a table seen through the optional values it may set; the error
   value is omitted): which table is selected besides the default profile is the model's [custom_table] -- none for the
   name "default" ONLY, the table of that name for every other known name, an error for an unknown one. *)
Definition tables_to_model (ts : list (Strings.String.string * G.CustomProfileImpl)) : list (BS.str * G.CustomProfileImpl) :=
  map (fun kv => (bytes_of_string (fst kv), snd kv)) ts.
Definition selection_of_result (r : option G.CustomProfileImpl + unit) : MPC.selection G.CustomProfileImpl :=
  match r with
  | inl None => MPC.SelDefault
  | inl (Some p) => MPC.SelTable p
  | inr _ => MPC.SelUnknown
  end.
Lemma str_assoc_lookup :
  forall name (ts : list (Strings.String.string * G.CustomProfileImpl)),
    G.str_assoc name ts = MPC.lookup (bytes_of_string name) (tables_to_model ts).
Proof.
  intros name ts. induction ts as [|[k p] ts IH]; [reflexivity|].
  cbn [tables_to_model map fst snd MPC.lookup]. unfold G.str_assoc; fold (@G.str_assoc G.CustomProfileImpl name).
  rewrite string_eqb_bytes. destruct (BS.str_eqb (bytes_of_string k) (bytes_of_string name)); [reflexivity | apply IH].
Qed.
Lemma default_name_bytes : bytes_of_string G.NextestConfig_DEFAULT_PROFILE = MPC.DEFAULT_NAME.
Proof. reflexivity. Qed.
Ltac bridge_profile :=
  timeout 240 (intros; cbv -[bytes_of_string Strings.String.eqb G.str_assoc G.NextestConfig_DEFAULT_PROFILE];
               repeat (bridge_case; cbv beta iota); bridge_leaf).
Lemma gen_get_profile_is_model :
  forall cfg name,
    selection_of_result (G.NextestConfigImpl_get_profile cfg name) =
    MPC.custom_table (bytes_of_string name) (tables_to_model (G.NextestConfigImpl_other_profiles cfg)).
Proof.
  intros cfg name. unfold MPC.custom_table.
  rewrite <- default_name_bytes, <- string_eqb_bytes, <- str_assoc_lookup. destruct cfg as [ts]. bridge_profile.
Qed.

(* == block profile_accessor_retries == *)
(* EvaluatableProfile::retries: the selected table's value if it sets one, otherwise the default profile's *)
Lemma gen_profile_accessor_retries_is_model :
  forall custom dflt, G.profile_accessor_retries custom dflt = MPC.resolve G.CustomProfileImpl_retries custom dflt.
Proof. bridge. Qed.

(* == block profile_accessor_slow_timeout == *)
(* EvaluatableProfile::slow_timeout: the selected table's value if it sets one, otherwise the default profile's *)
Lemma gen_profile_accessor_slow_timeout_is_model :
  forall custom dflt, G.profile_accessor_slow_timeout custom dflt = MPC.resolve G.CustomProfileImpl_slow_timeout custom dflt.
Proof. bridge. Qed.

(* == block profile_accessor_leak_timeout == *)
(* EvaluatableProfile::leak_timeout: the selected table's value if it sets one, otherwise the default profile's *)
Lemma gen_profile_accessor_leak_timeout_is_model :
  forall custom dflt, G.profile_accessor_leak_timeout custom dflt = MPC.resolve G.CustomProfileImpl_leak_timeout custom dflt.
Proof. bridge. Qed.

(* == block profile_accessor_threads_required == *)
(* EvaluatableProfile::threads_required: the selected table's value if it sets one, otherwise the default profile's *)
Lemma gen_profile_accessor_threads_required_is_model :
  forall custom dflt, G.profile_accessor_threads_required custom dflt = MPC.resolve G.CustomProfileImpl_threads_required custom dflt.
Proof. bridge. Qed.

(* == block profile_accessor_test_threads == *)
(* EvaluatableProfile::test_threads: the selected table's value if it sets one, otherwise the default profile's *)
Lemma gen_profile_accessor_test_threads_is_model :
  forall custom dflt, G.profile_accessor_test_threads custom dflt = MPC.resolve G.CustomProfileImpl_test_threads custom dflt.
Proof. bridge. Qed.

(* == block profile_accessor_success_output == *)
(* EvaluatableProfile::success_output: the selected table's value if it sets one, otherwise the default profile's *)
Lemma gen_profile_accessor_success_output_is_model :
  forall custom dflt, G.profile_accessor_success_output custom dflt = MPC.resolve G.CustomProfileImpl_success_output custom dflt.
Proof. bridge. Qed.

(* == block profile_accessor_failure_output == *)
(* EvaluatableProfile::failure_output: the selected table's value if it sets one, otherwise the default profile's *)
Lemma gen_profile_accessor_failure_output_is_model :
  forall custom dflt, G.profile_accessor_failure_output custom dflt = MPC.resolve G.CustomProfileImpl_failure_output custom dflt.
Proof. bridge. Qed.

(* == block profile_retries (needs conv_bytes get_profile profile_accessor_retries) == *)
(* the two ends together: the retry policy of the profile of a given name, through the regenerated get_profile (what
   EarlyProfile stores as `custom_profile`) and the regenerated accessor, is the model's [effective] value *)
Definition gen_profile_value {V : Type} (acc : option G.CustomProfileImpl -> V -> V) (cfg : G.NextestConfigImpl)
           (name : Strings.String.string) (dflt : V) : option V :=
  match G.NextestConfigImpl_get_profile cfg name with
  | inl custom => Some (acc custom dflt)
  | inr _ => None
  end.
Lemma gen_profile_value_is_model :
  forall (V : Type) acc (field : G.CustomProfileImpl -> option V),
    (forall custom dflt, acc custom dflt = MPC.resolve field custom dflt) ->
    forall cfg name dflt,
      gen_profile_value acc cfg name dflt =
      MPC.effective field (bytes_of_string name) (tables_to_model (G.NextestConfigImpl_other_profiles cfg)) dflt.
Proof.
  intros V acc field Hacc cfg name dflt. unfold gen_profile_value, MPC.effective.
  rewrite <- gen_get_profile_is_model.
  destruct (G.NextestConfigImpl_get_profile cfg name) as [[p|]|[]]; cbn [selection_of_result MPC.table_of];
    rewrite ?Hacc; reflexivity.
Qed.
Lemma gen_profile_retries_is_model :
  forall cfg name dflt,
    gen_profile_value G.profile_accessor_retries cfg name dflt =
    MPC.effective G.CustomProfileImpl_retries (bytes_of_string name) (tables_to_model (G.NextestConfigImpl_other_profiles cfg)) dflt.
Proof. apply gen_profile_value_is_model. exact gen_profile_accessor_retries_is_model. Qed.
(* a retry policy set at the level of the selected profile wins over the default profile's, for every profile name other
   than "default" (built-in names included) *)
Lemma gen_profile_retries_selected_wins :
  forall cfg name p v dflt,
    bytes_of_string name <> MPC.DEFAULT_NAME ->
    MPC.lookup (bytes_of_string name) (tables_to_model (G.NextestConfigImpl_other_profiles cfg)) = Some p ->
    G.CustomProfileImpl_retries p = Some v ->
    gen_profile_value G.profile_accessor_retries cfg name dflt = Some v.
Proof.
  intros cfg name p v dflt Hn Hl Hf. rewrite gen_profile_retries_is_model.
  exact (PPC.selected_value_wins _ _ _ _ _ p v dflt Hn Hl Hf).
Qed.

(* ---------------------------------------------------------------- the libtest-json report's stored output (Model/LibtestReport.v, C16; fifth round) *)
(* == block conv_strip (needs conv_bytes) == *)
(* str::strip_prefix / strip_suffix and Iterator::take_while / skip_while as translated, specified on Coq strings *)
Module StrOps.
  Import Strings.String.
  Local Open Scope string_scope.
  Lemma strip_prefix_app : forall p r, G.str_strip_prefix p (p ++ r) = Some r.
  Proof. induction p as [|a p IH]; intros r; [destruct r; reflexivity|]. cbn. rewrite Ascii.eqb_refl. apply IH. Qed.
  Lemma strip_prefix_some : forall p s r, G.str_strip_prefix p s = Some r -> s = p ++ r.
  Proof.
    induction p as [|a p IH]; intros s r H.
    - destruct s; cbn in H; inversion H; reflexivity.
    - destruct s as [|b s]; cbn in H; [discriminate|].
      destruct (Ascii.eqb_spec a b) as [->|]; [|discriminate]. cbn. f_equal. apply IH. exact H.
  Qed.
  Lemma strip_suffix_unfold :
    forall p s, G.str_strip_suffix p s =
                if String.eqb s p then Some EmptyString
                else match s with
                     | EmptyString => None
                     | String a r => match G.str_strip_suffix p r with Some k => Some (String a k) | None => None end
                     end.
  Proof. intros p s. destruct s; reflexivity. Qed.
  Lemma strip_suffix_some : forall p s k, G.str_strip_suffix p s = Some k -> s = k ++ p.
  Proof.
    intros p s. induction s as [|a s IH]; intros k H; rewrite strip_suffix_unfold in H.
    - destruct (String.eqb_spec EmptyString p) as [<-|]; [inversion H; reflexivity | discriminate].
    - destruct (String.eqb_spec (String a s) p) as [<-|]; [inversion H; reflexivity|].
      destruct (G.str_strip_suffix p s) as [k'|]; [|discriminate]. inversion H; subst k. cbn. f_equal. apply IH. reflexivity.
  Qed.
  Lemma append_length : forall a b, length (a ++ b) = (length a + length b)%nat.
  Proof. induction a as [|x a IH]; intros b; [reflexivity|]. cbn. rewrite IH. reflexivity. Qed.
  Lemma strip_suffix_app : forall p k, G.str_strip_suffix p (k ++ p) = Some k.
  Proof.
    intros p k. induction k as [|a k IH]; rewrite strip_suffix_unfold.
    - cbn. rewrite String.eqb_refl. reflexivity.
    - destruct (String.eqb_spec (String a k ++ p) p) as [E|_].
      + exfalso. apply (f_equal length) in E. rewrite append_length in E. cbn in E. lia.
      + cbn. cbn in IH. rewrite IH. reflexivity.
  Qed.
  Lemma append_inv_head : forall p a b, p ++ a = p ++ b -> a = b.
  Proof. induction p as [|x p IH]; intros a b H; [exact H|]. cbn in H. inversion H. apply IH. assumption. Qed.
  Lemma append_inv_tail : forall a b p, a ++ p = b ++ p -> a = b.
  Proof.
    induction a as [|x a IH]; intros [|y b] p H; [reflexivity| | |].
    - exfalso. apply (f_equal length) in H. cbn in H. rewrite append_length in H. lia.
    - exfalso. apply (f_equal length) in H. cbn in H. rewrite append_length in H. lia.
    - cbn in H. inversion H. f_equal. eapply IH. eassumption.
  Qed.
  Lemma bytes_append : forall a b, bytes_of_string (a ++ b) = (bytes_of_string a ++ bytes_of_string b)%list.
  Proof. induction a as [|x a IH]; intros b; [reflexivity|]. cbn. rewrite IH. reflexivity. Qed.
End StrOps.
Lemma flat_map_singleton : forall (A : Type) (l : list A), flat_map (fun x => [x]) l = l.
Proof. induction l as [|x l IH]; [reflexivity|]. cbn. rewrite IH. reflexivity. Qed.
Lemma flat_map_const : forall (A B : Type) (c : B) (l : list A), flat_map (fun _ => [c]) l = repeat c (length l).
Proof. induction l as [|x l IH]; [reflexivity|]. cbn. rewrite IH. reflexivity. Qed.

(* == block libtest_closing_line (needs conv_bytes conv_strip) == *)
(* the predicate of the take_while in strip_human_stdout_or_combined, regenerated from the source: a line is kept unless
   it is EXACTLY `test <name> ... FAILED` for this test's name (the model's [closing_line]) *)
Module LibtestLit.
  Import Strings.String.
  Local Open Scope string_scope.
  Definition closing (name : string) : string := "test " ++ (name ++ " ... FAILED").
  Lemma closing_bytes : forall name, bytes_of_string (closing name) = MLR.closing_text (bytes_of_string name).
  Proof. intros name. unfold closing, MLR.closing_text. rewrite !StrOps.bytes_append. reflexivity. Qed.
  Definition header : string := "running 1 test".
  Lemma header_bytes : bytes_of_string header = MLR.HEADER.
  Proof. reflexivity. Qed.
End LibtestLit.
Ltac str_facts :=
  repeat match goal with
  | H : G.str_strip_prefix _ _ = Some _ |- _ => apply StrOps.strip_prefix_some in H
  | H : G.str_strip_suffix _ _ = Some _ |- _ => apply StrOps.strip_suffix_some in H
  | H : Strings.String.eqb _ _ = true |- _ => apply Strings.String.eqb_eq in H
  | H : Strings.String.eqb _ _ = false |- _ => apply Strings.String.eqb_neq in H
  end.
Lemma gen_closing_line_string :
  forall line name, G.libtest_closing_line line name = negb (Strings.String.eqb line (LibtestLit.closing name)).
Proof.
  intros line name. unfold G.libtest_closing_line.
  destruct (Strings.String.eqb_spec line (LibtestLit.closing name)) as [->|Hne]; cbn [negb].
  - unfold LibtestLit.closing. rewrite StrOps.strip_prefix_app, StrOps.strip_suffix_app.
    rewrite ?Strings.String.eqb_refl. reflexivity.
  - repeat match goal with
           | |- context [match ?x with _ => _ end] => no_match x; destruct x eqn:?
           | |- context [if ?c then _ else _] => no_match c; destruct c eqn:?
           end; try reflexivity; str_facts; subst; exfalso; apply Hne; reflexivity.
Qed.
Lemma gen_libtest_closing_line_is_model :
  forall line name,
    G.libtest_closing_line line name = negb (MLR.closing_line (bytes_of_string name) (bytes_of_string line)).
Proof.
  intros line name. rewrite gen_closing_line_string. unfold MLR.closing_line.
  rewrite <- LibtestLit.closing_bytes, <- string_eqb_bytes. reflexivity.
Qed.

(* == block libtest_report (needs conv_bytes conv_strip libtest_closing_line) == *)
(* strip_human_stdout_or_combined as a whole, regenerated from the source (the output seen through "contains the header
   followed by a newline", its lines and its text): the pieces written to the report, in order, are the model's [stored]
   -- the lines after the header up to this test's exact status line, or the whole output for another harness; every
   stored line is written with the format "{}\n" (followed by an escaped newline), the whole output with "{}"; the
   header that is probed for is the header line followed by a newline. *)
Module LibtestFmt.
  Import Strings.String.
  Definition line_format : string := "{}\n".
  Definition whole_format : string := "{}".
End LibtestFmt.
Lemma take_while_until_closing :
  forall (f : Strings.String.string -> bool) name,
    (forall l, f l = negb (MLR.closing_line (bytes_of_string name) (bytes_of_string l))) ->
    forall ls, map bytes_of_string (G.list_take_while f ls) = MLR.until_closing (bytes_of_string name) (map bytes_of_string ls).
Proof.
  intros f name Hf ls. induction ls as [|l r IH]; [reflexivity|].
  cbn [map MLR.until_closing]. unfold G.list_take_while; fold (G.list_take_while f).
  rewrite Hf. destruct (MLR.closing_line (bytes_of_string name) (bytes_of_string l)); cbn [negb map]; [reflexivity|].
  rewrite IH. reflexivity.
Qed.
Lemma skip_while_after_header :
  forall (f : Strings.String.string -> bool),
    (forall l, f l = negb (Strings.String.eqb l LibtestLit.header)) ->
    forall ls, map bytes_of_string (skipn 1 (G.list_skip_while f ls)) = MLR.after_header (map bytes_of_string ls).
Proof.
  intros f Hf ls. induction ls as [|l r IH]; [reflexivity|].
  cbn [map MLR.after_header]. unfold G.list_skip_while; fold (G.list_skip_while f).
  rewrite Hf, <- LibtestLit.header_bytes, <- string_eqb_bytes.
  destruct (Strings.String.eqb l LibtestLit.header); cbn [negb]; [reflexivity | exact IH].
Qed.
Lemma gen_libtest_report_is_model :
  forall out name,
    map bytes_of_string (G.libtest_report out name) =
    MLR.stored (bytes_of_string name) (G.LibtestOutput_buf_contains_str out)
               (map bytes_of_string (G.LibtestOutput_lines out)) (bytes_of_string (G.LibtestOutput_as_str_lossy out)) /\
    G.libtest_report_formats out name =
    (if G.LibtestOutput_buf_contains_str out then repeat LibtestFmt.line_format (length (G.libtest_report out name))
     else [LibtestFmt.whole_format]) /\
    bytes_of_string G.libtest_header_probe = (MLR.HEADER ++ [10])%list.
Proof.
  intros [c ls whole] name. unfold G.libtest_report, G.libtest_report_formats, MLR.stored, MLR.report_lines.
  cbn [G.LibtestOutput_buf_contains_str G.LibtestOutput_lines G.LibtestOutput_as_str_lossy].
  destruct c; [|repeat split; reflexivity].
  cbv zeta. rewrite flat_map_singleton, flat_map_const, map_id. change (N.to_nat 1) with 1%nat.
  split; [|split; reflexivity].
  rewrite (take_while_until_closing _ name) by (intros l; exact (gen_libtest_closing_line_is_model l name)).
  rewrite skip_while_after_header by (intros l; reflexivity). reflexivity.
Qed.

(* ---------------------------------------------------------------- what SetupScriptExecuteData::apply writes (Model/ApplyEnv.v, C18; fifth round) *)
(* == block apply_env_unconditional == *)
(* SetupScriptExecuteData::apply, regenerated from the source (scripts, keys and values are tokens; whether a script's
   rule matches the test is the input [enabled], asked of the script): the (key, value) pairs handed to Command::env, in
   order, are the model's [env_writes] -- every binding of every script whose rule matches, nothing skipped. *)
Definition env_maps_to_model (maps : list (N * G.SetupScriptEnvMap)) : list (N * list (N * N)) :=
  map (fun d => (fst d, G.SetupScriptEnvMap_env_map (snd d))) maps.
Lemma flat_map_pair_singleton : forall (A B : Type) (l : list (A * B)), flat_map (fun '(a, b) => [(a, b)]) l = l.
Proof. induction l as [|[a b] l IH]; [reflexivity|]. cbn. rewrite IH. reflexivity. Qed.
Lemma gen_apply_env_is_model :
  forall maps enabled, G.apply_env maps enabled = MAE.env_writes enabled (env_maps_to_model maps).
Proof.
  intros maps enabled. unfold G.apply_env, MAE.env_writes, env_maps_to_model.
  induction maps as [|[s m] maps IH]; [reflexivity|].
  cbn [flat_map map fst snd]. rewrite IH. f_equal.
  destruct (enabled s); [|reflexivity]. apply flat_map_pair_singleton.
Qed.
Lemma gen_apply_env_writes_every_binding :
  forall maps enabled s m k v,
    In (s, m) maps -> enabled s = true -> In (k, v) (G.SetupScriptEnvMap_env_map m) -> In (k, v) (G.apply_env maps enabled).
Proof.
  intros maps enabled s m k v Hd He Hk. rewrite gen_apply_env_is_model.
  apply (PAE.every_enabled_binding_written _ _ _ enabled (env_maps_to_model maps) s (G.SetupScriptEnvMap_env_map m)); [|exact He|exact Hk].
  unfold env_maps_to_model. apply in_map_iff. exists (s, m). split; [reflexivity | exact Hd].
Qed.

(* ---------------------------------------------------------------- the path of the leak verdict (Model/LeakVerdict.v, C03; fifth round) *)
(* == block leak_verdict_unchanged == *)
(* run_test_inner / run_setup_script_inner: the `leaked` argument of the create_execution_result call the status is
   built from (inside `status.unwrap_or_else(|| ..)`), regenerated from the source together with the `let`s it depends
   on, as a function of the value detect_fd_leaks(..).await yielded (an opaque input): it IS that value. *)
Lemma gen_leak_verdict_unchanged :
  forall detected,
    G.run_test_leak_verdict detected = MLV.verdict_of_detection detected /\
    G.run_script_leak_verdict detected = MLV.verdict_of_detection detected.
Proof. intros detected. split; bridge. Qed.
