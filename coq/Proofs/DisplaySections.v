(* Facts about Model/DisplaySections.v: each stream's section is shown on its own account. *)
From Coq Require Import List Bool.
From NextestModel Require Import Model.DisplaySections.
Import ListNotations.

Section Facts.
  Variable stream header : Type.
  Variable is_empty : stream -> bool.
  Notation split := (split_sections stream header is_empty).
  Notation one := (stream_section stream header is_empty).

  (* standard error is shown iff it was captured and is to be shown -- whatever standard output is *)
  Lemma stderr_shown_independently :
    forall de out err ho he e,
      err = Some e ->
      (In (e, he) (split de out err ho he) <->
       (shown stream is_empty de e = true \/ In (e, he) (one de out ho))).
  Proof.
    intros de out err ho he e ->. unfold split_sections. rewrite in_app_iff. cbn [stream_section].
    destruct (shown stream is_empty de e); cbn [In]; intuition congruence.
  Qed.

  Lemma stderr_section_is_suffix :
    forall de out err ho he, exists pre, split de out err ho he = pre ++ one de err he /\ pre = one de out ho.
  Proof. intros. eexists. split; reflexivity. Qed.

  (* ... in particular a non-empty standard error is shown although standard output is empty, missing, or skipped *)
  Lemma nonempty_stderr_shown :
    forall de out e ho he, is_empty e = false -> In (e, he) (split de out (Some e) ho he).
  Proof.
    intros de out e ho he H. unfold split_sections. apply in_or_app. right. cbn [stream_section]. unfold shown.
    rewrite H. cbn [negb]. rewrite orb_true_r. left. reflexivity.
  Qed.
  Lemma nonempty_stdout_shown :
    forall de o err ho he, is_empty o = false -> In (o, ho) (split de (Some o) err ho he).
  Proof.
    intros de o err ho he H. unfold split_sections. apply in_or_app. left. cbn [stream_section]. unfold shown.
    rewrite H. cbn [negb]. rewrite orb_true_r. left. reflexivity.
  Qed.

  (* an empty stream is shown only on request *)
  Lemma empty_stream_hidden :
    forall s h, is_empty s = true -> one false (Some s) h = [].
  Proof. intros s h H. cbn [stream_section]. unfold shown. rewrite H. reflexivity. Qed.

  (* at most two sections, standard output first *)
  Lemma split_order :
    forall de out err ho he,
      exists a b, split de out err ho he = a ++ b /\ (a = [] \/ exists o, out = Some o /\ a = [(o, ho)]) /\
                  (b = [] \/ exists e, err = Some e /\ b = [(e, he)]).
  Proof.
    intros de out err ho he. exists (one de out ho), (one de err he). split; [reflexivity|]. split.
    - destruct out as [o|]; cbn [stream_section]; [destruct (shown _ _ de o)|]; eauto.
    - destruct err as [e|]; cbn [stream_section]; [destruct (shown _ _ de e)|]; eauto.
  Qed.
End Facts.
