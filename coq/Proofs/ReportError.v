(* C01 with the premise "provided reporting itself did not fail" made explicit, and the statement
   for runs in which it did (Model/RunExit.v). *)
From Coq Require Import List NArith ZArith Bool.
From NextestModel Require Import Model.Result Model.Dispatcher Model.Unit Model.RunExit
     Proofs.Result Proofs.Dispatcher Proofs.Unit.
Import ListNotations.
Open Scope N_scope.

Lemma run_exit_real_ok c mf dbg h p :
  report_cancelled h = false -> run_exit_real c mf dbg h p false = run_exit c mf dbg h p.
Proof.
  intros H. unfold run_exit_real. rewrite H. cbn [orb].
  destruct (run_exit c mf dbg h p); reflexivity.
Qed.

(* reporting did not fail: the exit status is the one the property demands *)
Lemma exit_zero_iff_reporting_ok c mf dbg h p :
  wf_history c mf dbg h = true -> (shutdown_count h <= 2)%nat ->
  report_cancelled h = false ->
  (run_exit_real c mf dbg h p false = Some 0%Z <->
   (forall r, In r (script_results h) -> is_success r = true) /\
   (forall t, In t (c_sel c) -> exists a, final_of h t = Some a /\ is_success (a_res a) = true) /\
   (c_sel c <> [] \/ p = Some NtPass \/ p = Some NtWarn)).
Proof.
  intros Hwf Hsig Hr. rewrite (run_exit_real_ok _ _ _ _ _ Hr). apply exit_zero_iff; assumption.
Qed.

Lemma exit_spec_reporting_ok c mf dbg h p :
  wf_history c mf dbg h = true -> (shutdown_count h <= 2)%nat ->
  report_cancelled h = false ->
  run_exit_real c mf dbg h p false = Some (spec_exit c h p).
Proof.
  intros Hwf Hsig Hr. rewrite (run_exit_real_ok _ _ _ _ _ Hr). apply run_exit_spec; assumption.
Qed.

(* reporting failed: 110 whatever the tests did; in particular never 0 *)
Lemma exit_report_error c mf dbg h p rf :
  wf_history c mf dbg h = true -> (shutdown_count h <= 2)%nat ->
  rf = true \/ report_cancelled h = true ->
  run_exit_real c mf dbg h p rf = Some EXIT_WRITE_OUTPUT_ERROR /\
  run_exit_real c mf dbg h p rf <> Some 0%Z.
Proof.
  intros Hwf Hsig Hr. unfold run_exit_real. rewrite (run_exit_spec _ _ _ _ p Hwf Hsig).
  assert (E : rf || report_cancelled h = true) by (destruct Hr as [-> | ->]; [reflexivity|apply orb_true_r]).
  rewrite E. split; [reflexivity|discriminate].
Qed.

(* the two cases together: exit status 0 iff reporting did not fail and everything passed *)
Lemma exit_real_zero_iff c mf dbg h p rf :
  wf_history c mf dbg h = true -> (shutdown_count h <= 2)%nat ->
  (run_exit_real c mf dbg h p rf = Some 0%Z <->
   rf = false /\ report_cancelled h = false /\
   (forall r, In r (script_results h) -> is_success r = true) /\
   (forall t, In t (c_sel c) -> exists a, final_of h t = Some a /\ is_success (a_res a) = true) /\
   (c_sel c <> [] \/ p = Some NtPass \/ p = Some NtWarn)).
Proof.
  intros Hwf Hsig.
  destruct rf.
  - destruct (exit_report_error c mf dbg h p true Hwf Hsig (or_introl eq_refl)) as [_ H].
    split; [intros E; contradiction|intros [E _]; discriminate].
  - destruct (report_cancelled h) eqn:Er.
    + destruct (exit_report_error c mf dbg h p false Hwf Hsig (or_intror Er)) as [_ H].
      split; [intros E; contradiction|intros (_ & E & _); discriminate].
    + rewrite (exit_zero_iff_reporting_ok _ _ _ _ _ Hwf Hsig Er). tauto.
Qed.
