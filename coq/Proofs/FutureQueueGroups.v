(* C08 / C14: the group tag a future in progress carries ([r_grp], what FutureQueueContext /
   FutureWithGW hold) is the group of the item it runs ([it_grp (r_item r)], what
   test.settings.test_group() returns in run_test_inner) -- in every state and for every start event
   of every operation sequence; and what that makes of the three environment variables.
   Additions only: nothing in Proofs/FutureQueue.v is changed. *)
From NextestModel Require Import Base.Str Base.Tac Model.FutureQueue Proofs.FutureQueue.
Open Scope N_scope.

(* ------------------------------------------------------------------ the link invariant *)
Definition linked (r : rinfo) : Prop := rgroup r = it_grp (r_item r).

Definition queue_linked (k : N) (g : grp) : Prop :=
  Forall (fun it => it_grp it = Some k) (g_queue g).

Definition link_inv (q : fq) : Prop :=
  Forall linked (running q) /\
  (forall k g, glookup k (groups q) = Some g -> queue_linked k g).

Lemma Forall_snoc {A} (P : A -> Prop) l x : Forall P l -> P x -> Forall P (l ++ [x]).
Proof. intros H1 H2. apply Forall_app. split; [exact H1|constructor; [exact H2|constructor]]. Qed.

Lemma start_global_link q it :
  link_inv q -> it_grp it = None ->
  link_inv (fst (start_global q it)) /\ linked (snd (start_global q it)).
Proof.
  intros [Hr Hg] Hn. unfold start_global, link_inv, linked, rgroup; cbn [fst snd running groups r_grp r_item option_map].
  split; [split; [|exact Hg]|]; [apply Forall_snoc; [exact Hr|]|]; cbn [r_grp r_item option_map]; congruence.
Qed.

Lemma start_in_group_link q k g it :
  link_inv q -> glookup k (groups q) = Some g -> it_grp it = Some k ->
  link_inv (fst (start_in_group q k g it)) /\ linked (snd (start_in_group q k g it)).
Proof.
  intros [Hr Hg] Hk Hn.
  unfold start_in_group, link_inv, linked, rgroup; cbn [fst snd running groups r_grp r_item option_map].
  split; [split|].
  - apply Forall_snoc; [exact Hr|]. cbn [r_grp r_item option_map fst]. congruence.
  - apply (gupdate_forall_k queue_linked k g _ _ Hk); [|exact Hg].
    unfold queue_linked; cbn [g_queue]. exact (Hg k g Hk).
  - congruence.
Qed.

Lemma enqueue_link q k g it :
  link_inv q -> glookup k (groups q) = Some g -> it_grp it = Some k -> link_inv (enqueue q k g it).
Proof.
  intros [Hr Hg] Hk Hn. unfold enqueue, set_groups, link_inv; cbn [running groups].
  split; [exact Hr|].
  apply (gupdate_forall_k queue_linked k g _ _ Hk); [|exact Hg].
  unfold queue_linked; cbn [g_queue]. apply Forall_snoc; [exact (Hg k g Hk) | exact Hn].
Qed.

Lemma set_queue_link q k l :
  link_inv q -> Forall (fun it => it_grp it = Some k) l -> link_inv (set_queue q k l).
Proof.
  intros [Hr Hg] Hl. split; [rewrite set_queue_running; exact Hr|].
  intros k' g1 H. destruct (set_queue_lookup _ _ _ _ _ H) as [[-> Hq]|[_ H1]].
  - unfold queue_linked. rewrite Hq. exact Hl.
  - exact (Hg _ _ H1).
Qed.

Lemma release_link q r l1 l2 :
  link_inv q -> running q = l1 ++ r :: l2 -> link_inv (release q r (l1 ++ l2)).
Proof.
  intros [Hr Hg] Hrun. split.
  - unfold release; cbn [running]. rewrite Hrun in Hr. apply Forall_app in Hr. destruct Hr as [Ha Hb].
    apply Forall_app. split; [exact Ha | exact (Forall_inv_tail Hb)].
  - intros k' g1 H. destruct (release_lookup _ _ _ _ _ H) as (g0 & H0 & Hq).
    unfold queue_linked. rewrite <- Hq. exact (Hg _ _ H0).
Qed.

Lemma fill_loop_link l : forall q, link_inv q ->
  link_inv (fst (fill_loop l q)) /\ Forall linked (starts (snd (fill_loop l q))).
Proof.
  induction l as [|it rest IH]; intros q Hq; cbn [fill_loop].
  - split; [exact Hq|constructor].
  - destruct (has_space (gcur q) (gmax q) (it_w it)); [|split; [exact Hq|constructor]].
    destruct (it_grp it) as [k|] eqn:Eg.
    + destruct (glookup k (groups q)) as [g|] eqn:Ek; [|split; [exact Hq|constructor]].
      destruct (has_space (g_cur g) (g_max g) (it_w it)); cbn [fst snd starts].
      * destruct (start_in_group_link q k g it Hq Ek Eg) as [H1 H2].
        destruct (IH _ H1) as [H3 H4]. split; [exact H3|constructor; assumption].
      * apply IH. apply enqueue_link; assumption.
    + cbn [fst snd starts]. destruct (start_global_link q it Hq Eg) as [H1 H2].
      destruct (IH _ H1) as [H3 H4]. split; [exact H3|constructor; assumption].
Qed.

Lemma fq_fill_link q : link_inv q ->
  link_inv (fst (fq_fill q)) /\ Forall linked (starts (snd (fq_fill q))).
Proof.
  intros H. unfold fq_fill. destruct (panicked q); [split; [exact H|constructor]|].
  apply fill_loop_link; exact H.
Qed.

Lemma drain_loop_link k queue : forall q, link_inv q ->
  Forall (fun it => it_grp it = Some k) queue ->
  link_inv (fst (drain_loop k queue q)) /\ Forall linked (starts (snd (drain_loop k queue q))).
Proof.
  induction queue as [|it rest IH]; intros q Hq Hl; cbn [drain_loop].
  - split; [apply set_queue_link; assumption|constructor].
  - destruct (glookup k (groups q)) as [g|] eqn:Ek; [|split; [exact Hq|constructor]].
    destruct (has_space (gcur q) (gmax q) (it_w it) && has_space (g_cur g) (g_max g) (it_w it)).
    + cbn [fst snd starts].
      destruct (start_in_group_link q k g it Hq Ek (Forall_inv Hl)) as [H1 H2].
      destruct (IH _ H1 (Forall_inv_tail Hl)) as [H3 H4]. split; [exact H3|constructor; assumption].
    + split; [apply set_queue_link; assumption|constructor].
Qed.

Lemma fq_pop_link q id res : link_inv q -> fq_pop q id = Some res ->
  link_inv (fst res) /\ Forall linked (starts (snd res)).
Proof.
  intros Hq. unfold fq_pop. destruct (panicked q); [discriminate|].
  destruct (take_running id (running q)) as [[r rest]|] eqn:Et; [|discriminate].
  destruct (take_running_spec _ _ _ _ Et) as (l1 & l2 & Hrun & -> & _).
  pose proof (release_link q r l1 l2 Hq Hrun) as Hrel.
  destruct (r_grp r) as [[k t]|].
  - destruct (glookup k (groups (release q r (l1 ++ l2)))) as [g|] eqn:Ek.
    + intros H; injection H as <-. cbn [fst snd starts].
      apply drain_loop_link; [exact Hrel|]. exact (proj2 Hrel k g Ek).
    + intros H; injection H as <-. split; [exact Hrel|constructor].
  - intros H; injection H as <-. split; [exact Hrel|constructor].
Qed.

Lemma fq_step_link q o : link_inv q ->
  link_inv (fst (fq_step q o)) /\ Forall linked (starts (snd (fq_step q o))).
Proof.
  intros Hq. destruct o as [|id|id]; cbn [fq_step].
  - apply fq_fill_link; exact Hq.
  - destruct (fq_pop q id) as [res|] eqn:E; [|split; [exact Hq|constructor]].
    destruct (fq_pop_link _ _ _ Hq E) as [P1 P2]. destruct (fq_fill_link _ P1) as [F1 F2].
    cbn [fst snd]. split; [exact F1|]. rewrite starts_app. apply Forall_app. split; assumption.
  - destruct (fq_pop q id) as [res|] eqn:E; [|split; [exact Hq|constructor]].
    exact (fq_pop_link _ _ _ Hq E).
Qed.

Lemma fq_run_link ops : forall q, link_inv q ->
  link_inv (fst (fq_run q ops)) /\ Forall linked (starts (snd (fq_run q ops))).
Proof.
  induction ops as [|o ops IH]; intros q Hq; [split; [exact Hq|constructor]|].
  rewrite fq_run_cons; cbn [fst snd]. destruct (fq_step_link q o Hq) as [S1 S2].
  destruct (IH _ S1) as [R1 R2]. split; [exact R1|]. rewrite starts_app. apply Forall_app. split; assumption.
Qed.

Lemma link_inv_new gm grps items : link_inv (fq_new gm grps items).
Proof.
  split; [constructor|]. unfold fq_new; cbn [groups]. intros k g Hk.
  apply glookup_new in Hk. destruct Hk as [m ->]. constructor.
Qed.

(* every future in progress, and every future ever started, carries the group of its item *)
Theorem group_tag_is_item_group gm grps items ops :
  let res := fq_run (fq_new gm grps items) ops in
  Forall linked (running (fst res)) /\ Forall linked (starts (snd res)).
Proof.
  intros res. destruct (fq_run_link ops _ (link_inv_new gm grps items)) as [[H1 _] H2].
  split; assumption.
Qed.

Lemma linked_cases r :
  linked r ->
  (it_grp (r_item r) = None /\ r_grp r = None) \/
  (exists k t, it_grp (r_item r) = Some k /\ r_grp r = Some (k, t)).
Proof.
  unfold linked, rgroup. destruct (r_grp r) as [[k t]|]; cbn [option_map fst]; intros H.
  - right. exists k, t. split; [symmetry; exact H|reflexivity].
  - left. split; [symmetry; exact H|reflexivity].
Qed.

(* ------------------------------------------------------------------ C08: members by item group *)
Definition item_in_group (k : N) (r : rinfo) : bool :=
  match it_grp (r_item r) with Some k' => k =? k' | None => false end.

Definition item_group_load (k gm : N) (rs : list rinfo) : N :=
  sumN (map (fun r => capw (it_w (r_item r)) gm) (filter (item_in_group k) rs)).

Lemma item_in_group_linked k r : linked r -> item_in_group k r = in_group k r.
Proof.
  intros H. unfold item_in_group, in_group.
  destruct (linked_cases r H) as [[-> ->]|(k' & t & -> & ->)]; reflexivity.
Qed.

Lemma item_group_load_linked k gm rs :
  Forall linked rs -> item_group_load k gm rs = group_load k gm rs.
Proof.
  unfold item_group_load, group_load. induction 1 as [|r rs Hr _ IH]; [reflexivity|].
  cbn [filter]. rewrite (item_in_group_linked k r Hr).
  destruct (in_group k r); cbn [map sumN]; rewrite IH; reflexivity.
Qed.

(* C08's group bound with membership decided by the configured group of the test *)
Theorem c08_group_inv_by_item gm grps items ops k m :
  assoc_first k grps = Some m ->
  item_group_load k m (running (fst (fq_run (fq_new gm grps items) ops))) <= m.
Proof.
  intros Hk. rewrite item_group_load_linked by apply group_tag_is_item_group.
  destruct (c08_group_inv gm grps items ops k m Hk) as (g & _ & _ & H1 & H2). lia.
Qed.

(* C14: two futures in progress whose tests are configured into the same group hold different
   group slots (and both have one) *)
Theorem c14_group_slots_by_item gm grps items ops i j ri rj k m :
  let q := fst (fq_run (fq_new gm grps items) ops) in
  assoc_first k grps = Some m -> i <> j ->
  nth_error (running q) i = Some ri -> nth_error (running q) j = Some rj ->
  it_grp (r_item ri) = Some k -> it_grp (r_item rj) = Some k ->
  exists ti tj, r_grp ri = Some (k, ti) /\ r_grp rj = Some (k, tj) /\ ti <> tj.
Proof.
  intros q Hk Hij Hi Hj Gi Gj.
  destruct (group_tag_is_item_group gm grps items ops) as [Hl _]. fold q in Hl.
  rewrite Forall_forall in Hl.
  pose proof (Hl _ (nth_error_In _ _ Hi)) as Li. pose proof (Hl _ (nth_error_In _ _ Hj)) as Lj.
  destruct (linked_cases _ Li) as [[E _]|(ki & ti & E1 & E2)]; [congruence|].
  destruct (linked_cases _ Lj) as [[E _]|(kj & tj & E3 & E4)]; [congruence|].
  assert (ki = k) by congruence. assert (kj = k) by congruence. subst ki kj.
  exists ti, tj. split; [exact E2|split; [exact E4|]].
  destruct (c14_unique gm grps items ops) as [_ Hu]. specialize (Hu k m Hk). fold q in Hu.
  clear Hl Li Lj E1 E3 Gi Gj. revert i j Hij Hi Hj Hu. generalize (running q).
  induction l as [|a l IH]; intros i j Hij Hi Hj Hu; [destruct i; discriminate|].
  rewrite held_cons in Hu. unfold held1 in Hu.
  destruct i as [|i], j as [|j]; cbn [nth_error] in Hi, Hj.
  - congruence.
  - injection Hi as ->. rewrite E2, N.eqb_refl in Hu. cbn [app] in Hu.
    apply NoDup_cons_iff in Hu. destruct Hu as [Hn _]. intros ->. apply Hn.
    eapply held_in; [exact (nth_error_In _ _ Hj) | exact E4].
  - injection Hj as ->. rewrite E4, N.eqb_refl in Hu. cbn [app] in Hu.
    apply NoDup_cons_iff in Hu. destruct Hu as [Hn _]. intros <-. apply Hn.
    eapply held_in; [exact (nth_error_In _ _ Hi) | exact E2].
  - apply (IH i j); [congruence|exact Hi|exact Hj|].
    destruct (r_grp a) as [[ka ta]|]; [destruct (k =? ka)|]; cbn [app] in Hu;
      try exact Hu. exact (proj2 (proj1 (NoDup_cons_iff _ _) Hu)).
Qed.

(* ------------------------------------------------------------------ the environment *)
(* decimal renderings start with a digit, so they are never the word "none" *)
Lemma dec_digits_head : forall fuel n acc,
  (acc = [] -> fuel <> O) ->
  (forall c rest, acc = c :: rest -> 48 <= c <= 57) ->
  exists c rest, dec_digits fuel n acc = c :: rest /\ 48 <= c <= 57.
Proof.
  induction fuel as [|f IH]; intros n acc Hf Hacc; cbn [dec_digits].
  - destruct acc as [|c rest]; [exfalso; apply Hf; reflexivity|].
    exists c, rest. split; [reflexivity | eapply Hacc; reflexivity].
  - destruct (n <? 10) eqn:E.
    + apply N.ltb_lt in E. exists (48 + n), acc. split; [reflexivity | lia].
    + apply IH; [discriminate|]. intros c rest H.
      assert (Hc : 48 + n mod 10 = c) by (apply (f_equal (hd 0)) in H; exact H).
      assert (n mod 10 < 10) by (apply N.mod_lt; discriminate). lia.
Qed.

Lemma dec_str_not_none n : dec_str n <> s_none.
Proof.
  unfold dec_str. destruct (dec_digits_head (S (N.size_nat n)) n []) as (c & rest & -> & Hc).
  - discriminate.
  - intros c rest H; discriminate.
  - unfold s_none. intros H. injection H as -> _. lia.
Qed.

Lemma test_env_eq names r :
  test_env names r =
  [ (s_GLOBAL_SLOT, dec_str (r_gslot r)); (s_GROUP, env_group names r);
    (s_GROUP_SLOT, env_group_slot r) ].
Proof. unfold test_env, slot_env, env_group, env_group_slot. destruct (it_grp (r_item r)); reflexivity. Qed.

Lemma env_group_global_iff names r :
  (forall k, names k <> s_at_global) ->
  (env_group names r = s_at_global <-> it_grp (r_item r) = None).
Proof.
  intros Hn. unfold env_group. destruct (it_grp (r_item r)) as [k|].
  - split; [intros H; exfalso; exact (Hn k H)|discriminate].
  - split; reflexivity.
Qed.

Lemma env_group_slot_none_iff r : env_group_slot r = s_none <-> r_grp r = None.
Proof.
  unfold env_group_slot. destruct (r_grp r) as [[k t]|].
  - split; [intros H; exfalso; exact (dec_str_not_none t H)|discriminate].
  - split; reflexivity.
Qed.

(* For every future in progress and every future ever started, in every operation sequence: the
   three variables are a function of the record alone; NEXTEST_TEST_GROUP is "@global" iff the
   test has no group, else its group's name; NEXTEST_TEST_GROUP_SLOT is "none" iff the test has no
   group, else the decimal group slot reserved in that very group. *)
Theorem env_of_started gm grps items ops names r :
  (forall k, names k <> s_at_global) ->
  let res := fq_run (fq_new gm grps items) ops in
  In r (running (fst res)) \/ In r (starts (snd res)) ->
  test_env names r =
    [ (s_GLOBAL_SLOT, dec_str (r_gslot r)); (s_GROUP, env_group names r);
      (s_GROUP_SLOT, env_group_slot r) ] /\
  (env_group names r = s_at_global <-> it_grp (r_item r) = None) /\
  (env_group_slot r = s_none <-> it_grp (r_item r) = None) /\
  (forall k, it_grp (r_item r) = Some k ->
     env_group names r = names k /\
     exists t, r_grp r = Some (k, t) /\ env_group_slot r = dec_str t).
Proof.
  intros Hn res Hin.
  assert (Hl : linked r).
  { destruct (group_tag_is_item_group gm grps items ops) as [H1 H2]. fold res in H1, H2.
    rewrite Forall_forall in H1, H2. destruct Hin; auto. }
  split; [apply test_env_eq|]. split; [apply env_group_global_iff; exact Hn|]. split.
  - rewrite env_group_slot_none_iff.
    destruct (linked_cases r Hl) as [[E1 E2]|(k & t & E1 & E2)]; rewrite E1, E2; split; auto; discriminate.
  - intros k Hk. unfold env_group, env_group_slot. rewrite Hk. split; [reflexivity|].
    destruct (linked_cases r Hl) as [[E1 E2]|(k' & t & E1 & E2)]; [congruence|].
    assert (k' = k) by congruence. subst k'. exists t. rewrite E2. auto.
Qed.

(* ------------------------------------------------------------------ where records come from *)
Lemma held_after_origin evs : forall h r,
  In r (held_after h evs) -> In r h \/ In r (starts evs).
Proof.
  induction evs as [|e evs IH]; intros h r Hin; cbn [held_after starts] in *; [left; exact Hin|].
  destruct e as [it|x|id|].
  - apply IH; exact Hin.
  - destruct (IH _ _ Hin) as [H|H]; [|right; right; exact H].
    apply in_app_or in H. destruct H as [H|[<-|[]]]; [left; exact H|right; left; reflexivity].
  - destruct (take_running id h) as [[x h']|] eqn:Et; [|apply IH; exact Hin].
    destruct (IH _ _ Hin) as [H|H]; [|right; exact H]. left.
    destruct (take_running_spec _ _ _ _ Et) as (l1 & l2 & -> & -> & _).
    apply in_app_or in H. apply in_or_app. destruct H; [left|right; right]; assumption.
  - apply IH; exact Hin.
Qed.

(* every future in progress was created by a start event of the trace *)
Lemma running_was_started gm grps items ops r :
  In r (running (fst (fq_run (fq_new gm grps items) ops))) ->
  In r (starts (snd (fq_run (fq_new gm grps items) ops))).
Proof.
  intros Hin. destruct (fq_run_least ops _ (fq_new_inv gm grps items)) as [_ H].
  rewrite <- H in Hin. destruct (held_after_origin _ _ _ Hin) as [[]|H']. exact H'.
Qed.
