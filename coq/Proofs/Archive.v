(* Lemmas for C19 (archives). *)
From NextestModel Require Import Base.Str Model.Archive Proofs.StrFacts.
From NextestModel Require Import Base.Tac.
Open Scope N_scope.

(* ================================================================== paths *)

Lemma path_eqb_eq (a b : rpath) : path_eqb a b = true <-> a = b.
Proof.
  revert b; induction a as [|x a IH]; intros [|y b]; cbn [path_eqb]; split; intros H;
    try discriminate; try reflexivity.
  - apply andb_true_iff in H as [H1 H2]. apply str_eqb_eq in H1. apply IH in H2. congruence.
  - inversion H; subst. apply andb_true_iff; split; [apply str_eqb_refl | apply IH; reflexivity].
Qed.

Lemma path_eqb_refl (a : rpath) : path_eqb a a = true.
Proof. apply path_eqb_eq; reflexivity. Qed.

Lemma path_eqb_neq (a b : rpath) : path_eqb a b = false <-> a <> b.
Proof.
  split.
  - intros H E. apply path_eqb_eq in E. congruence.
  - intros H. destruct (path_eqb a b) eqn:E; [|reflexivity]. apply path_eqb_eq in E. contradiction.
Qed.

Lemma mem_path_In (p : rpath) (l : list rpath) : mem_path p l = true <-> In p l.
Proof.
  induction l as [|q l IH]; cbn [mem_path In].
  - split; [discriminate | tauto].
  - rewrite orb_true_iff, IH, path_eqb_eq. split; intros [H|H]; auto.
Qed.

Lemma mem_path_false (p : rpath) (l : list rpath) : mem_path p l = false <-> ~ In p l.
Proof.
  split.
  - intros H Hin. apply mem_path_In in Hin. congruence.
  - intros H. destruct (mem_path p l) eqn:E; [|reflexivity]. apply mem_path_In in E. contradiction.
Qed.

Lemma path_prefix_spec (p q : rpath) : path_prefix p q = true <-> exists r, q = p ++ r.
Proof.
  revert q; induction p as [|x p IH]; intros q; cbn [path_prefix].
  - split; [intros _; exists q; reflexivity | reflexivity].
  - destruct q as [|y q].
    + split; [discriminate | intros [r H]; discriminate].
    + rewrite andb_true_iff, str_eqb_eq, IH. split.
      * intros [-> [r ->]]. exists r; reflexivity.
      * intros [r H]. inversion H; subst. split; [reflexivity | exists r; reflexivity].
Qed.

Lemma path_prefix_app (p r : rpath) : path_prefix p (p ++ r) = true.
Proof. apply path_prefix_spec; exists r; reflexivity. Qed.

(* ================================================================== the walk *)

Section TreeInd.
  Variable P : tree -> Prop.
  Hypothesis HF : forall b, P (File b).
  Hypothesis HS : forall r, P (Symlink r).
  Hypothesis HO : P Other.
  Hypothesis HD : forall es, Forall (fun e => P (snd e)) es -> P (Dir es).

  Fixpoint tree_ind' (t : tree) : P t :=
    match t with
    | File b => HF b
    | Symlink r => HS r
    | Other => HO
    | Dir es =>
        HD es ((fix go (es : list (name * tree)) : Forall (fun e => P (snd e)) es :=
                  match es with
                  | [] => Forall_nil _
                  | (n, c) :: es' => Forall_cons (n, c) (tree_ind' c) (go es')
                  end) es)
    end.
End TreeInd.

Definition children_items (d : depth) (p : rpath) (es : list (name * tree)) : list item :=
  flat_map (fun e : name * tree => collect_rec (decrement d) (p ++ [fst e]) (snd e)) (rev es).

Lemma collect_rec_dir d p es :
  collect_rec d p (Dir es) = if is_zero d then [IDepthExceeded p] else children_items d p es.
Proof.
  cbn [collect_rec]. destruct (is_zero d); [reflexivity|]. unfold children_items.
  induction es as [|[n c] es IH]; [reflexivity|].
  cbn [rev fst snd]. rewrite flat_map_app. cbn [flat_map fst snd]. rewrite app_nil_r.
  rewrite <- IH. reflexivity.
Qed.

Fixpoint sizes (es : list (name * tree)) : nat :=
  match es with [] => O | e :: es' => (tree_size (snd e) + sizes es')%nat end.

Lemma tree_size_dir es : tree_size (Dir es) = S (sizes es).
Proof.
  cbn [tree_size]. f_equal. induction es as [|[n c] es IH]; [reflexivity|].
  cbn [sizes snd]. rewrite <- IH. reflexivity.
Qed.

Lemma tree_size_pos t : (1 <= tree_size t)%nat.
Proof. destruct t; cbn [tree_size]; lia. Qed.

Fixpoint stack_size (st : list frame) : nat :=
  match st with [] => O | fr :: st' => (tree_size (snd (snd fr)) + stack_size st')%nat end.

Definition frame_items (fr : frame) : list item :=
  collect_rec (fst fr) (fst (snd fr)) (snd (snd fr)).

Lemma stack_size_app a b : stack_size (a ++ b) = (stack_size a + stack_size b)%nat.
Proof. induction a as [|x a IH]; cbn [app stack_size] in *; [reflexivity|]. rewrite IH. lia. Qed.

Lemma stack_size_rev a : stack_size (rev a) = stack_size a.
Proof.
  induction a as [|x a IH]; [reflexivity|]. cbn [rev]. rewrite stack_size_app, IH.
  cbn [stack_size]. lia.
Qed.

Lemma stack_size_children d p es :
  stack_size (map (fun e : name * tree => (decrement d, (p ++ [fst e], snd e))) es) = sizes es.
Proof.
  induction es as [|e es IH]; [reflexivity|].
  cbn [map stack_size sizes snd] in *. rewrite IH. reflexivity.
Qed.

Lemma walk_flat_map fuel : forall st,
  (stack_size st <= fuel)%nat -> walk fuel st = Some (flat_map frame_items st).
Proof.
  induction fuel as [|f IH]; intros st Hsz.
  - destruct st as [|[d [p t]] st']; [reflexivity|].
    cbn [stack_size snd] in Hsz. pose proof (tree_size_pos t). lia.
  - destruct st as [|[d [p t]] st']; [reflexivity|].
    cbn [stack_size snd] in Hsz.
    cbn [walk flat_map]. unfold frame_items at 1. cbn [fst snd].
    destruct t as [b|r|es|].
    + rewrite IH by (cbn [tree_size] in Hsz; lia). reflexivity.
    + rewrite IH by (cbn [tree_size] in Hsz; lia). reflexivity.
    + rewrite collect_rec_dir. rewrite tree_size_dir in Hsz.
      destruct (is_zero d).
      * rewrite IH by lia. reflexivity.
      * unfold push_children. rewrite rev_append_rev.
        rewrite IH.
        2:{ rewrite stack_size_app, stack_size_rev, stack_size_children. lia. }
        rewrite flat_map_app. f_equal. f_equal.
        unfold children_items. rewrite <- map_rev.
        generalize (rev es). intros l. induction l as [|e l IHl]; [reflexivity|].
        cbn [map flat_map]. rewrite IHl. reflexivity.
    + rewrite IH by (cbn [tree_size] in Hsz; lia). reflexivity.
Qed.

Lemma collect_eq_rec d p t : collect d p t = collect_rec d p t.
Proof.
  unfold collect. rewrite walk_flat_map.
  - cbn [flat_map]. unfold frame_items. cbn [fst snd]. apply app_nil_r.
  - cbn [stack_size snd]. lia.
Qed.

(* ---- what the depth limit means *)

Definition bump (n : name) (x : rpath * (N * src)) : rpath * (N * src) :=
  (n :: fst x, (fst (snd x) + 1, snd (snd x))).

Lemma leaves_dir es :
  leaves (Dir es) = flat_map (fun e : name * tree => map (bump (fst e)) (leaves (snd e))) (rev es).
Proof.
  cbn [leaves]. induction es as [|[n c] es IH]; [reflexivity|].
  cbn [rev fst snd]. rewrite flat_map_app. cbn [flat_map fst snd]. rewrite app_nil_r.
  rewrite <- IH. reflexivity.
Qed.

Lemma within_zero d : within d 0 = true.
Proof. destruct d as [n|]; cbn [within]; [|reflexivity]. apply N.leb_le. lia. Qed.

Lemma within_succ d k : is_zero d = false -> within d (k + 1) = within (decrement d) k.
Proof.
  destruct d as [n|]; cbn [within decrement is_zero]; [|reflexivity].
  intros Hz. assert (n <> 0) by (destruct n; [discriminate | lia]).
  destruct (N.leb_spec (k + 1) n), (N.leb_spec k (N.pred n)); try reflexivity; lia.
Qed.

Lemma within_succ_zero d k : is_zero d = true -> within d (k + 1) = false.
Proof.
  destruct d as [[|n]|]; cbn [is_zero]; try discriminate. intros _. cbn [within].
  apply N.leb_gt. lia.
Qed.

Lemma appends_app a b : appends (a ++ b) = appends a ++ appends b.
Proof. unfold appends. apply flat_map_app. Qed.

Lemma appends_flat_map {A} (f : A -> list item) l :
  appends (flat_map f l) = flat_map (fun x => appends (f x)) l.
Proof.
  induction l as [|x l IH]; [reflexivity|]. cbn [flat_map]. rewrite appends_app, IH. reflexivity.
Qed.

Lemma filter_flat_map {A B} (f : B -> bool) (g : A -> list B) l :
  filter f (flat_map g l) = flat_map (fun x => filter f (g x)) l.
Proof.
  induction l as [|x l IH]; [reflexivity|]. cbn [flat_map]. rewrite filter_app, IH. reflexivity.
Qed.

Lemma filter_map_comm {A B} (f : B -> bool) (h : A -> B) l :
  filter f (map h l) = map h (filter (fun x => f (h x)) l).
Proof.
  induction l as [|x l IH]; [reflexivity|]. cbn [map filter]. rewrite IH.
  destruct (f (h x)); reflexivity.
Qed.

Lemma map_flat_map {A B C} (h : B -> C) (g : A -> list B) l :
  map h (flat_map g l) = flat_map (fun x => map h (g x)) l.
Proof.
  induction l as [|x l IH]; [reflexivity|]. cbn [flat_map]. rewrite map_app, IH. reflexivity.
Qed.

Lemma flat_map_ext_Forall {A B} (f g : A -> list B) l :
  Forall (fun x => f x = g x) l -> flat_map f l = flat_map g l.
Proof.
  induction 1 as [|x l Hx _ IH]; [reflexivity|]. cbn [flat_map]. rewrite Hx, IH. reflexivity.
Qed.

Definition leaf_sel (d : depth) (p : rpath) (t : tree) : list (rpath * src) :=
  map (fun x => (p ++ fst x, snd (snd x)))
      (filter (fun x => within d (fst (snd x))) (leaves t)).

Lemma collect_rec_depth t : forall d p, appends (collect_rec d p t) = leaf_sel d p t.
Proof.
  induction t as [b|r| |es IH] using tree_ind'; intros d p; unfold leaf_sel.
  - cbn [collect_rec appends flat_map leaves filter fst snd]. rewrite within_zero.
    cbn [map fst snd app]. rewrite app_nil_r. reflexivity.
  - cbn [collect_rec appends flat_map leaves filter fst snd]. rewrite within_zero.
    cbn [map fst snd app]. rewrite app_nil_r. reflexivity.
  - reflexivity.
  - rewrite collect_rec_dir, leaves_dir. rewrite filter_flat_map, map_flat_map.
    destruct (is_zero d) eqn:Hz.
    + cbn [appends flat_map app]. symmetry.
      generalize (rev es). intros l. induction l as [|e l IHl]; [reflexivity|].
      cbn [flat_map]. rewrite IHl, app_nil_r. rewrite filter_map_comm.
      rewrite (filter_ext _ (fun _ => false)).
      * clear. induction (leaves (snd e)) as [|x l IH]; [reflexivity|]. cbn [filter]. exact IH.
      * intros x. unfold bump. cbn [fst snd]. apply within_succ_zero. exact Hz.
    + unfold children_items. rewrite appends_flat_map.
      apply flat_map_ext_Forall. apply Forall_rev.
      eapply Forall_impl; [|exact IH]. intros [n c] Hc. cbn [fst snd] in *.
      rewrite Hc. unfold leaf_sel. rewrite filter_map_comm, map_map.
      assert (E : filter (fun x => within d (fst (snd (bump n x)))) (leaves c)
                  = filter (fun x => within (decrement d) (fst (snd x))) (leaves c)).
      { apply filter_ext. intros x. unfold bump. cbn [fst snd]. apply within_succ. exact Hz. }
      rewrite E. apply map_ext. intros x. unfold bump. cbn [fst snd].
      rewrite <- app_assoc. reflexivity.
Qed.

Lemma collect_depth d p t : appends (collect d p t) = leaf_sel d p t.
Proof. rewrite collect_eq_rec. apply collect_rec_depth. Qed.

Lemma collect_depth_iff d p t q s :
  In (q, s) (appends (collect d p t)) <->
  exists r k, q = p ++ r /\ In (r, (k, s)) (leaves t) /\ within d k = true.
Proof.
  rewrite collect_depth. unfold leaf_sel. rewrite in_map_iff. split.
  - intros [[r [k s']] [E H]]. cbn [fst snd] in E. inversion E; subst.
    apply filter_In in H as [H1 H2]. cbn [fst snd] in H2. exists r, k. auto.
  - intros [r [k [-> [H1 H2]]]]. exists (r, (k, s)). split; [reflexivity|].
    apply filter_In. split; [exact H1 | exact H2].
Qed.

Lemma collect_infinite p t :
  appends (collect Infinite p t) = map (fun x => (p ++ fst x, snd (snd x))) (leaves t).
Proof.
  rewrite collect_depth. unfold leaf_sel. f_equal.
  induction (leaves t) as [|x l IH]; [reflexivity|]. cbn [filter within] in *. f_equal. exact IH.
Qed.

(* ================================================================== de-duplication *)

Lemma NoDup_app_single {A} (l : list A) (x : A) : NoDup l -> ~ In x l -> NoDup (l ++ [x]).
Proof.
  intros Hnd Hx. induction Hnd as [|y l Hy Hnd IH]; cbn [app].
  - constructor; [intros [] | constructor].
  - constructor.
    + rewrite in_app_iff. cbn [In]. intros [H|[H|[]]]; [contradiction|].
      apply Hx. left. symmetry. exact H.
    + apply IH. intros H. apply Hx. right. exact H.
Qed.

Lemma mem_fresh_equiv ops : forall s1 s2,
  (forall p, In p s1 <-> In p s2) -> mem_fresh s1 ops = mem_fresh s2 ops.
Proof.
  induction ops as [|o ops IH]; intros s1 s2 H; [reflexivity|].
  destruct o as [p b|p c|]; cbn [mem_fresh].
  - assert (E : mem_path p s1 = mem_path p s2).
    { destruct (mem_path p s1) eqn:E1, (mem_path p s2) eqn:E2; try reflexivity.
      - apply mem_path_In in E1. apply H in E1. apply mem_path_In in E1. congruence.
      - apply mem_path_In in E2. apply H in E2. apply mem_path_In in E2. congruence. }
    rewrite E. f_equal. apply IH. intros q. cbn [In]. rewrite H. reflexivity.
  - apply IH. intros q. cbn [In]. rewrite H. reflexivity.
  - apply IH. exact H.
Qed.

Definition wins (ops : list op) (p : rpath) (c : content) : Prop :=
  exists o, first_mention p ops = Some o /\ op_content o = Some c.

Lemma first_mention_cons p o ops :
  first_mention p (o :: ops) = if mentions p o then Some o else first_mention p ops.
Proof. reflexivity. Qed.

Lemma run_ops_spec ops : forall es a es' a',
  (forall p, In p a <-> In p (map fst es)) -> NoDup (map fst es) -> mem_fresh a ops = true ->
  run_ops (es, a) ops = Some (es', a') ->
  NoDup (map fst es') /\
  exists new, es' = es ++ new /\
              forall p c, In (p, c) new <-> (~ In p a /\ wins ops p c).
Proof.
  induction ops as [|o ops IH]; intros es a es' a' Hset Hnd Hfresh Hrun.
  - cbn [run_ops] in Hrun. inversion Hrun; subst. split; [exact Hnd|].
    exists []. split; [symmetry; apply app_nil_r|]. intros p c. split; [intros []|].
    intros [_ [o [H _]]]. discriminate.
  - assert (Hadd : forall p c0,
               ~ In p a -> mem_fresh (p :: a) ops = true ->
               run_ops (es ++ [(p, c0)], p :: a) ops = Some (es', a') ->
               (forall q c, wins (o :: ops) q c <->
                            if path_eqb q p then c = c0 else wins ops q c) ->
               NoDup (map fst es') /\
               exists new, es' = es ++ new /\
                           forall q c, In (q, c) new <-> (~ In q a /\ wins (o :: ops) q c)).
    { intros p c0 Hnotin Hfr Hr Hw.
      destruct (IH (es ++ [(p, c0)]) (p :: a) es' a') as [Hnd' [new [Hes' Hnew]]]; auto.
      - intros q. rewrite map_app, in_app_iff. cbn [map fst In]. rewrite Hset. tauto.
      - rewrite map_app. cbn [map fst]. apply NoDup_app_single; [exact Hnd|].
        intros Hin. apply Hnotin. apply Hset. exact Hin.
      - split; [exact Hnd'|]. exists ((p, c0) :: new). split.
        + rewrite Hes', <- app_assoc. reflexivity.
        + intros q c. cbn [In]. rewrite Hnew, Hw. cbn [In].
          destruct (path_eqb q p) eqn:E.
          * apply path_eqb_eq in E. subst q. split.
            -- intros [H|[H _]]; [inversion H; subst; auto | exfalso; apply H; left; reflexivity].
            -- intros [_ ->]. left; reflexivity.
          * apply path_eqb_neq in E. split.
            -- intros [H|[H1 H2]]; [inversion H; subst; contradiction|]. split; [tauto | exact H2].
            -- intros [H1 H2]. right. split; [|exact H2]. intros [H|H]; [congruence | contradiction]. }
    destruct o as [p b|p c0|].
    + cbn [mem_fresh] in Hfresh. apply andb_true_iff in Hfresh as [Hf1 Hf2].
      apply negb_true_iff, mem_path_false in Hf1.
      cbn [run_ops fst snd] in Hrun.
      apply (Hadd p (CFile b)); auto.
      intros q c. unfold wins. rewrite first_mention_cons. unfold mentions at 1. cbn [op_path].
      destruct (path_eqb q p).
      * split; [intros [o [H1 H2]]; inversion H1; subst; cbn [op_content] in H2; congruence|].
        intros ->. eexists; split; reflexivity.
      * reflexivity.
    + cbn [mem_fresh] in Hfresh. cbn [run_ops fst snd] in Hrun.
      destruct (mem_path p a) eqn:Hm.
      * apply mem_path_In in Hm.
        destruct (IH es a es' a') as [Hnd' [new [Hes' Hnew]]]; auto.
        { rewrite <- Hfresh. apply mem_fresh_equiv. intros q. cbn [In]. split; [tauto|].
          intros [<-|H]; auto. }
        split; [exact Hnd'|]. exists new. split; [exact Hes'|].
        intros q c. rewrite Hnew. unfold wins. rewrite first_mention_cons.
        unfold mentions at 1. cbn [op_path].
        destruct (path_eqb q p) eqn:E; [|reflexivity].
        apply path_eqb_eq in E. subst q. split; intros [H _]; contradiction.
      * apply mem_path_false in Hm. destruct c0 as [c0|]; [|discriminate].
        apply (Hadd p c0); auto.
        intros q c. unfold wins. rewrite first_mention_cons. unfold mentions at 1. cbn [op_path].
        destruct (path_eqb q p).
        -- split; [intros [o [H1 H2]]; inversion H1; subst; cbn [op_content] in H2; congruence|].
           intros ->. eexists; split; reflexivity.
        -- reflexivity.
    + discriminate.
Qed.
