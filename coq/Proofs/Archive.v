(* Lemmas for C19 (archives). *)
From NextestModel Require Import Base.Str Model.Archive Proofs.StrFacts.
From NextestModel Require Import Base.Tac.
Open Scope N_scope.

(* ================================================================== paths *)

Lemma path_eqb_eq (a b : rpath) : path_eqb a b = true <-> a = b.
Proof.
  revert b; induction a as [|x a IH]; intros [|y b]; cbn [path_eqb]; split; intros H;
    try discriminate; try reflexivity.
  - apply andb_true_iff in H as [H1 H2]. apply str_eqb_eq in H1. apply IH in H2. congruence.
  - inversion H; subst. apply andb_true_iff; split; [apply str_eqb_refl | apply IH; reflexivity].
Qed.

Lemma path_eqb_refl (a : rpath) : path_eqb a a = true.
Proof. apply path_eqb_eq; reflexivity. Qed.

Lemma path_eqb_neq (a b : rpath) : path_eqb a b = false <-> a <> b.
Proof.
  split.
  - intros H E. apply path_eqb_eq in E. congruence.
  - intros H. destruct (path_eqb a b) eqn:E; [|reflexivity]. apply path_eqb_eq in E. contradiction.
Qed.

Lemma mem_path_In (p : rpath) (l : list rpath) : mem_path p l = true <-> In p l.
Proof.
  induction l as [|q l IH]; cbn [mem_path In].
  - split; [discriminate | tauto].
  - rewrite orb_true_iff, IH, path_eqb_eq. split; intros [H|H]; auto.
Qed.

Lemma mem_path_false (p : rpath) (l : list rpath) : mem_path p l = false <-> ~ In p l.
Proof.
  split.
  - intros H Hin. apply mem_path_In in Hin. congruence.
  - intros H. destruct (mem_path p l) eqn:E; [|reflexivity]. apply mem_path_In in E. contradiction.
Qed.

Lemma path_prefix_spec (p q : rpath) : path_prefix p q = true <-> exists r, q = p ++ r.
Proof.
  revert q; induction p as [|x p IH]; intros q; cbn [path_prefix].
  - split; [intros _; exists q; reflexivity | reflexivity].
  - destruct q as [|y q].
    + split; [discriminate | intros [r H]; discriminate].
    + rewrite andb_true_iff, str_eqb_eq, IH. split.
      * intros [-> [r ->]]. exists r; reflexivity.
      * intros [r H]. inversion H; subst. split; [reflexivity | exists r; reflexivity].
Qed.

Lemma path_prefix_app (p r : rpath) : path_prefix p (p ++ r) = true.
Proof. apply path_prefix_spec; exists r; reflexivity. Qed.

(* ================================================================== the walk *)

Section TreeInd.
  Variable P : tree -> Prop.
  Hypothesis HF : forall b, P (File b).
  Hypothesis HS : forall r, P (Symlink r).
  Hypothesis HO : P Other.
  Hypothesis HD : forall es, Forall (fun e => P (snd e)) es -> P (Dir es).

  Fixpoint tree_ind' (t : tree) : P t :=
    match t with
    | File b => HF b
    | Symlink r => HS r
    | Other => HO
    | Dir es =>
        HD es ((fix go (es : list (name * tree)) : Forall (fun e => P (snd e)) es :=
                  match es with
                  | [] => Forall_nil _
                  | (n, c) :: es' => Forall_cons (n, c) (tree_ind' c) (go es')
                  end) es)
    end.
End TreeInd.

Definition children_items (d : depth) (p : rpath) (es : list (name * tree)) : list item :=
  flat_map (fun e : name * tree => collect_rec (decrement d) (p ++ [fst e]) (snd e)) (rev es).

Lemma collect_rec_dir d p es :
  collect_rec d p (Dir es) = if is_zero d then [IDepthExceeded p] else children_items d p es.
Proof.
  cbn [collect_rec]. destruct (is_zero d); [reflexivity|]. unfold children_items.
  induction es as [|[n c] es IH]; [reflexivity|].
  cbn [rev fst snd]. rewrite flat_map_app. cbn [flat_map fst snd]. rewrite app_nil_r.
  rewrite <- IH. reflexivity.
Qed.

Fixpoint sizes (es : list (name * tree)) : nat :=
  match es with [] => O | e :: es' => (tree_size (snd e) + sizes es')%nat end.

Lemma tree_size_dir es : tree_size (Dir es) = S (sizes es).
Proof.
  cbn [tree_size]. f_equal. induction es as [|[n c] es IH]; [reflexivity|].
  cbn [sizes snd]. rewrite <- IH. reflexivity.
Qed.

Lemma tree_size_pos t : (1 <= tree_size t)%nat.
Proof. destruct t; cbn [tree_size]; lia. Qed.

Fixpoint stack_size (st : list frame) : nat :=
  match st with [] => O | fr :: st' => (tree_size (snd (snd fr)) + stack_size st')%nat end.

Definition frame_items (fr : frame) : list item :=
  collect_rec (fst fr) (fst (snd fr)) (snd (snd fr)).

Lemma stack_size_app a b : stack_size (a ++ b) = (stack_size a + stack_size b)%nat.
Proof. induction a as [|x a IH]; cbn [app stack_size] in *; [reflexivity|]. rewrite IH. lia. Qed.

Lemma stack_size_rev a : stack_size (rev a) = stack_size a.
Proof.
  induction a as [|x a IH]; [reflexivity|]. cbn [rev]. rewrite stack_size_app, IH.
  cbn [stack_size]. lia.
Qed.

Lemma stack_size_children d p es :
  stack_size (map (fun e : name * tree => (decrement d, (p ++ [fst e], snd e))) es) = sizes es.
Proof.
  induction es as [|e es IH]; [reflexivity|].
  cbn [map stack_size sizes snd] in *. rewrite IH. reflexivity.
Qed.

Lemma walk_flat_map fuel : forall st,
  (stack_size st <= fuel)%nat -> walk fuel st = Some (flat_map frame_items st).
Proof.
  induction fuel as [|f IH]; intros st Hsz.
  - destruct st as [|[d [p t]] st']; [reflexivity|].
    cbn [stack_size snd] in Hsz. pose proof (tree_size_pos t). lia.
  - destruct st as [|[d [p t]] st']; [reflexivity|].
    cbn [stack_size snd] in Hsz.
    cbn [walk flat_map]. unfold frame_items at 1. cbn [fst snd].
    destruct t as [b|r|es|].
    + rewrite IH by (cbn [tree_size] in Hsz; lia). reflexivity.
    + rewrite IH by (cbn [tree_size] in Hsz; lia). reflexivity.
    + rewrite collect_rec_dir. rewrite tree_size_dir in Hsz.
      destruct (is_zero d).
      * rewrite IH by lia. reflexivity.
      * unfold push_children. rewrite rev_append_rev.
        rewrite IH.
        2:{ rewrite stack_size_app, stack_size_rev, stack_size_children. lia. }
        rewrite flat_map_app. f_equal. f_equal.
        unfold children_items. rewrite <- map_rev.
        generalize (rev es). intros l. induction l as [|e l IHl]; [reflexivity|].
        cbn [map flat_map]. rewrite IHl. reflexivity.
    + rewrite IH by (cbn [tree_size] in Hsz; lia). reflexivity.
Qed.

Lemma collect_eq_rec d p t : collect d p t = collect_rec d p t.
Proof.
  unfold collect. rewrite walk_flat_map.
  - cbn [flat_map]. unfold frame_items. cbn [fst snd]. apply app_nil_r.
  - cbn [stack_size snd]. lia.
Qed.

(* ---- what the depth limit means *)

Definition bump (n : name) (x : rpath * (N * src)) : rpath * (N * src) :=
  (n :: fst x, (fst (snd x) + 1, snd (snd x))).

Lemma leaves_dir es :
  leaves (Dir es) = flat_map (fun e : name * tree => map (bump (fst e)) (leaves (snd e))) (rev es).
Proof.
  cbn [leaves]. induction es as [|[n c] es IH]; [reflexivity|].
  cbn [rev fst snd]. rewrite flat_map_app. cbn [flat_map fst snd]. rewrite app_nil_r.
  rewrite <- IH. reflexivity.
Qed.

Lemma within_zero d : within d 0 = true.
Proof. destruct d as [n|]; cbn [within]; [|reflexivity]. apply N.leb_le. lia. Qed.

Lemma within_succ d k : is_zero d = false -> within d (k + 1) = within (decrement d) k.
Proof.
  destruct d as [n|]; cbn [within decrement is_zero]; [|reflexivity].
  intros Hz. assert (n <> 0) by (destruct n; [discriminate | lia]).
  destruct (N.leb_spec (k + 1) n), (N.leb_spec k (N.pred n)); try reflexivity; lia.
Qed.

Lemma within_succ_zero d k : is_zero d = true -> within d (k + 1) = false.
Proof.
  destruct d as [[|n]|]; cbn [is_zero]; try discriminate. intros _. cbn [within].
  apply N.leb_gt. lia.
Qed.

Lemma appends_app a b : appends (a ++ b) = appends a ++ appends b.
Proof. unfold appends. apply flat_map_app. Qed.

Lemma appends_flat_map {A} (f : A -> list item) l :
  appends (flat_map f l) = flat_map (fun x => appends (f x)) l.
Proof.
  induction l as [|x l IH]; [reflexivity|]. cbn [flat_map]. rewrite appends_app, IH. reflexivity.
Qed.

Lemma filter_flat_map {A B} (f : B -> bool) (g : A -> list B) l :
  filter f (flat_map g l) = flat_map (fun x => filter f (g x)) l.
Proof.
  induction l as [|x l IH]; [reflexivity|]. cbn [flat_map]. rewrite filter_app, IH. reflexivity.
Qed.

Lemma filter_map_comm {A B} (f : B -> bool) (h : A -> B) l :
  filter f (map h l) = map h (filter (fun x => f (h x)) l).
Proof.
  induction l as [|x l IH]; [reflexivity|]. cbn [map filter]. rewrite IH.
  destruct (f (h x)); reflexivity.
Qed.

Lemma map_flat_map {A B C} (h : B -> C) (g : A -> list B) l :
  map h (flat_map g l) = flat_map (fun x => map h (g x)) l.
Proof.
  induction l as [|x l IH]; [reflexivity|]. cbn [flat_map]. rewrite map_app, IH. reflexivity.
Qed.

Lemma flat_map_ext_Forall {A B} (f g : A -> list B) l :
  Forall (fun x => f x = g x) l -> flat_map f l = flat_map g l.
Proof.
  induction 1 as [|x l Hx _ IH]; [reflexivity|]. cbn [flat_map]. rewrite Hx, IH. reflexivity.
Qed.

Definition leaf_sel (d : depth) (p : rpath) (t : tree) : list (rpath * src) :=
  map (fun x => (p ++ fst x, snd (snd x)))
      (filter (fun x => within d (fst (snd x))) (leaves t)).

Lemma collect_rec_depth t : forall d p, appends (collect_rec d p t) = leaf_sel d p t.
Proof.
  induction t as [b|r| |es IH] using tree_ind'; intros d p; unfold leaf_sel.
  - cbn [collect_rec appends flat_map leaves filter fst snd]. rewrite within_zero.
    cbn [map fst snd app]. rewrite app_nil_r. reflexivity.
  - cbn [collect_rec appends flat_map leaves filter fst snd]. rewrite within_zero.
    cbn [map fst snd app]. rewrite app_nil_r. reflexivity.
  - reflexivity.
  - rewrite collect_rec_dir, leaves_dir. rewrite filter_flat_map, map_flat_map.
    destruct (is_zero d) eqn:Hz.
    + cbn [appends flat_map app]. symmetry.
      generalize (rev es). intros l. induction l as [|e l IHl]; [reflexivity|].
      cbn [flat_map]. rewrite IHl, app_nil_r. rewrite filter_map_comm.
      rewrite (filter_ext _ (fun _ => false)).
      * clear. induction (leaves (snd e)) as [|x l IH]; [reflexivity|]. cbn [filter]. exact IH.
      * intros x. unfold bump. cbn [fst snd]. apply within_succ_zero. exact Hz.
    + unfold children_items. rewrite appends_flat_map.
      apply flat_map_ext_Forall. apply Forall_rev.
      eapply Forall_impl; [|exact IH]. intros [n c] Hc. cbn [fst snd] in *.
      rewrite Hc. unfold leaf_sel. rewrite filter_map_comm, map_map.
      assert (E : filter (fun x => within d (fst (snd (bump n x)))) (leaves c)
                  = filter (fun x => within (decrement d) (fst (snd x))) (leaves c)).
      { apply filter_ext. intros x. unfold bump. cbn [fst snd]. apply within_succ. exact Hz. }
      rewrite E. apply map_ext. intros x. unfold bump. cbn [fst snd].
      rewrite <- app_assoc. reflexivity.
Qed.

Lemma collect_depth d p t : appends (collect d p t) = leaf_sel d p t.
Proof. rewrite collect_eq_rec. apply collect_rec_depth. Qed.

Lemma collect_depth_iff d p t q s :
  In (q, s) (appends (collect d p t)) <->
  exists r k, q = p ++ r /\ In (r, (k, s)) (leaves t) /\ within d k = true.
Proof.
  rewrite collect_depth. unfold leaf_sel. rewrite in_map_iff. split.
  - intros [[r [k s']] [E H]]. cbn [fst snd] in E. inversion E; subst.
    apply filter_In in H as [H1 H2]. cbn [fst snd] in H2. exists r, k. auto.
  - intros [r [k [-> [H1 H2]]]]. exists (r, (k, s)). split; [reflexivity|].
    apply filter_In. split; [exact H1 | exact H2].
Qed.

Lemma collect_infinite p t :
  appends (collect Infinite p t) = map (fun x => (p ++ fst x, snd (snd x))) (leaves t).
Proof.
  rewrite collect_depth. unfold leaf_sel. f_equal.
  induction (leaves t) as [|x l IH]; [reflexivity|]. cbn [filter within] in *. f_equal. exact IH.
Qed.

(* ================================================================== de-duplication *)

Lemma NoDup_app_single {A} (l : list A) (x : A) : NoDup l -> ~ In x l -> NoDup (l ++ [x]).
Proof.
  intros Hnd Hx. induction Hnd as [|y l Hy Hnd IH]; cbn [app].
  - constructor; [intros [] | constructor].
  - constructor.
    + rewrite in_app_iff. cbn [In]. intros [H|[H|[]]]; [contradiction|].
      apply Hx. left. symmetry. exact H.
    + apply IH. intros H. apply Hx. right. exact H.
Qed.

Lemma mem_fresh_equiv ops : forall s1 s2,
  (forall p, In p s1 <-> In p s2) -> mem_fresh s1 ops = mem_fresh s2 ops.
Proof.
  induction ops as [|o ops IH]; intros s1 s2 H; [reflexivity|].
  destruct o as [p b|p c|]; cbn [mem_fresh].
  - assert (E : mem_path p s1 = mem_path p s2).
    { destruct (mem_path p s1) eqn:E1, (mem_path p s2) eqn:E2; try reflexivity.
      - apply mem_path_In in E1. apply H in E1. apply mem_path_In in E1. congruence.
      - apply mem_path_In in E2. apply H in E2. apply mem_path_In in E2. congruence. }
    rewrite E. f_equal. apply IH. intros q. cbn [In]. rewrite H. reflexivity.
  - apply IH. intros q. cbn [In]. rewrite H. reflexivity.
  - apply IH. exact H.
Qed.

Definition wins (ops : list op) (p : rpath) (c : content) : Prop :=
  exists o, first_mention p ops = Some o /\ op_content o = Some c.

Lemma first_mention_cons p o ops :
  first_mention p (o :: ops) = if mentions p o then Some o else first_mention p ops.
Proof. reflexivity. Qed.

Lemma run_ops_spec ops : forall es a es' a',
  (forall p, In p a <-> In p (map fst es)) -> NoDup (map fst es) -> mem_fresh a ops = true ->
  run_ops (es, a) ops = Some (es', a') ->
  NoDup (map fst es') /\
  exists new, es' = es ++ new /\
              forall p c, In (p, c) new <-> (~ In p a /\ wins ops p c).
Proof.
  induction ops as [|o ops IH]; intros es a es' a' Hset Hnd Hfresh Hrun.
  - cbn [run_ops] in Hrun. inversion Hrun; subst. split; [exact Hnd|].
    exists []. split; [symmetry; apply app_nil_r|]. intros p c. split; [intros []|].
    intros [_ [o [H _]]]. discriminate.
  - assert (Hadd : forall p c0,
               ~ In p a -> mem_fresh (p :: a) ops = true ->
               run_ops (es ++ [(p, c0)], p :: a) ops = Some (es', a') ->
               (forall q c, wins (o :: ops) q c <->
                            if path_eqb q p then c = c0 else wins ops q c) ->
               NoDup (map fst es') /\
               exists new, es' = es ++ new /\
                           forall q c, In (q, c) new <-> (~ In q a /\ wins (o :: ops) q c)).
    { intros p c0 Hnotin Hfr Hr Hw.
      destruct (IH (es ++ [(p, c0)]) (p :: a) es' a') as [Hnd' [new [Hes' Hnew]]]; auto.
      - intros q. rewrite map_app, in_app_iff. cbn [map fst In]. rewrite Hset. tauto.
      - rewrite map_app. cbn [map fst]. apply NoDup_app_single; [exact Hnd|].
        intros Hin. apply Hnotin. apply Hset. exact Hin.
      - split; [exact Hnd'|]. exists ((p, c0) :: new). split.
        + rewrite Hes', <- app_assoc. reflexivity.
        + intros q c. cbn [In]. rewrite Hnew, Hw. cbn [In].
          destruct (path_eqb q p) eqn:E.
          * apply path_eqb_eq in E. subst q. split.
            -- intros [H|[H _]]; [inversion H; subst; auto | exfalso; apply H; left; reflexivity].
            -- intros [_ ->]. left; reflexivity.
          * apply path_eqb_neq in E. split.
            -- intros [H|[H1 H2]]; [inversion H; subst; contradiction|]. split; [tauto | exact H2].
            -- intros [H1 H2]. right. split; [|exact H2]. intros [H|H]; [congruence | contradiction]. }
    destruct o as [p b|p c0|].
    + cbn [mem_fresh] in Hfresh. apply andb_true_iff in Hfresh as [Hf1 Hf2].
      apply negb_true_iff, mem_path_false in Hf1.
      cbn [run_ops fst snd] in Hrun.
      apply (Hadd p (CFile b)); auto.
      intros q c. unfold wins. rewrite first_mention_cons. unfold mentions at 1. cbn [op_path].
      destruct (path_eqb q p).
      * split; [intros [o [H1 H2]]; inversion H1; subst; cbn [op_content] in H2; congruence|].
        intros ->. eexists; split; reflexivity.
      * reflexivity.
    + cbn [mem_fresh] in Hfresh. cbn [run_ops fst snd] in Hrun.
      destruct (mem_path p a) eqn:Hm.
      * apply mem_path_In in Hm.
        destruct (IH es a es' a') as [Hnd' [new [Hes' Hnew]]]; auto.
        { rewrite <- Hfresh. apply mem_fresh_equiv. intros q. cbn [In]. split; [tauto|].
          intros [<-|H]; auto. }
        split; [exact Hnd'|]. exists new. split; [exact Hes'|].
        intros q c. rewrite Hnew. unfold wins. rewrite first_mention_cons.
        unfold mentions at 1. cbn [op_path].
        destruct (path_eqb q p) eqn:E; [|reflexivity].
        apply path_eqb_eq in E. subst q. split; intros [H _]; contradiction.
      * apply mem_path_false in Hm. destruct c0 as [c0|]; [|discriminate].
        apply (Hadd p c0); auto.
        intros q c. unfold wins. rewrite first_mention_cons. unfold mentions at 1. cbn [op_path].
        destruct (path_eqb q p).
        -- split; [intros [o [H1 H2]]; inversion H1; subst; cbn [op_content] in H2; congruence|].
           intros ->. eexists; split; reflexivity.
        -- reflexivity.
    + discriminate.
Qed.

(* ---- the operation list of Archiver::archive never writes a path twice *)

Definition no_mem (ops : list op) : bool :=
  forallb (fun o => match o with OMem _ _ => false | _ => true end) ops.

Lemma mem_fresh_no_mem ops : forall seen, no_mem ops = true -> mem_fresh seen ops = true.
Proof.
  induction ops as [|o ops IH]; intros seen H; [reflexivity|].
  cbn [no_mem forallb] in H. apply andb_true_iff in H as [H1 H2].
  destruct o; cbn [mem_fresh]; try discriminate; apply IH; exact H2.
Qed.

Lemma no_mem_app a b : no_mem (a ++ b) = no_mem a && no_mem b.
Proof. apply forallb_app. Qed.

Lemma no_mem_map_file {A} (f : A -> rpath) (g : A -> option content) l :
  no_mem (map (fun x => OFile (f x) (g x)) l) = true.
Proof. induction l as [|x l IH]; [reflexivity|]. cbn [map no_mem forallb]. exact IH. Qed.

Lemma no_mem_flat_map {A} (f : A -> list op) l :
  (forall x, no_mem (f x) = true) -> no_mem (flat_map f l) = true.
Proof.
  intros H. induction l as [|x l IH]; [reflexivity|]. cbn [flat_map].
  rewrite no_mem_app, H, IH. reflexivity.
Qed.

Lemma no_mem_walk_ops g d p t : no_mem (walk_ops g d p t) = true.
Proof.
  unfold walk_ops. destruct (g && negb (exists_follow t)); [reflexivity|].
  destruct t as [t|]; [|reflexivity]. unfold items_ops. apply no_mem_map_file.
Qed.

Lemma meta_paths_differ : path_eqb cargo_metadata_path binaries_metadata_path = false.
Proof. vm_compute. reflexivity. Qed.

Lemma archive_ops_fresh b : mem_fresh [] (archive_ops b) = true.
Proof.
  unfold archive_ops. cbn [app mem_fresh mem_path]. rewrite meta_paths_differ. cbn [orb negb andb].
  apply mem_fresh_no_mem.
  repeat rewrite no_mem_app. repeat rewrite no_mem_map_file.
  rewrite !andb_true_iff. repeat split.
  - destruct (includes_ok (b_includes b)); reflexivity.
  - apply no_mem_flat_map. intros [[p t] o]. cbn [fst snd]. rewrite no_mem_app, no_mem_walk_ops.
    destruct o as [f|]; reflexivity.
  - apply no_mem_flat_map. intros x. apply no_mem_walk_ops.
  - apply no_mem_flat_map. intros i. destruct (include_check i) as [[|]|]; try reflexivity.
    apply no_mem_walk_ops.
Qed.

Theorem archive_no_dup_first_wins b es :
  archive b = Some es ->
  NoDup (map fst es) /\ forall p c, In (p, c) es <-> wins (archive_ops b) p c.
Proof.
  unfold archive. destruct (run_ops ([], []) (archive_ops b)) as [[es' a']|] eqn:E; [|discriminate].
  cbn [option_map fst]. intros H; inversion H; subst es'.
  destruct (run_ops_spec (archive_ops b) [] [] es a') as [Hnd [new [Hes Hnew]]].
  - intros p. reflexivity.
  - constructor.
  - apply archive_ops_fresh.
  - exact E.
  - split; [exact Hnd|]. cbn [app] in Hes. subst new. intros p c. rewrite Hnew. cbn [In]. tauto.
Qed.

(* the in-memory metadata always wins over a file of the same name under target/nextest *)
Lemma archive_metadata_wins b es :
  archive b = Some es ->
  (forall c, In (binaries_metadata_path, c) es <-> c = CFile (b_meta_binaries b)) /\
  (forall c, In (cargo_metadata_path, c) es <-> c = CFile (b_meta_cargo b)).
Proof.
  intros H. destruct (archive_no_dup_first_wins b es H) as [_ Hw]. split; intros c; rewrite Hw;
    unfold wins, archive_ops; cbn [app]; rewrite first_mention_cons; unfold mentions at 1;
    cbn [op_path].
  - rewrite path_eqb_refl. split.
    + intros [o [H1 H2]]. inversion H1; subst. cbn [op_content] in H2. congruence.
    + intros ->. eexists; split; reflexivity.
  - rewrite meta_paths_differ. rewrite first_mention_cons. unfold mentions at 1. cbn [op_path].
    rewrite path_eqb_refl. split.
    + intros [o [H1 H2]]. inversion H1; subst. cbn [op_content] in H2. congruence.
    + intros ->. eexists; split; reflexivity.
Qed.

(* ================================================================== path strings *)

Lemma pieces_noslash n : existsb (N.eqb slash) n = false -> pieces n = [n].
Proof.
  induction n as [|c n IH]; intros H; [reflexivity|].
  cbn [existsb] in H. apply orb_false_iff in H as [H1 H2].
  cbn [pieces]. rewrite N.eqb_sym, H1. rewrite IH by exact H2. reflexivity.
Qed.

Lemma pieces_app n rest :
  existsb (N.eqb slash) n = false -> pieces (n ++ slash :: rest) = n :: pieces rest.
Proof.
  induction n as [|c n IH]; intros H.
  - cbn [app pieces]. rewrite N.eqb_refl. reflexivity.
  - cbn [existsb] in H. apply orb_false_iff in H as [H1 H2].
    cbn [app pieces]. rewrite N.eqb_sym, H1. rewrite IH by exact H2. reflexivity.
Qed.

Lemma pieces_render p :
  p <> [] -> Forall (fun n => existsb (N.eqb slash) n = false) p -> pieces (render_rel p) = p.
Proof.
  induction p as [|n p IH]; intros Hne Hall; [contradiction|].
  inversion Hall as [|? ? Hn Hp]; subst.
  destruct p as [|m p'].
  - cbn [render_rel]. apply pieces_noslash. exact Hn.
  - change (render_rel (n :: m :: p')) with (n ++ slash :: render_rel (m :: p')).
    rewrite pieces_app by exact Hn. rewrite IH; [reflexivity | discriminate | exact Hp].
Qed.

Lemma normal_name_noslash n : normal_name n = true -> existsb (N.eqb slash) n = false.
Proof.
  unfold normal_name. rewrite !andb_true_iff. intros [[[H _] _] _].
  apply negb_true_iff in H. exact H.
Qed.

Lemma piece_comps_normal n : normal_name n = true -> piece_comps n = [CNormal n].
Proof.
  unfold normal_name, piece_comps. rewrite !andb_true_iff. intros [[[_ H1] H2] H3].
  apply negb_true_iff in H1, H2, H3. rewrite H1, H2, H3. reflexivity.
Qed.

Lemma flat_map_piece_comps p :
  Forall (fun n => normal_name n = true) p -> flat_map piece_comps p = map CNormal p.
Proof.
  induction 1 as [|n p Hn _ IH]; [reflexivity|]. cbn [flat_map map].
  rewrite piece_comps_normal by exact Hn. rewrite IH. reflexivity.
Qed.

Lemma target_name_normal : normal_name target_name = true.
Proof. vm_compute. reflexivity. Qed.

Lemma head_comps_target s : head_comps (target_name ++ s) = [].
Proof. reflexivity. Qed.

Lemma render_rel_target rest : exists s, render_rel (target_name :: rest) = target_name ++ s.
Proof.
  destruct rest as [|m r].
  - exists []. cbn [render_rel]. symmetry. apply app_nil_r.
  - exists (slash :: render_rel (m :: r)). reflexivity.
Qed.

Lemma components_render rest :
  Forall (fun n => normal_name n = true) rest ->
  components (render_rel (target_name :: rest)) = map CNormal (target_name :: rest).
Proof.
  intros H. unfold components.
  destruct (render_rel_target rest) as [s Hs]. rewrite Hs at 1. rewrite head_comps_target.
  cbn [app]. rewrite pieces_render.
  - apply flat_map_piece_comps. constructor; [apply target_name_normal | exact H].
  - discriminate.
  - constructor; [apply normal_name_noslash, target_name_normal|].
    eapply Forall_impl; [|exact H]. intros n. apply normal_name_noslash.
Qed.

(* ---- where an accepted entry goes *)

Lemma all_normal_map cs : forallb is_normal cs = true -> exists ns, cs = map CNormal ns.
Proof.
  induction cs as [|c cs IH]; intros H; [exists []; reflexivity|].
  cbn [forallb] in H. apply andb_true_iff in H as [H1 H2].
  destruct c; try discriminate. destruct (IH H2) as [ns ->]. exists (n :: ns). reflexivity.
Qed.

Lemma dest_of_comps_normals ns : forall acc, dest_of_comps acc (map CNormal ns) = Some (acc ++ ns).
Proof.
  induction ns as [|n ns IH]; intros acc; cbn [map dest_of_comps].
  - rewrite app_nil_r. reflexivity.
  - rewrite IH, <- app_assoc. reflexivity.
Qed.

Lemma normalise_from_normals ns : forall acc, normalise_from acc (map CNormal ns) = acc ++ ns.
Proof.
  induction ns as [|n ns IH]; intros acc; cbn [map normalise_from].
  - rewrite app_nil_r. reflexivity.
  - rewrite IH, <- app_assoc. reflexivity.
Qed.

Lemma path_ok_components s :
  path_ok s = true -> exists rest, components s = map CNormal (target_name :: rest).
Proof.
  unfold path_ok, path_ok_target. intros H. apply andb_true_iff in H as [H1 H2].
  destruct (all_normal_map _ H2) as [ns Hns]. rewrite Hns in H1.
  destruct ns as [|n ns]; [discriminate|]. cbn [map] in H1. apply str_eqb_eq in H1. subst n.
  exists ns. exact Hns.
Qed.

(* C19_confined, lexical part: an accepted path, joined to ANY destination, normalises to a path
   below dest/target, and that is where tar's unpack_in puts it *)
Lemma confined dest s :
  path_ok s = true ->
  exists rest, dest_of dest s = Some (dest ++ target_name :: rest)
               /\ normalise (joined dest s) = dest ++ target_name :: rest.
Proof.
  intros H. destruct (path_ok_components s H) as [rest Hc]. exists rest. split.
  - unfold dest_of. rewrite Hc. exact (dest_of_comps_normals (target_name :: rest) dest).
  - unfold normalise, joined. rewrite Hc. cbn [normalise_from]. rewrite <- map_app.
    exact (normalise_from_normals (dest ++ target_name :: rest) []).
Qed.

(* tar's own lexical guarantee, for every path string: never above dst *)
Lemma dest_of_comps_prefix cs : forall acc q, dest_of_comps acc cs = Some q -> exists r, q = acc ++ r.
Proof.
  induction cs as [|c cs IH]; intros acc q H; cbn [dest_of_comps] in H.
  - inversion H; subst. exists []. symmetry. apply app_nil_r.
  - destruct c; try discriminate; try (apply IH; exact H).
    destruct (IH _ _ H) as [r ->]. exists (n :: r). rewrite <- app_assoc. reflexivity.
Qed.

Lemma dest_of_prefix dest s q : dest_of dest s = Some q -> path_prefix dest q = true.
Proof.
  intros H. destruct (dest_of_comps_prefix _ _ _ H) as [r ->]. apply path_prefix_app.
Qed.

(* the path checks say exactly: first component `target`, all components normal *)
Lemma entry_check_zero links_ok e :
  entry_check links_ok e = 0 <->
  exists s, utf8_decode (te_raw e) = Some s /\ path_ok s = true
            /\ (links_ok = true \/ is_link (te_kind e) = false) /\ te_cksum_ok e = true.
Proof.
  unfold entry_check. destruct (utf8_decode (te_raw e)) as [s|].
  2:{ split; [discriminate | intros [s [H _]]; discriminate H]. }
  unfold path_ok.
  destruct (path_ok_target s) eqn:E1; cbn [negb andb].
  2:{ split; [discriminate|]. intros [s' [H1 [H2 _]]]. inversion H1; subst s'.
      rewrite E1 in H2. discriminate H2. }
  destruct (forallb is_normal (components s)) eqn:E2; cbn [negb].
  2:{ split; [discriminate|]. intros [s' [H1 [H2 _]]]. inversion H1; subst s'.
      rewrite E1, E2 in H2. discriminate H2. }
  destruct links_ok, (is_link (te_kind e)), (te_cksum_ok e); cbn [negb andb];
    (split;
     [ try discriminate; intros _; exists s; rewrite E1, E2; intuition congruence
     | try (intros _; reflexivity); intros [s' [_ [_ [[H|H] H']]]]; congruence ]).
Qed.

(* ================================================================== extraction *)

Definition nolinks (d : fsys) : Prop := forall p t, lookup d p <> Some (NLink t).

Lemma lookup_write d q n p :
  lookup (write d q n) p = if path_eqb p q then Some n else lookup d p.
Proof. reflexivity. Qed.

Lemma nolinks_write d q n : nolinks d -> (forall t, n <> NLink t) -> nolinks (write d q n).
Proof.
  intros Hd Hn p t. rewrite lookup_write. destruct (path_eqb p q).
  - intros H. inversion H. exact (Hn t H1).
  - apply Hd.
Qed.

Lemma resolve_nolinks d : nolinks d ->
  forall ns cur f, (length ns <= f)%nat -> resolve f d cur (map CNormal ns) = Some (cur ++ ns).
Proof.
  intros Hn. induction ns as [|n ns IH]; intros cur f Hf; cbn [map].
  - destruct f; cbn [resolve]; rewrite app_nil_r; reflexivity.
  - destruct f as [|f]; [cbn [length] in Hf; lia|]. cbn [resolve].
    assert (Hf' : (length ns <= f)%nat) by (cbn [length] in Hf; lia).
    destruct (lookup d (cur ++ [n])) as [[b| |t]|] eqn:E;
      try (rewrite IH by exact Hf'; rewrite <- app_assoc; reflexivity).
    exfalso. exact (Hn _ _ E).
Qed.

Lemma realpath_nolinks d p : nolinks d -> realpath d p = Some p.
Proof. intros H. unfold realpath. rewrite resolve_nolinks; [reflexivity | exact H | lia]. Qed.

Lemma app_cons_neq {A} (l : list A) x r : l ++ x :: r <> l.
Proof.
  intros H. apply (f_equal (@length A)) in H. rewrite app_length in H. cbn [length] in H. lia.
Qed.

Lemma forallb_is_normal_map ns : forallb is_normal (map CNormal ns) = true.
Proof. induction ns as [|n ns IH]; [reflexivity|]. cbn [map forallb is_normal]. exact IH. Qed.

(* ---- the machine before the F23 repair (thru = true) on a destination without links *)

(* an accepted entry is unpacked at dest/target/rest, nowhere else *)
Lemma extract_entry_ok lo dest d te s rest :
  nolinks d -> entry_check lo te = 0 -> utf8_decode (te_raw te) = Some s ->
  components s = map CNormal (target_name :: rest) ->
  extract_entry lo true dest d te =
  match place d (dest ++ target_name :: rest) (te_kind te) (te_data te) with
  | Some d' => XOk d'
  | None => XIoError d
  end.
Proof.
  intros Hn Hc Hs Hcs. unfold extract_entry. rewrite Hc. cbn [N.eqb negb]. rewrite Hs.
  cbn [negb andb].
  unfold dest_of. rewrite Hcs. rewrite (dest_of_comps_normals (target_name :: rest) dest).
  destruct (path_eqb (dest ++ target_name :: rest) dest) eqn:E.
  { apply path_eqb_eq in E. exfalso. exact (app_cons_neq _ _ _ E). }
  unfold unpack_through.
  rewrite realpath_nolinks by exact Hn.
  rewrite removelast_app by discriminate.
  rewrite path_prefix_app. cbn [negb].
  rewrite <- removelast_app by discriminate.
  rewrite <- app_removelast_last by (intros H; destruct dest; discriminate).
  reflexivity.
Qed.

Lemma extract_entry_not_ok links_ok thru dest d e :
  entry_ok links_ok e = false ->
  extract_entry links_ok thru dest d e = XRejected (entry_check links_ok e) d.
Proof. unfold entry_ok, extract_entry. intros ->. reflexivity. Qed.

Lemma extract_entry_error_unchanged links_ok thru dest d e :
  match extract_entry links_ok thru dest d e with
  | XOk _ => True
  | XRejected _ d1 => d1 = d
  | XIoError d1 => d1 = d
  end.
Proof.
  unfold extract_entry. destruct (negb (entry_check links_ok e =? 0)); [reflexivity|].
  destruct (utf8_decode (te_raw e)) as [s|]; [|reflexivity].
  destruct (negb thru && link_on_path d dest (normal_names (components s))); [reflexivity|].
  destruct (dest_of dest s) as [q|]; [|exact I].
  destruct (path_eqb q dest); [exact I|].
  destruct thru.
  - unfold unpack_through.
    destruct (realpath d (removelast q)) as [parent|]; [|reflexivity].
    destruct (negb (path_prefix dest parent)); [reflexivity|].
    destruct (place d (parent ++ [last q []]) (te_kind e) (te_data e)); [exact I | reflexivity].
  - unfold unpack_checked.
    destruct (realpath d (dest ++ removelast (normal_names (components s)))) as [parent|];
      [|reflexivity].
    destruct (negb (path_prefix dest parent)); [reflexivity|].
    destruct (file_on_path d dest (removelast (normal_names (components s)))); [reflexivity|].
    destruct (place _ _ (te_kind e) (te_data e)); [exact I | reflexivity].
Qed.

Lemma extract_entry_fixed dest d e d' :
  nolinks d -> extract_entry false true dest d e = XOk d' ->
  d' = d \/ exists rest n, d' = write d (dest ++ target_name :: rest) n /\ (forall t, n <> NLink t).
Proof.
  intros Hn H.
  destruct (entry_check false e =? 0) eqn:E.
  2:{ unfold extract_entry in H. rewrite E in H. discriminate H. }
  apply N.eqb_eq in E. pose proof E as E0.
  apply entry_check_zero in E as [s [Hs [Hok [Hl Hck]]]].
  destruct (path_ok_components s Hok) as [rest Hcs].
  rewrite (extract_entry_ok false dest d e s rest Hn E0 Hs Hcs) in H.
  destruct Hl as [Hl|Hl]; [discriminate Hl|].
  unfold place in H.
  destruct (te_kind e) as [| |t|t]; try discriminate Hl;
    destruct (lookup d (dest ++ target_name :: rest)) as [[b| |t]|]; try discriminate H;
    inversion H; subst; auto; right; eexists; eexists; (split; [reflexivity|]);
    intros t'; cbn [node_of]; discriminate.
Qed.

Theorem extract_through_confined dest : forall es d,
  nolinks d ->
  exists w, result_fs (extract false true dest d es) = w ++ d
            /\ Forall (fun x => path_prefix (dest ++ [target_name]) (fst x) = true) w
            /\ nolinks (w ++ d).
Proof.
  induction es as [|e es IH]; intros d Hn.
  - exists []. cbn [extract result_fs app]. auto.
  - cbn [extract]. pose proof (extract_entry_error_unchanged false true dest d e) as Herr.
    destruct (extract_entry false true dest d e) as [d'|c d1|d1] eqn:E.
    + destruct (extract_entry_fixed dest d e d' Hn E) as [->|[rest [n [-> Hnl]]]].
      * apply IH. exact Hn.
      * destruct (IH (write d (dest ++ target_name :: rest) n)) as [w [Hw [Hall Hnl']]].
        { apply nolinks_write; assumption. }
        exists (w ++ [(dest ++ target_name :: rest, n)]). rewrite <- app_assoc. cbn [app].
        split; [exact Hw|]. split; [|exact Hnl'].
        apply Forall_app. split; [exact Hall|]. constructor; [|constructor]. cbn [fst].
        apply path_prefix_spec. exists rest. rewrite <- app_assoc. reflexivity.
    + subst d1. exists []. cbn [result_fs app]. auto.
    + subst d1. exists []. cbn [result_fs app]. auto.
Qed.

Theorem extract_stops_at_first_bad links_ok thru dest : forall es1 d e es2 d1,
  extract links_ok thru dest d es1 = XOk d1 -> entry_ok links_ok e = false ->
  extract links_ok thru dest d (es1 ++ e :: es2) = XRejected (entry_check links_ok e) d1.
Proof.
  induction es1 as [|x es1 IH]; intros d e es2 d1 H Hbad.
  - cbn [extract] in H. inversion H; subst. cbn [app extract].
    rewrite extract_entry_not_ok by exact Hbad. reflexivity.
  - cbn [app extract] in *. destruct (extract_entry links_ok thru dest d x); try discriminate H.
    apply IH; assumption.
Qed.

(* ---- the repaired machine (thru = false) on an ARBITRARY destination *)

Lemma normal_names_map ns : normal_names (map CNormal ns) = ns.
Proof. induction ns as [|n ns IH]; [reflexivity|]. cbn [map normal_names flat_map app]. f_equal. exact IH. Qed.

Lemma link_on_path_app d : forall a cur b,
  link_on_path d cur (a ++ b) = link_on_path d cur a || link_on_path d (cur ++ a) b.
Proof.
  induction a as [|n a IH]; intros cur b.
  - cbn [app link_on_path orb]. rewrite app_nil_r. reflexivity.
  - cbn [app link_on_path]. destruct (lookup d (cur ++ [n])) as [[x| |t]|]; try reflexivity;
      rewrite IH, <- app_assoc; reflexivity.
Qed.

Lemma resolve_no_link d : forall ns cur f,
  link_on_path d cur ns = false -> (length ns <= f)%nat ->
  resolve f d cur (map CNormal ns) = Some (cur ++ ns).
Proof.
  induction ns as [|n ns IH]; intros cur f Hl Hf; cbn [map].
  - destruct f; cbn [resolve]; rewrite app_nil_r; reflexivity.
  - destruct f as [|f]; [cbn [length] in Hf; lia|]. cbn [resolve].
    assert (Hf' : (length ns <= f)%nat) by (cbn [length] in Hf; lia).
    cbn [link_on_path] in Hl.
    destruct (lookup d (cur ++ [n])) as [[b| |t]|] eqn:E; try discriminate Hl;
      rewrite IH by assumption; rewrite <- app_assoc; reflexivity.
Qed.

Lemma realpath_no_link d p : link_on_path d [] p = false -> realpath d p = Some p.
Proof. intros H. unfold realpath. rewrite resolve_no_link; [reflexivity | exact H | lia]. Qed.

Lemma link_on_path_removelast d cur ns :
  link_on_path d cur ns = false -> link_on_path d cur (removelast ns) = false.
Proof.
  destruct ns as [|n ns]; [intros; reflexivity|]. intros H.
  rewrite (app_removelast_last n (l := n :: ns)) in H by discriminate.
  rewrite link_on_path_app in H. apply orb_false_iff in H. tauto.
Qed.

(* cur/pre for a non-empty prefix pre of ns *)
Definition chain (cur : rpath) (ns : list name) (q : rpath) : Prop :=
  exists pre r, pre <> [] /\ ns = pre ++ r /\ q = cur ++ pre.

Lemma chain_cons cur n r q : chain cur (n :: r) q <-> q = cur ++ [n] \/ chain (cur ++ [n]) r q.
Proof.
  split.
  - intros [pre [r' [Hne [Hns Hq]]]]. destruct pre as [|x pre]; [contradiction|].
    cbn [app] in Hns. inversion Hns; subst x r.
    destruct pre as [|y pre]; [left; exact Hq|].
    right. exists (y :: pre), r'. split; [discriminate|]. split; [reflexivity|].
    rewrite Hq, <- app_assoc. reflexivity.
  - intros [->|[pre [r' [Hne [-> ->]]]]].
    + exists [n], r. split; [discriminate|]. split; reflexivity.
    + exists (n :: pre), r'. split; [discriminate|]. split; [reflexivity|].
      rewrite <- app_assoc. reflexivity.
Qed.

Lemma chain_nil cur q : ~ chain cur [] q.
Proof.
  intros [pre [r [Hne [Hns _]]]]. destruct pre; [contradiction | discriminate].
Qed.

(* what ensure_dir_created adds: directories, on the chain, where nothing was *)
Lemma mkdirs_writes : forall ns d cur,
  exists w, mkdirs d cur ns = w ++ d
            /\ Forall (fun x => snd x = NDir /\ chain cur ns (fst x) /\ lookup d (fst x) = None) w.
Proof.
  induction ns as [|n r IH]; intros d cur.
  - exists []. split; [reflexivity | constructor].
  - cbn [mkdirs]. destruct (lookup d (cur ++ [n])) as [x|] eqn:E.
    + destruct (IH d (cur ++ [n])) as [w [Hw Hall]]. exists w. split; [exact Hw|].
      eapply Forall_impl; [|exact Hall]. intros [q nd] [H1 [H2 H3]]. cbn [fst snd] in *.
      split; [exact H1|]. split; [|exact H3]. apply chain_cons. right. exact H2.
    + destruct (IH (write d (cur ++ [n]) NDir) (cur ++ [n])) as [w [Hw Hall]].
      exists (w ++ [(cur ++ [n], NDir)]). rewrite <- app_assoc. split; [exact Hw|].
      apply Forall_app. split.
      * eapply Forall_impl; [|exact Hall]. intros [q nd] [H1 [H2 H3]]. cbn [fst snd] in *.
        split; [exact H1|]. split; [apply chain_cons; right; exact H2|].
        rewrite lookup_write in H3. destruct (path_eqb q (cur ++ [n])); [discriminate | exact H3].
      * constructor; [|constructor]. cbn [fst snd]. split; [reflexivity|]. split; [|exact E].
        apply chain_cons. left. reflexivity.
Qed.

Lemma lookup_app_notin w d q : ~ In q (map fst w) -> lookup (w ++ d) q = lookup d q.
Proof.
  induction w as [|[p n] w IH]; intros H; [reflexivity|]. cbn [app lookup].
  cbn [map fst In] in H. destruct (path_eqb q p) eqn:E.
  - apply path_eqb_eq in E. subst. exfalso. apply H. left. reflexivity.
  - apply IH. tauto.
Qed.

Lemma lookup_app_some w d q n :
  lookup (w ++ d) q = Some n -> In (q, n) w \/ lookup d q = Some n.
Proof.
  induction w as [|[p m] w IH]; intros H; [right; exact H|]. cbn [app lookup] in H.
  destruct (path_eqb q p) eqn:E.
  - apply path_eqb_eq in E. inversion H; subst. left. left. reflexivity.
  - destruct (IH H) as [H1|H1]; [left; right; exact H1 | right; exact H1].
Qed.

Lemma mkdirs_keeps d cur ns q n : lookup d q = Some n -> lookup (mkdirs d cur ns) q = Some n.
Proof.
  intros H. destruct (mkdirs_writes ns d cur) as [w [-> Hall]].
  rewrite lookup_app_notin; [exact H|]. intros Hin. apply in_map_iff in Hin as [[q' n'] [E Hin]].
  cbn [fst] in E. subst q'. rewrite Forall_forall in Hall. destruct (Hall _ Hin) as [_ [_ H3]].
  cbn [fst] in H3. congruence.
Qed.

Lemma mkdirs_new d cur ns q n :
  lookup (mkdirs d cur ns) q = Some n -> lookup d q = Some n \/ (n = NDir /\ chain cur ns q).
Proof.
  destruct (mkdirs_writes ns d cur) as [w [-> Hall]]. intros H.
  destruct (lookup_app_some _ _ _ _ H) as [Hin|H']; [|left; exact H'].
  rewrite Forall_forall in Hall. destruct (Hall _ Hin) as [H1 [H2 _]]. cbn [fst snd] in *.
  right. split; assumption.
Qed.

(* every path on the chain below dest/<target :: rest> lies below dest/target *)
Lemma chain_under_target dest rest q :
  chain dest (removelast (target_name :: rest)) q ->
  path_prefix (dest ++ [target_name]) q = true.
Proof.
  intros [pre [r [Hne [Hns ->]]]]. destruct pre as [|x pre]; [contradiction|].
  destruct rest as [|y rest]; [cbn [removelast] in Hns; discriminate Hns|].
  change (removelast (target_name :: y :: rest)) with (target_name :: removelast (y :: rest)) in Hns.
  cbn [app] in Hns. inversion Hns; subst x.
  apply path_prefix_spec. exists pre. rewrite <- app_assoc. reflexivity.
Qed.

(* the repaired step: an accepted entry target/rest, no link on the way, dest canonical *)
Lemma unpack_checked_ok dest d rest k data :
  dest_canonical d dest = true -> link_on_path d dest (target_name :: rest) = false ->
  unpack_checked dest d (target_name :: rest) k data =
  if file_on_path d dest (removelast (target_name :: rest)) then XIoError d
  else match place (mkdirs d dest (removelast (target_name :: rest)))
                   (dest ++ target_name :: rest) k data with
       | Some d' => XOk d'
       | None => XIoError d
       end.
Proof.
  intros Hc Hl. unfold unpack_checked.
  rewrite realpath_no_link.
  2:{ rewrite link_on_path_app. unfold dest_canonical in Hc. apply negb_true_iff in Hc.
      rewrite Hc. cbn [orb app]. apply link_on_path_removelast. exact Hl. }
  rewrite path_prefix_app. cbn [negb].
  rewrite <- app_assoc, <- app_removelast_last by discriminate. reflexivity.
Qed.

Lemma extract_entry_checked_ok lo dest d te s rest :
  dest_canonical d dest = true -> entry_check lo te = 0 -> utf8_decode (te_raw te) = Some s ->
  components s = map CNormal (target_name :: rest) ->
  extract_entry lo false dest d te =
  if link_on_path d dest (target_name :: rest) then XIoError d
  else if file_on_path d dest (removelast (target_name :: rest)) then XIoError d
  else match place (mkdirs d dest (removelast (target_name :: rest)))
                   (dest ++ target_name :: rest) (te_kind te) (te_data te) with
       | Some d' => XOk d'
       | None => XIoError d
       end.
Proof.
  intros Hcan Hc Hs Hcs. unfold extract_entry. rewrite Hc. cbn [N.eqb negb]. rewrite Hs.
  rewrite Hcs, normal_names_map. cbn [negb andb].
  destruct (link_on_path d dest (target_name :: rest)) eqn:Hl; [reflexivity|].
  unfold dest_of. rewrite Hcs. rewrite (dest_of_comps_normals (target_name :: rest) dest).
  destruct (path_eqb (dest ++ target_name :: rest) dest) eqn:E.
  { apply path_eqb_eq in E. exfalso. exact (app_cons_neq _ _ _ E). }
  apply unpack_checked_ok; assumption.
Qed.

(* under the guard and with a canonical dest, the parent tar resolves IS the lexical parent: no
   write of the repaired machine goes through a link *)
Lemma guard_makes_lexical_physical d dest ns :
  dest_canonical d dest = true -> link_on_path d dest ns = false ->
  realpath d (dest ++ removelast ns) = Some (dest ++ removelast ns).
Proof.
  intros Hc Hl. apply realpath_no_link. rewrite link_on_path_app.
  unfold dest_canonical in Hc. apply negb_true_iff in Hc. rewrite Hc. cbn [orb app].
  apply link_on_path_removelast. exact Hl.
Qed.

Definition under_target_dir (dest : rpath) (x : rpath * node) : Prop :=
  path_prefix (dest ++ [target_name]) (fst x) = true.

Lemma extract_entry_checked_writes lo dest d e d' :
  dest_canonical d dest = true -> extract_entry lo false dest d e = XOk d' ->
  exists w, d' = w ++ d /\ Forall (under_target_dir dest) w.
Proof.
  intros Hcan H.
  destruct (entry_check lo e =? 0) eqn:E.
  2:{ unfold extract_entry in H. rewrite E in H. discriminate H. }
  apply N.eqb_eq in E. pose proof E as E0.
  apply entry_check_zero in E as [s [Hs [Hok _]]].
  destruct (path_ok_components s Hok) as [rest Hcs].
  rewrite (extract_entry_checked_ok lo dest d e s rest Hcan E0 Hs Hcs) in H.
  destruct (link_on_path d dest (target_name :: rest)); [discriminate H|].
  destruct (file_on_path d dest (removelast (target_name :: rest))); [discriminate H|].
  destruct (mkdirs_writes (removelast (target_name :: rest)) d dest) as [w [Hw Hall]].
  assert (Hunder : Forall (under_target_dir dest) w).
  { eapply Forall_impl; [|exact Hall]. intros x [_ [Hch _]]. unfold under_target_dir.
    eapply chain_under_target. exact Hch. }
  rewrite Hw in H. unfold place in H.
  assert (Hq : under_target_dir dest (dest ++ target_name :: rest, NDir)).
  { unfold under_target_dir. cbn [fst]. apply path_prefix_spec. exists rest.
    rewrite <- app_assoc. reflexivity. }
  destruct (te_kind e) as [| |t|t];
    destruct (lookup (w ++ d) (dest ++ target_name :: rest)) as [[b| |t']|]; try discriminate H;
    inversion H; subst d'; try (exists w; split; [reflexivity | exact Hunder]);
    eexists (_ :: w); (split; [reflexivity|]); constructor; try exact Hunder; exact Hq.
Qed.

Lemma link_on_path_ext d d' : forall ns cur,
  (forall q, chain cur ns q -> lookup d' q = lookup d q) ->
  link_on_path d' cur ns = link_on_path d cur ns.
Proof.
  induction ns as [|n r IH]; intros cur H; [reflexivity|]. cbn [link_on_path].
  rewrite (H (cur ++ [n])) by (apply chain_cons; left; reflexivity).
  rewrite (IH (cur ++ [n])); [reflexivity|]. intros q Hq. apply H. apply chain_cons. right. exact Hq.
Qed.

(* writes below dest/target leave the components of dest alone *)
Lemma dest_canonical_app w d dest :
  Forall (under_target_dir dest) w -> dest_canonical (w ++ d) dest = dest_canonical d dest.
Proof.
  intros Hall. unfold dest_canonical. f_equal. apply link_on_path_ext.
  intros q [pre [r [Hne [Hd Hq]]]]. cbn [app] in Hq. subst q.
  apply lookup_app_notin. intros Hin. apply in_map_iff in Hin as [[q n] [E Hin]].
  cbn [fst] in E. subst q. rewrite Forall_forall in Hall. specialize (Hall _ Hin).
  unfold under_target_dir in Hall. cbn [fst] in Hall. apply path_prefix_spec in Hall as [r' Hr'].
  rewrite Hd in Hr'.
  apply (f_equal (@length name)) in Hr'. rewrite !app_length in Hr'. cbn [length] in Hr'. lia.
Qed.

(* C19_confined_extraction: ANY initial file system (links anywhere below dest), ANY entry list,
   with or without the F19 repair *)
Theorem extract_checked_confined lo dest : forall es d,
  dest_canonical d dest = true ->
  exists w, result_fs (extract lo false dest d es) = w ++ d
            /\ Forall (under_target_dir dest) w
            /\ dest_canonical (w ++ d) dest = true.
Proof.
  induction es as [|e es IH]; intros d Hc.
  - exists []. cbn [extract result_fs app]. split; [reflexivity|]. split; [constructor | exact Hc].
  - cbn [extract]. pose proof (extract_entry_error_unchanged lo false dest d e) as Herr.
    destruct (extract_entry lo false dest d e) as [d'|c d1|d1] eqn:E.
    + destruct (extract_entry_checked_writes lo dest d e d' Hc E) as [w1 [-> Hw1]].
      destruct (IH (w1 ++ d)) as [w [Hw [Hall Hc']]].
      { rewrite dest_canonical_app by exact Hw1. exact Hc. }
      exists (w ++ w1). rewrite <- app_assoc. split; [exact Hw|]. split; [|exact Hc'].
      apply Forall_app. split; assumption.
    + subst d1. exists []. cbn [result_fs app]. split; [reflexivity|]. split; [constructor | exact Hc].
    + subst d1. exists []. cbn [result_fs app]. split; [reflexivity|]. split; [constructor | exact Hc].
Qed.

Theorem extract_to_confined lo ow dest es d :
  dest_canonical d dest = true ->
  exists w, result_fs (extract_to lo false ow dest d es) = w ++ d
            /\ Forall (under_target_dir dest) w.
Proof.
  intros Hc. unfold extract_to.
  destruct (negb ow && exists_follow_fs d (dest ++ [target_name])).
  - exists []. split; [reflexivity | constructor].
  - destruct (extract_checked_confined lo dest es d Hc) as [w [H1 [H2 _]]]. exists w. auto.
Qed.

(* ---- round trip of the archiver's own entry list *)

Definition encodes (te : tentry) (e : entry) : Prop :=
  utf8_decode (te_raw te) = Some (render_rel (fst e)) /\ te_cksum_ok te = true
  /\ te_kind te = match snd e with CDir => KDir | _ => KFile end
  /\ te_data te = match snd e with CFile b => b | _ => [] end.

Definition archive_path (p : rpath) : Prop :=
  exists rest, p = target_name :: rest /\ Forall (fun n => normal_name n = true) rest.


(* a destination in which target/ does not exist (what nextest requires without overwrite) *)
Definition fresh_target (d0 : fsys) (dest : rpath) : Prop :=
  forall rel, lookup d0 (dest ++ target_name :: rel) = None.

Definition proper_prefix (p q : rpath) : Prop := exists r, r <> [] /\ q = p ++ r.

(* only a directory entry has entries below it (true of every listing of one file system) *)
Definition tree_like (es : list entry) : Prop :=
  forall p c q c', In (p, c) es -> In (q, c') es -> proper_prefix p q -> c = CDir.

(* the state of the destination after the entries S: every entry holds its content, and below
   dest/target there is nothing but the entries and the directories leading to them *)
Definition rt_inv (dest : rpath) (S : list entry) (d : fsys) : Prop :=
  dest_canonical d dest = true
  /\ (forall p c, In (p, c) S -> lookup d (dest ++ p) = Some (node_of_content c))
  /\ (forall rel n, lookup d (dest ++ target_name :: rel) = Some n ->
        (exists c, In (target_name :: rel, c) S /\ n = node_of_content c)
        \/ (n = NDir /\ exists p c, In (p, c) S /\ proper_prefix (target_name :: rel) p)).

Lemma link_on_path_none d : forall ns cur,
  (forall q t, chain cur ns q -> lookup d q <> Some (NLink t)) -> link_on_path d cur ns = false.
Proof.
  induction ns as [|n r IH]; intros cur H; [reflexivity|]. cbn [link_on_path].
  destruct (lookup d (cur ++ [n])) as [[b| |t]|] eqn:E;
    try (apply IH; intros q t' Hq; apply H; apply chain_cons; right; exact Hq).
  exfalso. apply (H (cur ++ [n]) t); [apply chain_cons; left; reflexivity | exact E].
Qed.

Lemma file_on_path_none d : forall ns cur,
  (forall q b, chain cur ns q -> lookup d q <> Some (NFile b)) -> file_on_path d cur ns = false.
Proof.
  induction ns as [|n r IH]; intros cur H; [reflexivity|]. cbn [file_on_path].
  destruct (lookup d (cur ++ [n])) as [[b| |t]|] eqn:E;
    try (apply IH; intros q t' Hq; apply H; apply chain_cons; right; exact Hq).
  exfalso. apply (H (cur ++ [n]) b); [apply chain_cons; left; reflexivity | exact E].
Qed.

Lemma chain_removelast_proper cur ns q :
  chain cur (removelast ns) q ->
  exists pre r, pre <> [] /\ r <> [] /\ ns = pre ++ r /\ q = cur ++ pre.
Proof.
  intros [pre [r0 [Hne [Hrl Hq]]]].
  destruct ns as [|n ns]; [destruct pre; [contradiction | discriminate Hrl]|].
  exists pre, (r0 ++ [last (n :: ns) n]). split; [exact Hne|]. split.
  - intros H. apply app_eq_nil in H as [_ H]. discriminate H.
  - split; [|exact Hq]. rewrite app_assoc, <- Hrl. apply app_removelast_last. discriminate.
Qed.

Lemma app_self_neq {A} (l r : list A) : r <> [] -> l <> l ++ r.
Proof.
  intros Hr H. apply (f_equal (@length A)) in H. rewrite app_length in H.
  destruct r; [contradiction | cbn [length] in H; lia].
Qed.

Lemma node_of_content_not_link c t : node_of_content c <> NLink t.
Proof. destruct c; discriminate. Qed.

Lemma rt_step lo dest S d te p c :
  rt_inv dest S d -> archive_path p -> ~ In p (map fst S) ->
  tree_like (S ++ [(p, c)]) -> encodes te (p, c) ->
  exists d', extract_entry lo false dest d te = XOk d' /\ rt_inv dest (S ++ [(p, c)]) d'.
Proof.
  intros [Hcan [J1 J2]] [rest [Hp Hrest]] Hnotin Htl [Hraw [Hck [Hk Hdata]]].
  cbn [fst snd] in *. subst p.
  pose proof (components_render rest Hrest) as Hcs.
  assert (Hchk : entry_check lo te = 0).
  { apply entry_check_zero. exists (render_rel (target_name :: rest)).
    split; [exact Hraw|]. split.
    - unfold path_ok, path_ok_target. rewrite Hcs. cbn [map]. rewrite str_eqb_refl.
      cbn [andb forallb is_normal]. apply forallb_is_normal_map.
    - split; [|exact Hck]. right. rewrite Hk. destruct c; reflexivity. }
  rewrite (extract_entry_checked_ok lo dest d te _ rest Hcan Hchk Hraw Hcs).
  set (p := target_name :: rest) in *.
  assert (Hl : link_on_path d dest p = false).
  { apply link_on_path_none. intros q t [pre [r [Hne [Hpp ->]]]] H.
    destruct pre as [|x rel]; [contradiction|]. unfold p in Hpp. cbn [app] in Hpp.
    inversion Hpp; subst x.
    destruct (J2 rel _ H) as [[c' [_ E]]|[E _]]; [|discriminate E].
    symmetry in E. exact (node_of_content_not_link _ _ E). }
  rewrite Hl.
  assert (Hf : file_on_path d dest (removelast p) = false).
  { apply file_on_path_none. intros q b Hq H.
    destruct (chain_removelast_proper _ _ _ Hq) as [pre [r [Hne [Hr [Hpp ->]]]]].
    destruct pre as [|x rel]; [contradiction|]. unfold p in Hpp. cbn [app] in Hpp.
    inversion Hpp as [[Hx Hrest']]. subst x.
    destruct (J2 rel _ H) as [[c' [Hin E]]|[E _]]; [|discriminate E].
    assert (c' = CDir).
    { apply (Htl (target_name :: rel) c' p c).
      - apply in_or_app. left. exact Hin.
      - apply in_or_app. right. left. reflexivity.
      - exists r. split; [exact Hr|]. unfold p. rewrite Hrest'. reflexivity. }
    subst c'. discriminate E. }
  rewrite Hf.
  destruct (mkdirs_writes (removelast p) d dest) as [w1 [Hw1 Hall1]].
  assert (Hunder1 : Forall (under_target_dir dest) w1).
  { eapply Forall_impl; [|exact Hall1]. intros x [_ [Hch _]]. unfold under_target_dir.
    eapply chain_under_target. exact Hch. }
  (* what is at dest/p after the parents were made *)
  assert (Hnew : forall q n, lookup (mkdirs d dest (removelast p)) q = Some n ->
                 lookup d q = Some n
                 \/ (n = NDir /\ exists rel r, r <> [] /\ q = dest ++ target_name :: rel
                                               /\ p = (target_name :: rel) ++ r)).
  { intros q n H. destruct (mkdirs_new _ _ _ _ _ H) as [H'|[-> Hch]]; [left; exact H'|].
    right. split; [reflexivity|].
    destruct (chain_removelast_proper _ _ _ Hch) as [pre [r [Hne [Hr [Hpp ->]]]]].
    destruct pre as [|x rel]; [contradiction|]. pose proof Hpp as Hpp'. unfold p in Hpp'.
    cbn [app] in Hpp'. inversion Hpp'; subst x.
    exists rel, r. split; [exact Hr|]. split; [reflexivity | exact Hpp]. }
  assert (Hplace : exists d', place (mkdirs d dest (removelast p)) (dest ++ p) (te_kind te) (te_data te)
                              = Some d'
                   /\ lookup d' (dest ++ p) = Some (node_of_content c)
                   /\ (forall q, q <> dest ++ p -> lookup d' q = lookup (mkdirs d dest (removelast p)) q)
                   /\ exists w, d' = w ++ d /\ Forall (under_target_dir dest) w).
  { destruct (lookup d (dest ++ p)) as [n|] eqn:E.
    - destruct (J2 rest n E) as [[c' [Hin _]]|[-> [p2 [c2 [Hin2 Hpp]]]]].
      + exfalso. apply Hnotin. change p with (fst (p, c')). apply in_map. exact Hin.
      + assert (c = CDir).
        { apply (Htl p c p2 c2).
          - apply in_or_app. right. left. reflexivity.
          - apply in_or_app. left. exact Hin2.
          - exact Hpp. }
        subst c. exists (mkdirs d dest (removelast p)).
        pose proof (mkdirs_keeps d dest (removelast p) _ _ E) as E1.
        unfold place. rewrite Hk, E1. split; [reflexivity|]. split; [reflexivity|].
        split; [reflexivity|]. exists w1. split; [exact Hw1 | exact Hunder1].
    - assert (E1 : lookup (mkdirs d dest (removelast p)) (dest ++ p) = None).
      { destruct (lookup (mkdirs d dest (removelast p)) (dest ++ p)) as [n|] eqn:E1; [|reflexivity].
        destruct (Hnew _ _ E1) as [H|[_ [rel [r [Hr [Hq Hpp]]]]]]; [congruence|].
        apply app_inv_head in Hq. exfalso. rewrite Hq in Hpp.
        exact (app_self_neq _ _ Hr Hpp). }
      exists (write (mkdirs d dest (removelast p)) (dest ++ p) (node_of_content c)).
      split.
      + unfold place. rewrite E1, Hk, Hdata. destruct c; reflexivity.
      + split; [rewrite lookup_write, path_eqb_refl; reflexivity|]. split.
        * intros q Hq. rewrite lookup_write. apply path_eqb_neq in Hq. rewrite Hq. reflexivity.
        * exists ((dest ++ p, node_of_content c) :: w1). unfold write. rewrite Hw1.
          split; [reflexivity|]. constructor; [|exact Hunder1].
          unfold under_target_dir. cbn [fst]. apply path_prefix_spec. exists rest. unfold p.
          rewrite <- app_assoc. reflexivity. }
  destruct Hplace as [d' [Hpl [Hat [Hoth [w [Hw Hunder]]]]]]. rewrite Hpl.
  exists d'. split; [reflexivity|]. split; [|split].
  - rewrite Hw, dest_canonical_app by exact Hunder. exact Hcan.
  - intros p' c' Hin. apply in_app_or in Hin as [Hin|[Hin|[]]].
    + assert (Hne : dest ++ p' <> dest ++ p).
      { intros H. apply app_inv_head in H. apply Hnotin. rewrite <- H.
        change p' with (fst (p', c')). apply in_map. exact Hin. }
      rewrite (Hoth _ Hne). apply mkdirs_keeps. apply J1. exact Hin.
    + inversion Hin; subst p' c'. exact Hat.
  - intros rel n H. destruct (path_eqb (dest ++ target_name :: rel) (dest ++ p)) eqn:E.
    + apply path_eqb_eq in E. rewrite E, Hat in H. inversion H; subst n.
      apply app_inv_head in E. left. exists c. split; [|reflexivity].
      apply in_or_app. right. left. rewrite E. reflexivity.
    + apply path_eqb_neq in E. rewrite (Hoth _ E) in H.
      destruct (Hnew _ _ H) as [H'|[-> [rel' [r [Hr [Hq Hpp]]]]]].
      * destruct (J2 rel n H') as [[c' [Hin ->]]|[-> [p2 [c2 [Hin Hpp]]]]].
        -- left. exists c'. split; [apply in_or_app; left; exact Hin | reflexivity].
        -- right. split; [reflexivity|]. exists p2, c2.
           split; [apply in_or_app; left; exact Hin | exact Hpp].
      * right. split; [reflexivity|]. exists p, c. split; [apply in_or_app; right; left; reflexivity|].
        apply app_inv_head in Hq. exists r. split; [exact Hr|]. rewrite Hq. exact Hpp.
Qed.

Lemma roundtrip_gen lo dest : forall tes rest, Forall2 encodes tes rest ->
  forall S d, rt_inv dest S d -> NoDup (map fst (S ++ rest)) ->
  Forall (fun e => archive_path (fst e)) rest -> tree_like (S ++ rest) ->
  exists d', extract lo false dest d tes = XOk d' /\ rt_inv dest (S ++ rest) d'.
Proof.
  induction 1 as [|te [p c] tes rest Henc _ IH]; intros S d Hinv Hnd Hap Htl.
  - exists d. cbn [extract]. rewrite app_nil_r. auto.
  - inversion Hap as [|? ? Hp Hap']; subst. cbn [fst] in Hp.
    assert (Hassoc : @app entry S ((p, c) :: rest) = @app entry (@app entry S [(p, c)]) rest)
      by (rewrite <- app_assoc; reflexivity).
    destruct (rt_step lo dest S d te p c Hinv Hp) as [d1 [Hstep Hinv1]].
    + rewrite map_app in Hnd. cbn [map fst] in Hnd. apply NoDup_remove_2 in Hnd.
      intros H. apply Hnd. apply in_or_app. left. exact H.
    + intros p1 c1 q1 c1' H1 H2. apply (Htl p1 c1 q1 c1').
      * apply in_app_or in H1 as [H1|[H1|[]]]; apply in_or_app;
          [left; exact H1 | right; left; exact H1].
      * apply in_app_or in H2 as [H2|[H2|[]]]; apply in_or_app;
          [left; exact H2 | right; left; exact H2].
    + exact Henc.
    + destruct (IH (S ++ [(p, c)]) d1 Hinv1) as [d' [Hx Hinv']].
      * rewrite <- Hassoc. exact Hnd.
      * exact Hap'.
      * rewrite <- Hassoc. exact Htl.
      * exists d'. cbn [extract]. rewrite Hstep. split; [exact Hx|].
        refine (eq_ind _ (fun l => rt_inv dest l d') Hinv' _ _).
        rewrite <- app_assoc. reflexivity.
Qed.

(* C19_roundtrip_model: extracting (with the repaired machine, with or without overwrite) an entry
   list without duplicate paths, all of the form target/<normal names>, tree-like, into ANY
   destination in which target/ does not exist: every entry holds its content, nothing else appears
   below dest/target but the directories leading to the entries, nothing changes elsewhere *)
Theorem roundtrip lo ow dest tes es d0 :
  Forall2 encodes tes es -> NoDup (map fst es) -> Forall (fun e => archive_path (fst e)) es ->
  tree_like es -> dest_canonical d0 dest = true -> fresh_target d0 dest ->
  exists d, extract_to lo false ow dest d0 tes = XOk d
            /\ (forall p c, In (p, c) es -> lookup d (dest ++ p) = Some (node_of_content c))
            /\ (forall rel n, lookup d (dest ++ target_name :: rel) = Some n ->
                  (exists c, In (target_name :: rel, c) es /\ n = node_of_content c)
                  \/ (n = NDir /\ exists p c, In (p, c) es /\ proper_prefix (target_name :: rel) p))
            /\ (forall q, path_prefix (dest ++ [target_name]) q = false -> lookup d q = lookup d0 q).
Proof.
  intros Henc Hnd Hap Htl Hcan Hfresh.
  assert (Hex : exists_follow_fs d0 (dest ++ [target_name]) = false).
  { unfold exists_follow_fs. rewrite realpath_no_link.
    - rewrite (Hfresh []). reflexivity.
    - rewrite link_on_path_app. unfold dest_canonical in Hcan. apply negb_true_iff in Hcan.
      rewrite Hcan. cbn [orb app link_on_path]. rewrite (Hfresh []). reflexivity. }
  unfold extract_to. rewrite Hex, andb_false_r.
  destruct (roundtrip_gen lo dest tes es Henc [] d0) as [d [Hx [_ [J1 J2]]]]; auto.
  - split; [exact Hcan|]. split; [intros p c []|]. intros rel n H. rewrite Hfresh in H. discriminate H.
  - exists d. split; [exact Hx|]. split; [exact J1|]. split; [exact J2|].
    intros q Hq. destruct (extract_checked_confined lo dest tes d0 Hcan) as [w [Hw [Hall _]]].
    rewrite Hx in Hw. cbn [result_fs] in Hw. subst d. apply lookup_app_notin.
    intros Hin. apply in_map_iff in Hin as [[q' n'] [E Hin]]. cbn [fst] in E. subst q'.
    rewrite Forall_forall in Hall. specialize (Hall _ Hin). unfold under_target_dir in Hall.
    cbn [fst] in Hall. congruence.
Qed.

(* ================================================================== atomic write *)

Lemma fupd_same d p v : fupd d p v p = v.
Proof. unfold fupd. rewrite path_eqb_refl. reflexivity. Qed.

Lemma fupd_other d p v q : q <> p -> fupd d p v q = d q.
Proof. intros H. unfold fupd. apply path_eqb_neq in H. rewrite H. reflexivity. Qed.

Definition winv (chunks : list bytes) (dest tmp : rpath) (d0 : files) (s : wstate * files) : Prop :=
  (forall q, q <> dest -> q <> tmp -> snd s q = d0 q) /\
  match fst s with
  | Init | Failed false => snd s dest = d0 dest
  | TmpCreated => snd s dest = d0 dest /\ snd s tmp = Some []
  | TmpPartial k => snd s dest = d0 dest /\ snd s tmp = Some (concat (firstn k chunks))
  | TmpComplete | Synced => snd s dest = d0 dest /\ snd s tmp = Some (concat chunks)
  | Renamed | Done | Failed true => snd s dest = Some (concat chunks)
  end.

Lemma winv_fail (chunks : list bytes) (dest tmp : rpath) (d0 d : files) (ar c : bool) :
  tmp <> dest ->
  (forall q, q <> dest -> q <> tmp -> d q = d0 q) ->
  d dest = (if ar then Some (concat chunks) else d0 dest) ->
  winv chunks dest tmp d0 (fail tmp ar c d).
Proof.
  intros Hne Hoth Hd. unfold fail, winv. cbn [fst snd]. split.
  - intros q H1 H2. destruct c; [rewrite fupd_other by exact H2|]; apply Hoth; assumption.
  - assert (E : (if c then fupd d tmp None else d) dest = d dest).
    { destruct c; [apply fupd_other; congruence | reflexivity]. }
    destruct ar; rewrite E; exact Hd.
Qed.

Lemma wstep_inv chunks dest tmp d0 s o :
  tmp <> dest -> winv chunks dest tmp d0 s -> winv chunks dest tmp d0 (wstep chunks dest tmp s o).
Proof.
  intros Hne [Hoth Hst]. destruct s as [st d]. cbn [fst snd] in *.
  assert (Hne' : dest <> tmp) by congruence.
  destruct st as [| |k| | | | |ar]; destruct o as [|c]; cbn [wstep];
    try (split; [exact Hoth | exact Hst]);
    try (apply winv_fail; [exact Hne | exact Hoth | tauto]).
  - (* Init ok *) split; cbn [fst snd].
    + intros q H1 H2. rewrite fupd_other by exact H2. apply Hoth; assumption.
    + rewrite fupd_same, fupd_other by exact Hne'. auto.
  - (* TmpCreated ok *) destruct Hst as [H1 H2]. destruct chunks as [|c0 cs].
    + split; cbn [fst snd]; [exact Hoth | split; [exact H1 | exact H2]].
    + split; cbn [fst snd].
      * intros q Hq1 Hq2. rewrite fupd_other by exact Hq2. apply Hoth; assumption.
      * rewrite fupd_same, fupd_other by exact Hne'. auto.
  - (* TmpPartial ok *) destruct Hst as [H1 H2].
    destruct (Nat.leb (length chunks) k) eqn:E.
    + split; cbn [fst snd]; [exact Hoth|]. split; [exact H1|].
      rewrite H2. apply Nat.leb_le in E. rewrite firstn_all2 by exact E. reflexivity.
    + split; cbn [fst snd].
      * intros q Hq1 Hq2. rewrite fupd_other by exact Hq2. apply Hoth; assumption.
      * rewrite fupd_same, fupd_other by exact Hne'. auto.
  - (* Synced ok: rename *) destruct Hst as [H1 H2]. split; cbn [fst snd].
    + intros q Hq1 Hq2. rewrite fupd_other by exact Hq2. rewrite fupd_other by exact Hq1.
      apply Hoth; assumption.
    + rewrite fupd_other by exact Hne'. rewrite fupd_same. exact H2.
Qed.

Lemma wrun_inv chunks dest tmp d0 os :
  tmp <> dest -> winv chunks dest tmp d0 (wrun chunks dest tmp d0 os).
Proof.
  intros Hne. unfold wrun.
  assert (H0 : winv chunks dest tmp d0 (Init, d0)).
  { split; cbn [fst snd]; [intros; reflexivity | reflexivity]. }
  revert H0. generalize (Init, d0). induction os as [|o os IH]; intros s Hs; cbn [fold_left].
  - exact Hs.
  - apply IH. apply wstep_inv; assumption.
Qed.

(* C19_atomic: wherever the run stops -- a crash is the end of the outcome list, an error return
   is a StepErr -- the destination holds the old content or the complete new one, the latter
   exactly from the rename on, and no other path but the temporary one is touched *)
Theorem atomic_write chunks dest tmp d0 os :
  tmp <> dest ->
  let s := wrun chunks dest tmp d0 os in
  snd s dest = (if committed (fst s) then Some (concat chunks) else d0 dest)
  /\ forall q, q <> dest -> q <> tmp -> snd s q = d0 q.
Proof.
  intros Hne s. destruct (wrun_inv chunks dest tmp d0 os Hne) as [Hoth Hst]. fold s in Hoth, Hst.
  split; [|exact Hoth].
  destruct (fst s) as [| |k| | | | |[|]]; cbn [committed]; tauto.
Qed.

Lemma tmp_path_neq_dest parent rnd file : tmp_path parent rnd <> parent ++ [file].
Proof.
  unfold tmp_path. intros H. apply app_inv_head in H. discriminate H.
Qed.

(* committed states are only entered through the rename *)
Lemma committed_step chunks dest tmp s o :
  committed (fst s) = false -> committed (fst (wstep chunks dest tmp s o)) = true ->
  fst s = Synced /\ o = StepOk.
Proof.
  destruct s as [st d]. cbn [fst].
  destruct st as [| |k| | | | |ar]; destruct o as [|c]; cbn [wstep committed fail fst];
    intros H1 H2; try discriminate H1; try discriminate H2; try congruence;
    try (split; reflexivity).
  all: try (destruct chunks; cbn [fst committed] in H2; discriminate H2).
  all: try (destruct (Nat.leb (length chunks) k); cbn [fst committed] in H2; discriminate H2).
Qed.

(* ================================================================== PathMapper *)

Lemma strip_prefix_app from rest : strip_prefix from (from ++ rest) = Some rest.
Proof.
  induction from as [|x from IH]; [reflexivity|]. cbn [app strip_prefix].
  rewrite str_eqb_refl. exact IH.
Qed.

Lemma strip_prefix_spec from p rest : strip_prefix from p = Some rest <-> p = from ++ rest.
Proof.
  split; [|intros ->; apply strip_prefix_app].
  revert p; induction from as [|x from IH]; intros p H; cbn [strip_prefix] in H.
  - inversion H; reflexivity.
  - destruct p as [|y p]; [discriminate|]. destruct (str_eqb x y) eqn:E; [|discriminate].
    apply str_eqb_eq in E. subst y. cbn [app]. f_equal. apply IH. exact H.
Qed.

Lemma remap_prefixed from to rest : remap (Some (from, to)) (from ++ rest) = to ++ rest.
Proof. unfold remap. rewrite strip_prefix_app. reflexivity. Qed.

Lemma remap_other from to p :
  (forall rest, p <> from ++ rest) -> remap (Some (from, to)) p = p.
Proof.
  intros H. unfold remap. destruct (strip_prefix from p) as [rest|] eqn:E; [|reflexivity].
  apply strip_prefix_spec in E. exfalso. exact (H rest E).
Qed.

(* C19_remap: if every binary's bytes are found at its remapped path (round trip), listing over
   the remapped binary list selects the same (binary-id, test) pairs *)
Theorem remap_selection lister (d d' : files) m bins :
  (forall b, In b bins -> d' (remap m (snd b)) = d (snd b)) ->
  selection lister d' (map (fun b => (fst b, remap m (snd b))) bins) = selection lister d bins.
Proof.
  unfold selection. induction bins as [|b bins IH]; intros H; [reflexivity|].
  cbn [map flat_map fst snd]. rewrite (H b) by (left; reflexivity).
  rewrite IH; [reflexivity|]. intros b' Hb'. apply H. right. exact Hb'.
Qed.

(* ---- the archiver's own entries, ASCII names: tentry_of encodes them *)

Lemma utf8_ascii s : Forall (fun c => c < 128) s -> utf8 s = s.
Proof.
  induction 1 as [|c s Hc _ IH]; [reflexivity|].
  change (utf8 (c :: s)) with (utf8_char c ++ utf8 s). rewrite IH.
  unfold utf8_char. apply N.ltb_lt in Hc. rewrite Hc. reflexivity.
Qed.

Lemma utf8_decode_ascii s : Forall (fun c => c < 128) s -> utf8_decode s = Some s.
Proof.
  unfold utf8_decode. induction 1 as [|c s Hc _ IH]; [reflexivity|].
  cbn [length utf8_decode_fuel]. apply N.ltb_lt in Hc. rewrite Hc, IH. reflexivity.
Qed.

Lemma encodes_tentry_of e :
  Forall (fun c => c < 128) (render_rel (fst e)) -> encodes (tentry_of e) e.
Proof.
  intros H. unfold encodes, tentry_of, utf8_path. cbn [te_raw te_cksum_ok te_kind te_data].
  rewrite utf8_ascii by exact H. rewrite utf8_decode_ascii by exact H. auto.
Qed.

(* ---- F19: outside the class "the archive contains a link entry" the code before the repair
   behaves like the repaired code *)
Definition has_link (es : list tentry) : bool := existsb (fun e => is_link (te_kind e)) es.

Lemma entry_check_links_irrelevant e :
  is_link (te_kind e) = false -> entry_check true e = entry_check false e.
Proof.
  intros H. unfold entry_check. rewrite H. cbn [negb andb].
  destruct (utf8_decode (te_raw e)); reflexivity.
Qed.

Lemma extract_links_irrelevant thru dest : forall es d,
  has_link es = false -> extract true thru dest d es = extract false thru dest d es.
Proof.
  induction es as [|e es IH]; intros d H; [reflexivity|].
  cbn [has_link existsb] in H. apply orb_false_iff in H as [H1 H2].
  cbn [extract].
  assert (E : extract_entry true thru dest d e = extract_entry false thru dest d e).
  { unfold extract_entry. rewrite (entry_check_links_irrelevant e H1). reflexivity. }
  rewrite E. destruct (extract_entry false thru dest d e); try reflexivity. apply IH. exact H2.
Qed.

(* ---- F19 / F23: the machine before both repairs (links accepted, links followed) is confined
   outside the two classes "the archive contains a link entry" and "the destination contains a
   link" *)
Definition fs_has_link (d : fsys) : bool :=
  existsb (fun x => match snd x with NLink _ => true | _ => false end) d.

Lemma fs_has_link_nolinks d : fs_has_link d = false -> nolinks d.
Proof.
  induction d as [|[q n] d IH]; intros H p t; cbn [lookup]; [discriminate|].
  cbn [fs_has_link existsb snd] in H. apply orb_false_iff in H as [H1 H2].
  destruct (path_eqb p q); [|apply IH; exact H2].
  intros E. inversion E; subst n. discriminate H1.
Qed.

Theorem extract_confined_outside_known lo dest es d :
  (lo = true -> has_link es = false) -> fs_has_link d = false ->
  exists w, result_fs (extract lo true dest d es) = w ++ d
            /\ Forall (fun x => path_prefix (dest ++ [target_name]) (fst x) = true) w
            /\ nolinks (w ++ d).
Proof.
  intros H Hn. apply fs_has_link_nolinks in Hn. destruct lo.
  - rewrite extract_links_irrelevant by (apply H; reflexivity). apply extract_through_confined. exact Hn.
  - apply extract_through_confined. exact Hn.
Qed.
