(* Lemmas about Model/Classify.v *)
From NextestModel Require Import Base.Tac Base.Str Model.Classify.
Open Scope N_scope.

(* ---- small facts *)
Lemma st_success_iff : forall st, st_success st = true <-> st = Exited 0.
Proof.
  intros [c|s]; cbn [st_success].
  - destruct c; split; intro H; try reflexivity; try discriminate.
  - split; intro H; discriminate.
Qed.

Lemma is_success_iff : forall r, is_success r = true <-> r = Pass \/ r = Leak.
Proof.
  intros []; cbn [is_success]; split; intro H; auto;
    try discriminate; destruct H as [H|H]; discriminate.
Qed.

(* ---- create_execution_result *)
Lemma cer_success_iff : forall st errs leaked,
  is_success (create_execution_result st errs leaked) = true <-> errs = false /\ st = Exited 0.
Proof.
  intros st errs leaked. unfold create_execution_result.
  destruct errs; cbn [is_success].
  - split; [discriminate|intros [H _]; discriminate].
  - destruct (st_success st) eqn:E.
    + apply st_success_iff in E. destruct leaked; cbn [is_success]; split; auto.
    + cbn [is_success]. split; [discriminate|].
      intros [_ H]. apply st_success_iff in H. congruence.
Qed.

Lemma cer_pass_iff : forall st errs leaked,
  create_execution_result st errs leaked = Pass <-> errs = false /\ st = Exited 0 /\ leaked = false.
Proof.
  intros st errs leaked. unfold create_execution_result.
  destruct errs.
  - split; [discriminate|intros [H _]; discriminate].
  - destruct (st_success st) eqn:E.
    + apply st_success_iff in E. destruct leaked; split; auto; try discriminate.
      intros (_ & _ & H); discriminate.
    + split; [discriminate|]. intros (_ & H & _). apply st_success_iff in H. congruence.
Qed.

Lemma cer_leak_iff : forall st errs leaked,
  create_execution_result st errs leaked = Leak <-> errs = false /\ st = Exited 0 /\ leaked = true.
Proof.
  intros st errs leaked. unfold create_execution_result.
  destruct errs.
  - split; [discriminate|intros [H _]; discriminate].
  - destruct (st_success st) eqn:E.
    + apply st_success_iff in E. destruct leaked; split; auto; try discriminate.
      intros (_ & _ & H); discriminate.
    + split; [discriminate|]. intros (_ & H & _). apply st_success_iff in H. congruence.
Qed.

Lemma cer_fail_iff : forall st errs leaked sg lk,
  create_execution_result st errs leaked = Fail sg lk <->
  errs = false /\ st <> Exited 0 /\ sg = abort_status st /\ lk = leaked.
Proof.
  intros st errs leaked sg lk. unfold create_execution_result.
  destruct errs.
  - split; [discriminate|intros [H _]; discriminate].
  - destruct (st_success st) eqn:E.
    + apply st_success_iff in E.
      split; [destruct leaked; discriminate|]. intros (_ & H & _). contradiction.
    + split.
      * intro H. inversion H; subst. repeat split; auto.
        intro H1. apply st_success_iff in H1. congruence.
      * intros (_ & _ & -> & ->). reflexivity.
Qed.

Lemma cer_execfail_iff : forall st errs leaked,
  create_execution_result st errs leaked = ExecFail <-> errs = true.
Proof.
  intros st errs leaked. unfold create_execution_result.
  destruct errs; [split; auto|].
  destruct (st_success st), leaked; split; discriminate.
Qed.

Lemma cer_never_timeout : forall st errs leaked,
  create_execution_result st errs leaked <> Timeout.
Proof.
  intros st errs leaked. unfold create_execution_result.
  destruct errs, (st_success st), leaked; discriminate.
Qed.

(* ---- one attempt *)
Lemma attempt_success_iff : forall sf to st errs leaked,
  is_success (attempt_result sf to st errs leaked) = true <->
  sf = false /\ to = false /\ errs = false /\ st = Exited 0.
Proof.
  intros sf to st errs leaked. unfold attempt_result.
  destruct sf; [cbn; split; [discriminate|intros [H _]; discriminate]|].
  destruct to; [cbn; split; [discriminate|intros (_ & H & _); discriminate]|].
  rewrite cer_success_iff. tauto.
Qed.

Lemma attempt_pass_iff : forall sf to st errs leaked,
  attempt_result sf to st errs leaked = Pass <->
  sf = false /\ to = false /\ errs = false /\ st = Exited 0 /\ leaked = false.
Proof.
  intros sf to st errs leaked. unfold attempt_result.
  destruct sf; [split; [discriminate|intros [H _]; discriminate]|].
  destruct to; [split; [discriminate|intros (_ & H & _); discriminate]|].
  rewrite cer_pass_iff. tauto.
Qed.

Lemma attempt_leak_iff : forall sf to st errs leaked,
  attempt_result sf to st errs leaked = Leak <->
  sf = false /\ to = false /\ errs = false /\ st = Exited 0 /\ leaked = true.
Proof.
  intros sf to st errs leaked. unfold attempt_result.
  destruct sf; [split; [discriminate|intros [H _]; discriminate]|].
  destruct to; [split; [discriminate|intros (_ & H & _); discriminate]|].
  rewrite cer_leak_iff. tauto.
Qed.

Lemma attempt_fail_iff : forall sf to st errs leaked sg lk,
  attempt_result sf to st errs leaked = Fail sg lk <->
  sf = false /\ to = false /\ errs = false /\ st <> Exited 0 /\
  sg = abort_status st /\ lk = leaked.
Proof.
  intros sf to st errs leaked sg lk. unfold attempt_result.
  destruct sf; [split; [discriminate|intros [H _]; discriminate]|].
  destruct to; [split; [discriminate|intros (_ & H & _); discriminate]|].
  rewrite cer_fail_iff. tauto.
Qed.

Lemma attempt_fail_signal : forall s leaked,
  attempt_result false false (Signaled s) false leaked = Fail (Some s) leaked.
Proof. intros. apply attempt_fail_iff. repeat split; auto. discriminate. Qed.

Lemma attempt_fail_code : forall c leaked, c <> 0 ->
  attempt_result false false (Exited c) false leaked = Fail None leaked.
Proof. intros. apply attempt_fail_iff. repeat split; auto. congruence. Qed.

Lemma attempt_timeout_iff : forall sf to st errs leaked,
  attempt_result sf to st errs leaked = Timeout <-> sf = false /\ to = true.
Proof.
  intros sf to st errs leaked. unfold attempt_result.
  destruct sf; [split; [discriminate|intros [H _]; discriminate]|].
  destruct to; [split; auto|].
  split; [intro H; exfalso; revert H; apply cer_never_timeout|intros [_ H]; discriminate].
Qed.

Lemma attempt_execfail_iff : forall sf to st errs leaked,
  attempt_result sf to st errs leaked = ExecFail <->
  sf = true \/ (to = false /\ errs = true).
Proof.
  intros sf to st errs leaked. unfold attempt_result.
  destruct sf; [split; auto|].
  destruct to.
  - split; [discriminate|]. intros [H|[H _]]; discriminate.
  - rewrite cer_execfail_iff. split; [auto|]. intros [H|[_ H]]; [discriminate|auto].
Qed.

(* ---- spawn modes (F9) *)
Lemma execfail_iff_spawn_outside_known : forall m b to leaked,
  known_F9 m b = false ->
  (attempt_of m b to false leaked = ExecFail <-> b = CannotExec).
Proof.
  intros m b to leaked Hk. unfold attempt_of.
  destruct b as [|st]; destruct m; cbn [known_F9] in Hk; try discriminate; cbn [observed].
  - split; auto.
  - rewrite attempt_execfail_iff. split; [|discriminate].
    intros [H|[_ H]]; discriminate.
  - rewrite attempt_execfail_iff. split; [|discriminate].
    intros [H|[_ H]]; discriminate.
Qed.

Lemma execfail_iff_spawn_direct : forall b to leaked,
  attempt_of Direct b to false leaked = ExecFail <-> b = CannotExec.
Proof. intros. apply execfail_iff_spawn_outside_known. destruct b; reflexivity. Qed.

Lemma execfail_iff_spawn_refuted :
  exists m b to leaked,
    ~ (attempt_of m b to false leaked = ExecFail <-> b = CannotExec).
Proof.
  exists ViaLauncher, CannotExec, false, false. vm_compute. intros [_ H].
  specialize (H eq_refl). discriminate.
Qed.

(* what the launcher case gives instead *)
Lemma launcher_cannot_exec_is_fail : forall leaked,
  attempt_of ViaLauncher CannotExec false false leaked = Fail None leaked.
Proof. intros. reflexivity. Qed.

(* a test binary that ran is classified the same way under both modes *)
Lemma spawn_mode_irrelevant_when_ran : forall m st to errs leaked,
  attempt_of m (Ran st) to errs leaked = attempt_result false to st errs leaked.
Proof. intros [] st to errs leaked; reflexivity. Qed.

(* ---- raw wait statuses *)
Definition all_below (n : nat) (P : N -> bool) : bool :=
  forallb P (map N.of_nat (seq 0 n)).

Lemma all_below_spec : forall n P, all_below n P = true ->
  forall x, x < N.of_nat n -> P x = true.
Proof.
  intros n P H x Hx. unfold all_below in H. rewrite forallb_forall in H.
  apply H. apply in_map_iff. exists (N.to_nat x). split; [lia|].
  apply in_seq. lia.
Qed.

Lemma decode_encode_exited : forall c core, c < 256 ->
  decode_raw (encode_raw (Exited c) core) = Some (Exited c).
Proof.
  intros c core Hc.
  assert (H : all_below 256 (fun c => match decode_raw (c * 256) with
                                      | Some (Exited c') => c' =? c | _ => false end) = true)
    by (vm_compute; reflexivity).
  pose proof (all_below_spec _ _ H c Hc) as H1. cbn beta in H1.
  cbn [encode_raw]. destruct (decode_raw (c * 256)) as [[c'|]|]; try discriminate.
  apply N.eqb_eq in H1. subst. reflexivity.
Qed.

Lemma decode_encode_signaled : forall s core, 1 <= s -> s < 127 ->
  decode_raw (encode_raw (Signaled s) core) = Some (Signaled s).
Proof.
  intros s core H1 H2.
  assert (H : all_below 127 (fun s => (s =? 0) ||
      (match decode_raw (s + 0) with Some (Signaled a) => a =? s | _ => false end &&
       match decode_raw (s + 128) with Some (Signaled a) => a =? s | _ => false end)) = true)
    by (vm_compute; reflexivity).
  pose proof (all_below_spec _ _ H s H2) as H3. cbn beta in H3.
  apply orb_true_iff in H3. destruct H3 as [H3|H3]; [apply N.eqb_eq in H3; lia|].
  apply andb_true_iff in H3. destruct H3 as [Ha Hb].
  cbn [encode_raw]. destruct core.
  - destruct (decode_raw (s + 128)) as [[|a]|]; try discriminate.
    apply N.eqb_eq in Hb. congruence.
  - destruct (decode_raw (s + 0)) as [[|a]|]; try discriminate.
    apply N.eqb_eq in Ha. congruence.
Qed.

(* ---- ExecutionStatuses *)
Lemma last_status_some : forall l, l <> [] -> exists r, last_status l = Some r.
Proof. intros [|r l] H; [contradiction|]. eexists; reflexivity. Qed.

Lemma last_cons : forall (l : list result) a b, last (a :: l) b = last l a.
Proof.
  induction l as [|c l IH]; intros a b; [reflexivity|].
  change (last (a :: c :: l) b) with (last (c :: l) b).
  rewrite (IH c b), (IH c a). reflexivity.
Qed.

Lemma nth_length_last : forall (l : list result) a d, nth (length l) (a :: l) d = last l a.
Proof.
  induction l as [|b l IH]; intros a d; [reflexivity|].
  cbn [length]. change (nth (S (length l)) (a :: b :: l) d) with (nth (length l) (b :: l) d).
  rewrite IH, last_cons. reflexivity.
Qed.

Lemma last_status_nth : forall l r d,
  last_status l = Some r -> nth (length l - 1) l d = r.
Proof.
  intros [|a l] r d H; [discriminate|]. cbn [last_status] in H. inversion H; subst; clear H.
  cbn [length]. replace (S (length l) - 1)%nat with (length l) by lia.
  apply nth_length_last.
Qed.

Lemma last_status_app : forall l r, last_status (l ++ [r]) = Some r.
Proof.
  intros l r. destruct l as [|a l]; [reflexivity|].
  cbn [app last_status]. f_equal.
  revert a. induction l as [|b l IH]; intro a; [reflexivity|].
  cbn [app]. rewrite last_cons. apply IH.
Qed.

Lemma describe_total : forall l, l <> [] -> exists d, describe l = Some d.
Proof.
  intros l H. unfold describe. destruct (last_status_some l H) as [r ->].
  destruct (is_success r); [destruct (Nat.ltb 1 (length l))|]; eexists; reflexivity.
Qed.

Lemma describe_empty : describe [] = None.
Proof. reflexivity. Qed.

Definition d_last (d : description) : nat :=
  match d with DSuccess i => i | DFlaky i _ => i | DFailure _ i _ => i end.

(* the status every description calls last_status is the last element of the list *)
Lemma describe_last_is_last : forall l d,
  describe l = Some d -> d_last d = (length l - 1)%nat.
Proof.
  intros l d. unfold describe. destruct (last_status l) as [r|]; [|discriminate].
  destruct (is_success r); [destruct (Nat.ltb 1 (length l))|];
    intro H; inversion H; reflexivity.
Qed.

Lemma describe_kind : forall l d r,
  describe l = Some d -> last_status l = Some r ->
  kind_of d = (if is_success r then (if Nat.ltb 1 (length l) then KFlaky else KSuccess)
               else KFailure).
Proof.
  intros l d r. unfold describe. intros H Hl. rewrite Hl in H.
  destruct (is_success r); [destruct (Nat.ltb 1 (length l))|];
    inversion H; reflexivity.
Qed.

Lemma describe_flaky_iff : forall l d r,
  describe l = Some d -> last_status l = Some r ->
  (kind_of d = KFlaky <-> is_success r = true /\ (1 < length l)%nat).
Proof.
  intros l d r H Hl. rewrite (describe_kind l d r H Hl).
  destruct (is_success r).
  - destruct (Nat.ltb 1 (length l)) eqn:E.
    + apply Nat.ltb_lt in E. split; auto.
    + apply Nat.ltb_ge in E. split; [discriminate|]. intros [_ H1]. lia.
  - split; [discriminate|]. intros [H1 _]. discriminate.
Qed.

Lemma describe_success_iff : forall l d r,
  describe l = Some d -> last_status l = Some r ->
  (kind_of d = KSuccess <-> is_success r = true /\ length l = 1%nat).
Proof.
  intros l d r H Hl. rewrite (describe_kind l d r H Hl).
  assert (length l <> 0%nat) by (destruct l; [discriminate|cbn; lia]).
  destruct (is_success r).
  - destruct (Nat.ltb 1 (length l)) eqn:E.
    + apply Nat.ltb_lt in E. split; [discriminate|]. intros [_ H1]. lia.
    + apply Nat.ltb_ge in E. split; auto. intros _. split; auto. lia.
  - split; [discriminate|]. intros [H1 _]. discriminate.
Qed.

Lemma describe_failure_iff : forall l d r,
  describe l = Some d -> last_status l = Some r ->
  (kind_of d = KFailure <-> is_success r = false).
Proof.
  intros l d r H Hl. rewrite (describe_kind l d r H Hl).
  destruct (is_success r); [destruct (Nat.ltb 1 (length l))|]; split; auto; discriminate.
Qed.

(* the slices a description hands out: everything before the last (Flaky), everything after
   the first (Failure) *)
Lemma describe_slices : forall l d, describe l = Some d ->
  match d with
  | DSuccess i => i = 0%nat
  | DFlaky i prior => prior = seq 0 i
  | DFailure f i retries => f = 0%nat /\ retries = seq 1 i
  end.
Proof.
  intros l d. unfold describe. destruct (last_status l) as [r|] eqn:E; [|discriminate].
  destruct (is_success r); [destruct (Nat.ltb 1 (length l)) eqn:E1|];
    intro H; inversion H; auto.
  apply Nat.ltb_ge in E1. destruct l; [discriminate|]. cbn [length] in *. lia.
Qed.

(* ---- leak detection *)
Lemma eof_after_from : forall evs from te,
  times_sorted from evs = true -> time_to_eof evs = Some te -> from <= te.
Proof.
  induction evs as [|[t1 e] rest IH]; intros from te Hs He; [discriminate|].
  cbn [times_sorted] in Hs. apply andb_true_iff in Hs. destruct Hs as [H1 H2].
  apply N.leb_le in H1. cbn [time_to_eof] in He.
  destruct e.
  - specialize (IH t1 te H2 He). lia.
  - inversion He; subst. exact H1.
  - specialize (IH t1 te H2 He). lia.
Qed.

Lemma detect_leak_spec : forall t evs from,
  times_sorted from evs = true ->
  (detect_leak t evs = true <->
   match time_to_eof evs with Some te => t <= te | None => True end).
Proof.
  intros t evs. induction evs as [|[t1 e] rest IH]; intros from Hs.
  - cbn. tauto.
  - cbn [times_sorted] in Hs. apply andb_true_iff in Hs. destruct Hs as [H1 H2].
    cbn [detect_leak].
    destruct (t <=? t1) eqn:E.
    + apply N.leb_le in E. split; [intros _|auto].
      destruct (time_to_eof ((t1, e) :: rest)) as [te|] eqn:Ee; [|exact I].
      assert (Hs : times_sorted t1 ((t1, e) :: rest) = true).
      { cbn [times_sorted]. rewrite N.leb_refl. exact H2. }
      pose proof (eof_after_from _ _ _ Hs Ee). lia.
    + apply N.leb_gt in E. cbn [time_to_eof]. destruct e.
      * apply (IH t1 H2).
      * split; [discriminate|lia].
      * apply (IH t1 H2).
Qed.

(* F2: before the repair, frequent writes postponed the verdict for ever *)
Lemma detect_leak_unfixed_refuted :
  exists t evs, times_sorted 0 evs = true /\
    ~ (detect_leak_unfixed t 0 evs = true <->
       match time_to_eof evs with Some te => t <= te | None => True end).
Proof.
  exists 100, [(50, FdData); (100, FdData); (150, FdData); (200, FdData); (250, FdEof)].
  split; [reflexivity|]. vm_compute. intros [_ H]. assert (H1 : false = true) by (apply H; discriminate).
  discriminate.
Qed.

(* the unfixed loop agrees with the specification when nothing happens between exit and EOF *)
Lemma detect_leak_unfixed_silent : forall t te,
  detect_leak_unfixed t 0 [(te, FdEof)] = (t <=? te).
Proof. intros. cbn. destruct (t <=? te); reflexivity. Qed.

(* ------------------------------------------------------------------ packaged statements *)
Lemma final_is_last : forall l d r,
  describe l = Some d -> last_status l = Some r ->
  d_last d = (length l - 1)%nat /\ nth (d_last d) l Pass = r.
Proof.
  intros l d r Hd Hr. pose proof (describe_last_is_last l d Hd) as H.
  split; [exact H|]. rewrite H. apply last_status_nth. exact Hr.
Qed.

Lemma raw_status_roundtrip : forall core,
  (forall c, c < 256 -> decode_raw (encode_raw (Exited c) core) = Some (Exited c)) /\
  (forall s, 1 <= s -> s < 127 -> decode_raw (encode_raw (Signaled s) core) = Some (Signaled s)).
Proof.
  intro core. split; [intros; apply decode_encode_exited; assumption|
                      intros; apply decode_encode_signaled; assumption].
Qed.
