(* Lemmas about the filter composition (Model/NameFilter.v, Model/FilterFull.v). *)
From NextestModel Require Import Base.Str Base.Tac Model.Xxh64 Model.Filter Model.NameFilter
     Model.Partition Model.FilterFull Proofs.StrFacts Proofs.Partition.
Open Scope N_scope.

(* ------------------------------------------------------------------ the documented clauses *)

Definition ignored_ok (ri : run_ignored) (ign : bool) : Prop :=
  match ri with
  | RIDefault => ign = false
  | RIOnly => ign = true
  | RIAll => True
  end.

(* some --skip pattern applies: an exact one equal to the name or a substring one inside it *)
Definition skipped (p : patterns) (name : str) : Prop :=
  In name (skip_exacts_of p) \/ exists s, In s (skips_of p) /\ infix s name.

(* no positive pattern at all, or some positive pattern applies *)
Definition wanted (p : patterns) (name : str) : Prop :=
  (subs_of p = [] /\ exacts_of p = []) \/
  In name (exacts_of p) \/ exists s, In s (subs_of p) /\ infix s name.

Definition name_ok (p : patterns) (name : str) : Prop := ~ skipped p name /\ wanted p name.

Definition expr_ok (ets : list (str -> bool)) (name : str) : Prop :=
  ets = [] \/ exists f, In f ets /\ f name = true.

Definition default_ok (b : bound) (dt : str -> bool) (name : str) : Prop :=
  b = BAll \/ dt name = true.

Definition partition_ok (pb : option pbuilder) (cur : N) (name : str) : Prop :=
  match pb with
  | None => True
  | Some b =>
      match pb_kind b with
      | PCount => cur = pb_shard b - 1
      | PHash => xxh64 (utf8 name) 0 mod pb_total b = pb_shard b - 1
      end
  end.

(* the variant invariant of TestFilterPatterns: Patterns has at least one positive pattern *)
Definition wf_patterns (p : patterns) : Prop :=
  match p with
  | Patterns [] [] _ _ => False
  | _ => True
  end.

(* ------------------------------------------------------------------ patterns *)

Lemma wf_new pre : wf_patterns (patterns_new pre).
Proof. destruct pre; exact I. Qed.

Lemma wf_apply p o : wf_patterns p -> wf_patterns (apply_op p o).
Proof.
  destruct o, p as [sk sx|su ex sk sx]; cbn; auto.
  - intros H. destruct su; cbn; auto.
  - intros H. destruct su; auto.
Qed.

Lemma wf_fold ops p : wf_patterns p -> wf_patterns (fold_left apply_op ops p).
Proof. revert p. induction ops as [|o ops IH]; intros p H; cbn; auto. apply IH, wf_apply, H. Qed.

Lemma wf_build pre ops : wf_patterns (build_patterns pre ops).
Proof. apply wf_fold, wf_new. Qed.

Definition op_sub (o : pat_op) : option str := match o with OpSub x => Some x | _ => None end.
Definition op_skip (o : pat_op) : option str := match o with OpSkip x => Some x | _ => None end.

Fixpoint filter_map {A B} (f : A -> option B) (l : list A) : list B :=
  match l with
  | [] => []
  | x :: l' => match f x with Some y => y :: filter_map f l' | None => filter_map f l' end
  end.

Lemma fold_subs ops p :
  subs_of (fold_left apply_op ops p) = subs_of p ++ filter_map op_sub ops.
Proof.
  revert p. induction ops as [|o ops IH]; intros p; cbn [fold_left filter_map].
  - rewrite app_nil_r. reflexivity.
  - rewrite IH. destruct o, p; cbn; try reflexivity. rewrite <- app_assoc. reflexivity.
Qed.

Lemma fold_skips ops p :
  skips_of (fold_left apply_op ops p) = skips_of p ++ filter_map op_skip ops.
Proof.
  revert p. induction ops as [|o ops IH]; intros p; cbn [fold_left filter_map].
  - rewrite app_nil_r. reflexivity.
  - rewrite IH. destruct o, p; cbn; try reflexivity; rewrite <- app_assoc; reflexivity.
Qed.

Ltac op_cases :=
  repeat match goal with
         | H : _ \/ _ |- _ => destruct H
         | H : False |- _ => destruct H
         | H : OpExact _ = OpExact _ |- _ => injection H as H
         | H : OpSkipExact _ = OpSkipExact _ |- _ => injection H as H
         | H : @eq pat_op _ _ |- _ => discriminate H
         end; subst; auto; try tauto.

Lemma fold_exacts ops p x :
  In x (exacts_of (fold_left apply_op ops p)) <-> In x (exacts_of p) \/ In (OpExact x) ops.
Proof.
  revert p. induction ops as [|o ops IH]; intros p; cbn [fold_left In].
  - tauto.
  - rewrite IH. destruct o, p; cbn; split; intros H; try tauto; op_cases.
Qed.

Lemma fold_skip_exacts ops p x :
  In x (skip_exacts_of (fold_left apply_op ops p)) <->
  In x (skip_exacts_of p) \/ In (OpSkipExact x) ops.
Proof.
  revert p. induction ops as [|o ops IH]; intros p; cbn [fold_left In].
  - tauto.
  - rewrite IH. destruct o, p; cbn; split; intros H; try tauto; op_cases.
Qed.

Lemma new_subs pre : subs_of (patterns_new pre) = pre.
Proof. destruct pre; reflexivity. Qed.
Lemma new_exacts pre : exacts_of (patterns_new pre) = [].
Proof. destruct pre; reflexivity. Qed.
Lemma new_skips pre : skips_of (patterns_new pre) = [].
Proof. destruct pre; reflexivity. Qed.
Lemma new_skip_exacts pre : skip_exacts_of (patterns_new pre) = [].
Proof. destruct pre; reflexivity. Qed.

(* what a sequence of add_* calls leaves in the four collections *)
Lemma build_patterns_contents pre ops :
  subs_of (build_patterns pre ops) = pre ++ filter_map op_sub ops /\
  skips_of (build_patterns pre ops) = filter_map op_skip ops /\
  (forall x, In x (exacts_of (build_patterns pre ops)) <-> In (OpExact x) ops) /\
  (forall x, In x (skip_exacts_of (build_patterns pre ops)) <-> In (OpSkipExact x) ops).
Proof.
  unfold build_patterns. rewrite fold_subs, fold_skips, new_subs, new_skips.
  repeat split; try reflexivity; intros H.
  - apply fold_exacts in H. rewrite new_exacts in H. cbn in H. tauto.
  - apply fold_exacts. auto.
  - apply fold_skip_exacts in H. rewrite new_skip_exacts in H. cbn in H. tauto.
  - apply fold_skip_exacts. auto.
Qed.

(* ------------------------------------------------------------------ name matching *)

Definition skippedb (p : patterns) (name : str) : bool :=
  mem_str name (skip_exacts_of p) || any_infix (skips_of p) name.
Definition wantedb (p : patterns) (name : str) : bool :=
  negb (has_positive p) || mem_str name (exacts_of p) || any_infix (subs_of p) name.

Lemma skippedb_spec p name : skippedb p name = true <-> skipped p name.
Proof.
  unfold skippedb, skipped, any_infix. rewrite orb_true_iff, mem_str_In, existsb_infix. tauto.
Qed.

Lemma wantedb_spec p name : wf_patterns p -> (wantedb p name = true <-> wanted p name).
Proof.
  intros Hwf. unfold wantedb, wanted, any_infix.
  rewrite !orb_true_iff, mem_str_In, existsb_infix, negb_true_iff.
  destruct p as [sk sx|su ex sk sx]; cbn [has_positive subs_of exacts_of].
  - split; auto.
  - split.
    + intros [[H|H]|H]; auto. discriminate.
    + intros [[H1 H2]|[H|H]]; auto. subst. destruct Hwf.
Qed.

Lemma rname_match_bools p name :
  nm_accepts (rname_match (resolve p) name) = negb (skippedb p name) && wantedb p name.
Proof.
  unfold skippedb, wantedb.
  destruct p as [sk sx|su ex sk sx]; cbn [resolve has_positive subs_of exacts_of skips_of skip_exacts_of].
  - destruct sk, sx; cbn [rname_match nm_accepts mem_str any_infix existsb negb orb andb];
      try reflexivity;
      match goal with |- context [if ?c then _ else _] => destruct c end; reflexivity.
  - cbn [rname_match negb orb].
    destruct (mem_str name sx || any_infix sk name); cbn [negb andb nm_accepts]; [reflexivity|].
    destruct (mem_str name ex || any_infix su name); reflexivity.
Qed.

Lemma rname_match_reason r name x : rname_match r name = NMis x -> x = MString.
Proof.
  destruct r; cbn [rname_match]; try discriminate;
    repeat match goal with |- context [if ?c then _ else _] => destruct c end;
    intros H; try discriminate; injection H as <-; reflexivity.
Qed.

Lemma name_match_ok p name :
  wf_patterns p -> (nm_accepts (rname_match (resolve p) name) = true <-> name_ok p name).
Proof.
  intros Hwf. rewrite rname_match_bools, andb_true_iff, negb_true_iff. unfold name_ok.
  rewrite <- (wantedb_spec p name Hwf), <- skippedb_spec.
  destruct (skippedb p name); split; intros [H1 H2]; split; auto; try discriminate; congruence.
Qed.

Lemma skip_overrides p name : skipped p name -> rname_match (resolve p) name = NMis MString.
Proof.
  intros H. apply skippedb_spec in H.
  pose proof (rname_match_bools p name) as E. rewrite H in E. cbn in E.
  destruct (rname_match (resolve p) name) eqn:M; try discriminate.
  f_equal. eapply rname_match_reason; eauto.
Qed.

Lemma no_patterns_match_all p name :
  has_positive p = false -> skips_of p = [] -> skip_exacts_of p = [] ->
  rname_match (resolve p) name = MatchEmpty.
Proof. destruct p; cbn; intros; try discriminate; subst; reflexivity. Qed.

(* resolve before the repair differs exactly on "only exact skip patterns" *)
Lemma resolve_unfixed_differs p :
  resolve_unfixed p <> resolve p <->
  has_positive p = false /\ skips_of p = [] /\ skip_exacts_of p <> [].
Proof.
  destruct p as [sk sx|su ex sk sx]; cbn.
  - destruct sk, sx; cbn; split; intros H;
      try (exfalso; apply H; reflexivity);
      try (destruct H as [_ [? ?]]; congruence);
      try (repeat split; congruence); try discriminate.
  - split; [intros H; exfalso; apply H; reflexivity|intros [H _]; discriminate].
Qed.

(* ------------------------------------------------------------------ expression stage *)

Definition expr_okb (ets : list (str -> bool)) (name : str) : bool :=
  match ets with [] => true | _ => existsb (fun f => f name) ets end.
Definition default_okb (b : bound) (dt : str -> bool) (name : str) : bool :=
  match b with BAll => true | BDefaultSet => dt name end.

Lemma expr_okb_spec ets name : expr_okb ets name = true <-> expr_ok ets name.
Proof.
  unfold expr_okb, expr_ok. destruct ets as [|f ets].
  - split; auto.
  - rewrite existsb_exists. split.
    + intros H. right. exact H.
    + intros [H|H]; [discriminate|exact H].
Qed.

Lemma default_okb_spec b dt name : default_okb b dt name = true <-> default_ok b dt name.
Proof.
  unfold default_okb, default_ok. destruct b; split; auto.
  - intros [H|H]; [discriminate|exact H].
Qed.

Lemma expression_match_bools ets dt b name :
  filter_expression_match ets dt b name =
  if expr_okb ets name then
    if default_okb b dt name then (match ets with [] => MatchEmpty | _ => MatchWith end)
    else NMis MDefaultFilter
  else NMis MExpression.
Proof.
  unfold filter_expression_match, expr_okb, default_okb.
  destruct ets as [|f ets].
  - destruct b; [reflexivity|]. destruct (dt name); reflexivity.
  - destruct (existsb _ _); [|reflexivity]. destruct b; [reflexivity|]. destruct (dt name); reflexivity.
Qed.

(* ------------------------------------------------------------------ the composition *)

Definition ignored_okb (ri : run_ignored) (ign : bool) : bool :=
  match ri with RIDefault => negb ign | RIOnly => ign | RIAll => true end.

Lemma ignored_okb_spec ri ign : ignored_okb ri ign = true <-> ignored_ok ri ign.
Proof. destruct ri, ign; cbn; split; auto; discriminate. Qed.

Definition partition_okb (pb : option pbuilder) (cur : N) (name : str) : bool :=
  match pb with None => true | Some b => fst (part_match b cur name) end.

Lemma partition_okb_spec pb cur name : partition_okb pb cur name = true <-> partition_ok pb cur name.
Proof.
  unfold partition_okb, partition_ok, part_match. destruct pb as [b|]; [|tauto].
  destruct (pb_kind b); cbn [fst]; apply N.eqb_eq.
Qed.

(* the first failing stage, as a function of the five verdicts *)
Definition verdict (i n e d p : bool) : fmatch :=
  if negb i then Mismatch MIgnored
  else if negb n then Mismatch MString
  else if negb e then Mismatch MExpression
  else if negb d then Mismatch MDefaultFilter
  else if negb p then Mismatch MPartition
  else Matches.

Definition pre_verdict (i n e d : bool) : option mismatch :=
  if negb i then Some MIgnored
  else if negb n then Some MString
  else if negb e then Some MExpression
  else if negb d then Some MDefaultFilter
  else None.

Lemma pre_full_bools ri pb p ets dt b name ign :
  pre_full (builder_new ri pb p ets dt b) name ign =
  pre_verdict (ignored_okb ri ign) (negb (skippedb p name) && wantedb p name)
              (expr_okb ets name) (default_okb b dt name).
Proof.
  unfold pre_full, builder_new, pre_verdict. cbn [tf_ri tf_pats tf_ets tf_dt tf_bound].
  rewrite <- rname_match_bools, expression_match_bools.
  destruct ri, ign; cbn [filter_ignored ignored_okb negb]; try reflexivity;
    (destruct (rname_match (resolve p) name) as [| |x] eqn:M; cbn [nm_accepts negb combine_name_expr];
     [| |rewrite (rname_match_reason _ _ _ M); reflexivity]);
    destruct (expr_okb ets name), (default_okb b dt name), ets; reflexivity.
Qed.

Lemma filter_match_full_bools ri pb p ets dt b cur name ign :
  fst (filter_match_full (builder_new ri pb p ets dt b) cur name ign) =
  verdict (ignored_okb ri ign) (negb (skippedb p name) && wantedb p name)
          (expr_okb ets name) (default_okb b dt name) (partition_okb pb cur name).
Proof.
  unfold filter_match_full, filter_match. rewrite pre_full_bools.
  unfold pre_verdict, verdict, partition_okb. cbn [tf_pb builder_new].
  destruct (ignored_okb ri ign); cbn [negb]; [|reflexivity].
  destruct (negb (skippedb p name) && wantedb p name); cbn [negb]; [|reflexivity].
  destruct (expr_okb ets name); cbn [negb]; [|reflexivity].
  destruct (default_okb b dt name); cbn [negb]; [|reflexivity].
  destruct pb as [bb|]; [|reflexivity].
  destruct (part_match bb cur name) as [ok c]. cbn [fst]. destruct ok; reflexivity.
Qed.

Lemma name_okb_spec p name :
  wf_patterns p -> (negb (skippedb p name) && wantedb p name = true <-> name_ok p name).
Proof. intros H. rewrite <- rname_match_bools. apply name_match_ok, H. Qed.

Lemma selected_iff ri pb p ets dt b cur name ign :
  wf_patterns p ->
  (fst (filter_match_full (builder_new ri pb p ets dt b) cur name ign) = Matches <->
   ignored_ok ri ign /\ name_ok p name /\ expr_ok ets name /\ default_ok b dt name /\
   partition_ok pb cur name).
Proof.
  intros Hwf. rewrite filter_match_full_bools.
  rewrite <- ignored_okb_spec, <- (name_okb_spec p name Hwf), <- expr_okb_spec,
    <- default_okb_spec, <- partition_okb_spec.
  unfold verdict.
  destruct (ignored_okb ri ign), (negb (skippedb p name) && wantedb p name), (expr_okb ets name),
    (default_okb b dt name), (partition_okb pb cur name); cbn [negb];
    split; intros H; try discriminate; try tauto;
    repeat match goal with H : _ /\ _ |- _ => destruct H end; discriminate.
Qed.

Lemma first_reason ri pb p ets dt b cur name ign r :
  wf_patterns p ->
  (fst (filter_match_full (builder_new ri pb p ets dt b) cur name ign) = Mismatch r <->
   (r = MIgnored /\ ~ ignored_ok ri ign) \/
   (r = MString /\ ignored_ok ri ign /\ ~ name_ok p name) \/
   (r = MExpression /\ ignored_ok ri ign /\ name_ok p name /\ ~ expr_ok ets name) \/
   (r = MDefaultFilter /\ ignored_ok ri ign /\ name_ok p name /\ expr_ok ets name /\
    ~ default_ok b dt name) \/
   (r = MPartition /\ ignored_ok ri ign /\ name_ok p name /\ expr_ok ets name /\
    default_ok b dt name /\ ~ partition_ok pb cur name)).
Proof.
  intros Hwf. rewrite filter_match_full_bools.
  rewrite <- ignored_okb_spec, <- (name_okb_spec p name Hwf), <- expr_okb_spec,
    <- default_okb_spec, <- partition_okb_spec.
  unfold verdict.
  destruct (ignored_okb ri ign), (negb (skippedb p name) && wantedb p name), (expr_okb ets name),
    (default_okb b dt name), (partition_okb pb cur name); cbn [negb];
    (split; [intros H; try discriminate; injection H as <-; intuition congruence
            |intros H; intuition (try congruence; try discriminate)]).
Qed.

(* the verdict of the stages before the partition, for the list-level statements *)
Lemma pre_full_none_iff ri pb p ets dt b name ign :
  wf_patterns p ->
  (pre_full (builder_new ri pb p ets dt b) name ign = None <->
   ignored_ok ri ign /\ name_ok p name /\ expr_ok ets name /\ default_ok b dt name).
Proof.
  intros Hwf. rewrite pre_full_bools.
  rewrite <- ignored_okb_spec, <- (name_okb_spec p name Hwf), <- expr_okb_spec, <- default_okb_spec.
  unfold pre_verdict.
  destruct (ignored_okb ri ign), (negb (skippedb p name) && wantedb p name), (expr_okb ets name),
    (default_okb b dt name); cbn [negb]; split; intros H; try discriminate; try tauto;
    repeat match goal with H : _ /\ _ |- _ => destruct H end; discriminate.
Qed.

Lemma pre_full_pb_irrelevant ri pb pb' p ets dt b :
  pre_full (builder_new ri pb p ets dt b) = pre_full (builder_new ri pb' p ets dt b).
Proof. reflexivity. Qed.

(* a whole listing pass with a partition: position i is selected iff the four other clauses hold
   and the shard is the owner of that position (C13) *)
Lemma listing_selected_iff k m n ri p ets dt b ign names i nm :
  wf_patterns p -> 1 <= n -> 1 <= m <= n -> nth_error names i = Some nm ->
  let f := builder_new ri (Some (mkpb k m n)) p ets dt b in
  (nth_error (pass (tf_pb f) (pre_full f) ign names 0) i = Some (nm, (ign, Matches)) <->
   ignored_ok ri ign /\ name_ok p nm /\ expr_ok ets nm /\ default_ok b dt nm /\
   m = owner k (pre_full f) ign n names i nm).
Proof.
  intros Hwf Hn Hm Hnth f. cbn [tf_pb f builder_new].
  fold (builder_new ri (Some (mkpb k m n)) p ets dt b). fold f.
  destruct (pre_full f nm ign) as [r|] eqn:Hpre.
  - split.
    + intros H. rewrite (pass_rejected_everywhere k m n _ ign names i nm r) in H by (try lia; assumption).
      injection H as H. discriminate.
    + intros (H1 & H2 & H3 & H4 & _).
      assert (pre_full f nm ign = None) as E by (apply pre_full_none_iff; auto). congruence.
  - rewrite (pass_selected_iff_owner k m n _ ign names i nm Hn Hm Hnth Hpre).
    apply pre_full_none_iff in Hpre; [|assumption]. tauto.
Qed.

(* without a partition every position is decided by the four clauses alone *)
Lemma pass_no_partition pre ign names cur :
  pass None pre ign names cur =
  map (fun nm => (nm, (ign, match pre nm ign with Some r => Mismatch r | None => Matches end))) names.
Proof.
  revert cur. induction names as [|nm names IH]; intros cur; cbn [pass map]; [reflexivity|].
  unfold filter_match. destruct (pre nm ign); rewrite IH; reflexivity.
Qed.

(* ------------------------------------------------------------------ binary level *)

Definition kleene_sound (bin : option bool) (test : str -> bool) : Prop :=
  forall v, bin = Some v -> forall name, test name = v.

Definition or_step (acc : bmatch) (e : option bool) : bmatch :=
  logic_or acc (from_result e BRExpression).

Lemma fold_or_mismatch ebs acc r :
  fold_left or_step ebs acc = BMismatch r ->
  (exists r0, acc = BMismatch r0 /\ (r0 = BRExpression -> r = BRExpression)) /\
  Forall (fun e => e = Some false) ebs.
Proof.
  revert acc. induction ebs as [|e ebs IH]; intros acc H; cbn [fold_left] in H.
  - split; [exists r; auto|constructor].
  - apply IH in H as [[r0 [H1 H2]] H3]. unfold or_step in H1.
    destruct acc as [| |ra]; try (destruct e as [[|]|]; discriminate).
    destruct e as [[|]|]; try discriminate. cbn in H1. injection H1 as <-.
    split; [|constructor; auto]. exists ra. split; [reflexivity|]. intros ->. apply H2. reflexivity.
Qed.

Lemma fold_or_definite ebs acc :
  fold_left or_step ebs acc = BDefinite -> acc = BDefinite \/ In (Some true) ebs.
Proof.
  revert acc. induction ebs as [|e ebs IH]; intros acc H; cbn [fold_left] in H; [auto|].
  apply IH in H as [H|H]; [|right; right; exact H].
  unfold or_step in H. destruct acc as [| |ra]; auto; destruct e as [[|]|]; cbn in H;
    try discriminate; right; left; reflexivity.
Qed.

Definition expr_result (ebs : list (option bool)) : bmatch :=
  match ebs with
  | [] => BDefinite
  | _ => fold_left or_step ebs (BMismatch BRExpression)
  end.

Lemma filter_binary_match_unfold ebs db b :
  filter_binary_match ebs db b =
  if b_is_match (expr_result ebs) then
    match b with
    | BAll => expr_result ebs
    | BDefaultSet => logic_and (expr_result ebs) (from_result db BRDefaultSet)
    end
  else expr_result ebs.
Proof. unfold filter_binary_match, expr_result. destruct ebs; reflexivity. Qed.

Lemma all_false_no_expr ebs ets name :
  Forall2 kleene_sound ebs ets -> Forall (fun e => e = Some false) ebs -> ebs <> [] ->
  ~ expr_ok ets name.
Proof.
  intros HK HF Hne [H|[f [Hin Hf]]].
  - subst. inversion HK. subst. congruence.
  - clear Hne. induction HK as [|e f' ebs ets Hk HK IH].
    + destruct Hin.
    + inversion HF; subst. destruct Hin as [->|Hin].
      * rewrite (Hk false eq_refl name) in Hf. discriminate.
      * apply IH; assumption.
Qed.

Lemma some_true_expr ebs ets name :
  Forall2 kleene_sound ebs ets -> In (Some true) ebs -> expr_ok ets name.
Proof.
  intros HK Hin. right. induction HK as [|e f ebs ets Hk HK IH].
  - destruct Hin.
  - destruct Hin as [->|Hin].
    + exists f. split; [left; reflexivity|]. apply (Hk true eq_refl).
    + destruct (IH Hin) as [g [H1 H2]]. exists g. split; [right; exact H1|exact H2].
Qed.

(* what each binary-level verdict says about every test of the binary *)
Lemma binary_match_meaning ebs ets db dt b :
  Forall2 kleene_sound ebs ets -> kleene_sound db dt ->
  (filter_binary_match ebs db b = BMismatch BRExpression -> forall name, ~ expr_ok ets name) /\
  (filter_binary_match ebs db b = BMismatch BRDefaultSet -> forall name, ~ default_ok b dt name) /\
  (filter_binary_match ebs db b = BDefinite ->
   forall name, expr_ok ets name /\ default_ok b dt name).
Proof.
  intros HK HD. rewrite filter_binary_match_unfold.
  assert (Hmis : forall r, expr_result ebs = BMismatch r ->
                           r = BRExpression /\ forall name, ~ expr_ok ets name).
  { intros r H. unfold expr_result in H. destruct ebs as [|e ebs]; [discriminate|].
    apply fold_or_mismatch in H as [[r0 [H1 H2]] H3]. injection H1 as <-.
    split; [apply H2; reflexivity|]. intros name. eapply all_false_no_expr; eauto. discriminate. }
  assert (Hdef : expr_result ebs = BDefinite -> forall name, expr_ok ets name).
  { intros H name. unfold expr_result in H. destruct ebs as [|e ebs].
    - inversion HK. left. reflexivity.
    - apply fold_or_definite in H as [H|H]; [discriminate|]. eapply some_true_expr; eauto. }
  destruct (expr_result ebs) as [| |r] eqn:E; cbn [b_is_match].
  - (* definite *)
    destruct b; cbn [logic_and].
    + split; [discriminate|split; [discriminate|]].
      intros _ name. split; [auto|left; reflexivity].
    + destruct db as [[|]|]; cbn [from_result]; (split; [discriminate|split]); try discriminate.
      * intros _ name. split; [auto|]. right. apply (HD true eq_refl).
      * intros _ name [H|H]; [discriminate|]. rewrite (HD false eq_refl name) in H. discriminate.
  - (* possible *)
    destruct b; cbn [logic_and].
    + split; [discriminate|split; discriminate].
    + destruct db as [[|]|]; cbn [from_result]; (split; [discriminate|split]); try discriminate.
      intros _ name [H|H]; [discriminate|]. rewrite (HD false eq_refl name) in H. discriminate.
  - (* mismatch: necessarily for the expression reason *)
    destruct (Hmis r eq_refl) as [-> Hno]. split; [|split; discriminate]. intros _. exact Hno.
Qed.

Lemma binary_sound ebs ets db dt b r :
  Forall2 kleene_sound ebs ets -> kleene_sound db dt ->
  filter_binary_match ebs db b = BMismatch r ->
  forall ri pb p name ign, pre_full (builder_new ri pb p ets dt b) name ign <> None.
Proof.
  intros HK HD H ri pb p name ign.
  destruct (binary_match_meaning ebs ets db dt b HK HD) as (H1 & H2 & _).
  rewrite pre_full_bools. unfold pre_verdict.
  destruct (ignored_okb ri ign); cbn [negb]; [|discriminate].
  destruct (negb (skippedb p name) && wantedb p name); cbn [negb]; [|discriminate].
  destruct (expr_okb ets name) eqn:E; cbn [negb]; [|discriminate].
  destruct (default_okb b dt name) eqn:D; cbn [negb]; [|discriminate].
  apply expr_okb_spec in E. apply default_okb_spec in D.
  destruct r; [exfalso; eapply H1; eauto|exfalso; eapply H2; eauto].
Qed.

Lemma binary_sound_match ebs ets db dt b r :
  Forall2 kleene_sound ebs ets -> kleene_sound db dt ->
  filter_binary_match ebs db b = BMismatch r ->
  forall ri pb p cur name ign,
    fst (filter_match_full (builder_new ri pb p ets dt b) cur name ign) <> Matches.
Proof.
  intros HK HD H ri pb p cur name ign.
  pose proof (binary_sound ebs ets db dt b r HK HD H ri pb p name ign) as Hpre.
  unfold filter_match_full, filter_match.
  destruct (pre_full (builder_new ri pb p ets dt b) name ign); [discriminate|contradiction].
Qed.

Lemma matching_test_keeps_binary ebs ets db dt b ri pb p cur name ign :
  Forall2 kleene_sound ebs ets -> kleene_sound db dt ->
  fst (filter_match_full (builder_new ri pb p ets dt b) cur name ign) = Matches ->
  b_is_match (filter_binary_match ebs db b) = true.
Proof.
  intros HK HD H. destruct (filter_binary_match ebs db b) as [| |r] eqn:E; try reflexivity.
  exfalso. eapply binary_sound_match; eauto.
Qed.

(* ------------------------------------------------------------------ whole-list level *)

Definition not_selected (e : tcase) : Prop := snd (snd e) <> Matches.

Lemma pass_all_rejected pb pre ign names cur :
  (forall nm, pre nm ign <> None) -> Forall not_selected (pass pb pre ign names cur).
Proof.
  intros H. revert cur. induction names as [|nm names IH]; intros cur; cbn [pass]; [constructor|].
  unfold filter_match. destruct (pre nm ign) as [r|] eqn:E; [|destruct (H nm E)].
  constructor; [discriminate|apply IH].
Qed.

Lemma upsert_Forall (P : tcase -> Prop) m e : Forall P m -> P e -> Forall P (upsert m e).
Proof.
  intros Hm He. induction m as [|[k v] m IH]; cbn [upsert]; [constructor; auto|].
  inversion Hm; subst. destruct (str_cmp (fst e) k); constructor; auto.
Qed.

Lemma fold_upsert_Forall (P : tcase -> Prop) l m :
  Forall P m -> Forall P l -> Forall P (fold_left upsert l m).
Proof.
  revert m. induction l as [|e l IH]; intros m Hm Hl; cbn [fold_left]; [assumption|].
  inversion Hl; subst. apply IH; [apply upsert_Forall|]; assumption.
Qed.

Lemma matched_none l : Forall not_selected l -> matched l = [].
Proof.
  unfold matched. induction 1 as [|e l He Hl IH]; cbn [filter map]; [reflexivity|].
  unfold not_selected in He. destruct (snd (snd e)); [contradiction|exact IH].
Qed.

Lemma process_output_all_rejected pb pre ni ig :
  (forall nm ign, pre nm ign <> None) -> matched (process_output pb pre ni ig) = [].
Proof.
  intros H. apply matched_none. unfold process_output.
  apply fold_upsert_Forall; [apply fold_upsert_Forall; [constructor|]|];
    apply pass_all_rejected; intros nm; apply H.
Qed.

(* skipping a binary on the binary-level verdict never changes the set of tests that run *)
Lemma prefilter_preserves_selection ebs ets db dt ri pb p b ni ig :
  Forall2 kleene_sound ebs ets -> kleene_sound db dt ->
  let f := builder_new ri pb p ets dt b in
  suite_selected (list_binary f ebs db ni ig) = matched (process_output (tf_pb f) (pre_full f) ni ig).
Proof.
  intros HK HD f. unfold list_binary. cbn [tf_bound f builder_new].
  destruct (filter_binary_match ebs db b) as [| |r] eqn:E; cbn [suite_selected]; try reflexivity.
  symmetry. apply process_output_all_rejected. intros nm ign.
  apply (binary_sound ebs ets db dt b r HK HD E).
Qed.
