(* Lemmas about the command model: the launcher is transparent, the argument vector has the
   documented shape, and the variables nextest assigns win over every earlier layer. *)
From NextestModel Require Import Base.Str Base.Tac Model.ShellWords Model.Command Proofs.ShellWords.
Open Scope N_scope.

(* ---- strings *)

Lemma str_eqb_refl : forall a, str_eqb a a = true.
Proof. induction a as [|x a IH]; [reflexivity|]. cbn [str_eqb]. rewrite N.eqb_refl, IH. reflexivity. Qed.

Lemma str_eqb_eq : forall a b, str_eqb a b = true <-> a = b.
Proof.
  induction a as [|x a IH]; intros [|y b]; cbn [str_eqb]; split; intro H;
    try reflexivity; try discriminate.
  - apply andb_true_iff in H. destruct H as [H1 H2]. apply N.eqb_eq in H1. apply IH in H2.
    subst. reflexivity.
  - inversion H. subst. rewrite N.eqb_refl. cbn [andb]. apply IH. reflexivity.
Qed.

Lemma is_prefix_app : forall p k, is_prefix p (p ++ k) = true.
Proof.
  induction p as [|x p IH]; intro k; [destruct k; reflexivity|].
  cbn [app is_prefix]. rewrite N.eqb_refl, IH. reflexivity.
Qed.

Fixpoint strip_prefix (p s : str) : option str :=
  match p, s with
  | [], _ => Some s
  | x :: p', y :: s' => if x =? y then strip_prefix p' s' else None
  | _ :: _, [] => None
  end.

Lemma strip_prefix_app : forall p k, strip_prefix p (p ++ k) = Some k.
Proof.
  induction p as [|x p IH]; intro k; [reflexivity|].
  cbn [app strip_prefix]. rewrite N.eqb_refl. apply IH.
Qed.

(* ---- argument vector and launcher *)

Theorem final_exec_transparent : forall ds program args,
  final_exec ds program args = Some (program, args).
Proof.
  intros [exe|] program args; [|reflexivity].
  unfold final_exec, create_command. cbn [snd]. unfold launcher_exec.
  rewrite !str_eqb_refl. cbn [andb]. rewrite split_join. reflexivity.
Qed.

Theorem argv_shape : forall ds binary name ignored extra,
  exists argv,
    final_exec ds binary (test_argv name ignored extra) = Some (binary, argv)
    /\ firstn 3 argv = [K.exact; name; K.nocapture]
    /\ skipn 3 argv = (if ignored then K.ignored :: extra else extra).
Proof.
  intros. exists (test_argv name ignored extra). split; [apply final_exec_transparent|].
  destruct ignored; split; reflexivity.
Qed.

(* with a target runner the test binary and its arguments follow the runner's own arguments *)
Theorem argv_shape_runner : forall ds r binary name ignored extra,
  let pa := program_and_args (Some r) binary name ignored extra in
  final_exec ds (fst pa) (snd pa)
  = Some (r_binary r, r_args r ++ binary :: test_argv name ignored extra).
Proof. intros. subst pa. cbn [program_and_args fst snd]. apply final_exec_transparent. Qed.

(* the command hook H5 observes leads to the same exec as a direct spawn *)
Theorem make_command_exec : forall r s ds rn binary name ignored extra inh c,
  make_command r s ds rn binary name ignored extra inh = Some c ->
  match ds with
  | Some _ => launcher_exec (cmd_args c)
  | None => Some (cmd_program c, cmd_args c)
  end = Some (program_and_args rn binary name ignored extra)
  /\ cmd_cwd c = sc_cwd s.
Proof.
  intros r s ds rn binary name ignored extra inh c H. unfold make_command in H.
  destruct (program_and_args rn binary name ignored extra) as [program args] eqn:Epa.
  destruct (create_command ds program args) as [p a] eqn:Ecc.
  destruct (make_command_assignments r s inh); [|discriminate].
  inversion H; subst c; clear H. cbn [cmd_args cmd_program cmd_cwd]. split; [|reflexivity].
  generalize (final_exec_transparent ds program args). unfold final_exec. rewrite Ecc.
  destruct ds; cbn [snd]; trivial.
Qed.

(* ---- environment *)

Lemma env_get_app : forall k a b,
  env_get k (a ++ b) = match env_get k b with Some v => Some v | None => env_get k a end.
Proof.
  induction a as [|[k' v] a IH]; intro b; cbn [app env_get].
  - destruct (env_get k b); reflexivity.
  - rewrite IH. destruct (env_get k b); reflexivity.
Qed.

(* keys the dynamic layer (LD_/DYLD_ re-exports, NEXTEST_BIN_EXE_ variables) can never assign *)
Definition not_dynamic_key (k : str) : bool :=
  negb (is_prefix K.bin_exe_prefix k)
  && negb (str_eqb k K.LD_LIBRARY_PATH) && negb (str_eqb k K.DYLD_FALLBACK_LIBRARY_PATH)
  && negb (str_eqb k K.PATH)
  && match strip_prefix K.nextest_prefix k with
     | Some k' => negb (is_sip_sanitized k')
     | None => true
     end.

Lemma reexports_none : forall var inh k,
  match strip_prefix K.nextest_prefix k with
  | Some k' => negb (is_sip_sanitized k')
  | None => true
  end = true ->
  env_get k (ld_dyld_reexports var inh) = None.
Proof.
  intros var inh k H. induction inh as [|[k0 v0] inh IH]; [reflexivity|].
  cbn [ld_dyld_reexports].
  destruct (is_sip_sanitized k0 && negb (str_eqb k0 var)) eqn:E; [|exact IH].
  cbn [env_get]. rewrite IH.
  destruct (str_eqb k (K.nextest_prefix ++ k0)) eqn:Ek; [|reflexivity].
  apply str_eqb_eq in Ek. subst k. rewrite strip_prefix_app in H.
  apply andb_true_iff in E. destruct E as [E _]. rewrite E in H. discriminate.
Qed.

Lemma bin_exe_none : forall bins k,
  is_prefix K.bin_exe_prefix k = false -> env_get k (bin_exe_layer bins) = None.
Proof.
  intros bins k H. induction bins as [|[n p] bins IH]; [reflexivity|].
  cbn [bin_exe_layer map env_get fst snd]. fold (bin_exe_layer bins). rewrite IH.
  destruct (str_eqb k (K.bin_exe_prefix ++ n)) eqn:Ek; [|reflexivity].
  apply str_eqb_eq in Ek. subst k. rewrite is_prefix_app in H. discriminate.
Qed.

Lemma dynamic_none : forall r s inh k,
  not_dynamic_key k = true -> env_get k (nextest_dynamic_layer r s inh) = None.
Proof.
  intros r s inh k H. unfold not_dynamic_key in H.
  rewrite !andb_true_iff in H. destruct H as [[[[Hb H1] H2] H3] Hs].
  apply negb_true_iff in Hb, H1, H2, H3.
  unfold nextest_dynamic_layer. rewrite env_get_app, bin_exe_none by assumption.
  unfold ld_dyld_layer. cbv zeta. rewrite !env_get_app.
  assert (Hv : str_eqb k (dylib_path_envvar (rc_platform r)) = false)
    by (destruct (rc_platform r); assumption).
  rewrite reexports_none by assumption.
  destruct (is_sip_sanitized (dylib_path_envvar (rc_platform r))) eqn:Esip;
    cbn [env_get]; rewrite Hv; [|reflexivity].
  destruct (str_eqb k (K.nextest_prefix ++ dylib_path_envvar (rc_platform r))) eqn:Ek;
    [|reflexivity].
  apply str_eqb_eq in Ek. subst k. rewrite strip_prefix_app in Hs. rewrite Esip in Hs.
  discriminate.
Qed.

(* every fixed key is outside the dynamic layer's reach, and is assigned exactly once among the
   fixed assignments; both are closed computations on the key *)
Lemma fixed_keys_not_dynamic : forall r s a k v,
  In (k, v) (nextest_fixed r s a) -> not_dynamic_key k = true.
Proof.
  intros r s a k v H. unfold nextest_fixed, nextest_static_layer, package_layer, executor_layer in H.
  cbn [app In] in H.
  repeat (destruct H as [H|H]; [inversion H; subst; vm_compute; reflexivity|]).
  contradiction.
Qed.

Lemma fixed_static_get : forall r s k v,
  In (k, v) (nextest_static_layer r s) -> env_get k (nextest_static_layer r s) = Some v.
Proof.
  intros r s k v H. unfold nextest_static_layer, package_layer in *. cbn [app In] in H.
  repeat (destruct H as [H|H]; [inversion H; subst; reflexivity|]).
  contradiction.
Qed.

Lemma fixed_executor_get : forall r a k v,
  In (k, v) (executor_layer r a) -> env_get k (executor_layer r a) = Some v.
Proof.
  intros r a k v H. unfold executor_layer in *. cbn [In] in H.
  repeat (destruct H as [H|H]; [inversion H; subst; reflexivity|]).
  contradiction.
Qed.

Lemma static_not_in_executor : forall r s a k v,
  In (k, v) (nextest_static_layer r s) -> env_get k (executor_layer r a) = None.
Proof.
  intros r s a k v H. unfold nextest_static_layer, package_layer in H. cbn [app In] in H.
  repeat (destruct H as [H|H]; [inversion H; subst; reflexivity|]).
  contradiction.
Qed.

Theorem env_fixed : forall r s a inherited e k v,
  test_assignments r s a inherited = Some e ->
  In (k, v) (nextest_fixed r s a) ->
  env_get k (ac_setup_env a) = None ->
  child_env_get k e inherited = Some v.
Proof.
  intros r s a inh e k v He Hin Hsetup.
  pose proof (fixed_keys_not_dynamic _ _ _ _ _ Hin) as Hnd.
  unfold test_assignments, make_command_assignments in He.
  destruct (cargo_layer inh (rc_cargo_env r)) as [c|]; [|discriminate].
  apply (f_equal (fun o => match o with Some x => x | None => [] end)) in He;
    cbv beta iota in He; subst e.
  unfold child_env_get. rewrite !env_get_app. rewrite Hsetup.
  unfold nextest_fixed in Hin. apply in_app_or in Hin. destruct Hin as [Hin|Hin].
  - rewrite (static_not_in_executor _ _ a _ _ Hin).
    rewrite dynamic_none by assumption.
    rewrite (fixed_static_get _ _ _ _ Hin). reflexivity.
  - rewrite (fixed_executor_get _ _ _ _ Hin). reflexivity.
Qed.

Lemma env_get_none_if_no_key : forall k (l : env),
  (forall k' v', In (k', v') l -> str_eqb k k' = false) -> env_get k l = None.
Proof.
  intros k l. induction l as [|[k0 v0] l IH]; intro H; [reflexivity|].
  cbn [env_get]. rewrite IH by (intros k' v' Hin; apply (H k' v'); right; assumption).
  rewrite (H k0 v0) by (left; reflexivity). reflexivity.
Qed.

(* Setup scripts cannot define variables whose name starts with NEXTEST (parse_env_file rejects
   them), so for the NEXTEST-prefixed variables the side condition is discharged. *)
Theorem env_fixed_nextest_keys : forall r s a inherited e k v,
  test_assignments r s a inherited = Some e ->
  (forall k' v', In (k', v') (ac_setup_env a) -> is_prefix K.NEXTEST k' = false) ->
  In (k, v) (nextest_fixed r s a) ->
  is_prefix K.NEXTEST k = true ->
  child_env_get k e inherited = Some v.
Proof.
  intros r s a inh e k v He Hsetup Hin Hpre. apply (env_fixed r s a inh e k v He Hin).
  apply env_get_none_if_no_key. intros k' v' Hk'.
  destruct (str_eqb k k') eqn:E; [|reflexivity].
  apply str_eqb_eq in E. subst k'. rewrite (Hsetup k v' Hk') in Hpre. discriminate.
Qed.

(* the same for what TestInstance::make_command alone assigns (what hook H5 observes) *)
Theorem env_fixed_make_command : forall r s inherited e k v,
  make_command_assignments r s inherited = Some e ->
  In (k, v) (nextest_static_layer r s) ->
  child_env_get k e inherited = Some v.
Proof.
  intros r s inh e k v He Hin.
  assert (Hnd : not_dynamic_key k = true).
  { apply (fixed_keys_not_dynamic r s
             {| ac_attempt := []; ac_global_slot := []; ac_group := []; ac_group_slot := None;
                ac_setup_env := [] |} k v).
    unfold nextest_fixed. apply in_or_app. left. assumption. }
  unfold make_command_assignments in He.
  destruct (cargo_layer inh (rc_cargo_env r)) as [c|]; [|discriminate].
  apply (f_equal (fun o => match o with Some x => x | None => [] end)) in He;
    cbv beta iota in He; subst e.
  unfold child_env_get. rewrite !env_get_app.
  rewrite dynamic_none by assumption.
  rewrite (fixed_static_get _ _ _ _ Hin). reflexivity.
Qed.

Theorem run_id_test : forall r s a inherited e,
  test_assignments r s a inherited = Some e ->
  env_get K.NEXTEST_RUN_ID (ac_setup_env a) = None ->
  child_env_get K.NEXTEST_RUN_ID e inherited = Some (rc_run_id r).
Proof.
  intros r s a inh e He Hs. apply (env_fixed r s a inh e); try assumption.
  unfold nextest_fixed. apply in_or_app. right. unfold executor_layer. cbn [In]. auto.
Qed.

Theorem run_id_script : forall r env_path inherited e,
  script_assignments r env_path inherited = Some e ->
  child_env_get K.NEXTEST_RUN_ID e inherited = Some (rc_run_id r).
Proof.
  intros r p inh e He. unfold script_assignments in He.
  destruct (cargo_layer inh (rc_cargo_env r)) as [c|]; [|discriminate].
  apply (f_equal (fun o => match o with Some x => x | None => [] end)) in He;
    cbv beta iota in He; subst e.
  unfold child_env_get. rewrite !env_get_app. reflexivity.
Qed.

(* a variable nextest does not assign keeps the cargo [env] / inherited value:
   non-forced cargo entries never replace an inherited variable *)
Lemma cargo_layer_keeps_inherited : forall inh vars l k,
  cargo_layer inh vars = Some l ->
  (forall v, In v vars -> str_eqb k (cv_name v) = true -> unwrap_or_false (cv_force v) = false) ->
  env_mem k inh = true ->
  env_get k l = None.
Proof.
  intros inh vars. induction vars as [|v vars IH]; intros l k H Hf Hm.
  - inversion H. reflexivity.
  - cbn [cargo_layer] in H.
    destruct (env_mem (cv_name v) inh && negb (unwrap_or_false (cv_force v))) eqn:E.
    + apply IH; try assumption. intros v' Hv'. apply Hf. right. assumption.
    + destruct (cargo_var_value v) as [x|]; [|discriminate].
      destruct (cargo_layer inh vars) as [l'|] eqn:El; [|discriminate].
      inversion H; subst l; clear H. cbn [env_get].
      rewrite (IH l' k eq_refl) by (try assumption; intros v' Hv'; apply Hf; right; assumption).
      destruct (str_eqb k (cv_name v)) eqn:Ek; [|reflexivity].
      pose proof (Hf v (or_introl eq_refl) Ek) as Hfv.
      apply str_eqb_eq in Ek. subst k. rewrite Hm, Hfv in E. discriminate.
Qed.

(* ---- CARGO_PKG_RUST_VERSION against the manifest value (known finding F15a) *)

Lemma rust_version_outside_known : forall p,
  rust_version_two_components p = false ->
  env_get K.CARGO_PKG_RUST_VERSION (package_layer p) = Some (unwrap_or_default (p_rust_version p)).
Proof.
  intros p H. unfold package_layer. cbn [env_get].
  change (str_eqb K.CARGO_PKG_RUST_VERSION K.CARGO_PKG_RUST_VERSION) with true. cbn iota.
  unfold rust_version_two_components in H. unfold pad_rust_version.
  destruct (p_rust_version p) as [v|]; [|reflexivity]. rewrite H. reflexivity.
Qed.
