(* The image of the filterset parser (C20, stretch): whatever [parse] accepts has the canonical
   shape and printable contents, so the round trip holds for every successfully parsed
   expression -- the property's own wording. *)
From NextestModel Require Import Base.Str Model.FiltersetAst Model.FiltersetParse.
From NextestModel Require Import Base.Tac Proofs.FiltersetParse Proofs.FiltersetRoundtrip.
Open Scope N_scope.


(* ---------------------------------------------------------------- the image of the parser *)

(* a well-formed input: every element is a Unicode scalar value (always so for a Rust &str) *)
Definition vs (s : str) : Prop := forallb valid_scalar s = true.

Lemma vs_cons c s : vs (c :: s) <-> valid_scalar c = true /\ vs s.
Proof. unfold vs. cbn [forallb]. apply Bool.andb_true_iff. Qed.
Lemma vs_tail c s : vs (c :: s) -> vs s.
Proof. intros H. apply vs_cons in H. tauto. Qed.
Lemma vs_app a b : vs (a ++ b) <-> vs a /\ vs b.
Proof. unfold vs. rewrite forallb_app. apply Bool.andb_true_iff. Qed.
Lemma vs_nil : vs [].
Proof. reflexivity. Qed.

Lemma ws_skip_vs s : vs s -> vs (ws_skip s).
Proof.
  induction s as [s IH] using str_len_ind. intros H.
  destruct s as [|c r]; cbn [ws_skip]; [exact H|].
  destruct (c =? 32); [apply IH; [cbn; lia|eapply vs_tail; exact H]|].
  destruct (c =? 10); [apply IH; [cbn; lia|eapply vs_tail; exact H]|].
  destruct (c =? 13); [|exact H].
  destruct r as [|d r']; [exact H|]. destruct (d =? 10); [|exact H].
  apply IH; [cbn; lia|]. eapply vs_tail, vs_tail, H.
Qed.

Lemma strip_prefix_vs p s r : strip_prefix p s = Some r -> vs s -> vs r.
Proof. intros E H. apply strip_prefix_app in E. subst s. apply vs_app in H. tauto. Qed.

Lemma expect_char_vs c k s r es : expect_char c k s = (r, es) -> vs s -> vs r.
Proof.
  unfold expect_char. intros E H. pose proof (ws_skip_vs s H) as Hw.
  destruct (ws_skip s) as [|d r']; [injection E as <- <-; exact H|].
  destruct (d =? c); injection E as <- <-; [eapply vs_tail; exact Hw|exact H].
Qed.

Lemma expect_char_noerr c k s r : expect_char c k s = (r, []) -> True.
Proof. auto. Qed.

Lemma till_rparen_vs s : vs s -> vs (snd (till_rparen s)).
Proof.
  induction s as [|c r IH]; intros H; cbn [till_rparen]; [exact H|].
  destruct (c =? 41); [exact H|]. destruct (till_rparen r) as [a rest]. cbn [snd] in *.
  apply IH. eapply vs_tail; exact H.
Qed.

Lemma take_hex_len n s : (length (take_hex n s) <= n)%nat.
Proof.
  revert s. induction n as [|n IH]; intros s; [cbn; lia|]. destruct s as [|c r]; [cbn; lia|].
  cbn [take_hex]. destruct (is_hex c); [cbn [length]; specialize (IH r); lia|cbn; lia].
Qed.

Lemma esc_decode_valid r ch k : esc_decode r = Some (ch, k) -> valid_scalar ch = true.
Proof.
  unfold esc_decode. destruct r as [|c r1]; [discriminate|].
  destruct (c =? 117).
  { unfold decode_unicode. destruct r1 as [|c2 r2]; [discriminate|]. destruct (c2 =? 123); [|discriminate].
    destruct (take_hex 6 r2) as [|d ds] eqn:E; [discriminate|].
    destruct (skipn (length (d :: ds)) r2) as [|x xs]; [discriminate|].
    destruct (x =? 125); [|discriminate].
    destruct (valid_scalar (hex_value (d :: ds))) eqn:V; [|discriminate].
    intros H. injection H as <- _. exact V. }
  repeat match goal with
         | |- context [if ?b then _ else _] => destruct b; [intros H; injection H as <- _; reflexivity|]
         end.
  discriminate.
Qed.

Lemma pstr_img s : forall skip a rest es,
  pstr skip s = (a, rest, es) -> vs s -> vs rest /\ (forall v, a = Some v -> vs v).
Proof.
  induction s as [|c r IH]; intros skip a rest es H Hv; cbn [pstr] in H.
  - injection H as <- <- <-. split; [exact Hv|]. intros v E. injection E as <-. exact vs_nil.
  - apply vs_cons in Hv. destruct Hv as [Hc Hr]. destruct skip as [|k].
    + destruct ((c =? 44) || (c =? 41)).
      { injection H as <- <- <-. split; [apply vs_cons; tauto|]. intros v E. injection E as <-. exact vs_nil. }
      destruct (c =? 92).
      * destruct (esc_decode r) as [[ch k]|] eqn:Ed.
        -- destruct (pstr k r) as [[a' rest'] es'] eqn:E. injection H as <- <- <-.
           destruct (IH _ _ _ _ E Hr) as [H1 H2]. split; [exact H1|].
           intros v Ev. destruct a' as [v'|]; [|discriminate]. injection Ev as <-.
           apply vs_cons. split; [eapply esc_decode_valid; exact Ed|apply H2; reflexivity].
        -- destruct (pstr 0 r) as [[a' rest'] es'] eqn:E. injection H as <- <- <-.
           destruct (IH _ _ _ _ E Hr) as [H1 H2]. split; [exact H1|discriminate].
      * destruct (pstr 0 r) as [[a' rest'] es'] eqn:E. injection H as <- <- <-.
        destruct (IH _ _ _ _ E Hr) as [H1 H2]. split; [exact H1|].
        intros v Ev. destruct a' as [v'|]; [|discriminate]. injection Ev as <-.
        apply vs_cons. split; [exact Hc|apply H2; reflexivity].
    + exact (IH _ _ _ _ H Hr).
Qed.

Lemma app_nil_both {A} (x y : list A) : x ++ y = [] -> x = [] /\ y = [].
Proof. destruct x; cbn; [auto|discriminate]. Qed.

Lemma pmt_img s res rest es :
  pmt s = (res, rest, es) -> vs s ->
  vs rest /\ (forall v, res = Some v -> es = [] -> text_ok v = true).
Proof.
  unfold pmt. destruct (pstr 0 s) as [[a r] e] eqn:E. intros H Hv. injection H as <- <- <-.
  destruct (pstr_img _ _ _ _ _ E Hv) as [H1 H2]. split; [exact H1|].
  intros v Ev Hes. subst a. apply app_nil_both in Hes. destruct Hes as [_ Hes].
  destruct v as [|c v]; [discriminate|]. exact (H2 _ eq_refl).
Qed.

Section Img.
Variable SO : syntax_oracle.

Lemma parse_glob_img imp s m rest es :
  parse_glob SO imp s = (m, rest, es) -> vs s ->
  vs rest /\ (forall x, m = Some x -> es = [] ->
              exists g, x = MGlob g imp /\ text_ok g = true /\ glob_ok SO g = true).
Proof.
  unfold parse_glob. destruct (pmt s) as [[res r] e] eqn:E. intros H Hv.
  destruct (pmt_img _ _ _ _ E Hv) as [H1 H2].
  destruct res as [g|]; [|injection H as <- <- <-; split; [exact H1|discriminate]].
  destruct (glob_ok SO g) eqn:Eg; injection H as <- <- <-; (split; [exact H1|]); [|discriminate].
  intros x Ex Hes. injection Ex as <-. exists g. repeat split; auto.
Qed.

Lemma prx_nonempty d r p rest : prx (d :: r) = Some (p, rest) -> d <> 47 -> p <> [].
Proof.
  intros H Hd. cbn [prx] in H. rewrite (proj2 (N.eqb_neq d 47) Hd) in H.
  destruct (d =? 92).
  - destruct r as [|d' r']; [discriminate|]. destruct (d' =? 47).
    + destruct (prx r') as [[p' rest']|]; [|discriminate]. injection H as <- _. discriminate.
    + destruct (prx (d' :: r')) as [[p' rest']|]; [|discriminate]. injection H as <- _. discriminate.
  - destruct (prx r) as [[p' rest']|]; [|discriminate]. injection H as <- _. discriminate.
Qed.

Lemma ntb_cons c p : c <> 92 \/ p <> [] -> no_trailing_backslash p = true ->
  no_trailing_backslash (c :: p) = true.
Proof.
  intros H Hp. cbn [no_trailing_backslash]. destruct p as [|d p']; [|exact Hp].
  destruct H as [H|H]; [|congruence]. apply Bool.negb_true_iff, N.eqb_neq, H.
Qed.

Lemma prx_img s : forall p rest,
  prx s = Some (p, rest) -> vs s -> vs rest /\ no_trailing_backslash p = true.
Proof.
  induction s as [s IH] using str_len_ind. intros p rest H Hv.
  destruct s as [|c r]; [discriminate|]. pose proof H as H0. cbn [prx] in H.
  destruct (N.eqb_spec c 47) as [->|H47].
  { injection H as <- <-. split; [exact Hv|reflexivity]. }
  destruct (N.eqb_spec c 92) as [->|H92].
  - destruct r as [|d r']; [discriminate|]. destruct (N.eqb_spec d 47) as [->|Hd].
    + destruct (prx r') as [[p' rest']|] eqn:E; [|discriminate]. injection H as <- <-.
      destruct (IH r' ltac:(cbn; lia) _ _ E ltac:(eapply vs_tail, vs_tail, Hv)) as [H1 H2].
      split; [exact H1|]. apply ntb_cons; [left; discriminate|exact H2].
    + destruct (prx (d :: r')) as [[p' rest']|] eqn:E; [|discriminate]. injection H as <- <-.
      destruct (IH (d :: r') ltac:(cbn; lia) _ _ E ltac:(eapply vs_tail, Hv)) as [H1 H2].
      split; [exact H1|]. apply ntb_cons; [right; eapply prx_nonempty; eassumption|exact H2].
  - destruct (prx r) as [[p' rest']|] eqn:E; [|discriminate]. injection H as <- <-.
    destruct (IH r ltac:(cbn; lia) _ _ E ltac:(eapply vs_tail, Hv)) as [H1 H2].
    split; [exact H1|]. apply ntb_cons; [left; exact H92|exact H2].
Qed.

Lemma regex_matcher_img s m rest es :
  regex_matcher SO s = (m, rest, es) -> vs s ->
  vs rest /\ (forall x, m = Some x -> forall dm, matcher_ok SO dm x = true).
Proof.
  unfold regex_matcher. intros H Hv.
  assert (Hclose : forall r0, vs r0 ->
            vs (match ws_skip r0 with c :: r => if c =? 47 then r else r0 | [] => r0 end)).
  { intros r0 Hr. pose proof (ws_skip_vs r0 Hr) as Hw. destruct (ws_skip r0) as [|c r]; [exact Hr|].
    destruct (c =? 47); [eapply vs_tail; exact Hw|exact Hr]. }
  destruct (prx s) as [[p r0]|] eqn:E.
  - destruct (prx_img _ _ _ E Hv) as [H1 H2].
    destruct (regex_check SO p) eqn:Er; injection H as <- <- <-; (split; [apply Hclose, H1|]); try discriminate.
    intros x Ex dm. injection Ex as <-. cbn [matcher_ok]. rewrite Er. exact H2.
  - injection H as <- <- <-. split; [apply Hclose, till_rparen_vs, Hv|discriminate].
Qed.

Lemma map_text_img (f : str -> matcher) s m rest es :
  map_text f (pmt s) = (m, rest, es) -> vs s ->
  vs rest /\ (forall x, m = Some x -> es = [] -> exists v, x = f v /\ text_ok v = true).
Proof.
  unfold map_text. destruct (pmt s) as [[res r'] e] eqn:E. intros H Hv. injection H as <- <- <-.
  destruct (pmt_img _ _ _ _ E Hv) as [H1 H2]. split; [exact H1|].
  intros x Ex Hes. destruct res as [v|]; [|discriminate]. injection Ex as <-.
  exists v. split; [reflexivity|]. apply H2; auto.
Qed.

Lemma set_matcher_img dm s m rest es :
  set_matcher SO dm s = (m, rest, es) -> vs s ->
  vs rest /\ (forall x, m = Some x -> es = [] -> matcher_ok SO dm x = true).
Proof.
  unfold set_matcher. intros H Hv. pose proof (ws_skip_vs s Hv) as Hw. set (s1 := ws_skip s) in *.
  assert (Hd : forall m rest es,
            match dm with
            | DmEqual => map_text (fun v => MEqual v true) (pmt s1)
            | DmContains => map_text (fun v => MContains v true) (pmt s1)
            | DmGlob => parse_glob SO true s1
            end = (m, rest, es) ->
            vs rest /\ (forall x, m = Some x -> es = [] -> matcher_ok SO dm x = true)).
  { intros m0 rest0 es0 E. destruct dm.
    - destruct (map_text_img _ s1 _ _ _ E Hw) as [H1 H2]. split; [exact H1|].
      intros x Ex Hes. destruct (H2 x Ex Hes) as [v [-> Ht]]. cbn. rewrite Ht. reflexivity.
    - destruct (map_text_img _ s1 _ _ _ E Hw) as [H1 H2]. split; [exact H1|].
      intros x Ex Hes. destruct (H2 x Ex Hes) as [v [-> Ht]]. cbn. rewrite Ht. reflexivity.
    - destruct (parse_glob_img _ _ _ _ _ E Hw) as [H1 H2]. split; [exact H1|].
      intros x Ex Hes. destruct (H2 x Ex Hes) as [g [-> [Ht Hg]]]. cbn. rewrite Ht, Hg. reflexivity. }
  destruct s1 as [|c r]; [exact (Hd _ _ _ H)|].
  assert (Hr : vs r) by (eapply vs_tail; exact Hw).
  destruct (c =? 47).
  { destruct (regex_matcher_img _ _ _ _ H Hr) as [H1 H2]. split; [exact H1|]. intros x Ex _. apply H2, Ex. }
  destruct (c =? 35).
  { destruct (parse_glob_img _ _ _ _ _ H Hr) as [H1 H2]. split; [exact H1|].
    intros x Ex Hes. destruct (H2 x Ex Hes) as [g [-> [Ht Hg]]]. cbn. rewrite Ht, Hg. reflexivity. }
  destruct (c =? 61).
  { destruct (map_text_img _ r _ _ _ H Hr) as [H1 H2]. split; [exact H1|].
    intros x Ex Hes. destruct (H2 x Ex Hes) as [v [-> Ht]]. cbn. rewrite Ht. reflexivity. }
  destruct (c =? 126).
  { destruct (map_text_img _ r _ _ _ H Hr) as [H1 H2]. split; [exact H1|].
    intros x Ex Hes. destruct (H2 x Ex Hes) as [v [-> Ht]]. cbn. rewrite Ht. reflexivity. }
  exact (Hd _ _ _ H).
Qed.

Lemma recover_comma_vs s r es : recover_comma s = (r, es) -> vs s -> vs r.
Proof.
  unfold recover_comma. intros H Hv. destruct (ws_skip s) as [|c r']; [injection H as <- <-; exact Hv|].
  destruct (c =? 44); injection H as <- <-; [apply till_rparen_vs, Hv|exact Hv].
Qed.

(* result of a set-definition parser *)
Definition set_img (s : str) (res : option setdef * str * list perr) : Prop :=
  let '(d, rest, es) := res in
  vs s -> vs rest /\ (forall x, d = Some x -> es = [] -> setdef_ok SO x = true).

Lemma unary_set_img dm mk s :
  (forall m, setdef_ok SO (mk m) = matcher_ok SO dm m) -> set_img s (unary_set SO dm mk s).
Proof.
  intros Hmk. unfold unary_set, set_img.
  destruct (expect_char 40 EExpectedOpenParen s) as [s1 e1] eqn:E1.
  destruct (set_matcher SO dm s1) as [[m s2] e2] eqn:E2.
  destruct (recover_comma s2) as [s3 e3] eqn:E3.
  destruct (expect_char 41 EExpectedCloseParen s3) as [s4 e4] eqn:E4.
  intros Hv. pose proof (expect_char_vs _ _ _ _ _ E1 Hv) as V1.
  destruct (set_matcher_img _ _ _ _ _ E2 V1) as [V2 Hm].
  pose proof (recover_comma_vs _ _ _ E3 V2) as V3. pose proof (expect_char_vs _ _ _ _ _ E4 V3) as V4.
  split; [exact V4|]. intros x Ex Hes. destruct m as [m|]; [|discriminate]. injection Ex as <-.
  apply app_nil_both in Hes. destruct Hes as [_ Hes]. apply app_nil_both in Hes. destruct Hes as [Hes _].
  rewrite Hmk. apply Hm; auto.
Qed.

Lemma platform_set_img s : set_img s (platform_set s).
Proof.
  unfold platform_set, set_img.
  destruct (expect_char 40 EExpectedOpenParen s) as [s1 e1] eqn:E1.
  destruct (pmt (ws_skip s1)) as [[res s2] e2] eqn:E2.
  destruct (recover_comma s2) as [s3 e3] eqn:E3.
  destruct (expect_char 41 EExpectedCloseParen s3) as [s4 e4] eqn:E4.
  assert (V : vs s -> vs s4).
  { intros Hv. pose proof (expect_char_vs _ _ _ _ _ E1 Hv) as V1.
    destruct (pmt_img _ _ _ _ E2 (ws_skip_vs _ V1)) as [V2 _].
    pose proof (recover_comma_vs _ _ _ E3 V2) as V3. exact (expect_char_vs _ _ _ _ _ E4 V3). }
  destruct res as [t|]; [|intros Hv; split; [exact (V Hv)|discriminate]].
  destruct (str_eqb (trim t) s_host);
    [intros Hv; split; [exact (V Hv)|intros x Ex _; injection Ex as <-; reflexivity]|].
  destruct (str_eqb (trim t) s_target);
    [intros Hv; split; [exact (V Hv)|intros x Ex _; injection Ex as <-; reflexivity]|].
  intros Hv. split; [exact (V Hv)|discriminate].
Qed.

Lemma nullary_set_img d s : setdef_ok SO d = true -> set_img s (nullary_set d s).
Proof.
  intros Hd. unfold nullary_set, set_img.
  destruct (expect_char 40 EExpectedOpenParen s) as [s1 e1] eqn:E1.
  pose proof (till_rparen_vs s1) as Ht. destruct (till_rparen s1) as [arg s2]. cbn [snd] in Ht.
  destruct (expect_char 41 EExpectedCloseParen s2) as [s3 e3] eqn:E3.
  intros Hv. pose proof (expect_char_vs _ _ _ _ _ E1 Hv) as V1.
  pose proof (expect_char_vs _ _ _ _ _ E3 (Ht V1)) as V3.
  split; [exact V3|]. intros x Ex _. injection Ex as <-. exact Hd.
Qed.

Lemma first_named_img (tbl : list (str * (str -> option setdef * str * list perr))) s :
  Forall (fun nf => forall x, set_img x (snd nf x)) tbl ->
  match first_named tbl s with Some res => set_img s res | None => True end.
Proof.
  induction tbl as [|[name f] t IH]; intros H; cbn [first_named]; [exact I|].
  inversion H as [|? ? Hf Ht]; subst. cbn [snd] in Hf.
  destruct (strip_prefix name s) as [rest|] eqn:E; [|apply IH, Ht].
  specialize (Hf rest). unfold set_img in *. destruct (f rest) as [[d r] es].
  intros Hv. apply Hf. eapply strip_prefix_vs; eassumption.
Qed.

Lemma parse_set_def_img s :
  match parse_set_def SO s with Some res => set_img s res | None => True end.
Proof.
  unfold parse_set_def. pose proof (first_named_img (set_def_table SO) (ws_skip s)) as H.
  destruct (first_named (set_def_table SO) (ws_skip s)) as [res|]; [|exact I].
  assert (Ht : Forall (fun nf => forall x, set_img x (snd nf x)) (set_def_table SO)).
  { unfold set_def_table. repeat constructor; cbn [snd]; intros x;
      try (apply unary_set_img; intros m; reflexivity); try apply platform_set_img;
      try (apply nullary_set_img; reflexivity). }
  specialize (H Ht). unfold set_img in *. destruct res as [[d r] es]. intros Hv. apply H, ws_skip_vs, Hv.
Qed.

(* ---- operators only move forward in the input *)
Lemma parse_not_op_vs s op r : parse_not_op s = Some (op, r) -> vs s -> vs r.
Proof.
  unfold parse_not_op. destruct (strip_prefix s_not_sp s) as [r'|] eqn:E.
  - intros H Hv. injection H as <- <-. eapply strip_prefix_vs; eassumption.
  - destruct s as [|c r']; [discriminate|]. destruct (c =? 33); [|discriminate].
    intros H Hv. injection H as <- <-. eapply vs_tail; exact Hv.
Qed.

Lemma parse_or_op_img s op r es :
  parse_or_op s = Some (op, r, es) -> vs s -> vs r /\ (es = [] -> op <> None).
Proof.
  unfold parse_or_op. intros H Hv. pose proof (ws_skip_vs s Hv) as Hw. set (s1 := ws_skip s) in *.
  destruct (strip_prefix s_pipepipe s1) as [r'|] eqn:E1.
  { injection H as <- <- <-. split; [eapply strip_prefix_vs; eassumption|discriminate]. }
  destruct (strip_prefix s_OR_sp s1) as [r'|] eqn:E2.
  { injection H as <- <- <-. split; [eapply strip_prefix_vs; eassumption|discriminate]. }
  destruct (strip_prefix s_or_sp s1) as [r'|] eqn:E3.
  { injection H as <- <- <-. split; [eapply strip_prefix_vs; eassumption|discriminate]. }
  destruct s1 as [|c r']; [discriminate|].
  destruct (c =? 124); [injection H as <- <- <-; split; [eapply vs_tail; exact Hw|discriminate]|].
  destruct (c =? 43); [injection H as <- <- <-; split; [eapply vs_tail; exact Hw|discriminate]|discriminate].
Qed.

Lemma parse_and_op_img s op r es :
  parse_and_op s = Some (op, r, es) -> vs s -> vs r /\ (es = [] -> op <> None).
Proof.
  unfold parse_and_op. intros H Hv. pose proof (ws_skip_vs s Hv) as Hw. set (s1 := ws_skip s) in *.
  destruct (strip_prefix s_ampamp s1) as [r'|] eqn:E1.
  { injection H as <- <- <-. split; [eapply strip_prefix_vs; eassumption|discriminate]. }
  destruct (strip_prefix s_AND_sp s1) as [r'|] eqn:E2.
  { injection H as <- <- <-. split; [eapply strip_prefix_vs; eassumption|discriminate]. }
  destruct (strip_prefix s_and_sp s1) as [r'|] eqn:E3.
  { injection H as <- <- <-. split; [eapply strip_prefix_vs; eassumption|discriminate]. }
  destruct s1 as [|c r']; [discriminate|].
  destruct (c =? 38); [injection H as <- <- <-; split; [eapply vs_tail; exact Hw|discriminate]|].
  destruct (c =? 45); [injection H as <- <- <-; split; [eapply vs_tail; exact Hw|discriminate]|discriminate].
Qed.

(* ---- expression levels *)
Definition nice (lvl : nat) (e : pexpr) : Prop := canon lvl e = true /\ printable SO e = true.

(* [P] collects "no error so far": the claim about the tree is only made when every error list
   on the way was empty *)
Definition eimg (lvl : nat) (s : str) (res : eres) : Prop :=
  let '(r, rest, es) := res in
  vs s -> vs rest /\ (forall e, r = Some e -> es = [] -> nice lvl e).

Section ImgLevels.
Variable basic : str -> option eres.
Hypothesis Hbasic : forall s, match basic s with Some res => eimg 2 s res | None => True end.

Lemma expect_basic_img s : eimg 2 s (expect_basic basic s).
Proof.
  unfold expect_basic. specialize (Hbasic s). destruct (basic s) as [res|]; [exact Hbasic|].
  unfold eimg. intros Hv. split; [exact Hv|discriminate].
Qed.

Lemma and_loop_img k : forall (P : Prop) acc s,
  (P -> forall a, acc = Some a -> nice 1 a) -> vs s ->
  let '(res, rest, es) := and_loop basic k acc s in
  vs rest /\ (P -> forall e, res = Some e -> es = [] -> nice 1 e).
Proof.
  induction k as [|k IH]; intros P acc s Hacc Hv; cbn [and_loop].
  - destruct (parse_and_op s) as [[[op s1] e1]|]; [split; [exact Hv|discriminate]|].
    split; [exact Hv|]. intros HP e Ee _. apply Hacc; auto.
  - destruct (parse_and_op s) as [[[op s1] e1]|] eqn:Eop.
    + destruct (parse_and_op_img _ _ _ _ Eop Hv) as [V1 Hop].
      pose proof (expect_basic_img s1) as Hb. destruct (expect_basic basic s1) as [[r s2] e2].
      destruct (Hb V1) as [V2 Hr].
      specialize (IH (P /\ e1 = [] /\ e2 = []) (combine_and op acc r) s2).
      destruct (and_loop basic k (combine_and op acc r) s2) as [[res s3] e3].
      assert (Hacc' : (P /\ e1 = [] /\ e2 = []) -> forall a, combine_and op acc r = Some a -> nice 1 a).
      { intros [HP [He1 He2]] a Ea. destruct op as [[o|o]|]; destruct acc as [x|]; destruct r as [y|];
          try discriminate; injection Ea as <-;
          destruct (Hacc HP x eq_refl) as [Cx Px]; destruct (Hr y eq_refl He2) as [Cy Py];
          split; cbn [canon printable]; rewrite ?Cx, ?Cy, ?Px, ?Py; reflexivity. }
      destruct (IH Hacc' V2) as [V3 Hres]. split; [exact V3|].
      intros HP e Ee Hes. apply app_nil_both in Hes. destruct Hes as [He1 Hes].
      apply app_nil_both in Hes. destruct Hes as [He2 He3]. apply Hres; auto.
    + split; [exact Hv|]. intros HP e Ee _. apply Hacc; auto.
Qed.

Lemma and_expr_img k s : eimg 1 s (and_expr basic k s).
Proof.
  unfold and_expr, eimg. pose proof (expect_basic_img s) as Hb.
  destruct (expect_basic basic s) as [[r s1] e1].
  pose proof (and_loop_img k (e1 = []) r s1) as Hl.
  destruct (and_loop basic k r s1) as [[res s2] e2].
  intros Hv. destruct (Hb Hv) as [V1 Hr].
  assert (Hacc : e1 = [] -> forall a, r = Some a -> nice 1 a).
  { intros He a Ea. destruct (Hr a Ea He) as [C Pr]. split; [apply canon_mono, C|exact Pr]. }
  destruct (Hl Hacc V1) as [V2 Hres]. split; [exact V2|].
  intros e Ee Hes. apply app_nil_both in Hes. destruct Hes as [He1 He2]. apply Hres; auto.
Qed.

Lemma or_loop_img k : forall (P : Prop) acc s,
  (P -> forall a, acc = Some a -> nice 0 a) -> vs s ->
  let '(res, rest, es) := or_loop basic k acc s in
  vs rest /\ (P -> forall e, res = Some e -> es = [] -> nice 0 e).
Proof.
  induction k as [|k IH]; intros P acc s Hacc Hv; cbn [or_loop].
  - destruct (parse_or_op s) as [[[op s1] e1]|]; [split; [exact Hv|discriminate]|].
    split; [exact Hv|]. intros HP e Ee _. apply Hacc; auto.
  - destruct (parse_or_op s) as [[[op s1] e1]|] eqn:Eop.
    + destruct (parse_or_op_img _ _ _ _ Eop Hv) as [V1 Hop].
      pose proof (and_expr_img (S k) s1) as Hb. destruct (and_expr basic (S k) s1) as [[r s2] e2].
      destruct (Hb V1) as [V2 Hr].
      specialize (IH (P /\ e1 = [] /\ e2 = []) (combine_or op acc r) s2).
      destruct (or_loop basic k (combine_or op acc r) s2) as [[res s3] e3].
      assert (Hacc' : (P /\ e1 = [] /\ e2 = []) -> forall a, combine_or op acc r = Some a -> nice 0 a).
      { intros [HP [He1 He2]] a Ea. destruct op as [o|]; destruct acc as [x|]; destruct r as [y|];
          try discriminate; injection Ea as <-;
          destruct (Hacc HP x eq_refl) as [Cx Px]; destruct (Hr y eq_refl He2) as [Cy Py];
          split; cbn [canon printable]; rewrite ?Cx, ?Cy, ?Px, ?Py; reflexivity. }
      destruct (IH Hacc' V2) as [V3 Hres]. split; [exact V3|].
      intros HP e Ee Hes. apply app_nil_both in Hes. destruct Hes as [He1 Hes].
      apply app_nil_both in Hes. destruct Hes as [He2 He3]. apply Hres; auto.
    + split; [exact Hv|]. intros HP e Ee _. apply Hacc; auto.
Qed.

Lemma or_expr_img k s : eimg 0 s (or_expr basic k s).
Proof.
  unfold or_expr, eimg. pose proof (and_expr_img k s) as Hb.
  destruct (and_expr basic k s) as [[r s1] e1].
  pose proof (or_loop_img k (e1 = []) r s1) as Hl.
  destruct (or_loop basic k r s1) as [[res s2] e2].
  intros Hv. destruct (Hb Hv) as [V1 Hr].
  assert (Hacc : e1 = [] -> forall a, r = Some a -> nice 0 a).
  { intros He a Ea. destruct (Hr a Ea He) as [C Pr]. split; [apply canon_mono, C|exact Pr]. }
  destruct (Hl Hacc V1) as [V2 Hres]. split; [exact V2|].
  intros e Ee Hes. apply app_nil_both in Hes. destruct Hes as [He1 He2]. apply Hres; auto.
Qed.
End ImgLevels.

Lemma basic_img n : forall s, match basic SO n s with Some res => eimg 2 s res | None => True end.
Proof.
  induction n as [|n IH]; intros s; cbn [basic].
  - unfold eimg. intros Hv. split; [exact Hv|discriminate].
  - set (s1 := ws_skip s). pose proof (parse_set_def_img s1) as Hsd.
    destruct (parse_set_def SO s1) as [[[d rest] es]|].
    { unfold eimg, set_img in *. intros Hv. destruct (Hsd (ws_skip_vs s Hv)) as [V Hd]. split; [exact V|].
      intros e Ee Hes. destruct d as [x|]; [|discriminate]. injection Ee as <-.
      split; [reflexivity|]. cbn [printable]. apply Hd; auto. }
    destruct (parse_not_op s1) as [[op s2]|] eqn:En.
    { specialize (IH s2). destruct (basic SO n s2) as [[[r s3] es]|].
      - unfold eimg in *. intros Hv.
        destruct (IH (parse_not_op_vs _ _ _ En (ws_skip_vs s Hv))) as [V Hr]. split; [exact V|].
        intros e Ee Hes. destruct r as [a|]; [|discriminate]. injection Ee as <-.
        destruct (Hr a eq_refl Hes) as [C Pr]. split; [exact C|exact Pr].
      - unfold eimg. intros Hv. split; [|discriminate].
        exact (parse_not_op_vs _ _ _ En (ws_skip_vs s Hv)). }
    destruct s1 as [|c s2] eqn:Es1; [exact I|]. destruct (c =? 40); [|exact I].
    pose proof (or_expr_img (basic SO n) IH n s2) as Ho.
    destruct (or_expr (basic SO n) n s2) as [[r s3] e3].
    destruct (expect_char 41 EExpectedCloseParen s3) as [s4 e4] eqn:E4.
    unfold eimg in *. intros Hv.
    assert (V2 : vs s2) by (pose proof (ws_skip_vs s Hv) as Hw; fold s1 in Hw; rewrite Es1 in Hw; eapply vs_tail; exact Hw).
    destruct (Ho V2) as [V3 Hr]. split; [eapply expect_char_vs; eassumption|].
    intros e Ee Hes. destruct r as [u|]; [|discriminate]. injection Ee as <-.
    apply app_nil_both in Hes. destruct Hes as [He3 _].
    destruct (Hr u eq_refl He3) as [C Pr]. split; [exact C|exact Pr].
Qed.

Theorem parse_produces_canonical s e :
  vs s -> parse SO s = POk e -> canonical e /\ printable SO e = true.
Proof.
  intros Hv. unfold parse, parse_raw, parse_fuel.
  pose proof (or_expr_img (basic SO (S (length s))) (basic_img (S (length s))) (S (length s)) s) as Ho.
  destruct (or_expr (basic SO (S (length s))) (S (length s)) s) as [[r s1] e1].
  destruct (Ho Hv) as [_ Hr].
  destruct r as [x|]; [|intros H; destruct (e1 ++ _); discriminate].
  destruct (e1 ++ match ws_skip s1 with [] => [] | _ :: _ => [err_at EExpectedEnd s1 (blen s1)] end) eqn:Ees;
    [|discriminate].
  intros H. injection H as <-. apply app_nil_both in Ees. destruct Ees as [He1 _].
  exact (Hr x eq_refl He1).
Qed.

Theorem roundtrip_parsed s e :
  vs s -> parse SO s = POk e -> parse SO (print e) = POk e.
Proof.
  intros Hv H. destruct (parse_produces_canonical s e Hv H) as [Hc Hp]. apply roundtrip; assumption.
Qed.
End Img.
