(* The two models of the wait between attempts (handle_delay_between_attempts) are the same
   machine: Model/DelayWait.v ([wstep], hand-written Stop / Continue arms) and the retry-delay
   loop of Model/UnitTimers.v ([dstep], whose Stop / Continue arms are the pause table that
   harness/src/bin/pause_table.rs regenerates from executor.rs on every run). Under a finite
   certificate on the table ([dcert2]: the three arm evaluations of [dcert] plus "Stop while
   stopped panics") they agree on (remaining delay, paused flag, done / how) after every event
   sequence whatsoever, panics included. *)
From NextestModel Require Import Base.Str Base.Tac Model.Clocks Model.UnitTimers Model.AbsTimers
  Proofs.Timers Proofs.DelayProps Model.DelayWait Proofs.DelayWait.
Open Scope N_scope.

(* the requests / timer events of the unit model, as events of the DelayWait machine *)
Definition wev (e : devent) : wevent :=
  match e with
  | DTick dt => DelayWait.Tick dt
  | DFire => WFire
  | DReq RStop => WStop
  | DReq RContinue => WContinue
  | DReq (RShutdown _) => WShutdown
  | DReq ROtherCancel => WOtherCancel
  | DReq RGetInfo => WQuery
  end.

(* what the DelayWait machine sees of a state of the unit model's delay loop *)
Definition wabs (s : dstate) : wstate :=
  if d_done s then Done (if d_cancelled s then CutShort else Expired)
  else Waiting (rem (k_dsl (d_ck s))) (lpaused (k_dsl (d_ck s))).

Definition wabs_out (o : outcome (dstate * list uout)) : wstate :=
  match o with Ok r => wabs (fst r) | Panicked => WPanicked end.

Definition is_panic {A : Type} (o : outcome A) : bool :=
  match o with Panicked => true | Ok _ => false end.

(* [dcert] + a Stop request reaching a loop that is already stopped panics (PausableSleep::pause) *)
Definition dcert2 (tbl : ptable) : bool :=
  dcert tbl && is_panic (exec_arm true (dclocks true) (t_delay_stop tbl)).

(* ---- the arms never touch a number: only pause flags change *)
Definition dsl_rem (c : clocks) : N := rem (k_dsl c).

Lemma clk_pause_rem c k c' : clk_pause c k = Ok c' -> dsl_rem c' = dsl_rem c.
Proof.
  unfold clk_pause, swc_pause, slc_pause, dsl_rem.
  destruct k; cbn [obind];
    match goal with |- context [if ?b then _ else _] => destruct b end;
    cbn [obind]; intros H; try discriminate; injection H as <-; reflexivity.
Qed.

Lemma clk_resume_rem c k c' : clk_resume c k = Ok c' -> dsl_rem c' = dsl_rem c.
Proof.
  unfold clk_resume, swc_resume, slc_resume, dsl_rem.
  destruct k; cbn [obind];
    match goal with |- context [if ?b then _ else _] => destruct b end;
    cbn [obind]; intros H; try discriminate; injection H as <-; reflexivity.
Qed.

Lemma exec_pop_rem rp c o r : exec_pop rp c o = Ok r -> dsl_rem (fst r) = dsl_rem c.
Proof.
  destruct o as [k|k| | |]; cbn [exec_pop].
  - destruct (clk_pause c k) as [c'|] eqn:E; cbn [obind]; [|discriminate].
    intros H. injection H as <-. cbn [fst]. apply (clk_pause_rem _ _ _ E).
  - destruct (clk_resume c k) as [c'|] eqn:E; cbn [obind]; [|discriminate].
    intros H. injection H as <-. cbn [fst]. apply (clk_resume_rem _ _ _ E).
  - intros H. injection H as <-. reflexivity.
  - intros H. injection H as <-. reflexivity.
  - intros H. injection H as <-. reflexivity.
Qed.

Lemma exec_pops_rem rp os : forall c r, exec_pops rp c os = Ok r -> dsl_rem (fst r) = dsl_rem c.
Proof.
  induction os as [|o os IH]; intros c r; cbn [exec_pops].
  - intros H. injection H as <-. reflexivity.
  - destruct (exec_pop rp c o) as [r1|] eqn:E1; cbn [obind]; [|discriminate].
    destruct (exec_pops rp (fst r1) os) as [r2|] eqn:E2; cbn [obind]; [|discriminate].
    intros H. injection H as <-. cbn [fst].
    rewrite (IH _ _ E2). apply (exec_pop_rem _ _ _ _ E1).
Qed.

Lemma exec_arm_rem rp a : forall c r, exec_arm rp c a = Ok r -> dsl_rem (fst r) = dsl_rem c.
Proof.
  induction a as [|st a IH]; intros c r; cbn [exec_arm].
  - intros H. injection H as <-. reflexivity.
  - match goal with |- obind (exec_pops rp c ?b) _ = _ -> _ => set (body := b) end.
    destruct (exec_pops rp c body) as [r1|] eqn:E1; cbn [obind]; [|discriminate].
    destruct (exec_arm rp (fst r1) a) as [r2|] eqn:E2; cbn [obind]; [|discriminate].
    intros H. injection H as <-. cbn [fst].
    rewrite (IH _ _ E2). apply (exec_pops_rem _ _ _ _ E1).
Qed.

Lemma zclocks_dsl_paused c : lpaused (k_dsl (zclocks c)) = lpaused (k_dsl c).
Proof. destruct c as [? ? ? ? [? ?] ?]. reflexivity. Qed.

Lemma arm_panics_on_flags c b a :
  zclocks c = dclocks b -> exec_arm true (dclocks b) a = Panicked -> exec_arm true c a = Panicked.
Proof.
  intros Hz Hp. pose proof (exec_arm_z true a c) as H. rewrite Hz, Hp in H.
  destruct (exec_arm true c a); [discriminate|reflexivity].
Qed.

(* invariant: while the loop is still waiting, the two delay clocks are paused together and no
   other clock is *)
Definition dinv2 (s : dstate) : Prop :=
  d_done s = false -> zclocks (d_ck s) = dclocks (lpaused (k_dsl (d_ck s))).

Lemma dinit_inv2 delay : dinv2 (dinit delay).
Proof. intros _. reflexivity. Qed.

Lemma wabs_dinit delay : wabs (dinit delay) = Waiting delay false.
Proof. reflexivity. Qed.

Section Tie.
  Variable tbl : ptable.
  Hypothesis Hc : dcert2 tbl = true.

  Lemma dcert2_parts :
    dcert tbl = true /\ exec_arm true (dclocks true) (t_delay_stop tbl) = Panicked.
  Proof.
    unfold dcert2 in Hc. apply andb_prop in Hc as [H1 H2]. split; [exact H1|].
    destruct (exec_arm true (dclocks true) (t_delay_stop tbl)); [discriminate|reflexivity].
  Qed.

  (* an arm that runs to [dclocks b'] from the flags [dclocks b] does the same from any clocks
     with those flags, keeps the remaining delay, and leaves the invariant in place *)
  Lemma arm_step c b b' a o :
    zclocks c = dclocks b -> exec_arm true (dclocks b) a = Ok (dclocks b', o) ->
    exists r, exec_arm true c a = Ok r /\ rem (k_dsl (fst r)) = rem (k_dsl c) /\
              lpaused (k_dsl (fst r)) = b' /\ zclocks (fst r) = dclocks b'.
  Proof.
    intros Hz He. destruct (arm_on_flags c b a _ Hz He) as (r & Er & Hzr & _).
    exists r. split; [exact Er|]. cbn [fst] in Hzr. rewrite zclocks_dclocks in Hzr.
    split; [exact (exec_arm_rem _ _ _ _ Er)|]. split; [|exact Hzr].
    rewrite <- zclocks_dsl_paused, Hzr. reflexivity.
  Qed.

  Lemma dstep_wstep s e : dinv2 s ->
    match dstep tbl s e with
    | Ok r => wabs (fst r) = wstep (wabs s) (wev e) /\ dinv2 (fst r)
    | Panicked => wstep (wabs s) (wev e) = WPanicked
    end.
  Proof.
    intros Hinv. destruct dcert2_parts as [Hd E4].
    destruct (dcert_parts tbl Hd) as (o1 & o2 & o3 & E1 & _ & E2 & E3).
    unfold dstep. destruct (d_done s) eqn:Hdone.
    - (* already over *)
      split; [|exact Hinv]. unfold wabs. cbn [fst]. rewrite Hdone. reflexivity.
    - specialize (Hinv Hdone).
      destruct (d_ck s) as [sw isl gsl wsw [r p] dwsw] eqn:Eck.
      cbn [k_dsl rem lpaused] in *.
      assert (Hw : wabs s = Waiting r p) by (unfold wabs; rewrite Hdone, Eck; reflexivity).
      rewrite !Hw.
      destruct e as [dt| |[| |sr| |]]; cbn [wev wstep].
      + (* time passes *)
        split.
        * unfold wabs. cbn [fst d_done d_ck clocks_tick k_dsl]. unfold slc_tick. cbn [lpaused rem].
          destruct p; cbn [rem lpaused]; [reflexivity|]. f_equal. lia.
        * intros _. cbn [fst d_ck]. rewrite zclocks_tick, Hinv.
          cbn [clocks_tick k_dsl]. unfold slc_tick. cbn [lpaused]. destruct p; reflexivity.
      + (* the sleep fires *)
        unfold slc_due. cbn [k_dsl lpaused rem].
        destruct (negb p && (r =? 0)).
        * split; [reflexivity|]. intros H. discriminate H.
        * split; [cbn [fst]; exact Hw|].
          intros _. cbn [fst]. rewrite Eck. exact Hinv.
      + (* Stop *)
        destruct p.
        * rewrite (arm_panics_on_flags _ true _ Hinv E4). cbn [obind]. reflexivity.
        * destruct (arm_step _ false true _ o1 Hinv E1) as (x & Ex & Hr & Hp & Hz).
          rewrite Ex. cbn [obind fst]. split.
          -- unfold wabs. cbn [d_done d_ck]. cbn [k_dsl rem] in Hr. rewrite Hr, Hp. reflexivity.
          -- intros _. cbn [d_ck]. rewrite Hp. exact Hz.
      + (* Continue *)
        destruct p.
        * destruct (arm_step _ true false _ o2 Hinv E2) as (x & Ex & Hr & Hp & Hz).
          rewrite Ex. cbn [obind fst]. split.
          -- unfold wabs. cbn [d_done d_ck]. cbn [k_dsl rem] in Hr. rewrite Hr, Hp. reflexivity.
          -- intros _. cbn [d_ck]. rewrite Hp. exact Hz.
        * destruct (arm_step _ false false _ o3 Hinv E3) as (x & Ex & Hr & Hp & Hz).
          rewrite Ex. cbn [obind fst]. split.
          -- unfold wabs. cbn [d_done d_ck]. cbn [k_dsl rem] in Hr. rewrite Hr, Hp. reflexivity.
          -- intros _. cbn [d_ck]. rewrite Hp. exact Hz.
      + split; [reflexivity|]. intros H. discriminate H.
      + split; [reflexivity|]. intros H. discriminate H.
      + split; [cbn [fst]; exact Hw|].
        intros _. cbn [fst]. rewrite Eck. exact Hinv.
  Qed.

  Lemma wabs_out_wrap (o : outcome (dstate * list uout)) (l : list uout) :
    wabs_out (obind o (fun r2 => Ok (fst r2, l ++ snd r2))) = wabs_out o.
  Proof. destruct o; reflexivity. Qed.

  Theorem machines_agree_from : forall es s, dinv2 s ->
    wabs_out (drun tbl s es) = fold_left wstep (map wev es) (wabs s).
  Proof.
    induction es as [|e es IH]; intros s Hinv; [reflexivity|].
    cbn [drun map fold_left]. pose proof (dstep_wstep s e Hinv) as H.
    destruct (dstep tbl s e) as [r1|]; cbn [obind].
    - destruct H as [Hw Hi]. rewrite wabs_out_wrap, (IH _ Hi), Hw. reflexivity.
    - rewrite H, fold_panicked. reflexivity.
  Qed.

  (* every event sequence, from the start of the wait *)
  Theorem machines_agree : forall delay es,
    wabs_out (drun tbl (dinit delay) es) = wrun delay (map wev es).
  Proof.
    intros delay es. unfold wrun. rewrite <- wabs_dinit.
    apply machines_agree_from, dinit_inv2.
  Qed.

  (* so what is proved about [wrun] holds of the loop with the generated arms: it expires --
     [d_done] without [d_cancelled] -- only after the whole delay has elapsed in unpaused time *)
  Corollary generated_not_sooner : forall delay es s o,
    drun tbl (dinit delay) es = Ok (s, o) -> d_done s = true -> d_cancelled s = false ->
    delay <= active_time false (map wev es).
  Proof.
    intros delay es s o Hr Hd Hcn. apply not_sooner.
    rewrite <- machines_agree, Hr. unfold wabs_out, wabs. cbn [fst]. rewrite Hd, Hcn. reflexivity.
  Qed.

  Corollary generated_cut_short_only_by_cancel : forall delay es s o,
    drun tbl (dinit delay) es = Ok (s, o) -> d_done s = true -> d_cancelled s = true ->
    existsb is_cancel (map wev es) = true.
  Proof.
    intros delay es s o Hr Hd Hcn. apply (cut_short_only_by_cancel delay).
    rewrite <- machines_agree, Hr. unfold wabs_out, wabs. cbn [fst]. rewrite Hd, Hcn. reflexivity.
  Qed.
End Tie.
