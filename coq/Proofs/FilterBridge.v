(* C04 x C05: the Kleene premise of C04's binary-level theorems is discharged by the filterset
   evaluator itself, so "deciding for a whole binary that it need not be listed never changes the
   selected set" holds for real filtersets, with no premise left. *)
From NextestModel Require Import Base.Str Base.Tac Model.Filter Model.NameFilter Model.FilterFull
  Model.FiltersetAst Model.Filterset.
From NextestModel Require Proofs.FilterFull Proofs.Filterset.

Section Bridge.
  Variable E : engines.
  Variable d : cexpr.          (* the compiled default filter (contains no default()) *)
  Variable bq : bquery.        (* one binary *)
  Variable es : list cexpr.    (* the compiled -E filtersets *)

  Definition dt : str -> bool := fun name => ctx_test E d (bq, name).
  Definition db : option bool := ctx_binary E d bq.
  Definition ets : list (str -> bool) :=
    map (fun e name => eval_test E (ctx_test E d) e (bq, name)) es.
  Definition ebs : list (option bool) :=
    map (fun e => eval_binary E (ctx_binary E d) e bq) es.

  Lemma default_kleene : Proofs.FilterFull.kleene_sound db dt.
  Proof.
    intros v Hv name. unfold db, dt in *.
    exact (Proofs.Filterset.ctx_of_filter_sound E d bq v Hv name).
  Qed.

  Lemma filtersets_kleene : Forall2 Proofs.FilterFull.kleene_sound ebs ets.
  Proof.
    unfold ebs, ets. induction es as [|e rest IH]; cbn [map]; constructor; [|exact IH].
    intros v Hv name.
    exact (Proofs.Filterset.kleene_sound_lemma E (ctx_test E d) (ctx_binary E d)
             (Proofs.Filterset.ctx_of_filter_sound E d) e bq v Hv name).
  Qed.

  (* a binary-level Mismatch means no test of that binary is selected, whatever the other filters *)
  Theorem binary_prefilter_sound_for_filtersets b r :
    filter_binary_match ebs db b = BMismatch r ->
    forall ri pb p cur name ign,
      fst (filter_match_full (builder_new ri pb p ets dt b) cur name ign) <> Matches.
  Proof.
    intros H. eapply Proofs.FilterFull.binary_sound_match;
      [exact filtersets_kleene|exact default_kleene|exact H].
  Qed.
End Bridge.
