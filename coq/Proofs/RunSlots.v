(* C14, "all attempts of one test see the same slots", over the composed run model (Model/Run.v:
   scheduler x executor protocol x dispatcher; imported, not edited).

   In nextest the per-test future receives its FutureQueueContext once (imp.rs: the closure
   [|cx| run_test_instance(test, cx, ..)]) and every attempt's TestPacket copies it.  In the model
   the context of test t at a moment of a run is the record of t in the scheduler's in-progress
   list, [ctx_of (r_q s) t].  Proved here, for every run the composed machine accepts: whenever the
   dispatcher handles an attempt event of t (Started, Slow, AttemptFailedWillRetry, RetryStarted,
   Finished) the scheduler holds a context for t; any two attempt events of t find the same one;
   and it is the record of a start event the scheduler emitted (so its slots are the least-free
   ones of C14_least_free, assigned at dispatch). *)
From Coq Require Import List NArith ZArith Bool Lia.
From NextestModel Require Import Base.Tac Base.Str.
From NextestModel Require Import Model.Result Model.Dispatcher Model.Unit Model.FutureQueue Model.Run.
From NextestModel Require Import Proofs.FutureQueue Proofs.FutureQueueGroups Proofs.Run.
Import ListNotations.
Open Scope N_scope.

Definition ctx_of (q : fq) (t : N) : option rinfo :=
  find (fun x => it_id (r_item x) =? t) (running q).

Definition attempt_event (t : tid) (e : devent) : Prop :=
  match e with
  | Started t' | Slow t' _ _ _ | AttemptFailedWillRetry t' _ | RetryStarted t' _ _
  | Finished t' _ => t' = t
  | _ => False
  end.

(* ------------------------------------------------------------------ lists *)
Lemma find_app_some {A} (p : A -> bool) l1 l2 :
  find p l1 <> None -> find p (l1 ++ l2) = find p l1.
Proof.
  induction l1 as [|a l1 IH]; cbn [find app]; [intros H; exfalso; apply H; reflexivity|].
  destruct (p a); [reflexivity|exact IH].
Qed.

Lemma find_remove_other {A} (p : A -> bool) l1 x l2 :
  p x = false -> find p (l1 ++ x :: l2) = find p (l1 ++ l2).
Proof.
  intros Hx. induction l1 as [|a l1 IH]; cbn [find app]; [rewrite Hx; reflexivity|].
  destruct (p a); [reflexivity|exact IH].
Qed.

Lemma is_running_ctx q t : is_running q t = true <-> ctx_of q t <> None.
Proof.
  unfold is_running, ctx_of. induction (running q) as [|a l IH]; cbn [existsb find].
  - split; [discriminate|intros H; exfalso; apply H; reflexivity].
  - destruct (it_id (r_item a) =? t); cbn [orb]; [split; [discriminate|reflexivity]|exact IH].
Qed.

Lemma ctx_of_id q t cx : ctx_of q t = Some cx -> In cx (running q) /\ it_id (r_item cx) = t.
Proof.
  unfold ctx_of. intros H. apply find_some in H. destruct H as [H1 H2].
  split; [exact H1|apply N.eqb_eq; exact H2].
Qed.

(* ------------------------------------------------------------------ the scheduler keeps it *)
Lemma held_after_find t evs : forall h,
  find (fun x => it_id (r_item x) =? t) h <> None -> ~ In (EvDone t) evs ->
  find (fun x => it_id (r_item x) =? t) (held_after h evs) = find (fun x => it_id (r_item x) =? t) h.
Proof.
  induction evs as [|e evs IH]; intros h Hf Hd; cbn [held_after]; [reflexivity|].
  assert (Hd' : ~ In (EvDone t) evs) by (intros H; apply Hd; right; exact H).
  destruct e as [it|x|id|].
  - apply IH; assumption.
  - rewrite IH; [apply find_app_some; exact Hf| |exact Hd'].
    rewrite find_app_some; exact Hf.
  - destruct (take_running id h) as [[x h']|] eqn:Et; [|apply IH; assumption].
    destruct (take_running_spec _ _ _ _ Et) as (l1 & l2 & -> & -> & Hid).
    assert (Hx : (it_id (r_item x) =? t) = false).
    { apply N.eqb_neq. intros E. apply Hd. left. congruence. }
    rewrite (find_remove_other _ l1 x l2 Hx) in *.
    apply IH; [exact Hf|exact Hd'].
  - apply IH; assumption.
Qed.

Lemma fq_step_ctx q o t :
  fq_inv q -> is_running q t = true -> o <> OpComplete t -> o <> OpCompleteNoFill t ->
  ctx_of (fst (fq_step q o)) t = ctx_of q t.
Proof.
  intros Hq Hr H1 H2. unfold ctx_of. rewrite <- (proj2 (fq_step_least q o Hq)).
  apply held_after_find; [apply (proj1 (is_running_ctx _ _)); exact Hr|].
  intros Hd. destruct (fq_step_dones q o t Hd); contradiction.
Qed.

(* ------------------------------------------------------------------ the protocol's phases *)
Definition terminal (p : phase) : Prop :=
  match p with PFinished | PRefusedStart | PRefusedRetry _ | PSkipped => True | _ => False end.

Lemma upd_same f t p : upd f t p t = p.
Proof. unfold upd. rewrite N.eqb_refl. reflexivity. Qed.
Lemma upd_other f t p x : x <> t -> upd f t p x = f x.
Proof. unfold upd. intros H. apply N.eqb_neq in H. rewrite H. reflexivity. Qed.

Ltac phase_at x t :=
  destruct (N.eq_dec x t) as [->|?];
  [rewrite ?upd_same in * | rewrite ?upd_other in * by assumption].

Lemma pstep_phases c ps e hs ps' x :
  pstep c ps e hs = Some ps' ->
  (unit_live (ps_phase ps x) = true ->
     unit_live (ps_phase ps' x) = true \/ terminal (ps_phase ps' x)) /\
  (terminal (ps_phase ps x) -> ps_phase ps' x = ps_phase ps x) /\
  (ps_phase ps x = PIdle -> unit_live (ps_phase ps' x) = true -> e = Started x) /\
  (attempt_event x e ->
     (e = Started x /\ ps_phase ps x = PIdle) \/ unit_live (ps_phase ps x) = true).
Proof.
  intros Hp. destruct e; pstep_cases Hp hs; cbn [ps_phase set_phase attempt_event unit_live terminal] in *;
    repeat split; intros; subst.
  all: rewrite ?upd_same in *.
  all: try match goal with
         | |- context [upd _ ?t _ ?y] => phase_at y t
         | H : context [upd _ ?t _ ?y] |- _ => phase_at y t
         end.
  all: repeat match goal with H : ps_phase ?p ?t = _ |- _ => rewrite H in * end.
  all: cbn [unit_live terminal] in *.
  all: try tauto; try congruence; try discriminate; try contradiction; auto.

Qed.

(* ------------------------------------------------------------------ the run invariant *)
Definition SInv (s : rstate) : Prop :=
  fq_inv (r_q s) /\
  forall t, unit_live (ps_phase (r_ps s) t) = true -> is_running (r_q s) t = true.

Lemma sinv_init r mf dbg : SInv (rinit r mf dbg).
Proof. split; [apply fq_new_inv|]. intros t H. cbn in H. discriminate. Qed.

(* one step: the invariant is kept; the context of a unit that is live before and after is kept *)
Lemma sinv_step r s x s' :
  SInv s -> rstep r s x = Some s' ->
  SInv s' /\
  forall t, unit_live (ps_phase (r_ps s) t) = true -> unit_live (ps_phase (r_ps s') t) = true ->
            ctx_of (r_q s') t = ctx_of (r_q s) t.
Proof.
  intros [Hq Hl] Hstep. destruct x as [o|e].
  - apply rstep_sched in Hstep. destruct Hstep as [Hg ->]. unfold SInv. cbn [r_q r_ps].
    assert (Hkeep : forall t, unit_live (ps_phase (r_ps s) t) = true ->
              o <> OpComplete t /\ o <> OpCompleteNoFill t).
    { intros t Ht. pose proof (Hl t Ht) as Hr.
      unfold sched_guard in Hg. apply andb_true_iff in Hg. destruct Hg as [_ Hg].
      split; intros ->; rewrite Hr in Hg; cbn [negb orb] in Hg;
        destruct (ps_phase (r_ps s) t); discriminate. }
    split; [split; [apply fq_step_inv; exact Hq|]|].
    + intros t Ht. destruct (Hkeep t Ht) as [K1 K2].
      apply (proj2 (is_running_ctx _ _)). rewrite (fq_step_ctx _ _ _ Hq (Hl t Ht) K1 K2).
      apply (proj1 (is_running_ctx _ _)). exact (Hl t Ht).
    + intros t Ht _. destruct (Hkeep t Ht) as [K1 K2]. exact (fq_step_ctx _ _ _ Hq (Hl t Ht) K1 K2).
  - apply rstep_event in Hstep. destruct Hstep as (Hg & d' & evs & rsp & ps' & Ed & Ep & ->).
    unfold SInv. cbn [r_q r_ps]. split; [split; [exact Hq|]|reflexivity].
    intros t Ht. destruct (pstep_phases _ _ _ _ _ t Ep) as (_ & Hterm & Hidle & _).
    destruct (ps_phase (r_ps s) t) eqn:Eph.
    + (* was idle: only Started t makes it live, and that is guarded by is_running *)
      rewrite (Hidle eq_refl Ht) in Hg. cbn [event_guard] in Hg. exact Hg.
    + apply Hl. rewrite Eph. reflexivity.
    + apply Hl. rewrite Eph. reflexivity.
    + rewrite (Hterm I) in Ht. discriminate.
    + rewrite (Hterm I) in Ht. discriminate.
    + rewrite (Hterm I) in Ht. discriminate.
    + rewrite (Hterm I) in Ht. discriminate.
Qed.

Lemma rrun_app r : forall xs ys s s',
  rrun r s (xs ++ ys) = Some s' -> exists s1, rrun r s xs = Some s1 /\ rrun r s1 ys = Some s'.
Proof.
  induction xs as [|x xs IH]; intros ys s s' H; cbn [app] in H.
  - exists s. split; [reflexivity|exact H].
  - rewrite rrun_cons in H. destruct (rstep r s x) as [s1|] eqn:E; [|discriminate].
    destruct (IH _ _ _ H) as (s2 & H1 & H2). exists s2. split; [|exact H2].
    rewrite rrun_cons, E. exact H1.
Qed.

Lemma sinv_run r : forall xs s s', SInv s -> rrun r s xs = Some s' -> SInv s'.
Proof.
  induction xs as [|x xs IH]; intros s s' Hi H.
  - inversion H; subst. exact Hi.
  - rewrite rrun_cons in H. destruct (rstep r s x) as [s1|] eqn:E; [|discriminate].
    exact (IH _ _ (proj1 (sinv_step _ _ _ _ Hi E)) H).
Qed.

(* a terminal phase stays; so a unit live at both ends of a run was live all along *)
Lemma terminal_run r t : forall xs s s',
  rrun r s xs = Some s' -> terminal (ps_phase (r_ps s) t) -> ps_phase (r_ps s') t = ps_phase (r_ps s) t.
Proof.
  induction xs as [|x xs IH]; intros s s' H Ht.
  - inversion H; subst. reflexivity.
  - rewrite rrun_cons in H. destruct (rstep r s x) as [s1|] eqn:E; [|discriminate].
    assert (E1 : ps_phase (r_ps s1) t = ps_phase (r_ps s) t).
    { destruct x as [o|e].
      - apply rstep_sched in E. destruct E as [_ ->]. reflexivity.
      - apply rstep_event in E. destruct E as (_ & d' & evs & rsp & ps' & _ & Ep & ->).
        cbn [r_ps]. exact (proj1 (proj2 (pstep_phases _ _ _ _ _ t Ep)) Ht). }
    rewrite <- E1. apply (IH _ _ H). rewrite E1. exact Ht.
Qed.

Lemma live_run_ctx r t : forall xs s s',
  SInv s -> rrun r s xs = Some s' ->
  unit_live (ps_phase (r_ps s) t) = true -> unit_live (ps_phase (r_ps s') t) = true ->
  ctx_of (r_q s') t = ctx_of (r_q s) t.
Proof.
  induction xs as [|x xs IH]; intros s s' Hi H L0 L1.
  - inversion H; subst. reflexivity.
  - rewrite rrun_cons in H. destruct (rstep r s x) as [s1|] eqn:E; [|discriminate].
    destruct (sinv_step _ _ _ _ Hi E) as [Hi1 Hc].
    assert (Lm : unit_live (ps_phase (r_ps s1) t) = true).
    { destruct x as [o|e].
      - apply rstep_sched in E. destruct E as [_ ->]. exact L0.
      - apply rstep_event in E. destruct E as (_ & d' & evs & rsp & ps' & _ & Ep & ->).
        cbn [r_ps] in *. destruct (proj1 (pstep_phases _ _ _ _ _ t Ep) L0) as [A|A]; [exact A|].
        exfalso. pose proof (terminal_run r t xs _ _ H A) as Et. cbn [r_ps] in Et.
        rewrite Et in L1. destruct (ps_phase ps' t); cbn in A, L1; try contradiction; discriminate. }
    rewrite (IH _ _ Hi1 H Lm L1). exact (Hc t L0 Lm).
Qed.

(* an accepted attempt event of t finds a context for t *)
Lemma attempt_has_ctx r s e s' t :
  SInv s -> rstep r s (REvent e) = Some s' -> attempt_event t e ->
  is_running (r_q s) t = true /\ r_q s' = r_q s /\
  ((e = Started t /\ ps_phase (r_ps s) t = PIdle) \/ unit_live (ps_phase (r_ps s) t) = true).
Proof.
  intros [Hq Hl] Hstep Ha. apply rstep_event in Hstep.
  destruct Hstep as (Hg & d' & evs & rsp & ps' & Ed & Ep & ->). cbn [r_q].
  destruct (proj2 (proj2 (proj2 (pstep_phases _ _ _ _ _ t Ep))) Ha) as [[-> Hi]|Hlive].
  - split; [exact Hg|]. split; [reflexivity|]. left. auto.
  - split; [exact (Hl t Hlive)|]. split; [reflexivity|]. right. exact Hlive.
Qed.

(* ------------------------------------------------------------------ the theorem *)
Theorem attempts_same_context r mf dbg xs1 e1 xs2 e2 xs3 sf t :
  rrun r (rinit r mf dbg) (xs1 ++ REvent e1 :: xs2 ++ REvent e2 :: xs3) = Some sf ->
  attempt_event t e1 -> attempt_event t e2 ->
  exists s1 s2 cx,
    rrun r (rinit r mf dbg) xs1 = Some s1 /\
    rrun r (rinit r mf dbg) (xs1 ++ REvent e1 :: xs2) = Some s2 /\
    ctx_of (r_q s1) t = Some cx /\ ctx_of (r_q s2) t = Some cx /\
    it_id (r_item cx) = t /\
    In (EvStart cx)
       (snd (fq_run (fq_new (rc_gm r) (rc_grps r) (rc_items r)) (ops_of xs1))).
Proof.
  intros H A1 A2.
  destruct (rrun_app _ _ _ _ _ H) as (s1 & R1 & H1).
  rewrite rrun_cons in H1. destruct (rstep r s1 (REvent e1)) as [s1'|] eqn:E1; [|discriminate].
  destruct (rrun_app _ _ _ _ _ H1) as (s2 & R2 & H2).
  rewrite rrun_cons in H2. destruct (rstep r s2 (REvent e2)) as [s2'|] eqn:E2; [|discriminate].
  pose proof (sinv_run r _ _ _ (sinv_init r mf dbg) R1) as I1.
  destruct (sinv_step _ _ _ _ I1 E1) as [I1' _].
  pose proof (sinv_run r _ _ _ I1' R2) as I2.
  destruct (attempt_has_ctx _ _ _ _ _ I1 E1 A1) as (Hr1 & Hq1 & Hph1).
  destruct (attempt_has_ctx _ _ _ _ _ I2 E2 A2) as (Hr2 & _ & Hph2).
  destruct (ctx_of (r_q s1) t) as [cx|] eqn:C1; [|apply (proj1 (is_running_ctx _ _)) in Hr1; contradiction].
  exists s1, s2, cx. split; [exact R1|]. split.
  { assert (Hcomp : forall xs s s' ys s'', rrun r s xs = Some s' -> rrun r s' ys = Some s'' ->
                      rrun r s (xs ++ ys) = Some s'').
    { induction xs as [|x xs IH]; intros s s' ys s'' Ha Hb; cbn [app].
      - inversion Ha; subst. exact Hb.
      - rewrite rrun_cons in *. destruct (rstep r s x); [|discriminate]. eapply IH; eauto. }
    eapply Hcomp; [exact R1|]. rewrite rrun_cons, E1. exact R2. }
  split; [exact C1|].
  (* phases of t: after e1 it is live or terminal; before e2 it is idle or live *)
  pose proof E1 as E1e. apply rstep_event in E1e.
  destruct E1e as (_ & d1 & evs1 & rsp1 & ps1 & _ & Ep1 & Es1).
  assert (Hafter : unit_live (ps_phase (r_ps s1') t) = true \/ terminal (ps_phase (r_ps s1') t) ).
  { subst s1'. cbn [r_ps]. destruct Hph1 as [[-> Hidle]|Hlive].
    - cbn [pstep] in Ep1.
      destruct (tests_open (rc_cfg r) (r_ps s1) && memb t (c_sel (rc_cfg r))); [|discriminate].
      rewrite Hidle in Ep1. destruct (r_hs rsp1); inversion Ep1; subst; cbn [ps_phase set_phase];
        rewrite upd_same; [left; reflexivity|right; exact I].
    - exact (proj1 (pstep_phases _ _ _ _ _ t Ep1) Hlive). }
  assert (Hlive2 : unit_live (ps_phase (r_ps s2) t) = true).
  { destruct Hafter as [L|T].
    - destruct Hph2 as [[_ Hidle]|L2]; [|exact L2]. exfalso.
      (* live, then idle again: impossible *)
      clear -R2 L Hidle I1'. revert s1' I1' R2 L. induction xs2 as [|x xs IH]; intros s Hi R L.
      + inversion R; subst. rewrite Hidle in L. discriminate.
      + rewrite rrun_cons in R. destruct (rstep r s x) as [sm|] eqn:E; [|discriminate].
        destruct x as [o|e].
        * pose proof E as E'. apply rstep_sched in E'. destruct E' as [_ Es].
          apply (IH sm); [exact (proj1 (sinv_step _ _ _ _ Hi E))|exact R|]. subst sm. exact L.
        * pose proof E as E'. apply rstep_event in E'.
          destruct E' as (_ & d' & evs & rsp & ps' & _ & Ep & Es).
          destruct (proj1 (pstep_phases _ _ _ _ _ t Ep) L) as [A|A].
          -- apply (IH sm); [exact (proj1 (sinv_step _ _ _ _ Hi E))|exact R|]. subst sm. exact A.
          -- assert (A' : terminal (ps_phase (r_ps sm) t)) by (subst sm; exact A).
             pose proof (terminal_run r t xs _ _ R A') as Et. rewrite Hidle in Et.
             rewrite <- Et in A'. exact A'.
    - pose proof (terminal_run r t xs2 _ _ R2 T) as Et.
      destruct Hph2 as [[_ Hidle]|L2]; [rewrite Hidle in Et; rewrite <- Et in T; contradiction|].
      rewrite Et in L2. destruct (ps_phase (r_ps s1') t); cbn in T, L2; try contradiction; discriminate. }
  assert (Hlive1' : unit_live (ps_phase (r_ps s1') t) = true).
  { destruct Hafter as [L|T]; [exact L|]. pose proof (terminal_run r t xs2 _ _ R2 T) as Et.
    rewrite Et in Hlive2. destruct (ps_phase (r_ps s1') t); cbn in T, Hlive2; try contradiction; discriminate. }
  split.
  { rewrite (live_run_ctx r t xs2 _ _ I1' R2 Hlive1' Hlive2). rewrite Hq1. exact C1. }
  destruct (ctx_of_id _ _ _ C1) as [Hin Hid]. split; [exact Hid|].
  rewrite (rrun_sched r _ _ _ R1) in Hin. cbn [rinit r_q] in Hin.
  apply running_was_started in Hin.
  clear -Hin. revert Hin. generalize (snd (fq_run (fq_new (rc_gm r) (rc_grps r) (rc_items r)) (ops_of xs1))).
  induction l as [|ev l IH]; cbn [starts]; [intros []|].
  destruct ev; cbn [In]; try (intros H; right; apply IH; exact H).
  intros [->|H]; [left; reflexivity|right; apply IH; exact H].
Qed.
