(* Facts about Model/ApplyEnv.v, and its relation to Model/Scripts.v [apply_env] (the function C18's theorems about the
   variables a test receives are stated on). *)
From Coq Require Import List NArith Bool Lia.
From NextestModel Require Import Base.Tac Base.Str Model.Scripts Proofs.Scripts Model.ApplyEnv.
Import ListNotations.
Open Scope N_scope.

(* every binding of every script whose rule matches is written *)
Lemma every_enabled_binding_written :
  forall (S K V : Type) (enabled : S -> bool) (data : list (S * list (K * V))) s m kv,
    In (s, m) data -> enabled s = true -> In kv m -> In kv (env_writes enabled data).
Proof.
  intros S K V enabled data s m kv Hd He Hk. unfold env_writes. apply in_flat_map.
  exists (s, m). split; [exact Hd|]. cbn [fst snd]. rewrite He. exact Hk.
Qed.

(* ... and nothing of a script whose rule does not match *)
Lemma written_binding_has_enabled_script :
  forall (S K V : Type) (enabled : S -> bool) (data : list (S * list (K * V))) kv,
    In kv (env_writes enabled data) -> exists s m, In (s, m) data /\ enabled s = true /\ In kv m.
Proof.
  intros S K V enabled data kv H. unfold env_writes in H. apply in_flat_map in H as [[s m] [Hd Hk]].
  cbn [fst snd] in Hk. destruct (enabled s) eqn:E; [|contradiction]. exists s, m. repeat split; assumption.
Qed.

(* the order: scripts in run order, each map in its own order *)
Lemma env_writes_app :
  forall (S K V : Type) (enabled : S -> bool) (a b : list (S * list (K * V))),
    env_writes enabled (a ++ b) = env_writes enabled a ++ env_writes enabled b.
Proof. intros. unfold env_writes. apply flat_map_app. Qed.

(* Model/Scripts.v [apply_env] is: every one of these writes, in order, as an insertion into the command's variables
   (Command::env sets or overwrites) *)
Lemma apply_env_is_every_write :
  forall data t base,
    apply_env data t base =
    fold_left (fun e kv => env_insert (fst kv) (snd kv) e) (env_writes (fun ss => ss_is_enabled ss t) data) base.
Proof.
  intros data t. unfold apply_env, env_writes. induction data as [|d data IH]; intros base; [reflexivity|].
  cbn [fold_left flat_map]. rewrite fold_left_app, IH. destruct d as [ss m]. cbn [fst snd]. destruct (ss_is_enabled ss t); unfold env_union; reflexivity.
Qed.

(* hence a variable a matching script defines has the script's value in the test's environment WHATEVER the command
   carried for it before (nextest's own variables, the configuration's [env] table) *)
Lemma script_value_overrides_base :
  forall data t k v base,
    data_sorted data -> scripted_value data t k = Some v -> env_lookup k (apply_env data t base) = Some v.
Proof. intros data t k v base Hs Hv. rewrite apply_env_lookup by exact Hs. rewrite Hv. reflexivity. Qed.
