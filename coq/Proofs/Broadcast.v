(* Facts about Model/Broadcast.v: a broadcast reaches every running unit whose channel is open, whatever closed units
   come before it. *)
From Coq Require Import List NArith Bool Lia.
From NextestModel Require Import Base.Tac Model.Broadcast.
Import ListNotations.
Open Scope N_scope.

Lemma delivered_every_open_unit :
  forall units u, In u units -> u_open u = true -> In (u_id u) (delivered units).
Proof.
  intros units u Hin Hopen. unfold delivered. apply in_map. apply filter_In. split; assumption.
Qed.

Lemma delivered_only_open_units :
  forall units i, In i (delivered units) -> exists u, In u units /\ u_open u = true /\ u_id u = i.
Proof.
  intros units i H. unfold delivered in H. apply in_map_iff in H. destruct H as (u & E & Hin).
  apply filter_In in Hin. destruct Hin. exists u. repeat split; assumption.
Qed.

(* a closed unit does not stop the broadcast: what comes after it is still delivered *)
Lemma delivered_app :
  forall a b, delivered (a ++ b) = delivered a ++ delivered b.
Proof. intros. unfold delivered. rewrite filter_app, map_app. reflexivity. Qed.

Lemma delivered_count_app :
  forall a b, delivered_count (a ++ b) = delivered_count a + delivered_count b.
Proof. intros. unfold delivered_count. rewrite delivered_app, app_length. lia. Qed.

Lemma delivered_count_all_open :
  forall units, forallb u_open units = true -> delivered_count units = N.of_nat (length units).
Proof.
  intros units H. unfold delivered_count, delivered. rewrite map_length.
  induction units as [|u r IH]; [reflexivity|]. cbn [forallb] in H. apply andb_true_iff in H. destruct H as [Hu Hr].
  cbn [filter]. rewrite Hu. cbn [length]. specialize (IH Hr). lia.
Qed.
