(* Model/AttemptDecision.v is the decision both attempt-loop models make. *)
From Coq Require Import List NArith Bool Lia.
From NextestModel Require Import Base.Tac Base.Str Model.Backoff Model.AttemptDecision Model.Clocks Model.UnitTimers
     Model.UnitLife.
Import ListNotations.
Open Scope N_scope.

Lemma after_attempt_retry_iff :
  forall passed a t, after_attempt passed a t = ARetry <-> passed = false /\ a < t.
Proof.
  intros passed a t. unfold after_attempt. destruct passed; [split; [discriminate | intros [H _]; discriminate]|].
  destruct (a <? t) eqn:E.
  - apply N.ltb_lt in E. split; auto.
  - apply N.ltb_ge in E. split; [discriminate | intros [_ H]; lia].
Qed.

Lemma after_attempt_never_after_pass : forall a t, after_attempt true a t = AFinish.
Proof. reflexivity. Qed.

Section Loop.
  Variable R : Type.
  Variable succ : R -> bool.

  (* one iteration of Model/Backoff.v's attempt_loop, written with the decision *)
  Lemma attempt_loop_step :
    forall f attempt delay bs total outcome accept js,
      attempt_loop R succ (S f) attempt delay bs total outcome accept js =
      if (1 <? attempt) && negb (accept attempt) then ([], Refused)
      else
        let r := outcome attempt in
        let rec := {| at_no := attempt; at_delay_before := delay; at_result := r |} in
        match after_attempt (succ r) attempt total with
        | AFinish => ([rec], Finished)
        | ARetry =>
            match b_next (js attempt) bs with
            | None => ([rec], Backoff.Panicked)
            | Some (d, bs') =>
                let '(l, e) := attempt_loop R succ f (attempt + 1) d bs' total outcome accept js in
                (rec :: l, e)
            end
        end.
  Proof.
    intros. cbn [attempt_loop]. unfold after_attempt.
    destruct ((1 <? attempt) && negb (accept attempt)); [reflexivity|].
    cbv zeta. destruct (succ (outcome attempt)); [reflexivity|].
    destruct (attempt <? total); reflexivity.
  Qed.
End Loop.

(* Model/UnitLife.v: the tail of the loop body, written with the decision *)
Lemma finish_attempt_decision :
  forall c s u,
    finish_attempt c s u =
    let r := {| ar_no := l_k s; ar_result := uresult u; ar_slow := slow u; ar_time := time_taken u |} in
    match after_attempt (ures_success (uresult u)) (l_k s) (lc_total c) with
    | AFinish => Ok (mkl LFinishedP (l_k s) (l_bs s) (l_delay s) (r :: l_done s), [LFinished (l_k s)])
    | ARetry =>
        match b_next (lc_js c (l_k s)) (l_bs s) with
        | None => Panicked
        | Some (d, bs') =>
            Ok (mkl (LDelay (dinit d)) (l_k s) bs' d (r :: l_done s), [LAttemptFailedWillRetry (l_k s) d])
        end
    end.
Proof.
  intros. unfold finish_attempt, after_attempt. cbv zeta.
  destruct (ures_success (uresult u)); [reflexivity|].
  destruct (l_k s <? lc_total c); reflexivity.
Qed.
