(* Lemmas about setup scripts (C18). *)
From NextestModel Require Import Base.Str Model.Scripts.
From NextestModel Require Import Base.Tac.
From Coq Require Import ZArith.
Open Scope N_scope.

(* ------------------------------------------------------------------ strings *)

Lemma str_eqb_eq a b : str_eqb a b = true <-> a = b.
Proof.
  revert b; induction a as [|x a IH]; intros [|y b]; cbn [str_eqb]; split; intros H;
    try discriminate; try reflexivity.
  - apply andb_prop in H. destruct H as [H1 H2]. apply N.eqb_eq in H1. apply IH in H2. congruence.
  - injection H as -> ->. rewrite N.eqb_refl. cbn [andb]. apply IH. reflexivity.
Qed.

Lemma str_eqb_refl a : str_eqb a a = true.
Proof. apply str_eqb_eq. reflexivity. Qed.

Lemma str_cmp_eq a b : str_cmp a b = Eq <-> a = b.
Proof.
  revert b; induction a as [|x a IH]; intros [|y b]; cbn [str_cmp]; split; intros H;
    try discriminate; try reflexivity.
  - destruct (N.compare_spec x y) as [E|E|E]; try discriminate. apply IH in H. congruence.
  - injection H as -> ->. rewrite N.compare_refl. apply IH. reflexivity.
Qed.

Lemma str_cmp_antisym a b : str_cmp b a = CompOpp (str_cmp a b).
Proof.
  revert b; induction a as [|x a IH]; intros [|y b]; cbn [str_cmp CompOpp]; try reflexivity.
  rewrite (N.compare_antisym x y). destruct (x ?= y); cbn [CompOpp]; auto.
Qed.

Lemma str_cmp_lt_trans a b c : str_cmp a b = Lt -> str_cmp b c = Lt -> str_cmp a c = Lt.
Proof.
  revert b c; induction a as [|x a IH]; intros [|y b] [|z c]; cbn [str_cmp]; intros H1 H2;
    try discriminate; try reflexivity.
  destruct (N.compare_spec x y) as [E1|E1|E1]; try discriminate;
    destruct (N.compare_spec y z) as [E2|E2|E2]; try discriminate; subst.
  - rewrite N.compare_refl. eapply IH; eauto.
  - apply N.compare_lt_iff in E2. rewrite E2. reflexivity.
  - apply N.compare_lt_iff in E1. rewrite E1. reflexivity.
  - assert (E : x < z) by lia. apply N.compare_lt_iff in E. rewrite E. reflexivity.
Qed.

(* ------------------------------------------------------------------ enabled scripts *)

Lemma mem_sid_In s l : mem_sid s l = true <-> In s l.
Proof.
  unfold mem_sid. rewrite existsb_exists. split.
  - intros [x [Hx E]]. apply N.eqb_eq in E. subst. assumption.
  - intros H. exists s. split; [assumption|apply N.eqb_refl].
Qed.

Lemma compiled_for_In rules s r :
  In r (compiled_for rules s) <-> In r rules /\ In s (r_setup r).
Proof.
  unfold compiled_for. rewrite in_flat_map. split.
  - intros [r' [Hr' H]]. apply in_flat_map in H. destruct H as [s' [Hs' H]].
    destruct (N.eqb_spec s' s) as [->|]; [|destruct H].
    destruct H as [<-|[]]. split; assumption.
  - intros [Hr Hs]. exists r. split; [assumption|]. apply in_flat_map. exists s.
    split; [assumption|]. rewrite N.eqb_refl. left; reflexivity.
Qed.

Lemma script_matches_test_spec rules s t :
  script_matches_test rules s t = true <->
  exists r, In r rules /\ In s (r_setup r) /\ rule_matches r t = true.
Proof.
  unfold script_matches_test. rewrite existsb_exists. split.
  - intros [r [Hr Hm]]. apply compiled_for_In in Hr. exists r. tauto.
  - intros [r [H1 [H2 H3]]]. exists r. split; [apply compiled_for_In; tauto|assumption].
Qed.

Lemma script_needed_spec rules sel s :
  script_needed rules sel s = true <->
  exists r, In r rules /\ In s (r_setup r) /\ exists t, In t sel /\ rule_matches r t = true.
Proof.
  unfold script_needed. rewrite existsb_exists. split.
  - intros [t [Ht H]]. apply script_matches_test_spec in H. destruct H as [r [H1 [H2 H3]]].
    exists r. repeat split; try assumption. exists t. tauto.
  - intros [r [H1 [H2 [t [Ht H3]]]]]. exists t. split; [assumption|].
    apply script_matches_test_spec. exists r. tauto.
Qed.

Lemma enabled_ids_step_In keys rules t : forall acc s,
  In s (enabled_ids_step keys rules acc t) <->
  In s acc \/ (In s keys /\ script_matches_test rules s t = true).
Proof.
  unfold enabled_ids_step. induction keys as [|s0 keys IH]; intros acc s; cbn [fold_left].
  - cbn [In]. tauto.
  - rewrite IH. cbn [In].
    destruct (mem_sid s0 acc) eqn:Em.
    + apply mem_sid_In in Em. split; [tauto|].
      intros [H|[[<-|H] Hm]]; tauto.
    + destruct (script_matches_test rules s0 t) eqn:Et.
      * cbn [In]. split.
        -- intros [[<-|H]|H]; tauto.
        -- intros [H|[[<-|H] Hm]]; tauto.
      * split; [tauto|]. intros [H|[[<-|H] Hm]]; try tauto. congruence.
Qed.

Lemma enabled_ids_fold_In keys rules sel : forall acc s,
  In s (fold_left (enabled_ids_step keys rules) sel acc) <->
  In s acc \/ (In s keys /\ script_needed rules sel s = true).
Proof.
  induction sel as [|t sel IH]; intros acc s; cbn [fold_left].
  - unfold script_needed. cbn [existsb]. split; [tauto|]. intros [H|[_ H]]; [assumption|discriminate].
  - rewrite IH. rewrite enabled_ids_step_In. unfold script_needed. cbn [existsb].
    rewrite orb_true_iff. tauto.
Qed.

Lemma enabled_ids_loop_In keys rules sel s :
  In s (enabled_ids_loop keys rules sel) <-> In s keys /\ script_needed rules sel s = true.
Proof.
  unfold enabled_ids_loop. rewrite enabled_ids_fold_In. cbn [In]. tauto.
Qed.

Lemma dedup_In l s : In s (dedup l) <-> In s l.
Proof.
  induction l as [|x l IH]; cbn [dedup In]; [tauto|].
  rewrite filter_In, IH. destruct (N.eqb_spec s x) as [->|Hne]; cbn [negb].
  - split; [tauto|]. intros _. left; reflexivity.
  - split; [intros [H|[H _]]; auto|]. intros [H|H]; [congruence|tauto].
Qed.

Lemma dedup_NoDup l : NoDup (dedup l).
Proof.
  induction l as [|x l IH]; cbn [dedup]; constructor.
  - rewrite filter_In. intros [_ H]. rewrite N.eqb_refl in H. discriminate.
  - apply NoDup_filter. assumption.
Qed.

Lemma listed_ids_In rules s :
  In s (listed_ids rules) <-> exists r, In r rules /\ In s (r_setup r).
Proof. unfold listed_ids. rewrite dedup_In, in_flat_map. tauto. Qed.

Definition covers_listed (keys : list sid) (rules : list rule) : Prop :=
  forall s r, In r rules -> In s (r_setup r) -> In s keys.

Lemma listed_ids_covers rules : covers_listed (listed_ids rules) rules.
Proof. intros s r Hr Hs. apply listed_ids_In. exists r. tauto. Qed.

Lemma needed_in_keys keys rules sel s :
  covers_listed keys rules -> script_needed rules sel s = true -> In s keys.
Proof.
  intros Hc H. apply script_needed_spec in H. destruct H as [r [H1 [H2 _]]]. eapply Hc; eauto.
Qed.

Lemma flat_map_if_ids {A} (b : sid -> bool) (f : sid -> A) (g : A -> sid) l :
  (forall s, g (f s) = s) ->
  map g (flat_map (fun s => if b s then [f s] else []) l) = filter b l.
Proof.
  intros Hg. induction l as [|x l IH]; cbn [flat_map filter map]; [reflexivity|].
  destruct (b x); cbn [app map]; rewrite IH; [rewrite Hg|]; reflexivity.
Qed.

Lemma script_needed_nil sel s : script_needed [] sel s = false.
Proof.
  unfold script_needed, script_matches_test, compiled_for. cbn [flat_map existsb].
  induction sel as [|t sel IH]; cbn [existsb]; auto.
Qed.

(* the enabled scripts, for whatever order the HashMap iterates in *)
Lemma enabled_with_ids keys defs rules sel :
  covers_listed keys rules ->
  map ss_id (enabled_with keys defs rules sel) = filter (script_needed rules sel) defs.
Proof.
  intros Hc. unfold enabled_with.
  destruct rules as [|r0 rules'].
  - cbn [map]. symmetry. induction defs as [|s defs IH]; cbn [filter]; [reflexivity|].
    rewrite script_needed_nil. assumption.
  - set (rules := r0 :: rules') in *.
    rewrite (flat_map_if_ids _ (fun s => mkss s (compiled_for rules s)) ss_id) by reflexivity.
    apply filter_ext. intros s.
    destruct (script_needed rules sel s) eqn:En.
    + apply mem_sid_In, enabled_ids_loop_In. split; [eapply needed_in_keys; eauto|assumption].
    + destruct (mem_sid s (enabled_ids_loop keys rules sel)) eqn:Em; [|reflexivity].
      apply mem_sid_In, enabled_ids_loop_In in Em. destruct Em; congruence.
Qed.

Lemma enabled_ids_filter defs rules sel :
  enabled_ids defs rules sel = filter (script_needed rules sel) defs.
Proof. apply enabled_with_ids, listed_ids_covers. Qed.

Lemma enabled_with_any_order keys defs rules sel :
  covers_listed keys rules ->
  map ss_id (enabled_with keys defs rules sel) = enabled_ids defs rules sel.
Proof. intros Hc. rewrite enabled_ids_filter. apply enabled_with_ids. assumption. Qed.

Lemma enabled_with_compiled keys defs rules sel ss :
  In ss (enabled_with keys defs rules sel) -> ss_compiled ss = compiled_for rules (ss_id ss).
Proof.
  unfold enabled_with. destruct rules as [|r0 rules']; [intros []|].
  intros H. apply in_flat_map in H. destruct H as [s [_ H]].
  destruct (mem_sid s _); [|destruct H]. destruct H as [<-|[]]. reflexivity.
Qed.

Lemma enabled_iff defs rules sel s :
  In s (enabled_ids defs rules sel) <->
  In s defs /\ exists r, In r rules /\ In s (r_setup r) /\
                         exists t, In t sel /\ rule_matches r t = true.
Proof. rewrite enabled_ids_filter, filter_In, script_needed_spec. tauto. Qed.

(* subsequences *)
Inductive subseq {A} : list A -> list A -> Prop :=
| subseq_nil : subseq [] []
| subseq_skip x l1 l2 : subseq l1 l2 -> subseq l1 (x :: l2)
| subseq_keep x l1 l2 : subseq l1 l2 -> subseq (x :: l1) (x :: l2).

Lemma subseq_refl {A} (l : list A) : subseq l l.
Proof. induction l; constructor; assumption. Qed.

Lemma subseq_nil_l {A} (l : list A) : subseq [] l.
Proof. induction l; constructor; assumption. Qed.

Lemma subseq_filter {A} (f : A -> bool) l : subseq (filter f l) l.
Proof. induction l as [|x l IH]; cbn [filter]; [constructor|]. destruct (f x); constructor; assumption. Qed.

Lemma subseq_In {A} (l1 l2 : list A) x : subseq l1 l2 -> In x l1 -> In x l2.
Proof. induction 1; cbn [In]; tauto. Qed.

Lemma subseq_NoDup {A} (l1 l2 : list A) : subseq l1 l2 -> NoDup l2 -> NoDup l1.
Proof.
  induction 1; intros Hn; [constructor| |].
  - inversion Hn; auto.
  - inversion Hn; subst. constructor; [|auto]. intros Hx. eapply subseq_In in Hx; eauto.
Qed.

Lemma subseq_trans {A} (l1 l2 l3 : list A) : subseq l1 l2 -> subseq l2 l3 -> subseq l1 l3.
Proof.
  intros H12 H23. revert l1 H12. induction H23; intros l0 H12.
  - assumption.
  - constructor. auto.
  - inversion H12; subst; [apply subseq_skip|apply subseq_keep]; auto.
Qed.

Lemma enabled_order defs rules sel :
  enabled_ids defs rules sel = filter (script_needed rules sel) defs
  /\ subseq (enabled_ids defs rules sel) defs
  /\ (NoDup defs -> NoDup (enabled_ids defs rules sel)).
Proof.
  rewrite enabled_ids_filter. split; [reflexivity|]. split; [apply subseq_filter|].
  apply NoDup_filter.
Qed.

(* the order of the rules, of the selected tests and of the script lists inside the rules
   does not matter: only which rules and which tests there are *)
Lemma enabled_ids_ext defs rules rules' sel sel' :
  (forall r, In r rules <-> In r rules') -> (forall t, In t sel <-> In t sel') ->
  enabled_ids defs rules sel = enabled_ids defs rules' sel'.
Proof.
  intros Hr Ht. rewrite !enabled_ids_filter. apply filter_ext. intros s.
  destruct (script_needed rules sel s) eqn:E1; destruct (script_needed rules' sel' s) eqn:E2;
    try reflexivity; exfalso.
  - apply script_needed_spec in E1. destruct E1 as [r [H1 [H2 [t [H3 H4]]]]].
    assert (script_needed rules' sel' s = true); [|congruence].
    apply script_needed_spec. exists r. split; [apply Hr; assumption|]. split; [assumption|].
    exists t. split; [apply Ht; assumption|assumption].
  - apply script_needed_spec in E2. destruct E2 as [r [H1 [H2 [t [H3 H4]]]]].
    assert (script_needed rules sel s = true); [|congruence].
    apply script_needed_spec. exists r. split; [apply Hr; assumption|]. split; [assumption|].
    exists t. split; [apply Ht; assumption|assumption].
Qed.

Lemma ss_is_enabled_spec defs rules sel ss t :
  In ss (enabled defs rules sel) ->
  (ss_is_enabled ss t = true <->
   exists r, In r rules /\ In (ss_id ss) (r_setup r) /\ rule_matches r t = true).
Proof.
  intros H. unfold ss_is_enabled. rewrite (enabled_with_compiled _ _ _ _ _ H).
  apply script_matches_test_spec.
Qed.

(* ------------------------------------------------------------------ environment maps *)

Lemma env_lookup_insert_same k v m : env_lookup k (env_insert k v m) = Some v.
Proof.
  induction m as [|[k' v'] m IH]; cbn [env_insert env_lookup].
  - rewrite str_eqb_refl. reflexivity.
  - destruct (str_cmp k k') eqn:E; cbn [env_lookup].
    + rewrite str_eqb_refl. reflexivity.
    + rewrite str_eqb_refl. reflexivity.
    + destruct (str_eqb k k') eqn:E2.
      * apply str_eqb_eq in E2. apply str_cmp_eq in E2. congruence.
      * assumption.
Qed.

Lemma env_lookup_insert_other k k1 v m :
  k <> k1 -> env_lookup k (env_insert k1 v m) = env_lookup k m.
Proof.
  intros Hne. assert (Hf : str_eqb k k1 = false).
  { destruct (str_eqb k k1) eqn:E; [apply str_eqb_eq in E; congruence|reflexivity]. }
  induction m as [|[k' v'] m IH]; cbn [env_insert env_lookup].
  - rewrite Hf. reflexivity.
  - destruct (str_cmp k1 k') eqn:E; cbn [env_lookup].
    + apply str_cmp_eq in E. subst k'. rewrite Hf. reflexivity.
    + rewrite Hf. reflexivity.
    + rewrite IH. reflexivity.
Qed.

Lemma env_lookup_insert k k1 v m :
  env_lookup k (env_insert k1 v m) = if str_eqb k k1 then Some v else env_lookup k m.
Proof.
  destruct (str_eqb k k1) eqn:E.
  - apply str_eqb_eq in E. subst. apply env_lookup_insert_same.
  - apply env_lookup_insert_other. intros ->. rewrite str_eqb_refl in E. discriminate.
Qed.

(* key-sortedness (the BTreeMap's iteration order; makes the list canonical) *)
Fixpoint keys_above (k : str) (m : envmap) : Prop :=
  match m with
  | [] => True
  | (k', _) :: r => str_cmp k k' = Lt /\ keys_above k r
  end.
Fixpoint env_sorted (m : envmap) : Prop :=
  match m with
  | [] => True
  | (k, _) :: r => keys_above k r /\ env_sorted r
  end.

Lemma keys_above_trans k k' m : str_cmp k k' = Lt -> keys_above k' m -> keys_above k m.
Proof.
  induction m as [|[k2 v2] m IH]; cbn [keys_above]; [tauto|].
  intros H [H1 H2]. split; [eapply str_cmp_lt_trans; eauto|auto].
Qed.

Lemma keys_above_insert k k1 v m :
  str_cmp k k1 = Lt -> keys_above k m -> keys_above k (env_insert k1 v m).
Proof.
  induction m as [|[k' v'] m IH]; cbn [env_insert keys_above]; [tauto|].
  intros H [H1 H2]. destruct (str_cmp k1 k'); cbn [keys_above]; tauto.
Qed.

Lemma env_insert_sorted k v m : env_sorted m -> env_sorted (env_insert k v m).
Proof.
  induction m as [|[k' v'] m IH]; cbn [env_insert env_sorted]; [tauto|].
  intros [H1 H2]. destruct (str_cmp k k') eqn:E; cbn [env_sorted keys_above].
  - apply str_cmp_eq in E. subst. tauto.
  - repeat split; try assumption. eapply keys_above_trans; eauto.
  - split; [|auto]. apply keys_above_insert; [|assumption].
    rewrite str_cmp_antisym, E. reflexivity.
Qed.

Lemma keys_above_lookup k m : keys_above k m -> env_lookup k m = None.
Proof.
  induction m as [|[k' v'] m IH]; cbn [keys_above env_lookup]; [reflexivity|].
  intros [H1 H2]. destruct (str_eqb k k') eqn:E; [|auto].
  apply str_eqb_eq, str_cmp_eq in E. congruence.
Qed.

(* two sorted maps with the same lookups are the same list *)
Lemma env_sorted_ext m1 : forall m2,
  env_sorted m1 -> env_sorted m2 -> (forall k, env_lookup k m1 = env_lookup k m2) -> m1 = m2.
Proof.
  induction m1 as [|[k1 v1] m1 IH]; intros [|[k2 v2] m2] S1 S2 H.
  - reflexivity.
  - specialize (H k2). cbn [env_lookup] in H. rewrite str_eqb_refl in H. discriminate.
  - specialize (H k1). cbn [env_lookup] in H. rewrite str_eqb_refl in H. discriminate.
  - cbn [env_sorted] in S1, S2. destruct S1 as [A1 S1], S2 as [A2 S2].
    assert (Ek : k1 = k2).
    { destruct (str_cmp k1 k2) eqn:E.
      - apply str_cmp_eq in E. assumption.
      - exfalso. pose proof (H k1) as Hk. cbn [env_lookup] in Hk. rewrite str_eqb_refl in Hk.
        destruct (str_eqb k1 k2) eqn:E2; [apply str_eqb_eq, str_cmp_eq in E2; congruence|].
        rewrite (keys_above_lookup k1 m2) in Hk; [discriminate|].
        eapply keys_above_trans; eauto.
      - exfalso. pose proof (H k2) as Hk. cbn [env_lookup] in Hk. rewrite str_eqb_refl in Hk.
        assert (E' : str_cmp k2 k1 = Lt) by (rewrite str_cmp_antisym, E; reflexivity).
        destruct (str_eqb k2 k1) eqn:E2; [apply str_eqb_eq, str_cmp_eq in E2; congruence|].
        rewrite (keys_above_lookup k2 m1) in Hk; [discriminate|].
        eapply keys_above_trans; eauto. }
    subst k2.
    assert (Ev : v1 = v2).
    { specialize (H k1). cbn [env_lookup] in H. rewrite str_eqb_refl in H. congruence. }
    subst v2. f_equal. apply IH; try assumption.
    intros k. specialize (H k). cbn [env_lookup] in H.
    destruct (str_eqb k k1) eqn:E; [|assumption].
    apply str_eqb_eq in E. subst k.
    rewrite (keys_above_lookup k1 m1), (keys_above_lookup k1 m2); auto.
Qed.

(* ------------------------------------------------------------------ the environment file *)

Lemma split_once_eq_spec l k v :
  split_once_eq l = Some (k, v) <-> l = k ++ EQ :: v /\ ~ In EQ k.
Proof.
  revert k; induction l as [|c l IH]; intros k; cbn [split_once_eq].
  - split; [discriminate|]. intros [H _]. destruct k; discriminate.
  - destruct (N.eqb_spec c EQ) as [->|Hne].
    + split.
      * intros H. injection H as <- <-. split; [reflexivity|intros []].
      * intros [H Hk]. destruct k as [|c' k].
        { cbn [app] in H. injection H as <-. reflexivity. }
        cbn [app] in H. injection H as <- _. exfalso. apply Hk. left; reflexivity.
    + destruct (split_once_eq l) as [[k' v']|] eqn:E.
      * split.
        -- intros H. injection H as <- <-. destruct (proj1 (IH k') eq_refl) as [-> Hk].
           split; [reflexivity|]. intros [H|H]; [congruence|tauto].
        -- intros [H Hk]. destruct k as [|c' k]; [cbn [app] in H; congruence|].
           cbn [app] in H. injection H as -> H.
           assert (E2 : Some (k', v') = Some (k, v)).
           { apply IH. split; [assumption|]. intros Hx. apply Hk. right; assumption. }
           injection E2 as -> ->. reflexivity.
      * split; [discriminate|]. intros [H Hk].
        destruct k as [|c' k]; [cbn [app] in H; congruence|].
        cbn [app] in H. injection H as -> H.
        assert (E2 : None = Some (k, v)).
        { apply IH. split; [assumption|]. intros Hx. apply Hk. right; assumption. }
        discriminate.
Qed.

Lemma split_once_eq_none l : split_once_eq l = None <-> ~ In EQ l.
Proof.
  induction l as [|c l IH]; cbn [split_once_eq In]; [tauto|].
  destruct (N.eqb_spec c EQ) as [->|Hne].
  - split; [discriminate|]. intros H. exfalso. apply H. left; reflexivity.
  - destruct (split_once_eq l) as [[k v]|].
    + split; [discriminate|]. intros H. exfalso.
      assert (Hn : ~ In EQ l) by tauto. apply IH in Hn. discriminate.
    + split; [|reflexivity]. intros _ [H|H]; [congruence|]. apply IH in H; auto.
Qed.

Lemma line_ok_spec l :
  line_ok l = true <->
  exists k v, l = k ++ EQ :: v /\ ~ In EQ k /\ is_prefix NEXTEST k = false.
Proof.
  unfold line_ok. destruct (split_once_eq l) as [[k v]|] eqn:E.
  - apply split_once_eq_spec in E. destruct E as [-> Hk]. split.
    + intros H. exists k, v. repeat split; try assumption.
      destruct (is_prefix NEXTEST k); [discriminate|reflexivity].
    + intros [k' [v' [H1 [H2 H3]]]].
      assert (E : Some (k, v) = Some (k', v')).
      { rewrite <- (proj2 (split_once_eq_spec (k ++ EQ :: v) k v) (conj eq_refl Hk)).
        apply split_once_eq_spec. tauto. }
      injection E as -> ->. rewrite H3. reflexivity.
  - split; [discriminate|]. intros [k [v [H1 [H2 _]]]].
    assert (E' : split_once_eq l = Some (k, v)) by (apply split_once_eq_spec; tauto). congruence.
Qed.

Lemma parse_lines_none ls : forall acc,
  parse_lines ls acc = None <-> exists l, In l ls /\ line_ok l = false.
Proof.
  induction ls as [|l ls IH]; intros acc; cbn [parse_lines].
  - split; [discriminate|]. intros [l [[] _]].
  - unfold line_ok at 1. destruct (split_once_eq l) as [[k v]|] eqn:E.
    + destruct (is_prefix NEXTEST k) eqn:Ep.
      * split; [|reflexivity]. intros _. exists l. split; [left; reflexivity|].
        unfold line_ok. rewrite E, Ep. reflexivity.
      * rewrite IH. split.
        -- intros [l' [H1 H2]]. exists l'. split; [right; assumption|assumption].
        -- intros [l' [[<-|H1] H2]].
           ++ unfold line_ok in H2. rewrite E, Ep in H2. discriminate.
           ++ exists l'. tauto.
    + split; [|reflexivity]. intros _. exists l. split; [left; reflexivity|].
      unfold line_ok. rewrite E. reflexivity.
Qed.

Lemma parse_lines_lookup ls : forall acc m k,
  parse_lines ls acc = Some m ->
  env_lookup k m = match last_binding k ls with Some v => Some v | None => env_lookup k acc end.
Proof.
  induction ls as [|l ls IH]; intros acc m k; cbn [parse_lines last_binding].
  - intros H. injection H as <-. reflexivity.
  - destruct (split_once_eq l) as [[k' v']|] eqn:E; [|discriminate].
    destruct (is_prefix NEXTEST k'); [discriminate|].
    intros H. rewrite (IH _ _ k H).
    destruct (last_binding k ls); [reflexivity|].
    rewrite env_lookup_insert. destruct (str_eqb k k'); reflexivity.
Qed.

Lemma parse_lines_sorted ls : forall acc m,
  env_sorted acc -> parse_lines ls acc = Some m -> env_sorted m.
Proof.
  induction ls as [|l ls IH]; intros acc m Hs; cbn [parse_lines].
  - intros H. injection H as <-. assumption.
  - destruct (split_once_eq l) as [[k' v']|]; [|discriminate].
    destruct (is_prefix NEXTEST k'); [discriminate|].
    apply IH. apply env_insert_sorted. assumption.
Qed.

Lemma parse_env_spec ls :
  (parse_env ls = None <-> exists l, In l ls /\ line_ok l = false)
  /\ (forall m, parse_env ls = Some m ->
        env_sorted m /\ forall k, env_lookup k m = last_binding k ls).
Proof.
  split; [apply parse_lines_none|].
  intros m H. split.
  - eapply parse_lines_sorted; [|exact H]. exact I.
  - intros k. rewrite (parse_lines_lookup _ _ _ k H). destruct (last_binding k ls); reflexivity.
Qed.

Lemma parse_env_accepts ls :
  (forall l, In l ls -> line_ok l = true) -> exists m, parse_env ls = Some m.
Proof.
  intros H. destruct (parse_env ls) as [m|] eqn:E; [eauto|].
  apply parse_lines_none in E. destruct E as [l [H1 H2]]. rewrite (H l H1) in H2. discriminate.
Qed.

(* a NEXTEST-prefixed key or a line without '=' anywhere in the file rejects the whole file *)
Lemma parse_env_rejects_reserved ls k v :
  In (k ++ EQ :: v) ls -> ~ In EQ k -> is_prefix NEXTEST k = true -> parse_env ls = None.
Proof.
  intros Hin Hk Hp. apply parse_lines_none. exists (k ++ EQ :: v). split; [assumption|].
  unfold line_ok. rewrite (proj2 (split_once_eq_spec _ k v) (conj eq_refl Hk)), Hp. reflexivity.
Qed.

Lemma parse_env_rejects_no_eq ls l :
  In l ls -> ~ In EQ l -> parse_env ls = None.
Proof.
  intros Hin Hl. apply parse_lines_none. exists l. split; [assumption|].
  unfold line_ok. rewrite (proj2 (split_once_eq_none l) Hl). reflexivity.
Qed.

(* ---- lines *)

Lemma split_lines_aux_line l : forall cur rest,
  ~ In NL l ->
  split_lines_aux cur (l ++ NL :: rest) =
  rev (strip_cr_rev (rev l ++ cur)) :: split_lines_aux [] rest.
Proof.
  induction l as [|c l IH]; intros cur rest Hl.
  - cbn [app rev split_lines_aux]. rewrite N.eqb_refl. reflexivity.
  - cbn [app split_lines_aux]. destruct (N.eqb_spec c NL) as [->|Hne].
    + exfalso. apply Hl. left; reflexivity.
    + rewrite IH by (intros Hx; apply Hl; right; assumption).
      cbn [rev]. rewrite <- app_assoc. reflexivity.
Qed.

Lemma split_lines_aux_end l : forall cur,
  ~ In NL l ->
  split_lines_aux cur l = match rev l ++ cur with [] => [] | x => [rev x] end.
Proof.
  induction l as [|c l IH]; intros cur Hl.
  - cbn [rev app split_lines_aux]. destruct cur; reflexivity.
  - cbn [split_lines_aux]. destruct (N.eqb_spec c NL) as [->|Hne].
    + exfalso. apply Hl. left; reflexivity.
    + rewrite IH by (intros Hx; apply Hl; right; assumption).
      cbn [rev]. rewrite <- app_assoc. reflexivity.
Qed.

Definition ends_with_cr (l : str) : bool :=
  match rev l with c :: _ => c =? CR | [] => false end.

Lemma strip_cr_no_cr l : ends_with_cr l = false -> rev (strip_cr_rev (rev l)) = l.
Proof.
  unfold ends_with_cr, strip_cr_rev. destruct (rev l) as [|c r] eqn:E.
  - intros _. rewrite <- (rev_involutive l), E. reflexivity.
  - intros ->. rewrite <- E. apply rev_involutive.
Qed.

Lemma strip_cr_crlf l : rev (strip_cr_rev (rev (l ++ [CR]))) = l.
Proof.
  rewrite rev_app_distr. cbn [rev app strip_cr_rev]. rewrite N.eqb_refl. apply rev_involutive.
Qed.

Definition last_line (l : str) : list str := match l with [] => [] | _ => [l] end.

(* LF-terminated lines, then an optional unterminated rest *)
Lemma split_lines_lf ls last :
  (forall l, In l ls -> ~ In NL l /\ ends_with_cr l = false) -> ~ In NL last ->
  split_lines (concat (map (fun l => l ++ [NL]) ls) ++ last) = ls ++ last_line last.
Proof.
  unfold split_lines. induction ls as [|l ls IH]; intros Hls Hlast.
  - cbn [map concat app]. rewrite split_lines_aux_end by assumption. rewrite app_nil_r.
    destruct last as [|c last]; [reflexivity|].
    cbn [last_line]. destruct (rev (c :: last)) eqn:E.
    + apply (f_equal (@length N)) in E. rewrite rev_length in E. discriminate.
    + rewrite <- E, rev_involutive. reflexivity.
  - cbn [map concat]. rewrite <- !app_assoc. cbn [app].
    destruct (Hls l (or_introl eq_refl)) as [H1 H2].
    rewrite split_lines_aux_line by assumption. rewrite app_nil_r, strip_cr_no_cr by assumption.
    cbn [app]. f_equal. apply IH; [|assumption]. intros l' Hl'. apply Hls. right; assumption.
Qed.

(* CRLF-terminated lines *)
Lemma split_lines_crlf ls last :
  (forall l, In l ls -> ~ In NL l) -> ~ In NL last ->
  split_lines (concat (map (fun l => l ++ [CR; NL]) ls) ++ last) = ls ++ last_line last.
Proof.
  unfold split_lines. induction ls as [|l ls IH]; intros Hls Hlast.
  - cbn [map concat app]. rewrite split_lines_aux_end by assumption. rewrite app_nil_r.
    destruct last as [|c last]; [reflexivity|].
    cbn [last_line]. destruct (rev (c :: last)) eqn:E.
    + apply (f_equal (@length N)) in E. rewrite rev_length in E. discriminate.
    + rewrite <- E, rev_involutive. reflexivity.
  - cbn [map concat]. rewrite <- !app_assoc.
    replace (l ++ [CR; NL] ++ concat (map (fun l0 => l0 ++ [CR; NL]) ls) ++ last)
      with ((l ++ [CR]) ++ NL :: concat (map (fun l0 => l0 ++ [CR; NL]) ls) ++ last)
      by (rewrite <- app_assoc; reflexivity).
    rewrite split_lines_aux_line.
    + rewrite app_nil_r, strip_cr_crlf. cbn [app]. f_equal. apply IH; [|assumption].
      intros l' Hl'. apply Hls. right; assumption.
    + intros Hx. apply in_app_or in Hx. destruct Hx as [Hx|[Hx|[]]].
      * eapply Hls; [left; reflexivity|exact Hx].
      * discriminate.
Qed.

(* an empty line (two consecutive newlines, or a leading newline) is a line without '=' *)
Lemma blank_line_split pre post :
  ~ In NL pre ->
  split_lines (pre ++ NL :: NL :: post) = rev (strip_cr_rev (rev pre)) :: [] :: split_lines post.
Proof.
  intros H. unfold split_lines. rewrite split_lines_aux_line by assumption.
  rewrite app_nil_r. cbn [split_lines_aux]. rewrite N.eqb_refl. reflexivity.
Qed.

Lemma blank_line_rejects_file pre post :
  ~ In NL pre -> parse_env_file (pre ++ NL :: NL :: post) = None.
Proof.
  intros H. unfold parse_env_file. rewrite blank_line_split by assumption.
  apply (parse_env_rejects_no_eq _ []); [right; left; reflexivity|]. intros [].
Qed.

(* ------------------------------------------------------------------ applying the variables *)

Lemma env_union_lookup m : forall base k,
  env_sorted m ->
  env_lookup k (env_union m base) =
  match env_lookup k m with Some v => Some v | None => env_lookup k base end.
Proof.
  unfold env_union. induction m as [|[k1 v1] m IH]; intros base k Hs; cbn [fold_left env_lookup].
  - reflexivity.
  - cbn [env_sorted] in Hs. destruct Hs as [Ha Hs]. cbn [fst snd].
    rewrite IH by assumption. rewrite env_lookup_insert.
    destruct (str_eqb k k1) eqn:E.
    + apply str_eqb_eq in E. subst k1. rewrite (keys_above_lookup k m Ha). reflexivity.
    + reflexivity.
Qed.

Definition data_sorted (data : run_data) : Prop := forall d, In d data -> env_sorted (snd d).

Lemma apply_env_lookup data : forall base t k,
  data_sorted data ->
  env_lookup k (apply_env data t base) =
  match scripted_value data t k with Some v => Some v | None => env_lookup k base end.
Proof.
  unfold apply_env. induction data as [|d data IH]; intros base t k Hs;
    cbn [fold_left scripted_value].
  - reflexivity.
  - rewrite IH by (intros d' Hd'; apply Hs; right; assumption).
    destruct (scripted_value data t k); [reflexivity|].
    destruct (ss_is_enabled (fst d) t); [|reflexivity].
    apply env_union_lookup. apply Hs. left; reflexivity.
Qed.

Lemma scripted_value_none data t k :
  scripted_value data t k = None <->
  forall d, In d data -> ss_is_enabled (fst d) t = true -> env_lookup k (snd d) = None.
Proof.
  induction data as [|d data IH]; cbn [scripted_value In].
  - split; [intros _ d []|reflexivity].
  - destruct (scripted_value data t k) eqn:E.
    + split; [discriminate|]. intros H. exfalso.
      assert (Hn : Some s = None); [|discriminate]. apply IH. intros d' Hd'. apply H. right; assumption.
    + destruct (ss_is_enabled (fst d) t) eqn:Ee.
      * split.
        -- intros H d' [<-|Hd'] He; [assumption|]. apply (proj1 IH eq_refl); assumption.
        -- intros H. apply H; [left; reflexivity|assumption].
      * split; [|reflexivity]. intros _ d' [<-|Hd'] He; [congruence|].
        apply (proj1 IH eq_refl); assumption.
Qed.

Lemma scripted_value_some data t k v :
  scripted_value data t k = Some v <->
  exists pre d post, data = pre ++ d :: post
    /\ ss_is_enabled (fst d) t = true /\ env_lookup k (snd d) = Some v
    /\ forall d', In d' post -> ss_is_enabled (fst d') t = true -> env_lookup k (snd d') = None.
Proof.
  induction data as [|d data IH]; cbn [scripted_value].
  - split; [discriminate|]. intros [pre [d [post [H _]]]]. destruct pre; discriminate.
  - destruct (scripted_value data t k) as [v'|] eqn:E.
    + split.
      * intros H. injection H as ->. destruct (proj1 IH eq_refl) as [pre [d0 [post [-> H]]]].
        exists (d :: pre), d0, post. split; [reflexivity|exact H].
      * intros [pre [d0 [post [Hd [H1 [H2 H3]]]]]].
        destruct pre as [|d1 pre]; cbn [app] in Hd; injection Hd as <- ->.
        -- exfalso. assert (Hn : Some v' = None); [|discriminate].
           rewrite <- E. apply scripted_value_none. assumption.
        -- apply IH. exists pre, d0, post. tauto.
    + split.
      * intros H. destruct (ss_is_enabled (fst d) t) eqn:Ee; [|discriminate].
        exists [], d, data. repeat split; try assumption. apply scripted_value_none. assumption.
      * intros [pre [d0 [post [Hd [H1 [H2 H3]]]]]].
        destruct pre as [|d1 pre]; cbn [app] in Hd; injection Hd as <- ->.
        -- rewrite H1. assumption.
        -- exfalso. assert (Hn : None = Some v); [|discriminate].
           apply IH. exists pre, d0, post. tauto.
Qed.

(* ------------------------------------------------------------------ what a finished script reports *)

Lemma finish_script_pass o r em :
  finish_script o = (r, em) -> is_success r = true ->
  r = o_result o /\ exists m, em = Some m /\ read_env o = Some m.
Proof.
  unfold finish_script. destruct (is_success (o_result o)) eqn:Es.
  - destruct (read_env o) as [m|].
    + intros H _. injection H as <- <-. split; [reflexivity|eauto].
    + intros H Hs. injection H as <- <-. discriminate.
  - intros H Hs. injection H as <- <-. congruence.
Qed.

Lemma finish_script_bad_env o :
  is_success (o_result o) = true -> read_env o = None -> finish_script o = (RExecFail, None).
Proof. intros H1 H2. unfold finish_script. rewrite H1, H2. reflexivity. Qed.

Lemma finish_script_failed o :
  is_success (o_result o) = false -> finish_script o = (o_result o, None).
Proof. intros H. unfold finish_script. rewrite H. reflexivity. Qed.

Lemma finish_script_success_iff o :
  is_success (fst (finish_script o)) = true <->
  is_success (o_result o) = true /\ exists m, read_env o = Some m.
Proof.
  unfold finish_script. destruct (is_success (o_result o)) eqn:Es.
  - destruct (read_env o) as [m|]; cbn [fst].
    + split; [eauto|intros _; assumption].
    + cbn [is_success]. split; [discriminate|]. intros [_ [m H]]. discriminate.
  - cbn [fst]. rewrite Es. split; [discriminate|]. intros [H _]. discriminate.
Qed.

Lemma finish_script_env_sorted o r m : finish_script o = (r, Some m) -> env_sorted m.
Proof.
  unfold finish_script. destruct (is_success (o_result o)); [|discriminate].
  destruct (read_env o) as [m'|] eqn:E; [|discriminate].
  intros H. injection H as _ <-. unfold read_env in E.
  destruct (o_env_file o); [|discriminate]. unfold parse_env_file in E.
  apply parse_env_spec in E. tauto.
Qed.

(* ------------------------------------------------------------------ the run *)

(* laws of the dispatcher interface (safety): a cancelled dispatcher refuses every start
   request and stays cancelled; a non-success SetupScriptFinished cancels the run and is
   counted; the count never decreases; a positive count gives exit status 105.
   For the dispatcher model these are C10_no_new_units / C10_monotone (refusal, stickiness),
   the SetupScriptFinished arm of dstep (begin_cancel SetupScriptFailure, on_script_finished)
   and C01_codes (105). *)
Record disp_laws (D : disp) : Prop := {
  law_start_refused : forall d, d_cancelled D d = true -> snd (d_unit_start D d) = false;
  law_start_sticky : forall d,
      d_cancelled D d = true -> d_cancelled D (fst (d_unit_start D d)) = true;
  law_start_count : forall d,
      d_failed_scripts D d <= d_failed_scripts D (fst (d_unit_start D d));
  law_finish_cancels : forall d r,
      is_success r = false -> d_cancelled D (d_script_finished D d r) = true;
  law_finish_counted : forall d r,
      is_success r = false -> 0 < d_failed_scripts D (d_script_finished D d r);
  law_finish_sticky : forall d r,
      d_cancelled D d = true -> d_cancelled D (d_script_finished D d r) = true;
  law_finish_count : forall d r,
      d_failed_scripts D d <= d_failed_scripts D (d_script_finished D d r);
  law_exit_105 : forall d, 0 < d_failed_scripts D d -> d_exit D d = 105%Z }.

(* ... and liveness in the closed world of these three events (no signal, no test failure):
   a dispatcher that is not cancelled accepts a start request and stays uncancelled, also
   after a successful script *)
Record disp_live (D : disp) : Prop := {
  live_start : forall d, d_cancelled D d = false ->
      snd (d_unit_start D d) = true /\ d_cancelled D (fst (d_unit_start D d)) = false;
  live_finish : forall d r, d_cancelled D d = false -> is_success r = true ->
      d_cancelled D (d_script_finished D d r) = false }.

Definition script_result (outs : sid -> outcome) (ss : setup_script) : exec_result :=
  fst (finish_script (outs (ss_id ss))).
Definition script_events (outs : sid -> outcome) (ss : setup_script) : list event :=
  [EvScriptStarted (ss_id ss); EvScriptFinished (ss_id ss) (script_result outs ss)].
Definition env_entry (outs : sid -> outcome) (ss : setup_script) : run_data :=
  match snd (finish_script (outs (ss_id ss))) with Some m => [(ss, m)] | None => [] end.

(* the scripts whose start request was accepted, and the dispatcher state after the loop *)
Fixpoint ran (D : disp) (d : d_state D) (scripts : list setup_script) (outs : sid -> outcome)
  : list setup_script :=
  match scripts with
  | [] => []
  | ss :: rest =>
      let d1 := fst (d_unit_start D d) in
      if snd (d_unit_start D d)
      then ss :: ran D (d_script_finished D d1 (script_result outs ss)) rest outs
      else ran D d1 rest outs
  end.
Fixpoint scripts_state (D : disp) (d : d_state D) (scripts : list setup_script)
         (outs : sid -> outcome) : d_state D :=
  match scripts with
  | [] => d
  | ss :: rest =>
      let d1 := fst (d_unit_start D d) in
      if snd (d_unit_start D d)
      then scripts_state D (d_script_finished D d1 (script_result outs ss)) rest outs
      else scripts_state D d1 rest outs
  end.

Lemma run_scripts_eq D scripts outs : forall d data,
  run_scripts D d scripts outs data =
  (scripts_state D d scripts outs,
   flat_map (script_events outs) (ran D d scripts outs),
   data ++ flat_map (env_entry outs) (ran D d scripts outs)).
Proof.
  induction scripts as [|ss rest IH]; intros d data; cbn [run_scripts ran scripts_state flat_map].
  - rewrite app_nil_r. reflexivity.
  - destruct (d_unit_start D d) as [d1 acc] eqn:Es. cbn [fst snd]. destruct acc.
    + unfold script_result, env_entry at 1.
      destruct (finish_script (outs (ss_id ss))) as [r em] eqn:Ef. cbn [fst snd].
      rewrite IH. cbn [flat_map script_events app]. unfold script_result. rewrite Ef. cbn [fst].
      destruct em as [m|]; cbn [app]; [rewrite <- app_assoc|]; reflexivity.
    + apply IH.
Qed.

(* the tests whose start request was accepted, and the state after them *)
Fixpoint started_tests (D : disp) (d : d_state D) (reqs : list tquery) : list tquery :=
  match reqs with
  | [] => []
  | t :: rest =>
      let d1 := fst (d_unit_start D d) in
      if snd (d_unit_start D d) then t :: started_tests D d1 rest else started_tests D d1 rest
  end.
Fixpoint tests_state (D : disp) (d : d_state D) (reqs : list tquery) : d_state D :=
  match reqs with
  | [] => d
  | t :: rest => tests_state D (fst (d_unit_start D d)) rest
  end.

Lemma run_tests_eq D data reqs : forall d,
  run_tests D d data reqs =
  (tests_state D d reqs,
   map (fun t => EvTestStarted t (apply_env data t [])) (started_tests D d reqs)).
Proof.
  induction reqs as [|t rest IH]; intros d; cbn [run_tests started_tests tests_state map].
  - reflexivity.
  - destruct (d_unit_start D d) as [d1 acc]. cbn [fst snd]. rewrite IH.
    destruct acc; reflexivity.
Qed.

Definition run_scripts_ran D d0 defs rules sel outs : list setup_script :=
  ran D d0 (enabled defs rules sel) outs.
Definition run_data_of D d0 defs rules sel outs : run_data :=
  flat_map (env_entry outs) (run_scripts_ran D d0 defs rules sel outs).

Lemma run_eq D d0 defs rules sel outs reqs :
  run D d0 defs rules sel outs reqs =
  (tests_state D (scripts_state D d0 (enabled defs rules sel) outs) reqs,
   flat_map (script_events outs) (run_scripts_ran D d0 defs rules sel outs)
   ++ map (fun t => EvTestStarted t (apply_env (run_data_of D d0 defs rules sel outs) t []))
          (started_tests D (scripts_state D d0 (enabled defs rules sel) outs) reqs)).
Proof.
  unfold run. rewrite run_scripts_eq. cbn [app]. rewrite run_tests_eq. reflexivity.
Qed.

Lemma ran_subseq D scripts outs : forall d, subseq (ran D d scripts outs) scripts.
Proof.
  induction scripts as [|ss rest IH]; intros d; cbn [ran]; [constructor|].
  destruct (snd (d_unit_start D d)); constructor; apply IH.
Qed.

Lemma started_tests_subseq D reqs : forall d, subseq (started_tests D d reqs) reqs.
Proof.
  induction reqs as [|t rest IH]; intros d; cbn [started_tests]; [constructor|].
  destruct (snd (d_unit_start D d)); constructor; apply IH.
Qed.

(* cancelled: nothing starts any more *)
Lemma ran_cancelled D (L : disp_laws D) scripts outs : forall d,
  d_cancelled D d = true ->
  ran D d scripts outs = []
  /\ d_cancelled D (scripts_state D d scripts outs) = true
  /\ d_failed_scripts D d <= d_failed_scripts D (scripts_state D d scripts outs).
Proof.
  induction scripts as [|ss rest IH]; intros d Hc; cbn [ran scripts_state].
  - repeat split; [assumption|lia].
  - rewrite (law_start_refused D L d Hc).
    destruct (IH (fst (d_unit_start D d)) (law_start_sticky D L d Hc)) as [H1 [H2 H3]].
    repeat split; try assumption. pose proof (law_start_count D L d). lia.
Qed.

Lemma started_tests_cancelled D (L : disp_laws D) reqs : forall d,
  d_cancelled D d = true ->
  started_tests D d reqs = []
  /\ d_cancelled D (tests_state D d reqs) = true.
Proof.
  induction reqs as [|t rest IH]; intros d Hc; cbn [started_tests tests_state].
  - tauto.
  - rewrite (law_start_refused D L d Hc). apply IH. apply (law_start_sticky D L d Hc).
Qed.

Lemma tests_state_count D (L : disp_laws D) reqs : forall d,
  d_failed_scripts D d <= d_failed_scripts D (tests_state D d reqs).
Proof.
  induction reqs as [|t rest IH]; intros d; cbn [tests_state]; [lia|].
  pose proof (law_start_count D L d). pose proof (IH (fst (d_unit_start D d))). lia.
Qed.

Lemma scripts_state_count D (L : disp_laws D) scripts outs : forall d,
  d_failed_scripts D d <= d_failed_scripts D (scripts_state D d scripts outs).
Proof.
  induction scripts as [|ss rest IH]; intros d; cbn [scripts_state]; [lia|].
  pose proof (law_start_count D L d).
  destruct (snd (d_unit_start D d)).
  - pose proof (law_finish_count D L (fst (d_unit_start D d)) (script_result outs ss)).
    pose proof (IH (d_script_finished D (fst (d_unit_start D d)) (script_result outs ss))). lia.
  - pose proof (IH (fst (d_unit_start D d))). lia.
Qed.

(* a script that ran and did not succeed is the last one that ran; afterwards the dispatcher
   is cancelled and has counted a failed script *)
Lemma ran_failure_last D (L : disp_laws D) scripts outs : forall d pre ss post,
  ran D d scripts outs = pre ++ ss :: post ->
  is_success (script_result outs ss) = false ->
  post = []
  /\ d_cancelled D (scripts_state D d scripts outs) = true
  /\ 0 < d_failed_scripts D (scripts_state D d scripts outs).
Proof.
  induction scripts as [|s0 rest IH]; intros d pre ss post; cbn [ran scripts_state].
  - intros H. destruct pre; discriminate.
  - destruct (snd (d_unit_start D d)).
    + intros H Hf. destruct pre as [|p pre]; cbn [app] in H; injection H as -> H.
      * set (d2 := d_script_finished D (fst (d_unit_start D d)) (script_result outs ss)) in *.
        assert (Hc : d_cancelled D d2 = true) by (apply (law_finish_cancels D L); assumption).
        destruct (ran_cancelled D L rest outs d2 Hc) as [H1 [H2 H3]].
        rewrite H1 in H. split; [congruence|]. split; [assumption|].
        pose proof (law_finish_counted D L (fst (d_unit_start D d)) _ Hf). fold d2 in H0. lia.
      * eapply IH; eauto.
    + intros H Hf. eapply IH; eauto.
Qed.

(* the scripts up to and including the first one that does not succeed *)
Fixpoint executed (outs : sid -> outcome) (scripts : list setup_script) : list setup_script :=
  match scripts with
  | [] => []
  | ss :: rest => ss :: if is_success (script_result outs ss) then executed outs rest else []
  end.

Lemma ran_executed D (L : disp_laws D) (V : disp_live D) scripts outs : forall d,
  d_cancelled D d = false -> ran D d scripts outs = executed outs scripts.
Proof.
  induction scripts as [|ss rest IH]; intros d Hc; cbn [ran executed]; [reflexivity|].
  destruct (live_start D V d Hc) as [H1 H2]. rewrite H1. f_equal.
  destruct (is_success (script_result outs ss)) eqn:Es.
  - apply IH. apply (live_finish D V); assumption.
  - apply (ran_cancelled D L). apply (law_finish_cancels D L). assumption.
Qed.

Lemma all_succeed_not_cancelled D (V : disp_live D) scripts outs : forall d,
  d_cancelled D d = false ->
  (forall ss, In ss scripts -> is_success (script_result outs ss) = true) ->
  ran D d scripts outs = scripts /\ d_cancelled D (scripts_state D d scripts outs) = false.
Proof.
  induction scripts as [|ss rest IH]; intros d Hc Hall; cbn [ran scripts_state]; [tauto|].
  destruct (live_start D V d Hc) as [H1 H2]. rewrite H1.
  destruct (IH (d_script_finished D (fst (d_unit_start D d)) (script_result outs ss))) as [H3 H4].
  - apply (live_finish D V); [assumption|]. apply Hall. left; reflexivity.
  - intros ss' Hin. apply Hall. right; assumption.
  - rewrite H3. tauto.
Qed.

Lemma started_tests_live D (V : disp_live D) reqs : forall d,
  d_cancelled D d = false -> started_tests D d reqs = reqs.
Proof.
  induction reqs as [|t rest IH]; intros d Hc; cbn [started_tests]; [reflexivity|].
  destruct (live_start D V d Hc) as [H1 H2]. rewrite H1. f_equal. apply IH. assumption.
Qed.

(* ---- the statements used by Properties/C18.v *)

Definition is_script_event (e : event) : bool :=
  match e with EvTestStarted _ _ => false | _ => true end.

Lemma run_before_tests D d0 defs rules sel outs reqs :
  exists evs1 evs2,
    snd (run D d0 defs rules sel outs reqs) = evs1 ++ evs2
    /\ forallb is_script_event evs1 = true
    /\ forallb (fun e => negb (is_script_event e)) evs2 = true
    /\ evs1 = flat_map (script_events outs) (run_scripts_ran D d0 defs rules sel outs).
Proof.
  rewrite run_eq. cbn [snd]. eexists. eexists. split; [reflexivity|]. split; [|split; [|reflexivity]].
  - induction (run_scripts_ran D d0 defs rules sel outs) as [|ss l IH]; cbn; auto.
  - induction (started_tests D _ reqs) as [|t l IH]; cbn; auto.
Qed.

Lemma subseq_map {A B} (f : A -> B) l1 l2 : subseq l1 l2 -> subseq (map f l1) (map f l2).
Proof. induction 1; cbn [map]; constructor; assumption. Qed.

Lemma run_serial D d0 defs rules sel outs :
  subseq (map ss_id (run_scripts_ran D d0 defs rules sel outs)) (enabled_ids defs rules sel).
Proof. unfold run_scripts_ran, enabled_ids. apply subseq_map, ran_subseq. Qed.

Lemma run_failure D (L : disp_laws D) d0 defs rules sel outs reqs s r :
  In (EvScriptFinished s r) (snd (run D d0 defs rules sel outs reqs)) ->
  is_success r = false ->
  (forall t env, ~ In (EvTestStarted t env) (snd (run D d0 defs rules sel outs reqs)))
  /\ d_exit D (fst (run D d0 defs rules sel outs reqs)) = 105%Z
  /\ exists pre ss, run_scripts_ran D d0 defs rules sel outs = pre ++ [ss] /\ ss_id ss = s.
Proof.
  rewrite run_eq. cbn [fst snd]. intros Hin Hf.
  apply in_app_or in Hin. destruct Hin as [Hin|Hin].
  2:{ apply in_map_iff in Hin. destruct Hin as [t [Ht _]]. discriminate. }
  apply in_flat_map in Hin. destruct Hin as [ss [Hss He]].
  cbn [script_events In] in He. destruct He as [He|[He|[]]]; [discriminate|].
  injection He as <- <-.
  apply in_split in Hss. destruct Hss as [pre [post Hss]].
  unfold run_scripts_ran in *.
  destruct (ran_failure_last D L _ outs d0 pre ss post Hss Hf) as [-> [Hc Hn]].
  destruct (started_tests_cancelled D L reqs _ Hc) as [Hst Hc2].
  split; [|split].
  - intros t env Hin. apply in_app_or in Hin. destruct Hin as [Hin|Hin].
    + apply in_flat_map in Hin. destruct Hin as [ss' [_ He]].
      cbn [script_events In] in He. destruct He as [He|[He|[]]]; discriminate.
    + rewrite Hst in Hin. destruct Hin.
  - apply (law_exit_105 D L). pose proof (tests_state_count D L reqs
      (scripts_state D d0 (enabled defs rules sel) outs)). lia.
  - exists pre, ss. tauto.
Qed.

(* with a live, initially uncancelled dispatcher the scripts that run are exactly the enabled
   ones up to the first that does not succeed *)
Lemma run_executed D (L : disp_laws D) (V : disp_live D) d0 defs rules sel outs :
  d_cancelled D d0 = false ->
  run_scripts_ran D d0 defs rules sel outs = executed outs (enabled defs rules sel).
Proof. intros Hc. apply ran_executed; assumption. Qed.

Lemma executed_all outs scripts :
  (forall ss, In ss scripts -> is_success (script_result outs ss) = true) ->
  executed outs scripts = scripts.
Proof.
  induction scripts as [|ss rest IH]; intros H; cbn [executed]; [reflexivity|].
  rewrite (H ss (or_introl eq_refl)). f_equal. apply IH. intros ss' Hin. apply H. right; assumption.
Qed.

Lemma executed_first_failure outs pre ss post :
  (forall p, In p pre -> is_success (script_result outs p) = true) ->
  is_success (script_result outs ss) = false ->
  executed outs (pre ++ ss :: post) = pre ++ [ss].
Proof.
  induction pre as [|p pre IH]; intros Hp Hf; cbn [app executed].
  - rewrite Hf. reflexivity.
  - rewrite (Hp p (or_introl eq_refl)). f_equal. apply IH; [|assumption].
    intros p' Hin. apply Hp. right; assumption.
Qed.

(* the environment a started test receives *)
Lemma run_data_sorted D d0 defs rules sel outs : data_sorted (run_data_of D d0 defs rules sel outs).
Proof.
  unfold run_data_of. intros d Hd. apply in_flat_map in Hd. destruct Hd as [ss [_ Hd]].
  unfold env_entry in Hd. destruct (finish_script (outs (ss_id ss))) as [r [m|]] eqn:E;
    cbn [snd] in Hd; [|destruct Hd].
  destruct Hd as [<-|[]]. cbn [snd]. eapply finish_script_env_sorted; eauto.
Qed.

Lemma run_test_env D d0 defs rules sel outs reqs t env :
  In (EvTestStarted t env) (snd (run D d0 defs rules sel outs reqs)) ->
  env = apply_env (run_data_of D d0 defs rules sel outs) t []
  /\ forall k, env_lookup k env = scripted_value (run_data_of D d0 defs rules sel outs) t k.
Proof.
  rewrite run_eq. cbn [snd]. intros Hin. apply in_app_or in Hin. destruct Hin as [Hin|Hin].
  - apply in_flat_map in Hin. destruct Hin as [ss' [_ He]].
    cbn [script_events In] in He. destruct He as [He|[He|[]]]; discriminate.
  - apply in_map_iff in Hin. destruct Hin as [t' [He _]]. injection He as -> <-.
    split; [reflexivity|]. intros k. rewrite apply_env_lookup by apply run_data_sorted.
    destruct (scripted_value _ t k); reflexivity.
Qed.

(* the data handed to the tests: one entry per script that ran and succeeded, in run order,
   holding the parsed content of its environment file *)
Lemma run_data_entries D d0 defs rules sel outs ss m :
  In (ss, m) (run_data_of D d0 defs rules sel outs) <->
  In ss (run_scripts_ran D d0 defs rules sel outs)
  /\ is_success (o_result (outs (ss_id ss))) = true /\ read_env (outs (ss_id ss)) = Some m.
Proof.
  unfold run_data_of. rewrite in_flat_map. split.
  - intros [ss' [Hin He]]. unfold env_entry in He.
    destruct (finish_script (outs (ss_id ss'))) as [r [m'|]] eqn:E; cbn [snd] in He; [|destruct He].
    destruct He as [He|[]]. injection He as -> ->. split; [assumption|].
    unfold finish_script in E. destruct (is_success (o_result (outs (ss_id ss)))); [|discriminate].
    destruct (read_env (outs (ss_id ss))); [|discriminate]. injection E as _ ->. tauto.
  - intros [Hin [Hs Hr]]. exists ss. split; [assumption|]. unfold env_entry, finish_script.
    rewrite Hs, Hr. left; reflexivity.
Qed.

Lemma first_failure {A} (f : A -> bool) l :
  (exists x, In x l /\ f x = false) ->
  exists pre x post, l = pre ++ x :: post /\ (forall p, In p pre -> f p = true) /\ f x = false.
Proof.
  induction l as [|a l IH]; intros [x [Hin Hx]]; [destruct Hin|].
  destruct (f a) eqn:Ea.
  - destruct Hin as [->|Hin]; [congruence|].
    destruct IH as [pre [y [post [-> [H1 H2]]]]]; [eauto|].
    exists (a :: pre), y, post. split; [reflexivity|]. split; [|assumption].
    intros p [<-|Hp]; auto.
  - exists [], a, l. split; [reflexivity|]. split; [intros p []|assumption].
Qed.

Lemma run_failure_live D (L : disp_laws D) (V : disp_live D) d0 defs rules sel outs reqs :
  d_cancelled D d0 = false ->
  (exists ss, In ss (enabled defs rules sel) /\ is_success (script_result outs ss) = false) ->
  (forall t env, ~ In (EvTestStarted t env) (snd (run D d0 defs rules sel outs reqs)))
  /\ d_exit D (fst (run D d0 defs rules sel outs reqs)) = 105%Z.
Proof.
  intros Hc Hex.
  destruct (first_failure (fun ss => is_success (script_result outs ss)) _ Hex)
    as [pre [ss [post [He [Hp Hf]]]]].
  assert (Hin : In (EvScriptFinished (ss_id ss) (script_result outs ss))
                   (snd (run D d0 defs rules sel outs reqs))).
  { rewrite run_eq. cbn [snd]. apply in_or_app. left. apply in_flat_map. exists ss.
    split; [|right; left; reflexivity].
    rewrite (run_executed D L V) by assumption. rewrite He.
    rewrite executed_first_failure by assumption. apply in_or_app. right. left; reflexivity. }
  destruct (run_failure D L d0 defs rules sel outs reqs _ _ Hin Hf) as [H1 [H2 _]]. tauto.
Qed.

(* everything succeeds: every enabled script runs, every requested test starts *)
Lemma run_all_succeed D (V : disp_live D) d0 defs rules sel outs reqs :
  d_cancelled D d0 = false ->
  (forall ss, In ss (enabled defs rules sel) -> is_success (script_result outs ss) = true) ->
  snd (run D d0 defs rules sel outs reqs) =
  flat_map (script_events outs) (enabled defs rules sel)
  ++ map (fun t => EvTestStarted t (apply_env (flat_map (env_entry outs) (enabled defs rules sel)) t []))
         reqs.
Proof.
  intros Hc Hall. rewrite run_eq. cbn [snd]. unfold run_data_of, run_scripts_ran.
  destruct (all_succeed_not_cancelled D V _ outs d0 Hc Hall) as [H1 H2].
  rewrite H1. rewrite (started_tests_live D V) by assumption. reflexivity.
Qed.

Definition rule_lists_and_matches (rules : list rule) (s : sid) (t : tquery) : Prop :=
  exists r, In r rules /\ In s (r_setup r) /\ rule_matches r t = true.

Lemma run_env_scope D d0 defs rules sel outs reqs t env :
  In (EvTestStarted t env) (snd (run D d0 defs rules sel outs reqs)) ->
  forall k v,
    env_lookup k env = Some v <->
    exists pre ss m post,
      run_data_of D d0 defs rules sel outs = pre ++ (ss, m) :: post
      /\ rule_lists_and_matches rules (ss_id ss) t
      /\ env_lookup k m = Some v
      /\ forall ss' m', In (ss', m') post -> rule_lists_and_matches rules (ss_id ss') t ->
                        env_lookup k m' = None.
Proof.
  intros Hin k v. destruct (run_test_env _ _ _ _ _ _ _ _ _ Hin) as [_ Hl]. rewrite Hl.
  assert (Hen : forall ss m, In (ss, m) (run_data_of D d0 defs rules sel outs) ->
                (ss_is_enabled ss t = true <-> rule_lists_and_matches rules (ss_id ss) t)).
  { intros ss m Hd. apply run_data_entries in Hd. destruct Hd as [Hr _].
    apply (ss_is_enabled_spec defs rules sel). eapply subseq_In; [apply ran_subseq|exact Hr]. }
  rewrite scripted_value_some. split.
  - intros [pre [[ss m] [post [Hd [H1 [H2 H3]]]]]]. exists pre, ss, m, post. cbn [fst snd] in *.
    split; [assumption|]. split.
    + apply (Hen ss m); [rewrite Hd; apply in_or_app; right; left; reflexivity|assumption].
    + split; [assumption|]. intros ss' m' Hp Hr. apply (H3 (ss', m')); [assumption|].
      cbn [fst]. apply (Hen ss' m'); [|assumption].
      rewrite Hd. apply in_or_app. right. right. assumption.
  - intros [pre [ss [m [post [Hd [H1 [H2 H3]]]]]]]. exists pre, (ss, m), post. cbn [fst snd].
    split; [assumption|]. split.
    + apply (Hen ss m); [rewrite Hd; apply in_or_app; right; left; reflexivity|assumption].
    + split; [assumption|]. intros [ss' m'] Hp He. cbn [fst snd] in *. apply (H3 ss' m'); [assumption|].
      apply (Hen ss' m'); [|assumption]. rewrite Hd. apply in_or_app. right. right. assumption.
Qed.

(* the mini dispatcher satisfies the laws *)
Lemma mini_laws : disp_laws mini_disp.
Proof.
  constructor; cbn.
  - intros d ->. reflexivity.
  - intros d H. exact H.
  - intros d. lia.
  - intros d r ->. reflexivity.
  - intros d r ->. cbn. lia.
  - intros d r H. destruct (is_success r); [exact H|reflexivity].
  - intros d r. destruct (is_success r); cbn; lia.
  - intros d H. apply N.ltb_lt in H. rewrite H. reflexivity.
Qed.

Lemma mini_live : disp_live mini_disp.
Proof.
  constructor; cbn.
  - intros d ->. split; reflexivity.
  - intros d r H ->. exact H.
Qed.

(* summarize_final on the script counters *)
Lemma summarize_scripts_failed initial finished failed exec_failed timed_out :
  0 < failed + exec_failed + timed_out ->
  summarize_scripts initial finished failed exec_failed timed_out = 1.
Proof. intros H. unfold summarize_scripts. apply N.ltb_lt in H. rewrite H. reflexivity. Qed.

(* ---- success = Pass or Leak: the variables are kept for exactly the successful results *)

Lemma is_success_iff r : is_success r = true <-> r = RPass \/ r = RLeak.
Proof. destruct r; cbn [is_success]; split; intros H; try discriminate; auto;
       destruct H as [H|H]; discriminate. Qed.

Lemma finish_script_env_iff_success o r em :
  finish_script o = (r, em) -> ((exists m, em = Some m) <-> is_success r = true).
Proof.
  unfold finish_script. destruct (is_success (o_result o)) eqn:Es.
  - destruct (read_env o) as [m|]; intros H; injection H as <- <-.
    + split; [intros _; assumption|eauto].
    + cbn [is_success]. split; [intros [m H]; discriminate|discriminate].
  - intros H. injection H as <- <-. rewrite Es. split; [intros [m H]; discriminate|discriminate].
Qed.

Lemma finish_script_env_iff_pass_or_leak o r em :
  finish_script o = (r, em) -> ((exists m, em = Some m) <-> (r = RPass \/ r = RLeak)).
Proof. intros H. rewrite <- is_success_iff. exact (finish_script_env_iff_success o r em H). Qed.

(* a script classified as leaky (exit 0, a descendant still holds a captured pipe) is a
   success: its variables are kept exactly like those of a plain pass *)
Lemma finish_script_leak o m :
  o_result o = RLeak -> read_env o = Some m -> finish_script o = (RLeak, Some m).
Proof. intros H1 H2. unfold finish_script. rewrite H1, H2. reflexivity. Qed.

(* in a run: the script's variables are handed to the tests iff it ran and its reported
   result is a success (Pass or Leak) *)
Lemma run_data_iff_success D d0 defs rules sel outs ss :
  In ss (run_scripts_ran D d0 defs rules sel outs) ->
  ((exists m, In (ss, m) (run_data_of D d0 defs rules sel outs)) <->
   (script_result outs ss = RPass \/ script_result outs ss = RLeak)).
Proof.
  intros Hran. rewrite <- is_success_iff. unfold script_result.
  destruct (finish_script (outs (ss_id ss))) as [r em] eqn:Ef. cbn [fst].
  rewrite <- (finish_script_env_iff_success _ _ _ Ef). split.
  - intros [m Hin]. apply run_data_entries in Hin. destruct Hin as [_ [Hs Hr]].
    unfold finish_script in Ef. rewrite Hs, Hr in Ef. injection Ef as _ <-. eauto.
  - intros [m ->]. exists m. apply run_data_entries. split; [assumption|].
    unfold finish_script in Ef. destruct (is_success (o_result (outs (ss_id ss)))); [|discriminate].
    destruct (read_env (outs (ss_id ss))); [|discriminate]. injection Ef as _ ->. tauto.
Qed.
