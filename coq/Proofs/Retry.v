(* The attempt loop (Model/Backoff.v) instantiated with attempt results (Model/Classify.v):
   what ExecutionStatuses::describe says about the list of attempts the loop produces. *)
From NextestModel Require Import Base.Tac Base.Str Model.Backoff Model.Classify
     Proofs.Backoff Proofs.Classify.
Open Scope N_scope.

Definition run_results force settings outcome accept js : list result * loop_end :=
  let '(l, e) := run_test_instance result is_success force settings outcome accept js in
  (map at_result l, e).

Lemma nth_map_nrange : forall (A : Type) (f : N -> A) a n i d, (i < n)%nat ->
  nth i (map f (nrange a n)) d = f (a + N.of_nat i).
Proof.
  intros A f a n i d Hi. unfold nrange. rewrite map_map.
  rewrite (nth_indep _ d (f (a + N.of_nat 0))) by (rewrite map_length, seq_length; exact Hi).
  rewrite (map_nth (fun x => f (a + N.of_nat x)) (seq 0 n) 0%nat i).
  rewrite seq_nth by exact Hi. reflexivity.
Qed.

(* the uncancelled loop: results are outcome 1 .. outcome n with n = first_pass; all but the
   last are failures; the last is a success or attempt count+1 *)
Lemma run_results_shape : forall force settings outcome js,
  let p := effective_policy force settings in
  let total := p_count p + 1 in
  let n := first_pass result is_success total outcome in
  let '(rs, e) := run_results force settings outcome (fun _ => true) js in
  e = Finished /\
  rs = map outcome (nrange 1 (N.to_nat n)) /\
  1 <= n /\ n <= total /\
  (forall i, (S i < N.to_nat n)%nat -> is_success (nth i rs Pass) = false) /\
  (is_success (nth (N.to_nat n - 1) rs Pass) = true \/ n = total).
Proof.
  intros force settings outcome js p total n. unfold run_results.
  pose proof (run_all_accepted result is_success force settings outcome (fun _ => true) js
                               (fun _ => eq_refl)) as H.
  cbv zeta in H. fold p in H. fold total in H. fold n in H.
  destruct (run_test_instance result is_success force settings outcome (fun _ => true) js)
    as [l e].
  destruct H as (He & Hlen & Hno & Hres & Hdel).
  destruct (first_pass_spec result is_success total outcome) as (F1 & F2 & F3 & F4);
    [unfold total; lia|]. fold n in F1, F2, F3, F4.
  split; [exact He|]. split; [exact Hres|]. split; [exact F1|]. split; [exact F2|].
  rewrite Hres. split.
  - intros i Hi. rewrite nth_map_nrange by lia. apply F3; lia.
  - rewrite nth_map_nrange by lia.
    replace (1 + N.of_nat (N.to_nat n - 1)) with n by lia. exact F4.
Qed.

Lemma map_nrange_length : forall (A : Type) (f : N -> A) a n, length (map f (nrange a n)) = n.
Proof. intros. unfold nrange. rewrite !map_length, seq_length. reflexivity. Qed.

(* what describe says about it *)
Lemma run_results_described : forall force settings outcome js,
  let '(rs, e) := run_results force settings outcome (fun _ => true) js in
  exists d r,
    describe rs = Some d /\ last_status rs = Some r /\
    r = nth (length rs - 1) rs Pass /\
    d_last d = (length rs - 1)%nat /\
    (* every attempt before the last one failed *)
    (forall i, (S i < length rs)%nat -> is_success (nth i rs Pass) = false) /\
    (* flaky iff the last attempt passed after at least one failed attempt *)
    (kind_of d = KFlaky <->
       is_success r = true /\
       exists i, (S i < length rs)%nat /\ is_success (nth i rs Pass) = false) /\
    (kind_of d = KSuccess <-> is_success r = true /\ length rs = 1%nat) /\
    (kind_of d = KFailure <-> is_success r = false).
Proof.
  intros force settings outcome js.
  pose proof (run_results_shape force settings outcome js) as H. cbv zeta in H.
  destruct (run_results force settings outcome (fun _ => true) js) as [rs e].
  destruct H as (He & Hrs & Hn1 & Hn2 & Hfail & Hlast).
  set (n := first_pass result is_success (p_count (effective_policy force settings) + 1) outcome)
    in *.
  assert (Hlen : length rs = N.to_nat n) by (rewrite Hrs; apply map_nrange_length).
  assert (Hne : rs <> []) by (intro E; rewrite E in Hlen; cbn in Hlen; lia).
  destruct (describe_total rs Hne) as [d Hd].
  destruct (last_status_some rs Hne) as [r Hr].
  exists d, r. split; [exact Hd|]. split; [exact Hr|].
  split; [symmetry; apply last_status_nth; exact Hr|].
  split; [apply describe_last_is_last; exact Hd|].
  assert (Hprior : forall i, (S i < length rs)%nat -> is_success (nth i rs Pass) = false).
  { intros i Hi. apply Hfail. lia. }
  split; [exact Hprior|].
  split; [|split].
  - rewrite (describe_flaky_iff rs d r Hd Hr). split.
    + intros [H1 H2]. split; [exact H1|]. exists 0%nat. split; [lia|]. apply Hprior. lia.
    + intros [H1 (i & Hi & _)]. split; [exact H1|lia].
  - apply (describe_success_iff rs d r Hd Hr).
  - apply (describe_failure_iff rs d r Hd Hr).
Qed.
