(* Lemmas about Model/DelayWait.v *)
From NextestModel Require Import Base.Tac Base.Str Model.DelayWait.
Open Scope N_scope.

Lemma fold_done : forall evs h, fold_left wstep evs (Done h) = Done h.
Proof. induction evs as [|e evs IH]; intro h; [reflexivity|]. cbn [fold_left wstep]. apply IH. Qed.

Lemma fold_panicked : forall evs, fold_left wstep evs WPanicked = WPanicked.
Proof. induction evs as [|e evs IH]; [reflexivity|]. cbn [fold_left wstep]. apply IH. Qed.

(* the wait expires only after [remaining] of unpaused time has passed *)
Lemma not_sooner_gen : forall evs rem paused,
  fold_left wstep evs (Waiting rem paused) = Done Expired -> rem <= active_time paused evs.
Proof.
  induction evs as [|e evs IH]; intros rem paused H; [discriminate|].
  cbn [fold_left] in H. destruct e; cbn [wstep active_time] in *.
  - destruct paused.
    + specialize (IH _ _ H). lia.
    + destruct (rem <=? dt) eqn:E.
      * apply N.leb_le in E. lia.
      * apply N.leb_gt in E. specialize (IH _ _ H). lia.
  - destruct paused; [rewrite fold_panicked in H; discriminate|]. apply (IH _ _ H).
  - apply (IH _ _ H).
  - rewrite fold_done in H. discriminate.
  - rewrite fold_done in H. discriminate.
  - apply (IH _ _ H).
Qed.

Lemma not_sooner : forall delay evs,
  wrun delay evs = Done Expired -> delay <= active_time false evs.
Proof. intros delay evs H. apply (not_sooner_gen evs delay false H). Qed.

(* it is cut short only by a cancellation (shutdown signal or other cancel) *)
Lemma cut_short_gen : forall evs rem paused,
  fold_left wstep evs (Waiting rem paused) = Done CutShort -> existsb is_cancel evs = true.
Proof.
  induction evs as [|e evs IH]; intros rem paused H; [discriminate|].
  cbn [fold_left] in H. destruct e; cbn [wstep existsb is_cancel orb] in *; try reflexivity.
  - destruct paused; [apply (IH _ _ H)|].
    destruct (rem <=? dt); [rewrite fold_done in H; discriminate|apply (IH _ _ H)].
  - destruct paused; [rewrite fold_panicked in H; discriminate|apply (IH _ _ H)].
  - apply (IH _ _ H).
  - apply (IH _ _ H).
Qed.

Lemma cut_short_only_by_cancel : forall delay evs,
  wrun delay evs = Done CutShort -> existsb is_cancel evs = true.
Proof. intros delay evs H. apply (cut_short_gen evs delay false H). Qed.

(* without a cancellation, with debounced stops, enough unpaused time makes it expire *)
Lemma expires_gen : forall evs rem paused,
  0 < rem -> stops_debounced paused evs = true -> existsb is_cancel evs = false ->
  rem <= active_time paused evs ->
  fold_left wstep evs (Waiting rem paused) = Done Expired.
Proof.
  induction evs as [|e evs IH]; intros rem paused Hr Hs Hc Ha; [cbn in Ha; lia|].
  cbn [fold_left]. destruct e; cbn [wstep active_time stops_debounced existsb is_cancel orb] in *;
    try discriminate.
  - destruct paused.
    + apply IH; auto; lia.
    + destruct (rem <=? dt) eqn:E; [apply fold_done|].
      apply N.leb_gt in E. apply IH; auto; lia.
  - destruct paused; [discriminate|]. apply IH; auto.
  - apply IH; auto.
  - apply IH; auto.
Qed.

Lemma expires : forall delay evs,
  0 < delay -> stops_debounced false evs = true -> existsb is_cancel evs = false ->
  delay <= active_time false evs -> wrun delay evs = Done Expired.
Proof. intros. apply expires_gen; assumption. Qed.

(* with debounced stops the PausableSleep never panics *)
Lemma no_panic_gen : forall evs rem paused,
  stops_debounced paused evs = true -> fold_left wstep evs (Waiting rem paused) <> WPanicked.
Proof.
  induction evs as [|e evs IH]; intros rem paused Hs; [discriminate|].
  cbn [fold_left]. destruct e; cbn [wstep stops_debounced] in *.
  - destruct paused; [apply IH; auto|].
    destruct (rem <=? dt); [rewrite fold_done; discriminate|apply IH; auto].
  - destruct paused; [discriminate|]. apply IH; auto.
  - apply IH; auto.
  - rewrite fold_done; discriminate.
  - rewrite fold_done; discriminate.
  - apply IH; auto.
Qed.

Lemma no_panic : forall delay evs,
  stops_debounced false evs = true -> wrun delay evs <> WPanicked.
Proof. intros. apply no_panic_gen. assumption. Qed.
