(* Lemmas about Model/DelayWait.v *)
From NextestModel Require Import Base.Tac Base.Str Model.DelayWait.
Open Scope N_scope.

Lemma fold_done : forall evs h, fold_left wstep evs (Done h) = Done h.
Proof. induction evs as [|e evs IH]; intro h; [reflexivity|]. cbn [fold_left wstep]. apply IH. Qed.

Lemma fold_panicked : forall evs, fold_left wstep evs WPanicked = WPanicked.
Proof. induction evs as [|e evs IH]; [reflexivity|]. cbn [fold_left wstep]. apply IH. Qed.

(* the wait expires only after [remaining] of unpaused time has passed *)
Lemma not_sooner_gen : forall evs rem paused,
  fold_left wstep evs (Waiting rem paused) = Done Expired -> rem <= active_time paused evs.
Proof.
  induction evs as [|e evs IH]; intros rem paused H; [discriminate|].
  cbn [fold_left] in H. destruct e; cbn [wstep active_time] in *.
  - destruct paused.
    + specialize (IH _ _ H). lia.
    + specialize (IH _ _ H). lia.
  - destruct paused; cbn [negb andb] in H; [apply (IH _ _ H)|].
    destruct (rem =? 0) eqn:E; [apply N.eqb_eq in E; lia|apply (IH _ _ H)].
  - destruct paused; [rewrite fold_panicked in H; discriminate|]. apply (IH _ _ H).
  - apply (IH _ _ H).
  - rewrite fold_done in H. discriminate.
  - rewrite fold_done in H. discriminate.
  - apply (IH _ _ H).
Qed.

Lemma not_sooner : forall delay evs,
  wrun delay evs = Done Expired -> delay <= active_time false evs.
Proof. intros delay evs H. apply (not_sooner_gen evs delay false H). Qed.

(* it is cut short only by a cancellation (shutdown signal or other cancel) *)
Lemma cut_short_gen : forall evs rem paused,
  fold_left wstep evs (Waiting rem paused) = Done CutShort -> existsb is_cancel evs = true.
Proof.
  induction evs as [|e evs IH]; intros rem paused H; [discriminate|].
  cbn [fold_left] in H. destruct e; cbn [wstep existsb is_cancel orb] in *; try reflexivity.
  - destruct paused; apply (IH _ _ H).
  - destruct (negb paused && (rem =? 0)); [rewrite fold_done in H; discriminate|apply (IH _ _ H)].
  - destruct paused; [rewrite fold_panicked in H; discriminate|apply (IH _ _ H)].
  - apply (IH _ _ H).
  - apply (IH _ _ H).
Qed.

Lemma cut_short_only_by_cancel : forall delay evs,
  wrun delay evs = Done CutShort -> existsb is_cancel evs = true.
Proof. intros delay evs H. apply (cut_short_gen evs delay false H). Qed.

(* the remaining time after a history without expiry: what is left of [rem] once the unpaused
   time is subtracted (truncated) *)
Lemma waiting_remaining_gen : forall evs rem paused rem' paused',
  fold_left wstep evs (Waiting rem paused) = Waiting rem' paused' ->
  rem' = rem - active_time paused evs.
Proof.
  induction evs as [|e evs IH]; intros rem paused rem' paused' H.
  - cbn in H. injection H as H1 H2. cbn [active_time]. lia.
  - cbn [fold_left] in H. destruct e; cbn [wstep active_time] in *.
    + destruct paused; specialize (IH _ _ _ _ H); lia.
    + destruct (negb paused && (rem =? 0)); [rewrite fold_done in H; discriminate|apply (IH _ _ _ _ H)].
    + destruct paused; [rewrite fold_panicked in H; discriminate|apply (IH _ _ _ _ H)].
    + apply (IH _ _ _ _ H).
    + rewrite fold_done in H. discriminate.
    + rewrite fold_done in H. discriminate.
    + apply (IH _ _ _ _ H).
Qed.

(* without a cancellation, with debounced stops, the wait is over or still pending with exactly
   the unpaused time subtracted; so once the whole delay has elapsed in unpaused time and the
   run is not stopped, the sleep branch is enabled and taking it ends the wait *)
Lemma pending_gen : forall evs rem paused,
  stops_debounced paused evs = true -> existsb is_cancel evs = false ->
  fold_left wstep evs (Waiting rem paused) = Done Expired \/
  fold_left wstep evs (Waiting rem paused) =
    Waiting (rem - active_time paused evs) (paused_after paused evs).
Proof.
  induction evs as [|e evs IH]; intros rem paused Hs Hc.
  - right. cbn. f_equal. lia.
  - cbn [fold_left]. destruct e; cbn [wstep active_time stops_debounced existsb is_cancel orb paused_after] in *;
      try discriminate.
    + destruct paused.
      * destruct (IH rem true Hs Hc) as [H|H]; [left; exact H|right; rewrite H; f_equal; lia].
      * destruct (IH (rem - dt) false Hs Hc) as [H|H]; [left; exact H|right; rewrite H; f_equal; lia].
    + destruct (negb paused && (rem =? 0)); [left; apply fold_done|apply IH; auto].
    + destruct paused; [discriminate|]. apply IH; auto.
    + apply IH; auto.
    + apply IH; auto.
Qed.

Lemma expires : forall delay evs,
  stops_debounced false evs = true -> existsb is_cancel evs = false ->
  delay <= active_time false evs -> paused_after false evs = false ->
  wrun delay (evs ++ [WFire]) = Done Expired.
Proof.
  intros delay evs Hs Hc Ha Hp. unfold wrun. rewrite fold_left_app.
  destruct (pending_gen evs delay false Hs Hc) as [H|H]; rewrite H; [reflexivity|].
  cbn [fold_left wstep]. rewrite Hp. replace (delay - active_time false evs) with 0 by lia.
  reflexivity.
Qed.

(* with debounced stops the PausableSleep never panics *)
Lemma no_panic_gen : forall evs rem paused,
  stops_debounced paused evs = true -> fold_left wstep evs (Waiting rem paused) <> WPanicked.
Proof.
  induction evs as [|e evs IH]; intros rem paused Hs; [discriminate|].
  cbn [fold_left]. destruct e; cbn [wstep stops_debounced] in *.
  - destruct paused; apply IH; auto.
  - destruct (negb paused && (rem =? 0)); [rewrite fold_done; discriminate|apply IH; auto].
  - destruct paused; [discriminate|]. apply IH; auto.
  - apply IH; auto.
  - rewrite fold_done; discriminate.
  - rewrite fold_done; discriminate.
  - apply IH; auto.
Qed.

Lemma no_panic : forall delay evs,
  stops_debounced false evs = true -> wrun delay evs <> WPanicked.
Proof. intros. apply no_panic_gen. assumption. Qed.
