(* Invariants of the future-queue model (C08, C14): weights, slots, limits, for every sequence
   of operations. *)
From NextestModel Require Import Base.Str Model.FutureQueue.
From NextestModel Require Import Base.Tac.
From Coq Require Import Permutation.
Open Scope N_scope.

(* ------------------------------------------------------------------ small list facts *)

Lemma sumN_app l1 l2 : sumN (l1 ++ l2) = sumN l1 + sumN l2.
Proof. induction l1 as [|x l1 IH]; cbn [sumN app]; [reflexivity | rewrite IH; lia]. Qed.

Lemma list_min_le x l : list_min x l <= x /\ forall y, In y l -> list_min x l <= y.
Proof.
  revert x; induction l as [|a l IH]; intros x; cbn [list_min In].
  - split; [lia | intros y []].
  - destruct (IH (N.min x a)) as [H1 H2]. split; [lia|].
    intros y [<-|Hy]; [lia | apply H2; exact Hy].
Qed.

Lemma list_min_in x l : list_min x l = x \/ In (list_min x l) l.
Proof.
  revert x; induction l as [|a l IH]; intros x; cbn [list_min In]; [left; reflexivity|].
  destruct (IH (N.min x a)) as [H|H].
  - destruct (N.min_spec x a) as [[_ E]|[_ E]]; rewrite E in H; [left|right; left]; congruence.
  - right; right; exact H.
Qed.

Lemma remove_one_in x y l : In y (remove_one x l) -> In y l.
Proof.
  induction l as [|a l IH]; cbn [remove_one In]; [tauto|].
  destruct (N.eqb_spec x a); cbn [In]; tauto.
Qed.

Lemma remove_one_other x y l : y <> x -> In y l -> In y (remove_one x l).
Proof.
  intros Hne; induction l as [|a l IH]; cbn [remove_one In]; [tauto|].
  destruct (N.eqb_spec x a) as [->|]; cbn [In]; intuition congruence.
Qed.

Lemma remove_one_nodup x l : NoDup l -> NoDup (remove_one x l) /\ ~ In x (remove_one x l).
Proof.
  induction 1 as [|a l Ha Hl IH]; cbn [remove_one]; [split; [constructor | intros []]|].
  destruct (N.eqb_spec x a) as [->|Hne]; [split; assumption|].
  destruct IH as [IH1 IH2]. split.
  - constructor; [intros Hin; apply Ha; eapply remove_one_in; exact Hin | exact IH1].
  - cbn [In]; intros [E|Hin]; [congruence | tauto].
Qed.

Lemma NoDup_app_intro_single (l : list N) x : NoDup l -> ~ In x l -> NoDup (l ++ [x]).
Proof.
  induction 1 as [|a l Ha Hl IH]; cbn [app]; intros Hx; [constructor; [intros []|constructor]|].
  constructor.
  - intros Hin. apply in_app_or in Hin. destruct Hin as [Hin|[<-|[]]]; [tauto|].
    apply Hx; left; reflexivity.
  - apply IH. intros Hin; apply Hx; right; exact Hin.
Qed.

(* pigeonhole: if every number below x occurs in a duplicate-free list, x <= its length *)
Lemma below_all_in_length x (l : list N) :
  NoDup l -> (forall y, y < x -> In y l) -> x <= N.of_nat (length l).
Proof.
  intros Hnd Hall.
  assert (Hincl : incl (map N.of_nat (seq 0 (N.to_nat x))) l).
  { intros y Hy. apply in_map_iff in Hy. destruct Hy as [n [<- Hn]]. apply in_seq in Hn.
    apply Hall. lia. }
  assert (Hnd2 : NoDup (map N.of_nat (seq 0 (N.to_nat x)))).
  { apply FinFun.Injective_map_NoDup; [intros a b; lia | apply seq_NoDup]. }
  pose proof (NoDup_incl_length Hnd2 Hincl) as Hlen.
  rewrite map_length, seq_length in Hlen. lia.
Qed.

(* ------------------------------------------------------------------ slots *)

(* free and held partition [0, next) *)
Definition slots_ok (s : slotset) (held : list N) : Prop :=
  NoDup held /\ NoDup (ss_free s) /\ (forall x, In x (ss_free s) -> ~ In x held) /\
  (forall x, x < ss_next s <-> In x (ss_free s) \/ In x held).

(* x is the least natural number not in l *)
Definition least_not_in (x : N) (l : list N) : Prop := ~ In x l /\ forall y, y < x -> In y l.

Lemma slots_ok_empty : slots_ok slots_empty [].
Proof.
  unfold slots_ok, slots_empty; cbn [ss_free ss_next].
  split; [constructor|split; [constructor|split; [intros x []|intros x; split]]].
  - lia.
  - intros [[]|[]].
Qed.

Lemma slot_reserve_spec s held :
  slots_ok s held ->
  least_not_in (fst (slot_reserve s)) held /\
  slots_ok (snd (slot_reserve s)) (held ++ [fst (slot_reserve s)]).
Proof.
  intros (Hh & Hf & Hd & Hr). unfold slot_reserve.
  destruct (ss_free s) as [|a fr] eqn:Efree; cbn [fst snd].
  - (* nothing free: hand out next *)
    assert (Hnot : ~ In (ss_next s) held).
    { intros Hin. assert (ss_next s < ss_next s) by (apply Hr; right; exact Hin). lia. }
    split; [split; [exact Hnot|]|].
    + intros y Hy. apply Hr in Hy. destruct Hy as [[]|Hy]; exact Hy.
    + unfold slots_ok; cbn [ss_free ss_next].
      split; [|split; [|split; [|intros x; split]]].
      * apply NoDup_app_intro_single; assumption.
      * constructor.
      * intros x [].
      * intros Hx. right. apply in_or_app.
        destruct (N.eq_dec x (ss_next s)) as [->|Hne]; [right; left; reflexivity|].
        left. assert (Hlt : x < ss_next s) by lia. apply Hr in Hlt. destruct Hlt as [[]|H]; exact H.
      * intros [[]|Hin]. apply in_app_or in Hin. destruct Hin as [Hin|[<-|[]]]; [|lia].
        assert (x < ss_next s) by (apply Hr; right; exact Hin). lia.
  - set (m := list_min a fr).
    assert (Hm_in : In m (a :: fr)).
    { destruct (list_min_in a fr) as [E|Hin]; [left; symmetry; exact E | right; exact Hin]. }
    assert (Hm_le : forall y, In y (a :: fr) -> m <= y).
    { intros y [<-|Hy]; [exact (proj1 (list_min_le a fr)) | exact (proj2 (list_min_le a fr) y Hy)]. }
    assert (Hm_nh : ~ In m held) by (apply Hd; exact Hm_in).
    assert (Hm_lt : m < ss_next s) by (apply Hr; left; exact Hm_in).
    split; [split; [exact Hm_nh|]|].
    + intros y Hy. assert (Hlt : y < ss_next s) by lia. apply Hr in Hlt.
      destruct Hlt as [Hin|Hin]; [|exact Hin]. apply Hm_le in Hin. lia.
    + destruct (remove_one_nodup m (a :: fr) Hf) as [Hnd Hnot].
      unfold slots_ok; cbn [ss_free ss_next].
      split; [|split; [|split; [|intros x; split]]].
      * apply NoDup_app_intro_single; assumption.
      * exact Hnd.
      * intros x Hx Hin. apply in_app_or in Hin. destruct Hin as [Hin|[<-|[]]].
        -- apply (Hd x); [eapply remove_one_in; exact Hx | exact Hin].
        -- exact (Hnot Hx).
      * intros Hx. apply Hr in Hx. destruct Hx as [Hx|Hx].
        -- destruct (N.eq_dec x m) as [->|Hne].
           ++ right; apply in_or_app; right; left; reflexivity.
           ++ left; apply remove_one_other; assumption.
        -- right; apply in_or_app; left; exact Hx.
      * intros [Hx|Hx].
        -- apply Hr; left; eapply remove_one_in; exact Hx.
        -- apply in_app_or in Hx. destruct Hx as [Hx|[<-|[]]]; [apply Hr; right; exact Hx | exact Hm_lt].
Qed.

Lemma in_middle (x y : N) l1 l2 : In y (l1 ++ x :: l2) <-> y = x \/ In y (l1 ++ l2).
Proof.
  rewrite !in_app_iff; cbn [In]. intuition congruence.
Qed.

Lemma slot_release_spec s l1 x l2 :
  slots_ok s (l1 ++ x :: l2) -> slots_ok (slot_release s x) (l1 ++ l2).
Proof.
  intros (Hh & Hf & Hd & Hr).
  pose proof (NoDup_remove_1 _ _ _ Hh) as Hh1. pose proof (NoDup_remove_2 _ _ _ Hh) as Hh2.
  assert (Hxf : ~ In x (ss_free s)).
  { intros Hin. apply (Hd x Hin). apply in_middle. left; reflexivity. }
  unfold slots_ok, slot_release; cbn [ss_free ss_next].
  split; [exact Hh1|split; [constructor; assumption|split; [|intros y; split]]].
  - intros y [<-|Hy] Hin; [exact (Hh2 Hin)|]. apply (Hd y Hy). apply in_middle. right; exact Hin.
  - intros Hy. apply Hr in Hy. destruct Hy as [Hy|Hy]; [left; right; exact Hy|].
    apply in_middle in Hy. destruct Hy as [->|Hy]; [left; left; reflexivity | right; exact Hy].
  - intros [[<-|Hy]|Hy]; apply Hr.
    + right. apply in_middle. left; reflexivity.
    + left; exact Hy.
    + right. apply in_middle. right; exact Hy.
Qed.

(* ------------------------------------------------------------------ group store *)

Lemma glookup_gupdate_same k g g0 gs :
  glookup k gs = Some g0 -> glookup k (gupdate k g gs) = Some g.
Proof.
  induction gs as [|[k1 g1] gs IH]; cbn [glookup gupdate]; [discriminate|].
  destruct (N.eqb_spec k k1) as [->|Hne]; cbn [glookup].
  - rewrite N.eqb_refl. reflexivity.
  - intros H. destruct (N.eqb_spec k k1); [contradiction | apply IH; exact H].
Qed.

Lemma glookup_gupdate_other k k' g gs :
  k' <> k -> glookup k' (gupdate k g gs) = glookup k' gs.
Proof.
  intros Hne. induction gs as [|[k1 g1] gs IH]; cbn [glookup gupdate]; [reflexivity|].
  destruct (N.eqb_spec k k1) as [->|Hne1]; cbn [glookup].
  - destruct (N.eqb_spec k' k1); [contradiction | reflexivity].
  - destruct (N.eqb_spec k' k1); [reflexivity | exact IH].
Qed.

Lemma glookup_gupdate_none k k' g gs :
  glookup k gs = None -> glookup k' (gupdate k g gs) = glookup k' gs.
Proof.
  intros Hn. induction gs as [|[k1 g1] gs IH]; cbn [glookup gupdate] in *; [reflexivity|].
  destruct (N.eqb_spec k k1) as [->|Hne1]; [discriminate|]. cbn [glookup].
  destruct (N.eqb_spec k' k1); [reflexivity | apply IH; exact Hn].
Qed.

(* ------------------------------------------------------------------ loads *)

Definition gload (gm : N) (rs : list rinfo) : N :=
  sumN (map (fun r => capw (it_w (r_item r)) gm) rs).

Definition held1 (k : N) (r : rinfo) : list N :=
  match r_grp r with Some (k', t) => if k =? k' then [t] else [] | None => [] end.

Lemma gload_app gm l1 l2 : gload gm (l1 ++ l2) = gload gm l1 + gload gm l2.
Proof. unfold gload. rewrite map_app, sumN_app. reflexivity. Qed.

Lemma group_load_app k gm l1 l2 :
  group_load k gm (l1 ++ l2) = group_load k gm l1 + group_load k gm l2.
Proof. unfold group_load. rewrite filter_app, map_app, sumN_app. reflexivity. Qed.

Lemma group_load_one k gm r :
  group_load k gm [r] = if in_group k r then capw (it_w (r_item r)) gm else 0.
Proof. unfold group_load; cbn [filter]. destruct (in_group k r); cbn [map sumN]; lia. Qed.

Lemma group_load_cons k gm r l :
  group_load k gm (r :: l) = group_load k gm [r] + group_load k gm l.
Proof. change (r :: l) with ([r] ++ l). apply group_load_app. Qed.

Lemma held_app k l1 l2 :
  group_slots_held k (l1 ++ l2) = group_slots_held k l1 ++ group_slots_held k l2.
Proof. unfold group_slots_held. apply flat_map_app. Qed.

Lemma held_one k r : group_slots_held k [r] = held1 k r.
Proof. unfold group_slots_held, held1; cbn [flat_map]. rewrite app_nil_r. reflexivity. Qed.

Lemma held_cons k r l : group_slots_held k (r :: l) = held1 k r ++ group_slots_held k l.
Proof. change (r :: l) with ([r] ++ l). rewrite held_app, held_one. reflexivity. Qed.

Lemma held1_other k r : in_group k r = false -> held1 k r = [].
Proof.
  unfold in_group, held1. destruct (r_grp r) as [[k' t]|]; [|reflexivity].
  intros ->. reflexivity.
Qed.

Lemma has_space_true cur max w : has_space cur max w = true -> cur + capw w max <= max.
Proof. unfold has_space, capw. intros H. apply N.leb_le in H. lia. Qed.

(* ------------------------------------------------------------------ the invariant *)

Definition grp_ok (rs : list rinfo) (k : N) (g : grp) : Prop :=
  g_cur g = group_load k (g_max g) rs /\ g_cur g <= g_max g /\
  slots_ok (g_slots g) (group_slots_held k rs).

Definition fq_inv (q : fq) : Prop :=
  gcur q = gload (gmax q) (running q) /\ gcur q <= gmax q /\
  slots_ok (gslots q) (map r_gslot (running q)) /\
  (forall k g, glookup k (groups q) = Some g -> grp_ok (running q) k g).

Lemma grp_ok_app_other rs r k g :
  in_group k r = false -> grp_ok rs k g -> grp_ok (rs ++ [r]) k g.
Proof.
  intros Hr (H1 & H2 & H3). unfold grp_ok.
  rewrite group_load_app, group_load_one, Hr, held_app, held_one, held1_other, app_nil_r by exact Hr.
  rewrite N.add_0_r. auto.
Qed.

Lemma grp_ok_remove_other l1 r l2 k g :
  in_group k r = false -> grp_ok (l1 ++ r :: l2) k g -> grp_ok (l1 ++ l2) k g.
Proof.
  intros Hr (H1 & H2 & H3). unfold grp_ok.
  rewrite group_load_app, group_load_cons, group_load_one, Hr in H1.
  rewrite held_app, held_cons, held1_other in H3 by exact Hr. cbn [app] in H3.
  rewrite group_load_app, held_app. split; [lia | auto].
Qed.

(* groups that differ only in their queue *)
Definition geqv (g g' : grp) : Prop :=
  g_max g = g_max g' /\ g_cur g = g_cur g' /\ g_slots g = g_slots g'.

Lemma grp_ok_eqv rs k g g' : geqv g g' -> grp_ok rs k g -> grp_ok rs k g'.
Proof. intros (E1 & E2 & E3). unfold grp_ok. rewrite E1, E2, E3. auto. Qed.

Lemma groups_queue_only q k g l k' g' :
  glookup k (groups q) = Some g ->
  glookup k' (gupdate k (mkgrp (g_max g) (g_cur g) (g_slots g) l) (groups q)) = Some g' ->
  exists g0, glookup k' (groups q) = Some g0 /\ geqv g0 g'.
Proof.
  intros Hk Hk'. destruct (N.eq_dec k' k) as [->|Hne].
  - rewrite (glookup_gupdate_same _ _ _ _ Hk) in Hk'. injection Hk' as <-.
    exists g. split; [exact Hk | unfold geqv; cbn; auto].
  - rewrite glookup_gupdate_other in Hk' by exact Hne. exists g'. split; [exact Hk' | unfold geqv; auto].
Qed.

Lemma set_pending_inv q l : fq_inv q -> fq_inv (set_pending q l).
Proof. exact (fun H => H). Qed.

Lemma set_panicked_inv q : fq_inv q -> fq_inv (set_panicked q).
Proof. exact (fun H => H). Qed.

Lemma queue_update_inv q k g l :
  fq_inv q -> glookup k (groups q) = Some g ->
  fq_inv (set_groups q (gupdate k (mkgrp (g_max g) (g_cur g) (g_slots g) l) (groups q))).
Proof.
  intros (H1 & H2 & H3 & H4) Hk. unfold fq_inv, set_groups; cbn [gcur gmax running gslots groups].
  split; [exact H1|split; [exact H2|split; [exact H3|]]].
  intros k' g' Hk'. destruct (groups_queue_only q k g l k' g' Hk Hk') as (g0 & Hg0 & Heq).
  eapply grp_ok_eqv; [exact Heq | apply H4; exact Hg0].
Qed.

Lemma enqueue_inv q k g it :
  fq_inv q -> glookup k (groups q) = Some g -> fq_inv (enqueue q k g it).
Proof. intros; unfold enqueue; apply queue_update_inv; assumption. Qed.

Lemma set_queue_inv q k l : fq_inv q -> fq_inv (set_queue q k l).
Proof.
  intros H. unfold set_queue. destruct (glookup k (groups q)) as [g|] eqn:E; [|exact H].
  apply queue_update_inv; assumption.
Qed.

Lemma start_global_inv q it :
  fq_inv q -> has_space (gcur q) (gmax q) (it_w it) = true -> fq_inv (fst (start_global q it)).
Proof.
  intros (H1 & H2 & H3 & H4) Hs. apply has_space_true in Hs.
  destruct (slot_reserve_spec _ _ H3) as [_ Hres].
  unfold fq_inv, start_global; cbn [fst gcur gmax running gslots groups].
  split; [|split; [lia|split]].
  - rewrite gload_app. unfold gload at 2; cbn [map sumN r_item]. lia.
  - rewrite map_app; cbn [map r_gslot]. exact Hres.
  - intros k g Hk. apply grp_ok_app_other; [reflexivity | apply H4; exact Hk].
Qed.

Lemma start_in_group_inv q k g it :
  fq_inv q -> glookup k (groups q) = Some g ->
  has_space (gcur q) (gmax q) (it_w it) = true ->
  has_space (g_cur g) (g_max g) (it_w it) = true ->
  fq_inv (fst (start_in_group q k g it)).
Proof.
  intros (H1 & H2 & H3 & H4) Hk Hs Hsg. apply has_space_true in Hs. apply has_space_true in Hsg.
  destruct (slot_reserve_spec _ _ H3) as [_ Hres].
  destruct (H4 k g Hk) as (G1 & G2 & G3).
  destruct (slot_reserve_spec _ _ G3) as [_ Hgres].
  unfold fq_inv, start_in_group; cbn [fst gcur gmax running gslots groups].
  split; [|split; [lia|split]].
  - rewrite gload_app. unfold gload at 2; cbn [map sumN r_item]. lia.
  - rewrite map_app; cbn [map r_gslot]. exact Hres.
  - intros k' g' Hk'. destruct (N.eq_dec k' k) as [->|Hne].
    + rewrite (glookup_gupdate_same _ _ _ _ Hk) in Hk'. injection Hk' as <-.
      unfold grp_ok; cbn [g_cur g_max g_slots].
      rewrite group_load_app, group_load_one, held_app, held_one.
      unfold in_group, held1; cbn [r_grp r_item]. rewrite N.eqb_refl.
      split; [lia | split; [lia | exact Hgres]].
    + rewrite glookup_gupdate_other in Hk' by exact Hne.
      apply grp_ok_app_other; [|apply H4; exact Hk'].
      unfold in_group; cbn [r_grp]. apply N.eqb_neq; exact Hne.
Qed.

Lemma take_running_spec id rs r rest :
  take_running id rs = Some (r, rest) ->
  exists l1 l2, rs = l1 ++ r :: l2 /\ rest = l1 ++ l2 /\ it_id (r_item r) = id.
Proof.
  revert r rest; induction rs as [|a rs IH]; intros r rest; cbn [take_running]; [discriminate|].
  destruct (N.eqb_spec (it_id (r_item a)) id) as [E|E].
  - intros H; injection H as <- <-. exists [], rs. auto.
  - destruct (take_running id rs) as [[x rest']|]; [|discriminate].
    intros H; injection H as <- <-. destruct (IH x rest' eq_refl) as (l1 & l2 & -> & -> & Hid).
    exists (a :: l1), l2. auto.
Qed.

Lemma release_inv q r l1 l2 :
  fq_inv q -> running q = l1 ++ r :: l2 -> fq_inv (release q r (l1 ++ l2)).
Proof.
  intros (H1 & H2 & H3 & H4) Hrun. rewrite Hrun in *.
  rewrite gload_app in H1. change (r :: l2) with ([r] ++ l2) in H1. rewrite gload_app in H1.
  unfold gload at 2 in H1; cbn [map sumN] in H1.
  rewrite map_app in H3; cbn [map] in H3. apply slot_release_spec in H3. rewrite <- map_app in H3.
  unfold fq_inv, release; cbn [gcur gmax running gslots groups].
  split; [rewrite gload_app; lia|split; [lia|split; [exact H3|]]].
  intros k g Hk.
  destruct (r_grp r) as [[kr t]|] eqn:Er.
  - destruct (glookup kr (groups q)) as [gr|] eqn:Ekr.
    + destruct (N.eq_dec k kr) as [->|Hne].
      * rewrite (glookup_gupdate_same _ _ _ _ Ekr) in Hk. injection Hk as <-.
        destruct (H4 kr gr Ekr) as (G1 & G2 & G3).
        rewrite group_load_app, group_load_cons, group_load_one in G1.
        rewrite held_app, held_cons in G3.
        unfold in_group in G1. unfold held1 in G3. rewrite Er, N.eqb_refl in *.
        cbn [app] in G3. apply slot_release_spec in G3.
        unfold grp_ok; cbn [g_cur g_max g_slots]. rewrite group_load_app, held_app.
        split; [lia|split; [lia|exact G3]].
      * rewrite glookup_gupdate_other in Hk by exact Hne.
        eapply grp_ok_remove_other; [|apply H4; exact Hk].
        unfold in_group; rewrite Er. apply N.eqb_neq; exact Hne.
    + eapply grp_ok_remove_other; [|apply H4; exact Hk].
      unfold in_group; rewrite Er. apply N.eqb_neq. intros ->. congruence.
  - eapply grp_ok_remove_other; [|apply H4; exact Hk]. unfold in_group; rewrite Er; reflexivity.
Qed.

(* ---- a predicate preserved by the primitive updates is preserved by every operation.
   [Pw] is a predicate on items carried along (every item still held by the queue satisfies it). *)
Section Preservation.
  Variable Pw : item -> Prop.
  Variable P : fq -> Prop.
  Hypothesis H_pend : forall q, P q -> Forall Pw (pending q).
  Hypothesis H_queue : forall q k g, P q -> glookup k (groups q) = Some g -> Forall Pw (g_queue g).
  Hypothesis H_sg : forall q it, P q -> Pw it ->
    has_space (gcur q) (gmax q) (it_w it) = true -> P (fst (start_global q it)).
  Hypothesis H_si : forall q k g it, P q -> Pw it -> glookup k (groups q) = Some g ->
    has_space (gcur q) (gmax q) (it_w it) = true ->
    has_space (g_cur g) (g_max g) (it_w it) = true -> P (fst (start_in_group q k g it)).
  Hypothesis H_enq : forall q k g it, P q -> Pw it -> glookup k (groups q) = Some g ->
    has_space (gcur q) (gmax q) (it_w it) = true ->
    has_space (g_cur g) (g_max g) (it_w it) = false ->
    P (enqueue q k g it).
  Hypothesis H_sq : forall q k l, P q -> Forall Pw l -> P (set_queue q k l).
  Hypothesis H_sp : forall q l, P q -> Forall Pw l -> P (set_pending q l).
  Hypothesis H_pan : forall q, P q -> P (set_panicked q).
  Hypothesis H_rel : forall q r l1 l2, P q -> running q = l1 ++ r :: l2 ->
    P (release q r (l1 ++ l2)).

  Lemma fill_loop_pres l : forall q, Forall Pw l -> P q -> P (fst (fill_loop l q)).
  Proof.
    induction l as [|it rest IH]; intros q Hl Hq; cbn [fill_loop].
    - apply H_sp; [exact Hq | constructor].
    - pose proof (Forall_inv Hl) as Hit. pose proof (Forall_inv_tail Hl) as Hrest.
      destruct (has_space (gcur q) (gmax q) (it_w it)) eqn:Hs; [|apply H_sp; assumption].
      destruct (it_grp it) as [k|].
      + destruct (glookup k (groups q)) as [g|] eqn:Ek; [|apply H_pan, H_sp; assumption].
        destruct (has_space (g_cur g) (g_max g) (it_w it)) eqn:Hsg; cbn [fst].
        * apply IH; [exact Hrest | apply H_si; assumption].
        * apply IH; [exact Hrest | apply H_enq; assumption].
      + cbn [fst]. apply IH; [exact Hrest | apply H_sg; assumption].
  Qed.

  Lemma fq_fill_pres q : P q -> P (fst (fq_fill q)).
  Proof.
    intros H. unfold fq_fill. destruct (panicked q); [exact H|].
    apply fill_loop_pres; [apply H_pend; exact H | exact H].
  Qed.

  Lemma drain_loop_pres k queue : forall q, Forall Pw queue -> P q -> P (fst (drain_loop k queue q)).
  Proof.
    induction queue as [|it rest IH]; intros q Hl Hq; cbn [drain_loop].
    - apply H_sq; [exact Hq | constructor].
    - pose proof (Forall_inv Hl) as Hit. pose proof (Forall_inv_tail Hl) as Hrest.
      destruct (glookup k (groups q)) as [g|] eqn:Ek; [|exact Hq].
      destruct (has_space (gcur q) (gmax q) (it_w it)) eqn:Hs; cbn [andb].
      + destruct (has_space (g_cur g) (g_max g) (it_w it)) eqn:Hsg; cbn [fst].
        * apply IH; [exact Hrest | apply H_si; assumption].
        * apply H_sq; assumption.
      + apply H_sq; assumption.
  Qed.

  Lemma fq_pop_pres q id res : P q -> fq_pop q id = Some res -> P (fst res).
  Proof.
    intros Hq. unfold fq_pop. destruct (panicked q); [discriminate|].
    destruct (take_running id (running q)) as [[r rest]|] eqn:Et; [|discriminate].
    destruct (take_running_spec _ _ _ _ Et) as (l1 & l2 & Hrun & -> & _).
    pose proof (H_rel q r l1 l2 Hq Hrun) as Hrel.
    destruct (r_grp r) as [[k t]|].
    - destruct (glookup k (groups (release q r (l1 ++ l2)))) as [g|] eqn:Ek.
      + intros H; injection H as <-. cbn [fst]. apply drain_loop_pres; [|exact Hrel].
        eapply H_queue; eassumption.
      + intros H; injection H as <-. exact Hrel.
    - intros H; injection H as <-. exact Hrel.
  Qed.

  Lemma fq_step_pres q o : P q -> P (fst (fq_step q o)).
  Proof.
    intros Hq. destruct o as [|id|id]; cbn [fq_step].
    - apply fq_fill_pres; exact Hq.
    - destruct (fq_pop q id) as [res|] eqn:E; [|exact Hq]. cbn [fst].
      apply fq_fill_pres. eapply fq_pop_pres; eassumption.
    - destruct (fq_pop q id) as [res|] eqn:E; [|exact Hq]. eapply fq_pop_pres; eassumption.
  Qed.
End Preservation.

Lemma fq_run_acc ops : forall acc,
  fold_left fq_run_step ops acc =
  (fst (fold_left fq_run_step ops (fst acc, [])), snd acc ++ snd (fold_left fq_run_step ops (fst acc, []))).
Proof.
  induction ops as [|o ops IH]; intros acc; cbn [fold_left].
  - cbn [fst snd]. rewrite app_nil_r. destruct acc; reflexivity.
  - rewrite IH. rewrite (IH (fq_run_step (fst acc, []) o)).
    unfold fq_run_step; cbn [fst snd]. rewrite app_assoc. reflexivity.
Qed.

Lemma fq_run_cons q o ops :
  fq_run q (o :: ops) =
  (fst (fq_run (fst (fq_step q o)) ops), snd (fq_step q o) ++ snd (fq_run (fst (fq_step q o)) ops)).
Proof.
  unfold fq_run; cbn [fold_left]. rewrite fq_run_acc. unfold fq_run_step; cbn [fst snd]. reflexivity.
Qed.

Lemma fq_run_pres (P : fq -> Prop) :
  (forall q o, P q -> P (fst (fq_step q o))) ->
  forall ops q, P q -> P (fst (fq_run q ops)).
Proof.
  intros Hstep. induction ops as [|o ops IH]; intros q Hq; [exact Hq|].
  rewrite fq_run_cons; cbn [fst]. apply IH. apply Hstep; exact Hq.
Qed.

Lemma Forall_True (l : list item) : Forall (fun _ => True) l.
Proof. induction l; constructor; auto. Qed.

Lemma fq_step_inv q o : fq_inv q -> fq_inv (fst (fq_step q o)).
Proof.
  apply (fq_step_pres (fun _ => True) fq_inv).
  - intros; apply Forall_True.
  - intros; apply Forall_True.
  - intros; apply start_global_inv; assumption.
  - intros; apply start_in_group_inv; assumption.
  - intros; apply enqueue_inv; assumption.
  - intros; apply set_queue_inv; assumption.
  - intros; apply set_pending_inv; assumption.
  - intros; apply set_panicked_inv; assumption.
  - intros; apply release_inv; assumption.
Qed.

Lemma fq_run_inv ops : forall q, fq_inv q -> fq_inv (fst (fq_run q ops)).
Proof. apply fq_run_pres. exact fq_step_inv. Qed.

Lemma fq_pop_inv q id res : fq_inv q -> fq_pop q id = Some res -> fq_inv (fst res).
Proof.
  apply (fq_pop_pres (fun _ => True) fq_inv).
  - intros; apply Forall_True.
  - intros; apply start_in_group_inv; assumption.
  - intros; apply set_queue_inv; assumption.
  - intros; apply release_inv; assumption.
Qed.

Lemma glookup_new k grps g :
  glookup k (map (fun kg : N * N => (fst kg, new_grp (snd kg))) grps) = Some g ->
  exists m, g = new_grp m.
Proof.
  induction grps as [|[k1 m1] grps IH]; cbn [map glookup fst snd]; [discriminate|].
  destruct (k =? k1); [intros H; injection H as <-; eexists; reflexivity | exact IH].
Qed.

Lemma fq_new_inv gm grps items : fq_inv (fq_new gm grps items).
Proof.
  unfold fq_inv, fq_new; cbn [gcur gmax running gslots groups].
  split; [reflexivity|split; [lia|split; [exact slots_ok_empty|]]].
  intros k g Hk. apply glookup_new in Hk. destruct Hk as [m ->].
  unfold grp_ok, new_grp; cbn. split; [reflexivity|split; [lia|exact slots_ok_empty]].
Qed.

(* every state reachable from a fresh queue by any operation sequence satisfies the invariant *)
Lemma reachable_inv gm grps items ops : fq_inv (fst (fq_run (fq_new gm grps items) ops)).
Proof. apply fq_run_inv, fq_new_inv. Qed.

(* ------------------------------------------------------------------ limits never change *)

Definition same_limits (gm : N) (cfg : N -> option N) (q : fq) : Prop :=
  gmax q = gm /\ forall k, option_map g_max (glookup k (groups q)) = cfg k.

Lemma gupdate_same_max k g g' gs :
  glookup k gs = Some g -> g_max g' = g_max g ->
  forall k', option_map g_max (glookup k' (gupdate k g' gs)) = option_map g_max (glookup k' gs).
Proof.
  intros Hk Hm k'. destruct (N.eq_dec k' k) as [->|Hne].
  - rewrite (glookup_gupdate_same _ _ _ _ Hk), Hk. cbn [option_map]. rewrite Hm. reflexivity.
  - rewrite glookup_gupdate_other by exact Hne. reflexivity.
Qed.

Lemma same_limits_step gm cfg q o : same_limits gm cfg q -> same_limits gm cfg (fst (fq_step q o)).
Proof.
  apply (fq_step_pres (fun _ => True) (same_limits gm cfg)); try (intros; apply Forall_True).
  - intros q0 it H _ _. exact H.
  - intros q0 k g it [H1 H2] _ Hk _ _. split; [exact H1|]. intros k'.
    unfold start_in_group; cbn [fst groups]. rewrite (gupdate_same_max _ _ _ _ Hk); [apply H2 | reflexivity].
  - intros q0 k g it [H1 H2] _ Hk _ _. split; [exact H1|]. intros k'.
    unfold enqueue, set_groups; cbn [groups]. rewrite (gupdate_same_max _ _ _ _ Hk); [apply H2 | reflexivity].
  - intros q0 k l [H1 H2] _. unfold set_queue. destruct (glookup k (groups q0)) as [g|] eqn:Hk; [|split; assumption].
    split; [exact H1|]. intros k'.
    unfold set_groups; cbn [groups]. rewrite (gupdate_same_max _ _ _ _ Hk); [apply H2 | reflexivity].
  - intros q0 l H _. exact H.
  - intros q0 H. exact H.
  - intros q0 r l1 l2 [H1 H2] _. split; [exact H1|]. intros k'. unfold release; cbn [groups].
    destruct (r_grp r) as [[k t]|]; [|apply H2].
    destruct (glookup k (groups q0)) as [g|] eqn:Hk; [|apply H2].
    rewrite (gupdate_same_max _ _ _ _ Hk); [apply H2 | reflexivity].
Qed.

Fixpoint assoc_first (k : N) (l : list (N * N)) : option N :=
  match l with
  | [] => None
  | (k', m) :: r => if k =? k' then Some m else assoc_first k r
  end.

Lemma same_limits_new gm grps items : same_limits gm (fun k => assoc_first k grps) (fq_new gm grps items).
Proof.
  split; [reflexivity|]. intros k. unfold fq_new; cbn [groups].
  induction grps as [|[k1 m1] grps IH]; cbn [map glookup assoc_first fst snd]; [reflexivity|].
  destruct (k =? k1); [reflexivity | exact IH].
Qed.

Lemma reachable_limits gm grps items ops :
  same_limits gm (fun k => assoc_first k grps) (fst (fq_run (fq_new gm grps items) ops)).
Proof.
  apply (fq_run_pres (same_limits gm (fun k => assoc_first k grps))).
  - intros; apply same_limits_step; assumption.
  - apply same_limits_new.
Qed.

(* ------------------------------------------------------------------ bounds on slot numbers *)

Definition wpos (it : item) : Prop := 1 <= it_w it.

Definition gbound (g : grp) : Prop :=
  Forall wpos (g_queue g) /\ 1 <= g_max g /\ ss_next (g_slots g) <= g_max g.

Definition fq_bounded (q : fq) : Prop :=
  fq_inv q /\ Forall wpos (pending q) /\ Forall wpos (map r_item (running q)) /\
  1 <= gmax q /\ ss_next (gslots q) <= gmax q /\
  (forall k g, glookup k (groups q) = Some g -> gbound g).

Lemma length_le_gload gm rs :
  1 <= gm -> Forall wpos (map r_item rs) -> N.of_nat (length rs) <= gload gm rs.
Proof.
  intros Hgm. induction rs as [|r rs IH]; intros H; [cbn; lia|].
  cbn [map] in H. pose proof (Forall_inv H) as Hr. pose proof (Forall_inv_tail H) as Hrs.
  unfold gload; cbn [map sumN length]. fold (gload gm rs). specialize (IH Hrs).
  unfold wpos in Hr. unfold capw. lia.
Qed.

Lemma length_held_le_group_load k gm rs :
  1 <= gm -> Forall wpos (map r_item rs) ->
  N.of_nat (length (group_slots_held k rs)) <= group_load k gm rs.
Proof.
  intros Hgm. induction rs as [|r rs IH]; intros H; [cbn; lia|].
  cbn [map] in H. pose proof (Forall_inv H) as Hr. pose proof (Forall_inv_tail H) as Hrs.
  rewrite held_cons, group_load_cons, group_load_one, app_length. specialize (IH Hrs).
  unfold held1, in_group. destruct (r_grp r) as [[k' t]|]; [|cbn [length]; lia].
  destruct (k =? k'); cbn [length]; unfold wpos in Hr; unfold capw; lia.
Qed.

Lemma reserve_next_bound s held M :
  slots_ok s held -> ss_next s <= M -> N.of_nat (length held) + 1 <= M ->
  ss_next (snd (slot_reserve s)) <= M.
Proof.
  intros (Hh & Hf & Hd & Hr) Hn Hl. unfold slot_reserve.
  destruct (ss_free s) as [|a fr] eqn:E; cbn [snd ss_next]; [|exact Hn].
  assert (ss_next s <= N.of_nat (length held)); [|lia].
  apply below_all_in_length; [exact Hh|]. intros y Hy. apply Hr in Hy.
  destruct Hy as [[]|Hy]; exact Hy.
Qed.

Lemma gupdate_forall (Q : grp -> Prop) k g g' gs :
  glookup k gs = Some g -> Q g' ->
  (forall k' g0, glookup k' gs = Some g0 -> Q g0) ->
  forall k' g1, glookup k' (gupdate k g' gs) = Some g1 -> Q g1.
Proof.
  intros Hk Hg' Hall k' g1 H. destruct (N.eq_dec k' k) as [->|Hne].
  - rewrite (glookup_gupdate_same _ _ _ _ Hk) in H. injection H as <-. exact Hg'.
  - rewrite glookup_gupdate_other in H by exact Hne. eapply Hall; exact H.
Qed.

Lemma Forall_app_single (P : item -> Prop) l x : Forall P l -> P x -> Forall P (l ++ [x]).
Proof. intros Hl Hx. apply Forall_app. split; [exact Hl | constructor; [exact Hx | constructor]]. Qed.

Lemma fq_bounded_step q o : fq_bounded q -> fq_bounded (fst (fq_step q o)).
Proof.
  apply (fq_step_pres wpos fq_bounded).
  - intros q0 H; apply H.
  - intros q0 k g (_ & _ & _ & _ & _ & H) Hk. apply (H k g Hk).
  - (* start_global *)
    intros q0 it (Hi & Hp & Hr & Hg1 & Hn & Hgs) Hit Hs.
    pose proof (start_global_inv q0 it Hi Hs) as Hi'.
    assert (Hr' : Forall wpos (map r_item (running q0 ++ [mkrun it (fst (slot_reserve (gslots q0))) None]))).
    { rewrite map_app. apply Forall_app_single; assumption. }
    split; [exact Hi'|split; [exact Hp|split; [exact Hr'|split; [exact Hg1|split; [|exact Hgs]]]]].
    destruct Hi as (_ & _ & Hsl & _). destruct Hi' as (Hc' & Hle' & _).
    unfold start_global in *; cbn [fst gcur gmax running gslots] in *.
    eapply reserve_next_bound; [exact Hsl | exact Hn|].
    pose proof (length_le_gload (gmax q0) _ Hg1 Hr') as Hlen.
    rewrite app_length in Hlen; cbn [length] in Hlen. rewrite map_length. lia.
  - (* start_in_group *)
    intros q0 k g it (Hi & Hp & Hr & Hg1 & Hn & Hgs) Hit Hk Hs Hsg.
    pose proof (start_in_group_inv q0 k g it Hi Hk Hs Hsg) as Hi'.
    set (r := mkrun it (fst (slot_reserve (gslots q0))) (Some (k, fst (slot_reserve (g_slots g))))).
    assert (Hr' : Forall wpos (map r_item (running q0 ++ [r]))).
    { rewrite map_app. apply Forall_app_single; assumption. }
    split; [exact Hi'|split; [exact Hp|split; [exact Hr'|split; [exact Hg1|split]]]].
    + destruct Hi as (_ & _ & Hsl & _). destruct Hi' as (Hc' & Hle' & _).
      unfold start_in_group in *; cbn [fst gcur gmax running gslots] in *. fold r in Hc'.
      eapply reserve_next_bound; [exact Hsl | exact Hn|].
      pose proof (length_le_gload (gmax q0) _ Hg1 Hr') as Hlen.
      rewrite app_length in Hlen; cbn [length] in Hlen. rewrite map_length. lia.
    + destruct (Hgs k g Hk) as (Gq & Gm & Gn).
      destruct Hi as (_ & _ & _ & Hgrp). destruct (Hgrp k g Hk) as (_ & _ & Gsl).
      destruct Hi' as (_ & _ & _ & Hgrp').
      unfold start_in_group in *; cbn [fst groups running] in *. fold r in Hgrp'.
      apply (gupdate_forall gbound k g _ _ Hk); [|exact Hgs].
      unfold gbound; cbn [g_queue g_max g_slots]. split; [exact Gq|split; [exact Gm|]].
      eapply reserve_next_bound; [exact Gsl | exact Gn|].
      specialize (Hgrp' k _ (glookup_gupdate_same _ _ _ _ Hk)).
      destruct Hgrp' as (C1 & C2 & _). cbn [g_cur g_max] in C1, C2.
      pose proof (length_held_le_group_load k (g_max g) _ Gm Hr') as Hlen.
      rewrite held_app, held_one, app_length in Hlen.
      unfold held1 in Hlen; cbn [r r_grp] in Hlen. rewrite N.eqb_refl in Hlen. cbn [length] in Hlen. lia.
  - (* enqueue *)
    intros q0 k g it (Hi & Hp & Hr & Hg1 & Hn & Hgs) Hit Hk _ _.
    split; [apply enqueue_inv; assumption|split; [exact Hp|split; [exact Hr|split; [exact Hg1|split; [exact Hn|]]]]].
    unfold enqueue, set_groups; cbn [groups].
    apply (gupdate_forall gbound k g _ _ Hk); [|exact Hgs].
    destruct (Hgs k g Hk) as (Gq & Gm & Gn). unfold gbound; cbn [g_queue g_max g_slots].
    split; [apply Forall_app_single; assumption | auto].
  - (* set_queue *)
    intros q0 k l (Hi & Hp & Hr & Hg1 & Hn & Hgs) Hl.
    split; [apply set_queue_inv; assumption|split; [|split; [|split; [|split]]]];
      unfold set_queue; destruct (glookup k (groups q0)) as [g|] eqn:Hk; try assumption.
    unfold set_groups; cbn [groups].
    apply (gupdate_forall gbound k g _ _ Hk); [|exact Hgs].
    destruct (Hgs k g Hk) as (Gq & Gm & Gn). unfold gbound; cbn [g_queue g_max g_slots]. auto.
  - (* set_pending *)
    intros q0 l (Hi & Hp & Hr & Hg1 & Hn & Hgs) Hl.
    split; [exact Hi|split; [exact Hl|split; [exact Hr|split; [exact Hg1|split; [exact Hn|exact Hgs]]]]].
  - intros q0 H; exact H.
  - (* release *)
    intros q0 r l1 l2 (Hi & Hp & Hr & Hg1 & Hn & Hgs) Hrun.
    split; [apply release_inv; assumption|].
    split; [exact Hp|split; [|split; [exact Hg1|split; [exact Hn|]]]].
    + unfold release; cbn [running]. rewrite Hrun in Hr. rewrite map_app in *. cbn [map] in Hr.
      apply Forall_app in Hr. destruct Hr as [Ha Hb]. apply Forall_app. split; [exact Ha|].
      exact (Forall_inv_tail Hb).
    + unfold release; cbn [groups].
      destruct (r_grp r) as [[k t]|]; [|exact Hgs].
      destruct (glookup k (groups q0)) as [g|] eqn:Hk; [|exact Hgs].
      apply (gupdate_forall gbound k g _ _ Hk); [|exact Hgs].
      destruct (Hgs k g Hk) as (Gq & Gm & Gn). unfold gbound; cbn [g_queue g_max g_slots slot_release ss_next]. auto.
Qed.

Lemma fq_bounded_new gm grps items :
  1 <= gm -> Forall (fun kg => 1 <= snd kg) grps -> Forall wpos items ->
  fq_bounded (fq_new gm grps items).
Proof.
  intros Hgm Hgr Hit.
  split; [apply fq_new_inv|split; [exact Hit|split; [constructor|split; [exact Hgm|split; [cbn; lia|]]]]].
  unfold fq_new; cbn [groups]. intros k g.
  induction Hgr as [|[k1 m1] grps H1 Hgr IH]; cbn [map glookup fst snd]; [discriminate|].
  destruct (k =? k1); [|exact IH]. intros H; injection H as <-.
  unfold gbound, new_grp; cbn. cbn [snd] in H1. split; [constructor|split; [exact H1|lia]].
Qed.

Lemma held_in k t r rs : In r rs -> r_grp r = Some (k, t) -> In t (group_slots_held k rs).
Proof.
  intros Hin Hr. unfold group_slots_held. apply in_flat_map. exists r. split; [exact Hin|].
  rewrite Hr, N.eqb_refl. left; reflexivity.
Qed.

Lemma fq_bounded_slots q r :
  fq_bounded q -> In r (running q) ->
  r_gslot r < gmax q /\
  forall k t g, r_grp r = Some (k, t) -> glookup k (groups q) = Some g -> t < g_max g.
Proof.
  intros ((_ & _ & Hsl & Hgrp) & _ & _ & _ & Hn & Hgs) Hin. split.
  - destruct Hsl as (_ & _ & _ & Hr).
    assert (r_gslot r < ss_next (gslots q)); [|lia].
    apply Hr. right. apply in_map. exact Hin.
  - intros k t g Hr Hk. destruct (Hgrp k g Hk) as (_ & _ & (_ & _ & _ & Hrange)).
    destruct (Hgs k g Hk) as (_ & _ & Gn).
    assert (t < ss_next (g_slots g)); [|lia].
    apply Hrange. right. eapply held_in; eassumption.
Qed.

(* ------------------------------------------------------------------ provenance of items *)

(* every item the queue holds (not yet pulled, queued in a group, or running) satisfies Pw *)
Definition fq_prov (Pw : item -> Prop) (q : fq) : Prop :=
  Forall Pw (pending q) /\ Forall Pw (map r_item (running q)) /\
  (forall k g, glookup k (groups q) = Some g -> Forall Pw (g_queue g)).

Lemma fq_prov_step Pw q o : fq_prov Pw q -> fq_prov Pw (fst (fq_step q o)).
Proof.
  apply (fq_step_pres Pw (fq_prov Pw)).
  - intros q0 H; apply H.
  - intros q0 k g (_ & _ & H) Hk. apply (H k g Hk).
  - intros q0 it (Hp & Hr & Hq) Hit _. split; [exact Hp|split; [|exact Hq]].
    unfold start_global; cbn [fst running]. rewrite map_app. apply Forall_app_single; assumption.
  - intros q0 k g it (Hp & Hr & Hq) Hit Hk _ _. split; [exact Hp|split].
    + unfold start_in_group; cbn [fst running]. rewrite map_app. apply Forall_app_single; assumption.
    + unfold start_in_group; cbn [fst groups].
      apply (gupdate_forall (fun g => Forall Pw (g_queue g)) k g _ _ Hk); [|exact Hq].
      cbn [g_queue]. apply (Hq k g Hk).
  - intros q0 k g it (Hp & Hr & Hq) Hit Hk _ _. split; [exact Hp|split; [exact Hr|]].
    unfold enqueue, set_groups; cbn [groups].
    apply (gupdate_forall (fun g => Forall Pw (g_queue g)) k g _ _ Hk); [|exact Hq].
    cbn [g_queue]. apply Forall_app_single; [apply (Hq k g Hk) | exact Hit].
  - intros q0 k l (Hp & Hr & Hq) Hl. unfold set_queue.
    destruct (glookup k (groups q0)) as [g|] eqn:Hk; [|split; [|split]; assumption].
    split; [exact Hp|split; [exact Hr|]]. unfold set_groups; cbn [groups].
    apply (gupdate_forall (fun g => Forall Pw (g_queue g)) k g _ _ Hk); [exact Hl | exact Hq].
  - intros q0 l (Hp & Hr & Hq) Hl. split; [exact Hl|split; assumption].
  - intros q0 H; exact H.
  - intros q0 r l1 l2 (Hp & Hr & Hq) Hrun. split; [exact Hp|split].
    + unfold release; cbn [running]. rewrite Hrun in Hr. rewrite map_app in *. cbn [map] in Hr.
      apply Forall_app in Hr. destruct Hr as [Ha Hb]. apply Forall_app. split; [exact Ha|].
      exact (Forall_inv_tail Hb).
    + unfold release; cbn [groups].
      destruct (r_grp r) as [[k t]|]; [|exact Hq].
      destruct (glookup k (groups q0)) as [g|] eqn:Hk; [|exact Hq].
      apply (gupdate_forall (fun g => Forall Pw (g_queue g)) k g _ _ Hk); [|exact Hq].
      cbn [g_queue]. apply (Hq k g Hk).
Qed.

Lemma fq_prov_new Pw gm grps items : Forall Pw items -> fq_prov Pw (fq_new gm grps items).
Proof.
  intros H. split; [exact H|split; [constructor|]]. unfold fq_new; cbn [groups]. intros k g Hk.
  apply glookup_new in Hk. destruct Hk as [m ->]. constructor.
Qed.

Lemma reachable_prov Pw gm grps items ops :
  Forall Pw items -> fq_prov Pw (fst (fq_run (fq_new gm grps items) ops)).
Proof.
  intros H. apply (fq_run_pres (fq_prov Pw)).
  - intros; apply fq_prov_step; assumption.
  - apply fq_prov_new; exact H.
Qed.

(* ------------------------------------------------------------------ statements for C08 *)

Lemma global_load_eq q : global_load q = gload (gmax q) (running q).
Proof. reflexivity. Qed.

Lemma c08_global_inv gm grps items ops :
  let q := fst (fq_run (fq_new gm grps items) ops) in
  gmax q = gm /\ global_load q = gcur q /\ gcur q <= gm.
Proof.
  intros q. destruct (reachable_inv gm grps items ops) as (H1 & H2 & _).
  destruct (reachable_limits gm grps items ops) as (L1 & _). fold q in H1, H2, L1.
  rewrite global_load_eq. rewrite <- L1. split; [reflexivity|split; [symmetry; exact H1|exact H2]].
Qed.

Lemma c08_group_inv gm grps items ops k m :
  assoc_first k grps = Some m ->
  let q := fst (fq_run (fq_new gm grps items) ops) in
  exists g, glookup k (groups q) = Some g /\ g_max g = m /\
            group_load k m (running q) = g_cur g /\ g_cur g <= m.
Proof.
  intros Hk q. destruct (reachable_inv gm grps items ops) as (_ & _ & _ & H4).
  destruct (reachable_limits gm grps items ops) as (_ & L2). fold q in H4, L2.
  specialize (L2 k). rewrite Hk in L2.
  destruct (glookup k (groups q)) as [g|] eqn:Eg; [|discriminate].
  cbn [option_map] in L2. injection L2 as L2.
  exists g. destruct (H4 k g Eg) as (G1 & G2 & _). rewrite <- L2.
  split; [reflexivity|split; [reflexivity|split; [symmetry; exact G1|exact G2]]].
Qed.

Lemma c08_no_capture_serial grps items ops :
  Forall wpos items ->
  (length (running (fst (fq_run (fq_new 1 grps items) ops))) <= 1)%nat.
Proof.
  intros Hw. destruct (c08_global_inv 1 grps items ops) as (Hm & Hl & Hc).
  destruct (reachable_prov wpos 1 grps items ops Hw) as (_ & Hr & _).
  set (q := fst (fq_run (fq_new 1 grps items) ops)) in *.
  pose proof (length_le_gload 1 (running q) ltac:(lia) Hr) as Hlen.
  rewrite global_load_eq, Hm in Hl. lia.
Qed.

(* ------------------------------------------------------------------ dispatch order *)

Lemma pulls_app a b : pulls (a ++ b) = pulls a ++ pulls b.
Proof.
  induction a as [|e a IH]; [reflexivity|]. destruct e; cbn [app pulls]; rewrite IH; reflexivity.
Qed.

Lemma starts_app a b : starts (a ++ b) = starts a ++ starts b.
Proof.
  induction a as [|e a IH]; [reflexivity|]. destruct e; cbn [app starts]; rewrite IH; reflexivity.
Qed.

Lemma fill_loop_pulls l : forall q,
  pulls (snd (fill_loop l q)) ++ pending (fst (fill_loop l q)) = l.
Proof.
  induction l as [|it rest IH]; intros q; cbn [fill_loop]; [reflexivity|].
  destruct (has_space (gcur q) (gmax q) (it_w it)); [|reflexivity].
  destruct (it_grp it) as [k|].
  - destruct (glookup k (groups q)) as [g|]; [|reflexivity].
    destruct (has_space (g_cur g) (g_max g) (it_w it)); cbn [fst snd pulls app]; rewrite IH; reflexivity.
  - cbn [fst snd pulls app]. rewrite IH. reflexivity.
Qed.

Lemma set_queue_pending q k l : pending (set_queue q k l) = pending q.
Proof. unfold set_queue. destruct (glookup k (groups q)); reflexivity. Qed.

Lemma drain_loop_pulls k queue : forall q,
  pulls (snd (drain_loop k queue q)) = [] /\ pending (fst (drain_loop k queue q)) = pending q.
Proof.
  induction queue as [|it rest IH]; intros q; cbn [drain_loop].
  - split; [reflexivity | apply set_queue_pending].
  - destruct (glookup k (groups q)) as [g|]; [|split; reflexivity].
    destruct (has_space (gcur q) (gmax q) (it_w it) && has_space (g_cur g) (g_max g) (it_w it)).
    + cbn [fst snd pulls]. destruct (IH (fst (start_in_group q k g it))) as [H1 H2]. split; assumption.
    + split; [reflexivity | apply set_queue_pending].
Qed.

Lemma fq_pop_pulls q id res :
  fq_pop q id = Some res -> pulls (snd res) = [] /\ pending (fst res) = pending q.
Proof.
  unfold fq_pop. destruct (panicked q); [discriminate|].
  destruct (take_running id (running q)) as [[r rest]|]; [|discriminate].
  destruct (r_grp r) as [[k t]|].
  - destruct (glookup k (groups (release q r rest))) as [g|].
    + intros H; injection H as <-. cbn [fst snd pulls].
      destruct (drain_loop_pulls k (g_queue g) (release q r rest)) as [H1 H2]. split; assumption.
    + intros H; injection H as <-. split; reflexivity.
  - intros H; injection H as <-. split; reflexivity.
Qed.

Lemma fq_step_pulls q o :
  pulls (snd (fq_step q o)) ++ pending (fst (fq_step q o)) = pending q.
Proof.
  assert (Hfill : forall q0, pulls (snd (fq_fill q0)) ++ pending (fst (fq_fill q0)) = pending q0).
  { intros q0. unfold fq_fill. destruct (panicked q0); [reflexivity | apply fill_loop_pulls]. }
  destruct o as [|id|id]; cbn [fq_step].
  - apply Hfill.
  - destruct (fq_pop q id) as [res|] eqn:E; [|reflexivity].
    destruct (fq_pop_pulls _ _ _ E) as [H1 H2]. cbn [fst snd].
    rewrite pulls_app, H1. cbn [app]. rewrite Hfill. exact H2.
  - destruct (fq_pop q id) as [res|] eqn:E; [|reflexivity].
    destruct (fq_pop_pulls _ _ _ E) as [H1 H2]. rewrite H1. exact H2.
Qed.

Lemma fq_run_pulls ops : forall q,
  pulls (snd (fq_run q ops)) ++ pending (fst (fq_run q ops)) = pending q.
Proof.
  induction ops as [|o ops IH]; intros q; [reflexivity|].
  rewrite fq_run_cons; cbn [fst snd]. rewrite pulls_app, <- app_assoc, IH. apply fq_step_pulls.
Qed.

(* ------------------------------------------------------------------ serial start order *)

Definition serial_ok (q : fq) : Prop :=
  fq_inv q /\ gmax q = 1 /\ forall k g, glookup k (groups q) = Some g -> g_queue g = [].

Lemma gload1_zero_group k gm rs : gload 1 rs = 0 -> group_load k gm rs = 0.
Proof.
  induction rs as [|r rs IH]; [reflexivity|].
  unfold gload; cbn [map sumN]. fold (gload 1 rs). intros H.
  rewrite group_load_cons, group_load_one. rewrite IH by lia.
  destruct (in_group k r); [|reflexivity]. unfold capw in *. lia.
Qed.

(* with a global limit of 1, whatever fits globally fits its group *)
Lemma serial_fits q k g w :
  fq_inv q -> gmax q = 1 -> glookup k (groups q) = Some g ->
  has_space (gcur q) (gmax q) w = true -> has_space (g_cur g) (g_max g) w = true.
Proof.
  intros (H1 & H2 & _ & H4) Hm Hk Hs. destruct (H4 k g Hk) as (G1 & G2 & _).
  apply has_space_true in Hs. unfold has_space. apply N.leb_le. rewrite Hm in *.
  destruct (N.eq_dec w 0) as [->|Hw]; [unfold capw; lia|].
  assert (gcur q = 0) by (unfold capw in Hs; lia).
  rewrite (gload1_zero_group k (g_max g) (running q)) in G1 by lia. unfold capw; lia.
Qed.

Lemma serial_ok_start_global q it :
  serial_ok q -> has_space (gcur q) (gmax q) (it_w it) = true -> serial_ok (fst (start_global q it)).
Proof.
  intros (Hi & Hm & Hq) Hs. split; [apply start_global_inv; assumption|split; assumption].
Qed.

Lemma serial_ok_start_in_group q k g it :
  serial_ok q -> glookup k (groups q) = Some g ->
  has_space (gcur q) (gmax q) (it_w it) = true ->
  has_space (g_cur g) (g_max g) (it_w it) = true -> serial_ok (fst (start_in_group q k g it)).
Proof.
  intros (Hi & Hm & Hq) Hk Hs Hsg.
  split; [apply start_in_group_inv; assumption|split; [exact Hm|]].
  unfold start_in_group; cbn [fst groups].
  apply (gupdate_forall (fun g => g_queue g = []) k g _ _ Hk); [|exact Hq]. cbn [g_queue]. apply (Hq k g Hk).
Qed.

Lemma serial_ok_set_queue_nil q k : serial_ok q -> serial_ok (set_queue q k []).
Proof.
  intros (Hi & Hm & Hq). split; [apply set_queue_inv; exact Hi|]. unfold set_queue.
  destruct (glookup k (groups q)) as [g|] eqn:Hk; [|split; assumption]. split; [exact Hm|].
  unfold set_groups; cbn [groups].
  apply (gupdate_forall (fun g => g_queue g = []) k g _ _ Hk); [reflexivity | exact Hq].
Qed.

Lemma fill_loop_serial l : forall q, serial_ok q ->
  serial_ok (fst (fill_loop l q)) /\ (panicked (fst (fill_loop l q)) = false ->
   map r_item (starts (snd (fill_loop l q))) = pulls (snd (fill_loop l q))).
Proof.
  induction l as [|it rest IH]; intros q Hq; cbn [fill_loop].
  - split; [exact Hq | reflexivity].
  - destruct (has_space (gcur q) (gmax q) (it_w it)) eqn:Hs; [|split; [exact Hq | reflexivity]].
    destruct (it_grp it) as [k|].
    + destruct (glookup k (groups q)) as [g|] eqn:Hk.
      * destruct Hq as (Hi & Hm & Hqq).
        rewrite (serial_fits q k g _ Hi Hm Hk Hs).
        destruct (IH (fst (start_in_group q k g it))) as [H1 H2].
        { apply serial_ok_start_in_group; [split; [|split]; assumption|exact Hk|exact Hs|].
          apply (serial_fits q k g _ Hi Hm Hk Hs). }
        cbn [fst snd starts pulls map]. split; [exact H1|]. intros Hp. rewrite (H2 Hp). reflexivity.
      * cbn [fst snd]. split; [exact Hq|]. cbn [set_panicked panicked]. discriminate.
    + destruct (IH (fst (start_global q it))) as [H1 H2].
      { apply serial_ok_start_global; assumption. }
      cbn [fst snd starts pulls map]. split; [exact H1|]. intros Hp. rewrite (H2 Hp). reflexivity.
Qed.

Lemma fill_loop_panicked l : forall q, panicked q = true -> panicked (fst (fill_loop l q)) = true.
Proof.
  induction l as [|it rest IH]; intros q Hq; cbn [fill_loop]; [exact Hq|].
  destruct (has_space (gcur q) (gmax q) (it_w it)); [|exact Hq].
  destruct (it_grp it) as [k|].
  - destruct (glookup k (groups q)) as [g|]; [|reflexivity].
    destruct (has_space (g_cur g) (g_max g) (it_w it)); cbn [fst]; apply IH; exact Hq.
  - cbn [fst]. apply IH; exact Hq.
Qed.

Lemma fq_fill_serial q : serial_ok q ->
  serial_ok (fst (fq_fill q)) /\
  (panicked (fst (fq_fill q)) = false ->
   map r_item (starts (snd (fq_fill q))) = pulls (snd (fq_fill q))).
Proof.
  intros Hq. unfold fq_fill. destruct (panicked q); [split; [exact Hq|reflexivity]|].
  apply fill_loop_serial; exact Hq.
Qed.

Lemma release_serial q r l1 l2 :
  serial_ok q -> running q = l1 ++ r :: l2 -> serial_ok (release q r (l1 ++ l2)).
Proof.
  intros (Hi & Hm & Hq) Hrun. split; [apply release_inv; assumption|split; [exact Hm|]].
  unfold release; cbn [groups].
  destruct (r_grp r) as [[k t]|]; [|exact Hq].
  destruct (glookup k (groups q)) as [g|] eqn:Hk; [|exact Hq].
  apply (gupdate_forall (fun g => g_queue g = []) k g _ _ Hk); [|exact Hq]. cbn [g_queue]. apply (Hq k g Hk).
Qed.

Lemma fq_pop_serial q id res : serial_ok q -> fq_pop q id = Some res ->
  serial_ok (fst res) /\ starts (snd res) = [] /\ pulls (snd res) = [] /\ panicked (fst res) = false.
Proof.
  intros Hq. unfold fq_pop. destruct (panicked q) eqn:Hp; [discriminate|].
  destruct (take_running id (running q)) as [[r rest]|] eqn:Et; [|discriminate].
  destruct (take_running_spec _ _ _ _ Et) as (l1 & l2 & Hrun & -> & _).
  pose proof (release_serial q r l1 l2 Hq Hrun) as Hrel.
  assert (Hpr : panicked (release q r (l1 ++ l2)) = false) by exact Hp.
  destruct (r_grp r) as [[k t]|].
  - destruct (glookup k (groups (release q r (l1 ++ l2)))) as [g|] eqn:Hk.
    + destruct Hrel as (Hi & Hm & Hqq). rewrite (Hqq k g Hk). cbn [drain_loop].
      intros H; injection H as <-. cbn [fst snd starts pulls].
      split; [apply serial_ok_set_queue_nil; split; [|split]; assumption|].
      split; [reflexivity|split; [reflexivity|]].
      unfold set_queue. rewrite Hk. exact Hpr.
    + intros H; injection H as <-. auto.
  - intros H; injection H as <-. auto.
Qed.

Lemma fq_step_serial q o : serial_ok q ->
  serial_ok (fst (fq_step q o)) /\ (panicked (fst (fq_step q o)) = false ->
   map r_item (starts (snd (fq_step q o))) = pulls (snd (fq_step q o))).
Proof.
  intros Hq. destruct o as [|id|id]; cbn [fq_step].
  - apply fq_fill_serial; exact Hq.
  - destruct (fq_pop q id) as [res|] eqn:E; [|split; [exact Hq|reflexivity]].
    destruct (fq_pop_serial _ _ _ Hq E) as (H1 & H2 & H3 & H4).
    destruct (fq_fill_serial (fst res) H1) as [F1 F2]. cbn [fst snd].
    split; [exact F1|]. intros Hp. rewrite starts_app, pulls_app, H2, H3. cbn [app]. apply F2; exact Hp.
  - destruct (fq_pop q id) as [res|] eqn:E; [|split; [exact Hq|reflexivity]].
    destruct (fq_pop_serial _ _ _ Hq E) as (H1 & H2 & H3 & H4).
    split; [exact H1|]. intros _. rewrite H2, H3. reflexivity.
Qed.

Lemma fq_step_panicked q o : panicked q = true -> fq_step q o = (q, []).
Proof.
  intros Hp. destruct o as [|id|id]; cbn [fq_step]; unfold fq_pop, fq_fill; rewrite Hp; reflexivity.
Qed.

Lemma fq_run_serial ops : forall q, serial_ok q ->
  panicked (fst (fq_run q ops)) = false ->
  map r_item (starts (snd (fq_run q ops))) = pulls (snd (fq_run q ops)).
Proof.
  induction ops as [|o ops IH]; intros q Hq Hp; [reflexivity|].
  rewrite fq_run_cons in *; cbn [fst snd] in *.
  destruct (fq_step_serial q o Hq) as [S1 S2].
  rewrite starts_app, pulls_app, map_app. rewrite (IH _ S1 Hp). f_equal. apply S2.
  destruct (panicked (fst (fq_step q o))) eqn:E; [|reflexivity].
  (* once panicked, always panicked *)
  exfalso. clear -E Hp. revert Hp. generalize (fst (fq_step q o)) E. clear.
  induction ops as [|o' ops IH]; intros q0 E Hp; [cbn in Hp; congruence|].
  rewrite fq_run_cons in Hp; cbn [fst] in Hp. rewrite (fq_step_panicked q0 o' E) in Hp. cbn [fst] in Hp.
  exact (IH q0 E Hp).
Qed.

Lemma serial_ok_new grps items : serial_ok (fq_new 1 grps items).
Proof.
  split; [apply fq_new_inv|split; [reflexivity|]]. unfold fq_new; cbn [groups]. intros k g Hk.
  apply glookup_new in Hk. destruct Hk as [m ->]. reflexivity.
Qed.

(* ------------------------------------------------------------------ least-free slots, on traces *)

(* the slots in r's context are the least numbers not held by the futures in [held] *)
Definition start_least (held : list rinfo) (r : rinfo) : Prop :=
  least_not_in (r_gslot r) (map r_gslot held) /\
  match r_grp r with
  | Some (k, t) => least_not_in t (group_slots_held k held)
  | None => True
  end.

(* replay of a trace from the set [held] of futures in progress: every start gets least-free
   slots, every completion is of a future in progress *)
Fixpoint trace_least (held : list rinfo) (evs : list event) : Prop :=
  match evs with
  | [] => True
  | EvStart r :: rest => start_least held r /\ trace_least (held ++ [r]) rest
  | EvDone id :: rest =>
      match take_running id held with
      | Some (_, h') => trace_least h' rest
      | None => False
      end
  | _ :: rest => trace_least held rest
  end.

Fixpoint held_after (held : list rinfo) (evs : list event) : list rinfo :=
  match evs with
  | [] => held
  | EvStart r :: rest => held_after (held ++ [r]) rest
  | EvDone id :: rest =>
      match take_running id held with
      | Some (_, h') => held_after h' rest
      | None => held_after held rest
      end
  | _ :: rest => held_after held rest
  end.

Lemma trace_least_app a : forall h b,
  trace_least h a -> trace_least (held_after h a) b -> trace_least h (a ++ b).
Proof.
  induction a as [|e a IH]; intros h b Ha Hb; [exact Hb|].
  destruct e as [it|r|id|]; cbn [app trace_least held_after] in *.
  - apply IH; assumption.
  - destruct Ha as [H1 H2]. split; [exact H1 | apply IH; assumption].
  - destruct (take_running id h) as [[x h']|]; [apply IH; assumption | contradiction].
  - apply IH; assumption.
Qed.

Lemma held_after_app a : forall h b, held_after h (a ++ b) = held_after (held_after h a) b.
Proof.
  induction a as [|e a IH]; intros h b; [reflexivity|].
  destruct e as [it|r|id|]; cbn [app held_after]; try apply IH.
  destruct (take_running id h) as [[x h']|]; apply IH.
Qed.

Lemma start_global_least q it :
  fq_inv q -> start_least (running q) (snd (start_global q it)).
Proof.
  intros (_ & _ & H3 & _). destruct (slot_reserve_spec _ _ H3) as [Hl _].
  unfold start_least, start_global; cbn [snd r_gslot r_grp]. split; [exact Hl | exact I].
Qed.

Lemma start_in_group_least q k g it :
  fq_inv q -> glookup k (groups q) = Some g ->
  start_least (running q) (snd (start_in_group q k g it)).
Proof.
  intros (_ & _ & H3 & H4) Hk. destruct (slot_reserve_spec _ _ H3) as [Hl _].
  destruct (H4 k g Hk) as (_ & _ & G3). destruct (slot_reserve_spec _ _ G3) as [Hgl _].
  unfold start_least, start_in_group; cbn [snd r_gslot r_grp]. split; assumption.
Qed.

Lemma set_queue_running q k l : running (set_queue q k l) = running q.
Proof. unfold set_queue. destruct (glookup k (groups q)); reflexivity. Qed.

Lemma fill_loop_least l : forall q, fq_inv q ->
  trace_least (running q) (snd (fill_loop l q)) /\
  held_after (running q) (snd (fill_loop l q)) = running (fst (fill_loop l q)).
Proof.
  induction l as [|it rest IH]; intros q Hq; cbn [fill_loop].
  - split; [exact I | reflexivity].
  - destruct (has_space (gcur q) (gmax q) (it_w it)) eqn:Hs; [|split; [exact I | reflexivity]].
    destruct (it_grp it) as [k|].
    + destruct (glookup k (groups q)) as [g|] eqn:Hk; [|split; [exact I | reflexivity]].
      destruct (has_space (g_cur g) (g_max g) (it_w it)) eqn:Hsg; cbn [fst snd trace_least held_after].
      * destruct (IH _ (start_in_group_inv q k g it Hq Hk Hs Hsg)) as [H1 H2].
        split; [split; [apply start_in_group_least; assumption | exact H1] | exact H2].
      * apply (IH _ (enqueue_inv q k g it Hq Hk)).
    + cbn [fst snd trace_least held_after].
      destruct (IH _ (start_global_inv q it Hq Hs)) as [H1 H2].
      split; [split; [apply start_global_least; assumption | exact H1] | exact H2].
Qed.

Lemma drain_loop_least k queue : forall q, fq_inv q ->
  trace_least (running q) (snd (drain_loop k queue q)) /\
  held_after (running q) (snd (drain_loop k queue q)) = running (fst (drain_loop k queue q)).
Proof.
  induction queue as [|it rest IH]; intros q Hq; cbn [drain_loop].
  - split; [exact I | symmetry; apply set_queue_running].
  - destruct (glookup k (groups q)) as [g|] eqn:Hk; [|split; [exact I | reflexivity]].
    destruct (has_space (gcur q) (gmax q) (it_w it)) eqn:Hs; cbn [andb];
      [|split; [exact I | symmetry; apply set_queue_running]].
    destruct (has_space (g_cur g) (g_max g) (it_w it)) eqn:Hsg;
      [|split; [exact I | symmetry; apply set_queue_running]].
    cbn [fst snd trace_least held_after].
    destruct (IH _ (start_in_group_inv q k g it Hq Hk Hs Hsg)) as [H1 H2].
    split; [split; [apply start_in_group_least; assumption | exact H1] | exact H2].
Qed.

Lemma fq_step_least q o : fq_inv q ->
  trace_least (running q) (snd (fq_step q o)) /\
  held_after (running q) (snd (fq_step q o)) = running (fst (fq_step q o)).
Proof.
  intros Hq.
  assert (Hfill : forall q0, fq_inv q0 ->
            trace_least (running q0) (snd (fq_fill q0)) /\
            held_after (running q0) (snd (fq_fill q0)) = running (fst (fq_fill q0))).
  { intros q0 H0. unfold fq_fill. destruct (panicked q0); [split; [exact I|reflexivity]|].
    apply fill_loop_least; exact H0. }
  assert (Hpop : forall id res, fq_pop q id = Some res ->
            trace_least (running q) (snd res) /\ held_after (running q) (snd res) = running (fst res)).
  { intros id res. unfold fq_pop. destruct (panicked q); [discriminate|].
    destruct (take_running id (running q)) as [[r rest]|] eqn:Et; [|discriminate].
    destruct (take_running_spec _ _ _ _ Et) as (l1 & l2 & Hrun & Hrest & _).
    assert (Hrel : fq_inv (release q r rest)) by (rewrite Hrest; apply release_inv; assumption).
    destruct (r_grp r) as [[k t]|].
    - destruct (glookup k (groups (release q r rest))) as [g|].
      + intros H; injection H as <-. cbn [fst snd trace_least held_after]. rewrite Et.
        apply (drain_loop_least k (g_queue g) _ Hrel).
      + intros H; injection H as <-. cbn [fst snd trace_least held_after]. rewrite Et. split; [exact I|reflexivity].
    - intros H; injection H as <-. cbn [fst snd trace_least held_after]. rewrite Et. split; [exact I|reflexivity]. }
  destruct o as [|id|id]; cbn [fq_step].
  - apply Hfill; exact Hq.
  - destruct (fq_pop q id) as [res|] eqn:E; [|split; [exact I|reflexivity]].
    destruct (Hpop id res E) as [P1 P2].
    destruct (Hfill (fst res) (fq_pop_inv q id res Hq E)) as [F1 F2].
    cbn [fst snd]. split.
    + apply trace_least_app; [exact P1 | rewrite P2; exact F1].
    + rewrite held_after_app, P2; exact F2.
  - destruct (fq_pop q id) as [res|] eqn:E; [|split; [exact I|reflexivity]].
    apply (Hpop id res E).
Qed.

Lemma fq_run_least ops : forall q, fq_inv q ->
  trace_least (running q) (snd (fq_run q ops)) /\
  held_after (running q) (snd (fq_run q ops)) = running (fst (fq_run q ops)).
Proof.
  induction ops as [|o ops IH]; intros q Hq; [split; [exact I|reflexivity]|].
  rewrite fq_run_cons; cbn [fst snd].
  destruct (fq_step_least q o Hq) as [S1 S2].
  destruct (IH _ (fq_step_inv q o Hq)) as [R1 R2]. split.
  - apply trace_least_app; [exact S1 | rewrite S2; exact R1].
  - rewrite held_after_app, S2; exact R2.
Qed.

(* ------------------------------------------------------------------ statements for C14 *)

Lemma c14_unique gm grps items ops :
  let q := fst (fq_run (fq_new gm grps items) ops) in
  NoDup (map r_gslot (running q)) /\
  forall k m, assoc_first k grps = Some m -> NoDup (group_slots_held k (running q)).
Proof.
  intros q. destruct (reachable_inv gm grps items ops) as (_ & _ & H3 & H4). fold q in H3, H4.
  split; [apply H3|]. intros k m Hk.
  destruct (c08_group_inv gm grps items ops k m Hk) as (g & Hg & _). fold q in Hg.
  destruct (H4 k g Hg) as (_ & _ & G3). apply G3.
Qed.

(* two distinct positions of the running list never share a global slot; nor a group slot when
   they belong to the same group *)
Lemma c14_unique_pairwise gm grps items ops i j ri rj :
  let q := fst (fq_run (fq_new gm grps items) ops) in
  i <> j -> nth_error (running q) i = Some ri -> nth_error (running q) j = Some rj ->
  r_gslot ri <> r_gslot rj.
Proof.
  intros q Hij Hi Hj Heq. destruct (c14_unique gm grps items ops) as [Hnd _]. fold q in Hnd.
  apply Hij. apply (proj1 (NoDup_nth_error _) Hnd i j).
  - apply nth_error_Some. rewrite nth_error_map, Hi. discriminate.
  - rewrite !nth_error_map, Hi, Hj. cbn. congruence.
Qed.

Lemma c14_least_free_trace gm grps items ops :
  trace_least [] (snd (fq_run (fq_new gm grps items) ops)).
Proof. exact (proj1 (fq_run_least ops (fq_new gm grps items) (fq_new_inv gm grps items))). Qed.

Lemma c14_slot_partition gm grps items ops :
  let q := fst (fq_run (fq_new gm grps items) ops) in
  slots_ok (gslots q) (map r_gslot (running q)) /\
  forall k g, glookup k (groups q) = Some g -> slots_ok (g_slots g) (group_slots_held k (running q)).
Proof.
  intros q. destruct (reachable_inv gm grps items ops) as (_ & _ & H3 & H4). fold q in H3, H4.
  split; [exact H3|]. intros k g Hk. apply (H4 k g Hk).
Qed.

Lemma reachable_bounded gm grps items ops :
  1 <= gm -> Forall (fun kg => 1 <= snd kg) grps -> Forall wpos items ->
  fq_bounded (fst (fq_run (fq_new gm grps items) ops)).
Proof.
  intros H1 H2 H3. apply (fq_run_pres fq_bounded).
  - intros; apply fq_bounded_step; assumption.
  - apply fq_bounded_new; assumption.
Qed.

Lemma c14_bounded gm grps items ops r :
  1 <= gm -> Forall (fun kg : N * N => 1 <= snd kg) grps -> Forall wpos items ->
  In r (running (fst (fq_run (fq_new gm grps items) ops))) ->
  r_gslot r < gm /\
  forall k t m, r_grp r = Some (k, t) -> assoc_first k grps = Some m -> t < m.
Proof.
  intros H1 H2 H3 Hin.
  pose proof (reachable_bounded gm grps items ops H1 H2 H3) as Hb.
  destruct (fq_bounded_slots _ r Hb Hin) as [B1 B2].
  destruct (reachable_limits gm grps items ops) as (L1 & _).
  split; [rewrite <- L1; exact B1|].
  intros k t m Hr Hk. destruct (c08_group_inv gm grps items ops k m Hk) as (g & Hg & Hm & _).
  rewrite <- Hm. eapply B2; eassumption.
Qed.

(* ------------------------------------------------------------------ a future keeps its context *)

Lemma take_running_keeps id h x h' r :
  take_running id h = Some (x, h') -> In r h -> it_id (r_item r) <> id -> In r h'.
Proof.
  intros Ht Hin Hne. destruct (take_running_spec _ _ _ _ Ht) as (l1 & l2 & -> & -> & Hid).
  apply in_app_or in Hin. apply in_or_app. destruct Hin as [H|[<-|H]]; auto. congruence.
Qed.

Lemma held_after_keeps r evs : forall h,
  In r h -> (forall id, In (EvDone id) evs -> it_id (r_item r) <> id) -> In r (held_after h evs).
Proof.
  induction evs as [|e evs IH]; intros h Hin Hd; [exact Hin|].
  assert (Hd' : forall id, In (EvDone id) evs -> it_id (r_item r) <> id)
    by (intros id H; apply Hd; right; exact H).
  destruct e as [it|x|id|]; cbn [held_after].
  - apply IH; assumption.
  - apply IH; [apply in_or_app; left; exact Hin | exact Hd'].
  - destruct (take_running id h) as [[x h']|] eqn:Et; [|apply IH; assumption].
    apply IH; [|exact Hd']. eapply take_running_keeps; [exact Et | exact Hin|].
    apply Hd. left; reflexivity.
  - apply IH; assumption.
Qed.

Lemma fill_loop_no_done l : forall q id, ~ In (EvDone id) (snd (fill_loop l q)).
Proof.
  induction l as [|it rest IH]; intros q id; cbn [fill_loop]; [intros []|].
  destruct (has_space (gcur q) (gmax q) (it_w it)); [|intros []].
  destruct (it_grp it) as [k|].
  - destruct (glookup k (groups q)) as [g|]; [|cbn; intros [H|[H|[]]]; discriminate].
    destruct (has_space (g_cur g) (g_max g) (it_w it)); cbn [snd In].
    + intros [H|[H|H]]; [discriminate|discriminate|exact (IH _ _ H)].
    + intros [H|H]; [discriminate|exact (IH _ _ H)].
  - cbn [snd In]. intros [H|[H|H]]; [discriminate|discriminate|exact (IH _ _ H)].
Qed.

Lemma drain_loop_no_done k queue : forall q id, ~ In (EvDone id) (snd (drain_loop k queue q)).
Proof.
  induction queue as [|it rest IH]; intros q id; cbn [drain_loop]; [intros []|].
  destruct (glookup k (groups q)) as [g|]; [|intros []].
  destruct (has_space (gcur q) (gmax q) (it_w it) && has_space (g_cur g) (g_max g) (it_w it)); [|intros []].
  cbn [snd In]. intros [H|H]; [discriminate|exact (IH _ _ H)].
Qed.

Lemma fq_step_dones q o id :
  In (EvDone id) (snd (fq_step q o)) -> o = OpComplete id \/ o = OpCompleteNoFill id.
Proof.
  assert (Hfill : forall q0, ~ In (EvDone id) (snd (fq_fill q0))).
  { intros q0. unfold fq_fill. destruct (panicked q0); [intros []|apply fill_loop_no_done]. }
  assert (Hpop : forall id0 res, fq_pop q id0 = Some res -> In (EvDone id) (snd res) -> id = id0).
  { intros id0 res. unfold fq_pop. destruct (panicked q); [discriminate|].
    destruct (take_running id0 (running q)) as [[r rest]|]; [|discriminate].
    destruct (r_grp r) as [[k t]|].
    - destruct (glookup k (groups (release q r rest))) as [g|].
      + intros H; injection H as <-. cbn [snd In]. intros [H|H]; [congruence|].
        exfalso. exact (drain_loop_no_done _ _ _ _ H).
      + intros H; injection H as <-. cbn. intros [H|[]]; congruence.
    - intros H; injection H as <-. cbn. intros [H|[]]; congruence. }
  destruct o as [|id0|id0]; cbn [fq_step].
  - intros H. exfalso. exact (Hfill _ H).
  - destruct (fq_pop q id0) as [res|] eqn:E; [|intros []]. cbn [snd]. intros H.
    apply in_app_or in H. destruct H as [H|H]; [|exfalso; exact (Hfill _ H)].
    left. f_equal. symmetry. eapply Hpop; eauto.
  - destruct (fq_pop q id0) as [res|] eqn:E; [|intros []]. intros H.
    right. f_equal. symmetry. eapply Hpop; eauto.
Qed.

(* a future in progress keeps its slots (the same rinfo stays in the running list) under every
   operation that is not its own completion *)
Lemma c14_stable_while_running q o r :
  fq_inv q -> In r (running q) ->
  o <> OpComplete (it_id (r_item r)) -> o <> OpCompleteNoFill (it_id (r_item r)) ->
  In r (running (fst (fq_step q o))).
Proof.
  intros Hq Hin H1 H2. rewrite <- (proj2 (fq_step_least q o Hq)).
  apply held_after_keeps; [exact Hin|]. intros id Hd Heq.
  destruct (fq_step_dones q o id Hd) as [->| ->]; congruence.
Qed.

(* ------------------------------------------------------------------ liveness (C02 / F7) *)

(* a complete run: fill, then the given futures complete one after the other *)
Definition complete_run (gm : N) (grps : list (N * N)) (items : list item) (ids : list N) : fq :=
  fst (fq_run (fq_new gm grps items) (OpFill :: map OpComplete ids)).

(* if every started future has completed (and the queue did not panic), nothing is left
   unstarted *)
Definition all_started (gm : N) (grps : list (N * N)) (items : list item) (ids : list N) : Prop :=
  running (complete_run gm grps items ids) = [] ->
  panicked (complete_run gm grps items ids) = false ->
  unstarted (complete_run gm grps items ids) = [].

(* ------------------------------------------------------------------ liveness outside F7's class *)

(* the class predicate of F7, computable: every two members of one group have the same weight *)
Definition uniform_b (items : list item) : bool :=
  forallb (fun a => forallb (fun b =>
    match it_grp a, it_grp b with
    | Some k, Some k' => negb (k =? k') || (it_w a =? it_w b)
    | _, _ => true
    end) items) items.

Lemma uniform_b_spec items a b k :
  uniform_b items = true -> In a items -> In b items ->
  it_grp a = Some k -> it_grp b = Some k -> it_w a = it_w b.
Proof.
  unfold uniform_b. intros H Ha Hb Ga Gb.
  rewrite forallb_forall in H. specialize (H a Ha). rewrite forallb_forall in H. specialize (H b Hb).
  rewrite Ga, Gb, N.eqb_refl in H. cbn in H. apply N.eqb_eq. exact H.
Qed.

Lemma gupdate_forall_k (Q : N -> grp -> Prop) k g g' gs :
  glookup k gs = Some g -> Q k g' ->
  (forall k' g0, glookup k' gs = Some g0 -> Q k' g0) ->
  forall k' g1, glookup k' (gupdate k g' gs) = Some g1 -> Q k' g1.
Proof.
  intros Hk Hg' Hall k' g1 H. destruct (N.eq_dec k' k) as [->|Hne].
  - rewrite (glookup_gupdate_same _ _ _ _ Hk) in H. injection H as <-. exact Hg'.
  - rewrite glookup_gupdate_other in H by exact Hne. eapply Hall; exact H.
Qed.

Lemma lookup_gupdate_cases k g g' gs k' g1 :
  glookup k gs = Some g -> glookup k' (gupdate k g' gs) = Some g1 ->
  (k' = k /\ g1 = g') \/ (k' <> k /\ glookup k' gs = Some g1).
Proof.
  intros Hk H. destruct (N.eq_dec k' k) as [->|Hne].
  - rewrite (glookup_gupdate_same _ _ _ _ Hk) in H. injection H as <-. left; auto.
  - rewrite glookup_gupdate_other in H by exact Hne. right; auto.
Qed.

Lemma set_queue_lookup q k l k' g1 :
  glookup k' (groups (set_queue q k l)) = Some g1 ->
  (k' = k /\ g_queue g1 = l) \/ (k' <> k /\ glookup k' (groups q) = Some g1).
Proof.
  unfold set_queue. destruct (glookup k (groups q)) as [g|] eqn:Hk.
  - unfold set_groups; cbn [groups]. intros H.
    destruct (lookup_gupdate_cases _ _ _ _ _ _ Hk H) as [[-> ->]|[Hne Hl]]; [left; auto | right; auto].
  - intros H. destruct (N.eq_dec k' k) as [->|Hne]; [congruence | right; auto].
Qed.

Lemma release_lookup q r rest k' g1 :
  glookup k' (groups (release q r rest)) = Some g1 ->
  exists g0, glookup k' (groups q) = Some g0 /\ g_queue g0 = g_queue g1.
Proof.
  unfold release; cbn [groups]. destruct (r_grp r) as [[k t]|]; [|intros H; exists g1; auto].
  destruct (glookup k (groups q)) as [g|] eqn:Hk; [|intros H; exists g1; auto].
  intros H. destruct (lookup_gupdate_cases _ _ _ _ _ _ Hk H) as [[-> ->]|[Hne Hl]].
  - exists g. auto.
  - exists g1. auto.
Qed.

Lemma group_load_pos_member k gm rs :
  0 < group_load k gm rs -> exists r, In r rs /\ in_group k r = true.
Proof.
  induction rs as [|a rs IH]; [cbn; lia|].
  rewrite group_load_cons, group_load_one. destruct (in_group k a) eqn:E.
  - intros _. exists a. split; [left; reflexivity | exact E].
  - intros H. destruct IH as (r & Hin & Hr); [lia|]. exists r. split; [right; exact Hin | exact Hr].
Qed.

Lemma gupdate_keys k g gs : map fst (gupdate k g gs) = map fst gs.
Proof.
  induction gs as [|[k1 g1] gs IH]; [reflexivity|]. cbn [gupdate].
  destruct (k =? k1); cbn [map fst]; [reflexivity | rewrite IH; reflexivity].
Qed.

Lemma In_glookup_NoDup k g gs : NoDup (map fst gs) -> In (k, g) gs -> glookup k gs = Some g.
Proof.
  induction gs as [|[k1 g1] gs IH]; [intros _ []|]. cbn [map fst glookup]. intros Hnd Hin.
  inversion Hnd as [|? ? Hnot Hnd']; subst. destruct Hin as [E|Hin].
  - injection E as -> ->. rewrite N.eqb_refl. reflexivity.
  - destruct (N.eqb_spec k k1) as [->|Hne]; [|apply IH; assumption].
    exfalso. apply Hnot. apply in_map_iff. exists (k1, g). auto.
Qed.

Definition keys_are (ks : list N) (q : fq) : Prop := map fst (groups q) = ks.

Lemma keys_step ks q o : keys_are ks q -> keys_are ks (fst (fq_step q o)).
Proof.
  apply (fq_step_pres (fun _ => True) (keys_are ks)); try (intros; apply Forall_True).
  - intros q0 it H _ _. exact H.
  - intros q0 k g it H _ _ _ _. unfold keys_are, start_in_group; cbn [fst groups]. rewrite gupdate_keys. exact H.
  - intros q0 k g it H _ _ _ _. unfold keys_are, enqueue, set_groups; cbn [groups]. rewrite gupdate_keys. exact H.
  - intros q0 k l H _. unfold keys_are, set_queue. destruct (glookup k (groups q0)); [|exact H].
    unfold set_groups; cbn [groups]. rewrite gupdate_keys. exact H.
  - intros q0 l H _. exact H.
  - intros q0 H. exact H.
  - intros q0 r l1 l2 H _. unfold keys_are, release; cbn [groups].
    destruct (r_grp r) as [[k t]|]; [|exact H]. destruct (glookup k (groups q0)); [|exact H].
    rewrite gupdate_keys. exact H.
Qed.

Lemma flat_map_nil {A B} (f : A -> list B) l : (forall x, In x l -> f x = []) -> flat_map f l = [].
Proof.
  induction l as [|a l IH]; [reflexivity|]. intros H. cbn [flat_map].
  rewrite (H a (or_introl eq_refl)), IH; [reflexivity|]. intros x Hx. apply H. right; exact Hx.
Qed.

(* the source stream has been drained as far as the global limit allows *)
Definition filled (q : fq) : Prop :=
  panicked q = true \/ pending q = [] \/
  exists it rest, pending q = it :: rest /\ has_space (gcur q) (gmax q) (it_w it) = false.

Lemma fill_loop_filled l : forall q, filled (fst (fill_loop l q)).
Proof.
  induction l as [|it rest IH]; intros q; cbn [fill_loop].
  - right; left; reflexivity.
  - destruct (has_space (gcur q) (gmax q) (it_w it)) eqn:Hs.
    + destruct (it_grp it) as [k|].
      * destruct (glookup k (groups q)) as [g|]; [|left; reflexivity].
        destruct (has_space (g_cur g) (g_max g) (it_w it)); cbn [fst]; apply IH.
      * cbn [fst]. apply IH.
    + right; right. exists it, rest. split; [reflexivity | exact Hs].
Qed.

Lemma fq_fill_filled q : filled (fst (fq_fill q)).
Proof.
  unfold fq_fill. destruct (panicked q) eqn:E; [left; exact E | apply fill_loop_filled].
Qed.

Lemma run_completes_filled ids : forall q,
  filled q -> filled (fst (fq_run q (map OpComplete ids))).
Proof.
  induction ids as [|id ids IH]; intros q Hq; [exact Hq|].
  cbn [map]. rewrite fq_run_cons; cbn [fst]. apply IH. cbn [fq_step].
  destruct (fq_pop q id) as [res|]; [cbn [fst]; apply fq_fill_filled | exact Hq].
Qed.

Section Live.
  Variable items : list item.
  Hypothesis Hu : uniform_b items = true.

  Let Pi (it : item) : Prop := In it items.

  Definition Jp (q : fq) : Prop :=
    fq_inv q /\ fq_prov Pi q /\
    (forall k g, glookup k (groups q) = Some g -> Forall (fun it => it_grp it = Some k) (g_queue g)) /\
    (forall r k t, In r (running q) -> r_grp r = Some (k, t) -> it_grp (r_item r) = Some k).

  (* a group whose queue is not empty has a member in progress *)
  Definition J5 (q : fq) (k : N) : Prop :=
    forall g, glookup k (groups q) = Some g -> g_queue g <> [] ->
    exists r, In r (running q) /\ in_group k r = true.

  Definition J (q : fq) : Prop := Jp q /\ forall k, J5 q k.

  Lemma Jp_set_pending q l : Jp q -> Forall Pi l -> Jp (set_pending q l).
  Proof.
    intros (Hi & (Hp & Hr & Hq) & H3 & H4) Hl.
    split; [exact Hi|split; [split; [exact Hl|split; assumption]|split; assumption]].
  Qed.

  Lemma Jp_start_global q it :
    Jp q -> Pi it -> has_space (gcur q) (gmax q) (it_w it) = true -> Jp (fst (start_global q it)).
  Proof.
    intros (Hi & (Hp & Hr & Hq) & H3 & H4) Hit Hs.
    split; [apply start_global_inv; assumption|split; [|split]].
    - split; [exact Hp|split; [|exact Hq]].
      unfold start_global; cbn [fst running]. rewrite map_app. apply Forall_app_single; assumption.
    - exact H3.
    - unfold start_global; cbn [fst running]. intros r k t Hin Hr'.
      apply in_app_or in Hin. destruct Hin as [Hin|[<-|[]]]; [eapply H4; eassumption | discriminate].
  Qed.

  Lemma Jp_start_in_group q k g it :
    Jp q -> Pi it -> it_grp it = Some k -> glookup k (groups q) = Some g ->
    has_space (gcur q) (gmax q) (it_w it) = true ->
    has_space (g_cur g) (g_max g) (it_w it) = true ->
    Jp (fst (start_in_group q k g it)).
  Proof.
    intros (Hi & (Hp & Hr & Hq) & H3 & H4) Hit Hg Hk Hs Hsg.
    split; [apply start_in_group_inv; assumption|split; [|split]].
    - split; [exact Hp|split].
      + unfold start_in_group; cbn [fst running]. rewrite map_app. apply Forall_app_single; assumption.
      + unfold start_in_group; cbn [fst groups].
        apply (gupdate_forall (fun g => Forall Pi (g_queue g)) k g _ _ Hk); [|exact Hq].
        cbn [g_queue]. apply (Hq k g Hk).
    - unfold start_in_group; cbn [fst groups].
      apply (gupdate_forall_k (fun k g => Forall (fun it => it_grp it = Some k) (g_queue g)) k g _ _ Hk);
        [|exact H3]. cbn [g_queue]. apply (H3 k g Hk).
    - unfold start_in_group; cbn [fst running]. intros r k' t Hin Hr'.
      apply in_app_or in Hin. destruct Hin as [Hin|[<-|[]]]; [eapply H4; eassumption|].
      cbn [r_grp r_item] in *. injection Hr' as <- _. exact Hg.
  Qed.

  Lemma Jp_enqueue q k g it :
    Jp q -> Pi it -> it_grp it = Some k -> glookup k (groups q) = Some g -> Jp (enqueue q k g it).
  Proof.
    intros (Hi & (Hp & Hr & Hq) & H3 & H4) Hit Hg Hk.
    split; [apply enqueue_inv; assumption|split; [|split]].
    - split; [exact Hp|split; [exact Hr|]]. unfold enqueue, set_groups; cbn [groups].
      apply (gupdate_forall (fun g => Forall Pi (g_queue g)) k g _ _ Hk); [|exact Hq].
      cbn [g_queue]. apply Forall_app_single; [apply (Hq k g Hk) | exact Hit].
    - unfold enqueue, set_groups; cbn [groups].
      apply (gupdate_forall_k (fun k g => Forall (fun it => it_grp it = Some k) (g_queue g)) k g _ _ Hk);
        [|exact H3]. cbn [g_queue]. apply Forall_app_single; [apply (H3 k g Hk) | exact Hg].
    - exact H4.
  Qed.

  Lemma Jp_set_queue q k l :
    Jp q -> Forall Pi l -> Forall (fun it => it_grp it = Some k) l -> Jp (set_queue q k l).
  Proof.
    intros (Hi & (Hp & Hr & Hq) & H3 & H4) Hl Hlk.
    split; [apply set_queue_inv; exact Hi|]. unfold set_queue.
    destruct (glookup k (groups q)) as [g|] eqn:Hk;
      [|split; [split; [|split]; assumption|split; assumption]].
    split; [|split].
    - split; [exact Hp|split; [exact Hr|]]. unfold set_groups; cbn [groups].
      apply (gupdate_forall (fun g => Forall Pi (g_queue g)) k g _ _ Hk); [exact Hl | exact Hq].
    - unfold set_groups; cbn [groups].
      apply (gupdate_forall_k (fun k g => Forall (fun it => it_grp it = Some k) (g_queue g)) k g _ _ Hk);
        [exact Hlk | exact H3].
    - exact H4.
  Qed.

  Lemma Jp_release q r l1 l2 :
    Jp q -> running q = l1 ++ r :: l2 -> Jp (release q r (l1 ++ l2)).
  Proof.
    intros (Hi & (Hp & Hr & Hq) & H3 & H4) Hrun.
    split; [apply release_inv; assumption|split; [|split]].
    - split; [exact Hp|split].
      + unfold release; cbn [running]. rewrite Hrun in Hr. rewrite map_app in *. cbn [map] in Hr.
        apply Forall_app in Hr. destruct Hr as [Ha Hb]. apply Forall_app. split; [exact Ha|].
        exact (Forall_inv_tail Hb).
      + unfold release; cbn [groups]. destruct (r_grp r) as [[k t]|]; [|exact Hq].
        destruct (glookup k (groups q)) as [g|] eqn:Hk; [|exact Hq].
        apply (gupdate_forall (fun g => Forall Pi (g_queue g)) k g _ _ Hk); [|exact Hq].
        cbn [g_queue]. apply (Hq k g Hk).
    - unfold release; cbn [groups]. destruct (r_grp r) as [[k t]|]; [|exact H3].
      destruct (glookup k (groups q)) as [g|] eqn:Hk; [|exact H3].
      apply (gupdate_forall_k (fun k g => Forall (fun it => it_grp it = Some k) (g_queue g)) k g _ _ Hk);
        [|exact H3]. cbn [g_queue]. apply (H3 k g Hk).
    - unfold release; cbn [running]. intros r0 k t Hin. apply H4. rewrite Hrun.
      apply in_app_or in Hin. apply in_or_app. destruct Hin; [left | right; right]; assumption.
  Qed.

  Lemma fill_loop_J l : forall q, Forall Pi l -> J q -> J (fst (fill_loop l q)).
  Proof.
    induction l as [|it rest IH]; intros q Hl [Hjp H5]; cbn [fill_loop].
    - split; [apply Jp_set_pending; [exact Hjp | constructor] | exact H5].
    - pose proof (Forall_inv Hl) as Hit. pose proof (Forall_inv_tail Hl) as Hrest.
      destruct (has_space (gcur q) (gmax q) (it_w it)) eqn:Hs;
        [|split; [apply Jp_set_pending; assumption | exact H5]].
      destruct (it_grp it) as [k|] eqn:Eg.
      + destruct (glookup k (groups q)) as [g|] eqn:Hk;
          [|split; [apply (Jp_set_pending q rest); assumption | exact H5]].
        destruct (has_space (g_cur g) (g_max g) (it_w it)) eqn:Hsg; cbn [fst]; apply IH; try exact Hrest.
        * split; [apply Jp_start_in_group; assumption|].
          intros k' g1 Hk' Hne. unfold start_in_group in *; cbn [fst groups running] in *.
          destruct (lookup_gupdate_cases _ _ _ _ _ _ Hk Hk') as [[-> ->]|[Hd Hlk]].
          -- cbn [g_queue] in Hne. destruct (H5 k g Hk Hne) as (r & Hin & Hr).
             exists r. split; [apply in_or_app; left; exact Hin | exact Hr].
          -- destruct (H5 k' g1 Hlk Hne) as (r & Hin & Hr).
             exists r. split; [apply in_or_app; left; exact Hin | exact Hr].
        * split; [apply Jp_enqueue; assumption|].
          intros k' g1 Hk' Hne. unfold enqueue, set_groups in *; cbn [groups running] in *.
          destruct (lookup_gupdate_cases _ _ _ _ _ _ Hk Hk') as [[-> ->]|[Hd Hlk]].
          -- (* the group is full, so a member is in progress *)
             destruct Hjp as ((_ & _ & _ & Hgrp) & _). destruct (Hgrp k g Hk) as (G1 & G2 & _).
             apply group_load_pos_member with (gm := g_max g). rewrite <- G1.
             unfold has_space, capw in Hsg. apply N.leb_gt in Hsg. lia.
          -- exact (H5 k' g1 Hlk Hne).
      + cbn [fst]. apply IH; [exact Hrest|].
        split; [apply Jp_start_global; assumption|].
        intros k' g1 Hk' Hne. unfold start_global in *; cbn [fst groups running] in *.
        destruct (H5 k' g1 Hk' Hne) as (r & Hin & Hr).
        exists r. split; [apply in_or_app; left; exact Hin | exact Hr].
  Qed.

  Lemma fq_fill_J q : J q -> J (fst (fq_fill q)).
  Proof.
    intros Hq. unfold fq_fill. destruct (panicked q); [exact Hq|].
    apply fill_loop_J; [|exact Hq]. destruct Hq as ((_ & (Hp & _) & _) & _). exact Hp.
  Qed.

  Lemma drain_loop_J k queue : forall q,
    Jp q -> (forall k', k' <> k -> J5 q k') ->
    Forall Pi queue -> Forall (fun it => it_grp it = Some k) queue ->
    (forall it rest, queue = it :: rest ->
       (exists r, In r (running q) /\ in_group k r = true) \/
       (forall g, glookup k (groups q) = Some g ->
          has_space (gcur q) (gmax q) (it_w it) = true /\
          has_space (g_cur g) (g_max g) (it_w it) = true)) ->
    J (fst (drain_loop k queue q)).
  Proof.
    induction queue as [|it rest IH]; intros q Hjp Hoth Hl Hlk Hhead; cbn [drain_loop].
    - cbn [fst]. split; [apply Jp_set_queue; [exact Hjp|constructor|constructor]|].
      intros k' g1 Hk' Hne. destruct (set_queue_lookup _ _ _ _ _ Hk') as [[-> Hq]|[Hd Hlk']].
      + contradiction.
      + rewrite set_queue_running. exact (Hoth k' Hd g1 Hlk' Hne).
    - pose proof (Forall_inv Hl) as Hit. pose proof (Forall_inv_tail Hl) as Hrest.
      pose proof (Forall_inv Hlk) as Hitk. pose proof (Forall_inv_tail Hlk) as Hrestk.
      destruct (glookup k (groups q)) as [g|] eqn:Hk.
      2:{ cbn [fst]. split; [exact Hjp|]. intros k' g1 Hk' Hne. destruct (N.eq_dec k' k) as [->|Hd]; [congruence|].
          exact (Hoth k' Hd g1 Hk' Hne). }
      assert (Hstop : J (set_queue q k (it :: rest)) \/
                      (has_space (gcur q) (gmax q) (it_w it) = true /\
                       has_space (g_cur g) (g_max g) (it_w it) = true)).
      { destruct (has_space (gcur q) (gmax q) (it_w it)) eqn:Hs;
          [destruct (has_space (g_cur g) (g_max g) (it_w it)) eqn:Hsg; [right; auto|]|];
          left; (split; [apply Jp_set_queue; assumption|]);
          intros k' g1 Hk' Hne; destruct (set_queue_lookup _ _ _ _ _ Hk') as [[-> Hq]|[Hd Hlk']];
          try (rewrite set_queue_running; exact (Hoth k' Hd g1 Hlk' Hne));
          rewrite set_queue_running;
          (destruct (Hhead it rest eq_refl) as [Hm|Hf]; [exact Hm|]);
          destruct (Hf g eq_refl) as [F1 F2]; congruence. }
      destruct (has_space (gcur q) (gmax q) (it_w it)) eqn:Hs; cbn [andb].
      + destruct (has_space (g_cur g) (g_max g) (it_w it)) eqn:Hsg.
        * cbn [fst]. apply IH; try assumption.
          -- apply Jp_start_in_group; assumption.
          -- intros k' Hd g1 Hk' Hne. unfold start_in_group in *; cbn [fst groups running] in *.
             rewrite glookup_gupdate_other in Hk' by exact Hd.
             destruct (Hoth k' Hd g1 Hk' Hne) as (r & Hin & Hr).
             exists r. split; [apply in_or_app; left; exact Hin | exact Hr].
          -- intros it' rest' _. left. unfold start_in_group; cbn [fst running].
             eexists. split; [apply in_or_app; right; left; reflexivity|].
             unfold in_group; cbn [r_grp]. apply N.eqb_refl.
        * destruct Hstop as [Hj|[_ F2]]; [exact Hj | congruence].
      + destruct Hstop as [Hj|[F1 _]]; [exact Hj | congruence].
  Qed.

  Lemma J5_release_other q r l1 l2 k' :
    J5 q k' -> in_group k' r = false -> running q = l1 ++ r :: l2 ->
    J5 (release q r (l1 ++ l2)) k'.
  Proof.
    intros H5 Hr Hrun g1 Hk1 Hne.
    destruct (release_lookup _ _ _ _ _ Hk1) as (g0 & Hk0 & Hq). rewrite <- Hq in Hne.
    destruct (H5 g0 Hk0 Hne) as (r0 & Hin & Hr0). exists r0. split; [|exact Hr0].
    unfold release; cbn [running]. rewrite Hrun in Hin.
    apply in_app_or in Hin. apply in_or_app. destruct Hin as [H|[<-|H]]; auto. congruence.
  Qed.

  Lemma fq_pop_J q id res : J q -> fq_pop q id = Some res -> J (fst res).
  Proof.
    intros [Hjp H5]. unfold fq_pop. destruct (panicked q); [discriminate|].
    destruct (take_running id (running q)) as [[r rest]|] eqn:Et; [|discriminate].
    destruct (take_running_spec _ _ _ _ Et) as (l1 & l2 & Hrun & -> & _).
    pose proof (Jp_release q r l1 l2 Hjp Hrun) as Hrel.
    destruct (r_grp r) as [[k t]|] eqn:Er.
    - assert (Hoth : forall k', k' <> k -> J5 (release q r (l1 ++ l2)) k').
      { intros k' Hd. apply J5_release_other; [apply H5| |exact Hrun].
        unfold in_group. rewrite Er. apply N.eqb_neq. exact Hd. }
      destruct (glookup k (groups (release q r (l1 ++ l2)))) as [g1|] eqn:Hk1.
      + intros H; injection H as <-. cbn [fst].
        destruct Hrel as (Hi1 & (Hp1 & Hr1 & Hq1) & H31 & H41) eqn:Erel. clear Erel.
        apply drain_loop_J.
        * split; [exact Hi1|split; [split; [exact Hp1|split; assumption]|split; assumption]].
        * exact Hoth.
        * apply (Hq1 k g1 Hk1).
        * apply (H31 k g1 Hk1).
        * intros it rest Hqueue. right. intros g Hg. rewrite Hk1 in Hg. injection Hg as <-.
          (* the group data before the release *)
          destruct Hjp as ((C1 & C2 & _ & Cg) & (_ & Prun & Pq) & J3 & J4).
          unfold release in Hk1; cbn [groups] in Hk1. rewrite Er in Hk1.
          destruct (glookup k (groups q)) as [g0|] eqn:Hk0; [|congruence].
          rewrite (glookup_gupdate_same _ _ _ _ Hk0) in Hk1. injection Hk1 as <-.
          cbn [g_queue] in Hqueue. cbn [g_cur g_max].
          destruct (Cg k g0 Hk0) as (_ & G2 & _).
          assert (Hin_r : In r (running q)) by (rewrite Hrun; apply in_or_app; right; left; reflexivity).
          assert (Hw : it_w it = it_w (r_item r)).
          { apply (uniform_b_spec items it (r_item r) k Hu).
            - pose proof (Pq k g0 Hk0) as F. rewrite Hqueue in F. exact (Forall_inv F).
            - rewrite Forall_forall in Prun. apply Prun. apply in_map. exact Hin_r.
            - pose proof (J3 k g0 Hk0) as F. rewrite Hqueue in F. exact (Forall_inv F).
            - exact (J4 r k t Hin_r Er). }
          unfold release; cbn [gcur gmax]. rewrite Hw. unfold has_space.
          split; apply N.leb_le; lia.
      + intros H; injection H as <-. cbn [fst]. split; [exact Hrel|].
        intros k' g1 Hk' Hne. destruct (N.eq_dec k' k) as [->|Hd]; [congruence|].
        exact (Hoth k' Hd g1 Hk' Hne).
    - intros H; injection H as <-. cbn [fst]. split; [exact Hrel|].
      intros k'. apply J5_release_other; [apply H5| |exact Hrun]. unfold in_group. rewrite Er. reflexivity.
  Qed.

  Lemma fq_step_J q o : J q -> J (fst (fq_step q o)).
  Proof.
    intros Hq. destruct o as [|id|id]; cbn [fq_step].
    - apply fq_fill_J; exact Hq.
    - destruct (fq_pop q id) as [res|] eqn:E; [|exact Hq]. cbn [fst].
      apply fq_fill_J. eapply fq_pop_J; eassumption.
    - destruct (fq_pop q id) as [res|] eqn:E; [|exact Hq]. eapply fq_pop_J; eassumption.
  Qed.

  Lemma J_new gm grps : J (fq_new gm grps items).
  Proof.
    split; [split; [apply fq_new_inv|split; [|split]]|].
    - apply fq_prov_new. apply Forall_forall. intros x Hx; exact Hx.
    - unfold fq_new; cbn [groups]. intros k g Hk. apply glookup_new in Hk. destruct Hk as [m ->]. constructor.
    - intros r k t [].
    - unfold fq_new; cbn [groups]. intros k g Hk Hne. apply glookup_new in Hk. destruct Hk as [m ->].
      exfalso; apply Hne; reflexivity.
  Qed.

  (* outside F7's class every complete run starts every item *)
  Lemma all_started_uniform gm grps ids :
    NoDup (map fst grps) -> all_started gm grps items ids.
  Proof.
    intros Hnd. unfold all_started, complete_run.
    set (q := fst (fq_run (fq_new gm grps items) (OpFill :: map OpComplete ids))).
    intros Hrun Hpan.
    assert (HJ : J q) by (apply (fq_run_pres J fq_step_J), J_new).
    assert (HF : filled q).
    { unfold q. rewrite fq_run_cons; cbn [fst]. apply run_completes_filled. cbn [fq_step]. apply fq_fill_filled. }
    assert (HK : keys_are (map fst grps) q).
    { apply (fq_run_pres (keys_are (map fst grps))); [intros; apply keys_step; assumption|].
      unfold keys_are, fq_new; cbn [groups]. rewrite map_map. cbn [fst]. reflexivity. }
    destruct HJ as [(Hi & _) H5]. unfold unstarted.
    assert (Hpend : pending q = []).
    { destruct HF as [Hp|[Hp|(it & rest & Hp & Hs)]]; [congruence | exact Hp|].
      destruct Hi as (C1 & _). rewrite Hrun in C1. cbn in C1.
      unfold has_space in Hs. rewrite C1 in Hs. apply N.leb_gt in Hs. lia. }
    rewrite Hpend. cbn [app]. unfold queued_items. apply flat_map_nil. intros [k g] Hin. cbn [snd].
    destruct (g_queue g) as [|it rest] eqn:Eq; [reflexivity|]. exfalso.
    assert (Hk : glookup k (groups q) = Some g).
    { apply In_glookup_NoDup; [rewrite HK; exact Hnd | exact Hin]. }
    destruct (H5 k g Hk) as (r & Hr & _); [rewrite Eq; discriminate|]. rewrite Hrun in Hr. exact Hr.
  Qed.
End Live.
