(* Specifications of the string primitives of Base/Str.v used by the name filters. *)
From NextestModel Require Import Base.Str Base.Tac.
Open Scope N_scope.

Lemma str_eqb_eq (a b : str) : str_eqb a b = true <-> a = b.
Proof.
  revert b. induction a as [|x a IH]; intros [|y b]; cbn [str_eqb]; split; intros H;
    try reflexivity; try discriminate.
  - apply andb_true_iff in H as [H1 H2]. apply N.eqb_eq in H1. apply IH in H2. congruence.
  - injection H as -> ->. rewrite N.eqb_refl. cbn. apply IH. reflexivity.
Qed.

Lemma str_eqb_refl (a : str) : str_eqb a a = true.
Proof. apply str_eqb_eq. reflexivity. Qed.

Lemma str_eqb_neq (a b : str) : str_eqb a b = false <-> a <> b.
Proof.
  split.
  - intros H E. apply str_eqb_eq in E. congruence.
  - intros H. destruct (str_eqb a b) eqn:E; [|reflexivity]. apply str_eqb_eq in E. contradiction.
Qed.

Lemma mem_str_In (x : str) (l : list str) : mem_str x l = true <-> In x l.
Proof.
  induction l as [|y l IH]; cbn [mem_str In].
  - split; [discriminate|tauto].
  - rewrite orb_true_iff, IH, str_eqb_eq. split; intros [H|H]; auto.
Qed.

(* contiguous-substring relation, as a proposition *)
Definition infix (p s : str) : Prop := exists a b, s = a ++ p ++ b.

Lemma is_prefix_spec (p s : str) : is_prefix p s = true <-> exists b, s = p ++ b.
Proof.
  revert s. induction p as [|x p IH]; intros s; cbn [is_prefix].
  - split; [intros _; exists s; reflexivity|reflexivity].
  - destruct s as [|y s].
    + split; [discriminate|intros [b H]; discriminate].
    + rewrite andb_true_iff, IH, N.eqb_eq. split.
      * intros [-> [b ->]]. exists b. reflexivity.
      * intros [b H]. cbn in H. injection H as -> ->. split; [reflexivity|]. exists b. reflexivity.
Qed.

Lemma is_infix_spec (p s : str) : is_infix p s = true <-> infix p s.
Proof.
  unfold infix. induction s as [|y s IH]; cbn [is_infix]; rewrite orb_true_iff, is_prefix_spec.
  - split.
    + intros [[b H]|H]; [|discriminate]. exists [], b. exact H.
    + intros [a [b H]]. left. destruct a; cbn in H; [|discriminate]. exists b. exact H.
  - rewrite IH. split.
    + intros [[b H]|[a [b H]]].
      * exists [], b. exact H.
      * exists (y :: a), b. cbn. rewrite H. reflexivity.
    + intros [a [b H]]. destruct a as [|z a]; cbn in H.
      * left. exists b. exact H.
      * right. injection H as _ H. exists a, b. exact H.
Qed.

Lemma infix_refl (s : str) : infix s s.
Proof. exists [], []. cbn. rewrite app_nil_r. reflexivity. Qed.

Lemma infix_nil (s : str) : infix [] s.
Proof. exists [], s. reflexivity. Qed.

Lemma existsb_infix (pats : list str) (name : str) :
  existsb (fun p => is_infix p name) pats = true <-> exists s, In s pats /\ infix s name.
Proof.
  rewrite existsb_exists. split; intros [s [H1 H2]]; exists s; split; auto; apply is_infix_spec; auto.
Qed.
