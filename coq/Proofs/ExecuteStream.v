(* Facts about Model/ExecuteStream.v: the stream built from the listed tests is the source Model/Run.v composes, with
   initial_run_count = |selected| and every unselected test reported Skipped. *)
From Coq Require Import List NArith Bool Lia.
From NextestModel Require Import Base.Tac Base.Str Model.Filter Model.FutureQueue Model.Unit Model.Run Model.CliRun
  Model.ExecuteStream.
Import ListNotations.
Open Scope N_scope.

Lemma src_items_queue :
  forall rt nc ls, map it_id (src_items (queue_src rt nc ls)) = map l_id (selected ls).
Proof.
  intros rt nc ls. induction ls as [|l r IH]; [reflexivity|].
  unfold queue_src, selected in *. cbn [map filter]. unfold stream_entry at 1.
  destruct (is_selected l); cbn [src_items map it_id]; rewrite IH; reflexivity.
Qed.

Lemma src_unsel_queue :
  forall rt nc ls, src_unsel (queue_src rt nc ls) = map l_id (unselected ls).
Proof.
  intros rt nc ls. induction ls as [|l r IH]; [reflexivity|].
  unfold queue_src, unselected in *. cbn [map filter]. unfold stream_entry at 1.
  destruct (is_selected l); cbn [src_unsel map negb]; rewrite IH; reflexivity.
Qed.

(* the protocol configuration of the run: its selected tests are exactly the listed tests whose filter match is
   Matches, so initial_run_count (= run_count) is their number; the unselected ones are all the others *)
Lemma run_count_is_selected :
  forall rt nc ls total scripts grps,
    let c := rc_cfg (mk_rcfg (queue_src rt nc ls) total scripts rt grps) in
    c_sel c = map l_id (selected ls) /\ c_unsel c = map l_id (unselected ls) /\
    run_count ls = N.of_nat (length (c_sel c)).
Proof.
  intros. unfold c, rc_cfg, rc_items. cbn [rc_src c_sel c_unsel].
  rewrite src_items_queue, src_unsel_queue. repeat split. unfold run_count. rewrite map_length. reflexivity.
Qed.

(* every listed test is in the stream, in order: nothing is dropped before the stream *)
Lemma queue_src_length : forall rt nc ls, length (queue_src rt nc ls) = length ls.
Proof. intros. unfold queue_src. apply map_length. Qed.

(* a test that the partition (or any other stage) rejected is not counted, whatever the reason *)
Lemma mismatch_not_counted :
  forall ls l r, l_match l = Mismatch r -> run_count (l :: ls) = run_count ls.
Proof. intros ls l r H. unfold run_count, selected. cbn [filter]. unfold is_selected. rewrite H. reflexivity. Qed.

(* the weight handed to the scheduler does not depend on the test's group *)
Lemma stream_weight_uncapped :
  forall rt nc l it,
    entry_item (stream_entry rt nc l) = Some it ->
    it_w it = threads_required_weight (l_threads l) rt nc /\ it_grp it = l_group l /\ it_id it = l_id l.
Proof.
  intros rt nc l it H. unfold stream_entry in H. destruct (is_selected l); cbn in H; [|discriminate].
  injection H as <-. repeat split.
Qed.

Lemma stream_entry_skipped :
  forall rt nc l, entry_skipped (stream_entry rt nc l) = negb (is_selected l).
Proof. intros. unfold stream_entry. destruct (is_selected l); reflexivity. Qed.
