(* merge_test_binary_args on the documented argument grammar. *)
From NextestModel Require Import Base.Str Base.Tac Model.Filter Model.NameFilter Model.CliArgs
     Proofs.StrFacts.
Open Scope N_scope.

(* The documented grammar of the arguments after `--`: any sequence of
     NAME            a test name filter (not beginning with '-')
     --skip PATTERN
     --exact
     --ignored | --include-ignored
   optionally followed by a second `--` and arbitrary further name filters. *)
Inductive cli_item :=
| IPos (x : str) | ISkip (x : str) | IExact | IIgnored | IIncludeIgnored.

Definition render_item (it : cli_item) : list str :=
  match it with
  | IPos x => [x]
  | ISkip x => [s_skip; x]
  | IExact => [s_exact]
  | IIgnored => [s_ignored]
  | IIncludeIgnored => [s_include_ignored]
  end.

Definition render (items : list cli_item) : list str := flat_map render_item items.

Definition render_trailing (tr : option (list str)) : list str :=
  match tr with None => [] | Some l => s_dashdash :: l end.

Definition item_ok (it : cli_item) : Prop :=
  match it with
  | IPos x => starts_with_dash x = false
  | ISkip x => x <> s_dashdash /\ x <> s_exact
  | _ => True
  end.

(* --exact given once, never, or more than once *)
Fixpoint scan_items (items : list cli_item) (seen : bool) : option bool :=
  match items with
  | [] => Some seen
  | IExact :: r => if seen then None else scan_items r true
  | _ :: r => scan_items r seen
  end.

Definition item_ops (exact : bool) (it : cli_item) : list pat_op :=
  match it with
  | IPos x => [if exact then OpExact x else OpSub x]
  | ISkip x => [if exact then OpSkipExact x else OpSkip x]
  | _ => []
  end.

Definition item_flags (it : cli_item) : list run_ignored :=
  match it with IIgnored => [RIOnly] | IIncludeIgnored => [RIAll] | _ => [] end.

Definition trailing_ops (exact : bool) (tr : option (list str)) : list pat_op :=
  match tr with
  | None => []
  | Some l => map (fun x => if exact then OpExact x else OpSub x) l
  end.

(* the documented outcome *)
Definition documented_merge (ri0 : option run_ignored) (pre : list str) (items : list cli_item)
           (tr : option (list str)) : cli_result :=
  match scan_items items false with
  | None => CliErr EDuplicated
  | Some exact =>
      match merge_ignored ri0 (flat_map item_flags items) with
      | inr e => CliErr e
      | inl ri =>
          CliOk ri (build_patterns pre (flat_map (item_ops exact) items ++ trailing_ops exact tr))
      end
  end.

Lemma nodash_neq x y : starts_with_dash x = false -> starts_with_dash y = true -> str_eqb x y = false.
Proof.
  intros Hx Hy. apply str_eqb_neq. intros ->. congruence.
Qed.

Lemma scan_render items tr seen :
  Forall item_ok items ->
  scan_exact (render items ++ render_trailing tr) seen = scan_items items seen.
Proof.
  intros H. revert seen. induction H as [|it items Hit H IH]; intros seen.
  - cbn [render flat_map app]. destruct tr as [l|]; cbn [render_trailing scan_exact scan_items].
    + rewrite str_eqb_refl. reflexivity.
    + reflexivity.
  - unfold render in *. cbn [flat_map]. rewrite <- app_assoc.
    destruct it as [x|x| | |]; cbn [render_item app scan_items item_ok] in *.
    + cbn [scan_exact]. rewrite !(nodash_neq x) by (auto; reflexivity). apply IH.
    + destruct Hit as [H1 H2]. apply str_eqb_neq in H1, H2.
      cbn [scan_exact]. change (str_eqb s_skip s_dashdash) with false.
      change (str_eqb s_skip s_exact) with false. cbn iota. rewrite H1, H2. apply IH.
    + cbn [scan_exact]. change (str_eqb s_exact s_dashdash) with false.
      change (str_eqb s_exact s_exact) with true. cbn iota. destruct seen; [reflexivity|apply IH].
    + cbn [scan_exact]. change (str_eqb s_ignored s_dashdash) with false.
      change (str_eqb s_ignored s_exact) with false. cbn iota. apply IH.
    + cbn [scan_exact]. change (str_eqb s_include_ignored s_dashdash) with false.
      change (str_eqb s_include_ignored s_exact) with false. cbn iota. apply IH.
Qed.

Lemma loop_trailing exact l st :
  cli_loop exact l true st =
  Some {| cs_pats := fold_left apply_op (map (fun x => if exact then OpExact x else OpSub x) l)
                               (cs_pats st);
          cs_ign := cs_ign st; cs_unsupported := cs_unsupported st |}.
Proof.
  revert st. induction l as [|x l IH]; intros st.
  - destruct st; reflexivity.
  - cbn [cli_loop orb map fold_left]. rewrite IH. cbn [cs_pats cs_ign cs_unsupported].
    destruct exact; reflexivity.
Qed.

Lemma loop_render exact items tr st :
  Forall item_ok items ->
  cli_loop exact (render items ++ render_trailing tr) false st =
  Some {| cs_pats := fold_left apply_op (flat_map (item_ops exact) items ++ trailing_ops exact tr)
                               (cs_pats st);
          cs_ign := cs_ign st ++ flat_map item_flags items;
          cs_unsupported := cs_unsupported st |}.
Proof.
  intros H. revert st. induction H as [|it items Hit H IH]; intros st.
  - cbn [render flat_map app]. rewrite app_nil_r.
    destruct tr as [l|]; cbn [render_trailing trailing_ops].
    + cbn [cli_loop orb]. change (starts_with_dash s_dashdash) with true. cbn [negb].
      change (str_eqb s_dashdash s_include_ignored) with false.
      change (str_eqb s_dashdash s_ignored) with false.
      change (str_eqb s_dashdash s_dashdash) with true. cbn iota.
      apply loop_trailing.
    + destruct st; reflexivity.
  - unfold render in *. cbn [flat_map]. rewrite <- !app_assoc.
    destruct it as [x|x| | |]; cbn [render_item app item_ops item_flags item_ok] in *.
    + cbn [cli_loop orb]. rewrite Hit. cbn [negb]. rewrite IH.
      cbn [cs_pats cs_ign cs_unsupported fold_left apply_op]. destruct exact; reflexivity.
    + cbn [cli_loop orb]. change (starts_with_dash s_skip) with true. cbn [negb].
      change (str_eqb s_skip s_include_ignored) with false.
      change (str_eqb s_skip s_ignored) with false.
      change (str_eqb s_skip s_dashdash) with false.
      change (str_eqb s_skip s_skip) with true. cbn iota. rewrite IH.
      cbn [cs_pats cs_ign cs_unsupported fold_left apply_op]. destruct exact; reflexivity.
    + cbn [cli_loop orb]. change (starts_with_dash s_exact) with true. cbn [negb].
      change (str_eqb s_exact s_include_ignored) with false.
      change (str_eqb s_exact s_ignored) with false.
      change (str_eqb s_exact s_dashdash) with false.
      change (str_eqb s_exact s_skip) with false.
      change (str_eqb s_exact s_exact) with true. cbn iota. rewrite IH. reflexivity.
    + cbn [cli_loop orb]. change (starts_with_dash s_ignored) with true. cbn [negb].
      change (str_eqb s_ignored s_include_ignored) with false.
      change (str_eqb s_ignored s_ignored) with true. cbn iota. rewrite IH.
      cbn [cs_pats cs_ign cs_unsupported]. rewrite <- app_assoc. reflexivity.
    + cbn [cli_loop orb]. change (starts_with_dash s_include_ignored) with true. cbn [negb].
      change (str_eqb s_include_ignored s_include_ignored) with true. cbn iota. rewrite IH.
      cbn [cs_pats cs_ign cs_unsupported]. rewrite <- app_assoc. reflexivity.
Qed.

(* on the documented grammar the argument merge does what the documentation says *)
Lemma merge_documented ri0 pre items tr :
  Forall item_ok items ->
  merge_test_binary_args ri0 pre (render items ++ render_trailing tr) =
  documented_merge ri0 pre items tr.
Proof.
  intros H. unfold merge_test_binary_args, documented_merge.
  rewrite (scan_render items tr false H).
  destruct (scan_items items false) as [exact|]; [|reflexivity].
  rewrite (loop_render exact items tr _ H). cbn [cs_pats cs_ign cs_unsupported app].
  destruct (merge_ignored ri0 (flat_map item_flags items)); reflexivity.
Qed.

(* scan_items: None iff --exact occurs at least twice; otherwise whether it occurs *)
Fixpoint count_exact (items : list cli_item) : nat :=
  match items with
  | [] => 0
  | IExact :: r => S (count_exact r)
  | _ :: r => count_exact r
  end.

Lemma scan_items_spec items seen :
  scan_items items seen =
  match (count_exact items + (if seen then 1 else 0))%nat with
  | O => Some false
  | S O => Some true
  | _ => None
  end.
Proof.
  revert seen. induction items as [|it items IH]; intros seen.
  - destruct seen; reflexivity.
  - destruct it; cbn [scan_items count_exact]; try apply IH.
    destruct seen.
    + rewrite Nat.add_1_r. reflexivity.
    + rewrite IH. rewrite Nat.add_0_r, Nat.add_1_r. reflexivity.
Qed.

(* merge_ignored: at most one flag, and only when --run-ignored is absent *)
Lemma merge_ignored_spec ri0 fs :
  merge_ignored ri0 fs =
  match fs, ri0 with
  | [], _ => inl ri0
  | f :: _, Some r => inr (if ri_eqb r f then EDuplicated else EMutuallyExclusive)
  | [f], None => inl (Some f)
  | f :: g :: _, None => inr (if ri_eqb f g then EDuplicated else EMutuallyExclusive)
  end.
Proof.
  destruct fs as [|f [|g fs]], ri0; reflexivity.
Qed.

(* ------------------------------------------------------------------ what the merged patterns select *)
From NextestModel Require Import Model.Xxh64 Model.Partition Model.FilterFull Proofs.Partition
     Proofs.FilterFull.

Definition pos_args (items : list cli_item) (tr : option (list str)) : list str :=
  flat_map (fun it => match it with IPos x => [x] | _ => [] end) items ++
  match tr with None => [] | Some l => l end.

Definition skip_args (items : list cli_item) : list str :=
  flat_map (fun it => match it with ISkip x => [x] | _ => [] end) items.

(* how one pattern given after `--` is compared with a test name *)
Definition arg_matches (exact : bool) (x name : str) : Prop :=
  if exact then name = x else infix x name.

Lemma filter_map_app {A B} (f : A -> option B) a b :
  filter_map f (a ++ b) = filter_map f a ++ filter_map f b.
Proof.
  induction a as [|x a IH]; cbn [app filter_map]; [reflexivity|].
  destruct (f x); cbn [app]; rewrite IH; reflexivity.
Qed.

Definition all_ops (e : bool) items tr := flat_map (item_ops e) items ++ trailing_ops e tr.

Lemma ops_subs e items tr :
  filter_map op_sub (all_ops e items tr) = if e then [] else pos_args items tr.
Proof.
  unfold all_ops, pos_args. rewrite filter_map_app.
  assert (filter_map op_sub (trailing_ops e tr) =
          if e then [] else match tr with None => [] | Some l => l end) as ->.
  { destruct tr as [l|]; cbn [trailing_ops]; [|destruct e; reflexivity].
    induction l as [|x l IH]; cbn [map filter_map]; [destruct e; reflexivity|].
    destruct e; cbn [op_sub]; [exact IH|rewrite IH; reflexivity]. }
  assert (filter_map op_sub (flat_map (item_ops e) items) =
          if e then [] else flat_map (fun it => match it with IPos x => [x] | _ => [] end) items)
    as ->.
  { induction items as [|it items IH]; cbn [flat_map filter_map app].
    - destruct e; reflexivity.
    - rewrite filter_map_app, IH.
      destruct it, e; cbn [item_ops filter_map op_sub app]; reflexivity. }
  destruct e; reflexivity.
Qed.

Lemma ops_skips e items tr :
  filter_map op_skip (all_ops e items tr) = if e then [] else skip_args items.
Proof.
  unfold all_ops, skip_args. rewrite filter_map_app.
  assert (filter_map op_skip (trailing_ops e tr) = []) as ->.
  { destruct tr as [l|]; cbn [trailing_ops]; [|reflexivity].
    induction l as [|x l IH]; cbn [map filter_map]; [reflexivity|]. destruct e; exact IH. }
  rewrite app_nil_r.
  induction items as [|it items IH]; cbn [flat_map filter_map app].
  - destruct e; reflexivity.
  - rewrite filter_map_app, IH.
    destruct it, e; cbn [item_ops filter_map op_skip app]; reflexivity.
Qed.

Ltac ops_t :=
  repeat match goal with
         | H : _ /\ _ |- _ => destruct H
         | H : _ \/ _ |- _ => destruct H
         | H : exists _, _ |- _ => destruct H
         | H : False |- _ => destruct H
         | H : In _ [] |- _ => destruct H
         | H : OpExact _ = OpExact _ |- _ => injection H as H
         | H : OpSkipExact _ = OpSkipExact _ |- _ => injection H as H
         | H : @eq pat_op _ _ |- _ => discriminate H
         | H : @eq bool _ _ |- _ => discriminate H
         | H : In _ (item_ops _ ?it) |- _ => destruct it; cbn [item_ops In] in H
         | H : In _ (match ?it with IPos _ => _ | _ => _ end) |- _ => destruct it; cbn [In] in H
         end; subst.

Lemma ops_exacts e items tr x :
  In (OpExact x) (all_ops e items tr) <-> e = true /\ In x (pos_args items tr).
Proof.
  unfold all_ops, pos_args. rewrite !in_app_iff, !in_flat_map.
  destruct tr as [l|]; cbn [trailing_ops]; [rewrite in_map_iff|]; destruct e; split; intros H; ops_t.
  all: try solve [split; [reflexivity|]; left; eexists; split; [eassumption|cbn; auto]].
  all: try solve [split; [reflexivity|]; right; assumption].
  all: try solve [left; eexists; split; [eassumption|cbn; auto]].
  all: try solve [right; eexists; split; [reflexivity|assumption]].
Qed.

Lemma ops_skip_exacts e items tr x :
  In (OpSkipExact x) (all_ops e items tr) <-> e = true /\ In x (skip_args items).
Proof.
  unfold all_ops, skip_args. rewrite !in_app_iff, !in_flat_map.
  destruct tr as [l|]; cbn [trailing_ops]; [rewrite in_map_iff|]; destruct e; split; intros H; ops_t.
  all: try solve [split; [reflexivity|]; eexists; split; [eassumption|cbn; auto]].
  all: try solve [left; eexists; split; [eassumption|cbn; auto]].
Qed.

(* The documented meaning of the emulated arguments, for every argument list of the grammar:
   a name passes the merged patterns iff no --skip argument matches it and, if any name filter
   was given (before or after `--`), one of them matches it; with --exact the arguments after
   `--` are compared for equality, otherwise (and always for those before `--`) by substring. *)
Lemma cli_selection ri0 pre items tr exact ri :
  Forall item_ok items ->
  scan_items items false = Some exact ->
  merge_ignored ri0 (flat_map item_flags items) = inl ri ->
  exists p,
    merge_test_binary_args ri0 pre (render items ++ render_trailing tr) = CliOk ri p /\
    forall name,
      nm_accepts (rname_match (resolve p) name) = true <->
      (~ exists x, In x (skip_args items) /\ arg_matches exact x name) /\
      ((pre = [] /\ pos_args items tr = []) \/
       (exists x, In x pre /\ infix x name) \/
       (exists x, In x (pos_args items tr) /\ arg_matches exact x name)).
Proof.
  intros Hok Hscan Hign.
  exists (build_patterns pre (all_ops exact items tr)). split.
  - rewrite merge_documented by assumption. unfold documented_merge. rewrite Hscan, Hign. reflexivity.
  - intros name. rewrite name_match_ok by apply wf_build.
    destruct (build_patterns_contents pre (all_ops exact items tr)) as (Hsu & Hsk & Hex & Hsx).
    unfold name_ok, skipped, wanted. rewrite Hsu, Hsk, ops_subs, ops_skips.
    setoid_rewrite Hex. setoid_rewrite Hsx. setoid_rewrite ops_exacts. setoid_rewrite ops_skip_exacts.
    assert (Hexn : exacts_of (build_patterns pre (all_ops exact items tr)) = [] <->
                   (exact = true -> pos_args items tr = [])).
    { split.
      - intros E ->. destruct (pos_args items tr) as [|y l] eqn:P; [reflexivity|]. exfalso.
        assert (In y (exacts_of (build_patterns pre (all_ops true items tr)))) as Hy.
        { apply Hex, ops_exacts. split; [reflexivity|]. rewrite P. left. reflexivity. }
        rewrite E in Hy. destruct Hy.
      - intros H. destruct (exacts_of _) as [|y l] eqn:P; [reflexivity|]. exfalso.
        assert (In y (y :: l)) as Hy by (left; reflexivity).
        apply Hex, ops_exacts in Hy as [He Hy]. rewrite (H He) in Hy. destruct Hy. }
    rewrite Hexn. clear Hsu Hsk Hex Hsx Hexn.
    unfold arg_matches. destruct exact.
    + rewrite app_nil_r. split.
      * intros [H1 H2]. split.
        -- intros [x [Hx ->]]. apply H1. left. auto.
        -- destruct H2 as [[-> H2]|[[_ H2]|[s [H2 H3]]]].
           ++ left. auto.
           ++ right. right. exists name. auto.
           ++ right. left. exists s. auto.
      * intros [H1 H2]. split.
        -- intros [[_ H]|[s [[] _]]]. apply H1. exists name. auto.
        -- destruct H2 as [[-> H2]|[[s [H2 H3]]|[x [H2 ->]]]].
           ++ left. auto.
           ++ right. right. exists s. auto.
           ++ right. left. auto.
    + split.
      * intros [H1 H2]. split.
        -- intros [x [Hx Hi]]. apply H1. right. exists x. auto.
        -- destruct H2 as [[H2 _]|[[H2 _]|[s [H2 H3]]]]; try discriminate.
           ++ apply app_eq_nil in H2 as [-> ->]. left. auto.
           ++ apply in_app_iff in H2 as [H2|H2]; [right; left|right; right]; exists s; auto.
      * intros [H1 H2]. split.
        -- intros [[H _]|[s [H3 H4]]]; [discriminate|]. apply H1. exists s. auto.
        -- destruct H2 as [[-> ->]|[[s [H2 H3]]|[s [H2 H3]]]].
           ++ left. split; [reflexivity|]. intros H. discriminate.
           ++ right. right. exists s. split; [apply in_app_iff; auto|auto].
           ++ right. right. exists s. split; [apply in_app_iff; auto|auto].
Qed.

(* the documented special cases *)
Lemma cli_exact_skip x :
  x <> s_dashdash -> x <> s_exact ->
  exists p, merge_test_binary_args None [] [s_exact; s_skip; x] = CliOk None p /\
            forall name, nm_accepts (rname_match (resolve p) name) = true <-> name <> x.
Proof.
  intros H1 H2.
  destruct (cli_selection None [] [IExact; ISkip x] None true None) as [p [Hp Hn]];
    try reflexivity.
  { repeat constructor; auto. }
  exists p. split; [exact Hp|]. intros name. rewrite Hn. cbn [skip_args flat_map app In pos_args arg_matches].
  split.
  - intros [H _] ->. apply H. exists x. auto.
  - intros H. split; [|left; auto]. intros [y [[<-|[]] E]]. auto.
Qed.

Lemma cli_skip x :
  x <> s_dashdash -> x <> s_exact ->
  exists p, merge_test_binary_args None [] [s_skip; x] = CliOk None p /\
            forall name, nm_accepts (rname_match (resolve p) name) = true <-> ~ infix x name.
Proof.
  intros H1 H2.
  destruct (cli_selection None [] [ISkip x] None false None) as [p [Hp Hn]]; try reflexivity.
  { repeat constructor; auto. }
  exists p. split; [exact Hp|]. intros name. rewrite Hn. cbn [skip_args flat_map app In pos_args arg_matches].
  split.
  - intros [H _] Hi. apply H. exists x. auto.
  - intros H. split; [|left; auto]. intros [y [[<-|[]] E]]. auto.
Qed.

Lemma cli_exact_name x :
  starts_with_dash x = false ->
  exists p, merge_test_binary_args None [] [s_exact; x] = CliOk None p /\
            forall name, nm_accepts (rname_match (resolve p) name) = true <-> name = x.
Proof.
  intros H1.
  destruct (cli_selection None [] [IExact; IPos x] None true None) as [p [Hp Hn]]; try reflexivity.
  { repeat constructor; auto. }
  exists p. split; [exact Hp|]. intros name. rewrite Hn. cbn [skip_args flat_map app In pos_args arg_matches].
  split.
  - intros [_ [[_ H]|[[y [[] _]]|[y [[<-|[]] ->]]]]]; [discriminate|reflexivity].
  - intros ->. split; [intros [y [[] _]]|]. right. right. exists x. auto.
Qed.

Lemma cli_substring_name pre x :
  starts_with_dash x = false ->
  exists p, merge_test_binary_args None pre [x] = CliOk None p /\
            forall name, nm_accepts (rname_match (resolve p) name) = true <->
                         infix x name \/ exists y, In y pre /\ infix y name.
Proof.
  intros H1.
  destruct (cli_selection None pre [IPos x] None false None) as [p [Hp Hn]]; try reflexivity.
  { repeat constructor; auto. }
  exists p. split; [exact Hp|]. intros name. rewrite Hn. cbn [skip_args flat_map app In pos_args arg_matches].
  split.
  - intros [_ [[_ H]|[H|[y [[<-|[]] H]]]]]; [discriminate|auto|auto].
  - intros H. split; [intros [y [[] _]]|]. destruct H as [H|H]; [right; right; exists x; auto|auto].
Qed.

Lemma cli_ignored_flags pre :
  merge_test_binary_args None pre [s_ignored] = CliOk (Some RIOnly) (patterns_new pre) /\
  merge_test_binary_args None pre [s_include_ignored] = CliOk (Some RIAll) (patterns_new pre) /\
  merge_test_binary_args None pre [s_ignored; s_include_ignored] = CliErr EMutuallyExclusive /\
  merge_test_binary_args None pre [s_ignored; s_ignored] = CliErr EDuplicated /\
  (forall r, merge_test_binary_args (Some r) pre [s_ignored] =
             CliErr (if ri_eqb r RIOnly then EDuplicated else EMutuallyExclusive)) /\
  merge_test_binary_args None pre [s_exact; s_exact] = CliErr EDuplicated /\
  merge_test_binary_args None pre [s_skip] = CliErr EMissingArg.
Proof. repeat split; reflexivity. Qed.

(* everything after a second `--` is a name filter, whatever it looks like *)
Lemma cli_trailing ri0 pre l :
  merge_test_binary_args ri0 pre (s_dashdash :: l) = CliOk ri0 (build_patterns pre (map OpSub l)).
Proof.
  change (s_dashdash :: l) with (render [] ++ render_trailing (Some l)).
  rewrite merge_documented by constructor. reflexivity.
Qed.
