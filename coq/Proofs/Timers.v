(* C12: from the finite certificate to every request sequence on the concrete unit model. *)
From NextestModel Require Import Base.Str Base.Tac Model.Clocks Model.UnitTimers Model.AbsTimers.
From Coq Require Import MSets.MSetPositive.
Open Scope N_scope.

(* ------------------------------------------------------------ enumeration is complete *)
Lemma in_bools b : In b bools. Proof. destruct b; cbn; auto. Qed.
Lemma in_phases p : In p phases. Proof. destruct p as [|[]| | |]; cbn; auto 10. Qed.
Lemma in_jcs j : In j jcs. Proof. destruct j; cbn; auto. Qed.
Lemma in_shs s : In s shs. Proof. destruct s; cbn; auto. Qed.

Lemma all_astates_complete p b1 b2 b3 b4 b5 b6 bt br bf g0 j s :
  In (mk_astate p b1 b2 b3 b4 b5 b6 bt br bf g0 j s) all_astates.
Proof.
  unfold all_astates.
  apply in_flat_map; exists p; split; [apply in_phases|].
  apply in_flat_map; exists b1; split; [apply in_bools|].
  apply in_flat_map; exists b2; split; [apply in_bools|].
  apply in_flat_map; exists b3; split; [apply in_bools|].
  apply in_flat_map; exists b4; split; [apply in_bools|].
  apply in_flat_map; exists b5; split; [apply in_bools|].
  apply in_flat_map; exists b6; split; [apply in_bools|].
  apply in_flat_map; exists bt; split; [apply in_bools|].
  apply in_flat_map; exists br; split; [apply in_bools|].
  apply in_flat_map; exists bf; split; [apply in_bools|].
  apply in_flat_map; exists g0; split; [apply in_bools|].
  apply in_flat_map; exists j; split; [apply in_jcs|].
  apply in_map. apply in_shs.
Qed.

Definition A (s : ustate) (t : tracker) (g0 : bool) : astate :=
  {| a_u := abs_state s; a_t := t; a_g0 := g0 |}.

Lemma A_in_all s t g0 : In (A s t g0) all_astates.
Proof.
  destruct t as [j h]. unfold A, abs_state, zclocks, zsw, zsl.
  apply (all_astates_complete (ph s) (spaused (k_sw (ck s))) (lpaused (k_isl (ck s)))
           (lpaused (k_gsl (ck s))) (spaused (k_wsw (ck s))) (lpaused (k_dsl (ck s)))
           (spaused (k_dwsw (ck s))) (timed_out s) (reaped s) (fds_done s) g0 j h).
Qed.

(* ------------------------------------------------------------ erasing numbers commutes *)
Lemma abs_state_idem s : abs_state (abs_state s) = abs_state s.
Proof. reflexivity. Qed.

Definition omap {X Y} (f : X -> Y) (o : outcome X) : outcome Y :=
  match o with Ok x => Ok (f x) | Panicked => Panicked end.

Lemma clk_paused_z c k : clk_paused (zclocks c) k = clk_paused c k.
Proof. destruct k; reflexivity. Qed.

Lemma clk_pause_z c k :
  clk_pause (zclocks c) k = omap zclocks (clk_pause c k).
Proof.
  destruct k; cbn [clk_pause zclocks k_sw k_isl k_gsl k_wsw k_dsl k_dwsw];
    unfold swc_pause, slc_pause, zsw, zsl; cbn [spaused lpaused act rem];
    match goal with |- context [if ?b then _ else _] => destruct b end; reflexivity.
Qed.

Lemma clk_resume_z c k :
  clk_resume (zclocks c) k = omap zclocks (clk_resume c k).
Proof.
  destruct k; cbn [clk_resume zclocks k_sw k_isl k_gsl k_wsw k_dsl k_dwsw];
    unfold swc_resume, slc_resume, zsw, zsl; cbn [spaused lpaused act rem];
    match goal with |- context [if ?b then _ else _] => destruct b end; reflexivity.
Qed.

Definition zres (r : clocks * list uout) : clocks * list uout := (zclocks (fst r), snd r).

Lemma exec_pop_z rp c o : exec_pop rp (zclocks c) o = omap zres (exec_pop rp c o).
Proof.
  destruct o; cbn [exec_pop]; try reflexivity.
  - rewrite clk_pause_z. destruct (clk_pause c k); reflexivity.
  - rewrite clk_resume_z. destruct (clk_resume c k); reflexivity.
Qed.

Lemma exec_pops_z rp os : forall c, exec_pops rp (zclocks c) os = omap zres (exec_pops rp c os).
Proof.
  induction os as [|o os IH]; intros c; cbn [exec_pops]; [reflexivity|].
  rewrite exec_pop_z. destruct (exec_pop rp c o) as [[c1 o1]|]; cbn [omap obind zres fst snd];
    [|reflexivity].
  rewrite IH. destruct (exec_pops rp c1 os) as [[c2 o2]|]; reflexivity.
Qed.

Lemma exec_arm_z rp a : forall c, exec_arm rp (zclocks c) a = omap zres (exec_arm rp c a).
Proof.
  induction a as [|st a IH]; intros c; cbn [exec_arm]; [reflexivity|].
  assert (Hb : (match st with
                | Do o => [o]
                | IfPaused k b => if clk_paused (zclocks c) k then b else []
                | IfNotPaused k b => if clk_paused (zclocks c) k then [] else b
                end) =
               (match st with
                | Do o => [o]
                | IfPaused k b => if clk_paused c k then b else []
                | IfNotPaused k b => if clk_paused c k then [] else b
                end)) by (destruct st; rewrite ?clk_paused_z; reflexivity).
  rewrite Hb. rewrite exec_pops_z.
  match goal with |- context [exec_pops rp c ?b] => destruct (exec_pops rp c b) as [[c1 o1]|] end;
    cbn [omap obind zres fst snd]; [|reflexivity].
  rewrite IH. destruct (exec_arm rp c1 a) as [[c2 o2]|]; reflexivity.
Qed.

(* the abstract configuration agrees with the concrete one on the only test ucore makes *)
Lemma abs_cfg_grace cfg : (grace (abs_cfg (grace cfg =? 0)) =? 0) = (grace cfg =? 0).
Proof. unfold abs_cfg; cbn [grace]. destruct (grace cfg =? 0); reflexivity. Qed.

Definition ares (r : ustate * list uout) : ustate * list uout := (abs_state (fst r), snd r).

Lemma enter_terminate_abs cfg s1 s2 r m :
  abs_state s1 = abs_state s2 ->
  ares (enter_terminate (abs_cfg (grace cfg =? 0)) s1 r m) = ares (enter_terminate cfg s2 r m).
Proof.
  intros H. unfold abs_state, mk, zclocks, zsw, zsl in H.
  injection H as Hph H1 H2 H3 H4 H5 H6 Hto Hrp Hfd.
  unfold enter_terminate. rewrite abs_cfg_grace. rewrite Hrp.
  destruct (reaped s2) eqn:Hr2.
  - destruct r; unfold ares, abs_state, with_timed_out, mk, zclocks, zsw, zsl;
      cbn [fst snd ph ck lsl hits timed_out slow reaped exit_ok leaked fds_done
           k_sw k_isl k_gsl k_wsw k_dsl k_dwsw spaused lpaused act rem];
      rewrite ?Hph, ?H1, ?H2, ?H3, ?H4, ?H5, ?H6, ?Hto, ?Hrp, ?Hfd, ?Hr2; reflexivity.
  - destruct (is_kill m); [destruct r; [destruct (grace cfg =? 0)|]|];
      unfold ares, abs_state, with_timed_out, with_ph, with_ck, set_wsw, set_gsl, mk, zclocks, zsw, zsl,
        slc_new, swc_new;
      cbn [fst snd ph ck lsl hits timed_out slow reaped exit_ok leaked fds_done
           k_sw k_isl k_gsl k_wsw k_dsl k_dwsw spaused lpaused act rem];
      rewrite ?Hph, ?H1, ?H2, ?H3, ?H4, ?H5, ?H6, ?Hto, ?Hrp, ?Hfd, ?Hr2; reflexivity.
Qed.

Lemma timeout_method_abs cfg : timeout_method (abs_cfg (grace cfg =? 0)) = timeout_method cfg.
Proof. unfold timeout_method. rewrite abs_cfg_grace. reflexivity. Qed.
Lemma shutdown_method_abs cfg r : shutdown_method (abs_cfg (grace cfg =? 0)) r = shutdown_method cfg r.
Proof. unfold shutdown_method. rewrite abs_cfg_grace. reflexivity. Qed.

Lemma arm_step_abs s a (f := fun (s : ustate) (x : clocks * list uout) => (with_ck s (fst x), snd x)) :
  omap ares (obind (exec_arm (reaped (abs_state s)) (ck (abs_state s)) a)
                   (fun x => Ok (f (abs_state s) x))) =
  omap ares (obind (exec_arm (reaped s) (ck s) a) (fun x => Ok (f s x))).
Proof.
  cbn [abs_state reaped ck mk]. rewrite exec_arm_z.
  destruct (exec_arm (reaped s) (ck s) a) as [[c o]|]; reflexivity.
Qed.

(* main simulation lemma: ucore on the erased state, erased again, is ucore erased *)
Lemma ucore_abs tbl cfg s e :
  omap ares (ucore tbl (abs_cfg (grace cfg =? 0)) (abs_state s) e) = omap ares (ucore tbl cfg s e).
Proof.
  destruct e as [dt|wt| | |ok| |r].
  - (* tick *)
    destruct s as [p [[a1 b1] [r2 b2] [r3 b3] [a4 b4] [r5 b5] [a6 b6]] [rl bl] h to sl rp ex lk fd].
    destruct p as [|[]| | |]; destruct b1, b2, b3, b4, b5, b6; reflexivity.
  - (* interval *)
    unfold ucore. change (ph (abs_state s)) with (ph s). destruct (ph s) eqn:Hp; try reflexivity.
    rewrite abs_cfg_grace, timeout_method_abs.
    destruct wt.
    + pose proof (enter_terminate_abs cfg
                    (with_hits (with_slow (abs_state s) true) (hits (abs_state s) + 1))
                    (with_hits (with_slow s true) (hits s + 1)) TTimeout
                    (timeout_method cfg) eq_refl) as H.
      destruct (enter_terminate (abs_cfg (grace cfg =? 0))
                  (with_hits (with_slow (abs_state s) true) (hits (abs_state s) + 1)) TTimeout
                  (timeout_method cfg)) as [s2 o2].
      destruct (enter_terminate cfg (with_hits (with_slow s true) (hits s + 1)) TTimeout
                  (timeout_method cfg)) as [s3 o3].
      pose proof (f_equal fst H) as E1. pose proof (f_equal snd H) as E2.
      unfold ares in E1, E2; cbn [fst snd] in E1, E2.
      unfold ares. cbn [omap fst snd]. rewrite E1, E2. reflexivity.
    + reflexivity.
  - unfold ucore. change (ph (abs_state s)) with (ph s). destruct (ph s) as [|[]| | |]; reflexivity.
  - unfold ucore. change (ph (abs_state s)) with (ph s). destruct (ph s) as [|[]| | |]; reflexivity.
  - unfold ucore. change (ph (abs_state s)) with (ph s). destruct (ph s) as [|[]| | |]; reflexivity.
  - unfold ucore. change (ph (abs_state s)) with (ph s). destruct (ph s) as [|[]| | |]; reflexivity.
  - (* requests *)
    unfold ucore. change (ph (abs_state s)) with (ph s).
    destruct (ph s) as [|[]| | |] eqn:Hp; destruct r as [| |sr| |]; try reflexivity;
      try (apply (arm_step_abs s));
      try (rewrite shutdown_method_abs;
           pose proof (enter_terminate_abs cfg (abs_state s) s TSignal (shutdown_method cfg sr) eq_refl) as H;
           destruct (enter_terminate (abs_cfg (grace cfg =? 0)) (abs_state s) TSignal
                       (shutdown_method cfg sr)) as [s2 o2];
           destruct (enter_terminate cfg s TSignal (shutdown_method cfg sr)) as [s3 o3];
           pose proof (f_equal fst H) as E1; pose proof (f_equal snd H) as E2;
           unfold ares in E1, E2; cbn [fst snd] in E1, E2;
           unfold ares; cbn [omap fst snd]; rewrite E1, E2; reflexivity).
Qed.

(* the guard of the abstract machine is implied by enabledness in the concrete one *)
Lemma annotate_guard cfg s e ae :
  annotate cfg s e = Some ae -> aguard (abs_state s) ae = true.
Proof.
  destruct e; cbn [annotate]; intros H; try (injection H as <-; reflexivity).
  - destruct (ph s) eqn:Hp; try discriminate.
    destruct (slc_due (k_isl (ck s)) && negb (timed_out s)) eqn:Hd; [|discriminate].
    injection H as <-. unfold aguard. change (ph (abs_state s)) with (ph s). rewrite Hp.
    change (lpaused (k_isl (ck (abs_state s)))) with (lpaused (k_isl (ck s))).
    change (timed_out (abs_state s)) with (timed_out s).
    apply andb_prop in Hd as [Hd1 Hd2]. unfold slc_due in Hd1. apply andb_prop in Hd1 as [Hd1 _].
    rewrite Hd1, Hd2. reflexivity.
  - destruct (ph s) eqn:Hp; try discriminate.
    destruct (slc_due (k_gsl (ck s))) eqn:Hd; [|discriminate].
    injection H as <-. unfold aguard. change (ph (abs_state s)) with (ph s). rewrite Hp.
    change (lpaused (k_gsl (ck (abs_state s)))) with (lpaused (k_gsl (ck s))).
    unfold slc_due in Hd. apply andb_prop in Hd as [Hd _]. exact Hd.
  - destruct (ph s) eqn:Hp; try discriminate.
    destruct (slc_due (lsl s) && negb (fds_done s)) eqn:Hd; [|discriminate].
    injection H as <-. unfold aguard. change (ph (abs_state s)) with (ph s). rewrite Hp.
    change (fds_done (abs_state s)) with (fds_done s).
    apply andb_prop in Hd as [_ Hd]. exact Hd.
Qed.

(* ------------------------------------------------------------ the environment on concrete events *)
Definition creq (e : uevent) : aevent :=
  match e with Req r => AReq r | _ => ATick 0 end.

(* concrete run that also tracks what the dispatcher has sent; events the dispatcher cannot
   produce in the current tracker state make the trace ill-formed *)
Fixpoint env_trace (t : tracker) (es : list uevent) : bool :=
  match es with
  | [] => true
  | e :: es' => env_ok t (creq e) && env_trace (env_next t (creq e)) es'
  end.

Fixpoint env_after (t : tracker) (es : list uevent) : tracker :=
  match es with
  | [] => t
  | e :: es' => env_after (env_next t (creq e)) es'
  end.

Definition t0 : tracker := {| t_jc := JNone; t_sh := Sh0 |}.

Lemma creq_annotate cfg s e ae :
  annotate cfg s e = Some ae -> env_ok t0 (creq e) = env_ok t0 ae /\
  forall t, env_ok t (creq e) = env_ok t ae /\ env_next t (creq e) = env_next t ae.
Proof.
  destruct e; cbn [annotate creq]; intros H.
  all: try (injection H as <-; split; [reflexivity|intros t; split; reflexivity]).
  all: destruct (ph s); try discriminate;
    match type of H with (if ?b then _ else _) = _ => destruct b end; try discriminate;
    injection H as <-; split; [reflexivity|intros t; split; reflexivity].
Qed.

(* ------------------------------------------------------------ soundness of the certificate *)
Section Cert.
  Variable tbl : ptable.
  Variable S : PositiveSet.t.
  Hypothesis Hcert : cert_with tbl S = true.

  Lemma cert_init g0 : PositiveSet.mem (code (ainit g0)) S = true.
  Proof.
    unfold cert_with in Hcert. apply andb_prop in Hcert as [H _]. apply andb_prop in H as [H0 H1].
    destruct g0; assumption.
  Qed.

  Lemma cert_step a e :
    In a all_astates -> PositiveSet.mem (code a) S = true -> In e aevents ->
    trans_ok tbl a e = true /\
    exists a', astep tbl a e = Ok a' /\ PositiveSet.mem (code a') S = true.
  Proof.
    intros Ha Hm He. unfold cert_with in Hcert. apply andb_prop in Hcert as [_ H].
    rewrite forallb_forall in H. specialize (H a Ha). rewrite Hm in H. cbn [implb] in H.
    rewrite forallb_forall in H. specialize (H e He). apply andb_prop in H as [H1 H2].
    split; [exact H1|]. destruct (astep tbl a e) as [a'|]; [|discriminate].
    exists a'; split; [reflexivity|exact H2].
  Qed.

  (* every annotated event is, up to its tick amount, one of the abstract events *)
  Definition norm_ev (e : aevent) : aevent := match e with ATick _ => ATick 0 | _ => e end.
  Lemma norm_in e : In (norm_ev e) aevents.
  Proof.
    destruct e as [dt|[]| | |[]| |[| |[[]|]| |]]; cbn; auto 20.
  Qed.

  Lemma ucore_tick_norm cfg s dt :
    omap ares (ucore tbl cfg s (ATick dt)) = omap ares (ucore tbl cfg s (ATick 0)).
  Proof.
    destruct s as [p [[a1 b1] [r2 b2] [r3 b3] [a4 b4] [r5 b5] [a6 b6]] [rl bl] h to sl rp ex lk fd].
    destruct p as [|[]| | |]; destruct b1, b2, b3, b4, b5, b6; reflexivity.
  Qed.

  Lemma ucore_norm cfg s e :
    omap ares (ucore tbl cfg s e) = omap ares (ucore tbl cfg s (norm_ev e)).
  Proof. destruct e; try reflexivity. apply ucore_tick_norm. Qed.

  Lemma env_norm t e : env_ok t (norm_ev e) = env_ok t e /\ env_next t (norm_ev e) = env_next t e
                       /\ forall u, aguard u (norm_ev e) = aguard u e.
  Proof. destruct e; repeat split; reflexivity. Qed.

  (* one concrete core step from a state whose abstraction is in S *)
  Lemma core_step_sound cfg s t e :
    PositiveSet.mem (code (A s t (grace cfg =? 0))) S = true ->
    env_ok t e = true -> aguard (abs_state s) e = true ->
    trans_ok tbl (A s t (grace cfg =? 0)) (norm_ev e) = true /\
    exists r, ucore tbl cfg s e = Ok r /\
              PositiveSet.mem (code (A (fst r) (env_next t e) (grace cfg =? 0))) S = true.
  Proof.
    intros Hm Hen Hg.
    destruct (env_norm t e) as (En1 & En2 & En3).
    destruct (cert_step (A s t (grace cfg =? 0)) (norm_ev e) (A_in_all _ _ _) Hm (norm_in e))
      as (Htr & a' & Hst & Hm').
    split; [exact Htr|].
    unfold astep in Hst. cbn [A a_t a_u a_g0] in Hst.
    rewrite En1, En3, Hen, Hg in Hst. cbn [andb] in Hst.
    pose proof (ucore_abs tbl cfg s (norm_ev e)) as Hsim.
    pose proof (ucore_norm cfg s e) as Hn.
    destruct (ucore tbl (abs_cfg (grace cfg =? 0)) (abs_state s) (norm_ev e)) as [r1|] eqn:E1;
      [|discriminate].
    injection Hst as <-.
    rewrite <- Hn in Hsim.
    destruct (ucore tbl cfg s e) as [r|] eqn:E2; [|discriminate].
    exists r; split; [reflexivity|].
    cbn [omap] in Hsim. assert (Hs : ares r1 = ares r) by congruence.
    apply (f_equal fst) in Hs. unfold ares in Hs. cbn [fst] in Hs.
    unfold A. rewrite <- Hs, <- En2. exact Hm'.
  Qed.

  (* every well-formed concrete run stays inside S and never panics *)
  Lemma urun_sound cfg : forall es s t,
    PositiveSet.mem (code (A s t (grace cfg =? 0))) S = true ->
    env_trace t es = true ->
    exists r, urun tbl cfg s es = Ok r /\
              PositiveSet.mem (code (A (fst r) (env_after t es) (grace cfg =? 0))) S = true.
  Proof.
    induction es as [|e es IH]; intros s t Hm Ht.
    - exists (s, []); split; [reflexivity|exact Hm].
    - cbn [env_trace] in Ht. apply andb_prop in Ht as [Hok Ht].
      cbn [urun env_after]. unfold ustep.
      destruct (annotate cfg s e) as [ae|] eqn:Ha.
      + destruct (creq_annotate cfg s e ae Ha) as [_ Hc]. destruct (Hc t) as [Hc1 Hc2].
        rewrite Hc1 in Hok.
        destruct (core_step_sound cfg s t ae Hm Hok (annotate_guard cfg s e ae Ha))
          as (_ & r & Hr & Hm').
        rewrite Hr. cbn [obind]. rewrite Hc2.
        destruct (IH (fst r) (env_next t ae) Hm' ltac:(rewrite <- Hc2; exact Ht)) as (r2 & Hr2 & Hm2).
        rewrite Hr2. cbn [obind]. eexists; split; [reflexivity|exact Hm2].
      + (* not enabled: a timer event that cannot fire; state unchanged *)
        cbn [obind fst snd].
        assert (Hn : env_next t (creq e) = t /\ True).
        { destruct e; cbn [annotate] in Ha; try discriminate; split; reflexivity. }
        destruct Hn as [Hn _]. rewrite Hn in Ht |- *.
        destruct (IH s t Hm Ht) as (r2 & Hr2 & Hm2).
        rewrite Hr2. cbn [obind]. eexists; split; [reflexivity|exact Hm2].
  Qed.
End Cert.

Lemma init_abs cfg : A (uinit cfg) t0 (grace cfg =? 0) = ainit (grace cfg =? 0).
Proof.
  unfold A, ainit. f_equal.
Qed.

Theorem cert_no_panic tbl S :
  cert_with tbl S = true ->
  forall cfg es, env_trace t0 es = true -> urun tbl cfg (uinit cfg) es <> Panicked.
Proof.
  intros Hc cfg es Ht.
  destruct (urun_sound tbl S Hc cfg es (uinit cfg) t0) as (r & Hr & _).
  - rewrite init_abs. apply cert_init with (tbl := tbl). exact Hc.
  - exact Ht.
  - rewrite Hr. discriminate.
Qed.

(* the transition postconditions hold at every reachable state *)
Theorem cert_trans_ok tbl S :
  cert_with tbl S = true ->
  forall cfg es r e ae,
    env_trace t0 es = true -> urun tbl cfg (uinit cfg) es = Ok r ->
    annotate cfg (fst r) e = Some ae -> env_ok (env_after t0 es) ae = true ->
    trans_ok tbl (A (fst r) (env_after t0 es) (grace cfg =? 0)) (norm_ev ae) = true.
Proof.
  intros Hc cfg es r e ae Ht Hr Ha Hok.
  destruct (urun_sound tbl S Hc cfg es (uinit cfg) t0) as (r' & Hr' & Hm).
  - rewrite init_abs. apply cert_init with (tbl := tbl). exact Hc.
  - exact Ht.
  - rewrite Hr in Hr'. injection Hr' as <-.
    destruct (core_step_sound tbl S Hc cfg (fst r) (env_after t0 es) ae Hm Hok
                (annotate_guard cfg (fst r) e ae Ha)) as [H _].
    exact H.
Qed.
