(* The real dispatcher model obeys the dispatcher laws of Proofs/Scripts.v (C18). *)
From Coq Require Import List NArith ZArith Bool Lia.
From NextestModel Require Import Base.Tac.
From NextestModel Require Import Model.Result Model.Dispatcher Model.RunScripts.
From NextestModel Require Import Proofs.Result Proofs.Dispatcher.
From NextestModel Require Model.Scripts Proofs.Scripts.
Import ListNotations.
Open Scope N_scope.

Lemma to_result_success r : is_success (to_result r) = Scripts.is_success r.
Proof. destruct r; reflexivity. Qed.

(* ------------------------------------------------------------------ fresh test ids *)

Definition max_key (l : list (tid * list attempt)) : N :=
  fold_right (fun kv m => N.max (fst kv) m) 0 l.

Lemma lookup_above l : forall t, max_key l < t -> lookup t l = None.
Proof.
  induction l as [|[k v] l IH]; intros t Ht; cbn [lookup]; [reflexivity|].
  cbn [max_key fold_right fst] in Ht. fold (max_key l) in Ht.
  destruct (N.eqb_spec k t) as [->|Hne]; [lia|]. apply IH. lia.
Qed.

Lemma lookup_fresh d : lookup (fresh_tid d) (d_running d) = None.
Proof. apply lookup_above. unfold fresh_tid. fold (max_key (d_running d)). lia. Qed.

(* ------------------------------------------------------------------ the three steps, computed *)

Lemma step_script_started d s :
  dstep_live (release d) (ScriptStarted s) =
  if is_some (d_cancel d) then (Live (release d), [], mk_resp HRefused RNone)
  else (Live (set_script (release d) (Some s)), [ESetupScriptStarted s], mk_resp HAccepted RNone).
Proof.
  cbn [dstep_live release d_cancel d_script d_dbg]. rewrite andb_false_r. reflexivity.
Qed.

Lemma step_started_fresh d :
  dstep_live (release d) (Started (fresh_tid (release d))) =
  if is_some (d_cancel d) then (Live (release d), [], mk_resp HRefused RNone)
  else
    let d' := set_running (release d) ((fresh_tid (release d), []) :: d_running d) in
    (Live d', [ETestStarted (fresh_tid (release d)) (d_stats d') (running_count d') (d_cancel d')],
     mk_resp HAccepted RNone).
Proof.
  cbn [dstep_live]. change (d_cancel (release d)) with (d_cancel d).
  destruct (is_some (d_cancel d)); [reflexivity|].
  rewrite (lookup_fresh (release d)). reflexivity.
Qed.

Lemma step_script_finished d s r :
  dstep_live (release d) (ScriptFinished s r) =
  let d1 := set_script (release d) None in
  let d2 := set_stats d1 (on_script_finished (d_stats d1) r) in
  finish_with_cancel d2 [ESetupScriptFinished s r] (negb (is_success r)) SetupScriptFailure CeTestFailure.
Proof.
  cbn [dstep_live release d_script d_dbg]. rewrite andb_false_r. reflexivity.
Qed.

(* the dispatcher after SetupScriptFinished: statistics updated, and cancel_state raised to
   SetupScriptFailure (if it was below) exactly when the result is not a success *)
Lemma script_finished_state d s r :
  exists d',
    fst (fst (dstep_live (release d) (ScriptFinished s r))) = Live d' /\
    d_stats d' = on_script_finished (d_stats d) r /\
    (is_success r = true -> d_cancel d' = d_cancel d) /\
    (is_success r = false -> d_cancel d' <> None) /\
    (d_cancel d <> None -> d_cancel d' <> None).
Proof.
  rewrite step_script_finished. cbv zeta. unfold finish_with_cancel.
  destruct (is_success r) eqn:Er; cbn [negb].
  - eexists. split; [reflexivity|]. cbn [d_stats d_cancel set_stats set_script release].
    repeat split; auto; discriminate.
  - unfold begin_cancel.
    destruct (cancel_lt _ SetupScriptFailure) eqn:El; cbn [fst].
    + eexists. split; [reflexivity|]. cbn [d_stats d_cancel set_stats set_script set_cancel release].
      repeat split; auto; try discriminate.
    + eexists. split; [reflexivity|]. cbn [d_stats d_cancel set_stats set_script release] in *.
      apply cancel_lt_false in El. cbn [d_cancel set_stats set_script release] in El.
      assert (Hc : d_cancel d <> None).
      { intros E. rewrite E in El. cbn [opt_rank rank] in El. lia. }
      repeat split; auto; discriminate.
Qed.

(* the [Panicked] arm of [keep] is never taken *)
Lemma real_step_never_panics x r :
  (exists d' evs rsp, dstep_live (release (rd_d x)) (ScriptStarted (rd_sid x)) = (Live d', evs, rsp)) /\
  (exists d' evs rsp, dstep_live (release (rd_d x)) (Started (fresh_tid (release (rd_d x)))) = (Live d', evs, rsp)) /\
  (exists d' evs rsp, dstep_live (release (rd_d x)) (ScriptFinished (rd_sid x) (to_result r)) = (Live d', evs, rsp)).
Proof.
  split; [|split].
  - rewrite step_script_started. destruct (is_some _); eauto.
  - rewrite step_started_fresh. destruct (is_some _); cbv zeta; eauto.
  - destruct (script_finished_state (rd_d x) (rd_sid x) (to_result r)) as (d' & E & _).
    destruct (dstep_live _ _) as [[s' evs] rsp]. cbn [fst] in E. subst s'. eauto.
Qed.

(* ------------------------------------------------------------------ unit_start, computed *)

Lemma unit_start_cancelled x :
  is_some (d_cancel (rd_d x)) = true ->
  snd (rd_unit_start x) = false /\ rd_d (fst (rd_unit_start x)) = release (rd_d x).
Proof.
  intros Hc. unfold rd_unit_start. destruct (0 <? rd_left x).
  - rewrite step_script_started, Hc. cbn [keep fst snd r_hs mk_resp rd_d]. auto.
  - rewrite step_started_fresh, Hc. cbn [keep fst snd r_hs mk_resp rd_d]. auto.
Qed.

Lemma unit_start_live x :
  is_some (d_cancel (rd_d x)) = false ->
  snd (rd_unit_start x) = true /\
  d_cancel (rd_d (fst (rd_unit_start x))) = d_cancel (rd_d x) /\
  d_stats (rd_d (fst (rd_unit_start x))) = d_stats (rd_d x).
Proof.
  intros Hc. unfold rd_unit_start. destruct (0 <? rd_left x).
  - rewrite step_script_started, Hc. cbn [keep fst snd r_hs mk_resp rd_d]. auto.
  - rewrite step_started_fresh, Hc. cbv zeta. cbn [keep fst snd r_hs mk_resp rd_d]. auto.
Qed.

Lemma unit_start_stats x :
  d_stats (rd_d (fst (rd_unit_start x))) = d_stats (rd_d x).
Proof.
  destruct (is_some (d_cancel (rd_d x))) eqn:Hc.
  - destruct (unit_start_cancelled x Hc) as [_ E]. rewrite E. reflexivity.
  - destruct (unit_start_live x Hc) as (_ & _ & E). exact E.
Qed.

Lemma script_finished_keep x r :
  exists d',
    rd_d (rd_script_finished x r) = d' /\
    d_stats d' = on_script_finished (d_stats (rd_d x)) (to_result r) /\
    (Scripts.is_success r = true -> d_cancel d' = d_cancel (rd_d x)) /\
    (Scripts.is_success r = false -> d_cancel d' <> None) /\
    (d_cancel (rd_d x) <> None -> d_cancel d' <> None).
Proof.
  destruct (script_finished_state (rd_d x) (rd_sid x) (to_result r)) as (d' & E & A & B & C & D).
  exists d'. unfold rd_script_finished. cbn [rd_d].
  destruct (dstep_live _ _) as [[s' evs] rsp]. cbn [fst] in E. subst s'. cbn [keep fst].
  rewrite to_result_success in B, C. auto.
Qed.

(* ------------------------------------------------------------------ the laws *)

Lemma exit_105 s p : 0 < failed_setup_script_count s -> exit_code (summarize_final s) p = 105%Z.
Proof.
  intros H. unfold summarize_final. apply N.ltb_lt in H. rewrite H. reflexivity.
Qed.

Theorem real_laws p : Scripts.disp_laws (real_disp p).
Proof.
  constructor; cbn [real_disp Scripts.d_state Scripts.d_cancelled Scripts.d_failed_scripts
                    Scripts.d_unit_start Scripts.d_script_finished Scripts.d_exit].
  - intros x Hc. exact (proj1 (unit_start_cancelled x Hc)).
  - intros x Hc. rewrite (proj2 (unit_start_cancelled x Hc)). exact Hc.
  - intros x. rewrite unit_start_stats. lia.
  - intros x r Hr. destruct (script_finished_keep x r) as (d' & -> & _ & _ & B & _).
    apply is_some_true. exact (B Hr).
  - intros x r Hr. destruct (script_finished_keep x r) as (d' & -> & S & _).
    rewrite S. destruct (on_script_finished_counts (d_stats (rd_d x)) (to_result r)) as (_ & _ & _ & _ & _ & _ & F & _).
    rewrite F. unfold fail1. rewrite to_result_success, Hr. lia.
  - intros x r Hc. destruct (script_finished_keep x r) as (d' & -> & _ & _ & _ & C).
    apply is_some_true. apply C. apply is_some_true. exact Hc.
  - intros x r. destruct (script_finished_keep x r) as (d' & -> & S & _).
    rewrite S. destruct (on_script_finished_counts (d_stats (rd_d x)) (to_result r)) as (_ & _ & _ & _ & _ & _ & F & _).
    rewrite F. lia.
  - intros x H. apply exit_105. exact H.
Qed.

Theorem real_live p : Scripts.disp_live (real_disp p).
Proof.
  constructor; cbn [real_disp Scripts.d_state Scripts.d_cancelled Scripts.d_unit_start
                    Scripts.d_script_finished].
  - intros x Hc. destruct (unit_start_live x Hc) as (A & B & _). split; [exact A|]. rewrite B. exact Hc.
  - intros x r Hc Hr. destruct (script_finished_keep x r) as (d' & -> & _ & A & _).
    rewrite (A Hr). exact Hc.
Qed.

Lemma real_init_uncancelled n mf k p : Scripts.d_cancelled (real_disp p) (real_init n mf k) = false.
Proof. reflexivity. Qed.

(* ------------------------------------------------------------------ C18's failure theorems, no abstract premise left *)

Lemma real_laws_and_live p : Scripts.disp_laws (real_disp p) /\ Scripts.disp_live (real_disp p).
Proof. split; [apply real_laws | apply real_live]. Qed.

Lemma real_failure p (d0 : rdstate) defs rules sel outs reqs s r :
  In (Scripts.EvScriptFinished s r) (snd (Scripts.run (real_disp p) d0 defs rules sel outs reqs)) ->
  Scripts.is_success r = false ->
  (forall t env, ~ In (Scripts.EvTestStarted t env)
                      (snd (Scripts.run (real_disp p) d0 defs rules sel outs reqs)))
  /\ exit_code (summarize_final (d_stats (rd_d (fst (Scripts.run (real_disp p) d0 defs rules sel outs reqs))))) p
     = 105%Z
  /\ exists pre ss, Scripts.run_scripts_ran (real_disp p) d0 defs rules sel outs = pre ++ [ss]
                    /\ Scripts.ss_id ss = s.
Proof. exact (Scripts.run_failure (real_disp p) (real_laws p) d0 defs rules sel outs reqs s r). Qed.

Lemma real_failure_any_script p n mf defs rules sel outs reqs :
  let d0 := real_init n mf (N.of_nat (length (Scripts.enabled defs rules sel))) in
  (exists ss, In ss (Scripts.enabled defs rules sel) /\
              Scripts.is_success (Scripts.script_result outs ss) = false) ->
  (forall t env, ~ In (Scripts.EvTestStarted t env)
                      (snd (Scripts.run (real_disp p) d0 defs rules sel outs reqs)))
  /\ exit_code (summarize_final (d_stats (rd_d (fst (Scripts.run (real_disp p) d0 defs rules sel outs reqs))))) p
     = 105%Z.
Proof.
  intros d0 H.
  exact (Scripts.run_failure_live (real_disp p) (real_laws p) (real_live p) d0 defs rules sel outs reqs
           (real_init_uncancelled _ _ _ p) H).
Qed.

Lemma real_all_succeed p n mf defs rules sel outs reqs :
  let d0 := real_init n mf (N.of_nat (length (Scripts.enabled defs rules sel))) in
  (forall ss, In ss (Scripts.enabled defs rules sel) ->
              Scripts.is_success (Scripts.script_result outs ss) = true) ->
  snd (Scripts.run (real_disp p) d0 defs rules sel outs reqs) =
  flat_map (Scripts.script_events outs) (Scripts.enabled defs rules sel)
  ++ map (fun t => Scripts.EvTestStarted t
                     (Scripts.apply_env (flat_map (Scripts.env_entry outs) (Scripts.enabled defs rules sel)) t []))
         reqs.
Proof.
  intros d0 H.
  exact (Scripts.run_all_succeed (real_disp p) (real_live p) d0 defs rules sel outs reqs
           (real_init_uncancelled _ _ _ p) H).
Qed.
