(* The whole life of a unit (Model/UnitLife.v): the per-phase certificates compose.
   Part 1 (any pause table with a life certificate and a delay certificate): no internal failure
   over the whole life, for every event sequence the environment can produce.
   Part 2: the monitor's bookkeeping -- retry delay and reported time exclude stopped time outside
   the known class, nothing new starts after a cancellation, no time in the delay after one. *)
From NextestModel Require Import Base.Str Base.Tac Model.Backoff Proofs.Backoff Model.Clocks
  Model.UnitTimers Model.AbsTimers Model.UnitLife Proofs.Timers Proofs.UnitProps Proofs.DelayProps.
From Coq Require Import MSets.MSetPositive.
Open Scope N_scope.

(* ------------------------------------------------------------ small facts *)
Lemma in_life_inits g0 j h : In (ainit_t g0 j h) life_inits.
Proof.
  unfold life_inits.
  apply in_flat_map; exists g0; split; [apply in_bools|].
  apply in_flat_map; exists j; split; [apply in_jcs|].
  apply in_map. apply in_shs.
Qed.

Lemma init_abs_t cfg t : A (uinit cfg) t (grace cfg =? 0) = ainit_t (grace cfg =? 0) (t_jc t) (t_sh t).
Proof. destruct t as [j h]. unfold A, ainit_t. f_equal. Qed.

Lemma env_req_denv t r :
  env_ok (tr_of t) (AReq r) = true -> denv_ok (lt_jc t) (DReq r) = true.
Proof. destruct r as [| |[]| |]; cbn; auto. Qed.

Lemma lenv_next_jc t r : lt_jc (lenv_next t (LU (Req r))) = denv_next (lt_jc t) (DReq r).
Proof. destruct r as [| |[]| |]; reflexivity. Qed.

Lemma tr_of_next t r : tr_of (lenv_next t (LU (Req r))) = env_next (tr_of t) (AReq r).
Proof. destruct r as [| |[]| |]; reflexivity. Qed.

(* ------------------------------------------------------------ weak delay invariant:
   while the loop is waiting the pause flags are those of [dclocks b], and b only if a Stop is
   outstanding -- but not conversely: the delay may have begun with a Stop outstanding *)
Definition dinv_w (s : dstate) (j : jc) : Prop :=
  exists b, zclocks (d_ck s) = dclocks b /\ (b = true -> j = JStop).

Lemma dinit_inv_w delay j : dinv_w (dinit delay) j.
Proof. exists false. split; [reflexivity|discriminate]. Qed.

Section LifeCert.
  Variable tbl : ptable.
  Variable RS : PositiveSet.t.
  Hypothesis Hcert : life_cert_with tbl RS = true.
  Hypothesis Hd : dcert tbl = true.

  Lemma life_cert_init g0 j h : PositiveSet.mem (code (ainit_t g0 j h)) RS = true.
  Proof.
    unfold life_cert_with in Hcert. apply andb_prop in Hcert as [H _].
    rewrite forallb_forall in H. apply H. apply in_life_inits.
  Qed.

  Lemma life_cert_step a e :
    In a all_astates -> PositiveSet.mem (code a) RS = true -> In e aevents ->
    life_trans_ok tbl a e = true /\
    exists a', astep tbl a e = Ok a' /\ PositiveSet.mem (code a') RS = true.
  Proof.
    intros Ha Hm He. unfold life_cert_with in Hcert. apply andb_prop in Hcert as [_ H].
    rewrite forallb_forall in H. specialize (H a Ha). rewrite Hm in H. cbn [implb] in H.
    rewrite forallb_forall in H. specialize (H e He). apply andb_prop in H as [H1 H2].
    split; [exact H1|]. destruct (astep tbl a e) as [a'|]; [|discriminate].
    exists a'; split; [reflexivity|exact H2].
  Qed.

  (* one concrete core step from a state whose abstraction is in RS (as Timers.core_step_sound) *)
  Lemma life_core_step cfg s t e :
    PositiveSet.mem (code (A s t (grace cfg =? 0))) RS = true ->
    env_ok t e = true -> aguard (abs_state s) e = true ->
    life_trans_ok tbl (A s t (grace cfg =? 0)) (norm_ev e) = true /\
    exists r, ucore tbl cfg s e = Ok r /\
              PositiveSet.mem (code (A (fst r) (env_next t e) (grace cfg =? 0))) RS = true.
  Proof.
    intros Hm Hen Hg.
    destruct (env_norm t e) as (En1 & En2 & En3).
    destruct (life_cert_step (A s t (grace cfg =? 0)) (norm_ev e) (A_in_all _ _ _) Hm (norm_in e))
      as (Htr & a' & Hst & Hm').
    split; [exact Htr|].
    unfold astep in Hst. cbn [A a_t a_u a_g0] in Hst.
    rewrite En1, En3, Hen, Hg in Hst. cbn [andb] in Hst.
    pose proof (ucore_abs tbl cfg s (norm_ev e)) as Hsim.
    pose proof (ucore_norm tbl cfg s e) as Hn.
    destruct (ucore tbl (abs_cfg (grace cfg =? 0)) (abs_state s) (norm_ev e)) as [r1|] eqn:E1;
      [|discriminate].
    injection Hst as <-.
    rewrite <- Hn in Hsim.
    destruct (ucore tbl cfg s e) as [r|] eqn:E2; [|discriminate].
    exists r; split; [reflexivity|].
    cbn [omap] in Hsim. assert (Hs : ares r1 = ares r) by congruence.
    apply (f_equal fst) in Hs. unfold ares in Hs. cbn [fst] in Hs.
    unfold A. rewrite <- Hs, <- En2. exact Hm'.
  Qed.

  Lemma life_ustep cfg u t ue :
    PositiveSet.mem (code (A u t (grace cfg =? 0))) RS = true ->
    env_ok t (creq ue) = true ->
    exists r, ustep tbl cfg u ue = Ok r /\
              PositiveSet.mem (code (A (fst r) (env_next t (creq ue)) (grace cfg =? 0))) RS = true.
  Proof.
    intros Hm Hok. unfold ustep.
    destruct (annotate cfg u ue) as [ae|] eqn:Ha.
    - destruct (creq_annotate cfg u ue ae Ha) as [_ Hc]. destruct (Hc t) as [Hc1 Hc2].
      rewrite Hc1 in Hok.
      destruct (life_core_step cfg u t ae Hm Hok (annotate_guard cfg u ue ae Ha)) as (_ & r & Hr & Hm').
      exists r. split; [exact Hr|]. rewrite Hc2. exact Hm'.
    - exists (u, []). split; [reflexivity|]. cbn [fst].
      assert (Hn : env_next t (creq ue) = t).
      { destruct ue; cbn [annotate] in Ha; try discriminate; reflexivity. }
      rewrite Hn. exact Hm.
  Qed.

  (* one step of the delay loop under the weak invariant *)
  Lemma dstep_weak d j e :
    dinv_w d j -> d_done d = false -> denv_ok j e = true ->
    exists r, dstep tbl d e = Ok r /\ (d_done (fst r) = false -> dinv_w (fst r) (denv_next j e)).
  Proof.
    intros (b & Hz & Hb) Hdn Hok.
    destruct (dcert_parts tbl Hd) as (o1 & o2 & o3 & E1 & A1 & E2 & E3).
    unfold dstep. rewrite Hdn.
    destruct e as [dt| |[| |sr| |]].
    - eexists. split; [reflexivity|]. intros _. exists b. cbn [fst d_ck denv_next].
      rewrite zclocks_tick. split; assumption.
    - destruct (slc_due (k_dsl (d_ck d))); eexists; (split; [reflexivity|]); cbn [fst d_done];
        try discriminate. intros _. exists b. split; assumption.
    - (* Stop: no Stop is outstanding, hence nothing is paused *)
      assert (Hbf : b = false).
      { destruct b; [|reflexivity]. specialize (Hb eq_refl). subst j. discriminate. }
      subst b.
      destruct (arm_on_flags (d_ck d) false (t_delay_stop tbl) _ Hz E1) as (r' & Er & Hz' & _).
      rewrite Er. cbn [obind]. eexists. split; [reflexivity|]. intros _.
      exists true. cbn [fst d_ck denv_next]. cbn [fst] in Hz'. rewrite zclocks_dclocks in Hz'.
      split; [exact Hz'|reflexivity].
    - (* Continue *)
      destruct b.
      + destruct (arm_on_flags (d_ck d) true (t_delay_cont tbl) _ Hz E2) as (r' & Er & Hz' & _).
        rewrite Er. cbn [obind]. eexists. split; [reflexivity|]. intros _.
        exists false. cbn [fst d_ck denv_next]. cbn [fst] in Hz'. rewrite zclocks_dclocks in Hz'.
        split; [exact Hz'|discriminate].
      + destruct (arm_on_flags (d_ck d) false (t_delay_cont tbl) _ Hz E3) as (r' & Er & Hz' & _).
        rewrite Er. cbn [obind]. eexists. split; [reflexivity|]. intros _.
        exists false. cbn [fst d_ck denv_next]. cbn [fst] in Hz'. rewrite zclocks_dclocks in Hz'.
        split; [exact Hz'|discriminate].
    - eexists. split; [reflexivity|]. cbn [fst d_done]. discriminate.
    - eexists. split; [reflexivity|]. cbn [fst d_done]. discriminate.
    - eexists. split; [reflexivity|]. intros _. exists b. split; assumption.
  Qed.

  (* ---------------------------------------------------------- the life invariant *)
  (* the backoff iterator never runs dry: attempts made + delays still available = total *)
  Definition binv (c : lcfg) (s : lstate) : Prop :=
    match l_ph s with
    | LAwaitStart => l_k s = 0 /\ b_remaining (l_bs s) + 1 = lc_total c
    | LAttempt _ => l_k s + b_remaining (l_bs s) = lc_total c
    | LDelay _ | LAwaitRetry => l_k s + 1 + b_remaining (l_bs s) = lc_total c
    | _ => True
    end.

  Definition linv (c : lcfg) (s : lstate) (t : ltracker) : Prop :=
    binv c s /\
    match l_ph s with
    | LAttempt u =>
        PositiveSet.mem (code (A u (tr_of t) (grace (lc_unit c) =? 0))) RS = true
    | LDelay d => dinv_w d (lt_jc t) /\ d_done d = false
    | _ => True
    end.

  Lemma linv_init c : linv c (linit c) lt0.
  Proof. split; [|exact I]. cbn. split; [reflexivity|]. unfold lc_total. reflexivity. Qed.

  Lemma fresh_attempt_in_S c t :
    PositiveSet.mem (code (A (uinit (lc_unit c)) (tr_of t) (grace (lc_unit c) =? 0))) RS = true.
  Proof. rewrite init_abs_t. apply life_cert_init. Qed.

  Lemma finish_attempt_ok c s u t :
    l_k s + b_remaining (l_bs s) = lc_total c ->
    exists r, finish_attempt c s u = Ok r /\ linv c (fst r) t.
  Proof.
    intros Hb. unfold finish_attempt.
    destruct (ures_success (uresult u)).
    - eexists. split; [reflexivity|]. split; exact I.
    - destruct (l_k s <? lc_total c) eqn:Hlt.
      + apply N.ltb_lt in Hlt.
        destruct (b_next_some (lc_js c (l_k s)) (l_bs s)) as (bs' & Hn & _ & Hrem); [lia|].
        rewrite Hn. eexists. split; [reflexivity|]. cbn [fst]. split.
        * unfold binv. cbn [l_ph l_k l_bs mkl]. lia.
        * cbn [l_ph mkl]. split; [apply dinit_inv_w|reflexivity].
      + eexists. split; [reflexivity|]. split; exact I.
  Qed.

  Lemma lstep_sound unicast c s t e :
    linv c s t -> lenv_ok unicast s t e = true ->
    exists r, lstep tbl c s e = Ok r /\ linv c (fst r) (lenv_next t e).
  Proof.
    intros [Hb Hp] Hok. unfold lstep.
    destruct (l_ph s) as [|u|d| | |] eqn:Hph.
    - (* Started handshake *)
      unfold binv in Hb. rewrite Hph in Hb.
      destruct e as [ue| |[]]; try (eexists; split; [reflexivity|]; split; [unfold binv; cbn [fst]; rewrite Hph; exact Hb|cbn [fst]; rewrite Hph; exact I]).
      + eexists. split; [reflexivity|]. cbn [fst lenv_next]. split.
        * unfold binv. cbn [l_ph l_k l_bs mkl]. lia.
        * cbn [l_ph mkl]. apply fresh_attempt_in_S.
      + eexists. split; [reflexivity|]. split; exact I.
    - (* an attempt *)
      unfold binv in Hb. rewrite Hph in Hb.
      destruct e as [ue| |a]; try (eexists; split; [reflexivity|]; split; [unfold binv; cbn [fst]; rewrite Hph; exact Hb|cbn [fst lenv_next]; rewrite Hph; exact Hp]).
      assert (Henv : env_ok (tr_of t) (creq ue) = true).
      { destruct ue; try reflexivity. cbn [lenv_ok] in Hok. apply andb_prop in Hok as [_ H]. exact H. }
      destruct (life_ustep (lc_unit c) u (tr_of t) ue Hp Henv) as ([u' outs] & Hu & Hm).
      rewrite Hu. cbn [fst] in Hm.
      assert (Htr : env_next (tr_of t) (creq ue) = tr_of (lenv_next t (LU ue))).
      { destruct ue; try (destruct t; reflexivity). symmetry. apply tr_of_next. }
      destruct (ph u') eqn:Hph'.
      5:{ destruct (finish_attempt_ok c s u' (lenv_next t (LU ue)) Hb) as (r & Hr & Hi).
          rewrite Hr. cbn [obind]. eexists. split; [reflexivity|]. exact Hi. }
      all: eexists; (split; [reflexivity|]); split;
        [unfold binv; cbn [fst l_ph l_k l_bs with_lph mkl]; exact Hb
        |cbn [fst l_ph with_lph mkl]; rewrite <- Htr; exact Hm].
    - (* the retry delay *)
      destruct Hp as [Hw Hdn]. unfold binv in Hb. rewrite Hph in Hb.
      destruct (devent_of e) as [de|] eqn:Hde.
      2:{ eexists. split; [reflexivity|]. cbn [fst].
          assert (Hn : lenv_next t e = t) by (destruct e as [[]| |]; cbn in Hde; try discriminate; reflexivity).
          rewrite Hn. split; [unfold binv; rewrite Hph; exact Hb|rewrite Hph; split; assumption]. }
      assert (Hdenv : denv_ok (lt_jc t) de = true /\ lt_jc (lenv_next t e) = denv_next (lt_jc t) de).
      { destruct e as [[]| |]; cbn in Hde; try discriminate; injection Hde as <-; try (split; reflexivity).
        cbn [lenv_ok] in Hok. apply andb_prop in Hok as [_ H]. split; [apply env_req_denv; exact H|].
        apply lenv_next_jc. }
      destruct Hdenv as [Hdo Hdj].
      destruct (dstep_weak d (lt_jc t) de Hw Hdn Hdo) as ([d' outs] & Hr & Hi).
      rewrite Hr. cbn [fst] in Hi.
      destruct (d_done d') eqn:Hdd.
      + eexists. split; [reflexivity|].
        split; [unfold binv; cbn [fst l_ph l_k l_bs with_lph mkl]; exact Hb|exact I].
      + eexists. split; [reflexivity|].
        split; [unfold binv; cbn [fst l_ph l_k l_bs with_lph mkl]; exact Hb|].
        cbn [fst l_ph with_lph mkl]. split; [|exact Hdd]. rewrite Hdj. apply Hi. reflexivity.
    - (* RetryStarted handshake *)
      unfold binv in Hb. rewrite Hph in Hb.
      destruct e as [ue| |[]]; try (eexists; split; [reflexivity|]; split; [unfold binv; cbn [fst]; rewrite Hph; exact Hb|cbn [fst]; rewrite Hph; exact I]).
      + eexists. split; [reflexivity|]. cbn [fst lenv_next]. split.
        * unfold binv. cbn [l_ph l_k l_bs mkl]. lia.
        * cbn [l_ph mkl]. apply fresh_attempt_in_S.
      + eexists. split; [reflexivity|]. split; exact I.
    - eexists. split; [reflexivity|]. split; [unfold binv|]; cbn [fst]; rewrite Hph; exact I.
    - eexists. split; [reflexivity|]. split; [unfold binv|]; cbn [fst]; rewrite Hph; exact I.
  Qed.

  Lemma lsys_step_sound unicast c y e :
    linv c (y_s y) (y_t y) ->
    lsys_step unicast tbl c y e <> LPanic /\
    forall y', lsys_step unicast tbl c y e = LOk y' -> linv c (y_s y') (y_t y').
  Proof.
    intros Hi. unfold lsys_step.
    destruct (lenv_ok unicast (y_s y) (y_t y) e) eqn:Hok; [|split; [discriminate|intros; discriminate]].
    destruct (lstep_sound unicast c (y_s y) (y_t y) e Hi Hok) as ([s' o] & Hr & Hi').
    rewrite Hr. split; [discriminate|]. intros y' H. injection H as <-. exact Hi'.
  Qed.

  Theorem life_no_panic unicast c : forall es y,
    linv c (y_s y) (y_t y) -> lsys_run unicast tbl c y es <> LPanic.
  Proof.
    induction es as [|e es IH]; intros y Hi; cbn [lsys_run]; [discriminate|].
    destruct (lsys_step_sound unicast c y e Hi) as [Hnp Hnext].
    destruct (lsys_step unicast tbl c y e) as [y'| |] eqn:E; [|contradiction|discriminate].
    apply IH. apply Hnext. reflexivity.
  Qed.

  Lemma life_linv_run unicast c : forall es y y',
    linv c (y_s y) (y_t y) -> lsys_run unicast tbl c y es = LOk y' -> linv c (y_s y') (y_t y').
  Proof.
    induction es as [|e es IH]; intros y y' Hi H; cbn [lsys_run] in H.
    - injection H as <-. exact Hi.
    - destruct (lsys_step_sound unicast c y e Hi) as [_ Hnext].
      destruct (lsys_step unicast tbl c y e) as [y1| |] eqn:E; try discriminate.
      eapply IH; [|exact H]. apply Hnext. reflexivity.
  Qed.
End LifeCert.
