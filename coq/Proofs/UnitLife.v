(* The whole life of a unit (Model/UnitLife.v): the per-phase certificates compose.
   Part 1 (any pause table with a life certificate and a delay certificate): no internal failure
   over the whole life, for every event sequence the environment can produce.
   Part 2: the monitor's bookkeeping -- retry delay and reported time exclude stopped time outside
   the known class, nothing new starts after a cancellation, no time in the delay after one. *)
From NextestModel Require Import Base.Str Base.Tac Model.Backoff Proofs.Backoff Model.Clocks
  Model.UnitTimers Model.AbsTimers Model.UnitLife Proofs.Timers Proofs.UnitProps Proofs.DelayProps
  Proofs.UnitLive.
From Coq Require Import MSets.MSetPositive.
Open Scope N_scope.

(* ------------------------------------------------------------ small facts *)
Lemma in_life_inits g0 j h : In (ainit_t g0 j h) life_inits.
Proof.
  unfold life_inits.
  apply in_flat_map; exists g0; split; [apply in_bools|].
  apply in_flat_map; exists j; split; [apply in_jcs|].
  apply in_map. apply in_shs.
Qed.

Lemma init_abs_t cfg t : A (uinit cfg) t (grace cfg =? 0) = ainit_t (grace cfg =? 0) (t_jc t) (t_sh t).
Proof. destruct t as [j h]. unfold A, ainit_t. f_equal. Qed.

Lemma env_req_denv t r :
  env_ok (tr_of t) (AReq r) = true -> denv_ok (lt_jc t) (DReq r) = true.
Proof. destruct r as [| |[]| |]; cbn; auto. Qed.

Lemma lenv_next_jc t r : lt_jc (lenv_next t (LU (Req r))) = denv_next (lt_jc t) (DReq r).
Proof. destruct r as [| |[]| |]; reflexivity. Qed.

Lemma tr_of_next t r : tr_of (lenv_next t (LU (Req r))) = env_next (tr_of t) (AReq r).
Proof. destruct r as [| |[]| |]; reflexivity. Qed.

(* ------------------------------------------------------------ weak delay invariant:
   while the loop is waiting the pause flags are those of [dclocks b], and b only if a Stop is
   outstanding -- but not conversely: the delay may have begun with a Stop outstanding *)
Definition dinv_w (s : dstate) (j : jc) : Prop :=
  exists b, zclocks (d_ck s) = dclocks b /\ (b = true -> j = JStop).

Lemma dinit_inv_w delay j : dinv_w (dinit delay) j.
Proof. exists false. split; [reflexivity|discriminate]. Qed.

Section LifeCert.
  Variable tbl : ptable.
  Variable RS : PositiveSet.t.
  Hypothesis Hcert : life_cert_with tbl RS = true.
  Hypothesis Hd : dcert tbl = true.

  Lemma life_cert_init g0 j h : PositiveSet.mem (code (ainit_t g0 j h)) RS = true.
  Proof.
    unfold life_cert_with in Hcert. apply andb_prop in Hcert as [H _].
    rewrite forallb_forall in H. apply H. apply in_life_inits.
  Qed.

  Lemma life_cert_step a e :
    In a all_astates -> PositiveSet.mem (code a) RS = true -> In e aevents ->
    life_trans_ok tbl a e = true /\
    exists a', astep tbl a e = Ok a' /\ PositiveSet.mem (code a') RS = true.
  Proof.
    intros Ha Hm He. unfold life_cert_with in Hcert. apply andb_prop in Hcert as [_ H].
    rewrite forallb_forall in H. specialize (H a Ha). rewrite Hm in H. cbn [implb] in H.
    rewrite forallb_forall in H. specialize (H e He). apply andb_prop in H as [H1 H2].
    split; [exact H1|]. destruct (astep tbl a e) as [a'|]; [|discriminate].
    exists a'; split; [reflexivity|exact H2].
  Qed.

  (* one concrete core step from a state whose abstraction is in RS (as Timers.core_step_sound) *)
  Lemma life_core_step cfg s t e :
    PositiveSet.mem (code (A s t (grace cfg =? 0))) RS = true ->
    env_ok t e = true -> aguard (abs_state s) e = true ->
    life_trans_ok tbl (A s t (grace cfg =? 0)) (norm_ev e) = true /\
    exists r, ucore tbl cfg s e = Ok r /\
              PositiveSet.mem (code (A (fst r) (env_next t e) (grace cfg =? 0))) RS = true.
  Proof.
    intros Hm Hen Hg.
    destruct (env_norm t e) as (En1 & En2 & En3).
    destruct (life_cert_step (A s t (grace cfg =? 0)) (norm_ev e) (A_in_all _ _ _) Hm (norm_in e))
      as (Htr & a' & Hst & Hm').
    split; [exact Htr|].
    unfold astep in Hst. cbn [A a_t a_u a_g0] in Hst.
    rewrite En1, En3, Hen, Hg in Hst. cbn [andb] in Hst.
    pose proof (ucore_abs tbl cfg s (norm_ev e)) as Hsim.
    pose proof (ucore_norm tbl cfg s e) as Hn.
    destruct (ucore tbl (abs_cfg (grace cfg =? 0)) (abs_state s) (norm_ev e)) as [r1|] eqn:E1;
      [|discriminate].
    injection Hst as <-.
    rewrite <- Hn in Hsim.
    destruct (ucore tbl cfg s e) as [r|] eqn:E2; [|discriminate].
    exists r; split; [reflexivity|].
    cbn [omap] in Hsim. assert (Hs : ares r1 = ares r) by congruence.
    apply (f_equal fst) in Hs. unfold ares in Hs. cbn [fst] in Hs.
    unfold A. rewrite <- Hs, <- En2. exact Hm'.
  Qed.

  Lemma life_ustep cfg u t ue :
    PositiveSet.mem (code (A u t (grace cfg =? 0))) RS = true ->
    env_ok t (creq ue) = true ->
    exists r, ustep tbl cfg u ue = Ok r /\
              PositiveSet.mem (code (A (fst r) (env_next t (creq ue)) (grace cfg =? 0))) RS = true.
  Proof.
    intros Hm Hok. unfold ustep.
    destruct (annotate cfg u ue) as [ae|] eqn:Ha.
    - destruct (creq_annotate cfg u ue ae Ha) as [_ Hc]. destruct (Hc t) as [Hc1 Hc2].
      rewrite Hc1 in Hok.
      destruct (life_core_step cfg u t ae Hm Hok (annotate_guard cfg u ue ae Ha)) as (_ & r & Hr & Hm').
      exists r. split; [exact Hr|]. rewrite Hc2. exact Hm'.
    - exists (u, []). split; [reflexivity|]. cbn [fst].
      assert (Hn : env_next t (creq ue) = t).
      { destruct ue; cbn [annotate] in Ha; try discriminate; reflexivity. }
      rewrite Hn. exact Hm.
  Qed.

  (* one step of the delay loop under the weak invariant *)
  Lemma dstep_weak d j e :
    dinv_w d j -> d_done d = false -> denv_ok j e = true ->
    exists r, dstep tbl d e = Ok r /\ (d_done (fst r) = false -> dinv_w (fst r) (denv_next j e)).
  Proof.
    intros (b & Hz & Hb) Hdn Hok.
    destruct (dcert_parts tbl Hd) as (o1 & o2 & o3 & E1 & A1 & E2 & E3).
    unfold dstep. rewrite Hdn.
    destruct e as [dt| |[| |sr| |]].
    - eexists. split; [reflexivity|]. intros _. exists b. cbn [fst d_ck denv_next].
      rewrite zclocks_tick. split; assumption.
    - destruct (slc_due (k_dsl (d_ck d))); eexists; (split; [reflexivity|]); cbn [fst d_done];
        try discriminate. intros _. exists b. split; assumption.
    - (* Stop: no Stop is outstanding, hence nothing is paused *)
      assert (Hbf : b = false).
      { destruct b; [|reflexivity]. specialize (Hb eq_refl). subst j. discriminate. }
      subst b.
      destruct (arm_on_flags (d_ck d) false (t_delay_stop tbl) _ Hz E1) as (r' & Er & Hz' & _).
      rewrite Er. cbn [obind]. eexists. split; [reflexivity|]. intros _.
      exists true. cbn [fst d_ck denv_next]. cbn [fst] in Hz'. rewrite zclocks_dclocks in Hz'.
      split; [exact Hz'|reflexivity].
    - (* Continue *)
      destruct b.
      + destruct (arm_on_flags (d_ck d) true (t_delay_cont tbl) _ Hz E2) as (r' & Er & Hz' & _).
        rewrite Er. cbn [obind]. eexists. split; [reflexivity|]. intros _.
        exists false. cbn [fst d_ck denv_next]. cbn [fst] in Hz'. rewrite zclocks_dclocks in Hz'.
        split; [exact Hz'|discriminate].
      + destruct (arm_on_flags (d_ck d) false (t_delay_cont tbl) _ Hz E3) as (r' & Er & Hz' & _).
        rewrite Er. cbn [obind]. eexists. split; [reflexivity|]. intros _.
        exists false. cbn [fst d_ck denv_next]. cbn [fst] in Hz'. rewrite zclocks_dclocks in Hz'.
        split; [exact Hz'|discriminate].
    - eexists. split; [reflexivity|]. cbn [fst d_done]. discriminate.
    - eexists. split; [reflexivity|]. cbn [fst d_done]. discriminate.
    - eexists. split; [reflexivity|]. intros _. exists b. split; assumption.
  Qed.

  (* ---------------------------------------------------------- the life invariant *)
  (* the backoff iterator never runs dry: attempts made + delays still available = total *)
  Definition binv (c : lcfg) (s : lstate) : Prop :=
    match l_ph s with
    | LAwaitStart => l_k s = 0 /\ b_remaining (l_bs s) + 1 = lc_total c
    | LAttempt _ => l_k s + b_remaining (l_bs s) = lc_total c
    | LDelay _ | LAwaitRetry => l_k s + 1 + b_remaining (l_bs s) = lc_total c
    | _ => True
    end.

  Definition linv (c : lcfg) (s : lstate) (t : ltracker) : Prop :=
    binv c s /\
    match l_ph s with
    | LAttempt u =>
        PositiveSet.mem (code (A u (tr_of t) (grace (lc_unit c) =? 0))) RS = true
    | LDelay d => dinv_w d (lt_jc t) /\ d_done d = false
    | _ => True
    end.

  Lemma linv_init c : linv c (linit c) lt0.
  Proof. split; [|exact I]. cbn. split; [reflexivity|]. unfold lc_total. reflexivity. Qed.

  Lemma fresh_attempt_in_S c t :
    PositiveSet.mem (code (A (uinit (lc_unit c)) (tr_of t) (grace (lc_unit c) =? 0))) RS = true.
  Proof. rewrite init_abs_t. apply life_cert_init. Qed.

  Lemma finish_attempt_ok c s u t :
    l_k s + b_remaining (l_bs s) = lc_total c ->
    exists r, finish_attempt c s u = Ok r /\ linv c (fst r) t.
  Proof.
    intros Hb. unfold finish_attempt.
    destruct (ures_success (uresult u)).
    - eexists. split; [reflexivity|]. split; exact I.
    - destruct (l_k s <? lc_total c) eqn:Hlt.
      + apply N.ltb_lt in Hlt.
        destruct (b_next_some (lc_js c (l_k s)) (l_bs s)) as (bs' & Hn & _ & Hrem); [lia|].
        rewrite Hn. eexists. split; [reflexivity|]. cbn [fst]. split.
        * unfold binv. cbn [l_ph l_k l_bs mkl]. lia.
        * cbn [l_ph mkl]. split; [apply dinit_inv_w|reflexivity].
      + eexists. split; [reflexivity|]. split; exact I.
  Qed.

  Lemma lstep_sound unicast c s t e :
    linv c s t -> lenv_ok unicast s t e = true ->
    exists r, lstep tbl c s e = Ok r /\ linv c (fst r) (lenv_next t e).
  Proof.
    intros [Hb Hp] Hok. unfold lstep.
    destruct (l_ph s) as [|u|d| | |] eqn:Hph.
    - (* Started handshake *)
      unfold binv in Hb. rewrite Hph in Hb.
      destruct e as [ue| |[]]; try (eexists; split; [reflexivity|]; split; [unfold binv; cbn [fst]; rewrite Hph; exact Hb|cbn [fst]; rewrite Hph; exact I]).
      + eexists. split; [reflexivity|]. cbn [fst lenv_next]. split.
        * unfold binv. cbn [l_ph l_k l_bs mkl]. lia.
        * cbn [l_ph mkl]. apply fresh_attempt_in_S.
      + eexists. split; [reflexivity|]. split; exact I.
    - (* an attempt *)
      unfold binv in Hb. rewrite Hph in Hb.
      destruct e as [ue| |a]; try (eexists; split; [reflexivity|]; split; [unfold binv; cbn [fst]; rewrite Hph; exact Hb|cbn [fst lenv_next]; rewrite Hph; exact Hp]).
      assert (Henv : env_ok (tr_of t) (creq ue) = true).
      { destruct ue; try reflexivity. cbn [lenv_ok] in Hok. apply andb_prop in Hok as [_ H]. exact H. }
      destruct (life_ustep (lc_unit c) u (tr_of t) ue Hp Henv) as ([u' outs] & Hu & Hm).
      rewrite Hu. cbn [fst] in Hm.
      assert (Htr : env_next (tr_of t) (creq ue) = tr_of (lenv_next t (LU ue))).
      { destruct ue; try (destruct t; reflexivity). symmetry. apply tr_of_next. }
      destruct (ph u') eqn:Hph'.
      5:{ destruct (finish_attempt_ok c s u' (lenv_next t (LU ue)) Hb) as (r & Hr & Hi).
          rewrite Hr. cbn [obind]. eexists. split; [reflexivity|]. exact Hi. }
      all: eexists; (split; [reflexivity|]); split;
        [unfold binv; cbn [fst l_ph l_k l_bs with_lph mkl]; exact Hb
        |cbn [fst l_ph with_lph mkl]; rewrite <- Htr; exact Hm].
    - (* the retry delay *)
      destruct Hp as [Hw Hdn]. unfold binv in Hb. rewrite Hph in Hb.
      destruct (devent_of e) as [de|] eqn:Hde.
      2:{ eexists. split; [reflexivity|]. cbn [fst].
          assert (Hn : lenv_next t e = t) by (destruct e as [[]| |]; cbn in Hde; try discriminate; reflexivity).
          rewrite Hn. split; [unfold binv; rewrite Hph; exact Hb|rewrite Hph; split; assumption]. }
      assert (Hdenv : denv_ok (lt_jc t) de = true /\ lt_jc (lenv_next t e) = denv_next (lt_jc t) de).
      { destruct e as [[]| |]; cbn in Hde; try discriminate; injection Hde as <-; try (split; reflexivity).
        cbn [lenv_ok] in Hok. apply andb_prop in Hok as [_ H]. split; [apply env_req_denv; exact H|].
        apply lenv_next_jc. }
      destruct Hdenv as [Hdo Hdj].
      destruct (dstep_weak d (lt_jc t) de Hw Hdn Hdo) as ([d' outs] & Hr & Hi).
      rewrite Hr. cbn [fst] in Hi.
      destruct (d_done d') eqn:Hdd.
      + eexists. split; [reflexivity|].
        split; [unfold binv; cbn [fst l_ph l_k l_bs with_lph mkl]; exact Hb|exact I].
      + eexists. split; [reflexivity|].
        split; [unfold binv; cbn [fst l_ph l_k l_bs with_lph mkl]; exact Hb|].
        cbn [fst l_ph with_lph mkl]. split; [|exact Hdd]. rewrite Hdj. apply Hi. reflexivity.
    - (* RetryStarted handshake *)
      unfold binv in Hb. rewrite Hph in Hb.
      destruct e as [ue| |[]]; try (eexists; split; [reflexivity|]; split; [unfold binv; cbn [fst]; rewrite Hph; exact Hb|cbn [fst]; rewrite Hph; exact I]).
      + eexists. split; [reflexivity|]. cbn [fst lenv_next]. split.
        * unfold binv. cbn [l_ph l_k l_bs mkl]. lia.
        * cbn [l_ph mkl]. apply fresh_attempt_in_S.
      + eexists. split; [reflexivity|]. split; exact I.
    - eexists. split; [reflexivity|]. split; [unfold binv|]; cbn [fst]; rewrite Hph; exact I.
    - eexists. split; [reflexivity|]. split; [unfold binv|]; cbn [fst]; rewrite Hph; exact I.
  Qed.

  Lemma lsys_step_sound unicast c y e :
    linv c (y_s y) (y_t y) ->
    lsys_step unicast tbl c y e <> LPanic /\
    forall y', lsys_step unicast tbl c y e = LOk y' -> linv c (y_s y') (y_t y').
  Proof.
    intros Hi. unfold lsys_step.
    destruct (lenv_ok unicast (y_s y) (y_t y) e) eqn:Hok; [|split; [discriminate|intros; discriminate]].
    destruct (lstep_sound unicast c (y_s y) (y_t y) e Hi Hok) as ([s' o] & Hr & Hi').
    rewrite Hr. split; [discriminate|]. intros y' H. injection H as <-. exact Hi'.
  Qed.

  Theorem life_no_panic unicast c : forall es y,
    linv c (y_s y) (y_t y) -> lsys_run unicast tbl c y es <> LPanic.
  Proof.
    induction es as [|e es IH]; intros y Hi; cbn [lsys_run]; [discriminate|].
    destruct (lsys_step_sound unicast c y e Hi) as [Hnp Hnext].
    destruct (lsys_step unicast tbl c y e) as [y'| |] eqn:E; [|contradiction|discriminate].
    apply IH. apply Hnext. reflexivity.
  Qed.

  Lemma life_linv_run unicast c : forall es y y',
    linv c (y_s y) (y_t y) -> lsys_run unicast tbl c y es = LOk y' -> linv c (y_s y') (y_t y').
  Proof.
    induction es as [|e es IH]; intros y y' Hi H; cbn [lsys_run] in H.
    - injection H as <-. exact Hi.
    - destruct (lsys_step_sound unicast c y e Hi) as [_ Hnext].
      destruct (lsys_step unicast tbl c y e) as [y1| |] eqn:E; try discriminate.
      eapply IH; [|exact H]. apply Hnext. reflexivity.
  Qed.
End LifeCert.

(* ============================================================ Part 2: the monitor *)

(* ------------------------------------------------------------ what a step does to the attempt's
   stopwatch (any pause table): only a tick moves it, only Stop / Continue touch its pause flag *)
Lemma enter_terminate_sw cfg s r m : k_sw (ck (fst (enter_terminate cfg s r m))) = k_sw (ck s).
Proof.
  unfold enter_terminate. destruct (reaped s); [destruct r; reflexivity|].
  destruct (is_kill m); [destruct r; [destruct (grace cfg =? 0)|]; reflexivity|reflexivity].
Qed.

Lemma arm_sw_act rp c a r : exec_arm rp c a = Ok r -> act (k_sw (fst r)) = act (k_sw c).
Proof.
  intros H. apply exec_arm_nums in H.
  apply (f_equal (fun x => fst (fst (fst (fst (fst x)))))) in H. exact H.
Qed.

Lemma arm_dsl_rem rp c a r : exec_arm rp c a = Ok r -> rem (k_dsl (fst r)) = rem (k_dsl c).
Proof.
  intros H. apply exec_arm_nums in H.
  apply (f_equal (fun x => snd (fst x))) in H. exact H.
Qed.

Lemma ucore_sw tbl cfg u ae r : ucore tbl cfg u ae = Ok r ->
  match ae with
  | ATick dt => k_sw (ck (fst r)) = swc_tick dt (k_sw (ck u))
  | AReq RStop | AReq RContinue => act (k_sw (ck (fst r))) = act (k_sw (ck u))
  | _ => k_sw (ck (fst r)) = k_sw (ck u)
  end.
Proof.
  intros H. destruct ae as [dt|wt| | |ok| |q].
  - cbn [ucore] in H. injection H as <-. reflexivity.
  - unfold ucore in H. destruct (ph u) as [|[]| | |]; try (injection H as <-; reflexivity).
    destruct wt.
    + pose proof (enter_terminate_sw cfg (with_hits (with_slow u true) (hits u + 1)) TTimeout
                    (timeout_method cfg)) as E.
      destruct (enter_terminate cfg (with_hits (with_slow u true) (hits u + 1)) TTimeout
                  (timeout_method cfg)) as [s2 o2].
      injection H as <-. exact E.
    + injection H as <-. reflexivity.
  - unfold ucore in H. destruct (ph u) as [|[]| | |]; injection H as <-; reflexivity.
  - unfold ucore in H. destruct (ph u) as [|[]| | |]; injection H as <-; reflexivity.
  - unfold ucore in H. destruct (ph u) as [|[]| | |]; injection H as <-; reflexivity.
  - unfold ucore in H. destruct (ph u) as [|[]| | |]; injection H as <-; reflexivity.
  - unfold ucore in H.
    destruct (ph u) as [|[]| | |] eqn:Hp; destruct q as [| |sr| |];
      try (injection H as <-; reflexivity);
      try (match type of H with obind (exec_arm ?rp ?c ?a) _ = _ =>
             destruct (exec_arm rp c a) as [x|] eqn:E; cbn [obind] in H; [|discriminate];
             injection H as <-; cbn [fst with_ck mk ck]; eapply arm_sw_act; exact E
           end).
    + injection H as <-. apply enter_terminate_sw.
Qed.

Lemma ustep_sw tbl cfg u ue r : ustep tbl cfg u ue = Ok r ->
  match ue with
  | Tick dt => k_sw (ck (fst r)) = swc_tick dt (k_sw (ck u))
  | Req RStop | Req RContinue => act (k_sw (ck (fst r))) = act (k_sw (ck u))
  | _ => k_sw (ck (fst r)) = k_sw (ck u)
  end.
Proof.
  unfold ustep. intros H.
  destruct (annotate cfg u ue) as [ae|] eqn:Ha.
  - pose proof (ucore_sw tbl cfg u ae r H) as Hs.
    destruct ue; cbn [annotate] in Ha;
      try (injection Ha as <-; exact Hs);
      try (destruct (ph u); try discriminate;
           match type of Ha with (if ?b then _ else _) = _ => destruct b end; try discriminate;
           injection Ha as <-; exact Hs).
  - injection H as <-. destruct ue; cbn [annotate] in Ha; try discriminate; reflexivity.
Qed.

(* what a step of the delay loop does to the delay sleep (any pause table) *)
Lemma dstep_dsl tbl d de r : d_done d = false -> dstep tbl d de = Ok r ->
  match de with
  | DTick dt => k_dsl (d_ck (fst r)) = slc_tick dt (k_dsl (d_ck d)) /\ d_done (fst r) = false
  | DFire => d_ck (fst r) = d_ck d /\ (d_done (fst r) = true -> slc_due (k_dsl (d_ck d)) = true)
  | DReq q => rem (k_dsl (d_ck (fst r))) = rem (k_dsl (d_ck d)) /\
              (d_done (fst r) = true -> is_cancel_req q = true)
  end.
Proof.
  intros Hdn H. unfold dstep in H. rewrite Hdn in H.
  destruct de as [dt| |[| |sr| |]].
  - injection H as <-. split; reflexivity.
  - destruct (slc_due (k_dsl (d_ck d))) eqn:E; injection H as <-; cbn [fst d_ck d_done];
      (split; [reflexivity|]); [reflexivity|]. rewrite Hdn. discriminate.
  - destruct (exec_arm true (d_ck d) (t_delay_stop tbl)) as [x|] eqn:E; cbn [obind] in H; [|discriminate].
    injection H as <-. cbn [fst d_ck d_done]. split; [eapply arm_dsl_rem; exact E|discriminate].
  - destruct (exec_arm true (d_ck d) (t_delay_cont tbl)) as [x|] eqn:E; cbn [obind] in H; [|discriminate].
    injection H as <-. cbn [fst d_ck d_done]. split; [eapply arm_dsl_rem; exact E|discriminate].
  - injection H as <-. split; reflexivity.
  - injection H as <-. split; reflexivity.
  - injection H as <-. split; [reflexivity|]. cbn [fst]. rewrite Hdn. discriminate.
Qed.

Lemma slc_tick_credit dt s :
  rem s + 0 <= rem (slc_tick dt s) + (if lpaused s then 0 else dt).
Proof.
  unfold slc_tick. destruct (lpaused s); cbn [rem]; lia.
Qed.

Lemma jc_stop_is_stop j : jc_stop j = is_stop j.
Proof. reflexivity. Qed.

Lemma dinv_paused d j : dinv d j -> d_done d = false ->
  lpaused (k_dsl (d_ck d)) = is_stop j.
Proof.
  intros H Hd. specialize (H Hd).
  change (lpaused (k_dsl (d_ck d))) with (lpaused (k_dsl (zclocks (d_ck d)))).
  rewrite H. reflexivity.
Qed.

Section LifeMonitor.
  Variable tbl : ptable.
  Variable RS : PositiveSet.t.
  Hypothesis Hcert : life_cert_with tbl RS = true.
  Hypothesis Hd : dcert tbl = true.

  (* a Stop handled by the running or terminating loop pauses the attempt's stopwatch *)
  Lemma stop_pauses_sw cfg u t r :
    PositiveSet.mem (code (A u t (grace cfg =? 0))) RS = true ->
    env_ok t (AReq RStop) = true ->
    (ph u = PRunning \/ exists x, ph u = PTerminating x) ->
    ucore tbl cfg u (AReq RStop) = Ok r ->
    spaused (k_sw (ck (fst r))) = true.
  Proof.
    intros Hm Hok Hp Hr.
    destruct (life_core_step tbl RS Hcert cfg u t (AReq RStop) Hm Hok eq_refl) as (Htr & _).
    cbn [norm_ev] in Htr. unfold life_trans_ok in Htr. cbn [A a_t a_u a_g0] in Htr.
    rewrite Hok in Htr. cbn [aguard andb] in Htr.
    pose proof (ucore_abs tbl cfg u (AReq RStop)) as Hsim. rewrite Hr in Hsim.
    destruct (ucore tbl (abs_cfg (grace cfg =? 0)) (abs_state u) (AReq RStop)) as [r1|]; [|discriminate].
    cbn [omap] in Hsim. assert (Hs : ares r1 = ares r) by congruence. clear Hsim.
    apply (f_equal fst) in Hs. unfold ares in Hs. cbn [fst] in Hs. rename Hs into Hsim.
    change (ph (abs_state u)) with (ph u) in Htr.
    assert (Hop : owned_paused (abs_state (fst r1)) = true).
    { destruct Hp as [Hp|[x Hp]]; rewrite Hp in Htr; apply andb_prop in Htr as [H _]; exact H. }
    rewrite Hsim in Hop.
    assert (Hph : ph (fst r) = ph u).
    { unfold ucore in Hr. destruct Hp as [Hp|[x Hp]]; rewrite Hp in Hr;
        match type of Hr with obind (exec_arm ?rp ?c ?a) _ = _ =>
          destruct (exec_arm rp c a) as [x1|]; cbn [obind] in Hr; [|discriminate] end;
        injection Hr as <-; reflexivity. }
    unfold owned_paused in Hop. change (ph (abs_state (fst r))) with (ph (fst r)) in Hop.
    rewrite Hph in Hop.
    destruct Hp as [Hp|[x Hp]]; rewrite Hp in Hop.
    - apply andb_prop in Hop as [H _]. exact H.
    - apply andb_prop in Hop as [H _]. apply andb_prop in H as [H _]. exact H.
  Qed.

  (* the fields of the successor of a monitored step *)
  Lemma lsys_step_fields unicast c y e y' :
    lsys_step unicast tbl c y e = LOk y' ->
    lenv_ok unicast (y_s y) (y_t y) e = true /\
    exists o, lstep tbl c (y_s y) e = Ok (y_s y', o) /\
      let s := y_s y in let t := y_t y in let s' := y_s y' in
      let dt := tick_of e in
      let un1 := y_un y + (if jc_stop (lt_jc t) then 0 else dt) in
      let run1 := y_run y + match l_ph s with
                            | LDelay d => if lpaused (k_dsl (d_ck d)) then 0 else dt
                            | _ => 0 end in
      y_t y' = lenv_next t e /\
      y_un y' = (if phase_begins s s' then 0 else un1) /\
      y_run y' = (if phase_begins s s' then 0 else run1) /\
      y_dc y' = y_dc y + match l_ph s with
                         | LDelay _ => if lt_cancel t then dt else 0
                         | _ => 0 end /\
      y_bad y' = (y_bad y || (phase_begins s s' && jc_stop (lt_jc (lenv_next t e)))
                  || (ignores_job_control s && match e with LU (Req RStop) => true | _ => false end)) /\
      y_log y' = log_step s s' e un1 run1 (y_log y).
  Proof.
    unfold lsys_step. intros H.
    destruct (lenv_ok unicast (y_s y) (y_t y) e); [|discriminate]. split; [reflexivity|].
    destruct (lstep tbl c (y_s y) e) as [[s' o]|]; [|discriminate].
    injection H as <-. exists o. cbn. repeat split; reflexivity.
  Qed.

  (* ---------------------------------------------------------- the monitor's invariant *)
  Definition att_good (u : ustate) (t : ltracker) (un : N) : Prop :=
    act (k_sw (ck u)) <= un /\ (lt_jc t = JStop -> spaused (k_sw (ck u)) = true).
  Definition del_good (d : dstate) (t : ltracker) (un run : N) : Prop :=
    run <= un /\ dinv d (lt_jc t).

  (* unconditionally: a delay that was not cut short ran its sleep for the whole configured time *)
  Definition log_always (log : list lrec) : Prop :=
    forall k dl un run, In (RDelay k dl un run false) log -> dl <= run.
  (* outside the known class: reported time and the delay exclude stopped time *)
  Definition log_good (log : list lrec) : Prop :=
    (forall k res sl tt un, In (RAttempt k res sl tt un) log -> tt <= un) /\
    (forall k dl un run, In (RDelay k dl un run false) log -> dl <= un).

  Definition minv (c : lcfg) (y : lsys) : Prop :=
    linv RS c (y_s y) (y_t y) /\
    match l_ph (y_s y) with
    | LAttempt u => ph u <> PDone
    | LDelay d => l_delay (y_s y) <= rem (k_dsl (d_ck d)) + y_run y
    | _ => True
    end /\
    log_always (y_log y) /\
    (y_bad y = false ->
       match l_ph (y_s y) with
       | LAttempt u => att_good u (y_t y) (y_un y)
       | LDelay d => del_good d (y_t y) (y_un y) (y_run y)
       | _ => True
       end /\ log_good (y_log y)).

  Lemma minv_init c : minv c (lsys0 c).
  Proof.
    split; [apply linv_init|]. split; [exact I|]. split; [intros k dl un run []|].
    intros _. split; [exact I|]. split; [intros k res sl tt un []|intros k dl un run []].
  Qed.

  Lemma same_state_begins s : phase_begins s s = false.
  Proof. unfold phase_begins. destruct (l_ph s); reflexivity. Qed.
  Lemma same_state_log s e un run log : log_step s s e un run log = log.
  Proof. unfold log_step. destruct (l_ph s); reflexivity. Qed.

  (* a step that changes neither the unit nor the tracker, and during an attempt or a delay
     carries no time *)
  Lemma minv_idle c y y' :
    minv c y -> y_s y' = y_s y -> y_t y' = y_t y -> y_bad y' = y_bad y -> y_log y' = y_log y ->
    (consuming (y_s y) = true -> y_un y' = y_un y /\ y_run y' = y_run y) ->
    minv c y'.
  Proof.
    intros (Hli & Hph & Hla & Hg) Hs Ht Hb Hl Hc. unfold minv. rewrite Hs, Ht, Hb, Hl.
    split; [exact Hli|]. split.
    - destruct (l_ph (y_s y)) eqn:Hp; try exact Hph.
      destruct Hc as [_ Hr]; [unfold consuming; rewrite Hp; reflexivity|]. rewrite Hr. exact Hph.
    - split; [exact Hla|]. intros Hbad. specialize (Hg Hbad). destruct Hg as [Hg1 Hg2].
      split; [|exact Hg2].
      destruct (l_ph (y_s y)) eqn:Hp; try exact Hg1;
        (destruct Hc as [Hu Hr]; [unfold consuming; rewrite Hp; reflexivity|]); rewrite Hu, ?Hr; exact Hg1.
  Qed.

  Lemma lenv_next_jc_other t r :
    r <> RStop -> r <> RContinue -> lt_jc (lenv_next t (LU (Req r))) = lt_jc t.
  Proof. destruct r as [| |[]| |]; intros H1 H2; try reflexivity; contradiction. Qed.

  (* one step of an attempt keeps "reported time <= unstopped time" and "Stop outstanding =>
     stopwatch paused", unless a Stop lands in a loop that ignores job control *)
  Lemma att_good_step cfg u t un ue u' outs :
    PositiveSet.mem (code (A u (tr_of t) (grace cfg =? 0))) RS = true ->
    (ue = Req RStop -> env_ok (tr_of t) (AReq RStop) = true /\
                       (ph u = PRunning \/ exists x, ph u = PTerminating x)) ->
    ustep tbl cfg u ue = Ok (u', outs) -> att_good u t un ->
    att_good u' (lenv_next t (LU ue)) (un + (if jc_stop (lt_jc t) then 0 else tick_of (LU ue))).
  Proof.
    intros Hm Hstop Hu [Ha Hj].
    pose proof (ustep_sw tbl cfg u ue (u', outs) Hu) as Hs. cbn [fst] in Hs.
    unfold att_good.
    destruct ue as [dt| | | |ok| |r]; cbn [tick_of]; [cbn [lenv_next]..|].
    - (* tick *)
      rewrite Hs. destruct (spaused (k_sw (ck u))) eqn:Hp.
      + rewrite tick_paused_stopwatch by exact Hp. split; [|intros _; exact Hp].
        destruct (jc_stop (lt_jc t)); lia.
      + assert (Hn : jc_stop (lt_jc t) = false).
        { destruct (lt_jc t) eqn:Hjc; try reflexivity. specialize (Hj eq_refl). congruence. }
        rewrite Hn. rewrite tick_running_stopwatch by exact Hp. split; [lia|].
        intros Hjc. rewrite Hjc in Hn. discriminate.
    - rewrite Hs. split; [destruct (jc_stop (lt_jc t)); lia|exact Hj].
    - rewrite Hs. split; [destruct (jc_stop (lt_jc t)); lia|exact Hj].
    - rewrite Hs. split; [destruct (jc_stop (lt_jc t)); lia|exact Hj].
    - rewrite Hs. split; [destruct (jc_stop (lt_jc t)); lia|exact Hj].
    - rewrite Hs. split; [destruct (jc_stop (lt_jc t)); lia|exact Hj].
    - assert (Hun : un + (if jc_stop (lt_jc t) then 0 else 0) = un) by (destruct (jc_stop (lt_jc t)); lia).
      rewrite Hun.
      destruct r as [| |sr| |].
      + (* Stop *)
        rewrite Hs. split; [exact Ha|]. intros _.
        destruct (Hstop eq_refl) as [Hok Hph].
        unfold ustep in Hu. cbn [annotate] in Hu.
        apply (stop_pauses_sw cfg u (tr_of t) (u', outs) Hm Hok Hph Hu).
      + rewrite Hs. split; [exact Ha|]. cbn. discriminate.
      + rewrite Hs. split; [exact Ha|]. rewrite lenv_next_jc_other by discriminate. exact Hj.
      + rewrite Hs. split; [exact Ha|]. rewrite lenv_next_jc_other by discriminate. exact Hj.
      + rewrite Hs. split; [exact Ha|]. rewrite lenv_next_jc_other by discriminate. exact Hj.
  Qed.

  (* one step of the delay loop: the sleep's remaining time plus the time it has been running
     covers the configured delay; outside the known class that running time is unstopped time *)
  Lemma del_step d t un run dl e de d' outs :
    dstep tbl d de = Ok (d', outs) -> devent_of e = Some de -> d_done d = false ->
    denv_ok (lt_jc t) de = true -> lt_jc (lenv_next t e) = denv_next (lt_jc t) de ->
    dl <= rem (k_dsl (d_ck d)) + run ->
    let un1 := un + (if jc_stop (lt_jc t) then 0 else tick_of e) in
    let run1 := run + (if lpaused (k_dsl (d_ck d)) then 0 else tick_of e) in
    (d_done d' = false -> dl <= rem (k_dsl (d_ck d')) + run1) /\
    (d_done d' = true ->
       match e with LU (Req r) => is_cancel_req r | _ => false end = false -> dl <= run1) /\
    (del_good d t un run ->
       run1 <= un1 /\ (d_done d' = false -> dinv d' (lt_jc (lenv_next t e)))).
  Proof.
    intros Hst Hde Hdn Hok Hjc Hdl un1 run1.
    pose proof (dstep_dsl tbl d de (d', outs) Hdn Hst) as Hnum. cbn [fst] in Hnum.
    assert (Hinv : del_good d t un run ->
                   d_done d' = false -> dinv d' (lt_jc (lenv_next t e))).
    { intros [_ Hi] _. destruct (dstep_sound tbl Hd d (lt_jc t) de Hi Hok) as (r & Hr & Hi' & _).
      rewrite Hst in Hr. injection Hr as <-. cbn [fst] in Hi'. rewrite Hjc. exact Hi'. }
    destruct e as [[dt| | | | | |r]| |a]; cbn [devent_of] in Hde; try discriminate;
      injection Hde as <-; subst un1 run1; cbn [tick_of].
    - (* tick *)
      destruct Hnum as [Hk Hdd]. split; [|split].
      + intros _. rewrite Hk. pose proof (slc_tick_credit dt (k_dsl (d_ck d))). lia.
      + rewrite Hdd. discriminate.
      + intros Hg. split; [|apply Hinv; exact Hg]. destruct Hg as [Hru Hi].
        rewrite (dinv_paused d (lt_jc t) Hi Hdn). change (jc_stop (lt_jc t)) with (is_stop (lt_jc t)).
        destruct (is_stop (lt_jc t)); lia.
    - (* request *)
      destruct Hnum as [Hk Hcut].
      assert (E1 : un + (if jc_stop (lt_jc t) then 0 else 0) = un) by (destruct (jc_stop (lt_jc t)); lia).
      assert (E2 : run + (if lpaused (k_dsl (d_ck d)) then 0 else 0) = run)
        by (destruct (lpaused (k_dsl (d_ck d))); lia).
      rewrite E1, E2. split; [|split].
      + intros _. rewrite Hk. exact Hdl.
      + intros Hdd Hc. specialize (Hcut Hdd). congruence.
      + intros Hg. split; [exact (proj1 Hg)|apply Hinv; exact Hg].
    - (* the sleep completes *)
      destruct Hnum as [Hk Hdue].
      assert (E1 : un + (if jc_stop (lt_jc t) then 0 else 0) = un) by (destruct (jc_stop (lt_jc t)); lia).
      assert (E2 : run + (if lpaused (k_dsl (d_ck d)) then 0 else 0) = run)
        by (destruct (lpaused (k_dsl (d_ck d))); lia).
      rewrite E1, E2. split; [|split].
      + intros _. rewrite Hk. exact Hdl.
      + intros Hdd _. specialize (Hdue Hdd). unfold slc_due in Hdue.
        apply andb_prop in Hdue as [_ Hz]. apply N.eqb_eq in Hz. lia.
      + intros Hg. split; [exact (proj1 Hg)|apply Hinv; exact Hg].
  Qed.

  (* ---------------------------------------------------------- kinds of monitored steps *)
  Lemma minv_passive c y y' :
    minv c y -> linv RS c (y_s y') (y_t y') -> consuming (y_s y') = false ->
    y_log y' = y_log y -> (y_bad y' = false -> y_bad y = false) -> minv c y'.
  Proof.
    intros (_ & _ & Hla & Hg) Hli Hc Hl Hb. unfold minv. rewrite Hl.
    split; [exact Hli|]. unfold consuming in Hc.
    split; [destruct (l_ph (y_s y')); try discriminate; exact I|].
    split; [exact Hla|]. intros Hbad. destruct (Hg (Hb Hbad)) as [_ Hg2].
    split; [destruct (l_ph (y_s y')); try discriminate; exact I|exact Hg2].
  Qed.

  Lemma minv_begin_attempt c y y' cfgu :
    minv c y -> linv RS c (y_s y') (y_t y') -> l_ph (y_s y') = LAttempt (uinit cfgu) ->
    y_un y' = 0 -> y_log y' = y_log y ->
    (y_bad y' = false -> y_bad y = false /\ jc_stop (lt_jc (y_t y')) = false) -> minv c y'.
  Proof.
    intros (_ & _ & Hla & Hg) Hli Hp Hu Hl Hb. unfold minv. rewrite Hl, Hp, Hu.
    split; [exact Hli|]. split; [discriminate|]. split; [exact Hla|].
    intros Hbad. destruct (Hb Hbad) as [Hb1 Hb2]. destruct (Hg Hb1) as [_ Hg2].
    split; [|exact Hg2]. split; [cbn; lia|]. intros Hj. rewrite Hj in Hb2. discriminate.
  Qed.

  Lemma idle_fields unicast c y e y' :
    lsys_step unicast tbl c y e = LOk y' -> y_s y' = y_s y -> lenv_next (y_t y) e = y_t y ->
    (consuming (y_s y) = true -> tick_of e = 0) ->
    match e with LU (Req RStop) => False | _ => True end ->
    y_t y' = y_t y /\ y_bad y' = y_bad y /\ y_log y' = y_log y /\
    (consuming (y_s y) = true -> y_un y' = y_un y /\ y_run y' = y_run y).
  Proof.
    intros Hstep Hs Hn Htick Hns.
    destruct (lsys_step_fields unicast c y e y' Hstep) as (_ & o & _ & Ht & Hun & Hrun & _ & Hbad & Hlog).
    cbv zeta in Ht, Hun, Hrun, Hbad, Hlog.
    rewrite Hs in Hun, Hrun, Hbad, Hlog. rewrite same_state_begins in Hun, Hrun, Hbad.
    rewrite same_state_log in Hlog. rewrite Hn in Ht.
    split; [exact Ht|]. split; [|split; [exact Hlog|]].
    - rewrite Hbad. cbn [andb]. rewrite Bool.orb_false_r.
      assert (E : match e with LU (Req RStop) => true | _ => false end = false).
      { destruct e as [[| | | | | |[]]| |]; try reflexivity. contradiction. }
      rewrite E, Bool.andb_false_r, Bool.orb_false_r. reflexivity.
    - intros Hc. rewrite (Htick Hc) in Hun, Hrun. split.
      + rewrite Hun. destruct (jc_stop (lt_jc (y_t y))); lia.
      + rewrite Hrun. destruct (l_ph (y_s y)); try lia.
        destruct (lpaused (k_dsl (d_ck d))); lia.
  Qed.

  Lemma minv_idle_step unicast c y e y' :
    minv c y -> lsys_step unicast tbl c y e = LOk y' -> y_s y' = y_s y ->
    lenv_next (y_t y) e = y_t y -> (consuming (y_s y) = true -> tick_of e = 0) ->
    match e with LU (Req RStop) => False | _ => True end -> minv c y'.
  Proof.
    intros Hi Hstep Hs Hn Htick Hns.
    destruct (idle_fields unicast c y e y' Hstep Hs Hn Htick Hns) as (Ht & Hb & Hl & Hc).
    apply (minv_idle c y y' Hi Hs Ht Hb Hl Hc).
  Qed.

  Lemma devent_env unicast s t e de :
    lenv_ok unicast s t e = true -> devent_of e = Some de ->
    denv_ok (lt_jc t) de = true /\ lt_jc (lenv_next t e) = denv_next (lt_jc t) de.
  Proof.
    intros Hok Hde.
    destruct e as [[]| |]; cbn in Hde; try discriminate; injection Hde as <-; try (split; reflexivity).
    cbn [lenv_ok] in Hok. apply andb_prop in Hok as [_ H]. split; [apply env_req_denv; exact H|].
    apply lenv_next_jc.
  Qed.

  Lemma bad_false_parts (a b1 b2 c1 c2 : bool) :
    a || (b1 && b2) || (c1 && c2) = false -> a = false /\ b1 && b2 = false /\ c1 && c2 = false.
  Proof. destruct a, b1, b2, c1, c2; cbn; intros H; try discriminate; auto. Qed.

  Lemma in_cons_attempt (P : lrec -> Prop) k res sl tt un log x :
    In x (RAttempt k res sl tt un :: log) ->
    (x = RAttempt k res sl tt un) \/ In x log.
  Proof. intros [H|H]; [left; symmetry; exact H|right; exact H]. Qed.

  Lemma minv_idle_nonconsuming unicast c y e y' :
    minv c y -> lsys_step unicast tbl c y e = LOk y' -> consuming (y_s y) = false ->
    y_s y' = y_s y -> minv c y'.
  Proof.
    intros Hi Hstep Hc Hs.
    destruct (lsys_step_fields unicast c y e y' Hstep) as (Hok & _).
    assert (Hnr : forall r, e <> LU (Req r)).
    { intros r ->. cbn [lenv_ok] in Hok. rewrite Hc in Hok. discriminate. }
    apply (minv_idle_step unicast c y e y' Hi Hstep Hs).
    - destruct e as [[| | | | | |r]| |]; try reflexivity. exfalso. apply (Hnr r). reflexivity.
    - rewrite Hc. discriminate.
    - destruct e as [[| | | | | |r]| |]; try exact I. exfalso. apply (Hnr r). reflexivity.
  Qed.

  Lemma minv_idle_consuming unicast c y e y' :
    minv c y -> lsys_step unicast tbl c y e = LOk y' -> y_s y' = y_s y ->
    match e with LU (Tick _) | LU (Req _) => False | _ => True end -> minv c y'.
  Proof.
    intros Hi Hstep Hs He.
    apply (minv_idle_step unicast c y e y' Hi Hstep Hs).
    - destruct e as [[| | | | | |r]| |]; try reflexivity. contradiction.
    - intros _. destruct e as [[| | | | | |r]| |]; try reflexivity. contradiction.
    - destruct e as [[| | | | | |r]| |]; try exact I. contradiction.
  Qed.

  Lemma minv_step unicast c y e y' :
    minv c y -> lsys_step unicast tbl c y e = LOk y' -> minv c y'.
  Proof.
    intros Hinv Hstep.
    assert (Hli' : linv RS c (y_s y') (y_t y')).
    { destruct Hinv as [Hli _].
      destruct (lsys_step_sound tbl RS Hcert Hd unicast c y e Hli) as [_ H]. apply H. exact Hstep. }
    destruct (lsys_step_fields unicast c y e y' Hstep)
      as (Hok & o & Hl & Ht & Hun & Hrun & _ & Hbad & Hlog).
    cbv zeta in Ht, Hun, Hrun, Hbad, Hlog.
    unfold lstep in Hl.
    destruct (l_ph (y_s y)) as [|u|d| | |] eqn:Hp.
    - (* waiting for the answer to Started *)
      assert (Hnc : consuming (y_s y) = false) by (unfold consuming; rewrite Hp; reflexivity).
      destruct e as [ue| |[]];
        try (injection Hl as Hs _; apply (minv_idle_nonconsuming unicast c y _ y' Hinv Hstep Hnc (eq_sym Hs))).
      + injection Hl as Hs _.
        apply (minv_begin_attempt c y y' (lc_unit c) Hinv Hli').
        * rewrite <- Hs. reflexivity.
        * rewrite Hun, <- Hs. unfold phase_begins. rewrite Hp. reflexivity.
        * rewrite Hlog. unfold log_step. rewrite Hp. reflexivity.
        * intros Hb. rewrite Hbad in Hb. apply bad_false_parts in Hb as (Hb1 & Hb2 & _).
          split; [exact Hb1|]. rewrite <- Hs in Hb2. unfold phase_begins in Hb2. rewrite Hp in Hb2.
          cbn [l_ph mkl andb] in Hb2. rewrite Ht. exact Hb2.
      + injection Hl as Hs _. apply (minv_passive c y y' Hinv Hli').
        * rewrite <- Hs. reflexivity.
        * rewrite Hlog. unfold log_step. rewrite Hp. reflexivity.
        * intros Hb. rewrite Hbad in Hb. apply bad_false_parts in Hb as (Hb1 & _). exact Hb1.
    - (* an attempt *)
      destruct e as [ue| |a];
        try (injection Hl as Hs _; apply (minv_idle_consuming unicast c y _ y' Hinv Hstep (eq_sym Hs) I)).
      destruct (ustep tbl (lc_unit c) u ue) as [[u' outs]|] eqn:Hu; [|discriminate].
      destruct Hinv as (Hli & Hph & Hla & Hg). rewrite Hp in Hph, Hg.
      unfold linv in Hli. rewrite Hp in Hli. destruct Hli as [Hbinv Hm].
      (* what holds of the attempt after the step when the run stays outside the known class *)
      assert (Hatt : y_bad y' = false ->
                     y_bad y = false /\
                     att_good u' (y_t y')
                              (y_un y + (if jc_stop (lt_jc (y_t y)) then 0 else tick_of (LU ue)))).
      { intros Hb. rewrite Hbad in Hb. apply bad_false_parts in Hb as (Hb1 & _ & Hb3).
        split; [exact Hb1|]. rewrite Ht.
        apply (att_good_step (lc_unit c) u (y_t y) (y_un y) ue u' outs Hm); [|exact Hu|apply Hg; exact Hb1].
        intros ->. cbn [lenv_ok] in Hok. apply andb_prop in Hok as [_ Hok]. split; [exact Hok|].
        rewrite Bool.andb_true_r in Hb3. unfold ignores_job_control in Hb3. rewrite Hp in Hb3.
        destruct (ph u) as [|x| | |]; try discriminate; [left; reflexivity|right; exists x; reflexivity|].
        exfalso. apply Hph. reflexivity. }
      destruct (ph u') eqn:Hph'.
      5:{ (* run_test returned *)
        destruct (finish_attempt c (y_s y) u') as [[s2 o2]|] eqn:Hf; cbn [obind] in Hl; [|discriminate].
        cbn [fst] in Hl. injection Hl as Hs _.
        assert (Hshape :
          l_done s2 = {| ar_no := l_k (y_s y); ar_result := uresult u'; ar_slow := slow u';
                         ar_time := time_taken u' |} :: l_done (y_s y) /\
          (l_ph s2 = LFinishedP \/ exists dl, l_ph s2 = LDelay (dinit dl) /\ l_delay s2 = dl)).
        { unfold finish_attempt in Hf. destruct (ures_success (uresult u')).
          - injection Hf as <- _. split; [reflexivity|left; reflexivity].
          - destruct (l_k (y_s y) <? lc_total c).
            + destruct (b_next (lc_js c (l_k (y_s y))) (l_bs (y_s y))) as [[dl bs']|]; [|discriminate].
              injection Hf as <- _. split; [reflexivity|right; exists dl; split; reflexivity].
            + injection Hf as <- _. split; [reflexivity|left; reflexivity]. }
        destruct Hshape as [Hdone Hshape]. rewrite <- Hs in *.
        assert (Hlog' : y_log y' =
                        RAttempt (l_k (y_s y)) (uresult u') (slow u') (time_taken u')
                                 (y_un y + (if jc_stop (lt_jc (y_t y)) then 0 else tick_of (LU ue)))
                                 :: y_log y).
        { rewrite Hlog. unfold log_step. rewrite Hp, Hdone.
          destruct Hshape as [E|(dl & E & _)]; rewrite E; reflexivity. }
        assert (Hla' : log_always (y_log y')).
        { rewrite Hlog'. intros k dl un run [H|H]; [discriminate|]. eapply Hla; exact H. }
        assert (Hlg' : y_bad y' = false -> log_good (y_log y')).
        { intros Hb. destruct (Hatt Hb) as [Hb1 [Ha _]]. destruct (Hg Hb1) as [_ [Hg1 Hg2]].
          rewrite Hlog'. split.
          - intros k res sl tt un [H|H]; [|eapply Hg1; exact H].
            injection H as _ _ _ <- <-. exact Ha.
          - intros k dl un run [H|H]; [discriminate|]. eapply Hg2; exact H. }
        destruct Hshape as [E|(dl & E & Edl)].
        - unfold minv. rewrite <- Hs, E. split; [exact Hli'|]. split; [exact I|]. split; [exact Hla'|].
          intros Hb. split; [exact I|apply Hlg'; exact Hb].
        - assert (Hbeg : phase_begins (y_s y) s2 = true) by (unfold phase_begins; rewrite Hp, E; reflexivity).
          rewrite Hbeg in Hun, Hrun, Hbad.
          unfold minv. rewrite <- Hs, E, Edl, Hun, Hrun.
          split; [exact Hli'|]. split; [change (rem (k_dsl (d_ck (dinit dl)))) with dl; lia|].
          split; [exact Hla'|]. intros Hb. split; [|apply Hlg'; exact Hb].
          rewrite Hbad in Hb. apply bad_false_parts in Hb as (_ & Hb2 & _). cbn [andb] in Hb2.
          split; [lia|]. intros _. rewrite <- Ht in Hb2.
          change (is_stop (lt_jc (y_t y'))) with (jc_stop (lt_jc (y_t y'))). rewrite Hb2. reflexivity. }
      all: injection Hl as Hs _; rewrite <- Hs in *;
        assert (Hbeg : phase_begins (y_s y) (with_lph (y_s y) (LAttempt u')) = false)
          by (unfold phase_begins; rewrite Hp; reflexivity);
        rewrite Hbeg in Hun, Hrun, Hbad;
        assert (Hlog' : y_log y' = y_log y) by (rewrite Hlog; unfold log_step; rewrite Hp; reflexivity);
        unfold minv; rewrite <- Hs, Hlog', Hun; cbn [l_ph with_lph mkl];
        (split; [exact Hli'|]); (split; [rewrite Hph'; discriminate|]); (split; [exact Hla|]);
        intros Hb; destruct (Hatt Hb) as [Hb1 Ha]; (split; [exact Ha|apply Hg; exact Hb1]).
    - (* the retry delay *)
      destruct (devent_of e) as [de|] eqn:Hde.
      2:{ injection Hl as Hs _.
          apply (minv_idle_consuming unicast c y e y' Hinv Hstep (eq_sym Hs)).
          destruct e as [[]| |]; cbn in Hde; try discriminate; exact I. }
      destruct (dstep tbl d de) as [[d' outs]|] eqn:Hds; [|discriminate].
      destruct Hinv as (Hli & Hph & Hla & Hg). rewrite Hp in Hph, Hg.
      unfold linv in Hli. rewrite Hp in Hli. destruct Hli as [Hbinv [Hw Hdn]].
      destruct (devent_env unicast (y_s y) (y_t y) e de Hok Hde) as [Hdo Hdj].
      destruct (del_step d (y_t y) (y_un y) (y_run y) (l_delay (y_s y)) e de d' outs
                         Hds Hde Hdn Hdo Hdj Hph) as (H1 & H2 & H3).
      cbv zeta in H1, H2, H3.
      assert (Hig : ignores_job_control (y_s y) = false)
        by (unfold ignores_job_control; rewrite Hp; reflexivity).
      rewrite Hig in Hbad. cbn [andb] in Hbad. rewrite Bool.orb_false_r in Hbad.
      destruct (d_done d') eqn:Hdd.
      + (* the wait is over: on to the RetryStarted handshake *)
        injection Hl as Hs _.
        assert (Hbeg : phase_begins (y_s y) (y_s y') = false)
          by (rewrite <- Hs; unfold phase_begins; rewrite Hp; reflexivity).
        rewrite Hbeg in Hbad. cbn [andb] in Hbad. rewrite Bool.orb_false_r in Hbad.
        assert (Hlog' : y_log y' =
                  RDelay (l_k (y_s y)) (l_delay (y_s y))
                         (y_un y + (if jc_stop (lt_jc (y_t y)) then 0 else tick_of e))
                         (y_run y + (if lpaused (k_dsl (d_ck d)) then 0 else tick_of e))
                         match e with LU (Req r) => is_cancel_req r | _ => false end :: y_log y).
        { rewrite Hlog, <- Hs. unfold log_step. rewrite Hp. reflexivity. }
        unfold minv. rewrite <- Hs in Hli' |- *. cbn [l_ph with_lph mkl]. rewrite Hlog'.
        split; [exact Hli'|]. split; [exact I|]. split.
        * intros k dl un run [H|H]; [|eapply Hla; exact H].
          injection H as _ <- _ <- Hc. apply H2; [reflexivity|exact Hc].
        * intros Hb. rewrite Hbad in Hb. destruct (Hg Hb) as [Hdg [Hg1 Hg2]].
          split; [exact I|]. split.
          -- intros k res sl tt un [H|H]; [discriminate|]. eapply Hg1; exact H.
          -- intros k dl un run [H|H]; [|eapply Hg2; exact H].
             injection H as _ <- <- _ Hc. destruct (H3 Hdg) as [Hru _].
             specialize (H2 eq_refl Hc). lia.
      + (* still waiting *)
        injection Hl as Hs _.
        assert (Hbeg : phase_begins (y_s y) (y_s y') = false)
          by (rewrite <- Hs; unfold phase_begins; rewrite Hp; reflexivity).
        rewrite Hbeg in Hbad, Hun, Hrun. cbn [andb] in Hbad. rewrite Bool.orb_false_r in Hbad.
        assert (Hlog' : y_log y' = y_log y) by (rewrite Hlog, <- Hs; unfold log_step; rewrite Hp; reflexivity).
        unfold minv. rewrite <- Hs in Hli' |- *. cbn [l_ph l_delay with_lph mkl]. rewrite Hlog', Hun, Hrun.
        split; [exact Hli'|]. split; [apply H1; reflexivity|]. split; [exact Hla|].
        intros Hb. rewrite Hbad in Hb. destruct (Hg Hb) as [Hdg Hlg]. split; [|exact Hlg].
        destruct (H3 Hdg) as [Hru Hdi]. split; [exact Hru|]. rewrite Ht. apply Hdi. reflexivity.
    - (* waiting for the answer to RetryStarted *)
      assert (Hnc : consuming (y_s y) = false) by (unfold consuming; rewrite Hp; reflexivity).
      destruct e as [ue| |[]];
        try (injection Hl as Hs _; apply (minv_idle_nonconsuming unicast c y _ y' Hinv Hstep Hnc (eq_sym Hs))).
      + injection Hl as Hs _.
        apply (minv_begin_attempt c y y' (lc_unit c) Hinv Hli').
        * rewrite <- Hs. reflexivity.
        * rewrite Hun, <- Hs. unfold phase_begins. rewrite Hp. reflexivity.
        * rewrite Hlog. unfold log_step. rewrite Hp. reflexivity.
        * intros Hb. rewrite Hbad in Hb. apply bad_false_parts in Hb as (Hb1 & Hb2 & _).
          split; [exact Hb1|]. rewrite <- Hs in Hb2. unfold phase_begins in Hb2. rewrite Hp in Hb2.
          cbn [l_ph mkl andb] in Hb2. rewrite Ht. exact Hb2.
      + injection Hl as Hs _. apply (minv_passive c y y' Hinv Hli').
        * rewrite <- Hs. reflexivity.
        * rewrite Hlog. unfold log_step. rewrite Hp. reflexivity.
        * intros Hb. rewrite Hbad in Hb. apply bad_false_parts in Hb as (Hb1 & _). exact Hb1.
    - injection Hl as Hs _. apply (minv_idle_nonconsuming unicast c y e y' Hinv Hstep); [|symmetry; exact Hs].
      unfold consuming. rewrite Hp. reflexivity.
    - injection Hl as Hs _. apply (minv_idle_nonconsuming unicast c y e y' Hinv Hstep); [|symmetry; exact Hs].
      unfold consuming. rewrite Hp. reflexivity.
  Qed.
End LifeMonitor.

(* ------------------------------------------------------------ runs *)
Lemma minv_run tbl RS (Hcert : life_cert_with tbl RS = true) (Hd : dcert tbl = true) unicast c :
  forall es y y', minv RS c y -> lsys_run unicast tbl c y es = LOk y' -> minv RS c y'.
Proof.
  induction es as [|e es IH]; intros y y' Hi H; cbn [lsys_run] in H.
  - injection H as <-. exact Hi.
  - destruct (lsys_step unicast tbl c y e) as [y1| |] eqn:E; try discriminate.
    eapply IH; [|exact H]. eapply minv_step; eassumption.
Qed.

Lemma lsys_run_app unicast tbl c : forall es1 es2 y,
  lsys_run unicast tbl c y (es1 ++ es2) =
  match lsys_run unicast tbl c y es1 with
  | LOk y1 => lsys_run unicast tbl c y1 es2
  | r => r
  end.
Proof.
  induction es1 as [|e es1 IH]; intros es2 y; cbn [lsys_run app]; [reflexivity|].
  destruct (lsys_step unicast tbl c y e); try reflexivity. apply IH.
Qed.

(* ------------------------------------------------------------ cancellation (no certificate
   needed: these follow from the control flow of run_test_instance and the environment rules) *)
Lemma finish_attempt_k c s u r : finish_attempt c s u = Ok r ->
  l_k (fst r) = l_k s /\ l_ph (fst r) <> LAwaitStart.
Proof.
  unfold finish_attempt. intros H.
  destruct (ures_success (uresult u)); [injection H as <-; split; [reflexivity|discriminate]|].
  destruct (l_k s <? lc_total c).
  - destruct (b_next (lc_js c (l_k s)) (l_bs s)) as [[d bs']|]; [|discriminate].
    injection H as <-. split; [reflexivity|discriminate].
  - injection H as <-. split; [reflexivity|discriminate].
Qed.

(* once a cancel request has been delivered the attempt number never changes again *)
Lemma cancel_freezes_attempts unicast tbl c y e y' :
  lsys_step unicast tbl c y e = LOk y' ->
  lt_cancel (y_t y) = true -> l_ph (y_s y) <> LAwaitStart ->
  l_k (y_s y') = l_k (y_s y) /\ lt_cancel (y_t y') = true /\ l_ph (y_s y') <> LAwaitStart.
Proof.
  unfold lsys_step. intros H Hc Hns.
  destruct (lenv_ok unicast (y_s y) (y_t y) e) eqn:Hok; [|discriminate].
  destruct (lstep tbl c (y_s y) e) as [[s' o]|] eqn:Hl; [|discriminate].
  injection H as <-. cbn [y_s y_t].
  assert (Hc' : lt_cancel (lenv_next (y_t y) e) = true).
  { destruct e as [[| | | | | |r]| |]; cbn [lenv_next lt_cancel]; try exact Hc. rewrite Hc. reflexivity. }
  split; [|split; [exact Hc'|]].
  - unfold lstep in Hl. destruct (l_ph (y_s y)) as [|u|d| | |] eqn:Hp.
    + contradiction.
    + destruct e as [ue| |a]; try (injection Hl as <- _; reflexivity).
      destruct (ustep tbl (lc_unit c) u ue) as [[u' outs]|]; [|discriminate].
      destruct (ph u'); try (injection Hl as <- _; reflexivity).
      destruct (finish_attempt c (y_s y) u') as [r|] eqn:Hf; cbn [obind] in Hl; [|discriminate].
      injection Hl as <- _. apply (finish_attempt_k c (y_s y) u' r Hf).
    + destruct (devent_of e); [|injection Hl as <- _; reflexivity].
      destruct (dstep tbl d d0) as [[d' outs]|]; [|discriminate].
      destruct (d_done d'); injection Hl as <- _; reflexivity.
    + destruct e as [ue| |[]]; try (injection Hl as <- _; reflexivity).
      cbn [lenv_ok] in Hok. rewrite Hp, Hc in Hok. discriminate.
    + injection Hl as <- _. reflexivity.
    + injection Hl as <- _. reflexivity.
  - unfold lstep in Hl. destruct (l_ph (y_s y)) as [|u|d| | |] eqn:Hp.
    + contradiction.
    + destruct e as [ue| |a]; try (injection Hl as <- _; rewrite Hp; discriminate).
      destruct (ustep tbl (lc_unit c) u ue) as [[u' outs]|]; [|discriminate].
      destruct (ph u'); try (injection Hl as <- _; discriminate).
      destruct (finish_attempt c (y_s y) u') as [r|] eqn:Hf; cbn [obind] in Hl; [|discriminate].
      injection Hl as <- _. apply (finish_attempt_k c (y_s y) u' r Hf).
    + destruct (devent_of e); [|injection Hl as <- _; rewrite Hp; discriminate].
      destruct (dstep tbl d d0) as [[d' outs]|]; [|discriminate].
      destruct (d_done d'); injection Hl as <- _; discriminate.
    + destruct e as [ue| |[]]; try (injection Hl as <- _; try rewrite Hp; discriminate).
    + injection Hl as <- _. rewrite Hp. discriminate.
    + injection Hl as <- _. rewrite Hp. discriminate.
Qed.

Lemma cancel_freezes_run unicast tbl c : forall es y y',
  lsys_run unicast tbl c y es = LOk y' ->
  lt_cancel (y_t y) = true -> l_ph (y_s y) <> LAwaitStart ->
  l_k (y_s y') = l_k (y_s y) /\ lt_cancel (y_t y') = true.
Proof.
  induction es as [|e es IH]; intros y y' H Hc Hns; cbn [lsys_run] in H.
  - injection H as <-. split; [reflexivity|exact Hc].
  - destruct (lsys_step unicast tbl c y e) as [y1| |] eqn:E; try discriminate.
    destruct (cancel_freezes_attempts unicast tbl c y e y1 E Hc Hns) as (Hk & Hc1 & Hns1).
    destruct (IH y1 y' H Hc1 Hns1) as [Hk' Hc']. split; [congruence|exact Hc'].
Qed.

(* requests are only delivered once the unit has been started *)
Lemma started_if_delivered unicast tbl c : forall es y y',
  lsys_run unicast tbl c y es = LOk y' ->
  (l_ph (y_s y) = LAwaitStart -> y_t y = lt0) ->
  (l_ph (y_s y') = LAwaitStart -> y_t y' = lt0).
Proof.
  induction es as [|e es IH]; intros y y' H Hi; cbn [lsys_run] in H.
  - injection H as <-. exact Hi.
  - destruct (lsys_step unicast tbl c y e) as [y1| |] eqn:E; try discriminate.
    apply (IH y1 y' H). clear IH H.
    unfold lsys_step in E.
    destruct (lenv_ok unicast (y_s y) (y_t y) e) eqn:Hok; [|discriminate].
    destruct (lstep tbl c (y_s y) e) as [[s' o]|] eqn:Hl; [|discriminate].
    injection E as <-. cbn [y_s y_t]. intros Hs'.
    unfold lstep in Hl. destruct (l_ph (y_s y)) as [|u|d| | |] eqn:Hp.
    + destruct e as [[| | | | | |r]| |[]]; try (rewrite (Hi eq_refl); reflexivity);
        try (injection Hl as <- _; discriminate).
      cbn [lenv_ok] in Hok. unfold consuming in Hok. rewrite Hp in Hok. discriminate.
    + exfalso. destruct e as [ue| |a]; try (injection Hl as <- _; congruence).
      destruct (ustep tbl (lc_unit c) u ue) as [[u' outs]|]; [|discriminate].
      destruct (ph u'); try (injection Hl as <- _; discriminate).
      destruct (finish_attempt c (y_s y) u') as [r|] eqn:Hf; cbn [obind] in Hl; [|discriminate].
      injection Hl as <- _. apply (proj2 (finish_attempt_k c (y_s y) u' r Hf)). exact Hs'.
    + exfalso. destruct (devent_of e); [|injection Hl as <- _; congruence].
      destruct (dstep tbl d d0) as [[d' outs]|]; [|discriminate].
      destruct (d_done d'); injection Hl as <- _; discriminate.
    + exfalso. destruct e as [ue| |[]]; injection Hl as <- _; try congruence; discriminate.
    + exfalso. injection Hl as <- _. congruence.
    + exfalso. injection Hl as <- _. congruence.
Qed.

Theorem no_attempt_after_cancel unicast tbl c es1 es2 y1 y2 :
  lsys_run unicast tbl c (lsys0 c) es1 = LOk y1 -> lt_cancel (y_t y1) = true ->
  lsys_run unicast tbl c y1 es2 = LOk y2 ->
  l_k (y_s y2) = l_k (y_s y1) /\ lt_cancel (y_t y2) = true.
Proof.
  intros H1 Hc H2. apply (cancel_freezes_run unicast tbl c es2 y1 y2 H2 Hc).
  intros Hp. pose proof (started_if_delivered unicast tbl c es1 (lsys0 c) y1 H1 (fun _ => eq_refl) Hp) as Ht.
  rewrite Ht in Hc. discriminate.
Qed.

(* with the dispatcher's repeat of the cancel request (F10 repair) no time is spent in a retry
   delay once a cancel request has been delivered *)
Lemma dc_zero_step tbl c y e y' :
  lsys_step true tbl c y e = LOk y' -> y_dc y = 0 -> y_dc y' = 0.
Proof.
  unfold lsys_step. intros H H0.
  destruct (lenv_ok true (y_s y) (y_t y) e) eqn:Hok; [|discriminate].
  destruct (lstep tbl c (y_s y) e) as [[s' o]|]; [|discriminate].
  injection H as <-. cbn [y_dc]. rewrite H0.
  destruct (l_ph (y_s y)) eqn:Hp; try reflexivity.
  destruct (lt_cancel (y_t y)) eqn:Hc; [|reflexivity].
  destruct e as [[dt| | | | | |r]| |]; try reflexivity.
  cbn [lenv_ok] in Hok. rewrite Hp, Hc in Hok. cbn in Hok. apply N.eqb_eq in Hok. subst. reflexivity.
Qed.

Theorem no_delay_after_cancel tbl c : forall es y y',
  lsys_run true tbl c y es = LOk y' -> y_dc y = 0 -> y_dc y' = 0.
Proof.
  induction es as [|e es IH]; intros y y' H H0; cbn [lsys_run] in H.
  - injection H as <-. exact H0.
  - destruct (lsys_step true tbl c y e) as [y1| |] eqn:E; try discriminate.
    apply (IH y1 y' H). eapply dc_zero_step; eassumption.
Qed.

(* a cancel request delivered during the delay ends the delay in that very step; the unit goes
   on to the RetryStarted handshake, which the environment can then only refuse *)
Lemma cancel_ends_delay tbl c s d r :
  l_ph s = LDelay d -> d_done d = false -> is_cancel_req r = true ->
  lstep tbl c s (LU (Req r)) = Ok (with_lph s LAwaitRetry, [LRetryStarted (l_k s + 1)]).
Proof.
  intros Hp Hdn Hc. unfold lstep. rewrite Hp. cbn [devent_of]. unfold dstep. rewrite Hdn.
  destruct r as [| |sr| |]; try discriminate; reflexivity.
Qed.

Lemma refused_is_terminal tbl c s :
  l_ph s = LAwaitRetry ->
  lstep tbl c s (LAnswer false) = Ok (with_lph s LRefusedP, []) /\ terminal (with_lph s LRefusedP) = true.
Proof. intros Hp. unfold lstep. rewrite Hp. split; reflexivity. Qed.

(* ------------------------------------------------------------ information requests *)
Definition life_info_tag (s : lstate) : option itag :=
  match l_ph s with
  | LAttempt u => info_tag (ph u)
  | LDelay _ => Some IDelay
  | _ => None
  end.

(* exactly one response in the running / terminating / leak-drain / delay loops, tagged with that
   loop, and no change of state; none while the unit is not reading its channel *)
Lemma life_info_once tbl c s :
  (forall u, l_ph s = LAttempt u -> ph u <> PDone) ->
  (forall d, l_ph s = LDelay d -> d_done d = false) ->
  lstep tbl c s (LU (Req RGetInfo)) =
  Ok (s, match life_info_tag s with Some i => [LO (OInfo i)] | None => [] end).
Proof.
  intros Hnd Hdd. unfold lstep, life_info_tag.
  destruct (l_ph s) as [|u|d| | |] eqn:Hp; try reflexivity.
  - unfold ustep. cbn [annotate]. rewrite info_once.
    specialize (Hnd u eq_refl).
    assert (Hs : with_lph s (LAttempt u) = s) by (destruct s; cbn in *; subst; reflexivity).
    destruct (ph u) as [|x| | |] eqn:Hph; cbn [info_tag map]; try rewrite Hs; try reflexivity.
    contradiction.
  - cbn [devent_of]. unfold dstep. rewrite (Hdd d eq_refl). rewrite (Hdd d eq_refl).
    assert (Hs : with_lph s (LDelay d) = s) by (destruct s; cbn in *; subst; reflexivity).
    rewrite Hs. reflexivity.
Qed.

(* a delay that was cut short by a cancel request is never followed by another attempt *)
Definition cut_inv (y : lsys) : Prop :=
  (l_ph (y_s y) = LAwaitStart -> y_t y = lt0 /\ y_log y = []) /\
  forall k dl un run, In (RDelay k dl un run true) (y_log y) ->
                      l_k (y_s y) = k /\ lt_cancel (y_t y) = true.

Lemma cut_inv_step unicast tbl c y e y' :
  cut_inv y -> lsys_step unicast tbl c y e = LOk y' -> cut_inv y'.
Proof.
  intros [Hs0 Hc] Hstep.
  destruct (lsys_step_fields tbl unicast c y e y' Hstep)
    as (Hok & o & Hl & Ht & _ & _ & _ & _ & Hlog).
  cbv zeta in Ht, Hlog.
  assert (Hstart : l_ph (y_s y') = LAwaitStart -> l_ph (y_s y) = LAwaitStart /\ y_s y' = y_s y).
  { intros Hp'. unfold lstep in Hl. destruct (l_ph (y_s y)) as [|u|d| | |] eqn:Hp.
    - destruct e as [ue| |[]]; injection Hl as Hs _; rewrite <- Hs in Hp' |- *;
        try (split; reflexivity); discriminate.
    - exfalso. destruct e as [ue| |a]; try (injection Hl as Hs _; congruence).
      destruct (ustep tbl (lc_unit c) u ue) as [[u' outs]|]; [|discriminate].
      destruct (ph u'); try (injection Hl as Hs _; rewrite <- Hs in Hp'; discriminate).
      destruct (finish_attempt c (y_s y) u') as [r|] eqn:Hf; cbn [obind] in Hl; [|discriminate].
      injection Hl as Hs _. rewrite <- Hs in Hp'. apply (proj2 (finish_attempt_k c (y_s y) u' r Hf)). exact Hp'.
    - exfalso. destruct (devent_of e); [|injection Hl as Hs _; congruence].
      destruct (dstep tbl d d0) as [[d' outs]|]; [|discriminate].
      destruct (d_done d'); injection Hl as Hs _; rewrite <- Hs in Hp'; discriminate.
    - exfalso. destruct e as [ue| |[]]; injection Hl as Hs _; rewrite <- Hs in Hp'; try congruence; discriminate.
    - exfalso. injection Hl as Hs _. congruence.
    - exfalso. injection Hl as Hs _. congruence. }
  split.
  - intros Hp'. destruct (Hstart Hp') as [Hp Hs]. destruct (Hs0 Hp) as [Ht0 Hl0].
    rewrite Hlog, Hs, same_state_log. split; [|exact Hl0]. rewrite Ht.
    destruct e as [[| | | | | |r]| |]; try exact Ht0.
    cbn [lenv_ok] in Hok. unfold consuming in Hok. rewrite Hp in Hok. discriminate.
  - intros k dl un run Hin.
    (* either an old entry, or the one just added *)
    assert (Hcases : In (RDelay k dl un run true) (y_log y) \/
                     (exists d r, l_ph (y_s y) = LDelay d /\ e = LU (Req r) /\ is_cancel_req r = true /\
                                  k = l_k (y_s y))).
    { rewrite Hlog in Hin. unfold log_step in Hin.
      destruct (l_ph (y_s y)) as [|u|d| | |] eqn:Hp; try (left; exact Hin).
      - destruct (l_ph (y_s y')); try (left; exact Hin);
          destruct (l_done (y_s y')); try (left; exact Hin);
          destruct Hin as [H|H]; try discriminate; left; exact H.
      - destruct (l_ph (y_s y')); try (left; exact Hin);
          (destruct Hin as [H|H]; [|left; exact H]);
          injection H as Hk _ _ _ Hcut; right;
          destruct e as [[| | | | | |r]| |]; try discriminate;
          exists d, r; repeat split; auto. }
    destruct Hcases as [Hold|(d & r & Hp & -> & Hcr & ->)].
    + destruct (Hc k dl un run Hold) as [Hk Hcan].
      assert (Hns : l_ph (y_s y) <> LAwaitStart).
      { intros Hp. destruct (Hs0 Hp) as [_ Hl0]. rewrite Hl0 in Hold. destruct Hold. }
      destruct (cancel_freezes_attempts unicast tbl c y e y' Hstep Hcan Hns) as (Hk' & Hc' & _).
      split; [congruence|exact Hc'].
    + split.
      * unfold lstep in Hl. rewrite Hp in Hl. cbn [devent_of] in Hl.
        destruct (dstep tbl d (DReq r)) as [[d' outs]|]; [|discriminate].
        destruct (d_done d'); injection Hl as Hs _; rewrite <- Hs; reflexivity.
      * rewrite Ht. cbn [lenv_next lt_cancel]. rewrite Hcr. apply Bool.orb_true_r.
Qed.

Theorem cut_short_no_retry unicast tbl c : forall es y,
  lsys_run unicast tbl c (lsys0 c) es = LOk y ->
  forall k dl un run, In (RDelay k dl un run true) (y_log y) ->
                      l_k (y_s y) = k /\ lt_cancel (y_t y) = true.
Proof.
  intros es y H.
  assert (G : forall es y0 y1, cut_inv y0 -> lsys_run unicast tbl c y0 es = LOk y1 -> cut_inv y1).
  { clear. induction es as [|e es IH]; intros y0 y1 Hi H; cbn [lsys_run] in H.
    - injection H as <-. exact Hi.
    - destruct (lsys_step unicast tbl c y0 e) as [y2| |] eqn:E; try discriminate.
      eapply IH; [|exact H]. eapply cut_inv_step; eassumption. }
  apply (G es (lsys0 c) y); [|exact H].
  split; [intros _; split; reflexivity|intros k dl un run []].
Qed.

(* ============================================================ Part 3: the unit ends
   Once a cancel request has been delivered, from wherever the unit is there is a continuation the
   environment can produce -- the child's exit is reported, the leak timeout passes, the
   dispatcher's repeated OtherCancel is consumed, the handshake is refused -- after which the unit
   has ended, without a further attempt and without any time spent in a retry delay (the latter is
   built into [lenv_ok true]). *)
Definition is_done (p : phase) : bool := match p with PDone => true | _ => false end.
Definition nonreq (e : uevent) : bool := match e with Req _ => false | _ => true end.

(* the state after es when no step on the way completes the attempt *)
Fixpoint upath (tbl : ptable) (cfg : ucfg) (u : ustate) (es : list uevent) : option ustate :=
  match es with
  | [] => Some u
  | e :: es' =>
      match ustep tbl cfg u e with
      | Ok (u', _) => if is_done (ph u') then None else upath tbl cfg u' es'
      | Panicked => None
      end
  end.

Lemma first_done tbl cfg : forall es u r,
  urun tbl cfg u es = Ok r -> ph (fst r) = PDone -> ph u <> PDone ->
  exists es1 e es2 u1 u2 o2,
    es = es1 ++ e :: es2 /\ upath tbl cfg u es1 = Some u1 /\
    ustep tbl cfg u1 e = Ok (u2, o2) /\ ph u2 = PDone.
Proof.
  induction es as [|e es IH]; intros u r H Hd Hnd; cbn [urun] in H.
  - injection H as <-. contradiction.
  - destruct (ustep tbl cfg u e) as [[u' o']|] eqn:E; cbn [obind] in H; [|discriminate].
    cbn [fst snd] in H.
    destruct (urun tbl cfg u' es) as [r2|] eqn:E2; cbn [obind] in H; [|discriminate].
    injection H as <-. cbn [fst] in Hd.
    destruct (is_done (ph u')) eqn:Hdn.
    + exists [], e, es, u, u', o'. repeat split; try assumption.
      destruct (ph u'); try discriminate. reflexivity.
    + destruct (IH u' r2 E2 Hd) as (es1 & e1 & es2 & u1 & u2 & o2 & -> & Hp & Hs & Hd2).
      { intros Hx. rewrite Hx in Hdn. discriminate. }
      exists (e :: es1), e1, es2, u1, u2, o2. repeat split; try assumption.
      cbn [upath]. rewrite E, Hdn. exact Hp.
Qed.

Lemma lenv_ok_attempt_nonreq unicast s t u e :
  l_ph s = LAttempt u -> nonreq e = true -> lenv_ok unicast s t (LU e) = true.
Proof. intros Hp Hn. destruct e; try reflexivity; [cbn [lenv_ok]; rewrite Hp; reflexivity|discriminate]. Qed.

Lemma attempt_follow unicast tbl c : forall es1 y u u1,
  l_ph (y_s y) = LAttempt u -> upath tbl (lc_unit c) u es1 = Some u1 -> forallb nonreq es1 = true ->
  exists y1, lsys_run unicast tbl c y (map LU es1) = LOk y1 /\
             y_s y1 = with_lph (y_s y) (LAttempt u1) /\ y_t y1 = y_t y.
Proof.
  induction es1 as [|e es1 IH]; intros y u u1 Hp Hpath Hnr.
  - cbn in Hpath. injection Hpath as <-. exists y. split; [reflexivity|]. split; [|reflexivity].
    destruct (y_s y); cbn in *; subst; reflexivity.
  - cbn [upath] in Hpath. cbn [forallb] in Hnr. apply andb_prop in Hnr as [Hn Hnr].
    destruct (ustep tbl (lc_unit c) u e) as [[u' o']|] eqn:E; [|discriminate].
    destruct (is_done (ph u')) eqn:Hdn; [discriminate|].
    cbn [map lsys_run]. unfold lsys_step.
    rewrite (lenv_ok_attempt_nonreq unicast (y_s y) (y_t y) u e Hp Hn).
    unfold lstep. rewrite Hp, E.
    assert (Hphase : exists q, ph u' = q /\ q <> PDone)
      by (exists (ph u'); split; [reflexivity|intros Hx; rewrite Hx in Hdn; discriminate]).
    destruct (ph u') as [|x| | |] eqn:Hph'; try discriminate.
    all: match goal with |- context [lsys_run _ _ _ ?Y (map LU _)] =>
           destruct (IH Y u' u1) as (y1 & Hr & Hs & Ht); [reflexivity|exact Hpath|exact Hnr|];
           exists y1; split; [exact Hr|]; split;
           [rewrite Hs; reflexivity
           |rewrite Ht; cbn [y_t]; destruct e; try reflexivity; discriminate]
         end.
Qed.

Lemma ends_from_delay unicast tbl c y d :
  l_ph (y_s y) = LDelay d -> d_done d = false ->
  exists y', lsys_run unicast tbl c y [LU (Req ROtherCancel); LAnswer false] = LOk y' /\
             terminal (y_s y') = true /\ l_k (y_s y') = l_k (y_s y).
Proof.
  intros Hp Hdn. cbn [lsys_run]. unfold lsys_step at 1.
  assert (Hok : lenv_ok unicast (y_s y) (y_t y) (LU (Req ROtherCancel)) = true).
  { cbn [lenv_ok]. unfold consuming. rewrite Hp. reflexivity. }
  rewrite Hok. rewrite (cancel_ends_delay tbl c (y_s y) d ROtherCancel Hp Hdn eq_refl).
  unfold lsys_step. cbn [y_s y_t lenv_ok l_ph with_lph mkl]. cbn [lstep l_ph with_lph mkl].
  eexists. split; [reflexivity|]. split; reflexivity.
Qed.

Lemma ends_from_await_retry unicast tbl c y :
  l_ph (y_s y) = LAwaitRetry ->
  exists y', lsys_run unicast tbl c y [LAnswer false] = LOk y' /\
             terminal (y_s y') = true /\ l_k (y_s y') = l_k (y_s y).
Proof.
  intros Hp. cbn [lsys_run]. unfold lsys_step. cbn [lenv_ok]. rewrite Hp. cbn [negb andb].
  unfold lstep. rewrite Hp. eexists. split; [reflexivity|]. split; reflexivity.
Qed.

(* the side conditions of UnitLive.unit_can_always_finish hold along the whole life *)
Definition winv (y : lsys) : Prop :=
  match l_ph (y_s y) with
  | LAttempt u => live_wf u /\ ph u <> PDone
  | LDelay d => d_done d = false
  | _ => True
  end.

Lemma winv_init c : winv (lsys0 c).
Proof. exact I. Qed.

Lemma finish_attempt_shape c s u r : finish_attempt c s u = Ok r ->
  l_k (fst r) = l_k s /\
  (l_ph (fst r) = LFinishedP \/ exists dl, l_ph (fst r) = LDelay (dinit dl)).
Proof.
  unfold finish_attempt. intros H.
  destruct (ures_success (uresult u)); [injection H as <-; split; [reflexivity|left; reflexivity]|].
  destruct (l_k s <? lc_total c).
  - destruct (b_next (lc_js c (l_k s)) (l_bs s)) as [[d bs']|]; [|discriminate].
    injection H as <-. split; [reflexivity|right; exists d; reflexivity].
  - injection H as <-. split; [reflexivity|left; reflexivity].
Qed.

Lemma winv_step unicast tbl c y e y' :
  winv y -> lsys_step unicast tbl c y e = LOk y' -> winv y'.
Proof.
  unfold lsys_step. intros Hw H.
  destruct (lenv_ok unicast (y_s y) (y_t y) e); [|discriminate].
  destruct (lstep tbl c (y_s y) e) as [[s' o]|] eqn:Hl; [|discriminate].
  injection H as <-. unfold winv in *. cbn [y_s].
  unfold lstep in Hl. destruct (l_ph (y_s y)) as [|u|d| | |] eqn:Hp.
  - destruct e as [ue| |[]]; injection Hl as <- _; try (rewrite Hp; exact I); cbn [l_ph mkl with_lph].
    + split; [apply live_wf_init|discriminate].
    + exact I.
  - destruct e as [ue| |a]; try (injection Hl as <- _; rewrite Hp; exact Hw).
    destruct Hw as [Hlw Hnd].
    destruct (ustep tbl (lc_unit c) u ue) as [[u' outs]|] eqn:Hu; [|discriminate].
    pose proof (live_wf_step tbl (lc_unit c) u ue (u', outs) Hlw Hu) as Hlw'. cbn [fst] in Hlw'.
    destruct (ph u') eqn:Hph'.
    5:{ destruct (finish_attempt c (y_s y) u') as [r|] eqn:Hf; cbn [obind] in Hl; [|discriminate].
        injection Hl as <- _. destruct (finish_attempt_shape c (y_s y) u' r Hf) as [_ [E|[dl E]]];
          rewrite E; [exact I|reflexivity]. }
    all: injection Hl as <- _; cbn [l_ph with_lph mkl]; split; [exact Hlw'|rewrite Hph'; discriminate].
  - destruct (devent_of e); [|injection Hl as <- _; rewrite Hp; exact Hw].
    destruct (dstep tbl d d0) as [[d' outs]|]; [|discriminate].
    destruct (d_done d') eqn:Hdd; injection Hl as <- _; cbn [l_ph with_lph mkl]; [exact I|exact Hdd].
  - destruct e as [ue| |[]]; injection Hl as <- _; try (rewrite Hp; exact I); cbn [l_ph mkl with_lph].
    + split; [apply live_wf_init|discriminate].
    + exact I.
  - injection Hl as <- _. rewrite Hp. exact I.
  - injection Hl as <- _. rewrite Hp. exact I.
Qed.

Lemma winv_run unicast tbl c : forall es y y',
  winv y -> lsys_run unicast tbl c y es = LOk y' -> winv y'.
Proof.
  induction es as [|e es IH]; intros y y' Hi H; cbn [lsys_run] in H.
  - injection H as <-. exact Hi.
  - destruct (lsys_step unicast tbl c y e) as [y1| |] eqn:E; try discriminate.
    eapply IH; [|exact H]. eapply winv_step; eassumption.
Qed.

Theorem unit_can_end tbl RS (Hcert : life_cert_with tbl RS = true) (Hd : dcert tbl = true) unicast c y :
  linv RS c (y_s y) (y_t y) -> winv y -> l_ph (y_s y) <> LAwaitStart ->
  exists es y', lsys_run unicast tbl c y es = LOk y' /\ terminal (y_s y') = true /\
                l_k (y_s y') = l_k (y_s y).
Proof.
  intros Hli Hw Hns. destruct (l_ph (y_s y)) as [|u|d| | |] eqn:Hp.
  - contradiction.
  - (* mid-attempt: the child's exit and the leak timeout complete the attempt *)
    unfold winv in Hw. rewrite Hp in Hw. destruct Hw as [[Hlw Hx] Hnd].
    destruct (unit_can_always_finish tbl (lc_unit c) u Hlw Hx) as (r & Hr & Hdn & _).
    destruct (first_done tbl (lc_unit c) (finishing u) u r Hr Hdn Hnd)
      as (es1 & e & es2 & u1 & u2 & o2 & Hes & Hpath & Hstep & Hd2).
    assert (Hnr : forallb nonreq (finishing u) = true) by reflexivity.
    rewrite Hes, forallb_app in Hnr. apply andb_prop in Hnr as [Hnr1 Hnr2].
    cbn [forallb] in Hnr2. apply andb_prop in Hnr2 as [Hne _].
    destruct (attempt_follow unicast tbl c es1 y u u1 Hp Hpath Hnr1) as (y1 & Hrun1 & Hs1 & Ht1).
    assert (Hli1 : linv RS c (y_s y1) (y_t y1))
      by (exact (life_linv_run tbl RS Hcert Hd unicast c (map LU es1) y y1 Hli Hrun1)).
    assert (Hp1 : l_ph (y_s y1) = LAttempt u1) by (rewrite Hs1; reflexivity).
    assert (Hk1 : l_k (y_s y1) = l_k (y_s y)) by (rewrite Hs1; reflexivity).
    (* the completing step *)
    assert (Hb : l_k (y_s y1) + b_remaining (l_bs (y_s y1)) = lc_total c).
    { destruct Hli1 as [Hb _]. unfold binv in Hb. rewrite Hp1 in Hb. exact Hb. }
    destruct (finish_attempt_ok tbl RS c (y_s y1) u2 (y_t y1) Hb) as (r2 & Hf & _).
    destruct (finish_attempt_shape c (y_s y1) u2 r2 Hf) as [Hk2 Hshape].
    assert (Hstep2 : exists y2, lsys_step unicast tbl c y1 (LU e) = LOk y2 /\ y_s y2 = fst r2).
    { unfold lsys_step. rewrite (lenv_ok_attempt_nonreq unicast (y_s y1) (y_t y1) u1 e Hp1 Hne).
      unfold lstep. rewrite Hp1, Hstep, Hd2, Hf. cbn [obind fst]. eexists. split; reflexivity. }
    destruct Hstep2 as (y2 & Hst2 & Hs2).
    destruct Hshape as [E|[dl E]].
    + exists (map LU es1 ++ [LU e]), y2. rewrite lsys_run_app, Hrun1. cbn [lsys_run]. rewrite Hst2.
      split; [reflexivity|]. rewrite Hs2. unfold terminal. rewrite E. split; [reflexivity|congruence].
    + destruct (ends_from_delay unicast tbl c y2 (dinit dl)) as (y3 & Hr3 & Ht3 & Hk3);
        [rewrite Hs2; exact E|reflexivity|].
      exists (map LU es1 ++ LU e :: [LU (Req ROtherCancel); LAnswer false]), y3.
      rewrite lsys_run_app, Hrun1. cbn [lsys_run] in Hr3 |- *. rewrite Hst2.
      split; [exact Hr3|]. split; [exact Ht3|]. rewrite Hk3, Hs2. congruence.
  - (* in the retry delay *)
    unfold winv in Hw. rewrite Hp in Hw.
    destruct (ends_from_delay unicast tbl c y d Hp Hw) as (y' & Hr & Ht & Hk).
    exists [LU (Req ROtherCancel); LAnswer false], y'. repeat split; assumption.
  - destruct (ends_from_await_retry unicast tbl c y Hp) as (y' & Hr & Ht & Hk).
    exists [LAnswer false], y'. repeat split; assumption.
  - exists [], y. split; [reflexivity|]. unfold terminal. rewrite Hp. split; reflexivity.
  - exists [], y. split; [reflexivity|]. unfold terminal. rewrite Hp. split; reflexivity.
Qed.

(* ============================================================ Part 4: which delay
   The delay waited after attempt k is the policy's k-th delay (Backoff.delays, whose closed form is
   C07_delay_fixed / C07_delay_exp), jittered with the draw of attempt k. *)
Definition delay_formula (c : lcfg) (k : N) : N :=
  jit (p_jitter (lc_policy c)) (nth (N.to_nat (k - 1)) (delays (lc_policy c)) 0) (lc_js c k).

(* the iterator after m calls of next() *)
Definition bsinv (c : lcfg) (bs : bstate) (m : N) : Prop :=
  b_policy bs = lc_policy c /\ m + b_remaining bs = p_count (lc_policy c) /\
  base_delays_from (N.to_nat (b_remaining bs)) bs = skipn (N.to_nat m) (delays (lc_policy c)).

Lemma bsinv_init c : bsinv c (b_new (lc_policy c)) 0.
Proof. split; [reflexivity|]. split; [reflexivity|]. reflexivity. Qed.

Lemma skipn_cons_nth (l : list N) : forall m x t,
  skipn m l = x :: t -> nth m l 0 = x /\ skipn (S m) l = t.
Proof.
  induction l as [|a l IH]; intros m x t H.
  - destruct m; discriminate.
  - destruct m as [|m].
    + cbn in H. injection H as <- <-. split; reflexivity.
    + cbn [skipn] in H. destruct (IH m x t H) as [H1 H2]. split; [exact H1|exact H2].
Qed.

Lemma bsinv_next c bs m js d bs' :
  bsinv c bs m -> b_next js bs = Some (d, bs') ->
  d = jit (p_jitter (lc_policy c)) (nth (N.to_nat m) (delays (lc_policy c)) 0) js /\
  bsinv c bs' (m + 1).
Proof.
  intros (Hp & Hm & Hl) Hn.
  assert (Hr : 0 < b_remaining bs).
  { unfold b_next in Hn. destruct (0 <? b_remaining bs) eqn:E; [apply N.ltb_lt; exact E|discriminate]. }
  destruct (b_next_some js bs Hr) as (s' & Hn' & Hpf & Hrem). rewrite Hn' in Hn. injection Hn as <- <-.
  pose proof (ndj_policy bs) as Hpol.
  destruct (N.to_nat (b_remaining bs)) as [|r] eqn:Er; [lia|].
  cbn [base_delays_from] in Hl.
  destruct (next_delay_and_jitter bs) as [[d0 j0] s0] eqn:E0. cbn [fst snd] in *.
  destruct (skipn_cons_nth (delays (lc_policy c)) (N.to_nat m) d0 (base_delays_from r s0) (eq_sym Hl))
    as [Hnth Hskip].
  split; [rewrite Hp, Hnth; reflexivity|].
  split; [rewrite (same_pf_policy _ _ Hpf), Hpol; exact Hp|]. split; [lia|].
  replace (N.to_nat (b_remaining s')) with r by lia.
  rewrite (base_delays_same_pf r s' s0 Hpf). replace (N.to_nat (m + 1)) with (S (N.to_nat m)) by lia.
  symmetry. exact Hskip.
Qed.

Definition vinv (c : lcfg) (y : lsys) : Prop :=
  match l_ph (y_s y) with
  | LAwaitStart => bsinv c (l_bs (y_s y)) 0 /\ l_k (y_s y) = 0
  | LAttempt _ => bsinv c (l_bs (y_s y)) (l_k (y_s y) - 1) /\ 1 <= l_k (y_s y)
  | LDelay _ | LAwaitRetry =>
      bsinv c (l_bs (y_s y)) (l_k (y_s y)) /\ 1 <= l_k (y_s y) /\
      l_delay (y_s y) = delay_formula c (l_k (y_s y))
  | _ => True
  end /\
  forall k dl un run cut, In (RDelay k dl un run cut) (y_log y) -> (dl = delay_formula c k /\ 1 <= k <= p_count (lc_policy c)).

Lemma vinv_init c : vinv c (lsys0 c).
Proof. split; [split; [apply bsinv_init|reflexivity]|intros k dl un run cut []]. Qed.

Lemma vinv_step unicast tbl c y e y' :
  vinv c y -> lsys_step unicast tbl c y e = LOk y' -> vinv c y'.
Proof.
  intros [Hph Hlg] Hstep.
  destruct (lsys_step_fields tbl unicast c y e y' Hstep) as (_ & o & Hl & _ & _ & _ & _ & _ & Hlog).
  cbv zeta in Hlog. unfold vinv. rewrite Hlog. clear Hlog.
  unfold lstep in Hl. destruct (l_ph (y_s y)) as [|u|d| | |] eqn:Hp.
  - destruct Hph as [Hb Hk].
    destruct e as [ue| |[]]; injection Hl as Hs _; rewrite <- Hs; unfold log_step; rewrite Hp;
      cbn [l_ph l_k l_bs l_delay mkl with_lph]; try rewrite Hp; (split; [|exact Hlg]);
      try (split; assumption); try exact I.
    split; [exact Hb|lia].
  - destruct Hph as [Hb Hk].
    destruct e as [ue| |a];
      try (injection Hl as Hs _; rewrite <- Hs; unfold log_step; rewrite Hp; split; [split; assumption|exact Hlg]).
    destruct (ustep tbl (lc_unit c) u ue) as [[u' outs]|]; [|discriminate].
    destruct (ph u') eqn:Hph'.
    5:{ destruct (finish_attempt c (y_s y) u') as [r|] eqn:Hf; cbn [obind] in Hl; [|discriminate].
        injection Hl as Hs _. rewrite <- Hs. cbn [fst].
        assert (Hlg' : forall x lg, (forall k dl un run cut, In (RDelay k dl un run cut) lg -> (dl = delay_formula c k /\ 1 <= k <= p_count (lc_policy c))) ->
                       forall k dl un run cut,
                         In (RDelay k dl un run cut)
                            (match l_done (fst r) with
                             | r0 :: _ => RAttempt (ar_no r0) (ar_result r0) (ar_slow r0) (ar_time r0) x :: lg
                             | [] => lg end) -> (dl = delay_formula c k /\ 1 <= k <= p_count (lc_policy c))).
        { intros x lg H k dl un run cut Hin. destruct (l_done (fst r)); [eapply H; exact Hin|].
          destruct Hin as [Hin|Hin]; [discriminate|eapply H; exact Hin]. }
        unfold finish_attempt in Hf. destruct (ures_success (uresult u')).
        - injection Hf as <-. unfold log_step. rewrite Hp. cbn [fst l_ph mkl].
          split; [exact I|]. apply (Hlg' _ _ Hlg).
        - destruct (l_k (y_s y) <? lc_total c).
          + destruct (b_next (lc_js c (l_k (y_s y))) (l_bs (y_s y))) as [[dl bs']|] eqn:Hn; [|discriminate].
            injection Hf as <-. unfold log_step. rewrite Hp. cbn [fst l_ph l_k l_bs l_delay mkl].
            destruct (bsinv_next c (l_bs (y_s y)) (l_k (y_s y) - 1) (lc_js c (l_k (y_s y))) dl bs' Hb Hn)
              as [Hd Hb'].
            split; [|apply (Hlg' _ _ Hlg)].
            replace (l_k (y_s y) - 1 + 1) with (l_k (y_s y)) in Hb' by lia.
            split; [exact Hb'|]. split; [exact Hk|]. exact Hd.
          + injection Hf as <-. unfold log_step. rewrite Hp. cbn [fst l_ph mkl].
            split; [exact I|]. apply (Hlg' _ _ Hlg). }
    all: injection Hl as Hs _; rewrite <- Hs; unfold log_step; rewrite Hp;
      cbn [l_ph l_k l_bs l_delay mkl with_lph]; split; [split; assumption|exact Hlg].
  - destruct Hph as (Hb & Hk & Hdl).
    destruct (devent_of e) as [de|];
      [|injection Hl as Hs _; rewrite <- Hs; unfold log_step; rewrite Hp; split; [split; [exact Hb|split; [exact Hk|exact Hdl]]|exact Hlg]].
    destruct (dstep tbl d de) as [[d' outs]|]; [|discriminate].
    destruct (d_done d'); injection Hl as Hs _; rewrite <- Hs; unfold log_step; rewrite Hp;
      cbn [l_ph l_k l_bs l_delay mkl with_lph]; (split; [first [exact I|split; [exact Hb|split; [exact Hk|exact Hdl]]]|]); [|exact Hlg].
    intros k dl un run cut [Hin|Hin]; [|eapply Hlg; exact Hin].
    injection Hin as <- <- _ _ _. split; [exact Hdl|]. destruct Hb as (_ & Hm & _). lia.
  - destruct Hph as (Hb & Hk & Hdl).
    destruct e as [ue| |[]]; injection Hl as Hs _; rewrite <- Hs; unfold log_step; rewrite Hp;
      cbn [l_ph l_k l_bs l_delay mkl with_lph]; try rewrite Hp; (split; [|exact Hlg]);
      try (split; [exact Hb|split; [exact Hk|exact Hdl]]); try exact I.
    split; [|lia]. replace (l_k (y_s y) + 1 - 1) with (l_k (y_s y)) by lia. exact Hb.
  - injection Hl as Hs _. rewrite <- Hs. unfold log_step. rewrite Hp. split; [exact I|exact Hlg].
  - injection Hl as Hs _. rewrite <- Hs. unfold log_step. rewrite Hp. split; [exact I|exact Hlg].
Qed.

Theorem delay_is_configured unicast tbl c : forall es y,
  lsys_run unicast tbl c (lsys0 c) es = LOk y ->
  forall k dl un run cut, In (RDelay k dl un run cut) (y_log y) -> (dl = delay_formula c k /\ 1 <= k <= p_count (lc_policy c)).
Proof.
  intros es y H.
  assert (G : forall es y0 y1, vinv c y0 -> lsys_run unicast tbl c y0 es = LOk y1 -> vinv c y1).
  { clear. induction es as [|e es IH]; intros y0 y1 Hi H; cbn [lsys_run] in H.
    - injection H as <-. exact Hi.
    - destruct (lsys_step unicast tbl c y0 e) as [y2| |] eqn:E; try discriminate.
      eapply IH; [|exact H]. eapply vinv_step; eassumption. }
  exact (proj2 (G es (lsys0 c) y (vinv_init c) H)).
Qed.
