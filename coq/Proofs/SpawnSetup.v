(* Facts about Model/SpawnSetup.v: what [setup_ok] gives the properties, and that its variable list is
   Model/Command.v's executor_layer. *)
From Coq Require Import List Bool Strings.String.
From NextestModel Require Import Base.Str Model.CliRun Model.Command Model.SpawnSetup.
Import ListNotations.

Lemma setup_ok_stdin_and_group :
  forall cap t, setup_ok cap t = true -> stdin_null t = true /\ own_process_group t = true.
Proof.
  intros cap t H. unfold setup_ok in H.
  repeat (apply andb_true_iff in H; destruct H as [H ?]). split; assumption.
Qed.

Lemma setup_ok_no_capture_inherits :
  forall t, setup_ok CapNone t = true ->
            has_method "stdout" t = false /\ has_method "stderr" t = false.
Proof.
  intros t H. unfold setup_ok in H.
  repeat (apply andb_true_iff in H; destruct H as [H ?]).
  match goal with Hs : streams_ok CapNone t = true |- _ => unfold streams_ok in Hs;
    repeat (apply andb_true_iff in Hs; destruct Hs as [Hs ?]) end.
  split; apply negb_true_iff; assumption.
Qed.

Lemma setup_ok_env_order :
  forall cap t, setup_ok cap t = true ->
    starts_with_make_command t = true /\ strs_eqb (env_keys t) executor_env_keys = true /\ apply_after_env t = true.
Proof.
  intros cap t H. unfold setup_ok in H.
  repeat (apply andb_true_iff in H; destruct H as [H ?]). repeat split; assumption.
Qed.

(* the keys are those of Model/Command.v's executor_layer (which test_assignments puts after
   make_command_assignments and before the setup-script variables), for every run and attempt *)
Lemma executor_env_keys_are_executor_layer :
  forall r a, map K.s executor_env_keys = map fst (executor_layer r a).
Proof. intros r a. reflexivity. Qed.
