(* Lemmas about compilation and evaluation of filtersets (C05; kleene_sound is shared with C04). *)
From NextestModel Require Import Base.Str Model.FiltersetAst Model.Filterset.
From NextestModel Require Import Base.Tac.
Open Scope N_scope.

(* ---------------------------------------------------------------- small facts *)

Lemma mem_N_In x l : mem_N x l = true <-> In x l.
Proof.
  induction l as [|y l IH]; cbn [mem_N In]; [split; [discriminate|tauto]|].
  rewrite Bool.orb_true_iff, IH, N.eqb_eq. split; intros [H|H]; auto.
Qed.

Lemma platform_eqb_eq a b : platform_eqb a b = true <-> a = b.
Proof. destruct a, b; cbn; split; intros H; try reflexivity; discriminate. Qed.

Lemma in_map_fst_filter {B} (f : N * B -> bool) (l : list (N * B)) x :
  In x (map fst (filter f l)) <-> exists p, In p l /\ f p = true /\ fst p = x.
Proof.
  rewrite in_map_iff. split.
  - intros [p [Hx Hp]]. apply filter_In in Hp. exists p. tauto.
  - intros [p [Hp [Hf Hx]]]. exists p. split; [exact Hx|]. apply filter_In. tauto.
Qed.

(* ---------------------------------------------------------------- leaf sets *)

Lemma leaf_test_in_set E W dt d q :
  leaf_test E dt (compile_set E W d) q = true <-> in_set E W dt d q.
Proof.
  destruct d; cbn [compile_set leaf_test in_set]; try tauto.
  - (* package *)
    unfold pkgs_of, matching_pkgs. rewrite mem_N_In, in_map_fst_filter. tauto.
  - (* deps *)
    unfold deps_of. rewrite mem_N_In, in_map_fst_filter. split.
    + intros [p2 [Hp2 [Hex Hq]]]. apply existsb_exists in Hex. destruct Hex as [p1 [Hp1 Hd]].
      unfold matching_pkgs in Hp1. apply filter_In in Hp1. exists p1, p2. tauto.
    + intros [p1 [p2 [H1 [H2 [Hm [Hd Hq]]]]]]. exists p2. repeat split; auto.
      apply existsb_exists. exists p1. split; [|exact Hd].
      unfold matching_pkgs. apply filter_In. tauto.
  - (* rdeps *)
    unfold rdeps_of. rewrite mem_N_In, in_map_fst_filter. split.
    + intros [p2 [Hp2 [Hex Hq]]]. apply existsb_exists in Hex. destruct Hex as [p1 [Hp1 Hd]].
      unfold matching_pkgs in Hp1. apply filter_In in Hp1. exists p1, p2. tauto.
    + intros [p1 [p2 [H1 [H2 [Hm [Hd Hq]]]]]]. exists p2. repeat split; auto.
      apply existsb_exists. exists p1. split; [|exact Hd].
      unfold matching_pkgs. apply filter_In. tauto.
  - (* platform *) apply platform_eqb_eq.
  - (* none *) split; [discriminate|tauto].
Qed.

(* ---------------------------------------------------------------- evaluation = membership *)

Lemma eval_is_membership E W dt e q :
  eval_test E dt (compile E W e) q = true <-> denote E W dt e q.
Proof.
  induction e as [op a IH|op a IHa b IHb|op a IHa b IHb|op a IHa b IHb|a IH|d];
    cbn [compile eval_test denote].
  - rewrite Bool.negb_true_iff, <- IH. destruct (eval_test E dt (compile E W a) q); split;
      intros H; try discriminate; try reflexivity; try (intro; discriminate). exfalso; apply H; reflexivity.
  - rewrite Bool.orb_true_iff, IHa, IHb. tauto.
  - rewrite Bool.andb_true_iff, IHa, IHb. tauto.
  - rewrite Bool.andb_true_iff, Bool.negb_true_iff, IHa, <- IHb.
    destruct (eval_test E dt (compile E W b) q); split; intros [H1 H2]; split; auto;
      try discriminate; try (intro; discriminate). exfalso; apply H2; reflexivity.
  - exact IH.
  - apply leaf_test_in_set.
Qed.

(* the complement / decidable form, convenient for callers *)
Lemma eval_false_not_member E W dt e q :
  eval_test E dt (compile E W e) q = false <-> ~ denote E W dt e q.
Proof.
  rewrite <- eval_is_membership. destruct (eval_test E dt (compile E W e) q); split; intros H;
    try discriminate; try reflexivity; try (intro; discriminate). exfalso; apply H; reflexivity.
Qed.

(* ---------------------------------------------------------------- spelling irrelevance *)

Lemma compile_normalize E W e : compile E W (normalize_ops e) = compile E W e.
Proof.
  induction e; cbn [normalize_ops compile]; try rewrite IHe; try rewrite IHe1, IHe2; reflexivity.
Qed.

Lemma denote_normalize E W dt e q : denote E W dt (normalize_ops e) q <-> denote E W dt e q.
Proof. rewrite <- !eval_is_membership, compile_normalize. tauto. Qed.

Lemma spelling_irrelevant E W dt e1 e2 :
  normalize_ops e1 = normalize_ops e2 ->
  compile E W e1 = compile E W e2 /\
  (forall q, denote E W dt e1 q <-> denote E W dt e2 q) /\
  (forall q, eval_test E dt (compile E W e1) q = eval_test E dt (compile E W e2) q) /\
  (forall db bq, eval_binary E db (compile E W e1) bq = eval_binary E db (compile E W e2) bq).
Proof.
  intros H.
  assert (Hc : compile E W e1 = compile E W e2)
    by (rewrite <- (compile_normalize E W e1), <- (compile_normalize E W e2), H; reflexivity).
  split; [exact Hc|]. split; [|split].
  - intros q. rewrite <- (denote_normalize E W dt e1), <- (denote_normalize E W dt e2), H. tauto.
  - intros q. rewrite Hc. reflexivity.
  - intros db bq. rewrite Hc. reflexivity.
Qed.

(* parentheses mean nothing either *)
Lemma parens_irrelevant E W dt e q : denote E W dt (PParens e) q <-> denote E W dt e q.
Proof. cbn [denote]. tauto. Qed.

(* ---------------------------------------------------------------- Kleene soundness *)

Definition ctx_sound (dt : tquery -> bool) (db : bquery -> option bool) : Prop :=
  forall bq v, db bq = Some v -> forall name, dt (bq, name) = v.

Lemma leaf_kleene_sound E dt db l bq v :
  ctx_sound dt db -> leaf_binary E db l bq = Some v -> forall name, leaf_test E dt l (bq, name) = v.
Proof.
  intros Hc H name. destruct l; cbn [leaf_binary leaf_test fst snd] in *;
    try (injection H as <-; reflexivity); try discriminate.
  exact (Hc _ _ H name).
Qed.

Lemma kleene_sound_lemma E dt db :
  ctx_sound dt db ->
  forall e bq v, eval_binary E db e bq = Some v -> forall name, eval_test E dt e (bq, name) = v.
Proof.
  intros Hc e. induction e as [a IH|a IHa b IHb|a IHa b IHb|l]; intros bq v H name;
    cbn [eval_binary eval_test] in *.
  - destruct (eval_binary E db a bq) as [w|] eqn:Ea; cbn [k_not option_map] in H; [|discriminate].
    injection H as <-. rewrite (IH bq w Ea name). reflexivity.
  - destruct (eval_binary E db a bq) as [[|]|] eqn:Ea, (eval_binary E db b bq) as [[|]|] eqn:Eb;
      cbn [k_or] in H; try discriminate; injection H as <-;
      try rewrite (IHa bq _ Ea name); try rewrite (IHb bq _ Eb name);
      try reflexivity; try apply Bool.orb_true_r.
  - destruct (eval_binary E db a bq) as [[|]|] eqn:Ea, (eval_binary E db b bq) as [[|]|] eqn:Eb;
      cbn [k_and] in H; try discriminate; injection H as <-;
      try rewrite (IHa bq _ Ea name); try rewrite (IHb bq _ Eb name);
      try reflexivity; try apply Bool.andb_false_r.
  - exact (leaf_kleene_sound E dt db l bq v Hc H name).
Qed.

(* the evaluation context built from a compiled default filter is sound whatever that filter
   is (it may not contain default(); if it does, the inner default is "everything" / "unknown") *)
Lemma ctx_of_filter_sound E d : ctx_sound (ctx_test E d) (ctx_binary E d).
Proof.
  unfold ctx_sound, ctx_test, ctx_binary. intros bq v H name.
  apply (kleene_sound_lemma E (fun _ => true) (fun _ => None)); [|exact H].
  intros bq' v' H'. discriminate.
Qed.

Lemma ctx_all_sound : ctx_sound (fun _ => true) (fun _ => Some true).
Proof. intros bq v H name. injection H as <-. reflexivity. Qed.

(* a definite binary verdict decides membership of every test of that binary *)
Lemma binary_verdict_membership E W dt db e bq :
  ctx_sound dt db ->
  (eval_binary E db (compile E W e) bq = Some true -> forall name, denote E W dt e (bq, name)) /\
  (eval_binary E db (compile E W e) bq = Some false -> forall name, ~ denote E W dt e (bq, name)).
Proof.
  intros Hc. split; intros H name.
  - apply eval_is_membership. exact (kleene_sound_lemma E dt db Hc _ _ _ H name).
  - apply eval_false_not_member. exact (kleene_sound_lemma E dt db Hc _ _ _ H name).
Qed.
