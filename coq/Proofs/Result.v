(* Lemmas about run statistics, the verdict and the exit code (C01, C17). *)
From Coq Require Import List NArith ZArith Bool.
From NextestModel Require Import Base.Tac Model.Result.
Import ListNotations.
Open Scope N_scope.

(* the partition invariant of RunStats *)
Definition stats_ok (s : stats) : Prop :=
  passed s + failed s + exec_failed s + timed_out s = finished_count s /\
  flaky s <= passed s /\ leaky s <= passed s /\ passed_slow s <= passed s /\
  failed_slow s <= failed s /\
  ss_passed s + ss_failed s + ss_exec_failed s + ss_timed_out s = ss_finished s.

Lemma stats0_ok n : stats_ok (stats0 n).
Proof. unfold stats_ok, stats0; cbn. repeat split; lia. Qed.

Ltac stats_crush :=
  unfold stats_ok, on_test_finished, on_script_finished, bump_if, bump, failed_count,
    failed_setup_script_count in *; cbn in *; repeat split; try lia.

Lemma on_test_finished_ok s st : stats_ok s -> stats_ok (on_test_finished s st).
Proof.
  intros H. destruct s as [x0 x1 x2 x3 x4 x5 x6 x7 x8 x9 x10 x11 x12 x13 x14 x15 x16], st as [past [res slow no tot]].
  unfold on_test_finished. cbn [st_last a_res a_slow].
  destruct (1 <? st_len _); destruct res, slow; stats_crush.
Qed.

Lemma on_script_finished_ok s r : stats_ok s -> stats_ok (on_script_finished s r).
Proof. intros H. destruct s as [x0 x1 x2 x3 x4 x5 x6 x7 x8 x9 x10 x11 x12 x13 x14 x15 x16], r; stats_crush. Qed.

Lemma bump_skipped_ok s : stats_ok s -> stats_ok (bump FSkipped s).
Proof. intros H. destruct s as [x0 x1 x2 x3 x4 x5 x6 x7 x8 x9 x10 x11 x12 x13 x14 x15 x16]; stats_crush. Qed.

(* how one finished test moves the counters the verdict looks at *)
Definition fail1 (r : result) : N := if is_success r then 0 else 1.

Lemma on_test_finished_counts s st :
  let s' := on_test_finished s st in
  finished_count s' = finished_count s + 1 /\
  failed_count s' = failed_count s + fail1 (a_res (st_last st)) /\
  passed s' = passed s + (1 - fail1 (a_res (st_last st))) /\
  initial_run_count s' = initial_run_count s /\ ss_initial s' = ss_initial s /\
  ss_finished s' = ss_finished s /\ failed_setup_script_count s' = failed_setup_script_count s /\
  skipped s' = skipped s.
Proof.
  destruct s as [x0 x1 x2 x3 x4 x5 x6 x7 x8 x9 x10 x11 x12 x13 x14 x15 x16], st as [past [res slow no tot]].
  unfold on_test_finished. cbn [st_last a_res a_slow].
  destruct (1 <? st_len _); destruct res, slow; unfold fail1; stats_crush.
Qed.

Lemma on_script_finished_counts s r :
  let s' := on_script_finished s r in
  finished_count s' = finished_count s /\ failed_count s' = failed_count s /\
  passed s' = passed s /\
  initial_run_count s' = initial_run_count s /\ ss_initial s' = ss_initial s /\
  ss_finished s' = ss_finished s + 1 /\
  failed_setup_script_count s' = failed_setup_script_count s + fail1 r /\
  skipped s' = skipped s.
Proof. destruct s as [x0 x1 x2 x3 x4 x5 x6 x7 x8 x9 x10 x11 x12 x13 x14 x15 x16], r; unfold fail1; stats_crush. Qed.

Lemma bump_skipped_counts s :
  let s' := bump FSkipped s in
  finished_count s' = finished_count s /\ failed_count s' = failed_count s /\
  passed s' = passed s /\
  initial_run_count s' = initial_run_count s /\ ss_initial s' = ss_initial s /\
  ss_finished s' = ss_finished s /\
  failed_setup_script_count s' = failed_setup_script_count s /\ skipped s' = skipped s + 1.
Proof. destruct s as [x0 x1 x2 x3 x4 x5 x6 x7 x8 x9 x10 x11 x12 x13 x14 x15 x16]; stats_crush. Qed.

(* the verdict as a function of four quantities *)
Lemma summarize_final_cases s :
  ss_initial s = 0 ->
  (0 < failed_setup_script_count s /\ summarize_final s = Failed KScript) \/
  (failed_setup_script_count s = 0 /\ 0 < failed_count s /\
   exists a b, summarize_final s = Failed (KTest a b)) \/
  (failed_setup_script_count s = 0 /\ failed_count s = 0 /\
   finished_count s < initial_run_count s /\ exists a b, summarize_final s = Cancelled (KTest a b)) \/
  (failed_setup_script_count s = 0 /\ failed_count s = 0 /\
   initial_run_count s <= finished_count s /\ finished_count s = 0 /\ summarize_final s = NoTestsRun) \/
  (failed_setup_script_count s = 0 /\ failed_count s = 0 /\
   initial_run_count s <= finished_count s /\ 0 < finished_count s /\ summarize_final s = Success).
Proof.
  intros H0. unfold summarize_final. rewrite H0.
  destruct (N.ltb_spec 0 (failed_setup_script_count s)); [left; split; auto|].
  right. replace (ss_finished s <? 0) with false by (symmetry; apply N.ltb_ge; lia).
  destruct (N.ltb_spec 0 (failed_count s)); [left; repeat split; eauto; lia|].
  right. destruct (N.ltb_spec (finished_count s) (initial_run_count s));
    [left; repeat split; eauto; lia|].
  right. destruct (N.eqb_spec (finished_count s) 0); [left|right]; repeat split; auto; lia.
Qed.
