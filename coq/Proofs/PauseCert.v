(* The certificate for the pause table regenerated from the Rust source (gen/GenPauseTable.v):
   the set of reachable abstract states, and the boolean check that it is closed and that every
   transition out of it is acceptable -- both evaluated by vm_compute over the whole finite space. *)
From NextestModel Require Import Base.Str Model.Clocks Model.UnitTimers Model.AbsTimers Proofs.Timers
  gen.GenPauseTable.
From Coq Require Import MSets.MSetPositive.

Definition pause_reach : PositiveSet.t := Eval vm_compute in reach_set pause_table.

Lemma pause_cert : cert_with pause_table pause_reach = true.
Proof. vm_compute. reflexivity. Qed.

From NextestModel Require Import Proofs.DelayProps.
Lemma delay_cert : dcert pause_table = true.
Proof. vm_compute. reflexivity. Qed.

(* the block certificate (Model/UnitMonitor.v) for the regenerated table: Stop then Continue restores
   every pause flag, from every reachable abstract state in the running / terminating loops *)
From NextestModel Require Import Model.UnitMonitor.
Lemma pause_block_cert : block_cert pause_table pause_reach = true.
Proof. vm_compute. reflexivity. Qed.
