(* N unit-life machines + the setup-script gate.  [life_history]: a history the dispatcher
   receives in which the events of every selected test are the projection of a run of that test's
   unit-life machine (Model/UnitLife.v) that the environment admits, in ANY interleaving with each
   other and with script events, Skipped notifications, signals, input and report errors.
   Theorem [life_history_wf]: such a history satisfies [wf_history], the hypothesis of the
   dispatcher-family theorems (C01, C02, C10), which thereby hold for systems of unit-life
   machines.  What remains assumed of a history: the setup-script sequence and the gate
   ([grun]: scripts one after another, no test before they are done -- runner/imp.rs), at most one
   Skipped per unselected test and nothing else for tests that are not selected.
   Part 2: the operational product of Model/LifeProtocol.v ([yrun]: every unit step is taken
   under its own environment check, the dispatcher handles what the step sends, handshake answers
   are the dispatcher's own) produces only such histories. *)
From NextestModel Require Import Base.Str Base.Tac Model.Backoff Proofs.Backoff Model.Clocks
  Model.UnitTimers Model.AbsTimers Model.UnitLife Proofs.UnitLife.
From NextestModel Require Import Model.Result Model.Dispatcher Model.Unit Model.LifeProtocol
  Proofs.Result Proofs.Dispatcher Proofs.Unit Proofs.LifeProtocol.
Open Scope N_scope.

(* ------------------------------------------------------------ histories of a system of units *)
Definition unit_from_life (unicast : bool) (tbl : ptable) (S : lsystem)
           (ah : list (devent * handshake)) (t : tid) : Prop :=
  exists es y,
    lsys_run unicast tbl (ls_cfg S t) (lsys0 (ls_cfg S t)) es = LOk y /\
    filter (of_test t) ah = project_life tbl (ls_fd S t) t (ls_cfg S t) es.

Definition skipped_at_most_once (S : lsystem) (ah : list (devent * handshake)) (t : tid) : Prop :=
  filter (of_test t) ah = [] \/
  (In t (ls_unsel S) /\ exists hs, filter (of_test t) ah = [(Skipped t, hs)]).

Definition life_history (unicast : bool) (tbl : ptable) (S : lsystem) (mf : option N) (dbg : bool)
           (h : list devent) : Prop :=
  let c := cfg_of_lsystem S in
  let ah := annotate (Live (init_for c mf dbg)) h in
  cfg_ok c = true /\
  grun c (0, false) ah = true /\
  (forall t, In t (ls_sel S) -> unit_from_life unicast tbl S ah t) /\
  (forall t, ~ In t (ls_sel S) -> skipped_at_most_once S ah t).

(* of the three clauses of cfg_ok the one about attempt totals always holds *)
Lemma cfg_of_lsystem_ok S :
  cfg_ok (cfg_of_lsystem S) =
  nodupb (ls_sel S) && forallb (fun t => negb (memb t (ls_sel S))) (ls_unsel S).
Proof.
  unfold cfg_ok, cfg_of_lsystem. cbn [c_sel c_unsel c_total].
  assert (H : forallb (fun t => 1 <=? lc_total (ls_cfg S t)) (ls_sel S) = true).
  { apply forallb_forall. intros t _. apply N.leb_le. unfold lc_total. lia. }
  rewrite H, Bool.andb_true_r. reflexivity.
Qed.

Theorem life_history_wf unicast tbl S mf dbg h :
  life_history unicast tbl S mf dbg h -> wf_history (cfg_of_lsystem S) mf dbg h = true.
Proof.
  intros (Hok & Hg & Hsel & Hun). apply interleaving_wf. split; [exact Hok|]. split; [exact Hg|].
  intros t. destruct (memb t (ls_sel S)) eqn:Em.
  - destruct (Hsel t (proj1 (memb_in t _) Em)) as (es & y & _ & ->).
    apply life_refines_protocol; [exact Em|reflexivity].
  - assert (Hni : ~ In t (ls_sel S)) by (intros Hi; apply memb_in in Hi; congruence).
    destruct (Hun t Hni) as [->|(Hin & hs & ->)]; [reflexivity|].
    cbn [urun event_test]. rewrite N.eqb_refl. cbn [Model.Unit.ustep cfg_of_lsystem c_unsel].
    rewrite (proj2 (memb_in t _) Hin). reflexivity.
Qed.

(* ------------------------------------------------------------ the converse, for simple traces *)
Definition with_fd (S : lsystem) (fd : tid -> N -> fdetail) : lsystem :=
  {| ls_sel := ls_sel S; ls_unsel := ls_unsel S; ls_cfg := ls_cfg S; ls_fd := fd;
     ls_scripts := ls_scripts S |}.

Lemma filter_of_test_events t (ah : list (devent * handshake)) :
  Forall (fun x => event_test (fst x) = Some t) (filter (of_test t) ah).
Proof.
  apply Forall_forall. intros x Hx. apply filter_In in Hx as [_ Hx]. unfold of_test in Hx.
  destruct (event_test (fst x)) as [t'|]; [|discriminate]. apply N.eqb_eq in Hx. subst. reflexivity.
Qed.

(* what the protocol admits for a test that is not selected *)
Lemma unselected_trace c t l :
  memb t (c_sel c) = false -> Forall (fun x => event_test (fst x) = Some t) l ->
  urun c t PIdle l = true ->
  l = [] \/ (memb t (c_unsel c) = true /\ exists hs, l = [(Skipped t, hs)]).
Proof.
  intros Hns Hall Hu. destruct l as [|[e hs] l]; [left; reflexivity|right].
  inversion Hall as [|? ? He Hr]; subst. cbn [fst] in He.
  cbn [urun] in Hu. rewrite He, N.eqb_refl in Hu.
  destruct e; cbn [event_test] in He; try discriminate; injection He as ->;
    cbn [Model.Unit.ustep] in Hu; try rewrite Hns in Hu; try discriminate.
  destruct (memb t (c_unsel c)) eqn:Emu; [|discriminate]. split; [reflexivity|].
  exists hs. f_equal.
  destruct l as [|[e2 hs2] l]; [reflexivity|exfalso].
  inversion Hr as [|? ? He2 _]; subst. cbn [fst] in He2.
  cbn [urun] in Hu. rewrite He2, N.eqb_refl in Hu.
  destruct e2; cbn [event_test] in He2; try discriminate; injection He2 as ->;
    cbn [Model.Unit.ustep] in Hu; try rewrite Hns in Hu; try rewrite Emu in Hu; discriminate.
Qed.

Theorem wf_history_is_life_history unicast tbl S mf dbg h :
  let c := cfg_of_lsystem S in
  let ah := annotate (Live (init_for c mf dbg)) h in
  (forall t, In t (ls_sel S) -> forallb (simple_event t) (filter (of_test t) ah) = true) ->
  wf_history c mf dbg h = true ->
  life_history unicast tbl (with_fd S (fun t => fd_of_trace (filter (of_test t) ah))) mf dbg h.
Proof.
  cbv zeta. intros Hsimple Hwf. apply interleaving_wf in Hwf. destruct Hwf as (Hok & Hg & Hu).
  split; [exact Hok|]. split; [exact Hg|]. split.
  - intros t Hin. specialize (Hu t). rewrite ufold_urun in Hu.
    destruct (ufold (cfg_of_lsystem S) t PIdle
                (filter (of_test t) (annotate (Live (init_for (cfg_of_lsystem S) mf dbg)) h)))
      as [p|] eqn:Hf; [|discriminate].
    destruct (protocol_trace_is_projection unicast tbl t (ls_cfg S t) (cfg_of_lsystem S) _ p
                eq_refl (Hsimple t Hin) Hf) as (es & y & H1 & H2 & _).
    exists es, y. split; [exact H1|]. symmetry. exact H2.
  - intros t Hni.
    assert (Hm : memb t (c_sel (cfg_of_lsystem S)) = false).
    { destruct (memb t (c_sel (cfg_of_lsystem S))) eqn:E; [|reflexivity].
      exfalso. apply Hni. apply memb_in in E. exact E. }
    destruct (unselected_trace _ t _ Hm (filter_of_test_events t _) (Hu t)) as [E|(Hmu & hs & E)].
    + left. exact E.
    + right. split; [apply memb_in in Hmu; exact Hmu|]. exists hs. exact E.
Qed.

(* ------------------------------------------------------------ Part 2: the operational product *)
Lemma annotate_cons s e h :
  annotate s (e :: h) = (e, r_hs (snd (dstep s e))) :: annotate (next_state s e) h.
Proof. unfold annotate. rewrite trace_cons. reflexivity. Qed.

Lemma annotate_app : forall h1 h2 s,
  annotate s (h1 ++ h2) = annotate s h1 ++ annotate (final_state s h1) h2.
Proof.
  induction h1 as [|e h1 IH]; intros h2 s; [reflexivity|].
  cbn [app]. rewrite !annotate_cons, final_state_cons, IH. reflexivity.
Qed.

Lemma hs_eqb_eq a b : hs_eqb a b = true -> a = b.
Proof. destruct a, b; cbn; intros H; try discriminate; reflexivity. Qed.

Lemma grun_app c : forall h1 h2 g,
  grun c g (h1 ++ h2) = true ->
  grun c g h1 = true.
Proof.
  induction h1 as [|[e hs] h1 IH]; intros h2 g H; [reflexivity|].
  cbn [grun app] in *. destruct (gstep c g e hs); [eapply IH; exact H|discriminate].
Qed.

(* the dispatcher handles the events of one unit step *)
Lemma feed_spec c : forall evs d g d' g',
  feed c d g evs = Some (d', g') ->
  annotate d (map fst evs) = evs /\ final_state d (map fst evs) = d' /\
  forall rest, grun c g (evs ++ rest) = grun c g' rest.
Proof.
  induction evs as [|[e hs] evs IH]; intros d g d' g' H; cbn [feed] in H.
  - injection H as <- <-. repeat split.
  - destruct (dstep d e) as [[d1 ev1] rsp] eqn:Ed.
    destruct (hs_eqb (r_hs rsp) hs) eqn:Eh; [|discriminate]. apply hs_eqb_eq in Eh.
    destruct (gstep c g e hs) as [g1|] eqn:Eg; [|discriminate].
    destruct (IH d1 g1 d' g' H) as (A & B & C).
    assert (Hn : next_state d e = d1) by (unfold next_state; rewrite Ed; reflexivity).
    cbn [map fst]. rewrite annotate_cons, final_state_cons, Hn, Ed. cbn [snd].
    rewrite Eh, A. split; [reflexivity|]. split; [exact B|].
    intros rest. cbn [app grun]. rewrite Eg. apply C.
Qed.

(* what a unit step sends concerns its own test only *)
Lemma project_step_of_test fd t c s e s' outs :
  Forall (fun x => event_test (fst x) = Some t) (project_step fd t c s e s' outs).
Proof.
  assert (G : forall k done o, Forall (fun x => event_test (fst x) = Some t)
                 (map (fun d => (d, HNone)) (flat_map (project_out fd t c k done) o))).
  { intros k done o. induction o as [|x o IH]; [constructor|].
    cbn [flat_map]. rewrite map_app. apply Forall_app. split; [|exact IH].
    destruct x as [[| | |]| | |]; cbn [project_out map]; try constructor; try constructor;
      try reflexivity; destruct done; repeat constructor. }
  unfold project_step.
  destruct (l_ph s); try apply G; destruct e; try apply G; repeat constructor.
Qed.

Lemma filter_all {A} (f : A -> bool) l : Forall (fun x => f x = true) l -> filter f l = l.
Proof.
  induction 1 as [|x l Hx _ IH]; [reflexivity|]. cbn [filter]. rewrite Hx, IH. reflexivity.
Qed.

Lemma filter_none {A} (f : A -> bool) l : Forall (fun x => f x = false) l -> filter f l = [].
Proof.
  induction 1 as [|x l Hx _ IH]; [reflexivity|]. cbn [filter]. rewrite Hx, IH. reflexivity.
Qed.

Lemma of_test_same t (l : list (devent * handshake)) :
  Forall (fun x => event_test (fst x) = Some t) l -> filter (of_test t) l = l.
Proof.
  intros H. apply filter_all. eapply Forall_impl; [|exact H]. intros x Hx. unfold of_test.
  rewrite Hx. apply N.eqb_refl.
Qed.

Lemma of_test_other t t' (l : list (devent * handshake)) :
  t' <> t -> Forall (fun x => event_test (fst x) = Some t') l -> filter (of_test t) l = [].
Proof.
  intros Hne H. apply filter_none. eapply Forall_impl; [|exact H]. intros x Hx. unfold of_test.
  rewrite Hx. apply N.eqb_neq. exact Hne.
Qed.

Section Product.
  Variable unicast : bool.
  Variable tbl : ptable.
  Variable S : lsystem.
  Let c := cfg_of_lsystem S.
  Hypothesis Hok : cfg_ok c = true.

  Lemma unsel_not_sel t : memb t (ls_unsel S) = true -> memb t (ls_sel S) = false.
  Proof.
    intros Hu. destruct (memb t (ls_sel S)) eqn:E; [|reflexivity]. exfalso.
    apply (cfg_unsel_not_sel c t Hok Hu). apply memb_in in E. exact E.
  Qed.

  (* one step of the product, seen from the dispatcher, the gate and every unit *)
  Lemma ystep_spec y l y' evs :
    ystep unicast tbl S y l = Some (y', evs) ->
    annotate (ys_d y) (map fst evs) = evs /\ final_state (ys_d y) (map fst evs) = ys_d y' /\
    (forall rest, grun c (ys_g y) (evs ++ rest) = grun c (ys_g y') rest) /\
    (forall t, memb t (ls_sel S) = true ->
       match l with
       | YUnit t' e =>
           if t' =? t then
             lsys_step unicast tbl (ls_cfg S t) (ys_u y t) e = LOk (ys_u y' t) /\
             exists outs, lstep tbl (ls_cfg S t) (y_s (ys_u y t)) e = Ok (y_s (ys_u y' t), outs) /\
               filter (of_test t) evs
               = project_step (ls_fd S t) t (ls_cfg S t) (y_s (ys_u y t)) e (y_s (ys_u y' t)) outs
           else ys_u y' t = ys_u y t /\ filter (of_test t) evs = []
       | YOther _ => ys_u y' t = ys_u y t /\ filter (of_test t) evs = []
       end) /\
    (forall t, memb t (ls_sel S) = false ->
       (memb t (ys_skip y) = true -> memb t (ys_skip y') = true /\ filter (of_test t) evs = []) /\
       (filter (of_test t) evs = [] \/
        (In t (ls_unsel S) /\ memb t (ys_skip y') = true /\ exists hs, evs = [(Skipped t, hs)]))).
  Proof.
    intros H. destruct l as [t' e|e]; cbn [ystep] in H.
    - destruct (memb t' (ls_sel S)) eqn:Et'; [|discriminate].
      destruct (lsys_step unicast tbl (ls_cfg S t') (ys_u y t') e) as [u'| |] eqn:Els; try discriminate.
      destruct (lstep tbl (ls_cfg S t') (y_s (ys_u y t')) e) as [[s' outs]|] eqn:El; [|discriminate].
      destruct (feed (cfg_of_lsystem S) (ys_d y) (ys_g y)
                     (project_step (ls_fd S t') t' (ls_cfg S t') (y_s (ys_u y t')) e s' outs))
        as [[d' g']|] eqn:Ef; [|discriminate].
      injection H as <- <-. cbn [ys_d ys_g ys_u ys_skip].
      destruct (feed_spec _ _ _ _ _ _ Ef) as (A & B & C).
      split; [exact A|]. split; [exact B|]. split; [exact C|].
      destruct (lsys_step_fields tbl unicast (ls_cfg S t') (ys_u y t') e u' Els) as (_ & o & Hl & _).
      rewrite El in Hl. injection Hl as Hs' Ho. subst s' o.
      pose proof (project_step_of_test (ls_fd S t') t' (ls_cfg S t') (y_s (ys_u y t')) e (y_s u') outs) as Hof.
      split.
      + intros t Ht. destruct (N.eqb_spec t' t) as [->|Hne].
        * rewrite N.eqb_refl. split; [exact Els|]. exists outs. split; [exact El|].
          apply of_test_same. exact Hof.
        * destruct (N.eqb_spec t t') as [E|_]; [congruence|]. split; [reflexivity|].
          apply (of_test_other t t' _ Hne Hof).
      + intros t Ht. assert (Hne : t' <> t) by (intros ->; congruence).
        split; [intros Hm; split; [exact Hm|]|left]; apply (of_test_other t t' _ Hne Hof).
    - destruct (other_ok S (ys_skip y) e) eqn:Eo; [|discriminate].
      destruct (dstep (ys_d y) e) as [[d' ev1] rsp] eqn:Ed.
      destruct (gstep (cfg_of_lsystem S) (ys_g y) e (r_hs rsp)) as [g'|] eqn:Eg; [|discriminate].
      injection H as <- <-. cbn [ys_d ys_g ys_u ys_skip map fst].
      assert (Hn : next_state (ys_d y) e = d') by (unfold next_state; rewrite Ed; reflexivity).
      split; [rewrite annotate_cons, Ed; reflexivity|].
      split; [rewrite final_state_cons, Hn; reflexivity|].
      split; [intros rest; cbn [app grun]; fold c; unfold c; rewrite Eg; reflexivity|].
      split.
      + intros t Ht. split; [reflexivity|]. cbn [filter]. unfold of_test. cbn [fst].
        destruct (event_test e) as [t0|] eqn:Ee; [|reflexivity].
        destruct (N.eqb_spec t0 t) as [->|_]; [exfalso|reflexivity].
        destruct e; cbn [event_test] in Ee; try discriminate; cbn [other_ok event_test] in Eo;
          try discriminate. injection Ee as ->. apply andb_prop in Eo as [Eo _].
        rewrite (unsel_not_sel t Eo) in Ht. discriminate.
      + intros t Ht. cbn [filter]. unfold of_test. cbn [fst].
        destruct (event_test e) as [t0|] eqn:Ee.
        2:{ split; [intros Hm; split; [|reflexivity]|left; reflexivity].
            destruct e; try exact Hm; discriminate. }
        destruct e; cbn [event_test] in Ee; try discriminate; cbn [other_ok event_test] in Eo;
          try discriminate. injection Ee as ->. apply andb_prop in Eo as [Eu Ens].
        apply Bool.negb_true_iff in Ens.
        destruct (N.eqb_spec t0 t) as [->|Hne].
        * split; [intros Hm; congruence|]. right. split; [apply memb_in in Eu; exact Eu|].
          split; [cbn [memb existsb]; rewrite N.eqb_refl; reflexivity|]. eexists. reflexivity.
        * split; [|left; reflexivity]. intros Hm. split; [|reflexivity].
          cbn [memb existsb]. fold (memb t (ys_skip y)). rewrite Hm. apply Bool.orb_true_r.
  Qed.

  (* a run of the product from any state *)
  Lemma yrun_spec : forall ls y yf ah,
    yrun unicast tbl S y ls = Some (yf, ah) ->
    annotate (ys_d y) (map fst ah) = ah /\ final_state (ys_d y) (map fst ah) = ys_d yf /\
    grun c (ys_g y) ah = true /\
    (forall t, memb t (ls_sel S) = true ->
       lsys_run unicast tbl (ls_cfg S t) (ys_u y t) (unit_events t ls) = LOk (ys_u yf t) /\
       filter (of_test t) ah
       = project_from tbl (ls_fd S t) t (ls_cfg S t) (y_s (ys_u y t)) (unit_events t ls)) /\
    (forall t, memb t (ls_sel S) = false ->
       (memb t (ys_skip y) = true -> filter (of_test t) ah = []) /\
       (filter (of_test t) ah = [] \/
        (In t (ls_unsel S) /\ exists hs, filter (of_test t) ah = [(Skipped t, hs)]))).
  Proof.
    induction ls as [|l ls IH]; intros y yf ah H; cbn [yrun] in H.
    - injection H as <- <-. cbn [map unit_events lsys_run project_from filter].
      repeat split; try reflexivity; left; reflexivity.
    - destruct (ystep unicast tbl S y l) as [[y1 evs]|] eqn:Es; [|discriminate].
      destruct (yrun unicast tbl S y1 ls) as [[y2 ah']|] eqn:Er; [|discriminate].
      injection H as <- <-.
      destruct (ystep_spec y l y1 evs Es) as (A1 & B1 & C1 & U1 & K1).
      destruct (IH y1 y2 ah' Er) as (A2 & B2 & C2 & U2 & K2).
      split; [rewrite map_app, annotate_app, A1, B1, A2; reflexivity|].
      split; [rewrite map_app, final_state_app, B1; exact B2|].
      split; [rewrite C1; exact C2|]. split.
      + intros t Ht. specialize (U1 t Ht). destruct (U2 t Ht) as [R2 F2].
        rewrite filter_app, F2.
        destruct l as [t' e|e]; cbn [unit_events].
        * destruct (t' =? t).
          -- destruct U1 as (Hs & outs & Hl & Hf). cbn [lsys_run project_from].
             rewrite Hs, Hl, Hf. split; [exact R2|reflexivity].
          -- destruct U1 as [Hu Hf]. rewrite Hf, <- Hu. split; [exact R2|reflexivity].
        * destruct U1 as [Hu Hf]. rewrite Hf, <- Hu. split; [exact R2|reflexivity].
      + intros t Ht. destruct (K1 t Ht) as [K1a K1b]. destruct (K2 t Ht) as [K2a K2b].
        rewrite filter_app. split.
        * intros Hm. destruct (K1a Hm) as [Hm1 ->]. exact (K2a Hm1).
        * destruct K1b as [->|(Hin & Hm1 & hs & ->)]; [exact K2b|].
          right. split; [exact Hin|]. exists hs. rewrite (K2a Hm1).
          cbn [filter app]. unfold of_test. cbn [fst event_test]. rewrite N.eqb_refl. reflexivity.
  Qed.
End Product.

(* Theorem: every run of the product of unit-life machines, dispatcher and gate produces a
   history of the kind [life_history] describes -- hence a well-formed one -- and the
   annotation of that history by the dispatcher model is the one the run has recorded. *)
Theorem product_run_is_life_history unicast tbl S mf dbg ls yf ah :
  cfg_ok (cfg_of_lsystem S) = true ->
  yrun unicast tbl S (ystate0 S mf dbg) ls = Some (yf, ah) ->
  life_history unicast tbl S mf dbg (map fst ah) /\
  annotate (Live (init_for (cfg_of_lsystem S) mf dbg)) (map fst ah) = ah /\
  ys_d yf = final_state (Live (init_for (cfg_of_lsystem S) mf dbg)) (map fst ah) /\
  forall t, In t (ls_sel S) ->
    lsys_run unicast tbl (ls_cfg S t) (lsys0 (ls_cfg S t)) (unit_events t ls) = LOk (ys_u yf t).
Proof.
  intros Hok H. destruct (yrun_spec unicast tbl S Hok ls _ yf ah H) as (A & B & C & U & K).
  cbn [ystate0 ys_d ys_g ys_u ys_skip] in *.
  split; [|split; [exact A|split; [symmetry; exact B|]]].
  - unfold life_history. cbv zeta. rewrite A. split; [exact Hok|]. split; [exact C|]. split.
    + intros t Hin. apply memb_in in Hin. destruct (U t Hin) as [R F].
      exists (unit_events t ls), (ys_u yf t). split; [exact R|exact F].
    + intros t Hni.
      assert (Hm : memb t (ls_sel S) = false).
      { destruct (memb t (ls_sel S)) eqn:E; [|reflexivity]. exfalso. apply Hni. apply memb_in in E. exact E. }
      exact (proj2 (K t Hm)).
  - intros t Hin. apply memb_in in Hin. exact (proj1 (U t Hin)).
Qed.

Corollary product_run_wf unicast tbl S mf dbg ls yf ah :
  cfg_ok (cfg_of_lsystem S) = true ->
  yrun unicast tbl S (ystate0 S mf dbg) ls = Some (yf, ah) ->
  wf_history (cfg_of_lsystem S) mf dbg (map fst ah) = true.
Proof.
  intros Hok H. apply (life_history_wf unicast tbl).
  exact (proj1 (product_run_is_life_history unicast tbl S mf dbg ls yf ah Hok H)).
Qed.
