(* N unit-life machines + the setup-script gate.  [life_history]: a history the dispatcher
   receives in which the events of every selected test are the projection of a run of that test's
   unit-life machine (Model/UnitLife.v) that the environment admits, in ANY interleaving with each
   other and with script events, Skipped notifications, signals, input and report errors.
   Theorem [life_history_wf]: such a history satisfies [wf_history], the hypothesis of the
   dispatcher-family theorems (C01, C02, C10), which thereby hold for systems of unit-life
   machines.  What remains assumed of a history: the setup-script sequence and the gate
   ([grun]: scripts one after another, no test before they are done -- runner/imp.rs), at most one
   Skipped per unselected test and nothing else for tests that are not selected.
   Part 2: the operational product of Model/LifeProtocol.v ([yrun]: every unit step is taken
   under its own environment check, the dispatcher handles what the step sends, handshake answers
   are the dispatcher's own) produces only such histories. *)
From NextestModel Require Import Base.Str Base.Tac Model.Backoff Proofs.Backoff Model.Clocks
  Model.UnitTimers Model.AbsTimers Model.UnitLife Proofs.UnitLife.
From NextestModel Require Import Model.Result Model.Dispatcher Model.Unit Model.LifeProtocol
  Proofs.Result Proofs.Dispatcher Proofs.Unit Proofs.LifeProtocol.
Open Scope N_scope.

(* ------------------------------------------------------------ histories of a system of units *)
Definition unit_from_life (unicast : bool) (tbl : ptable) (S : lsystem)
           (ah : list (devent * handshake)) (t : tid) : Prop :=
  exists es y,
    lsys_run unicast tbl (ls_cfg S t) (lsys0 (ls_cfg S t)) es = LOk y /\
    filter (of_test t) ah = project_life tbl (ls_fd S t) t (ls_cfg S t) es.

Definition skipped_at_most_once (S : lsystem) (ah : list (devent * handshake)) (t : tid) : Prop :=
  filter (of_test t) ah = [] \/
  (In t (ls_unsel S) /\ exists hs, filter (of_test t) ah = [(Skipped t, hs)]).

Definition life_history (unicast : bool) (tbl : ptable) (S : lsystem) (mf : option N) (dbg : bool)
           (h : list devent) : Prop :=
  let c := cfg_of_lsystem S in
  let ah := annotate (Live (init_for c mf dbg)) h in
  cfg_ok c = true /\
  grun c (0, false) ah = true /\
  (forall t, In t (ls_sel S) -> unit_from_life unicast tbl S ah t) /\
  (forall t, ~ In t (ls_sel S) -> skipped_at_most_once S ah t).

(* of the three clauses of cfg_ok the one about attempt totals always holds *)
Lemma cfg_of_lsystem_ok S :
  cfg_ok (cfg_of_lsystem S) =
  nodupb (ls_sel S) && forallb (fun t => negb (memb t (ls_sel S))) (ls_unsel S).
Proof.
  unfold cfg_ok, cfg_of_lsystem. cbn [c_sel c_unsel c_total].
  assert (H : forallb (fun t => 1 <=? lc_total (ls_cfg S t)) (ls_sel S) = true).
  { apply forallb_forall. intros t _. apply N.leb_le. unfold lc_total. lia. }
  rewrite H, Bool.andb_true_r. reflexivity.
Qed.

Theorem life_history_wf unicast tbl S mf dbg h :
  life_history unicast tbl S mf dbg h -> wf_history (cfg_of_lsystem S) mf dbg h = true.
Proof.
  intros (Hok & Hg & Hsel & Hun). apply interleaving_wf. split; [exact Hok|]. split; [exact Hg|].
  intros t. destruct (memb t (ls_sel S)) eqn:Em.
  - destruct (Hsel t (proj1 (memb_in t _) Em)) as (es & y & _ & ->).
    apply life_refines_protocol; [exact Em|reflexivity].
  - assert (Hni : ~ In t (ls_sel S)) by (intros Hi; apply memb_in in Hi; congruence).
    destruct (Hun t Hni) as [->|(Hin & hs & ->)]; [reflexivity|].
    cbn [urun event_test]. rewrite N.eqb_refl. cbn [Model.Unit.ustep cfg_of_lsystem c_unsel].
    rewrite (proj2 (memb_in t _) Hin). reflexivity.
Qed.

(* ------------------------------------------------------------ the converse, for simple traces *)
Definition with_fd (S : lsystem) (fd : tid -> N -> fdetail) : lsystem :=
  {| ls_sel := ls_sel S; ls_unsel := ls_unsel S; ls_cfg := ls_cfg S; ls_fd := fd;
     ls_scripts := ls_scripts S |}.

Lemma filter_of_test_events t (ah : list (devent * handshake)) :
  Forall (fun x => event_test (fst x) = Some t) (filter (of_test t) ah).
Proof.
  apply Forall_forall. intros x Hx. apply filter_In in Hx as [_ Hx]. unfold of_test in Hx.
  destruct (event_test (fst x)) as [t'|]; [|discriminate]. apply N.eqb_eq in Hx. subst. reflexivity.
Qed.

(* what the protocol admits for a test that is not selected *)
Lemma unselected_trace c t l :
  memb t (c_sel c) = false -> Forall (fun x => event_test (fst x) = Some t) l ->
  urun c t PIdle l = true ->
  l = [] \/ (memb t (c_unsel c) = true /\ exists hs, l = [(Skipped t, hs)]).
Proof.
  intros Hns Hall Hu. destruct l as [|[e hs] l]; [left; reflexivity|right].
  inversion Hall as [|? ? He Hr]; subst. cbn [fst] in He.
  cbn [urun] in Hu. rewrite He, N.eqb_refl in Hu.
  destruct e; cbn [event_test] in He; try discriminate; injection He as ->;
    cbn [Model.Unit.ustep] in Hu; try rewrite Hns in Hu; try discriminate.
  destruct (memb t (c_unsel c)) eqn:Emu; [|discriminate]. split; [reflexivity|].
  exists hs. f_equal.
  destruct l as [|[e2 hs2] l]; [reflexivity|exfalso].
  inversion Hr as [|? ? He2 _]; subst. cbn [fst] in He2.
  cbn [urun] in Hu. rewrite He2, N.eqb_refl in Hu.
  destruct e2; cbn [event_test] in He2; try discriminate; injection He2 as ->;
    cbn [Model.Unit.ustep] in Hu; try rewrite Hns in Hu; try rewrite Emu in Hu; discriminate.
Qed.

Theorem wf_history_is_life_history unicast tbl S mf dbg h :
  let c := cfg_of_lsystem S in
  let ah := annotate (Live (init_for c mf dbg)) h in
  (forall t, In t (ls_sel S) -> forallb (simple_event t) (filter (of_test t) ah) = true) ->
  wf_history c mf dbg h = true ->
  life_history unicast tbl (with_fd S (fun t => fd_of_trace (filter (of_test t) ah))) mf dbg h.
Proof.
  cbv zeta. intros Hsimple Hwf. apply interleaving_wf in Hwf. destruct Hwf as (Hok & Hg & Hu).
  split; [exact Hok|]. split; [exact Hg|]. split.
  - intros t Hin. specialize (Hu t). rewrite ufold_urun in Hu.
    destruct (ufold (cfg_of_lsystem S) t PIdle
                (filter (of_test t) (annotate (Live (init_for (cfg_of_lsystem S) mf dbg)) h)))
      as [p|] eqn:Hf; [|discriminate].
    destruct (protocol_trace_is_projection unicast tbl t (ls_cfg S t) (cfg_of_lsystem S) _ p
                eq_refl (Hsimple t Hin) Hf) as (es & y & H1 & H2 & _).
    exists es, y. split; [exact H1|]. symmetry. exact H2.
  - intros t Hni.
    assert (Hm : memb t (c_sel (cfg_of_lsystem S)) = false).
    { destruct (memb t (c_sel (cfg_of_lsystem S))) eqn:E; [|reflexivity].
      exfalso. apply Hni. apply memb_in in E. exact E. }
    destruct (unselected_trace _ t _ Hm (filter_of_test_events t _) (Hu t)) as [E|(Hmu & hs & E)].
    + left. exact E.
    + right. split; [apply memb_in in Hmu; exact Hmu|]. exists hs. exact E.
Qed.

(* ------------------------------------------------------------ Part 2: the operational product *)
Lemma annotate_cons s e h :
  annotate s (e :: h) = (e, r_hs (snd (dstep s e))) :: annotate (next_state s e) h.
Proof. unfold annotate. rewrite trace_cons. reflexivity. Qed.

Lemma annotate_app : forall h1 h2 s,
  annotate s (h1 ++ h2) = annotate s h1 ++ annotate (final_state s h1) h2.
Proof.
  induction h1 as [|e h1 IH]; intros h2 s; [reflexivity|].
  cbn [app]. rewrite !annotate_cons, final_state_cons, IH. reflexivity.
Qed.

Lemma hs_eqb_eq a b : hs_eqb a b = true -> a = b.
Proof. destruct a, b; cbn; intros H; try discriminate; reflexivity. Qed.

Lemma grun_app c : forall h1 h2 g,
  grun c g (h1 ++ h2) = true ->
  grun c g h1 = true.
Proof.
  induction h1 as [|[e hs] h1 IH]; intros h2 g H; [reflexivity|].
  cbn [grun app] in *. destruct (gstep c g e hs); [eapply IH; exact H|discriminate].
Qed.

(* the dispatcher handles the events of one unit step *)
Lemma feed_spec c : forall evs d g d' g',
  feed c d g evs = Some (d', g') ->
  annotate d (map fst evs) = evs /\ final_state d (map fst evs) = d' /\
  forall rest, grun c g (evs ++ rest) = grun c g' rest.
Proof.
  induction evs as [|[e hs] evs IH]; intros d g d' g' H; cbn [feed] in H.
  - injection H as <- <-. repeat split.
  - destruct (dstep d e) as [[d1 ev1] rsp] eqn:Ed.
    destruct (hs_eqb (r_hs rsp) hs) eqn:Eh; [|discriminate]. apply hs_eqb_eq in Eh.
    destruct (gstep c g e hs) as [g1|] eqn:Eg; [|discriminate].
    destruct (IH d1 g1 d' g' H) as (A & B & C).
    assert (Hn : next_state d e = d1) by (unfold next_state; rewrite Ed; reflexivity).
    cbn [map fst]. rewrite annotate_cons, final_state_cons, Hn, Ed. cbn [snd].
    rewrite Eh, A. split; [reflexivity|]. split; [exact B|].
    intros rest. cbn [app grun]. rewrite Eg. apply C.
Qed.

(* what a unit step sends concerns its own test only *)
Lemma project_step_of_test fd t c s e s' outs :
  Forall (fun x => event_test (fst x) = Some t) (project_step fd t c s e s' outs).
Proof.
  assert (G : forall k done o, Forall (fun x => event_test (fst x) = Some t)
                 (map (fun d => (d, HNone)) (flat_map (project_out fd t c k done) o))).
  { intros k done o. induction o as [|x o IH]; [constructor|].
    cbn [flat_map]. rewrite map_app. apply Forall_app. split; [|exact IH].
    destruct x as [[| | |]| | |]; cbn [project_out map]; try constructor; try constructor;
      try reflexivity; destruct done; repeat constructor. }
  unfold project_step.
  destruct (l_ph s); try apply G; destruct e; try apply G; repeat constructor.
Qed.

Lemma filter_all {A} (f : A -> bool) l : Forall (fun x => f x = true) l -> filter f l = l.
Proof.
  induction 1 as [|x l Hx _ IH]; [reflexivity|]. cbn [filter]. rewrite Hx, IH. reflexivity.
Qed.

Lemma filter_none {A} (f : A -> bool) l : Forall (fun x => f x = false) l -> filter f l = [].
Proof.
  induction 1 as [|x l Hx _ IH]; [reflexivity|]. cbn [filter]. rewrite Hx, IH. reflexivity.
Qed.

Lemma of_test_same t (l : list (devent * handshake)) :
  Forall (fun x => event_test (fst x) = Some t) l -> filter (of_test t) l = l.
Proof.
  intros H. apply filter_all. eapply Forall_impl; [|exact H]. intros x Hx. unfold of_test.
  rewrite Hx. apply N.eqb_refl.
Qed.

Lemma of_test_other t t' (l : list (devent * handshake)) :
  t' <> t -> Forall (fun x => event_test (fst x) = Some t') l -> filter (of_test t) l = [].
Proof.
  intros Hne H. apply filter_none. eapply Forall_impl; [|exact H]. intros x Hx. unfold of_test.
  rewrite Hx. apply N.eqb_neq. exact Hne.
Qed.

Section Product.
  Variable unicast : bool.
  Variable tbl : ptable.
  Variable S : lsystem.
  Let c := cfg_of_lsystem S.
  Hypothesis Hok : cfg_ok c = true.

  Lemma unsel_not_sel t : memb t (ls_unsel S) = true -> memb t (ls_sel S) = false.
  Proof.
    intros Hu. destruct (memb t (ls_sel S)) eqn:E; [|reflexivity]. exfalso.
    apply (cfg_unsel_not_sel c t Hok Hu). apply memb_in in E. exact E.
  Qed.

  (* one step of the product, seen from the dispatcher, the gate and every unit *)
  Lemma ystep_spec y l y' evs :
    ystep unicast tbl S y l = Some (y', evs) ->
    annotate (ys_d y) (map fst evs) = evs /\ final_state (ys_d y) (map fst evs) = ys_d y' /\
    (forall rest, grun c (ys_g y) (evs ++ rest) = grun c (ys_g y') rest) /\
    (forall t, memb t (ls_sel S) = true ->
       match l with
       | YUnit t' e =>
           if t' =? t then
             lsys_step unicast tbl (ls_cfg S t) (ys_u y t) e = LOk (ys_u y' t) /\
             exists outs, lstep tbl (ls_cfg S t) (y_s (ys_u y t)) e = Ok (y_s (ys_u y' t), outs) /\
               filter (of_test t) evs
               = project_step (ls_fd S t) t (ls_cfg S t) (y_s (ys_u y t)) e (y_s (ys_u y' t)) outs
           else ys_u y' t = ys_u y t /\ filter (of_test t) evs = []
       | YOther _ => ys_u y' t = ys_u y t /\ filter (of_test t) evs = []
       end) /\
    (forall t, memb t (ls_sel S) = false ->
       (memb t (ys_skip y) = true -> memb t (ys_skip y') = true /\ filter (of_test t) evs = []) /\
       (filter (of_test t) evs = [] \/
        (In t (ls_unsel S) /\ memb t (ys_skip y') = true /\ exists hs, evs = [(Skipped t, hs)]))).
  Proof.
    intros H. destruct l as [t' e|e]; cbn [ystep] in H.
    - destruct (memb t' (ls_sel S)) eqn:Et'; [|discriminate].
      destruct (lsys_step unicast tbl (ls_cfg S t') (ys_u y t') e) as [u'| |] eqn:Els; try discriminate.
      destruct (lstep tbl (ls_cfg S t') (y_s (ys_u y t')) e) as [[s' outs]|] eqn:El; [|discriminate].
      destruct (feed (cfg_of_lsystem S) (ys_d y) (ys_g y)
                     (project_step (ls_fd S t') t' (ls_cfg S t') (y_s (ys_u y t')) e s' outs))
        as [[d' g']|] eqn:Ef; [|discriminate].
      injection H as <- <-. cbn [ys_d ys_g ys_u ys_skip].
      destruct (feed_spec _ _ _ _ _ _ Ef) as (A & B & C).
      split; [exact A|]. split; [exact B|]. split; [exact C|].
      destruct (lsys_step_fields tbl unicast (ls_cfg S t') (ys_u y t') e u' Els) as (_ & o & Hl & _).
      rewrite El in Hl. injection Hl as Hs' Ho. subst s' o.
      pose proof (project_step_of_test (ls_fd S t') t' (ls_cfg S t') (y_s (ys_u y t')) e (y_s u') outs) as Hof.
      split.
      + intros t Ht. destruct (N.eqb_spec t' t) as [->|Hne].
        * rewrite N.eqb_refl. split; [exact Els|]. exists outs. split; [exact El|].
          apply of_test_same. exact Hof.
        * destruct (N.eqb_spec t t') as [E|_]; [congruence|]. split; [reflexivity|].
          apply (of_test_other t t' _ Hne Hof).
      + intros t Ht. assert (Hne : t' <> t) by (intros ->; congruence).
        split; [intros Hm; split; [exact Hm|]|left]; apply (of_test_other t t' _ Hne Hof).
    - destruct (other_ok S (ys_skip y) e) eqn:Eo; [|discriminate].
      destruct (dstep (ys_d y) e) as [[d' ev1] rsp] eqn:Ed.
      destruct (gstep (cfg_of_lsystem S) (ys_g y) e (r_hs rsp)) as [g'|] eqn:Eg; [|discriminate].
      injection H as <- <-. cbn [ys_d ys_g ys_u ys_skip map fst].
      assert (Hn : next_state (ys_d y) e = d') by (unfold next_state; rewrite Ed; reflexivity).
      split; [rewrite annotate_cons, Ed; reflexivity|].
      split; [rewrite final_state_cons, Hn; reflexivity|].
      split; [intros rest; cbn [app grun]; fold c; unfold c; rewrite Eg; reflexivity|].
      split.
      + intros t Ht. split; [reflexivity|]. cbn [filter]. unfold of_test. cbn [fst].
        destruct (event_test e) as [t0|] eqn:Ee; [|reflexivity].
        destruct (N.eqb_spec t0 t) as [->|_]; [exfalso|reflexivity].
        destruct e; cbn [event_test] in Ee; try discriminate; cbn [other_ok event_test] in Eo;
          try discriminate. injection Ee as ->. apply andb_prop in Eo as [Eo _].
        rewrite (unsel_not_sel t Eo) in Ht. discriminate.
      + intros t Ht. cbn [filter]. unfold of_test. cbn [fst].
        destruct (event_test e) as [t0|] eqn:Ee.
        2:{ split; [intros Hm; split; [|reflexivity]|left; reflexivity].
            destruct e; try exact Hm; discriminate. }
        destruct e; cbn [event_test] in Ee; try discriminate; cbn [other_ok event_test] in Eo;
          try discriminate. injection Ee as ->. apply andb_prop in Eo as [Eu Ens].
        apply Bool.negb_true_iff in Ens.
        destruct (N.eqb_spec t0 t) as [->|Hne].
        * split; [intros Hm; congruence|]. right. split; [apply memb_in in Eu; exact Eu|].
          split; [cbn [memb existsb]; rewrite N.eqb_refl; reflexivity|]. eexists. reflexivity.
        * split; [|left; reflexivity]. intros Hm. split; [|reflexivity].
          cbn [memb existsb]. fold (memb t (ys_skip y)). rewrite Hm. apply Bool.orb_true_r.
  Qed.

  (* a run of the product from any state *)
  Lemma yrun_spec : forall ls y yf ah,
    yrun unicast tbl S y ls = Some (yf, ah) ->
    annotate (ys_d y) (map fst ah) = ah /\ final_state (ys_d y) (map fst ah) = ys_d yf /\
    grun c (ys_g y) ah = true /\
    (forall t, memb t (ls_sel S) = true ->
       lsys_run unicast tbl (ls_cfg S t) (ys_u y t) (unit_events t ls) = LOk (ys_u yf t) /\
       filter (of_test t) ah
       = project_from tbl (ls_fd S t) t (ls_cfg S t) (y_s (ys_u y t)) (unit_events t ls)) /\
    (forall t, memb t (ls_sel S) = false ->
       (memb t (ys_skip y) = true -> filter (of_test t) ah = []) /\
       (filter (of_test t) ah = [] \/
        (In t (ls_unsel S) /\ exists hs, filter (of_test t) ah = [(Skipped t, hs)]))).
  Proof.
    induction ls as [|l ls IH]; intros y yf ah H; cbn [yrun] in H.
    - injection H as <- <-. cbn [map unit_events lsys_run project_from filter].
      repeat split; try reflexivity; left; reflexivity.
    - destruct (ystep unicast tbl S y l) as [[y1 evs]|] eqn:Es; [|discriminate].
      destruct (yrun unicast tbl S y1 ls) as [[y2 ah']|] eqn:Er; [|discriminate].
      injection H as <- <-.
      destruct (ystep_spec y l y1 evs Es) as (A1 & B1 & C1 & U1 & K1).
      destruct (IH y1 y2 ah' Er) as (A2 & B2 & C2 & U2 & K2).
      split; [rewrite map_app, annotate_app, A1, B1, A2; reflexivity|].
      split; [rewrite map_app, final_state_app, B1; exact B2|].
      split; [rewrite C1; exact C2|]. split.
      + intros t Ht. specialize (U1 t Ht). destruct (U2 t Ht) as [R2 F2].
        rewrite filter_app, F2.
        destruct l as [t' e|e]; cbn [unit_events].
        * destruct (t' =? t).
          -- destruct U1 as (Hs & outs & Hl & Hf). cbn [lsys_run project_from].
             rewrite Hs, Hl, Hf. split; [exact R2|reflexivity].
          -- destruct U1 as [Hu Hf]. rewrite Hf, <- Hu. split; [exact R2|reflexivity].
        * destruct U1 as [Hu Hf]. rewrite Hf, <- Hu. split; [exact R2|reflexivity].
      + intros t Ht. destruct (K1 t Ht) as [K1a K1b]. destruct (K2 t Ht) as [K2a K2b].
        rewrite filter_app. split.
        * intros Hm. destruct (K1a Hm) as [Hm1 ->]. exact (K2a Hm1).
        * destruct K1b as [->|(Hin & Hm1 & hs & ->)]; [exact K2b|].
          right. split; [exact Hin|]. exists hs. rewrite (K2a Hm1).
          cbn [filter app]. unfold of_test. cbn [fst event_test]. rewrite N.eqb_refl. reflexivity.
  Qed.
End Product.

(* Theorem: every run of the product of unit-life machines, dispatcher and gate produces a
   history of the kind [life_history] describes -- hence a well-formed one -- and the
   annotation of that history by the dispatcher model is the one the run has recorded. *)
Theorem product_run_is_life_history unicast tbl S mf dbg ls yf ah :
  cfg_ok (cfg_of_lsystem S) = true ->
  yrun unicast tbl S (ystate0 S mf dbg) ls = Some (yf, ah) ->
  life_history unicast tbl S mf dbg (map fst ah) /\
  annotate (Live (init_for (cfg_of_lsystem S) mf dbg)) (map fst ah) = ah /\
  ys_d yf = final_state (Live (init_for (cfg_of_lsystem S) mf dbg)) (map fst ah) /\
  forall t, In t (ls_sel S) ->
    lsys_run unicast tbl (ls_cfg S t) (lsys0 (ls_cfg S t)) (unit_events t ls) = LOk (ys_u yf t).
Proof.
  intros Hok H. destruct (yrun_spec unicast tbl S Hok ls _ yf ah H) as (A & B & C & U & K).
  cbn [ystate0 ys_d ys_g ys_u ys_skip] in *.
  split; [|split; [exact A|split; [symmetry; exact B|]]].
  - unfold life_history. cbv zeta. rewrite A. split; [exact Hok|]. split; [exact C|]. split.
    + intros t Hin. apply memb_in in Hin. destruct (U t Hin) as [R F].
      exists (unit_events t ls), (ys_u yf t). split; [exact R|exact F].
    + intros t Hni.
      assert (Hm : memb t (ls_sel S) = false).
      { destruct (memb t (ls_sel S)) eqn:E; [|reflexivity]. exfalso. apply Hni. apply memb_in in E. exact E. }
      exact (proj2 (K t Hm)).
  - intros t Hin. apply memb_in in Hin. exact (proj1 (U t Hin)).
Qed.

Corollary product_run_wf unicast tbl S mf dbg ls yf ah :
  cfg_ok (cfg_of_lsystem S) = true ->
  yrun unicast tbl S (ystate0 S mf dbg) ls = Some (yf, ah) ->
  wf_history (cfg_of_lsystem S) mf dbg (map fst ah) = true.
Proof.
  intros Hok H. apply (life_history_wf unicast tbl).
  exact (proj1 (product_run_is_life_history unicast tbl S mf dbg ls yf ah Hok H)).
Qed.

(* ------------------------------------------------------------ C10 for systems of unit-life machines *)
Lemma terminal_rejects c t p e hs :
  phase_terminal p = true -> event_test e = Some t -> Model.Unit.ustep c t p e hs = None.
Proof.
  intros Hp He. destruct e; cbn [event_test] in He; try discriminate;
    destruct p; try discriminate Hp; cbn [Model.Unit.ustep]; try reflexivity;
    destruct (memb t (c_sel c)); try reflexivity; destruct (memb t (c_unsel c)); reflexivity.
Qed.

(* a unit trace in which a start request is not accepted ends there, refused *)
Lemma refused_start_ends c t : forall F p pf,
  Forall (fun x => event_test (fst x) = Some t) F -> ufold c t p F = Some pf ->
  (exists e hs, In (e, hs) F /\ is_start_request e = true /\ hs <> HAccepted) ->
  pf = PRefusedStart \/ exists k, pf = PRefusedRetry k.
Proof.
  induction F as [|[e hs] F IH]; intros p pf Hall Hf (e0 & hs0 & Hin & Hst & Hna); [destruct Hin|].
  inversion Hall as [|? ? He Hr]; subst. cbn [fst] in He.
  cbn [ufold] in Hf. rewrite He, N.eqb_refl in Hf.
  destruct (Model.Unit.ustep c t p e hs) as [p1|] eqn:Eu; [|discriminate].
  destruct Hin as [E|Hin].
  - injection E as -> ->.
    assert (Hterm : phase_terminal p1 = true /\ (p1 = PRefusedStart \/ exists k, p1 = PRefusedRetry k)).
    { destruct e0; cbn [is_start_request] in Hst; try discriminate; cbn [event_test] in He;
        try discriminate; cbn [Model.Unit.ustep] in Eu.
      - destruct (memb t (c_sel c)); [|discriminate].
        destruct p; try (destruct hs0; discriminate).
        destruct hs0; try discriminate; [exfalso; apply Hna; reflexivity|].
        injection Eu as <-. split; [reflexivity|left; reflexivity].
      - destruct p as [| |k| | | |]; try discriminate.
        destruct ((no =? k + 1) && (total =? c_total c t)); [|discriminate].
        destruct hs0; try discriminate; [exfalso; apply Hna; reflexivity|].
        injection Eu as <-. split; [reflexivity|right; exists k; reflexivity]. }
    destruct Hterm as [Ht Hp1].
    destruct F as [|[e2 hs2] F].
    + cbn [ufold] in Hf. injection Hf as <-. exact Hp1.
    + exfalso. inversion Hr as [|? ? He2 _]; subst. cbn [fst] in He2.
      cbn [ufold] in Hf. rewrite He2, N.eqb_refl, (terminal_rejects c t p1 e2 hs2 Ht He2) in Hf.
      discriminate.
  - apply (IH p1 pf Hr Hf). exists e0, hs0. repeat split; assumption.
Qed.

Lemma phase_refused_inv s :
  phase_of_lstate s = PRefusedStart \/ (exists k, phase_of_lstate s = PRefusedRetry k) ->
  l_ph s = LRefusedP.
Proof.
  unfold phase_of_lstate. destruct (l_ph s); try reflexivity; intros [H|[k H]]; discriminate.
Qed.

(* After cancellation has been announced, a unit-life machine that asks to start anything (its
   first attempt or a retry) is refused and returns without a further attempt and without
   Finished: its life ends in LRefusedP. *)
Theorem unit_refused_after_announcement unicast tbl S mf dbg h tr1 x tr2 t es y :
  let c := cfg_of_lsystem S in
  let ah := annotate (Live (init_for c mf dbg)) h in
  trace (Live (init_for c mf dbg)) h = tr1 ++ x :: tr2 ->
  existsb is_ann (step_events x) = true ->
  memb t (ls_sel S) = true ->
  lsys_run unicast tbl (ls_cfg S t) (lsys0 (ls_cfg S t)) es = LOk y ->
  filter (of_test t) ah = project_life tbl (ls_fd S t) t (ls_cfg S t) es ->
  (exists z, In z tr2 /\ is_start_request (step_input z) = true /\
             event_test (step_input z) = Some t) ->
  l_ph (y_s y) = LRefusedP.
Proof.
  cbv zeta. intros Htr Hann Hsel Hrun Hproj (z & Hz & Hst & Hzt).
  set (c := cfg_of_lsystem S) in *.
  set (an := fun x0 : devent * list revent * response => (step_input x0, r_hs (step_resp x0))) in *.
  assert (Hah : annotate (Live (init_for c mf dbg)) h = map an tr1 ++ an x :: map an tr2).
  { unfold annotate. fold an. rewrite Htr, map_app. reflexivity. }
  pose proof (life_refines_protocol_phase unicast tbl (ls_fd S t) t (ls_cfg S t) c es y Hsel eq_refl Hrun)
    as Hph.
  rewrite <- Hproj, Hah in Hph.
  change (map an tr1 ++ an x :: map an tr2) with (map an tr1 ++ [an x] ++ map an tr2) in Hph.
  rewrite app_assoc, filter_app, ufold_app in Hph.
  destruct (ufold c t PIdle (filter (of_test t) (map an tr1 ++ [an x]))) as [p1|]; [|discriminate].
  apply phase_refused_inv.
  apply (refused_start_ends c t _ p1 _ (filter_of_test_events t _) Hph).
  exists (step_input z), (r_hs (step_resp z)). split; [|split; [exact Hst|]].
  - apply filter_In. split.
    + apply in_map_iff. exists z. split; [reflexivity|exact Hz].
    + unfold of_test. cbn [fst an]. rewrite Hzt. apply N.eqb_refl.
  - pose proof (proj2 (no_new_units (Live (init_for c mf dbg)) h
                         (reachable_sig_inv (N.of_nat (length (c_sel c))) mf dbg [])) tr1 x tr2 Htr Hann)
      as Hall.
    rewrite Forall_forall in Hall. exact (proj1 (Hall z Hz)).
Qed.

(* With the dispatcher's repeat of the cancel request (F10 repair) no unit of a product run has
   spent any time in a retry delay after a cancel request had been delivered to it. *)
Theorem product_no_delay_after_cancel tbl S mf dbg ls yf ah :
  cfg_ok (cfg_of_lsystem S) = true ->
  yrun true tbl S (ystate0 S mf dbg) ls = Some (yf, ah) ->
  forall t, In t (ls_sel S) -> y_dc (ys_u yf t) = 0.
Proof.
  intros Hok H t Hin.
  destruct (product_run_is_life_history true tbl S mf dbg ls yf ah Hok H) as (_ & _ & _ & Hu).
  exact (no_delay_after_cancel tbl (ls_cfg S t) (unit_events t ls) _ _ (Hu t Hin) eq_refl).
Qed.

(* ------------------------------------------------------------ the dispatcher-family theorems for
   systems of unit-life machines: [wf_history] replaced by [life_history] *)
Section ForUnitMachines.
  Variable unicast : bool.
  Variable tbl : ptable.
  Variable S : lsystem.
  Variable mf : option N.
  Variable dbg : bool.
  Variable h : list devent.
  Hypothesis Hlife : life_history unicast tbl S mf dbg h.
  Hypothesis Hsig : (shutdown_count h <= 2)%nat.
  Let c := cfg_of_lsystem S.

  Lemma life_exit_is_spec p : run_exit c mf dbg h p = Some (spec_exit c h p).
  Proof. apply run_exit_spec; [exact (life_history_wf unicast tbl S mf dbg h Hlife)|exact Hsig]. Qed.

  Lemma life_exit_zero_iff p :
    run_exit c mf dbg h p = Some 0%Z <->
    (forall r, In r (script_results h) -> is_success r = true) /\
    (forall t, In t (c_sel c) -> exists a, final_of h t = Some a /\ is_success (a_res a) = true) /\
    (c_sel c <> [] \/ p = Some NtPass \/ p = Some NtWarn).
  Proof. apply exit_zero_iff; [exact (life_history_wf unicast tbl S mf dbg h Hlife)|exact Hsig]. Qed.

  Lemma life_once :
    let o := out (Live (init_for c mf dbg)) h in
    forall t,
      (count_if (is_started_of t) o <= 1)%nat /\
      (count_if (is_finished_of t) o <= 1)%nat /\
      (count_if (is_skipped_of t) o <= 1)%nat /\
      (forall pre e post, o = pre ++ e :: post -> is_finished_of t e = true ->
         exists x, In x pre /\ is_started_of t x = true) /\
      (forall e, In e o -> is_skipped_of t e = true -> In t (c_unsel c) /\ ~ In t (c_sel c)) /\
      (forall e, In e o -> event_tid e = Some t -> is_skipped_of t e = false -> In t (c_sel c)).
  Proof. apply once; [exact (life_history_wf unicast tbl S mf dbg h Hlife)|exact Hsig]. Qed.

  Lemma life_attempts :
    let o := out (Live (init_for c mf dbg)) h in
    forall t,
      (exists o', ocheck (c_total c t) t ONone o = Some o') /\
      (forall pre sts s r cs post, o = pre ++ ETestFinished t sts s r cs :: post ->
         numbered_from 1 (st_all sts) = true /\ st_len sts <= c_total c t) /\
      (forall pre e post k, o = pre ++ e :: post -> is_retry_of t (k + 1) e = true ->
         exists x, In x pre /\ is_failed_retry_of t k x = true).
  Proof. apply attempts; [exact (life_history_wf unicast tbl S mf dbg h Hlife)|exact Hsig]. Qed.

  Lemma life_never_panics : exists d, final_state (Live (init_for c mf dbg)) h = Live d.
  Proof. apply never_panics_on_wf; [exact (life_history_wf unicast tbl S mf dbg h Hlife)|exact Hsig]. Qed.
End ForUnitMachines.

(* for the operational product: no hypothesis about the history is left but the configuration's
   test lists and the signal count *)
Lemma product_exit_is_spec unicast tbl S mf dbg ls yf ah p :
  cfg_ok (cfg_of_lsystem S) = true ->
  yrun unicast tbl S (ystate0 S mf dbg) ls = Some (yf, ah) ->
  (shutdown_count (map fst ah) <= 2)%nat ->
  run_exit (cfg_of_lsystem S) mf dbg (map fst ah) p
  = Some (spec_exit (cfg_of_lsystem S) (map fst ah) p).
Proof.
  intros Hok H Hs. apply (life_exit_is_spec unicast tbl); [|exact Hs].
  exact (proj1 (product_run_is_life_history unicast tbl S mf dbg ls yf ah Hok H)).
Qed.

Lemma product_never_panics unicast tbl S mf dbg ls yf ah :
  cfg_ok (cfg_of_lsystem S) = true ->
  yrun unicast tbl S (ystate0 S mf dbg) ls = Some (yf, ah) ->
  (shutdown_count (map fst ah) <= 2)%nat ->
  exists d, ys_d yf = Live d.
Proof.
  intros Hok H Hs.
  destruct (product_run_is_life_history unicast tbl S mf dbg ls yf ah Hok H) as (Hl & _ & Hd & _).
  destruct (life_never_panics unicast tbl S mf dbg _ Hl Hs) as [d E]. exists d. rewrite Hd. exact E.
Qed.

(* ------------------------------------------------------------ the statuses TestFinished carries
   The dispatcher collects the attempts of AttemptFailedWillRetry in running_tests[t] and reports
   them, followed by the attempt of Finished, in TestFinished: for a test whose events form a
   protocol trace these are the attempts of that trace -- for a unit-life machine, its own log. *)
Definition past_inv (s : dst) (t : tid) (p : phase) (A : list attempt) : Prop :=
  match s with
  | Panicked => True
  | Live d =>
      match p with
      | PIdle => A = [] /\ lookup t (d_running d) = None
      | PRunning _ | PDelay _ | PRefusedRetry _ => lookup t (d_running d) = Some A
      | _ => True
      end
  end.

Lemma in_begin_cancel_finished d reason ev d' evs r t sts st rn cs :
  begin_cancel d reason ev = (d', evs, r) -> In (ETestFinished t sts st rn cs) evs -> False.
Proof.
  unfold begin_cancel. intros H Hin. destruct ev as [| |[q|]].
  1,2,3: destruct (cancel_lt (d_cancel d) reason); injection H as <- <- <-; cbn [In] in Hin;
    [destruct Hin as [Hin|Hin]; [discriminate|contradiction]|contradiction].
  injection H as <- <- <-. cbn [In] in Hin. destruct Hin as [Hin|Hin]; [discriminate|contradiction].
Qed.

(* a step that is not Finished t does not report TestFinished t; it changes running_tests[t] only
   as the protocol event of t it handles says *)
Lemma past_step c t d e s' evs rsp p A :
  dstep_live d e = (s', evs, rsp) -> past_inv (Live d) t p A ->
  match event_test e with
  | Some t' =>
      if t' =? t then
        forall p', Model.Unit.ustep c t p e (r_hs rsp) = Some p' ->
          past_inv s' t p' (A ++ trace_attempts [(e, r_hs rsp)]) /\
          (forall sts st rn cs, In (ETestFinished t sts st rn cs) evs ->
             st_all sts = A ++ trace_attempts [(e, r_hs rsp)] /\ p' = PFinished)
      else past_inv s' t p A /\ (forall sts st rn cs, ~ In (ETestFinished t sts st rn cs) evs)
  | None => past_inv s' t p A /\ (forall sts st rn cs, ~ In (ETestFinished t sts st rn cs) evs)
  end.
Proof.
  intros Hd Hinv.
  assert (Hkeep : forall d', d_running d' = d_running d -> past_inv (Live d') t p A).
  { intros d' E. unfold past_inv in *. rewrite E. exact Hinv. }
  assert (Hfc : forall d2 pre cnd reason ev,
            finish_with_cancel d2 pre cnd reason ev = (s', evs, rsp) ->
            exists d3 evs2, s' = Live d3 /\ d_running d3 = d_running d2 /\ evs = pre ++ evs2 /\
                            forall sts st rn cs, ~ In (ETestFinished t sts st rn cs) evs2).
  { intros d2 pre cnd reason ev H. unfold finish_with_cancel in H. destruct cnd.
    - destruct (begin_cancel d2 reason ev) as [[d3 evs2] r] eqn:Eb. injection H as <- <- _.
      exists d3, evs2. split; [reflexivity|]. split.
      + unfold begin_cancel in Eb.
        destruct ev as [| |[q|]]; destruct (cancel_lt (d_cancel d2) reason); injection Eb as <- _ _; reflexivity.
      + split; [reflexivity|]. intros sts st rn cs Hin.
        exact (in_begin_cancel_finished _ _ _ _ _ _ _ _ _ _ _ Eb Hin).
    - injection H as <- <- _. exists d2, []. rewrite app_nil_r. repeat split. intros sts st rn cs []. }
  destruct e as [s0|s0 wt|s0 r0|t0|t0 no tot wt|t0 a|t0 no tot|t0 a|t0|ev| | |k| | |];
    cbn [event_test]; cbn [dstep_live] in Hd.
  - (* ScriptStarted *)
    destruct (is_some (d_cancel d)); [injection Hd as <- <- _; split; [exact Hinv|intros ? ? ? ? []]|].
    destruct (is_some (d_script d) && d_dbg d); injection Hd as <- <- _.
    + split; [exact I|intros ? ? ? ? []].
    + split; [apply Hkeep; reflexivity|]. intros ? ? ? ? [H|[]]; discriminate.
  - injection Hd as <- <- _. split; [exact Hinv|]. intros ? ? ? ? [H|[]]; discriminate.
  - (* ScriptFinished *)
    destruct (negb (is_some (d_script d)) && d_dbg d);
      [injection Hd as <- <- _; split; [exact I|intros ? ? ? ? []]|].
    destruct (Hfc _ _ _ _ _ Hd) as (d3 & evs2 & -> & Er & -> & Hno).
    split; [apply Hkeep; rewrite Er; reflexivity|].
    intros sts st rn cs [H|H]; [discriminate|exact (Hno _ _ _ _ H)].
  - (* Started *)
    destruct (N.eqb_spec t0 t) as [->|Hne].
    + intros p' Hu. cbn [trace_attempts]. rewrite app_nil_r. cbn [Model.Unit.ustep] in Hu.
      destruct (memb t (c_sel c)); [|discriminate].
      destruct (is_some (d_cancel d)).
      * injection Hd as <- <- <-. cbn [r_hs mk_resp] in Hu.
        destruct p; try discriminate. injection Hu as <-. split; [exact I|intros ? ? ? ? []].
      * destruct (lookup t (d_running d)) eqn:El; injection Hd as <- <- <-; cbn [r_hs mk_resp] in Hu.
        -- split; [exact I|intros ? ? ? ? []].
        -- destruct p; try discriminate. injection Hu as <-. cbn [past_inv] in *. destruct Hinv as [-> _].
           split; [cbn [d_running set_running]; apply lookup_cons_eq|].
           intros ? ? ? ? [H|[]]; discriminate.
    + destruct (is_some (d_cancel d)); [injection Hd as <- <- _; split; [exact Hinv|intros ? ? ? ? []]|].
      destruct (lookup t0 (d_running d)); injection Hd as <- <- _.
      * split; [exact I|intros ? ? ? ? []].
      * split; [|intros ? ? ? ? [H|[]]; discriminate].
        unfold past_inv in *. cbn [d_running set_running]. rewrite lookup_cons_neq by auto. exact Hinv.
  - (* Slow *)
    injection Hd as <- <- <-.
    destruct (N.eqb_spec t0 t) as [->|Hne].
    + intros p' Hu. cbn [trace_attempts]. rewrite app_nil_r. cbn [Model.Unit.ustep] in Hu.
      destruct p as [|k0| | | | |]; try discriminate.
      destruct ((no =? k0) && (tot =? c_total c t)); [|discriminate]. injection Hu as <-.
      split; [exact Hinv|]. intros ? ? ? ? [H|[]]; discriminate.
    + split; [exact Hinv|]. intros ? ? ? ? [H|[]]; discriminate.
  - (* AttemptFailedWillRetry *)
    destruct (N.eqb_spec t0 t) as [->|Hne].
    + intros p' Hu. cbn [trace_attempts]. cbn [Model.Unit.ustep] in Hu.
      destruct p as [|k0| | | | |]; try discriminate.
      destruct ((a_no a =? k0) && (a_total a =? c_total c t) && (k0 <? c_total c t)
                && negb (is_success (a_res a))); [|discriminate].
      injection Hu as <-. cbn [past_inv] in Hinv. rewrite Hinv in Hd. injection Hd as <- <- _.
      split; [|intros ? ? ? ? [H|[]]; discriminate].
      cbn [past_inv d_running set_running]. apply (lookup_update_eq t _ _ A). exact Hinv.
    + destruct (lookup t0 (d_running d)) as [past|]; injection Hd as <- <- _.
      * split; [|intros ? ? ? ? [H|[]]; discriminate].
        unfold past_inv in *. cbn [d_running set_running]. rewrite lookup_update_neq by auto. exact Hinv.
      * split; [exact I|intros ? ? ? ? []].
  - (* RetryStarted *)
    assert (Hs' : s' = Live d /\ forall sts st rn cs, ~ In (ETestFinished t sts st rn cs) evs).
    { destruct (is_some (d_cancel d)); injection Hd as <- <- _; (split; [reflexivity|]).
      - intros ? ? ? ? [].
      - intros ? ? ? ? [H|[]]; discriminate. }
    destruct Hs' as [-> Hno].
    destruct (N.eqb_spec t0 t) as [->|Hne]; [|split; [exact Hinv|exact Hno]].
    intros p' Hu. cbn [trace_attempts]. rewrite app_nil_r. cbn [Model.Unit.ustep] in Hu.
    destruct p as [| |k0| | | |]; try discriminate.
    destruct ((no =? k0 + 1) && (tot =? c_total c t)); [|discriminate].
    split; [|intros sts st rn cs H; exfalso; exact (Hno _ _ _ _ H)].
    destruct (r_hs rsp); try discriminate; injection Hu as <-; exact Hinv.
  - (* Finished *)
    destruct (N.eqb_spec t0 t) as [->|Hne].
    + intros p' Hu. cbn [trace_attempts]. cbn [Model.Unit.ustep] in Hu.
      destruct p as [|k0| | | | |]; try discriminate.
      destruct ((a_no a =? k0) && (a_total a =? c_total c t)
                && (is_success (a_res a) || (c_total c t <=? k0))); [|discriminate].
      injection Hu as <-. cbn [past_inv] in Hinv. rewrite Hinv in Hd.
      destruct (Hfc _ _ _ _ _ Hd) as (d3 & evs2 & -> & Er & -> & Hno).
      split; [exact I|].
      intros sts st rn cs [H|H]; [|exfalso; exact (Hno _ _ _ _ H)].
      injection H as <- _ _ _. split; reflexivity.
    + destruct (lookup t0 (d_running d)) as [past|];
        [|injection Hd as <- <- _; split; [exact I|intros ? ? ? ? []]].
      destruct (Hfc _ _ _ _ _ Hd) as (d3 & evs2 & -> & Er & -> & Hno).
      split.
      * unfold past_inv in *. rewrite Er. cbn [d_running set_stats set_running].
        rewrite lookup_remove_neq by auto. exact Hinv.
      * intros sts st rn cs [H|H]; [injection H as E; congruence|exact (Hno _ _ _ _ H)].
  - (* Skipped *)
    injection Hd as <- <- _.
    destruct (N.eqb_spec t0 t) as [->|Hne].
    + intros p' Hu. cbn [trace_attempts]. rewrite app_nil_r. cbn [Model.Unit.ustep] in Hu.
      destruct (memb t (c_unsel c)); [|discriminate]. destruct p; try discriminate. injection Hu as <-.
      split; [exact I|]. intros ? ? ? ? [H|[]]; discriminate.
    + split; [apply Hkeep; reflexivity|]. intros ? ? ? ? [H|[]]; discriminate.
  - (* SigShutdown *)
    destruct (d_sig d) as [[|]|].
    + destruct (begin_cancel (set_sig d (Some STwice)) (event_to_cancel_reason ev)
                             (CeSignal (to_request STwice ev))) as [[d2 evs2] r] eqn:Eb.
      injection Hd as <- <- _. split.
      * apply Hkeep. unfold begin_cancel in Eb. cbn [to_request] in Eb. injection Eb as <- _ _. reflexivity.
      * intros sts st rn cs Hin. exact (in_begin_cancel_finished _ _ _ _ _ _ _ _ _ _ _ Eb Hin).
    + injection Hd as <- <- _. split; [exact I|intros ? ? ? ? []].
    + destruct (begin_cancel (set_sig d (Some SOnce)) (event_to_cancel_reason ev)
                             (CeSignal (to_request SOnce ev))) as [[d2 evs2] r] eqn:Eb.
      injection Hd as <- <- _. split.
      * apply Hkeep. unfold begin_cancel in Eb. cbn [to_request] in Eb.
        destruct (cancel_lt (d_cancel (set_sig d (Some SOnce))) (event_to_cancel_reason ev));
          injection Eb as <- _ _; reflexivity.
      * intros sts st rn cs Hin. exact (in_begin_cancel_finished _ _ _ _ _ _ _ _ _ _ _ Eb Hin).
  - (* SigStop *)
    destruct (d_paused d); injection Hd as <- <- _.
    + split; [exact Hinv|intros ? ? ? ? []].
    + split; [apply Hkeep; reflexivity|]. intros ? ? ? ? [H|[]]; discriminate.
  - (* SigCont *)
    destruct (d_paused d); injection Hd as <- <- _.
    + split; [apply Hkeep; reflexivity|]. intros ? ? ? ? [H|[]]; discriminate.
    + split; [exact Hinv|intros ? ? ? ? []].
  - injection Hd as <- <- _. split; [exact Hinv|intros ? ? ? ? []].
  - injection Hd as <- <- _. split; [exact Hinv|intros ? ? ? ? []].
  - injection Hd as <- <- _. split; [exact Hinv|]. intros ? ? ? ? [H|[]]; discriminate.
  - (* ReportCancel *)
    destruct (begin_cancel d ReportError CeReport) as [[d2 evs2] r] eqn:Eb.
    injection Hd as <- <- _. split.
    + apply Hkeep. unfold begin_cancel in Eb.
      destruct (cancel_lt (d_cancel d) ReportError); injection Eb as <- _ _; reflexivity.
    + intros sts st rn cs Hin. exact (in_begin_cancel_finished _ _ _ _ _ _ _ _ _ _ _ Eb Hin).
Qed.

Lemma finished_statuses c t : forall h s p A pf,
  past_inv s t p A ->
  ufold c t p (filter (of_test t) (annotate s h)) = Some pf ->
  forall sts st rn cs, In (ETestFinished t sts st rn cs) (out s h) ->
    st_all sts = A ++ trace_attempts (filter (of_test t) (annotate s h)) /\ pf = PFinished.
Proof.
  induction h as [|e h IH]; intros s p A pf Hinv Hf sts st rn cs Hin; [destruct Hin|].
  destruct s as [d|]; [|rewrite out_panicked in Hin; destruct Hin].
  rewrite out_cons in Hin. rewrite annotate_cons in Hf |- *. unfold next_state in *. cbn [dstep] in *.
  destruct (dstep_live d e) as [[s' evs] rsp] eqn:Ed. cbn [fst snd] in *.
  pose proof (past_step c t d e s' evs rsp p A Ed Hinv) as Hstep.
  cbn [filter] in Hf |- *. unfold of_test at 1 in Hf. unfold of_test at 1. cbn [fst] in Hf |- *.
  destruct (event_test e) as [t'|] eqn:Ee.
  - destruct (N.eqb_spec t' t) as [->|Hne].
    + cbn [ufold] in Hf. rewrite Ee, N.eqb_refl in Hf.
      destruct (Model.Unit.ustep c t p e (r_hs rsp)) as [p'|] eqn:Eu; [|discriminate].
      destruct (Hstep p' eq_refl) as [Hinv' Hev].
      change ((e, r_hs rsp) :: filter (of_test t) (annotate s' h))
        with ([(e, r_hs rsp)] ++ filter (of_test t) (annotate s' h)).
      rewrite trace_attempts_app, app_assoc.
      apply in_app_or in Hin. destruct Hin as [Hin|Hin].
      * destruct (Hev _ _ _ _ Hin) as [Hst ->].
        assert (Hnil : filter (of_test t) (annotate s' h) = []).
        { destruct (filter (of_test t) (annotate s' h)) as [|[e2 hs2] l] eqn:El; [reflexivity|exfalso].
          pose proof (filter_of_test_events t (annotate s' h)) as Hall. rewrite El in Hall.
          inversion Hall as [|? ? He2 _]; subst. cbn [fst] in He2.
          cbn [ufold] in Hf. rewrite He2, N.eqb_refl, (terminal_rejects c t PFinished e2 hs2 eq_refl He2) in Hf.
          discriminate. }
        rewrite Hnil in Hf |- *. cbn [ufold] in Hf. injection Hf as <-.
        cbn [trace_attempts]. rewrite app_nil_r. split; [exact Hst|reflexivity].
      * exact (IH s' p' _ pf Hinv' Hf sts st rn cs Hin).
    + destruct Hstep as [Hinv' Hno].
      apply in_app_or in Hin. destruct Hin as [Hin|Hin]; [exfalso; exact (Hno _ _ _ _ Hin)|].
      exact (IH s' p A pf Hinv' Hf sts st rn cs Hin).
  - destruct Hstep as [Hinv' Hno].
    apply in_app_or in Hin. destruct Hin as [Hin|Hin]; [exfalso; exact (Hno _ _ _ _ Hin)|].
    exact (IH s' p A pf Hinv' Hf sts st rn cs Hin).
Qed.

(* Theorem: the ExecutionStatuses the dispatcher reports in TestFinished for a unit-life machine
   are that machine's own log of attempts (oldest first), and the machine has sent Finished. *)
Theorem finished_statuses_are_life_log unicast tbl S mf dbg h t es y sts st rn cs :
  let c := cfg_of_lsystem S in
  let ah := annotate (Live (init_for c mf dbg)) h in
  memb t (ls_sel S) = true ->
  lsys_run unicast tbl (ls_cfg S t) (lsys0 (ls_cfg S t)) es = LOk y ->
  filter (of_test t) ah = project_life tbl (ls_fd S t) t (ls_cfg S t) es ->
  In (ETestFinished t sts st rn cs) (out (Live (init_for c mf dbg)) h) ->
  st_all sts = log_attempts (ls_fd S t) (ls_cfg S t) (y_log y) /\
  st_all sts = map (attempt_of (ls_fd S t) (ls_cfg S t)) (rev (l_done (y_s y))) /\
  l_ph (y_s y) = LFinishedP.
Proof.
  cbv zeta. intros Hsel Hrun Hproj Hin.
  pose proof (life_refines_protocol_phase unicast tbl (ls_fd S t) t (ls_cfg S t) (cfg_of_lsystem S) es y
                Hsel eq_refl Hrun) as Hph.
  rewrite <- Hproj in Hph.
  destruct (finished_statuses (cfg_of_lsystem S) t h (Live (init_for (cfg_of_lsystem S) mf dbg)) PIdle [] _
              (conj eq_refl eq_refl) Hph sts st rn cs Hin) as [Hst Hpf].
  cbn [app] in Hst. rewrite Hproj in Hst.
  destruct (projection_reports_life_log unicast tbl (ls_fd S t) t (ls_cfg S t) es y Hrun) as [H1 H2].
  split; [rewrite Hst; exact H1|]. split; [rewrite Hst, H1; exact H2|].
  unfold phase_of_lstate in Hpf. destruct (l_ph (y_s y)); try discriminate; try reflexivity.
  destruct (l_k (y_s y) =? 0); discriminate.
Qed.
