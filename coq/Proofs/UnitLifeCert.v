(* The life-level certificate for the pause table regenerated from the Rust source: the abstract
   states reachable from a fresh attempt under every state of the dispatcher's tracker, closed
   under every event, with no internal failure -- evaluated by vm_compute over the whole finite
   space (as Proofs/PauseCert.v does for the first attempt with its postconditions). *)
From NextestModel Require Import Base.Str Model.Clocks Model.UnitTimers Model.AbsTimers Model.UnitLife
  gen.GenPauseTable.
From Coq Require Import MSets.MSetPositive.

Definition life_reach_set : PositiveSet.t := Eval vm_compute in life_reach pause_table.

Lemma life_cert : life_cert_with pause_table life_reach_set = true.
Proof. vm_compute. reflexivity. Qed.

Definition life_reach_size : nat := Eval vm_compute in PositiveSet.cardinal life_reach_set.
