(* The life-level certificate for the pause table regenerated from the Rust source: the abstract
   states reachable from a fresh attempt under every state of the dispatcher's tracker, closed
   under every event, with no internal failure -- evaluated by vm_compute over the whole finite
   space (as Proofs/PauseCert.v does for the first attempt with its postconditions). *)
From NextestModel Require Import Base.Str Model.Backoff Model.Clocks Model.UnitTimers Model.AbsTimers
  Model.UnitLife Proofs.Timers Proofs.DelayProps Proofs.PauseCert Proofs.UnitLife gen.GenPauseTable.
From Coq Require Import MSets.MSetPositive.

Definition life_reach_set : PositiveSet.t := Eval vm_compute in life_reach pause_table.

Lemma life_cert : life_cert_with pause_table life_reach_set = true.
Proof. vm_compute. reflexivity. Qed.

Definition life_reach_size : nat := Eval vm_compute in PositiveSet.cardinal life_reach_set.

(* ---- the life-level results instantiated for the regenerated table *)
Open Scope N_scope.

Lemma cert_sound_generic :
  forall tbl RS, life_cert_with tbl RS = true -> dcert tbl = true ->
  forall unicast c es, lsys_run unicast tbl c (lsys0 c) es <> LPanic.
Proof.
  intros tbl RS Hc Hd unicast c es.
  apply (life_no_panic tbl RS Hc Hd unicast c es (lsys0 c)). apply linv_init.
Qed.

Lemma pt_no_panic :
  forall unicast c es, lsys_run unicast pause_table c (lsys0 c) es <> LPanic.
Proof. exact (cert_sound_generic pause_table life_reach_set life_cert delay_cert). Qed.

Lemma pt_delay_not_sooner :
  forall unicast c es y, lsys_run unicast pause_table c (lsys0 c) es = LOk y ->
  forall k dl un run, In (RDelay k dl un run false) (y_log y) ->
    dl <= run /\ (y_bad y = false -> dl <= un).
Proof.
  intros unicast c es y H k dl un run Hin.
  destruct (minv_run pause_table life_reach_set life_cert delay_cert unicast c es (lsys0 c) y
                     (minv_init life_reach_set c) H) as (_ & _ & Hla & Hg).
  split; [eapply Hla; exact Hin|]. intros Hb. destruct (Hg Hb) as [_ [_ Hg2]]. eapply Hg2; exact Hin.
Qed.

Lemma pt_time_excluded :
  forall unicast c es y, lsys_run unicast pause_table c (lsys0 c) es = LOk y -> y_bad y = false ->
  forall k res sl tt un, In (RAttempt k res sl tt un) (y_log y) -> tt <= un.
Proof.
  intros unicast c es y H Hb k res sl tt un Hin.
  destruct (minv_run pause_table life_reach_set life_cert delay_cert unicast c es (lsys0 c) y
                     (minv_init life_reach_set c) H) as (_ & _ & _ & Hg).
  destruct (Hg Hb) as [_ [Hg1 _]]. eapply Hg1; exact Hin.
Qed.

Lemma pt_no_delay_after_cancel :
  forall c es y, lsys_run true pause_table c (lsys0 c) es = LOk y -> y_dc y = 0.
Proof. intros c es y H. exact (no_delay_after_cancel pause_table c es (lsys0 c) y H eq_refl). Qed.

Lemma pt_cancel_ends_delay :
  forall c s d r, l_ph s = LDelay d -> d_done d = false -> is_cancel_req r = true ->
  lstep pause_table c s (LU (Req r)) = Ok (with_lph s LAwaitRetry, [LRetryStarted (l_k s + 1)]) /\
  (forall unicast t, lt_cancel t = true -> lenv_ok unicast (with_lph s LAwaitRetry) t (LAnswer true) = false) /\
  lstep pause_table c (with_lph s LAwaitRetry) (LAnswer false)
  = Ok (with_lph (with_lph s LAwaitRetry) LRefusedP, []).
Proof.
  intros c s d r Hp Hdn Hc. split; [exact (cancel_ends_delay pause_table c s d r Hp Hdn Hc)|].
  split; [intros unicast t Ht; cbn; rewrite Ht; reflexivity|reflexivity].
Qed.

Lemma pt_ends_after_cancel :
  forall unicast c es1 y1,
  lsys_run unicast pause_table c (lsys0 c) es1 = LOk y1 -> lt_cancel (y_t y1) = true ->
  exists es2 y2, lsys_run unicast pause_table c y1 es2 = LOk y2 /\ terminal (y_s y2) = true /\
                 l_k (y_s y2) = l_k (y_s y1).
Proof.
  intros unicast c es1 y1 H Hc.
  apply (unit_can_end pause_table life_reach_set life_cert delay_cert unicast c y1).
  - exact (life_linv_run pause_table life_reach_set life_cert delay_cert unicast c es1 (lsys0 c) y1
                         (linv_init life_reach_set c) H).
  - exact (winv_run unicast pause_table c es1 (lsys0 c) y1 (winv_init c) H).
  - intros Hp.
    pose proof (started_if_delivered unicast pause_table c es1 (lsys0 c) y1 H (fun _ => eq_refl) Hp) as Ht.
    rewrite Ht in Hc. discriminate.
Qed.

Lemma pt_delay_is_configured :
  forall unicast c es y, lsys_run unicast pause_table c (lsys0 c) es = LOk y ->
  forall k dl un run cut, In (RDelay k dl un run cut) (y_log y) ->
    dl = delay_formula c k /\ 1 <= k <= p_count (lc_policy c) /\
    (p_jitter (lc_policy c) = false -> dl = delay_spec (lc_policy c) (N.to_nat (k - 1))).
Proof.
  intros unicast c es y H k dl un run cut Hin.
  destruct (delay_is_configured unicast pause_table c es y H k dl un run cut Hin) as [Hd Hk].
  split; [exact Hd|]. split; [exact Hk|]. intros Hj. rewrite Hd. unfold delay_formula. rewrite Hj.
  cbn [Proofs.Backoff.jit]. apply Proofs.Backoff.delays_nth. lia.
Qed.
