(* Safety of the filterset parser model (C20): every parser returns a suffix-sized rest, every
   reported span lies inside the input, a missing result always comes with an error, and the
   fuel [parse] supplies is never exhausted. *)
From NextestModel Require Import Base.Str Model.FiltersetAst Model.FiltersetParse.
From NextestModel Require Import Base.Tac.
Open Scope N_scope.

(* ---------------------------------------------------------------- measures *)

Definition sub (rest s : str) : Prop := (length rest <= length s)%nat /\ blen rest <= blen s.

Lemma utf8_len_pos c : 1 <= utf8_len c.
Proof. unfold utf8_len. repeat match goal with |- context [if ?b then _ else _] => destruct b end; lia. Qed.

Lemma blen_app a b : blen (a ++ b) = blen a + blen b.
Proof. induction a as [|c a IH]; cbn [blen app]; [reflexivity|]. rewrite IH. lia. Qed.

Lemma sub_refl s : sub s s.
Proof. split; lia. Qed.
Lemma sub_trans a b c : sub a b -> sub b c -> sub a c.
Proof. unfold sub. intros [? ?] [? ?]. split; lia. Qed.
Lemma sub_cons a c s : sub a s -> sub a (c :: s).
Proof. unfold sub. cbn [length blen]. intros [? ?]. pose proof (utf8_len_pos c). split; lia. Qed.
Lemma sub_tail c s : sub s (c :: s).
Proof. apply sub_cons, sub_refl. Qed.
Lemma sub_nil s : sub [] s.
Proof. unfold sub. cbn [length blen]. split; lia. Qed.
#[local] Hint Resolve sub_refl sub_cons sub_tail sub_nil : fs.

(* ---------------------------------------------------------------- well-formed error lists *)

(* [sane] is the one assumption about the regex oracle (the error span it reports lies inside
   the pattern); it is only needed for the span of EInvalidRegex *)
Definition wf_err (bound : N) (e : perr) : Prop :=
  pe_len e <= pe_from_end e /\ pe_from_end e <= bound.
Definition no_oof (e : perr) : Prop := pe_kind e <> EOutOfFuel.
Definition err_ok (sane : Prop) (bound : N) (e : perr) : Prop :=
  (sane -> wf_err bound e) /\ no_oof e.
Definition errs_ok (sane : Prop) (bound : N) (es : list perr) : Prop :=
  Forall (err_ok sane bound) es.

Lemma errs_ok_nil sane b : errs_ok sane b [].
Proof. constructor. Qed.
Lemma errs_ok_app sane b x y : errs_ok sane b x -> errs_ok sane b y -> errs_ok sane b (x ++ y).
Proof. unfold errs_ok. intros. apply Forall_app. split; assumption. Qed.
Lemma errs_ok_mono sane b b' es : b <= b' -> errs_ok sane b es -> errs_ok sane b' es.
Proof.
  intros Hb H. unfold errs_ok in *. eapply Forall_impl; [|exact H].
  intros e [Hw Hn]. split; [|exact Hn]. intros Hs. destruct (Hw Hs). unfold wf_err. split; lia.
Qed.
Lemma errs_ok_sub sane a s es : sub a s -> errs_ok sane (blen a) es -> errs_ok sane (blen s) es.
Proof. intros [_ H]. apply errs_ok_mono. exact H. Qed.
Lemma errs_ok_one sane b k fe len :
  k <> EOutOfFuel -> len <= fe -> fe <= b -> errs_ok sane b [mkperr k fe len].
Proof.
  intros Hk H1 H2. constructor; [|constructor]. split; [|exact Hk].
  intros _. unfold wf_err. cbn. split; assumption.
Qed.
Lemma err_at_ok sane s k at_ len :
  k <> EOutOfFuel -> sub at_ s -> len <= blen at_ -> errs_ok sane (blen s) [err_at k at_ len].
Proof. intros Hk [_ Hs] Hl. apply errs_ok_one; [exact Hk|exact Hl|exact Hs]. Qed.

(* a parser result is good for input [s] *)
Definition good {A} (sane : Prop) (s : str) (res : option A * str * list perr) : Prop :=
  let '(r, rest, es) := res in
  sub rest s /\ errs_ok sane (blen s) es /\ (r = None -> es <> []).

Lemma app_nonnil_l {A} (x y : list A) : x <> [] -> x ++ y <> [].
Proof. destruct x; [congruence|discriminate]. Qed.
Lemma app_nonnil_r {A} (x y : list A) : y <> [] -> x ++ y <> [].
Proof. destruct x, y; try congruence; discriminate. Qed.

(* ---------------------------------------------------------------- lexical helpers *)

Lemma str_len_ind (P : str -> Prop) :
  (forall s, (forall t, (length t < length s)%nat -> P t) -> P s) -> forall s, P s.
Proof.
  intros H s. assert (Hn : forall n t, (length t < n)%nat -> P t).
  { induction n as [|n IH]; intros t Ht; [lia|]. apply H. intros u Hu. apply IH. lia. }
  apply (Hn (S (length s))). lia.
Qed.

Lemma ws_skip_sub s : sub (ws_skip s) s.
Proof.
  induction s as [s IH] using str_len_ind.
  destruct s as [|c r]; cbn [ws_skip]; [apply sub_refl|].
  destruct (c =? 32); [apply sub_cons, IH; cbn; lia|].
  destruct (c =? 10); [apply sub_cons, IH; cbn; lia|].
  destruct (c =? 13); [|apply sub_refl].
  destruct r as [|d r']; [apply sub_refl|].
  destruct (d =? 10); [|apply sub_refl].
  apply sub_cons, sub_cons, IH. cbn. lia.
Qed.

Lemma strip_prefix_app p s r : strip_prefix p s = Some r -> s = p ++ r.
Proof.
  revert s. induction p as [|x p IH]; intros s H; cbn [strip_prefix] in H.
  - injection H as <-. reflexivity.
  - destruct s as [|y s']; [discriminate|].
    destruct (N.eqb_spec x y) as [->|]; [|discriminate].
    cbn [app]. f_equal. apply IH. exact H.
Qed.

Lemma strip_prefix_sub p s r : strip_prefix p s = Some r -> sub r s.
Proof.
  intros H. apply strip_prefix_app in H. subst s. unfold sub.
  rewrite app_length, blen_app. split; lia.
Qed.

Lemma strip_prefix_lt p s r :
  strip_prefix p s = Some r -> p <> [] -> (length r < length s)%nat.
Proof.
  intros H Hp. apply strip_prefix_app in H. subst s. rewrite app_length.
  destruct p; [congruence|]. cbn [length]. lia.
Qed.

Lemma expect_char_ok sane c k s r es :
  expect_char c k s = (r, es) -> k <> EOutOfFuel -> sub r s /\ errs_ok sane (blen s) es.
Proof.
  intros H Hk. unfold expect_char in H. pose proof (ws_skip_sub s) as Hw.
  destruct (ws_skip s) as [|d r'] eqn:E.
  - injection H as <- <-. split; [apply sub_refl|]. apply err_at_ok; [exact Hk|apply sub_refl|lia].
  - destruct (d =? c); injection H as <- <-.
    + split; [|apply errs_ok_nil]. eapply sub_trans; [apply sub_tail|exact Hw].
    + split; [apply sub_refl|]. apply err_at_ok; [exact Hk|apply sub_refl|lia].
Qed.

Lemma till_rparen_sub s : sub (snd (till_rparen s)) s.
Proof.
  induction s as [|c r IH]; cbn [till_rparen]; [apply sub_refl|].
  destruct (c =? 41); [apply sub_refl|].
  destruct (till_rparen r) as [a rest]. cbn [snd] in *. apply sub_cons. exact IH.
Qed.

(* ---------------------------------------------------------------- strings *)

Lemma pstr_good sane s : forall skip a rest es,
  pstr skip s = (a, rest, es) ->
  sub rest s /\ errs_ok sane (blen s) es /\ (a = None -> es <> []).
Proof.
  induction s as [|c r IH]; intros skip a rest es H; cbn [pstr] in H.
  - injection H as <- <- <-. split; [apply sub_refl|]. split; [apply errs_ok_nil|discriminate].
  - destruct skip as [|k].
    + destruct ((c =? 44) || (c =? 41)).
      { injection H as <- <- <-. split; [apply sub_refl|]. split; [apply errs_ok_nil|discriminate]. }
      destruct (N.eqb_spec c 92) as [->|Hc].
      * destruct (esc_decode r) as [[ch k]|].
        -- destruct (pstr k r) as [[a' rest'] es'] eqn:E. injection H as <- <- <-.
           destruct (IH _ _ _ _ E) as [H1 [H2 H3]].
           split; [apply sub_cons; exact H1|]. split.
           ++ eapply errs_ok_sub; [apply sub_tail|exact H2].
           ++ intros Hn. apply H3. destruct a'; [discriminate|reflexivity].
        -- destruct (pstr 0 r) as [[a' rest'] es'] eqn:E. injection H as <- <- <-.
           destruct (IH _ _ _ _ E) as [H1 [H2 H3]].
           split; [apply sub_cons; exact H1|]. split; [|discriminate].
           change (mkperr EInvalidEscape (blen r + 1) (N.min (blen r) 2) :: es')
             with ([mkperr EInvalidEscape (blen r + 1) (N.min (blen r) 2)] ++ es').
           apply errs_ok_app.
           ++ apply errs_ok_one; [discriminate|lia|]. cbn [blen]. change (utf8_len 92) with 1. lia.
           ++ eapply errs_ok_sub; [apply sub_tail|exact H2].
      * destruct (pstr 0 r) as [[a' rest'] es'] eqn:E. injection H as <- <- <-.
        destruct (IH _ _ _ _ E) as [H1 [H2 H3]].
        split; [apply sub_cons; exact H1|]. split.
        -- eapply errs_ok_sub; [apply sub_tail|exact H2].
        -- intros Hn. apply H3. destruct a'; [discriminate|reflexivity].
    + destruct (IH _ _ _ _ H) as [H1 [H2 H3]].
      split; [apply sub_cons; exact H1|]. split; [|exact H3].
      eapply errs_ok_sub; [apply sub_tail|exact H2].
Qed.

Lemma pmt_good sane s : good sane s (pmt s).
Proof.
  unfold pmt, good. destruct (pstr 0 s) as [[a rest] es] eqn:E.
  destruct (pstr_good sane _ _ _ _ _ E) as [H1 [H2 H3]].
  split; [exact H1|]. split.
  - apply errs_ok_app; [exact H2|]. destruct a as [[|]|]; try apply errs_ok_nil.
    apply err_at_ok; [discriminate|exact H1|lia].
  - intros Hn. apply app_nonnil_l, H3, Hn.
Qed.

Lemma good_map {A B} sane s (f : A -> B) r rest es :
  good sane s (r, rest, es) -> good sane s (option_map f r, rest, es).
Proof.
  unfold good. intros [H1 [H2 H3]]. split; [exact H1|]. split; [exact H2|].
  intros Hn. apply H3. destruct r; [discriminate|reflexivity].
Qed.

Lemma map_text_good sane s f r : good sane s r -> good sane s (map_text f r).
Proof. destruct r as [[a rest] es]. unfold map_text. apply good_map. Qed.

(* a result for a suffix of [s] is a result for [s] *)
Lemma good_sub {A} sane a s (res : option A * str * list perr) :
  sub a s -> good sane a res -> good sane s res.
Proof.
  destruct res as [[r rest] es]. unfold good. intros Hs [H1 [H2 H3]].
  split; [eapply sub_trans; eassumption|]. split; [|exact H3].
  eapply errs_ok_sub; eassumption.
Qed.

(* prepend errors that are fine for [s] *)
Lemma good_prepend {A} sane s e1 (r : option A) rest es :
  errs_ok sane (blen s) e1 -> good sane s (r, rest, es) -> good sane s (r, rest, e1 ++ es).
Proof.
  unfold good. intros He [H1 [H2 H3]]. split; [exact H1|]. split.
  - apply errs_ok_app; assumption.
  - intros Hn. apply app_nonnil_r, H3, Hn.
Qed.

Section Oracle.
Variable SO : syntax_oracle.

(* the regex oracle reports an error span inside the pattern it was given *)
Definition rx_sane : Prop :=
  forall p off len, regex_check SO p = RxErr off len -> off + len <= blen p.

Lemma parse_glob_good imp s : good rx_sane s (parse_glob SO imp s).
Proof.
  unfold parse_glob. pose proof (pmt_good rx_sane s) as H.
  destruct (pmt s) as [[res rest] es].
  destruct res as [g|];
    [|unfold good in *; destruct H as [H1 [H2 H3]]; split; [exact H1|]; split; [exact H2|];
      intros _; apply H3; reflexivity].
  destruct (glob_ok SO g).
  - unfold good in *. destruct H as [H1 [H2 H3]]. split; [exact H1|]. split; [exact H2|discriminate].
  - unfold good in *. destruct H as [H1 [H2 H3]]. split; [exact H1|]. split.
    + apply errs_ok_app; [exact H2|]. apply errs_ok_one; [discriminate|lia|lia].
    + intros _. apply app_nonnil_r. discriminate.
Qed.

Lemma prx_sub s : forall p rest,
  prx s = Some (p, rest) -> sub rest s /\ blen p + blen rest <= blen s.
Proof.
  induction s as [s IH] using str_len_ind.
  intros p rest H. destruct s as [|c r]; cbn [prx] in H; [discriminate|].
  destruct (c =? 47).
  { injection H as <- <-. split; [apply sub_refl|]. cbn [blen]. lia. }
  destruct (c =? 92).
  - destruct r as [|d r']; [discriminate|]. destruct (d =? 47).
    + destruct (prx r') as [[p' rest']|] eqn:E; [|discriminate]. injection H as <- <-.
      destruct (IH r' ltac:(cbn; lia) _ _ E) as [H1 H2].
      split; [apply sub_cons, sub_cons; exact H1|].
      cbn [blen]. pose proof (utf8_len_pos c). pose proof (utf8_len_pos d).
      change (utf8_len 47) with 1. lia.
    + destruct (prx (d :: r')) as [[p' rest']|] eqn:E; [|discriminate]. injection H as <- <-.
      destruct (IH (d :: r') ltac:(cbn; lia) _ _ E) as [H1 H2].
      split; [apply sub_cons; exact H1|].
      cbn [blen] in *. pose proof (utf8_len_pos c). change (utf8_len 92) with 1. lia.
  - destruct (prx r) as [[p' rest']|] eqn:E; [|discriminate]. injection H as <- <-.
    destruct (IH r ltac:(cbn; lia) _ _ E) as [H1 H2].
    split; [apply sub_cons; exact H1|]. cbn [blen]. lia.
Qed.

Lemma regex_matcher_good s : good rx_sane s (regex_matcher SO s).
Proof.
  unfold regex_matcher.
  assert (Hclose : forall rest, sub rest s ->
            sub (match ws_skip rest with
                 | c :: r => if c =? 47 then r else rest
                 | [] => rest end) s).
  { intros rest Hr. pose proof (ws_skip_sub rest) as Hw.
    destruct (ws_skip rest) as [|c r]; [exact Hr|]. destruct (c =? 47); [|exact Hr].
    eapply sub_trans; [|exact Hr]. eapply sub_trans; [apply sub_tail|exact Hw]. }
  destruct (prx s) as [[p rest]|] eqn:E.
  - destruct (prx_sub _ _ _ E) as [H1 H2].
    destruct (regex_check SO p) eqn:Er; unfold good.
    + split; [apply Hclose, H1|]. split; [apply errs_ok_nil|discriminate].
    + split; [apply Hclose, H1|]. split; [|discriminate].
      constructor; [|constructor]. split; [|discriminate].
      intros Hs. specialize (Hs _ _ _ Er). unfold wf_err. cbn. split; lia.
    + split; [apply Hclose, H1|]. split; [|discriminate].
      apply errs_ok_one; [discriminate|lia|lia].
  - unfold good. pose proof (till_rparen_sub s) as Ht.
    split; [apply Hclose, Ht|]. split; [|discriminate].
    apply err_at_ok; [discriminate|exact Ht|lia].
Qed.

Lemma set_matcher_good dm s : good rx_sane s (set_matcher SO dm s).
Proof.
  unfold set_matcher. pose proof (ws_skip_sub s) as Hw.
  set (s1 := ws_skip s) in *.
  assert (Hd : good rx_sane s
                 match dm with
                 | DmEqual => map_text (fun v => MEqual v true) (pmt s1)
                 | DmContains => map_text (fun v => MContains v true) (pmt s1)
                 | DmGlob => parse_glob SO true s1
                 end).
  { eapply good_sub; [exact Hw|]. destruct dm.
    - apply map_text_good, pmt_good.
    - apply map_text_good, pmt_good.
    - apply parse_glob_good. }
  destruct s1 as [|c r]; [exact Hd|].
  assert (Hr : sub r s) by (eapply sub_trans; [apply sub_tail|exact Hw]).
  destruct (c =? 47); [eapply good_sub; [exact Hr|apply regex_matcher_good]|].
  destruct (c =? 35); [eapply good_sub; [exact Hr|apply parse_glob_good]|].
  destruct (c =? 61); [eapply good_sub; [exact Hr|apply map_text_good, pmt_good]|].
  destruct (c =? 126); [eapply good_sub; [exact Hr|apply map_text_good, pmt_good]|].
  exact Hd.
Qed.

Lemma recover_comma_ok s r es :
  recover_comma s = (r, es) -> sub r s /\ errs_ok rx_sane (blen s) es.
Proof.
  unfold recover_comma. intros H.
  assert (Hid : (s, @nil perr) = (r, es) -> sub r s /\ errs_ok rx_sane (blen s) es).
  { intros E. injection E as <- <-. split; [apply sub_refl|apply errs_ok_nil]. }
  destruct (ws_skip s) as [|c r']; [exact (Hid H)|].
  destruct (c =? 44); [|exact (Hid H)].
  injection H as <- <-. split; [apply till_rparen_sub|].
  apply err_at_ok; [discriminate|apply sub_refl|lia].
Qed.

(* sequencing: s -> s1 -> s2 -> s3 -> s4 *)
Lemma unary_set_good dm mk s : good rx_sane s (unary_set SO dm mk s).
Proof.
  unfold unary_set.
  destruct (expect_char 40 EExpectedOpenParen s) as [s1 e1] eqn:E1.
  destruct (expect_char_ok rx_sane _ _ _ _ _ E1 ltac:(discriminate)) as [S1 K1].
  pose proof (set_matcher_good dm s1) as Hm.
  destruct (set_matcher SO dm s1) as [[m s2] e2]. destruct Hm as [S2 [K2 N2]].
  destruct (recover_comma s2) as [s3 e3] eqn:E3.
  destruct (recover_comma_ok _ _ _ E3) as [S3 K3].
  destruct (expect_char 41 EExpectedCloseParen s3) as [s4 e4] eqn:E4.
  destruct (expect_char_ok rx_sane _ _ _ _ _ E4 ltac:(discriminate)) as [S4 K4].
  assert (S2' : sub s2 s) by (eapply sub_trans; eassumption).
  assert (S3' : sub s3 s) by (eapply sub_trans; eassumption).
  unfold good. split; [eapply sub_trans; eassumption|]. split.
  - apply errs_ok_app; [exact K1|]. apply errs_ok_app; [exact (errs_ok_sub _ _ _ _ S1 K2)|].
    apply errs_ok_app; [exact (errs_ok_sub _ _ _ _ S2' K3)|exact (errs_ok_sub _ _ _ _ S3' K4)].
  - intros Hn. apply app_nonnil_r, app_nonnil_l, N2. destruct m; [discriminate|reflexivity].
Qed.

Lemma platform_set_good s : good rx_sane s (platform_set s).
Proof.
  unfold platform_set.
  destruct (expect_char 40 EExpectedOpenParen s) as [s1 e1] eqn:E1.
  destruct (expect_char_ok rx_sane _ _ _ _ _ E1 ltac:(discriminate)) as [S1 K1].
  pose proof (pmt_good rx_sane (ws_skip s1)) as Hm.
  destruct (pmt (ws_skip s1)) as [[res s2] e2]. destruct Hm as [S2 [K2 N2]].
  assert (S2a : sub s2 s1) by (eapply sub_trans; [exact S2|apply ws_skip_sub]).
  assert (K2a : errs_ok rx_sane (blen s1) e2) by (eapply errs_ok_sub; [apply ws_skip_sub|exact K2]).
  destruct (recover_comma s2) as [s3 e3] eqn:E3.
  destruct (recover_comma_ok _ _ _ E3) as [S3 K3].
  destruct (expect_char 41 EExpectedCloseParen s3) as [s4 e4] eqn:E4.
  destruct (expect_char_ok rx_sane _ _ _ _ _ E4 ltac:(discriminate)) as [S4 K4].
  assert (S2' : sub s2 s) by (eapply sub_trans; eassumption).
  assert (S3' : sub s3 s) by (eapply sub_trans; eassumption).
  assert (S4' : sub s4 s) by (eapply sub_trans; eassumption).
  assert (K : errs_ok rx_sane (blen s) (e1 ++ e2 ++ e3 ++ e4)).
  { apply errs_ok_app; [exact K1|]. apply errs_ok_app; [exact (errs_ok_sub _ _ _ _ S1 K2a)|].
    apply errs_ok_app; [exact (errs_ok_sub _ _ _ _ S2' K3)|exact (errs_ok_sub _ _ _ _ S3' K4)]. }
  destruct res as [t|].
  - destruct (str_eqb (trim t) s_host); [unfold good; split; [exact S4'|split; [exact K|discriminate]]|].
    destruct (str_eqb (trim t) s_target); [unfold good; split; [exact S4'|split; [exact K|discriminate]]|].
    unfold good. split; [exact S4'|]. split.
    + replace (e1 ++ e2 ++ e3 ++ e4 ++ [mkperr EInvalidPlatform (blen s1) (blen s1 - blen s2)])
        with ((e1 ++ e2 ++ e3 ++ e4) ++ [mkperr EInvalidPlatform (blen s1) (blen s1 - blen s2)])
        by (rewrite <- !app_assoc; reflexivity).
      apply errs_ok_app; [exact K|]. destruct S1 as [_ S1]. apply errs_ok_one; [discriminate|lia|lia].
    + intros _. apply app_nonnil_r, app_nonnil_r, app_nonnil_r, app_nonnil_r. discriminate.
  - unfold good. split; [exact S4'|]. split; [exact K|].
    intros _. apply app_nonnil_r, app_nonnil_l, N2. reflexivity.
Qed.

Lemma nullary_set_good d s : good rx_sane s (nullary_set d s).
Proof.
  unfold nullary_set.
  destruct (expect_char 40 EExpectedOpenParen s) as [s1 e1] eqn:E1.
  destruct (expect_char_ok rx_sane _ _ _ _ _ E1 ltac:(discriminate)) as [S1 K1].
  pose proof (till_rparen_sub s1) as S2. destruct (till_rparen s1) as [arg s2]. cbn [snd] in S2.
  destruct (expect_char 41 EExpectedCloseParen s2) as [s3 e3] eqn:E3.
  destruct (expect_char_ok rx_sane _ _ _ _ _ E3 ltac:(discriminate)) as [S3 K3].
  assert (S2' : sub s2 s) by (eapply sub_trans; eassumption).
  unfold good. split; [eapply sub_trans; eassumption|]. split; [|discriminate].
  apply errs_ok_app; [exact K1|]. apply errs_ok_app; [|exact (errs_ok_sub _ _ _ _ S2' K3)].
  destruct (forallb is_uws arg); [apply errs_ok_nil|].
  destruct S1 as [_ S1]. apply errs_ok_one; [discriminate|lia|lia].
Qed.

Lemma first_named_good (tbl : list (str * (str -> option setdef * str * list perr))) s :
  Forall (fun nf => fst nf <> [] /\ forall x, good rx_sane x (snd nf x)) tbl ->
  match first_named tbl s with
  | Some res => good rx_sane s res /\ (length (snd (fst res)) < length s)%nat
  | None => True
  end.
Proof.
  induction tbl as [|[name f] t IH]; intros H; cbn [first_named]; [exact I|].
  inversion H as [|? ? [Hn Hf] Ht]; subst. cbn [fst snd] in *.
  destruct (strip_prefix name s) as [rest|] eqn:E; [|apply IH, Ht].
  pose proof (strip_prefix_sub _ _ _ E) as Hs. pose proof (strip_prefix_lt _ _ _ E Hn) as Hl.
  specialize (Hf rest). split; [eapply good_sub; eassumption|].
  destruct (f rest) as [[r rest'] es]. cbn [fst snd]. destruct Hf as [[Hlen _] _]. lia.
Qed.

Lemma parse_set_def_good s :
  match parse_set_def SO s with
  | Some res => good rx_sane s res /\ (length (snd (fst res)) < length s)%nat
  | None => True
  end.
Proof.
  unfold parse_set_def. pose proof (ws_skip_sub s) as Hw.
  pose proof (first_named_good (set_def_table SO) (ws_skip s)) as H.
  destruct (first_named (set_def_table SO) (ws_skip s)) as [res|]; [|exact I].
  assert (Ht : Forall (fun nf => fst nf <> [] /\ forall x, good rx_sane x (snd nf x)) (set_def_table SO)).
  { unfold set_def_table. repeat constructor; cbn [fst snd]; try discriminate; intros x;
      try apply unary_set_good; try apply platform_set_good; try apply nullary_set_good. }
  destruct (H Ht) as [Hg Hl]. split; [eapply good_sub; eassumption|]. destruct Hw. lia.
Qed.

(* ---------------------------------------------------------------- operators *)

Lemma parse_not_op_lt s op r : parse_not_op s = Some (op, r) -> sub r s /\ (length r < length s)%nat.
Proof.
  unfold parse_not_op. destruct (strip_prefix s_not_sp s) as [r'|] eqn:E.
  - intros H. injection H as <- <-. split; [eapply strip_prefix_sub; exact E|].
    eapply strip_prefix_lt; [exact E|discriminate].
  - destruct s as [|c r']; [discriminate|]. destruct (c =? 33); [|discriminate].
    intros H. injection H as <- <-. split; [apply sub_tail|]. cbn. lia.
Qed.

Definition op_good {A} (s : str) (res : option A * str * list perr) : Prop :=
  let '(op, s1, e1) := res in
  sub s1 s /\ (length s1 < length s)%nat /\ errs_ok rx_sane (blen s) e1 /\ (op = None -> e1 <> []).

Lemma banned_ok s s1 p r k n :
  sub s1 s -> p <> [] -> strip_prefix p s1 = Some r -> blen p = n -> k <> EOutOfFuel ->
  op_good s (@None or_op, r, [err_at k s1 n]) /\ op_good s (@None and_or_diff, r, [err_at k s1 n]).
Proof.
  intros Hs Hp E Hn Hk.
  pose proof (strip_prefix_sub _ _ _ E) as H1. pose proof (strip_prefix_lt _ _ _ E Hp) as H2.
  pose proof (strip_prefix_app _ _ _ E) as H3.
  assert (Hl : n <= blen s1) by (subst s1 n; rewrite blen_app; lia).
  destruct Hs as [Hs1 Hs2].
  split; unfold op_good; (split; [destruct H1; split; lia|]); (split; [lia|]);
    (split; [apply err_at_ok; [exact Hk|split; lia|exact Hl]|discriminate]).
Qed.

Lemma parse_or_op_good s :
  match parse_or_op s with Some res => op_good s res | None => True end.
Proof.
  unfold parse_or_op. pose proof (ws_skip_sub s) as Hw. set (s1 := ws_skip s) in *.
  destruct (strip_prefix s_pipepipe s1) as [r|] eqn:E1.
  { eapply (banned_ok s s1 s_pipepipe r EInvalidOrOperator 2); try eassumption; try discriminate; reflexivity. }
  destruct (strip_prefix s_OR_sp s1) as [r|] eqn:E2.
  { eapply (banned_ok s s1 s_OR_sp r EInvalidOrOperator 3); try eassumption; try discriminate; reflexivity. }
  destruct (strip_prefix s_or_sp s1) as [r|] eqn:E3.
  { pose proof (strip_prefix_sub _ _ _ E3) as H1.
    pose proof (strip_prefix_lt _ _ _ E3 ltac:(discriminate)) as H2.
    destruct Hw, H1. unfold op_good. split; [split; lia|]. split; [lia|].
    split; [apply errs_ok_nil|discriminate]. }
  destruct s1 as [|c r]; [exact I|].
  assert (Hr : op_good s (Some OrPipe, r, []) /\ op_good s (Some OrPlus, r, [])).
  { destruct Hw as [Hw1 Hw2]. cbn [length blen] in *. pose proof (utf8_len_pos c).
    split; unfold op_good; (split; [split; lia|]); (split; [lia|]);
      (split; [apply errs_ok_nil|discriminate]). }
  destruct (c =? 124); [apply Hr|]. destruct (c =? 43); [apply Hr|exact I].
Qed.

Lemma parse_and_op_good s :
  match parse_and_op s with Some res => op_good s res | None => True end.
Proof.
  unfold parse_and_op. pose proof (ws_skip_sub s) as Hw. set (s1 := ws_skip s) in *.
  destruct (strip_prefix s_ampamp s1) as [r|] eqn:E1.
  { eapply (banned_ok s s1 s_ampamp r EInvalidAndOperator 2); try eassumption; try discriminate; reflexivity. }
  destruct (strip_prefix s_AND_sp s1) as [r|] eqn:E2.
  { eapply (banned_ok s s1 s_AND_sp r EInvalidAndOperator 4); try eassumption; try discriminate; reflexivity. }
  destruct (strip_prefix s_and_sp s1) as [r|] eqn:E3.
  { pose proof (strip_prefix_sub _ _ _ E3) as H1.
    pose proof (strip_prefix_lt _ _ _ E3 ltac:(discriminate)) as H2.
    destruct Hw, H1. unfold op_good. split; [split; lia|]. split; [lia|].
    split; [apply errs_ok_nil|discriminate]. }
  destruct s1 as [|c r]; [exact I|].
  assert (Hr : forall o : and_or_diff, op_good s (Some o, r, [])).
  { intros o. destruct Hw as [Hw1 Hw2]. cbn [length blen] in *. pose proof (utf8_len_pos c).
    unfold op_good. split; [split; lia|]. split; [lia|]. split; [apply errs_ok_nil|discriminate]. }
  destruct (c =? 38); [apply Hr|]. destruct (c =? 45); [apply Hr|exact I].
Qed.

(* ---------------------------------------------------------------- expression levels *)

(* result of an expression-level parser: like [good], except that an error result may also be
   inherited from the accumulator *)
Definition egood (s : str) (res : eres) : Prop := good rx_sane s res.

Section Levels.
Variable basic : str -> option eres.
Variable L : nat.
Hypothesis Hbasic : forall s, (length s <= L)%nat ->
  match basic s with Some res => egood s res | None => True end.

Lemma expect_basic_good s : (length s <= L)%nat -> egood s (expect_basic basic s).
Proof.
  intros Hl. unfold expect_basic. specialize (Hbasic s Hl). destruct (basic s) as [res|]; [exact Hbasic|].
  unfold egood, good. split; [apply sub_refl|]. split; [|discriminate].
  apply err_at_ok; [discriminate|apply sub_refl|lia].
Qed.

Lemma and_loop_good k : forall acc s,
  (length s <= L)%nat -> (length s <= k)%nat ->
  let '(res, rest, es) := and_loop basic k acc s in
  sub rest s /\ errs_ok rx_sane (blen s) es /\ (res = None -> acc = None \/ es <> []).
Proof.
  induction k as [|k IH]; intros acc s HL Hk.
  - destruct s; [|cbn in Hk; lia]. cbn. split; [apply sub_refl|]. split; [apply errs_ok_nil|]. auto.
  - cbn [and_loop]. pose proof (parse_and_op_good s) as Hop.
    destruct (parse_and_op s) as [[[op s1] e1]|].
    + destruct Hop as [S1 [L1 [K1 N1]]].
      pose proof (expect_basic_good s1 ltac:(lia)) as Hb.
      destruct (expect_basic basic s1) as [[r s2] e2]. destruct Hb as [S2 [K2 N2]].
      assert (Hl2 : (length s2 <= length s1)%nat) by (destruct S2; lia).
      specialize (IH (combine_and op acc r) s2 ltac:(lia) ltac:(lia)).
      destruct (and_loop basic k (combine_and op acc r) s2) as [[res s3] e3].
      destruct IH as [S3 [K3 N3]].
      assert (S2' : sub s2 s) by (eapply sub_trans; eassumption).
      split; [eapply sub_trans; eassumption|]. split.
      * apply errs_ok_app; [exact K1|].
        apply errs_ok_app; [exact (errs_ok_sub _ _ _ _ S1 K2)|exact (errs_ok_sub _ _ _ _ S2' K3)].
      * intros Hn. destruct (N3 Hn) as [Hc|He].
        -- destruct op as [o|].
           ++ destruct acc as [x|]; [|left; reflexivity]. destruct r as [y|].
              ** destruct o; discriminate.
              ** right. apply app_nonnil_r, app_nonnil_l, N2. reflexivity.
           ++ right. apply app_nonnil_l, N1. reflexivity.
        -- right. apply app_nonnil_r, app_nonnil_r, He.
    + split; [apply sub_refl|]. split; [apply errs_ok_nil|]. auto.
Qed.

Lemma and_expr_good k s :
  (length s <= L)%nat -> (length s <= k)%nat -> egood s (and_expr basic k s).
Proof.
  intros HL Hk. unfold and_expr. pose proof (expect_basic_good s HL) as Hb.
  destruct (expect_basic basic s) as [[r s1] e1]. destruct Hb as [S1 [K1 N1]].
  pose proof (and_loop_good k r s1 ltac:(destruct S1; lia) ltac:(destruct S1; lia)) as Hl.
  destruct (and_loop basic k r s1) as [[res s2] e2]. destruct Hl as [S2 [K2 N2]].
  unfold egood, good. split; [eapply sub_trans; eassumption|]. split.
  - apply errs_ok_app; [exact K1|exact (errs_ok_sub _ _ _ _ S1 K2)].
  - intros Hn. destruct (N2 Hn) as [Ha|He]; [apply app_nonnil_l, N1, Ha|apply app_nonnil_r, He].
Qed.

Lemma or_loop_good k : forall acc s,
  (length s <= L)%nat -> (length s <= k)%nat ->
  let '(res, rest, es) := or_loop basic k acc s in
  sub rest s /\ errs_ok rx_sane (blen s) es /\ (res = None -> acc = None \/ es <> []).
Proof.
  induction k as [|k IH]; intros acc s HL Hk.
  - destruct s; [|cbn in Hk; lia]. cbn. split; [apply sub_refl|]. split; [apply errs_ok_nil|]. auto.
  - cbn [or_loop]. pose proof (parse_or_op_good s) as Hop.
    destruct (parse_or_op s) as [[[op s1] e1]|].
    + destruct Hop as [S1 [L1 [K1 N1]]].
      pose proof (and_expr_good (S k) s1 ltac:(lia) ltac:(lia)) as Hb.
      destruct (and_expr basic (S k) s1) as [[r s2] e2]. destruct Hb as [S2 [K2 N2]].
      assert (Hl2 : (length s2 <= length s1)%nat) by (destruct S2; lia).
      specialize (IH (combine_or op acc r) s2 ltac:(lia) ltac:(lia)).
      destruct (or_loop basic k (combine_or op acc r) s2) as [[res s3] e3].
      destruct IH as [S3 [K3 N3]].
      assert (S2' : sub s2 s) by (eapply sub_trans; eassumption).
      split; [eapply sub_trans; eassumption|]. split.
      * apply errs_ok_app; [exact K1|].
        apply errs_ok_app; [exact (errs_ok_sub _ _ _ _ S1 K2)|exact (errs_ok_sub _ _ _ _ S2' K3)].
      * intros Hn. destruct (N3 Hn) as [Hc|He].
        -- destruct op as [o|].
           ++ destruct acc as [x|]; [|left; reflexivity]. destruct r as [y|].
              ** discriminate.
              ** right. apply app_nonnil_r, app_nonnil_l, N2. reflexivity.
           ++ right. apply app_nonnil_l, N1. reflexivity.
        -- right. apply app_nonnil_r, app_nonnil_r, He.
    + split; [apply sub_refl|]. split; [apply errs_ok_nil|]. auto.
Qed.

Lemma or_expr_good k s :
  (length s <= L)%nat -> (length s <= k)%nat -> egood s (or_expr basic k s).
Proof.
  intros HL Hk. unfold or_expr. pose proof (and_expr_good k s HL Hk) as Hb.
  destruct (and_expr basic k s) as [[r s1] e1]. destruct Hb as [S1 [K1 N1]].
  pose proof (or_loop_good k r s1 ltac:(destruct S1; lia) ltac:(destruct S1; lia)) as Hl.
  destruct (or_loop basic k r s1) as [[res s2] e2]. destruct Hl as [S2 [K2 N2]].
  unfold egood, good. split; [eapply sub_trans; eassumption|]. split.
  - apply errs_ok_app; [exact K1|exact (errs_ok_sub _ _ _ _ S1 K2)].
  - intros Hn. destruct (N2 Hn) as [Ha|He]; [apply app_nonnil_l, N1, Ha|apply app_nonnil_r, He].
Qed.
End Levels.

Lemma basic_good n : forall s, (length s < n)%nat ->
  match basic SO n s with Some res => egood s res | None => True end.
Proof.
  induction n as [|n IH]; intros s Hl; [lia|].
  cbn [basic]. pose proof (ws_skip_sub s) as Hw. set (s1 := ws_skip s) in *.
  pose proof (parse_set_def_good s1) as Hsd.
  destruct (parse_set_def SO s1) as [[[d rest] es]|].
  { destruct Hsd as [Hg _]. eapply good_sub; [exact Hw|]. apply good_map. exact Hg. }
  destruct (parse_not_op s1) as [[op s2]|] eqn:En.
  { destruct (parse_not_op_lt _ _ _ En) as [S2 L2].
    assert (Hl2 : (length s2 < n)%nat) by (destruct Hw; lia).
    specialize (IH s2 Hl2). assert (S2' : sub s2 s) by (eapply sub_trans; eassumption).
    destruct (basic SO n s2) as [[[r s3] es]|].
    - eapply good_sub; [exact S2'|]. apply good_map. exact IH.
    - unfold egood, good. split; [exact S2'|]. split; [|discriminate].
      apply err_at_ok; [discriminate|exact S2'|lia]. }
  destruct s1 as [|c s2]; [exact I|]. destruct (c =? 40); [|exact I].
  assert (Hl2 : (length s2 < n)%nat) by (destruct Hw as [Hw _]; cbn [length] in Hw; lia).
  assert (S2' : sub s2 s) by (eapply sub_trans; [apply sub_tail|exact Hw]).
  pose proof (or_expr_good (basic SO n) (n - 1)%nat
                (fun x Hx => IH x ltac:(lia)) n s2 ltac:(lia) ltac:(lia)) as Ho.
  destruct (or_expr (basic SO n) n s2) as [[r s3] e3]. destruct Ho as [S3 [K3 N3]].
  destruct (expect_char 41 EExpectedCloseParen s3) as [s4 e4] eqn:E4.
  destruct (expect_char_ok rx_sane _ _ _ _ _ E4 ltac:(discriminate)) as [S4 K4].
  assert (S3' : sub s3 s) by (eapply sub_trans; eassumption).
  unfold egood, good. split; [eapply sub_trans; eassumption|]. split.
  - apply errs_ok_app; [exact (errs_ok_sub _ _ _ _ S2' K3)|exact (errs_ok_sub _ _ _ _ S3' K4)].
  - intros Hn. apply app_nonnil_l, N3. destruct r; [discriminate|reflexivity].
Qed.

(* ---------------------------------------------------------------- the whole parser *)

Lemma parse_raw_good s :
  let '(r, es) := parse_raw SO s in
  errs_ok rx_sane (blen s) es /\ (r = None -> es <> []).
Proof.
  unfold parse_raw, parse_fuel.
  pose proof (or_expr_good (basic SO (S (length s))) (length s)
                (fun x Hx => basic_good (S (length s)) x ltac:(lia))
                (S (length s)) s ltac:(lia) ltac:(lia)) as Ho.
  destruct (or_expr (basic SO (S (length s))) (S (length s)) s) as [[r s1] e1].
  destruct Ho as [S1 [K1 N1]]. split.
  - apply errs_ok_app; [exact K1|]. destruct (ws_skip s1); [apply errs_ok_nil|].
    apply err_at_ok; [discriminate|exact S1|lia].
  - intros Hn. apply app_nonnil_l, N1, Hn.
Qed.

Lemma never_out_of_fuel s : Forall (fun e => pe_kind e <> EOutOfFuel) (snd (parse_raw SO s)).
Proof.
  pose proof (parse_raw_good s) as H. destruct (parse_raw SO s) as [r es]. destruct H as [H _].
  cbn [snd]. eapply Forall_impl; [|exact H]. intros e [_ Hn]. exact Hn.
Qed.

Lemma error_nonempty s l : parse SO s = PErr l -> l <> [].
Proof.
  unfold parse. pose proof (parse_raw_good s) as H. destruct (parse_raw SO s) as [r es].
  destruct H as [_ H]. destruct r as [e|].
  - destruct es; [discriminate|]. intros E. injection E as <-. discriminate.
  - intros E. assert (es <> []) by (apply H; reflexivity).
    destruct es; [congruence|]. injection E as <-. discriminate.
Qed.

Lemma spans_within s l :
  rx_sane -> parse SO s = PErr l -> Forall (fun sp => fst sp + snd sp <= blen s) l.
Proof.
  intros Hs. unfold parse. pose proof (parse_raw_good s) as H. destruct (parse_raw SO s) as [r es].
  destruct H as [H _].
  assert (Hm : Forall (fun sp => fst sp + snd sp <= blen s) (map (span_of (blen s)) es)).
  { apply Forall_map. eapply Forall_impl; [|exact H]. intros e [Hw _]. destruct (Hw Hs) as [H1 H2].
    unfold span_of. cbn [fst snd]. lia. }
  destruct r as [e|]; [destruct es|]; intros E; try discriminate; injection E as <-; exact Hm.
Qed.

(* the view of ParsedExpr::parse: no expression implies some error *)
Lemma raw_error_nonempty s es : parse_raw SO s = (None, es) -> es <> [].
Proof.
  intros E. pose proof (parse_raw_good s) as H. rewrite E in H. apply H. reflexivity.
Qed.

End Oracle.
