(* Facts about Model/EnvFileLine.v: the loop of Model/Scripts.v is the iteration of [line_step]; what the reserved-key
   rule means for a whole file. *)
From Coq Require Import List NArith Bool Lia.
From NextestModel Require Import Base.Tac Base.Str Model.Scripts Model.EnvFileLine.
Import ListNotations.
Open Scope N_scope.

Lemma parse_lines_step :
  forall l r acc,
    parse_lines (l :: r) acc =
    match line_step l with
    | inl (k, v) => parse_lines r (env_insert k v acc)
    | inr _ => None
    end.
Proof.
  intros l r acc. cbn [parse_lines]. unfold line_step.
  destruct (split_once_eq l) as [[k v]|]; [destruct (is_prefix NEXTEST k)|]; reflexivity.
Qed.

Lemma line_ok_step : forall l, line_ok l = true <-> exists kv, line_step l = inl kv.
Proof.
  intros l. unfold line_ok, line_step.
  destruct (split_once_eq l) as [[k v]|]; [destruct (is_prefix NEXTEST k)|]; cbn [negb];
  split; intros H; try discriminate; try (destruct H as [kv H]; discriminate); try reflexivity.
  exists (k, v). reflexivity.
Qed.

(* one line whose key begins with NEXTEST makes the whole file unacceptable, wherever it stands and whatever the other
   lines say *)
Lemma reserved_line_rejects_file :
  forall ls1 l ls2, line_step l = inr LineReservedKey -> parse_env (ls1 ++ l :: ls2) = None.
Proof.
  intros ls1 l ls2 H. unfold parse_env. generalize (@nil (str * str)).
  induction ls1 as [|a ls1 IH]; intros acc.
  - cbn [app]. rewrite parse_lines_step, H. reflexivity.
  - cbn [app]. rewrite parse_lines_step. destruct (line_step a) as [[k v]|]; [apply IH | reflexivity].
Qed.

(* an accepted file has no line whose key begins with NEXTEST, and none without '=' *)
Lemma accepted_file_lines :
  forall ls m l, parse_env ls = Some m -> In l ls -> exists k v, line_step l = inl (k, v) /\ is_prefix NEXTEST k = false.
Proof.
  intros ls m l. unfold parse_env. generalize (@nil (str * str)). revert m.
  induction ls as [|a ls IH]; intros m acc Hp Hin; [destruct Hin|].
  rewrite parse_lines_step in Hp. destruct Hin as [->|Hin].
  - unfold line_step in *. destruct (split_once_eq l) as [[k v]|]; [|discriminate].
    destruct (is_prefix NEXTEST k) eqn:E; [discriminate|]. exists k, v. split; [reflexivity | exact E].
  - destruct (line_step a) as [[k v]|]; [|discriminate]. exact (IH _ _ Hp Hin).
Qed.

(* the rule is about the PREFIX: NEXTESTX=1 is reserved although it is neither NEXTEST nor NEXTEST_ followed by more *)
Example reserved_prefix_not_only_underscore :
  line_step [78; 69; 88; 84; 69; 83; 84; 88; 61; 49] = inr LineReservedKey /\
  line_step [78; 69; 88; 84; 61; 49] = inl ([78; 69; 88; 84], [49]).
Proof. split; reflexivity. Qed.
