(* Facts about Model/LibtestReport.v: only the exact status line of this test ends the stored text; everything between
   the header and that line is stored, in order. *)
From Coq Require Import List NArith Bool Lia.
From NextestModel Require Import Base.Tac Base.Str Proofs.StrFacts Model.LibtestReport.
Import ListNotations.
Open Scope N_scope.

Lemma closing_line_iff : forall name line, closing_line name line = true <-> line = closing_text name.
Proof. intros. unfold closing_line. apply str_eqb_eq. Qed.

(* no line other than the exact closing line ends the stored text *)
Lemma until_closing_keeps_all :
  forall name ls, (forall l, In l ls -> l <> closing_text name) -> until_closing name ls = ls.
Proof.
  intros name ls. induction ls as [|l r IH]; intros H; [reflexivity|]. cbn [until_closing].
  destruct (closing_line name l) eqn:E.
  - apply closing_line_iff in E. exfalso. exact (H l (or_introl eq_refl) E).
  - f_equal. apply IH. intros x Hx. apply H. right. exact Hx.
Qed.

(* ... and the exact closing line does: what follows it (libtest's summary) is not stored *)
Lemma until_closing_stops :
  forall name before after,
    (forall l, In l before -> l <> closing_text name) ->
    until_closing name (before ++ closing_text name :: after) = before.
Proof.
  intros name before after. induction before as [|l r IH]; intros H; cbn [app until_closing].
  - unfold closing_line. rewrite str_eqb_refl. reflexivity.
  - destruct (closing_line name l) eqn:E.
    + apply closing_line_iff in E. exfalso. exact (H l (or_introl eq_refl) E).
    + f_equal. apply IH. intros x Hx. apply H. right. exact Hx.
Qed.

(* a status line for a LONGER name (this name followed by anything: " - should panic", "_more") is not the closing line *)
Lemma longer_name_is_not_closing :
  forall name extra, extra <> [] -> closing_line name (closing_text (name ++ extra)) = false.
Proof.
  intros name extra Hne. apply str_eqb_neq. unfold closing_text. intros H.
  apply app_inv_head in H. rewrite <- app_assoc in H. apply app_inv_head in H.
  assert (L : length (extra ++ FAILED_SUFFIX) = length FAILED_SUFFIX) by (rewrite H; reflexivity).
  rewrite app_length in L. destruct extra; [contradiction | cbn in L; lia].
Qed.

(* ... nor is the status line of any other test *)
Lemma other_name_is_not_closing :
  forall name other, other <> name -> closing_line name (closing_text other) = false.
Proof.
  intros name other Hne. apply str_eqb_neq. unfold closing_text. intros H.
  apply app_inv_head in H. apply app_inv_tail in H. contradiction.
Qed.

Lemma after_header_skips :
  forall pre rest, (forall l, In l pre -> l <> HEADER) -> after_header (pre ++ HEADER :: rest) = rest.
Proof.
  intros pre rest. induction pre as [|l r IH]; intros H; cbn [app after_header].
  - rewrite str_eqb_refl. reflexivity.
  - destruct (str_eqb l HEADER) eqn:E.
    + apply str_eqb_eq in E. exfalso. exact (H l (or_introl eq_refl) E).
    + apply IH. intros x Hx. apply H. right. exact Hx.
Qed.

(* every line the test wrote between the header and its closing line is stored, in order, and nothing else *)
Lemma report_lines_between :
  forall name pre body post,
    (forall l, In l pre -> l <> HEADER) ->
    (forall l, In l body -> l <> closing_text name) ->
    report_lines name (pre ++ HEADER :: body ++ closing_text name :: post) = body.
Proof.
  intros name pre body post Hp Hb. unfold report_lines. rewrite after_header_skips by exact Hp.
  apply until_closing_stops. exact Hb.
Qed.

(* without a closing line (the process was killed before libtest wrote it) everything after the header is stored *)
Lemma report_lines_unclosed :
  forall name pre body,
    (forall l, In l pre -> l <> HEADER) ->
    (forall l, In l body -> l <> closing_text name) ->
    report_lines name (pre ++ HEADER :: body) = body.
Proof.
  intros name pre body Hp Hb. unfold report_lines. rewrite after_header_skips by exact Hp.
  apply until_closing_keeps_all. exact Hb.
Qed.
