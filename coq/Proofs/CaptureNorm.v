(* Lemmas about Model/CaptureNorm.v (C16, known findings F13 / F14). *)
From NextestModel Require Import Base.Str Base.Tac Model.CaptureNorm.
Open Scope N_scope.

Lemma filter_all : forall (A : Type) (f : A -> bool) l, forallb f l = true -> filter f l = l.
Proof.
  intros A f l. induction l as [|x t IH]; [reflexivity|]. cbn [forallb filter].
  intros H. apply andb_true_iff in H. destruct H as [H1 H2]. rewrite H1. now rewrite IH.
Qed.

Lemma existsb_false_forallb : forall (A : Type) (f : A -> bool) l,
  existsb f l = false -> forallb (fun x => negb (f x)) l = true.
Proof.
  intros A f l. induction l as [|x t IH]; [reflexivity|]. cbn [existsb forallb].
  intros H. apply orb_false_iff in H. destruct H as [H1 H2]. rewrite H1. cbn [negb andb]. now apply IH.
Qed.

Lemma strip_outside_known : forall s, known_F13_display s = false -> strip_impl s = strip_doc s.
Proof.
  intros s H. unfold strip_impl, strip_doc. apply filter_all.
  now apply existsb_false_forallb.
Qed.

Lemma existsb_removelast : forall (A : Type) (f : A -> bool) l,
  existsb f l = false -> existsb f (removelast l) = false.
Proof.
  intros A f l. induction l as [|x t IH]; [reflexivity|]. cbn [existsb removelast].
  intros H. apply orb_false_iff in H. destruct H as [H1 H2].
  destruct t as [|y t']; [reflexivity|]. cbn [existsb]. rewrite H1. cbn [orb]. now apply IH.
Qed.

Lemma display_outside_known : forall s, known_F13_display s = false -> display_impl s = display_doc s.
Proof.
  intros s H. unfold display_impl, display_doc. rewrite strip_outside_known; [reflexivity|].
  unfold chop_lf, known_F13_display in *. destruct (ends_with_lf s); [|exact H].
  now apply existsb_removelast.
Qed.

Lemma junit_char : forall c,
  ((c =? 9) || (c =? 13) || is_c1 c) = false -> ((c =? 65534) || (c =? 65535)) = false ->
  (if negb (is_c0_not_lf c || is_c1 c) then negb (xml_c0 c) else false) = xml_valid c.
Proof.
  intros c H1 H2. unfold is_c0_not_lf, is_c1, xml_c0, xml_valid in *.
  destruct (negb ((c <? 32) && negb (c =? 10) || (128 <=? c) && (c <=? 159))) eqn:E; lia.
Qed.

Lemma junit_outside_known : forall s,
  known_F13_junit s = false -> known_F14 s = false -> junit_impl s = junit_doc s.
Proof.
  intros s. unfold junit_impl, junit_doc, strip_impl, strip_doc, known_F13_junit, known_F14.
  induction s as [|c t IH]; [reflexivity|]. cbn [existsb filter]. intros H1 H2.
  apply orb_false_iff in H1. destruct H1 as [H1 H1'].
  apply orb_false_iff in H2. destruct H2 as [H2 H2'].
  pose proof (junit_char c H1 H2) as J.
  destruct (negb (is_c0_not_lf c || is_c1 c)); cbn [filter].
  - rewrite J. destruct (xml_valid c); now rewrite IH.
  - rewrite <- J. now apply IH.
Qed.

Lemma junit_doc_ok : forall s, xml_text_ok (junit_doc s) = true.
Proof.
  intros s. unfold xml_text_ok, junit_doc, strip_doc.
  induction s as [|c t IH]; [reflexivity|]. cbn [filter].
  destruct (xml_valid c) eqn:V; [cbn [forallb]; now rewrite V|exact IH].
Qed.
