(* Lemmas about Model/CaptureNorm.v (C16, known findings F13 / F14). *)
From NextestModel Require Import Base.Str Base.Tac Model.CaptureNorm.
Open Scope N_scope.

Lemma filter_all : forall (A : Type) (f : A -> bool) l, forallb f l = true -> filter f l = l.
Proof.
  intros A f l. induction l as [|x t IH]; [reflexivity|]. cbn [forallb filter].
  intros H. apply andb_true_iff in H. destruct H as [H1 H2]. rewrite H1. now rewrite IH.
Qed.

Lemma existsb_false_forallb : forall (A : Type) (f : A -> bool) l,
  existsb f l = false -> forallb (fun x => negb (f x)) l = true.
Proof.
  intros A f l. induction l as [|x t IH]; [reflexivity|]. cbn [existsb forallb].
  intros H. apply orb_false_iff in H. destruct H as [H1 H2]. rewrite H1. cbn [negb andb]. now apply IH.
Qed.

Lemma strip_outside_known : forall s, known_F13_display s = false -> strip_impl s = strip_doc s.
Proof.
  intros s H. unfold strip_impl, strip_doc. apply filter_all.
  now apply existsb_false_forallb.
Qed.

Lemma existsb_removelast : forall (A : Type) (f : A -> bool) l,
  existsb f l = false -> existsb f (removelast l) = false.
Proof.
  intros A f l. induction l as [|x t IH]; [reflexivity|]. cbn [existsb removelast].
  intros H. apply orb_false_iff in H. destruct H as [H1 H2].
  destruct t as [|y t']; [reflexivity|]. cbn [existsb]. rewrite H1. cbn [orb]. now apply IH.
Qed.

Lemma display_outside_known : forall s, known_F13_display s = false -> display_impl s = display_doc s.
Proof.
  intros s H. unfold display_impl, display_doc. rewrite strip_outside_known; [reflexivity|].
  unfold chop_lf, known_F13_display in *. destruct (ends_with_lf s); [|exact H].
  now apply existsb_removelast.
Qed.

Lemma filter_filter : forall (A : Type) (f g : A -> bool) l,
  filter g (filter f l) = filter (fun x => f x && g x) l.
Proof.
  intros A f g l. induction l as [|x t IH]; [reflexivity|]. cbn [filter].
  destruct (f x); cbn [filter andb]; [destruct (g x); now rewrite IH | exact IH].
Qed.

Definition keep (c : N) : bool :=
  negb (is_c0_not_lf c || is_c1 c) && negb (xml_c0 c) && negb (is_nonchar c).

Lemma junit_impl_filter : forall s, junit_impl s = filter keep s.
Proof.
  intros s. unfold junit_impl, junit_impl_unfixed, strip_impl. rewrite !filter_filter.
  apply filter_ext. intros c. unfold keep. cbn beta.
  destruct (negb (is_c0_not_lf c || is_c1 c)), (negb (xml_c0 c)), (negb (is_nonchar c)); reflexivity.
Qed.

Lemma keep_valid : forall c, keep c = true -> xml_valid c = true.
Proof. intros c. unfold keep, is_c0_not_lf, is_c1, xml_c0, is_nonchar, xml_valid. lia. Qed.

Lemma keep_is_valid_outside : forall c,
  ((c =? 9) || (c =? 13) || is_c1 c) = false -> keep c = xml_valid c.
Proof. intros c. unfold keep, is_c0_not_lf, is_c1, xml_c0, is_nonchar, xml_valid. lia. Qed.

Lemma junit_valid : forall s, xml_text_ok (junit_impl s) = true.
Proof.
  intros s. rewrite junit_impl_filter. unfold xml_text_ok.
  induction s as [|c t IH]; [reflexivity|]. cbn [filter].
  destruct (keep c) eqn:K; [cbn [forallb]; rewrite (keep_valid c K); exact IH | exact IH].
Qed.

Lemma junit_outside_known : forall s, known_F13_junit s = false -> junit_impl s = junit_doc s.
Proof.
  intros s. rewrite junit_impl_filter. unfold junit_doc, strip_doc, known_F13_junit.
  induction s as [|c t IH]; [reflexivity|]. cbn [existsb filter]. intros H.
  apply orb_false_iff in H. destruct H as [H1 H2].
  rewrite (keep_is_valid_outside c H1). destruct (xml_valid c); now rewrite IH.
Qed.

Lemma junit_doc_ok : forall s, xml_text_ok (junit_doc s) = true.
Proof.
  intros s. unfold xml_text_ok, junit_doc, strip_doc.
  induction s as [|c t IH]; [reflexivity|]. cbn [filter].
  destruct (xml_valid c) eqn:V; [cbn [forallb]; now rewrite V|exact IH].
Qed.
