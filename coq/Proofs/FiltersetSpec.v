(* Consequences of the round trip for the C05 statements: default matchers and precedence; and
   the F6 witnesses for the printer before its repairs. *)
From NextestModel Require Import Base.Str Model.FiltersetAst Model.Filterset Model.FiltersetParse.
From NextestModel Require Import Base.Tac Proofs.FiltersetParse Proofs.FiltersetRoundtrip Proofs.Filterset.
Open Scope N_scope.


(* ---------------------------------------------------------------- default matchers (C05) *)

(* text "free of metacharacters": printable ASCII other than / ) , \ and not starting with a
   sigil or a space; such text is its own printed form *)
Definition plain_char (c : N) : bool :=
  (32 <=? c) && (c <=? 126) && negb ((c =? 47) || (c =? 41) || (c =? 44) || (c =? 92)).
Definition plain_text (x : str) : bool :=
  match x with [] => false | c :: _ => negb (is_sigil c) && forallb plain_char x end.

Lemma plain_char_print c : plain_char c = true -> print_char all_fixes c = [c] /\ valid_scalar c = true.
Proof.
  unfold plain_char. intros H. apply Bool.andb_true_iff in H. destruct H as [H Hn].
  apply Bool.andb_true_iff in H. destruct H as [H1 H2]. apply Bool.negb_true_iff in Hn.
  repeat (apply Bool.orb_false_iff in Hn; destruct Hn as [Hn ?]).
  apply N.leb_le in H1. apply N.leb_le in H2. split.
  - unfold print_char. rewrite Hn. replace (c =? 41) with false by congruence.
    replace (c =? 44) with false by congruence. cbn [fx_quotes all_fixes].
    destruct ((c =? 39) || (c =? 34)); [reflexivity|].
    replace (c =? 9) with false by (symmetry; apply N.eqb_neq; lia).
    replace (c =? 13) with false by (symmetry; apply N.eqb_neq; lia).
    replace (c =? 10) with false by (symmetry; apply N.eqb_neq; lia).
    replace (c =? 92) with false by congruence.
    replace ((32 <=? c) && (c <=? 126)) with true; [reflexivity|].
    symmetry. apply Bool.andb_true_iff. split; apply N.leb_le; lia.
  - unfold valid_scalar. replace (c <? 55296) with true; [reflexivity|]. symmetry. apply N.ltb_lt. lia.
Qed.

Lemma plain_string_print x :
  forallb plain_char x = true -> print_string all_fixes x = x /\ forallb valid_scalar x = true.
Proof.
  induction x as [|c x IH]; intros H; [split; reflexivity|].
  cbn [forallb] in H. apply Bool.andb_true_iff in H. destruct H as [Hc Hx].
  destruct (plain_char_print c Hc) as [E Hv]. destruct (IH Hx) as [Ex Hvx].
  unfold print_string in *. cbn [flat_map forallb]. rewrite E, Ex, Hv, Hvx. split; reflexivity.
Qed.

Lemma plain_text_facts x : plain_text x = true ->
  print_implicit all_fixes x = x /\ text_ok x = true.
Proof.
  destruct x as [|c x]; [discriminate|]. cbn [plain_text]. intros H.
  apply Bool.andb_true_iff in H. destruct H as [Hs Hp]. apply Bool.negb_true_iff in Hs.
  destruct (plain_string_print (c :: x) Hp) as [E Hv].
  split; [|exact Hv]. cbn [print_implicit]. rewrite Hs, Bool.andb_false_r. exact E.
Qed.

Lemma default_matchers SO x :
  plain_text x = true ->
  parse SO (s_test ++ [40] ++ x ++ [41]) = POk (PSet (STest (MContains x true))) /\
  parse SO (s_kind ++ [40] ++ x ++ [41]) = POk (PSet (SKind (MEqual x true))) /\
  (glob_ok SO x = true ->
   parse SO (s_package ++ [40] ++ x ++ [41]) = POk (PSet (SPackage (MGlob x true))) /\
   parse SO (s_deps ++ [40] ++ x ++ [41]) = POk (PSet (SDeps (MGlob x true))) /\
   parse SO (s_rdeps ++ [40] ++ x ++ [41]) = POk (PSet (SRdeps (MGlob x true))) /\
   parse SO (s_binary ++ [40] ++ x ++ [41]) = POk (PSet (SBinary (MGlob x true))) /\
   parse SO (s_binary_id ++ [40] ++ x ++ [41]) = POk (PSet (SBinaryId (MGlob x true)))).
Proof.
  intros Hx. destruct (plain_text_facts x Hx) as [Ep Ht].
  assert (R : forall d, setdef_ok SO d = true -> parse SO (print (PSet d)) = POk (PSet d)).
  { intros d Hd. apply roundtrip; [reflexivity|exact Hd]. }
  assert (Hc : matcher_ok SO DmContains (MContains x true) = true) by (cbn; rewrite Ht; reflexivity).
  assert (He : matcher_ok SO DmEqual (MEqual x true) = true) by (cbn; rewrite Ht; reflexivity).
  split; [|split].
  - pose proof (R (STest (MContains x true)) Hc) as H.
    unfold print in H. cbn [print_with print_setdef print_matcher print_text] in H. rewrite Ep in H. exact H.
  - pose proof (R (SKind (MEqual x true)) He) as H.
    unfold print in H. cbn [print_with print_setdef print_matcher print_text] in H. rewrite Ep in H. exact H.
  - intros Hg.
    assert (Hm : matcher_ok SO DmGlob (MGlob x true) = true) by (cbn; rewrite Ht, Hg; reflexivity).
    repeat split.
    + pose proof (R (SPackage (MGlob x true)) Hm) as H.
      unfold print in H. cbn [print_with print_setdef print_matcher print_text] in H. rewrite Ep in H. exact H.
    + pose proof (R (SDeps (MGlob x true)) Hm) as H.
      unfold print in H. cbn [print_with print_setdef print_matcher print_text] in H. rewrite Ep in H. exact H.
    + pose proof (R (SRdeps (MGlob x true)) Hm) as H.
      unfold print in H. cbn [print_with print_setdef print_matcher print_text] in H. rewrite Ep in H. exact H.
    + pose proof (R (SBinary (MGlob x true)) Hm) as H.
      unfold print in H. cbn [print_with print_setdef print_matcher print_text] in H. rewrite Ep in H. exact H.
    + pose proof (R (SBinaryId (MGlob x true)) Hm) as H.
      unfold print in H. cbn [print_with print_setdef print_matcher print_text] in H. rewrite Ep in H. exact H.
Qed.

(* ---------------------------------------------------------------- precedence (C05)
   [paren] puts parentheses exactly where the documented table requires them -- around an
   operand that binds less tightly than its position demands: under `not` anything that is not
   itself a not / set / parenthesised expression; as the left operand of and/&/- a union; as
   their right operand any binary expression; as the right operand of or/|/+ a union.
   [print_min e = print (paren e)]. *)
Definition lvl_of (e : pexpr) : nat :=
  match e with PUnion _ _ _ => 0 | PInter _ _ _ | PDiff _ _ _ => 1 | _ => 2 end.
Definition wrap (need : nat) (e : pexpr) : pexpr :=
  if (lvl_of e <? need)%nat then PParens e else e.
Fixpoint paren (e : pexpr) : pexpr :=
  match e with
  | PNot o a => PNot o (wrap 2 (paren a))
  | PUnion o a b => PUnion o (wrap 0 (paren a)) (wrap 1 (paren b))
  | PInter o a b => PInter o (wrap 1 (paren a)) (wrap 2 (paren b))
  | PDiff o a b => PDiff o (wrap 1 (paren a)) (wrap 2 (paren b))
  | PParens a => PParens (paren a)
  | PSet d => PSet d
  end.
Definition print_min (e : pexpr) : str := print (paren e).

Lemma canon_le l l' e : (l' <= l)%nat -> canon l e = true -> canon l' e = true.
Proof.
  intros H. induction H as [|m Hm IH]; [auto|]. intros Hc. apply IH, canon_mono, Hc.
Qed.

Lemma canon_wrap need e : canon (lvl_of e) e = true -> (need <= 2)%nat -> canon need (wrap need e) = true.
Proof.
  intros H Hn. unfold wrap. destruct (Nat.ltb_spec (lvl_of e) need).
  - cbn [canon]. apply (canon_le (lvl_of e) 0); [lia|exact H].
  - apply (canon_le (lvl_of e) need); [lia|exact H].
Qed.

Lemma canon_paren e : canon (lvl_of (paren e)) (paren e) = true.
Proof.
  induction e as [op a IH|op a IHa b IHb|op a IHa b IHb|op a IHa b IHb|a IH|d]; cbn [paren lvl_of canon].
  - apply canon_wrap; [exact IH|lia].
  - rewrite (canon_wrap 0 _ IHa), (canon_wrap 1 _ IHb) by lia. reflexivity.
  - rewrite (canon_wrap 1 _ IHa), (canon_wrap 2 _ IHb) by lia. reflexivity.
  - rewrite (canon_wrap 1 _ IHa), (canon_wrap 2 _ IHb) by lia. reflexivity.
  - apply (canon_le _ 0 _ ltac:(lia) IH).
  - reflexivity.
Qed.

Lemma printable_wrap SO need e : printable SO (wrap need e) = printable SO e.
Proof. unfold wrap. destruct (lvl_of e <? need)%nat; reflexivity. Qed.
Lemma printable_paren SO e : printable SO (paren e) = printable SO e.
Proof.
  induction e; cbn [paren printable]; rewrite ?printable_wrap; try rewrite IHe; try rewrite IHe1, IHe2; reflexivity.
Qed.

Lemma compile_wrap E W need e : compile E W (wrap need e) = compile E W e.
Proof. unfold wrap. destruct (lvl_of e <? need)%nat; reflexivity. Qed.
Lemma compile_paren E W e : compile E W (paren e) = compile E W e.
Proof.
  induction e; cbn [paren compile]; rewrite ?compile_wrap; try rewrite IHe; try rewrite IHe1, IHe2; reflexivity.
Qed.

Lemma precedence SO e :
  printable SO e = true ->
  parse SO (print_min e) = POk (paren e) /\
  (forall E W, compile E W (paren e) = compile E W e) /\
  (forall E W dt q, denote E W dt (paren e) q <-> denote E W dt e q).
Proof.
  intros Hp. split; [|split].
  - apply roundtrip; [|rewrite printable_paren; exact Hp].
    apply (canon_le (lvl_of (paren e)) 0); [lia|apply canon_paren].
  - intros E W. apply compile_paren.
  - intros E W dt q. rewrite <- !eval_is_membership, compile_paren. tauto.
Qed.


(* ---------------------------------------------------------------- F6 witnesses (printer before the repairs) *)

(* every glob / regex is accepted: the witnesses do not depend on the engines *)
Definition accept_all : syntax_oracle := mksyn (fun _ => true) (fun _ => RxOk).

Definition w_quotes_src : str := [116; 101; 115; 116; 40; 105; 116; 39; 115; 41].      (* test(it's) *)
Definition w_quotes : pexpr := PSet (STest (MContains [105; 116; 39; 115] true)).
Definition w_leading_src : str := [116; 101; 115; 116; 40; 92; 117; 123; 51; 100; 125; 102; 111; 111; 41].     (* test(\u{3d}foo) *)
Definition w_leading : pexpr := PSet (STest (MContains [61; 102; 111; 111] true)).
Definition w_space_src : str := [116; 101; 115; 116; 40; 92; 117; 123; 50; 48; 125; 102; 111; 111; 41].       (* test(\u{20}foo) *)
Definition w_space : pexpr := PSet (STest (MContains [32; 102; 111; 111] true)).
Definition w_regex_src : str := [116; 101; 115; 116; 40; 47; 97; 92; 92; 47; 98; 47; 41].       (* test(/a\\/b/) *)
Definition w_regex : pexpr := PSet (STest (MRegex [97; 92; 47; 98])).

Definition rt_fails (src : str) (e : pexpr) : Prop :=
  parse accept_all src = POk e /\ canonical e /\ printable accept_all e = true /\
  parse accept_all (print_unfixed e) <> POk e /\ parse accept_all (print e) = POk e.

Lemma refuted_quotes : rt_fails w_quotes_src w_quotes /\ Known_quotes w_quotes = true.
Proof. split; [|reflexivity]. repeat split; try (vm_compute; reflexivity). vm_compute. discriminate. Qed.
Lemma refuted_leading : rt_fails w_leading_src w_leading /\ Known_leading w_leading = true.
Proof. split; [|reflexivity]. repeat split; try (vm_compute; reflexivity). vm_compute. discriminate. Qed.
Lemma refuted_space : rt_fails w_space_src w_space /\ Known_leading w_space = true.
Proof. split; [|reflexivity]. repeat split; try (vm_compute; reflexivity). vm_compute. discriminate. Qed.
Lemma refuted_regex : rt_fails w_regex_src w_regex /\ Known_regex_pair w_regex = true.
Proof. split; [|reflexivity]. repeat split; try (vm_compute; reflexivity). vm_compute. discriminate. Qed.

Lemma roundtrip_unfixed_refuted :
  exists s e, parse accept_all s = POk e /\ parse accept_all (print_unfixed e) <> POk e.
Proof. exists w_quotes_src, w_quotes. destruct refuted_quotes as [[H1 [_ [_ [H2 _]]]] _]. split; assumption. Qed.

(* ---------------------------------------------------------------- evaluation = the documented set
   [spec_member] (Model/Filterset.v) is written from the reference documentation over the
   reflexive-transitive closure of a direct-dependency relation, with its own reading of the
   equality and contains matchers; the implementation model's [matcher_match] and the
   [w_depends_on] oracle do not occur in it. *)
From Coq Require Import Relations.Relation_Operators.
From NextestModel Require Import Proofs.StrFacts.

Lemma matcher_match_doc E m s : matcher_match E m s = true <-> doc_name_match E m s.
Proof.
  destruct m as [x i|x i|g i|r]; cbn [matcher_match doc_name_match]; try tauto.
  - rewrite str_eqb_eq. split; congruence.
  - apply is_infix_spec.
Qed.

Lemma in_fst_exists (l : list (N * str)) x :
  In x (map fst l) <-> exists name, In (x, name) l.
Proof.
  rewrite in_map_iff. split.
  - intros [[a name] [<- H]]. exists name. exact H.
  - intros [name H]. exists (x, name). auto.
Qed.

Lemma in_set_doc direct E W dt d q :
  graph_ok direct W -> query_ok W q -> (in_set E W dt d q <-> doc_set direct E W dt d q).
Proof.
  intros Hg Hq. unfold query_ok in Hq.
  destruct d; cbn [in_set doc_set]; try (apply matcher_match_doc); try tauto.
  - (* package *)
    split.
    + intros [[a name] (Hin & Hm & Ha)]. cbn [fst snd] in *. subst a.
      exists name. split; [exact Hin|apply matcher_match_doc; exact Hm].
    + intros (name & Hin & Hm). exists (q_pkg (fst q), name).
      split; [exact Hin|]. split; [apply matcher_match_doc; exact Hm|reflexivity].
  - (* deps: depends_on matching-crate test's-crate *)
    split.
    + intros ([x name] & [y yn] & H1 & H2 & Hm & Hd & Hy). cbn [fst snd] in *. subst y.
      exists x, name. split; [exact H1|]. split; [apply matcher_match_doc; exact Hm|].
      apply (Hg x (q_pkg (fst q))); [apply in_fst_exists; eauto|exact Hq|exact Hd].
    + intros (x & name & H1 & Hm & Hc).
      destruct (proj1 (in_fst_exists _ _) Hq) as [qn Hqn].
      exists (x, name), (q_pkg (fst q), qn). cbn [fst snd].
      split; [exact H1|]. split; [exact Hqn|]. split; [apply matcher_match_doc; exact Hm|].
      split; [|reflexivity].
      apply (Hg x (q_pkg (fst q))); [apply in_fst_exists; eauto|exact Hq|exact Hc].
  - (* rdeps: depends_on test's-crate matching-crate *)
    split.
    + intros ([x name] & [y yn] & H1 & H2 & Hm & Hd & Hy). cbn [fst snd] in *. subst y.
      exists x, name. split; [exact H1|]. split; [apply matcher_match_doc; exact Hm|].
      apply (Hg (q_pkg (fst q)) x); [exact Hq|apply in_fst_exists; eauto|exact Hd].
    + intros (x & name & H1 & Hm & Hc).
      destruct (proj1 (in_fst_exists _ _) Hq) as [qn Hqn].
      exists (x, name), (q_pkg (fst q), qn). cbn [fst snd].
      split; [exact H1|]. split; [exact Hqn|]. split; [apply matcher_match_doc; exact Hm|].
      split; [|reflexivity].
      apply (Hg (q_pkg (fst q)) x); [exact Hq|apply in_fst_exists; eauto|exact Hc].
Qed.

Lemma denote_spec direct E W dt e q :
  graph_ok direct W -> query_ok W q -> (denote E W dt e q <-> spec_member direct E W dt e q).
Proof.
  intros Hg Hq. induction e as [op a IH|op a IHa b IHb|op a IHa b IHb|op a IHa b IHb|a IH|d];
    cbn [denote spec_member]; try tauto.
  apply in_set_doc; assumption.
Qed.

Theorem eval_is_documented_set direct E W dt e q :
  graph_ok direct W -> query_ok W q ->
  (eval_test E dt (compile E W e) q = true <-> spec_member direct E W dt e q).
Proof.
  intros Hg Hq. rewrite eval_is_membership. apply denote_spec; assumption.
Qed.

(* ---------------------------------------------------------------- the chain a -> b -> c
   package 0 "a" depends on 1 "b", which depends on 2 "c" *)
Definition chain_direct (x y : N) : Prop := y = x + 1 /\ y <= 2.
Definition chain_pkgs : list (N * str) := [(0, [97]); (1, [98]); (2, [99])].
(* what guppy answers on this graph: depends_on x y iff x = y or x comes earlier in the chain *)
Definition chain_world : world := mkworld chain_pkgs (fun x y => x <=? y) [] [].
(* the same table with its arguments swapped *)
Definition chain_world_swapped : world := mkworld chain_pkgs (fun x y => y <=? x) [] [].

Lemma chain_closure x y :
  clos_refl_trans N chain_direct x y <-> x = y \/ (x < y /\ y <= 2).
Proof.
  split.
  - induction 1 as [x y [H1 H2]|x|x y z _ IH1 _ IH2]; lia.
  - intros [->|[Hlt Hle]]; [apply rt_refl|].
    assert (Hs : forall a b, chain_direct a b -> clos_refl_trans N chain_direct a b)
      by (intros; apply rt_step; assumption).
    assert (Hxy : (x = 0 /\ y = 1) \/ (x = 0 /\ y = 2) \/ (x = 1 /\ y = 2)) by lia.
    destruct Hxy as [[-> ->]|[[-> ->]|[-> ->]]].
    + apply Hs. unfold chain_direct. lia.
    + apply rt_trans with 1; apply Hs; unfold chain_direct; lia.
    + apply Hs. unfold chain_direct. lia.
Qed.

Lemma chain_graph_ok : graph_ok chain_direct chain_world.
Proof.
  intros a b Ha Hb. cbn [chain_world w_depends_on]. rewrite chain_closure, N.leb_le.
  cbn in Ha, Hb. lia.
Qed.

(* the swapped table is not a model of this graph: the hypothesis rejects it *)
Lemma chain_swapped_not_ok : ~ graph_ok chain_direct chain_world_swapped.
Proof.
  intros H. specialize (H 0 1). cbn in H.
  assert (H01 : clos_refl_trans N chain_direct 0 1) by (apply chain_closure; lia).
  apply H in H01; [discriminate|tauto|tauto].
Qed.

Definition chain_q (p : N) : tquery := (mkbq p [] [] [] PTarget, []).
Definition deps_b : pexpr := PSet (SDeps (MEqual [98] false)).      (* deps(=b) *)
Definition rdeps_b : pexpr := PSet (SRdeps (MEqual [98] false)).    (* rdeps(=b) *)

(* in the SPECIFICATION: deps(=b) = tests of {b, c}; rdeps(=b) = tests of {a, b} *)
Lemma chain_spec_deps E dt p :
  spec_member chain_direct E chain_world dt deps_b (chain_q p) <-> p = 1 \/ p = 2.
Proof.
  cbn [spec_member deps_b doc_set doc_name_match chain_q fst q_pkg chain_world w_pkgs]. split.
  - intros (x & name & Hin & -> & Hc). apply chain_closure in Hc.
    cbn in Hin. destruct Hin as [H|[H|[H|[]]]]; inversion H; subst; lia.
  - intros Hp. exists 1, [98]. split; [cbn; tauto|]. split; [reflexivity|].
    apply chain_closure. lia.
Qed.

Lemma chain_spec_rdeps E dt p :
  spec_member chain_direct E chain_world dt rdeps_b (chain_q p) <-> p = 0 \/ p = 1.
Proof.
  cbn [spec_member rdeps_b doc_set doc_name_match chain_q fst q_pkg chain_world w_pkgs]. split.
  - intros (x & name & Hin & -> & Hc). apply chain_closure in Hc.
    cbn in Hin. destruct Hin as [H|[H|[H|[]]]]; inversion H; subst; lia.
  - intros Hp. exists 1, [98]. split; [cbn; tauto|]. split; [reflexivity|].
    apply chain_closure. lia.
Qed.

(* ---------------------------------------------------------------- a regex oracle that errs (C20)
   [rx_sane] is the only hypothesis of C20_spans_within.  An instance that never reports an error
   satisfies it vacuously; this one rejects every pattern containing an opening parenthesis and
   reports the byte span of the first one (as regex_syntax does for an unclosed group). *)
Fixpoint first_open (p : str) (off : N) : option N :=
  match p with
  | [] => None
  | c :: r => if c =? 40 then Some off else first_open r (off + utf8_len c)
  end.

Definition paren_engine : syntax_oracle :=
  mksyn (fun _ => true)
        (fun p => match first_open p 0 with Some off => RxErr off 1 | None => RxOk end).

Lemma first_open_within p : forall off0 off,
  first_open p off0 = Some off -> off + 1 <= off0 + blen p.
Proof.
  induction p as [|c r IH]; intros off0 off; cbn [first_open blen]; [discriminate|].
  destruct (c =? 40) eqn:E.
  - intros H; injection H as <-. apply N.eqb_eq in E. subst c. change (utf8_len 40) with 1. lia.
  - intros H. apply IH in H. unfold utf8_len in *. destruct (c <? 128), (c <? 2048), (c <? 65536); lia.
Qed.

Lemma paren_engine_sane : rx_sane paren_engine.
Proof.
  intros p off len. cbn [paren_engine regex_check].
  destruct (first_open p 0) as [o|] eqn:E; [|discriminate].
  intros H; injection H as <- <-. apply first_open_within in E. lia.
Qed.
