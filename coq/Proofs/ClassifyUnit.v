(* C03 tied to the unit state machine (Model/UnitTimers.v, imported read-only).
   Model/Classify.v classifies an attempt from flags ([timed_out], [leaked]) that it takes as
   inputs; here the flags are the ones the unit machine computes from an event history:
   - the result the machine reports ([uresult]) is [attempt_result] applied to the machine's own
     [timed_out] / [leaked] flags and any wait status whose success bit is the machine's;
   - [timed_out] is set exactly on the terminate-for-timeout path: some interval expiry in the
     running loop reached terminate-after (and then the group was signalled, unless the child had
     already been reaped);
   - [leaked] is set exactly when the leak timer fires in detect_fd_leaks with a pipe still open,
     which is never earlier than leak-timeout after the exit was observed;
   - over Classify's own timed fd-event histories: LEAK iff exit 0 and a handle still open when the
     leak timer fires (the two halves C03_leak_iff / C03_detect_leak_spec composed). *)
From NextestModel Require Import Base.Str Base.Tac Model.Clocks Model.UnitTimers Model.Classify
     Proofs.Classify Proofs.UnitProps.
Open Scope N_scope.

(* ------------------------------------------------------------------ the result *)
(* the machine's four-valued result as an abstraction of ExecutionResult; ExecFail (spawn error,
   read error) is outside the machine: it starts after a successful spawn and has no read errors *)
Definition ures_of (r : result) : option ures :=
  match r with
  | Pass => Some UPass
  | Classify.Leak => Some ULeak
  | Fail _ _ => Some UFail
  | Timeout => Some UTimeout
  | ExecFail => None
  end.

Lemma uresult_is_attempt_result s st :
  st_success st = exit_ok s ->
  ures_of (attempt_result false (timed_out s) st false (UnitTimers.leaked s)) = Some (uresult s).
Proof.
  intros H. unfold attempt_result, create_execution_result, uresult. rewrite H.
  destruct (timed_out s); [reflexivity|].
  destruct (exit_ok s); [destruct (UnitTimers.leaked s)|]; reflexivity.
Qed.

(* ------------------------------------------------------------------ splitting one step *)
Ltac arm_bind :=
  match goal with
  | |- context [obind (exec_arm ?rp ?c ?a) _] =>
      let x := fresh "x" in destruct (exec_arm rp c a) as [x|]
  end.

Ltac red_step :=
  cbn [fst snd ph ck lsl hits timed_out slow reaped exit_ok UnitTimers.leaked fds_done
       mk with_ph with_ck with_lsl with_hits with_timed_out with_slow with_reaped
       with_leaked with_fds_done after_exit leave_terminate obind is_terminating
       is_kill andb negb app].

Ltac split_step :=
  repeat first
    [ progress red_step
    | arm_bind
    | match goal with
      | |- context [if ?b then _ else _] => destruct b eqn:?
      end ].

Ltac bool_hyps :=
  repeat match goal with
  | H : _ && _ = true |- _ => apply andb_true_iff in H; destruct H
  | H : negb _ = true |- _ => apply negb_true_iff in H
  | H : _ && _ = false |- _ => apply andb_false_iff in H; destruct H
  | H : negb _ = false |- _ => apply negb_false_iff in H
  end.

(* all the ways one event can be processed, with the state and the event fully exposed *)
Ltac all_steps s e :=
  destruct s as [p c l h to sl rp ex lk fd];
  destruct e as [dt| | | |ok| |[| |[[]|]| |]];
  destruct p as [|[]| | |];
  unfold ustep, annotate, ucore, enter_terminate, timeout_method, shutdown_method, sig_of_shut,
    after_exit, leave_terminate;
  split_step;
  try discriminate.

(* ------------------------------------------------------------------ the timeout path *)
(* being, or having been, terminated for a timeout (= Proofs.UnitProps.past_timeout) *)
Definition timeout_pending (s : ustate) : Prop :=
  timed_out s = true \/ ph s = PTerminating TTimeout.

Lemma timeout_pending_is_past_timeout s : timeout_pending s <-> past_timeout s.
Proof. reflexivity. Qed.

(* the event that enters the terminate-for-timeout path: the slow-timeout interval expires in the
   running loop (run_test_inner's select) and the expiry count reaches terminate-after *)
Definition timeout_fire (cfg : ucfg) (s : ustate) (e : uevent) : Prop :=
  e = FireInterval /\ ph s = PRunning /\ slc_due (k_isl (ck s)) = true /\ timed_out s = false /\
  will_terminate cfg (hits s + 1) = true.

Lemma ustep_timeout_pending tbl cfg s e r :
  ustep tbl cfg s e = Ok r ->
  (timeout_pending (fst r) <-> timeout_pending s \/ timeout_fire cfg s e).
Proof.
  unfold timeout_pending, timeout_fire.
  all_steps s e.
  all: intros H; injection H as <-; red_step; bool_hyps.
  all: intuition (try discriminate; try congruence).
Qed.

(* ------------------------------------------------------------------ from steps to histories *)
Section Path.
  Variable tbl : ptable.
  Variable cfg : ucfg.
  Variable fire : ustate -> uevent -> Prop.
  Variable Q : ustate -> Prop.
  Hypothesis step_iff : forall s e r,
    ustep tbl cfg s e = Ok r -> (Q (fst r) <-> Q s \/ fire s e).

  (* some event of the history, in the state the machine was in when it arrived, satisfied [fire] *)
  Fixpoint on_path (s : ustate) (es : list uevent) : Prop :=
    match es with
    | [] => False
    | e :: es' =>
        fire s e \/
        match ustep tbl cfg s e with
        | Ok r1 => on_path (fst r1) es'
        | Panicked => False
        end
    end.

  Lemma urun_iff : forall es s r,
    urun tbl cfg s es = Ok r -> (Q (fst r) <-> Q s \/ on_path s es).
  Proof.
    induction es as [|e es IH]; intros s r H; cbn [urun on_path] in *.
    - injection H as <-. cbn [fst]. tauto.
    - destruct (ustep tbl cfg s e) as [r1|] eqn:E1; cbn [obind] in H; [|discriminate].
      destruct (urun tbl cfg (fst r1) es) as [r2|] eqn:E2; cbn [obind] in H; [|discriminate].
      injection H as <-. cbn [fst].
      rewrite (IH _ _ E2). rewrite (step_iff _ _ _ E1). tauto.
  Qed.

  (* the same thing said with an explicit split of the history *)
  Lemma on_path_split : forall es s r,
    urun tbl cfg s es = Ok r ->
    (on_path s es <->
     exists es1 e es2 r1, es = es1 ++ e :: es2 /\ urun tbl cfg s es1 = Ok r1 /\ fire (fst r1) e).
  Proof.
    induction es as [|e es IH]; intros s r H; cbn [urun on_path] in *.
    - split; [tauto|]. intros (es1 & e & es2 & r1 & He & _). destruct es1; discriminate.
    - destruct (ustep tbl cfg s e) as [r1|] eqn:E1; cbn [obind] in H; [|discriminate].
      destruct (urun tbl cfg (fst r1) es) as [r2|] eqn:E2; cbn [obind] in H; [|discriminate].
      split.
      + intros [Hf|Hp].
        * exists [], e, es, (s, []). cbn. auto.
        * apply (IH _ _ E2) in Hp. destruct Hp as (es1 & e' & es2 & r1' & -> & Hr & Hf).
          exists (e :: es1), e', es2, (fst r1', snd r1 ++ snd r1'). cbn [app urun fst].
          rewrite E1. cbn [obind]. rewrite Hr. cbn [obind]. auto.
      + intros (es1 & e' & es2 & r1' & He & Hr & Hf).
        destruct es1 as [|e1 es1]; cbn [app] in He; injection He as -> ->.
        * cbn [urun] in Hr. injection Hr as <-. left. exact Hf.
        * right. cbn [urun] in Hr. rewrite E1 in Hr. cbn [obind] in Hr.
          destruct (urun tbl cfg (fst r1) es1) as [r3|] eqn:E3; cbn [obind] in Hr; [|discriminate].
          injection Hr as <-. apply (IH _ _ E2). exists es1, e', es2, r3. auto.
  Qed.
End Path.

(* ------------------------------------------------------------------ timeout: the theorem *)
Definition timeout_path (tbl : ptable) (cfg : ucfg) : ustate -> list uevent -> Prop :=
  on_path tbl cfg (timeout_fire cfg).

Lemma urun_timeout_pending tbl cfg es s r :
  urun tbl cfg s es = Ok r ->
  (timeout_pending (fst r) <-> timeout_pending s \/ timeout_path tbl cfg s es).
Proof. apply urun_iff. apply ustep_timeout_pending. Qed.

Lemma init_not_pending cfg : ~ timeout_pending (uinit cfg).
Proof. intros [H|H]; discriminate. Qed.

(* over every history of the unit from its spawn: the unit is being, or has been, terminated for a
   timeout iff the terminate-for-timeout path was entered *)
Theorem timeout_pending_iff_path tbl cfg es r :
  urun tbl cfg (uinit cfg) es = Ok r ->
  (timeout_pending (fst r) <-> timeout_path tbl cfg (uinit cfg) es).
Proof.
  intros H. rewrite (urun_timeout_pending _ _ _ _ _ H).
  pose proof (init_not_pending cfg). tauto.
Qed.

(* in every state outside terminate_child -- in particular every final state -- the flag the
   result is computed from says exactly that *)
Theorem timed_out_iff_path tbl cfg es r :
  urun tbl cfg (uinit cfg) es = Ok r -> ph (fst r) <> PTerminating TTimeout ->
  (timed_out (fst r) = true <-> timeout_path tbl cfg (uinit cfg) es).
Proof.
  intros H Hp. rewrite <- (timeout_pending_iff_path _ _ _ _ H). unfold timeout_pending. tauto.
Qed.

(* the same with the entering step spelled out *)
Theorem timed_out_iff_split tbl cfg es r :
  urun tbl cfg (uinit cfg) es = Ok r -> ph (fst r) <> PTerminating TTimeout ->
  (timed_out (fst r) = true <->
   exists es1 e es2 r1, es = es1 ++ e :: es2 /\ urun tbl cfg (uinit cfg) es1 = Ok r1 /\
     e = FireInterval /\ ph (fst r1) = PRunning /\ slc_due (k_isl (ck (fst r1))) = true /\
     timed_out (fst r1) = false /\ will_terminate cfg (hits (fst r1) + 1) = true).
Proof.
  intros H Hp. rewrite (timed_out_iff_path tbl cfg es r H Hp).
  exact (on_path_split tbl cfg (timeout_fire cfg) es (uinit cfg) r H).
Qed.

(* what entering the path does: the process group is sent the configured termination signal
   (SIGKILL when the grace period is zero, else SIGTERM), unless the child had already been reaped
   (terminate_child returns at once when child.id() is None) *)
Lemma timeout_fire_signals tbl cfg s e r :
  ustep tbl cfg s e = Ok r -> timeout_fire cfg s e ->
  timeout_pending (fst r) /\
  (reaped s = false -> In (OSignal (timeout_method cfg)) (snd r)) /\
  (reaped s = true -> timed_out (fst r) = true).
Proof.
  unfold timeout_pending, timeout_fire.
  all_steps s e.
  all: intros H; injection H as <-; red_step; bool_hyps.
  all: intros (He & Hp & Hd & Hto & Hw); try discriminate; try congruence.
  all: repeat split; auto; try (intros; discriminate); intros _; cbn [In app]; tauto.
Qed.

(* ------------------------------------------------------------------ leak *)
(* the event that sets the leak flag: the leak timer (armed when detect_fd_leaks is entered)
   completes while a pipe is still open *)
Definition leak_fire (s : ustate) (e : uevent) : Prop :=
  e = FireLeak /\ ph s = PExiting /\ slc_due (lsl s) = true /\ fds_done s = false.

Lemma ustep_leaked tbl cfg s e r :
  ustep tbl cfg s e = Ok r ->
  (UnitTimers.leaked (fst r) = true <-> UnitTimers.leaked s = true \/ leak_fire s e).
Proof.
  unfold leak_fire.
  all_steps s e.
  all: intros H; injection H as <-; red_step; bool_hyps.
  all: intuition (try discriminate; try congruence).
Qed.

Definition leak_path (tbl : ptable) (cfg : ucfg) : ustate -> list uevent -> Prop :=
  on_path tbl cfg leak_fire.

Theorem leaked_iff_path tbl cfg es r :
  urun tbl cfg (uinit cfg) es = Ok r ->
  (UnitTimers.leaked (fst r) = true <-> leak_path tbl cfg (uinit cfg) es).
Proof.
  intros H.
  rewrite (urun_iff tbl cfg leak_fire (fun s => UnitTimers.leaked s = true)
             (ustep_leaked tbl cfg) _ _ _ H).
  cbn. intuition discriminate.
Qed.

Theorem leaked_iff_split tbl cfg es r :
  urun tbl cfg (uinit cfg) es = Ok r ->
  (UnitTimers.leaked (fst r) = true <->
   exists es1 e es2 r1, es = es1 ++ e :: es2 /\ urun tbl cfg (uinit cfg) es1 = Ok r1 /\
     e = FireLeak /\ ph (fst r1) = PExiting /\ slc_due (lsl (fst r1)) = true /\
     fds_done (fst r1) = false).
Proof.
  intros H. rewrite (leaked_iff_path tbl cfg es r H).
  exact (on_path_split tbl cfg leak_fire es (uinit cfg) r H).
Qed.

(* "past the leak timeout": time spent in detect_fd_leaks (phase PExiting) along a history *)
Fixpoint exiting_time (tbl : ptable) (cfg : ucfg) (s : ustate) (es : list uevent) : N :=
  match es with
  | [] => 0
  | e :: es' =>
      match e, ph s with Tick dt, PExiting => dt | _, _ => 0 end +
      match ustep tbl cfg s e with
      | Ok r1 => exiting_time tbl cfg (fst r1) es'
      | Panicked => 0
      end
  end.

Definition leak_inv (cfg : ucfg) (s : ustate) (T : N) : Prop :=
  lpaused (lsl s) = false /\
  leak_timeout cfg <= rem (lsl s) + T /\
  (UnitTimers.leaked s = true -> leak_timeout cfg <= T).

Lemma leak_inv_init cfg : leak_inv cfg (uinit cfg) 0.
Proof. unfold leak_inv. cbn. repeat split; [lia|discriminate]. Qed.

Lemma leak_inv_step tbl cfg s e r T :
  ustep tbl cfg s e = Ok r -> leak_inv cfg s T ->
  leak_inv cfg (fst r) (T + match e, ph s with Tick dt, PExiting => dt | _, _ => 0 end).
Proof.
  unfold leak_inv.
  all_steps s e.
  all: intros H; injection H as <-; red_step; bool_hyps.
  all: unfold slc_due, slc_tick in *; cbn [rem lpaused] in *.
  all: intros (Hl & Hr & Hk); try rewrite Hl in *; cbn [rem lpaused negb andb] in *.
  all: repeat match goal with H : (_ =? _) = true |- _ => apply N.eqb_eq in H end.
  all: repeat split; try reflexivity; try assumption; try lia; try (intros HH; specialize (Hk HH); lia).
Qed.

Lemma leak_inv_run tbl cfg : forall es s r T,
  urun tbl cfg s es = Ok r -> leak_inv cfg s T ->
  leak_inv cfg (fst r) (T + exiting_time tbl cfg s es).
Proof.
  induction es as [|e es IH]; intros s r T H Hi; cbn [urun exiting_time] in *.
  - injection H as <-. rewrite N.add_0_r. exact Hi.
  - destruct (ustep tbl cfg s e) as [r1|] eqn:E1; cbn [obind] in H; [|discriminate].
    destruct (urun tbl cfg (fst r1) es) as [r2|] eqn:E2; cbn [obind] in H; [|discriminate].
    injection H as <-. cbn [fst]. rewrite N.add_assoc.
    apply (IH _ _ _ E2). apply (leak_inv_step _ _ _ _ _ _ E1 Hi).
Qed.

(* a leak is reported only after the unit has waited in detect_fd_leaks for the whole leak
   timeout *)
Theorem leaked_not_early tbl cfg es r :
  urun tbl cfg (uinit cfg) es = Ok r -> UnitTimers.leaked (fst r) = true ->
  leak_timeout cfg <= exiting_time tbl cfg (uinit cfg) es.
Proof.
  intros H Hl. pose proof (leak_inv_run tbl cfg es _ _ 0 H (leak_inv_init cfg)) as (_ & _ & Hk).
  rewrite N.add_0_l in Hk. auto.
Qed.

(* ------------------------------------------------------------------ the wait status *)
(* the success bit the result is computed from is that of a child-exit event of the history, and
   a unit that has left its wait loops has reaped its child *)
Definition exit_inv (s : ustate) (seen : list uevent) : Prop :=
  ((ph s = PExiting \/ ph s = PDone) -> reaped s = true) /\
  (reaped s = true -> In (ChildExit (exit_ok s)) seen) /\
  (reaped s = false -> exit_ok s = false).

Lemma exit_inv_step tbl cfg s e r seen :
  ustep tbl cfg s e = Ok r -> exit_inv s seen -> exit_inv (fst r) (seen ++ [e]).
Proof.
  unfold exit_inv.
  all_steps s e.
  all: intros H; injection H as <-; red_step; bool_hyps.
  all: intros (H1 & H2 & H3); repeat split; intros;
    try discriminate; try (apply in_or_app; cbn [In]; tauto);
    try (subst; try discriminate; intuition congruence).
Qed.

Lemma exit_inv_run tbl cfg : forall es s r seen,
  urun tbl cfg s es = Ok r -> exit_inv s seen -> exit_inv (fst r) (seen ++ es).
Proof.
  induction es as [|e es IH]; intros s r seen H Hi; cbn [urun] in H.
  - injection H as <-. rewrite app_nil_r. exact Hi.
  - destruct (ustep tbl cfg s e) as [r1|] eqn:E1; cbn [obind] in H; [|discriminate].
    destruct (urun tbl cfg (fst r1) es) as [r2|] eqn:E2; cbn [obind] in H; [|discriminate].
    injection H as <-. cbn [fst].
    replace (seen ++ e :: es) with ((seen ++ [e]) ++ es) by (rewrite <- app_assoc; reflexivity).
    apply (IH _ _ _ E2). apply (exit_inv_step _ _ _ _ _ _ E1 Hi).
Qed.

Theorem final_status_from_history tbl cfg es r :
  urun tbl cfg (uinit cfg) es = Ok r -> ph (fst r) = PDone ->
  reaped (fst r) = true /\ In (ChildExit (exit_ok (fst r))) es.
Proof.
  intros H Hp.
  assert (Hi : exit_inv (uinit cfg) []) by (unfold exit_inv; cbn; intuition discriminate).
  pose proof (exit_inv_run tbl cfg es _ _ [] H Hi) as (H1 & H2 & _). cbn [app] in H2. auto.
Qed.

(* ------------------------------------------------------------------ packaged: unit histories *)
(* The result the unit reports, for any wait status [st] whose success bit is the one the machine
   recorded, is Classify's [attempt_result] with the machine's own flags, and those flags are
   theorems about the history. *)
Theorem unit_result_classified tbl cfg es r st :
  urun tbl cfg (uinit cfg) es = Ok r -> ph (fst r) <> PTerminating TTimeout ->
  st_success st = exit_ok (fst r) ->
  let res := attempt_result false (timed_out (fst r)) st false (UnitTimers.leaked (fst r)) in
  ures_of res = Some (uresult (fst r)) /\
  (res = Timeout <-> timeout_path tbl cfg (uinit cfg) es) /\
  (res = Classify.Leak <->
   st = Exited 0 /\ ~ timeout_path tbl cfg (uinit cfg) es /\ leak_path tbl cfg (uinit cfg) es) /\
  (is_success res = true <-> st = Exited 0 /\ ~ timeout_path tbl cfg (uinit cfg) es).
Proof.
  intros H Hp Hst res. subst res.
  pose proof (timed_out_iff_path _ _ _ _ H Hp) as Ht.
  pose proof (leaked_iff_path _ _ _ _ H) as Hl.
  split; [apply uresult_is_attempt_result; exact Hst|].
  rewrite attempt_timeout_iff, attempt_leak_iff, attempt_success_iff.
  rewrite <- Ht, <- Hl.
  destruct (timed_out (fst r)); destruct (UnitTimers.leaked (fst r)); intuition congruence.
Qed.

(* TIMEOUT is reported only when a time limit is configured and at least that much real time has
   passed since the spawn (Proofs.UnitProps.never_terminated_early, re-stated on the path) *)
Theorem timeout_path_exceeds_limit tbl cfg es r :
  cfg_valid cfg -> urun tbl cfg (uinit cfg) es = Ok r -> timeout_path tbl cfg (uinit cfg) es ->
  exists ta, terminate_after cfg = Some ta /\ ta * period cfg <= real_time es.
Proof.
  intros Hv H Hp. apply (never_terminated_early tbl cfg es r Hv H).
  apply timeout_pending_is_past_timeout. apply (timeout_pending_iff_path _ _ _ _ H). exact Hp.
Qed.

(* ------------------------------------------------------------------ packaged: fd histories *)
(* Model/Classify's own timed event lists after the exit: a handle is still open when the leak
   timer fires iff EOF never comes or comes at/after the timeout *)
Definition open_at (timeout : N) (evs : list (N * fd_event)) : Prop :=
  match time_to_eof evs with Some te => timeout <= te | None => True end.

Theorem leak_iff_history : forall sf to st errs timeout evs,
  times_sorted 0 evs = true ->
  (attempt_result sf to st errs (detect_leak timeout evs) = Classify.Leak <->
   sf = false /\ to = false /\ errs = false /\ st = Exited 0 /\ open_at timeout evs).
Proof.
  intros sf to st errs timeout evs Hs. rewrite attempt_leak_iff.
  unfold open_at. rewrite (detect_leak_spec timeout evs 0 Hs). tauto.
Qed.

Theorem pass_iff_history : forall sf to st errs timeout evs,
  times_sorted 0 evs = true ->
  (attempt_result sf to st errs (detect_leak timeout evs) = Pass <->
   sf = false /\ to = false /\ errs = false /\ st = Exited 0 /\ ~ open_at timeout evs).
Proof.
  intros sf to st errs timeout evs Hs. rewrite attempt_pass_iff.
  unfold open_at. rewrite <- (detect_leak_spec timeout evs 0 Hs).
  destruct (detect_leak timeout evs); intuition congruence.
Qed.
