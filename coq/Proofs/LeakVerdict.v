(* Facts about Model/LeakVerdict.v: the reported verdict is the detection's answer. *)
From NextestModel Require Import Base.Tac Base.Str Model.Classify Proofs.Classify Model.LeakVerdict.
Open Scope N_scope.

(* LEAK is reported iff the attempt ran to exit code 0 with readable output AND the detection said a handle was still open *)
Lemma leak_reported_iff_detected :
  forall sf to st errs detected,
    attempt_result_detected sf to st errs detected = Leak <->
    sf = false /\ to = false /\ errs = false /\ st = Exited 0 /\ detected = true.
Proof. intros. unfold attempt_result_detected, verdict_of_detection. apply attempt_leak_iff. Qed.

(* PASS is reported iff, in addition, the detection said every handle was closed *)
Lemma pass_reported_iff_not_detected :
  forall sf to st errs detected,
    attempt_result_detected sf to st errs detected = Pass <->
    sf = false /\ to = false /\ errs = false /\ st = Exited 0 /\ detected = false.
Proof. intros. unfold attempt_result_detected, verdict_of_detection. apply attempt_pass_iff. Qed.

(* a failure carries the detection's answer *)
Lemma fail_carries_detection :
  forall sf to st errs detected sg lk,
    attempt_result_detected sf to st errs detected = Fail sg lk -> lk = detected.
Proof.
  intros sf to st errs detected sg lk H. unfold attempt_result_detected, verdict_of_detection in H.
  apply attempt_fail_iff in H. tauto.
Qed.
